/-
  Value-context lowering, part 7: compileLogicalOpExpr (the two operands, the LOADBOOL pair, the removal of the
  final jump, the end label) and the main induction.
-/
import GLua.Proofs.LoweringValue6
import GLua.Proofs.LoweringArith

namespace GLua.Lowering
open GLua.Compile GLua.MiniVM GLua.CondSpec

variable [NumStruct]
set_option linter.unusedSectionVars false
variable {V : Type}

/-- from any exit of the operands to the end of the expression: through the end label directly, or through
    `LOADBOOL a 1 0` (lb.t) / `LOADBOOL a 0 1` + skip (lb.f, also reached by falling out of the last operand). -/
theorem logical_finish (d : Dom V) (F : CState) (lb : LbLabels) (reg a : Nat) (ρ : Nat → V) (γ : Nat → V) (n endpc : Nat) (bfin : Bool)
    (hE : tgt F lb.e = endpc)
    (hb : bfin = true → F.code[n]? = some (.loadbool a 0 1) ∧ F.code[n + 1]? = some (.loadbool a 1 0) ∧
        tgt F lb.f = n ∧ tgt F lb.t = n + 1 ∧ endpc = n + 2)
    (v : V) (pc : Nat) (ρ' : Nat → V)
    (h : ExitE ⟨F, lb, reg, a, d, ρ⟩ v bfin pc ρ' ∨ (pc = n ∧ v = d.falseV ∧ bfin = true ∧ DestFrame reg a ρ ρ')) :
    ∃ ρ'', Reaches d (P0 F) F.consts ⟨pc, ρ', γ⟩ ⟨endpc, ρ'', γ⟩ ∧ ρ'' a = v ∧ DestFrame reg a ρ ρ'' := by
  have viaF : ∀ (hbt : bfin = true), pc = n → v = d.falseV → DestFrame reg a ρ ρ' →
      ∃ ρ'', Reaches d (P0 F) F.consts ⟨pc, ρ', γ⟩ ⟨endpc, ρ'', γ⟩ ∧ ρ'' a = v ∧ DestFrame reg a ρ ρ'' := by
    intro hbt hpc hv hd'
    obtain ⟨h1, _, _, _, hend⟩ := hb hbt
    subst hpc
    refine ⟨setReg ρ' a d.falseV, ?_, by rw [setReg_same, hv], hd'.setReg _⟩
    refine Reaches.single ?_
    simp [step, P0_get_nonjmp h1 rfl, hend]
  rcases h with (⟨h1, h2, h3⟩ | ⟨h1, h2, h3, h4⟩ | ⟨h1, h2, h3, h4⟩) | ⟨h1, h2, h3, h4⟩
  · exact ⟨ρ', by rw [h1]; exact hE ▸ .refl _, h2, h3⟩
  · obtain ⟨_, hc2, _, ht, hend⟩ := hb h3
    have hpc : pc = n + 1 := by rw [h1]; exact ht
    subst hpc
    refine ⟨setReg ρ' a d.trueV, ?_, by rw [setReg_same, h2], h4.setReg _⟩
    refine Reaches.single ?_
    simp [step, P0_get_nonjmp hc2 rfl, hend]
  · obtain ⟨_, _, hf, _, _⟩ := hb h3
    exact viaF h3 (by rw [h1]; exact hf) h2 h4
  · exact viaF h3 h1 h2 h4

/-- facts about the tail of compileLogicalOpExpr that both operators share. -/
theorem logical_tail_facts (F r2st : CState) (a : Nat) (lb : LbLabels) (b : Bool)
    (hne : lb.e ≠ lb.t ∧ lb.e ≠ lb.f ∧ lb.t ≠ lb.f)
    (hF : (logicalTail r2st a lb b).code <+: F.code)
    (hlabE : getLabelPc F lb.e = getLabelPc (logicalTail r2st a lb b) lb.e)
    (hlabT : getLabelPc F lb.t = getLabelPc (logicalTail r2st a lb b) lb.t)
    (hlabF : getLabelPc F lb.f = getLabelPc (logicalTail r2st a lb b) lb.f) :
    tgt F lb.e = (logicalTail r2st a lb b).code.length ∧
    Emb F r2st.code lb.e (false = false ∧ lb.e = lb.e) ∧
    (b = true → F.code[r2st.code.length]? = some (.loadbool a 0 1) ∧ F.code[r2st.code.length + 1]? = some (.loadbool a 1 0) ∧
        tgt F lb.f = r2st.code.length ∧ tgt F lb.t = r2st.code.length + 1 ∧
        (logicalTail r2st a lb b).code.length = r2st.code.length + 2) ∧
    (∀ L, L ≠ lb.e → L ≠ lb.t → L ≠ lb.f → getLabelPc (logicalTail r2st a lb b) L = getLabelPc r2st L) := by
  have hE1 : getLabelPc (logicalTail r2st a lb b) lb.e = ((logicalTail r2st a lb b).code.length : Int) - 1 := by
    unfold logicalTail; exact getLabelPc_setLabelHere_same _ _
  have htE : tgt F lb.e = (logicalTail r2st a lb b).code.length := by unfold tgt; rw [hlabE, hE1]; omega
  -- labels of the tail
  have hlabtail : ∀ L, L ≠ lb.e → getLabelPc (logicalTail r2st a lb b) L = getLabelPc (tailBools r2st a lb b) L := by
    intro L hL
    unfold logicalTail
    rw [getLabelPc_setLabelHere_other _ (Ne.symm hL)]
    rcases tailPop_cases (tailBools r2st a lb b) lb.e with h | ⟨h, _⟩ <;> rw [h] <;> rfl
  refine ⟨htE, ?_, ?_, ?_⟩
  · -- embedding of the operands' code
    unfold logicalTail at hF htE
    simp only [setLabelHere_code] at hF htE
    rcases tailPop_cases (tailBools r2st a lb b) lb.e with h | ⟨h, c, hc⟩
    · rw [h] at hF
      left
      refine List.IsPrefix.trans ?_ hF
      unfold tailBools; split
      · simp
      · exact List.prefix_refl _
    · rw [h] at hF htE
      cases hb : b with
      | true =>
        exfalso
        simp [tailBools, hb] at hc
        have := congrArg List.getLast? hc
        simp at this
      | false =>
        simp only [tailBools, hb, Bool.false_eq_true, if_false] at hc hF htE
        right
        refine ⟨⟨rfl, rfl⟩, c, hc, ?_, ?_⟩
        · simpa [hc] using hF
        · simpa [hc] using htE
  · intro hb
    subst hb
    have hcode : (logicalTail r2st a lb true).code = r2st.code ++ [.loadbool a 0 1, .loadbool a 1 0] := by
      unfold logicalTail
      simp only [setLabelHere_code]
      rcases tailPop_cases (tailBools r2st a lb true) lb.e with h | ⟨_, c, hc⟩
      · rw [h]; simp [tailBools]
      · exfalso
        simp [tailBools] at hc
        have := congrArg List.getLast? hc
        simp at this
    rw [hcode] at hF
    refine ⟨prefix_get_some hF (by simp), prefix_get_some hF (by simp), ?_, ?_, by rw [hcode]; simp⟩
    · unfold tgt
      rw [hlabF, hlabtail lb.f (Ne.symm hne.2.1)]
      simp only [tailBools, if_true, getLabelPc_emit]
      rw [getLabelPc_setLabelHere_other _ hne.2.2, getLabelPc_emit, getLabelPc_setLabelHere_same]
      omega
    · unfold tgt
      rw [hlabT, hlabtail lb.t (Ne.symm hne.1)]
      simp only [tailBools, if_true, getLabelPc_emit]
      rw [getLabelPc_setLabelHere_same]
      simp
  · intro L h1 h2 h3
    rw [hlabtail L h1]
    unfold tailBools
    split
    · simp only [getLabelPc_emit]
      rw [getLabelPc_setLabelHere_other _ (Ne.symm h2), getLabelPc_emit, getLabelPc_setLabelHere_other _ (Ne.symm h3)]
    · rfl


theorem exprSem_and (d : Dom V) (l r : Cond) (hl : AuxSem d l) (hr : AuxSem d r) :
    ExprSem d (.and l r) := by
  intro st F reg ec ρ γ v htop hloc hreg hsreg hev hok hF hK hlab
  simp only [rh] at hreg
  simp only [comp, newLabel] at hF hK hlab ⊢
  simp only [LocalsBelow] at hloc
  generalize hs4 : ({ st with labelId := st.labelId + 1 + 1 + 1 + 1 } : CState) = s4 at hF hK hlab ⊢
  have hs4_id : s4.labelId = st.labelId + 4 := by subst hs4; rfl
  have hs4_code : s4.code = st.code := by subst hs4; rfl
  have hs4_top : s4.regTop = st.regTop := by subst hs4; rfl
  generalize hlb : (⟨st.labelId + 1, st.labelId + 1 + 1, st.labelId⟩ : LbLabels) = lb at hF hK hlab ⊢
  have hlbe : lb.e = st.labelId := by subst hlb; rfl
  have hlbt : lb.t = st.labelId + 1 := by subst hlb; rfl
  have hlbf : lb.f = st.labelId + 2 := by subst hlb; rfl
  obtain ⟨f1, hlt1, hb1, _⟩ := (comp_frame l).2 s4 reg ec (st.labelId + 1 + 1 + 1) st.labelId false lb false (by rw [hs4_top]; exact htop)
  generalize hr1 : comp l (.aux reg ec (st.labelId + 1 + 1 + 1) st.labelId false lb false) s4 = r1 at hF hK hlab f1 hlt1 hb1 ⊢
  generalize hsc : setLabelHere r1.st (st.labelId + 1 + 1 + 1) = sc at hF hK hlab ⊢
  have hsc_code : sc.code = r1.st.code := by subst hsc; rfl
  have hsc_id : sc.labelId = r1.st.labelId := by subst hsc; rfl
  have hsc_top : sc.regTop = st.regTop := by subst hsc; simp [f1.regTop, hs4_top]
  have hsc_consts : sc.consts = r1.st.consts := by subst hsc; rfl
  obtain ⟨f2, hlt2, hb2, _⟩ := (comp_frame r).2 sc reg ec st.labelId st.labelId false lb r1.b (by rw [hsc_top]; exact htop)
  generalize hr2 : comp r (.aux reg ec st.labelId st.labelId false lb r1.b) sc = r2 at hF hK hlab f2 hlt2 hb2 ⊢
  have hid1 : st.labelId + 4 ≤ r1.st.labelId := by rw [← hs4_id]; exact f1.labelId
  have hid2 : r1.st.labelId ≤ r2.st.labelId := by rw [← hsc_id]; exact f2.labelId
  have hfinId : (logicalTail r2.st (savereg ec reg) lb r2.b).labelId = r2.st.labelId := by
    unfold logicalTail
    rcases tailPop_cases (tailBools r2.st (savereg ec reg) lb r2.b) lb.e with h | ⟨h, _⟩ <;> rw [h] <;>
      simp [tailBools] <;> split <;> rfl
  rw [hfinId] at hlab
  have hfinK : (logicalTail r2.st (savereg ec reg) lb r2.b).consts = r2.st.consts := by
    unfold logicalTail
    rcases tailPop_cases (tailBools r2.st (savereg ec reg) lb r2.b) lb.e with h | ⟨h, _⟩ <;> rw [h] <;>
      simp [tailBools] <;> split <;> rfl
  rw [hfinK] at hK
  obtain ⟨htE, hEmb, hbools, hlabrest⟩ := logical_tail_facts F r2.st (savereg ec reg) lb r2.b
    ⟨by rw [hlbe, hlbt]; omega, by rw [hlbe, hlbf]; omega, by rw [hlbt, hlbf]; omega⟩ hF
    (hlab lb.e (by rw [hlbe]; exact Nat.le_refl _) (by rw [hlbe]; omega))
    (hlab lb.t (by rw [hlbt]; omega) (by rw [hlbt]; omega))
    (hlab lb.f (by rw [hlbf]; omega) (by rw [hlbf]; omega))
  -- lookups of labels allocated by the operands and of nextcondlabel
  have hlabIn : ∀ L, st.labelId + 3 ≤ L → L < r2.st.labelId → getLabelPc F L = getLabelPc r2.st L := by
    intro L h1 h2
    rw [hlab L (by omega) h2, hlabrest L (by rw [hlbe]; omega) (by rw [hlbt]; omega) (by rw [hlbf]; omega)]
  have hnl : getLabelPc F (st.labelId + 1 + 1 + 1) = (r1.st.code.length : Int) - 1 := by
    rw [hlabIn _ (by omega) (by omega), f2.labels _ (by omega), ← hsc]
    exact getLabelPc_setLabelHere_same _ _
  have htgtN : tgt F (st.labelId + 1 + 1 + 1) = r1.st.code.length := by unfold tgt; rw [hnl]; omega
  have hpre1 : r1.st.code <+: F.code := by
    apply hEmb.prefix_lt (by rw [← hsc_code]; exact f2.code) (by rw [← hsc_code]; exact hlt2)
  have H1 : AuxHyp s4 F reg ec (st.labelId + 1 + 1 + 1) st.labelId false lb :=
    { htop := by rw [hs4_top]; exact htop, hreg := (by omega), hsreg := hsreg,
      hthen := by omega, helse := by omega, hle := by omega, hlt := by omega, hlf := by omega,
      het := by rw [hlbe, hlbt]; omega, hef := by rw [hlbe, hlbf]; omega,
      disc := ⟨fun h => Bool.noConfusion h, fun h => (by omega), fun h => (by omega)⟩,
      okThen := hok _, okElse := hok _, okE := hok _, okT := hok _, okF := hok _, allOK := hok }
  have H2 : AuxHyp sc F reg ec st.labelId st.labelId false lb :=
    { htop := by rw [hsc_top]; exact htop, hreg := (by omega), hsreg := hsreg,
      hthen := by omega, helse := by omega, hle := by omega, hlt := by omega, hlf := by omega,
      het := by rw [hlbe, hlbt]; omega, hef := by rw [hlbe, hlbf]; omega,
      disc := ⟨fun h => Bool.noConfusion h, fun _ => hlbe.symm, fun _ h => absurd rfl h⟩,
      okThen := hok _, okElse := hok _, okE := hok _, okT := hok _, okF := hok _, allOK := hok }
  -- how everything ends
  have finish : ∀ (pc : Nat) (ρ' : Nat → V),
      (ExitE ⟨F, lb, reg, savereg ec reg, d, ρ⟩ v r2.b pc ρ' ∨
        (pc = r2.st.code.length ∧ v = d.falseV ∧ r2.b = true ∧ DestFrame reg (savereg ec reg) ρ ρ')) →
      ∃ ρ'', Reaches d (P0 F) F.consts ⟨pc, ρ', γ⟩ ⟨(logicalTail r2.st (savereg ec reg) lb r2.b).code.length, ρ'', γ⟩ ∧
        ρ'' (savereg ec reg) = v ∧ DestFrame reg (savereg ec reg) ρ ρ'' :=
    fun pc ρ' h => logical_finish d F lb reg (savereg ec reg) ρ γ r2.st.code.length _ r2.b htE hbools v pc ρ' h
  -- the right operand, started from a register file that agrees with ρ below reg
  have runR : ∀ (ρ1 : Nat → V), FullFrame reg ρ ρ1 → eval d ρ γ r = some v →
      ∃ ρ'', Reaches d (P0 F) F.consts ⟨r1.st.code.length, ρ1, γ⟩ ⟨(logicalTail r2.st (savereg ec reg) lb r2.b).code.length, ρ'', γ⟩ ∧
        ρ'' (savereg ec reg) = v ∧ DestFrame reg (savereg ec reg) ρ ρ'' := by
    intro ρ1 hf1 hevr
    have hevr' : eval d ρ1 γ r = some v := by rw [eval_congr d hf1 r hloc.2]; exact hevr
    obtain ⟨ρ2, pc2, hreach2, hout2⟩ := hr sc F reg ec st.labelId st.labelId false lb r1.b ρ1 γ v H2 hloc.2 (by omega) hevr'
      (by rw [hr2, ← hlbe]; exact hEmb) (by rw [hr2]; exact hK)
      (by rw [hr2]; intro L h1 h2; exact hlabIn L (by omega) h2)
    rw [hr2] at hout2
    rw [hsc_code] at hreach2
    have hout := hout2.rebase (P := ⟨F, lb, reg, savereg ec reg, d, ρ1⟩) (ρ0 := ρ) hf1 (fun h => h)
    have hexit : ExitE ⟨F, lb, reg, savereg ec reg, d, ρ⟩ v r2.b pc2 ρ2 ∨
        (pc2 = r2.st.code.length ∧ v = d.falseV ∧ r2.b = true ∧ DestFrame reg (savereg ec reg) ρ ρ2) := by
      cases ht : d.truthy v with
      | true =>
        rcases hout.1 ht with h | ⟨_, h, _⟩
        · unfold JT at h; rw [if_pos hlbe.symm] at h; exact Or.inl h
        · exact absurd rfl h
      | false =>
        rcases hout.2 ht with h | ⟨h, _⟩ | ⟨_, h1, h2, h3, h4⟩
        · unfold JT at h; rw [if_pos hlbe.symm] at h; exact Or.inl h
        · cases h
        · exact Or.inr ⟨h1, h2, h3, h4⟩
    obtain ⟨ρ'', hfin, hv, hd'⟩ := finish pc2 ρ2 hexit
    exact ⟨ρ'', hreach2.trans hfin, hv, hd'⟩
  -- the left operand
  simp only [eval] at hev
  cases hvl : eval d ρ γ l with
  | none => simp [hvl] at hev
  | some vl =>
    simp only [hvl] at hev
    obtain ⟨ρ1, pc1, hreach1, hout1⟩ := hl s4 F reg ec (st.labelId + 1 + 1 + 1) st.labelId false lb false ρ γ vl H1 hloc.1 (by omega) hvl
      (by rw [hr1]; exact Or.inl hpre1)
      (by rw [hr1]; exact (hsc_consts ▸ f2.consts).trans hK)
      (by rw [hr1]; intro L h1 h2
          rw [hlabIn L (by omega) (by omega), f2.labels L (by omega), ← hsc, getLabelPc_setLabelHere_other _ (by omega)])
    rw [hr1] at hout1
    rw [hs4_code] at hreach1
    cases htl : d.truthy vl with
    | false =>
      simp only [htl] at hev
      cases hev
      rcases hout1.2 htl with h | ⟨h, _⟩ | ⟨h, _⟩
      · unfold JT at h; rw [if_pos hlbe.symm] at h
        obtain ⟨ρ'', hfin, hv, hd'⟩ := finish pc1 ρ1 (Or.inl (h.mono hb2))
        exact ⟨ρ'', hreach1.trans hfin, hv, hd'⟩
      · cases h
      · omega
    | true =>
      simp only [htl, if_true] at hev
      have hcont : pc1 = r1.st.code.length ∧ FullFrame reg ρ ρ1 := by
        rcases hout1.1 htl with h | ⟨_, _, h, hf⟩
        · unfold JT at h
          rw [if_neg (by rw [hlbe]; omega)] at h
          exact ⟨by rw [h.1, htgtN], h.2⟩
        · exact ⟨h, hf⟩
      obtain ⟨hpc1, hf1⟩ := hcont
      subst hpc1
      obtain ⟨ρ'', hfin, hv, hd'⟩ := runR ρ1 hf1 hev
      exact ⟨ρ'', hreach1.trans hfin, hv, hd'⟩


theorem exprSem_or (d : Dom V) (l r : Cond) (hl : AuxSem d l) (hr : AuxSem d r) :
    ExprSem d (.or l r) := by
  intro st F reg ec ρ γ v htop hloc hreg hsreg hev hok hF hK hlab
  simp only [rh] at hreg
  simp only [comp, newLabel] at hF hK hlab ⊢
  simp only [LocalsBelow] at hloc
  generalize hs4 : ({ st with labelId := st.labelId + 1 + 1 + 1 + 1 } : CState) = s4 at hF hK hlab ⊢
  have hs4_id : s4.labelId = st.labelId + 4 := by subst hs4; rfl
  have hs4_code : s4.code = st.code := by subst hs4; rfl
  have hs4_top : s4.regTop = st.regTop := by subst hs4; rfl
  generalize hlb : (⟨st.labelId + 1, st.labelId + 1 + 1, st.labelId⟩ : LbLabels) = lb at hF hK hlab ⊢
  have hlbe : lb.e = st.labelId := by subst hlb; rfl
  have hlbt : lb.t = st.labelId + 1 := by subst hlb; rfl
  have hlbf : lb.f = st.labelId + 2 := by subst hlb; rfl
  obtain ⟨f1, hlt1, hb1, _⟩ := (comp_frame l).2 s4 reg ec st.labelId (st.labelId + 1 + 1 + 1) true lb false (by rw [hs4_top]; exact htop)
  generalize hr1 : comp l (.aux reg ec st.labelId (st.labelId + 1 + 1 + 1) true lb false) s4 = r1 at hF hK hlab f1 hlt1 hb1 ⊢
  generalize hsc : setLabelHere r1.st (st.labelId + 1 + 1 + 1) = sc at hF hK hlab ⊢
  have hsc_code : sc.code = r1.st.code := by subst hsc; rfl
  have hsc_id : sc.labelId = r1.st.labelId := by subst hsc; rfl
  have hsc_top : sc.regTop = st.regTop := by subst hsc; simp [f1.regTop, hs4_top]
  have hsc_consts : sc.consts = r1.st.consts := by subst hsc; rfl
  obtain ⟨f2, hlt2, hb2, _⟩ := (comp_frame r).2 sc reg ec st.labelId st.labelId false lb r1.b (by rw [hsc_top]; exact htop)
  generalize hr2 : comp r (.aux reg ec st.labelId st.labelId false lb r1.b) sc = r2 at hF hK hlab f2 hlt2 hb2 ⊢
  have hid1 : st.labelId + 4 ≤ r1.st.labelId := by rw [← hs4_id]; exact f1.labelId
  have hid2 : r1.st.labelId ≤ r2.st.labelId := by rw [← hsc_id]; exact f2.labelId
  have hfinId : (logicalTail r2.st (savereg ec reg) lb r2.b).labelId = r2.st.labelId := by
    unfold logicalTail
    rcases tailPop_cases (tailBools r2.st (savereg ec reg) lb r2.b) lb.e with h | ⟨h, _⟩ <;> rw [h] <;>
      simp [tailBools] <;> split <;> rfl
  rw [hfinId] at hlab
  have hfinK : (logicalTail r2.st (savereg ec reg) lb r2.b).consts = r2.st.consts := by
    unfold logicalTail
    rcases tailPop_cases (tailBools r2.st (savereg ec reg) lb r2.b) lb.e with h | ⟨h, _⟩ <;> rw [h] <;>
      simp [tailBools] <;> split <;> rfl
  rw [hfinK] at hK
  obtain ⟨htE, hEmb, hbools, hlabrest⟩ := logical_tail_facts F r2.st (savereg ec reg) lb r2.b
    ⟨by rw [hlbe, hlbt]; omega, by rw [hlbe, hlbf]; omega, by rw [hlbt, hlbf]; omega⟩ hF
    (hlab lb.e (by rw [hlbe]; exact Nat.le_refl _) (by rw [hlbe]; omega))
    (hlab lb.t (by rw [hlbt]; omega) (by rw [hlbt]; omega))
    (hlab lb.f (by rw [hlbf]; omega) (by rw [hlbf]; omega))
  -- lookups of labels allocated by the operands and of nextcondlabel
  have hlabIn : ∀ L, st.labelId + 3 ≤ L → L < r2.st.labelId → getLabelPc F L = getLabelPc r2.st L := by
    intro L h1 h2
    rw [hlab L (by omega) h2, hlabrest L (by rw [hlbe]; omega) (by rw [hlbt]; omega) (by rw [hlbf]; omega)]
  have hnl : getLabelPc F (st.labelId + 1 + 1 + 1) = (r1.st.code.length : Int) - 1 := by
    rw [hlabIn _ (by omega) (by omega), f2.labels _ (by omega), ← hsc]
    exact getLabelPc_setLabelHere_same _ _
  have htgtN : tgt F (st.labelId + 1 + 1 + 1) = r1.st.code.length := by unfold tgt; rw [hnl]; omega
  have hpre1 : r1.st.code <+: F.code := by
    apply hEmb.prefix_lt (by rw [← hsc_code]; exact f2.code) (by rw [← hsc_code]; exact hlt2)
  have H1 : AuxHyp s4 F reg ec st.labelId (st.labelId + 1 + 1 + 1) true lb :=
    { htop := by rw [hs4_top]; exact htop, hreg := (by omega), hsreg := hsreg,
      hthen := by omega, helse := by omega, hle := by omega, hlt := by omega, hlf := by omega,
      het := by rw [hlbe, hlbt]; omega, hef := by rw [hlbe, hlbf]; omega,
      disc := ⟨fun _ => (by omega), fun h => (by omega), fun _ _ => rfl⟩,
      okThen := hok _, okElse := hok _, okE := hok _, okT := hok _, okF := hok _, allOK := hok }
  have H2 : AuxHyp sc F reg ec st.labelId st.labelId false lb :=
    { htop := by rw [hsc_top]; exact htop, hreg := (by omega), hsreg := hsreg,
      hthen := by omega, helse := by omega, hle := by omega, hlt := by omega, hlf := by omega,
      het := by rw [hlbe, hlbt]; omega, hef := by rw [hlbe, hlbf]; omega,
      disc := ⟨fun h => Bool.noConfusion h, fun _ => hlbe.symm, fun _ h => absurd rfl h⟩,
      okThen := hok _, okElse := hok _, okE := hok _, okT := hok _, okF := hok _, allOK := hok }
  -- how everything ends
  have finish : ∀ (pc : Nat) (ρ' : Nat → V),
      (ExitE ⟨F, lb, reg, savereg ec reg, d, ρ⟩ v r2.b pc ρ' ∨
        (pc = r2.st.code.length ∧ v = d.falseV ∧ r2.b = true ∧ DestFrame reg (savereg ec reg) ρ ρ')) →
      ∃ ρ'', Reaches d (P0 F) F.consts ⟨pc, ρ', γ⟩ ⟨(logicalTail r2.st (savereg ec reg) lb r2.b).code.length, ρ'', γ⟩ ∧
        ρ'' (savereg ec reg) = v ∧ DestFrame reg (savereg ec reg) ρ ρ'' :=
    fun pc ρ' h => logical_finish d F lb reg (savereg ec reg) ρ γ r2.st.code.length _ r2.b htE hbools v pc ρ' h
  -- the right operand, started from a register file that agrees with ρ below reg
  have runR : ∀ (ρ1 : Nat → V), FullFrame reg ρ ρ1 → eval d ρ γ r = some v →
      ∃ ρ'', Reaches d (P0 F) F.consts ⟨r1.st.code.length, ρ1, γ⟩ ⟨(logicalTail r2.st (savereg ec reg) lb r2.b).code.length, ρ'', γ⟩ ∧
        ρ'' (savereg ec reg) = v ∧ DestFrame reg (savereg ec reg) ρ ρ'' := by
    intro ρ1 hf1 hevr
    have hevr' : eval d ρ1 γ r = some v := by rw [eval_congr d hf1 r hloc.2]; exact hevr
    obtain ⟨ρ2, pc2, hreach2, hout2⟩ := hr sc F reg ec st.labelId st.labelId false lb r1.b ρ1 γ v H2 hloc.2 (by omega) hevr'
      (by rw [hr2, ← hlbe]; exact hEmb) (by rw [hr2]; exact hK)
      (by rw [hr2]; intro L h1 h2; exact hlabIn L (by omega) h2)
    rw [hr2] at hout2
    rw [hsc_code] at hreach2
    have hout := hout2.rebase (P := ⟨F, lb, reg, savereg ec reg, d, ρ1⟩) (ρ0 := ρ) hf1 (fun h => h)
    have hexit : ExitE ⟨F, lb, reg, savereg ec reg, d, ρ⟩ v r2.b pc2 ρ2 ∨
        (pc2 = r2.st.code.length ∧ v = d.falseV ∧ r2.b = true ∧ DestFrame reg (savereg ec reg) ρ ρ2) := by
      cases ht : d.truthy v with
      | true =>
        rcases hout.1 ht with h | ⟨_, h, _⟩
        · unfold JT at h; rw [if_pos hlbe.symm] at h; exact Or.inl h
        · exact absurd rfl h
      | false =>
        rcases hout.2 ht with h | ⟨h, _⟩ | ⟨_, h1, h2, h3, h4⟩
        · unfold JT at h; rw [if_pos hlbe.symm] at h; exact Or.inl h
        · cases h
        · exact Or.inr ⟨h1, h2, h3, h4⟩
    obtain ⟨ρ'', hfin, hv, hd'⟩ := finish pc2 ρ2 hexit
    exact ⟨ρ'', hreach2.trans hfin, hv, hd'⟩
  -- the left operand
  simp only [eval] at hev
  cases hvl : eval d ρ γ l with
  | none => simp [hvl] at hev
  | some vl =>
    simp only [hvl] at hev
    obtain ⟨ρ1, pc1, hreach1, hout1⟩ := hl s4 F reg ec st.labelId (st.labelId + 1 + 1 + 1) true lb false ρ γ vl H1 hloc.1 (by omega) hvl
      (by rw [hr1]; exact Or.inl hpre1)
      (by rw [hr1]; exact (hsc_consts ▸ f2.consts).trans hK)
      (by rw [hr1]; intro L h1 h2
          rw [hlabIn L (by omega) (by omega), f2.labels L (by omega), ← hsc, getLabelPc_setLabelHere_other _ (by omega)])
    rw [hr1] at hout1
    rw [hs4_code] at hreach1
    cases htl : d.truthy vl with
    | true =>
      simp only [htl, if_true] at hev
      cases hev
      rcases hout1.1 htl with h | ⟨h, _⟩
      · unfold JT at h; rw [if_pos hlbe.symm] at h
        obtain ⟨ρ'', hfin, hv, hd'⟩ := finish pc1 ρ1 (Or.inl (h.mono hb2))
        exact ⟨ρ'', hreach1.trans hfin, hv, hd'⟩
      · cases h
    | false =>
      simp only [htl] at hev
      have hcont : pc1 = r1.st.code.length ∧ FullFrame reg ρ ρ1 := by
        rcases hout1.2 htl with h | ⟨_, h, hf⟩ | ⟨h, _⟩
        · unfold JT at h
          rw [if_neg (by rw [hlbe]; omega)] at h
          exact ⟨by rw [h.1, htgtN], h.2⟩
        · exact ⟨h, hf⟩
        · omega
      obtain ⟨hpc1, hf1⟩ := hcont
      subst hpc1
      obtain ⟨ρ'', hfin, hv, hd'⟩ := runR ρ1 hf1 (by simpa using hev)
      exact ⟨ρ'', hreach1.trans hfin, hv, hd'⟩


/-- the main induction: expression mode, aux mode and the operand part of concatenation chains, all at once. -/
theorem value_main3 (d : Dom V) (hd : d.Lawful) : ∀ (e : Cond), ExprSem d e ∧ AuxSem d e ∧ ChainS d e := by
  intro e
  induction e with
  | tru => exact ⟨exprSem_leaf d .tru rfl, auxSem_tru d hd, fun _ _ h => by cases h⟩
  | fls => exact ⟨exprSem_leaf d .fls rfl, auxSem_fls d hd, fun _ _ h => by cases h⟩
  | nil => exact ⟨exprSem_leaf d .nil rfl, auxSem_nil d hd, fun _ _ h => by cases h⟩
  | num n => exact ⟨exprSem_leaf d (.num n) rfl, auxSem_num d hd n, fun _ _ h => by cases h⟩
  | str s => exact ⟨exprSem_leaf d (.str s) rfl, auxSem_str d hd s, fun _ _ h => by cases h⟩
  | loc r => exact ⟨exprSem_leaf d (.loc r) rfl, auxSem_loc d r, fun _ _ h => by cases h⟩
  | ev id => exact ⟨exprSem_leaf d (.ev id) rfl, auxSem_ev d id, fun _ _ h => by cases h⟩
  | not c ih =>
    have hex := exprSem_not d hd c (comp_frame c).1 ih.1
    exact ⟨hex, auxSem_not d c (comp_frame (.not c)).1 hex, fun _ _ h => by cases h⟩
  | unm c ih =>
    have hex := exprSem_unm d hd c (comp_frame c).1 ih.1
    exact ⟨hex, auxSem_unm d c (comp_frame (.unm c)).1 hex, fun _ _ h => by cases h⟩
  | len c ih =>
    have hex := exprSem_len d hd c (comp_frame c).1 ih.1
    exact ⟨hex, auxSem_len d c (comp_frame (.len c)).1 hex, fun _ _ h => by cases h⟩
  | arith op l r ihl ihr =>
    have hex := exprSem_arith d hd op l r (comp_frame l).1 (comp_frame r).1 ihl.1 ihr.1
    exact ⟨hex, auxSem_arith d op l r (comp_frame (.arith op l r)).1 hex, fun _ _ h => by cases h⟩
  | concat l r ihl ihr =>
    have hch := chainSem_concat d l r ihl.1 ihr.1 ihr.2.2
    have hex := exprSem_concat' d l r hch
    exact ⟨hex, auxSem_concat d l r (comp_frame (.concat l r)).1 hex, fun l' r' h => by cases h; exact hch⟩
  | rel op l r ihl ihr =>
    exact ⟨exprSem_rel d hd op l r (comp_frame l).1 (comp_frame r).1 ihl.1 ihr.1,
      auxSem_rel d hd op l r (comp_frame l).1 (comp_frame r).1 ihl.1 ihr.1, fun _ _ h => by cases h⟩
  | and l r ihl ihr => exact ⟨exprSem_and d l r ihl.2.1 ihr.2.1, auxSem_and d l r ihl.2.1 ihr.2.1, fun _ _ h => by cases h⟩
  | or l r ihl ihr => exact ⟨exprSem_or d l r ihl.2.1 ihr.2.1, auxSem_or d l r ihl.2.1 ihr.2.1, fun _ _ h => by cases h⟩

/-- **the value-context lowering is correct** for EVERY expression of the model, in both modes. -/
theorem value_main (d : Dom V) (hd : d.Lawful) (e : Cond) : ExprSem d e ∧ AuxSem d e :=
  ⟨(value_main3 d hd e).1, (value_main3 d hd e).2.1⟩


/-- every label binding of a store built by the compiler is ≥ -1 (`SetLabelPc(label, LastPC())`), an unbound label reads 0. -/
theorem labelOK_of_all (F : CState) (h : ∀ p ∈ F.labelPc, -1 ≤ p.2) : ∀ L, LabelOK F L := by
  intro L
  unfold LabelOK getLabelPc
  generalize F.labelPc = lp at h
  induction lp with
  | nil => simp [lookupLabel]
  | cons p r ih =>
    simp only [lookupLabel]
    split
    · exact h p (by simp)
    · exact ih (fun q hq => h q (by simp [hq]))

end GLua.Lowering
