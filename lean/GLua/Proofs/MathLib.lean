/-
  Lemmas for C15's math wrappers over bit patterns (Model: GLua/Model/MathLib.lean, number system:
  GLua/Spec/MathIEEE.lean) — for ALL 2^64 patterns, no grid: flipping the sign bit of a value that compares greater
  than zero gives a value that does not (used by Props.C15.atan2_sign_all).
-/
import GLua.Model.MathLib

namespace GLua.MathProofs
open GLua GLua.IEEE GLua.MathModel

/-- the decoded value with its sign set -/
def setNeg : F → F
  | .nan => .nan
  | .inf _ => .inf true
  | .fin _ m e => .fin true m e

theorem decode_add_p63 (r : Nat) (h : r / p63 % 2 = 0) : decode (r + p63) = setNeg (decode r) := by
  have h1 : (r + p63) / p63 % 2 = 1 := by unfold p63 at *; omega
  have h2 : (r + p63) / p52 % 2048 = r / p52 % 2048 := by unfold p63 p52; omega
  have h3 : (r + p63) % p52 = r % p52 := by unfold p63 p52; omega
  unfold decode
  simp only [h1, h2, h3]
  split
  · split <;> simp [setNeg]
  · split <;> simp [setNeg]

theorem key_setNeg_nonpos (f : F) : ∀ k, key (setNeg f) = some k → k ≤ 0 := by
  intro k hk
  cases f with
  | nan => simp [setNeg, key] at hk
  | inf n =>
    simp only [setNeg, key, sgn] at hk
    simp at hk
    omega
  | fin n m e =>
    simp only [setNeg, key, sgn] at hk
    simp at hk
    omega

theorem key_zero : key (decode (zeroBits false)) = some 0 := by rfl

theorem lt_zero_pos (r : Nat) (h : lt (zeroBits false) r = true) : r / p63 % 2 = 0 := by
  unfold lt at h
  rw [key_zero] at h
  by_cases hn : r / p63 % 2 = 1
  · exfalso
    have : decode r = setNeg (decode r) := by
      unfold decode
      simp only [hn]
      split
      · split <;> simp [setNeg]
      · split <;> simp [setNeg]
    rw [this] at h
    cases hk : key (setNeg (decode r)) with
    | none => simp [hk] at h
    | some k =>
      have := key_setNeg_nonpos _ k hk
      simp [hk] at h
      omega
  · omega

theorem negate_of_pos (r : Nat) (hpos : r / p63 % 2 = 0) : negate r = r + p63 := by
  unfold negate isNeg
  have : ¬ (r / p63 % 2 = 1) := by omega
  simp only [this, decide_false, Bool.false_eq_true, if_false]

theorem lt_zero_setNeg (f : F) :
    (match (some (0 : Int)), key (setNeg f) with
      | some x, some y => decide (x < y)
      | _, _ => false) = false := by
  cases hk : key (setNeg f) with
  | none => rfl
  | some k =>
    have hk' := key_setNeg_nonpos _ k hk
    show decide ((0 : Int) < k) = false
    exact decide_eq_false (by omega)

theorem lt_def (a b : Nat) : lt a b = (match key (decode a), key (decode b) with
      | some x, some y => decide (x < y)
      | _, _ => false) := rfl

theorem gt_zero_negate (r : Nat) (hr : lt (zeroBits false) r = true) : lt (zeroBits false) (negate r) = false := by
  have hpos := lt_zero_pos r hr
  rw [negate_of_pos r hpos, lt_def, key_zero, decode_add_p63 r hpos]
  exact lt_zero_setNeg _

end GLua.MathProofs
