/-
  C04 — lemmas relating the Model's metatable helpers to the Spec's vocabulary.
-/
import GLua.Model.MetaModel

namespace GLua.MetaProofs
open GLua.Meta GLua.MetaModel

variable {N : Type}

@[simp] theorem optTable_isNil (o : Option Nat) : (optTable o : V N).isNil = o.isNone := by
  cases o <;> rfl

/-- `metatable(v, rawget = true)` is the Spec's `metatable`, as a value. -/
theorem metatable_raw (h : Heap N) (v : V N) :
    MetaModel.metatable h v true = optTable (Meta.metatable h v) := by
  cases v <;> simp [MetaModel.metatable, Meta.metatable, V.ty] <;>
    (split <;> simp_all [optTable])

/-- `metaOp1` is the manual's `metatable(obj)[event]`. -/
theorem metaOp1_eq (h : Heap N) (v : V N) (ev : Event) :
    metaOp1 h v ev = mtEvent h v ev := by
  unfold metaOp1
  rw [metatable_raw]
  unfold mtEvent
  cases Meta.metatable h v <;> simp [optTable, V.isNil]

/-- `metaOp2`: the first operand's field unless it is nil, else the second operand's. -/
theorem metaOp2_eq (h : Heap N) (a b : V N) (ev : Event) :
    metaOp2 h a b ev = if (mtEvent h a ev).isNil then mtEvent h b ev else mtEvent h a ev := by
  unfold metaOp2
  simp only [metatable_raw]
  unfold mtEvent
  cases ha : Meta.metatable h a with
  | none => cases Meta.metatable h b <;> simp [optTable, V.isNil]
  | some ma =>
    cases hx : h.field ma ev <;> cases Meta.metatable h b <;> simp [optTable, V.isNil, hx]

theorem goEq_eq_rawEq (p : Prims N) (a b : V N) : goEq p a b = rawEq p a b := by
  cases a <;> cases b <;> rfl

/-- a value is "function or nil": the shape of every handler slot the guarded theorems consider. -/
def FnOrNil (v : V N) : Prop := v.isFunc = true ∨ v.isNil = true

instance (v : V N) : Decidable (FnOrNil v) := by unfold FnOrNil; infer_instance

theorem FnOrNil.truthy_iff {v : V N} (hv : FnOrNil v) : v.truthy = v.isFunc := by
  cases v <;> simp_all [FnOrNil, V.truthy, V.isFunc, V.isNil]

theorem FnOrNil.isNil_iff {v : V N} (hv : FnOrNil v) : v.isNil = !v.isFunc := by
  cases v <;> simp_all [FnOrNil, V.isFunc, V.isNil]

theorem rawEq_func_self (p : Prims N) (v : V N) (hf : v.isFunc = true) : rawEq p v v = true := by
  cases v <;> simp_all [V.isFunc, rawEq]


/-! ### one step of the `__index` / `__newindex` loops is the manual's event -/

theorem index_step (h : Heap N) (t k : V N) : getFieldStep h t k = gettable_event h t k := by
  unfold getFieldStep gettable_event
  rw [metaOp1_eq]
  cases t with
  | table id => cases hr : (h.raw id k).isNil <;> simp [hr]
  | _ => simp

theorem newindex_step (h : Heap N) (t k v : V N) : setFieldStep h t k v = settable_event h t k v := by
  unfold setFieldStep settable_event
  rw [metaOp1_eq]
  cases t with
  | table id => cases hr : (h.raw id k).isNil <;> simp [hr]
  | _ => simp

/-! ### arithmetic -/

theorem coerceStr_some (p : Prims N) {x : V N} {n : N} (ht : tonumber p x = some n) :
    coerceStr p x = .num n := by
  cases x <;> simp_all [tonumber, coerceStr]

theorem coerceStr_none (p : Prims N) {x : V N} (ht : tonumber p x = none) : coerceStr p x = x := by
  cases x <;> simp_all [tonumber, coerceStr]

theorem not_num_of_tonumber_none (p : Prims N) {x : V N} (ht : tonumber p x = none) (n : N) :
    x ≠ .num n := by
  cases x <;> simp_all [tonumber]

/-- guard of the arithmetic refinement: both handler slots hold a function or nil, and the
    handler-before-coercion class is excluded (if both operands coerce to numbers, either both *are*
    numbers or no handler is present). -/
def ArithGuard (p : Prims N) (h : Heap N) (ev : Event) (a b : V N) : Prop :=
  FnOrNil (mtEvent h a ev) ∧ FnOrNil (mtEvent h b ev) ∧
  (((tonumber p a).isSome = true ∧ (tonumber p b).isSome = true) →
     (a.ty = .num ∧ b.ty = .num) ∨ ((mtEvent h a ev).isNil = true ∧ (mtEvent h b ev).isNil = true))

instance (p : Prims N) (h : Heap N) (ev : Event) (a b : V N) : Decidable (ArithGuard p h ev a b) := by
  unfold ArithGuard; infer_instance

theorem objectArith_partial (p : Prims N) (h : Heap N) (op : ArithOp) (a b : V N)
    (g : ArithGuard p h op.event a b) (hnn : ¬ (a.ty = .num ∧ b.ty = .num)) :
    objectArith p h op a b = arith_event p h op a b := by
  obtain ⟨g1, g2, g3⟩ := g
  unfold arith_event objectArith getbinhandler
  rw [metaOp2_eq]
  generalize mtEvent h a op.event = m1 at *
  generalize mtEvent h b op.event = m2 at *
  cases hta : tonumber p a with
  | none =>
    have ha := coerceStr_none p hta
    have ha' := not_num_of_tonumber_none p hta
    simp only [ha]
    cases m1 <;> simp [FnOrNil, V.isFunc, V.isNil] at g1 <;>
    cases m2 <;> simp [FnOrNil, V.isFunc, V.isNil] at g2 <;>
    simp [V.isNil, V.isFunc, V.truthy] <;> split <;> simp_all
  | some x =>
    have ha := coerceStr_some p hta
    simp only [ha]
    cases htb : tonumber p b with
    | none =>
      have hb := coerceStr_none p htb
      have hb' := not_num_of_tonumber_none p htb
      simp only [hb]
      cases m1 <;> simp [FnOrNil, V.isFunc, V.isNil] at g1 <;>
      cases m2 <;> simp [FnOrNil, V.isFunc, V.isNil] at g2 <;>
      simp [V.isNil, V.isFunc, V.truthy] <;> split <;> simp_all
    | some y =>
      have hb := coerceStr_some p htb
      simp only [hb]
      simp [hta, htb, hnn] at g3
      obtain ⟨h1, h2⟩ := g3
      cases m1 <;> cases m2 <;> simp_all [V.isNil, V.isFunc]

theorem opArith_partial (p : Prims N) (h : Heap N) (op : ArithOp) (a b : V N)
    (g : ArithGuard p h op.event a b) : opArith p h op a b = arith_event p h op a b := by
  unfold opArith
  split
  · simp [arith_event, tonumber]
  · rename_i hne
    apply objectArith_partial p h op a b g
    intro ⟨ha, hb⟩
    cases a <;> cases b <;> simp_all [V.ty]

/-! ### comparison -/

/-- under the function-or-nil guard `objectRational` is `getcomphandler` for same-typed operands. -/
theorem objectRational_eq (p : Prims N) (h : Heap N) (a b : V N) (ev : Event)
    (ht : a.ty = b.ty) (g1 : FnOrNil (mtEvent h a ev)) (g2 : FnOrNil (mtEvent h b ev)) :
    objectRational h (goEq p) a b ev =
      (if (getcomphandler p h a b ev).truthy then some (getcomphandler p h a b ev) else none) := by
  unfold objectRational getcomphandler
  simp only [metaOp1_eq, goEq_eq_rawEq, ht]
  generalize mtEvent h a ev = m1 at *
  generalize mtEvent h b ev = m2 at *
  cases m1 <;> simp [FnOrNil, V.isFunc, V.isNil] at g1 <;>
  cases m2 <;> simp [FnOrNil, V.isFunc, V.isNil] at g2 <;>
  simp [rawEq, V.isFunc, V.truthy] <;> split <;> simp_all

/-- symmetric use in the `__le` fallback: `objectRational(rhs, lhs, "__lt")` picks the same handler. -/
theorem getcomphandler_symm (p : Prims N) (h : Heap N) (a b : V N) (ev : Event)
    (g1 : FnOrNil (mtEvent h a ev)) (g2 : FnOrNil (mtEvent h b ev)) :
    getcomphandler p h b a ev = getcomphandler p h a b ev := by
  unfold getcomphandler
  generalize mtEvent h a ev = m1 at *
  generalize mtEvent h b ev = m2 at *
  by_cases ht : a.ty = b.ty
  · simp [ht]
    cases m1 <;> simp [FnOrNil, V.isFunc, V.isNil] at g1 <;>
    cases m2 <;> simp [FnOrNil, V.isFunc, V.isNil] at g2 <;>
    simp [rawEq] <;> split <;> simp_all [eq_comm]
  · have : ¬ b.ty = a.ty := fun e => ht e.symm
    simp [ht, this]

def CompGuard (h : Heap N) (ev : Event) (a b : V N) : Prop :=
  FnOrNil (mtEvent h a ev) ∧ FnOrNil (mtEvent h b ev)

instance (h : Heap N) (ev : Event) (a b : V N) : Decidable (CompGuard h ev a b) := by
  unfold CompGuard; infer_instance

theorem lessThan_partial (p : Prims N) (h : Heap N) (a b : V N) (g : CompGuard h .lt a b) :
    lessThan p h a b = lt_event p h a b := by
  obtain ⟨g1, g2⟩ := g
  unfold lessThan lt_event objectRationalWithError
  by_cases ht : a.ty = b.ty
  · rw [objectRational_eq p h a b .lt ht g1 g2]
    generalize getcomphandler p h a b .lt = c
    cases hc : c.truthy <;> cases a <;> cases b <;> simp_all [V.ty]
  · have hc : getcomphandler p h a b .lt = .nil := by simp [getcomphandler, ht]
    cases a <;> cases b <;> simp_all [V.ty, V.truthy]

theorem opLE_partial (p : Prims N) (h : Heap N) (a b : V N) (gle : CompGuard h .le a b) (glt : CompGuard h .lt a b) :
    opLE p h a b = le_event p h a b := by
  obtain ⟨g1, g2⟩ := gle
  obtain ⟨g3, g4⟩ := glt
  unfold opLE le_event objectRationalWithError
  by_cases ht : a.ty = b.ty
  · rw [objectRational_eq p h a b .le ht g1 g2, objectRational_eq p h b a .lt ht.symm g4 g3,
      getcomphandler_symm p h a b .lt g3 g4]
    generalize getcomphandler p h a b .le = c
    generalize getcomphandler p h a b .lt = d
    cases hc : c.truthy <;> cases hd : d.truthy <;> cases a <;> cases b <;> simp_all [V.ty]
  · have hc : getcomphandler p h a b .le = .nil := by simp [getcomphandler, ht]
    have hd : getcomphandler p h a b .lt = .nil := by simp [getcomphandler, ht]
    cases a <;> cases b <;> simp_all [V.ty, V.truthy]

theorem equals_partial (p : Prims N) (h : Heap N) (a b : V N) (g : CompGuard h .eq a b) :
    equals p h a b false = eq_event p h a b := by
  obtain ⟨g1, g2⟩ := g
  unfold equals eq_event
  by_cases ht : a.ty = b.ty
  · rw [objectRational_eq p h a b .eq ht g1 g2]
    simp only [goEq_eq_rawEq]
    generalize getcomphandler p h a b .eq = c
    cases hc : c.truthy <;> cases a <;> cases b <;> simp_all [V.ty, rawEq] <;> split <;> simp_all
  · simp [ht]

theorem equals_raw (p : Prims N) (h : Heap N) (a b : V N) :
    equals p h a b true = .raw (.bool (rawEq p a b)) := by
  unfold equals
  cases a <;> cases b <;> simp [V.ty, rawEq, goEq] <;> split <;> simp_all

/-! ### unary events, calls, library entry points -/

def UnmGuard (p : Prims N) (h : Heap N) (a : V N) : Prop :=
  FnOrNil (mtEvent h a .unm) ∧ ((tonumber p a).isSome = true → a.ty = .num ∨ (mtEvent h a .unm).isNil = true)

instance (p : Prims N) (h : Heap N) (a : V N) : Decidable (UnmGuard p h a) := by
  unfold UnmGuard; infer_instance

theorem opUnm_partial (p : Prims N) (h : Heap N) (a : V N) (g : UnmGuard p h a) :
    opUnm p h a = unm_event p h a := by
  obtain ⟨g1, g2⟩ := g
  unfold opUnm unm_event
  rw [metaOp1_eq]
  generalize mtEvent h a .unm = m at *
  cases m <;> simp [FnOrNil, V.isFunc, V.isNil] at g1 <;>
  cases a <;> simp [tonumber, V.ty, V.isNil] at g2 ⊢ <;> simp [V.isFunc, V.truthy] <;>
  (try split) <;> simp_all

def LenGuard (h : Heap N) (a : V N) : Prop :=
  FnOrNil (mtEvent h a .len) ∧ (a.ty = .table → (mtEvent h a .len).isNil = true)

instance (h : Heap N) (a : V N) : Decidable (LenGuard h a) := by
  unfold LenGuard; infer_instance

theorem opLen_partial (p : Prims N) (h : Heap N) (a : V N) (g : LenGuard h a) :
    opLen p h a = len_event p h a := by
  obtain ⟨g1, g2⟩ := g
  unfold opLen len_event
  rw [metaOp1_eq]
  generalize mtEvent h a .len = m at *
  cases m <;> simp [FnOrNil, V.isFunc, V.isNil] at g1 <;>
  cases a <;> simp [V.ty, V.isNil] at g2 ⊢ <;> simp [V.isFunc, V.truthy]

theorem metaCall_eq (h : Heap N) (f : V N) (g : FnOrNil (mtEvent h f .call)) (args : List (V N)) :
    (let (c, m) := metaCall h f; pushCallFrame c args f m) = call_event h f args := by
  unfold metaCall call_event pushCallFrame
  rw [metaOp1_eq]
  generalize mtEvent h f .call = m at *
  cases m <;> simp [FnOrNil, V.isFunc, V.isNil] at g <;>
  cases f <;> simp [V.isFunc, V.truthy]

theorem callR_partial (h : Heap N) (f : V N) (args : List (V N)) (g : FnOrNil (mtEvent h f .call)) :
    callR h f args = call_event h f args := by
  unfold callR
  exact metaCall_eq h f g args

theorem opCall_eq_callR (h : Heap N) (f : V N) (args : List (V N)) : opCall h f args = callR h f args := by
  unfold opCall callR metaCall
  cases f <;> simp

theorem opTailCall_eq_callR (h : Heap N) (f : V N) (args : List (V N)) : opTailCall h f args = callR h f args := by
  unfold opTailCall callR metaCall pushCallFrame
  cases f <;> simp <;> split <;> simp_all

theorem toStringMeta_partial (p : Prims N) (h : Heap N) (e : V N) (g : FnOrNil (mtEvent h e .tostring)) :
    toStringMeta p h e = tostring_fn p h e := by
  unfold toStringMeta tostring_fn
  rw [metaOp1_eq]
  generalize mtEvent h e .tostring = m at *
  cases m <;> simp [FnOrNil, V.isFunc, V.isNil] at g <;> simp [V.truthy]

theorem metatable_nonraw (h : Heap N) (o : V N) :
    MetaModel.metatable h o false =
      (match Meta.metatable h o with
       | none => .nil
       | some m => if (h.field m .metatable).isNil then .table m else h.field m .metatable) := by
  have hr := metatable_raw h o
  unfold MetaModel.metatable at hr ⊢
  simp only [Bool.not_true, Bool.false_and, Bool.false_eq_true, if_false] at hr
  simp only [hr]
  cases Meta.metatable h o <;> simp [optTable, V.isNil]

theorem getMetatable_full (h : Heap N) (o : V N) : getMetatable h o = getmetatable_fn h o := by
  unfold getMetatable getmetatable_fn
  rw [metatable_nonraw]
  cases Meta.metatable h o <;> simp
  split <;> simp_all

theorem baseSetMetatable_partial (h : Heap N) (t mt : V N) (g : t.ty = .table ∨ t.ty = .nil) :
    baseSetMetatable h t mt = setmetatable_fn h t mt := by
  unfold baseSetMetatable setmetatable_fn setMetatable
  rw [metatable_raw]
  cases t with
  | table tid =>
    cases hm : h.tmeta tid <;> cases mt <;> simp [V.ty, V.isNil, Meta.metatable, hm, optTable]
  | nil => cases mt <;> simp [V.ty, V.isNil]
  | _ => simp [V.ty] at g

/-! ### n-ary concatenation -/

/-- every `__concat` slot of the heap holds a function or nil (the handlers met during an n-ary
    concatenation depend on intermediate handler results, so the guard is global). -/
def ConcatGuard (h : Heap N) : Prop := ∀ m, FnOrNil (h.field m .concat)

theorem ConcatGuard.mtEvent {h : Heap N} (g : ConcatGuard h) (v : V N) : FnOrNil (mtEvent h v .concat) := by
  unfold Meta.mtEvent
  cases Meta.metatable h v with
  | none => right; rfl
  | some m => exact g m

/-- the Spec's fold, written over the operands left of the running result, nearest first. -/
def specLoop (p : Prims N) (h : Heap N) (ret : V N → List (V N) → V N) (ls : List (V N)) (r : Outcome N) : Outcome N :=
  ls.foldl (fun r lhs => concatStep p h ret lhs r) r

theorem specLoop_error (p : Prims N) (h : Heap N) (ret : V N → List (V N) → V N) (ls : List (V N))
    (log : List (Call N)) (e : ErrKind) : specLoop p h ret ls (log, .error e) = (log, .error e) := by
  induction ls with
  | nil => rfl
  | cons x r ih => simpa [specLoop, concatStep] using ih

@[simp] theorem isStrOrNum_str (s : String) : isStrOrNum (.str s : V N) = true := rfl
@[simp] theorem asString_str (p : Prims N) (s : String) : asString p (.str s) = s := rfl

/-- under the function-or-nil guard the manual's `getbinhandler` is `metaOp2`, and "truthy" is "is a function". -/
theorem getbinhandler_eq_metaOp2 (h : Heap N) (a b : V N) (ev : Event)
    (g1 : FnOrNil (mtEvent h a ev)) (g2 : FnOrNil (mtEvent h b ev)) :
    getbinhandler h a b ev = metaOp2 h a b ev ∧ (metaOp2 h a b ev).truthy = (metaOp2 h a b ev).isFunc := by
  rw [metaOp2_eq]
  unfold getbinhandler
  generalize mtEvent h a ev = m1 at *
  generalize mtEvent h b ev = m2 at *
  cases m1 <;> simp [FnOrNil, V.isFunc, V.isNil] at g1 <;>
  cases m2 <;> simp [FnOrNil, V.isFunc, V.isNil] at g2 <;>
  simp [V.isNil, V.isFunc, V.truthy]

theorem lvCanConv_eq (v : V N) : lvCanConvToString v = isStrOrNum v := by cases v <;> rfl
theorem lvAsString_eq (p : Prims N) (v : V N) : lvAsString p v = asString p v := by cases v <;> rfl

/-- the run of convertible operands collapses to one string, exactly as the pairwise fold does. -/
theorem concatRun_spec (p : Prims N) (h : Heap N) (ret : V N → List (V N) → V N) (log : List (Call N)) :
    ∀ (ls : List (V N)) (buf : List String),
      specLoop p h ret ls (log, .ok (.str (String.join buf))) =
      specLoop p h ret (concatRun p ls buf).2 (log, .ok (.str (String.join (concatRun p ls buf).1))) := by
  intro ls
  induction ls with
  | nil => intro buf; rfl
  | cons x r ih =>
    intro buf
    unfold concatRun
    by_cases hx : lvCanConvToString x = true
    · simp only [hx, if_true]
      rw [← ih]
      simp only [specLoop, List.foldl_cons]
      congr 1
      have hx' : isStrOrNum x = true := by rw [← lvCanConv_eq]; exact hx
      simp [concatStep, concat_event, hx', String.join_cons, lvAsString_eq]
    · simp [hx]

theorem concatRun_length (p : Prims N) : ∀ (ls : List (V N)) (buf : List String),
    (concatRun p ls buf).2.length ≤ ls.length := by
  intro ls
  induction ls with
  | nil => intro buf; simp [concatRun]
  | cons x r ih =>
    intro buf
    unfold concatRun
    split
    · exact Nat.le_succ_of_le (ih _)
    · simp

theorem stringConcatLoop_spec (p : Prims N) (h : Heap N) (ret : V N → List (V N) → V N) (g : ConcatGuard h) :
    ∀ (total : Nat) (ls : List (V N)) (rhs : V N) (log : List (Call N)), ls.length ≤ total →
      stringConcatLoop p h ret total ls rhs log = specLoop p h ret ls (log, .ok rhs) := by
  intro total
  induction total with
  | zero =>
    intro ls rhs log hl
    cases ls with
    | nil => rfl
    | cons _ _ => simp at hl
  | succ n ih =>
    intro ls rhs log hl
    cases ls with
    | nil => rfl
    | cons lhs rest =>
      have hl' : rest.length ≤ n := by simpa using hl
      unfold stringConcatLoop
      by_cases hc : (lvCanConvToString lhs && lvCanConvToString rhs) = true
      · -- a run of convertible operands
        simp only [hc, Bool.not_true, Bool.false_eq_true, if_false]
        have hlhs : lvCanConvToString lhs = true := by simp_all
        have hrhs : lvCanConvToString rhs = true := by simp_all
        have hrun : concatRun p (lhs :: rest) [lvAsString p rhs] = concatRun p rest [lvAsString p lhs, lvAsString p rhs] := by
          simp [concatRun, hlhs]
        rw [hrun]
        rw [ih _ _ _ (Nat.le_trans (concatRun_length p rest _) hl')]
        rw [← concatRun_spec]
        simp only [specLoop, List.foldl_cons]
        congr 1
        have h1 : isStrOrNum lhs = true := by rw [← lvCanConv_eq]; exact hlhs
        have h2 : isStrOrNum rhs = true := by rw [← lvCanConv_eq]; exact hrhs
        simp [concatStep, concat_event, h1, h2, lvAsString_eq, String.join]
      · -- handler
        have hc' : (isStrOrNum lhs && isStrOrNum rhs) = false := by
          simpa [lvCanConv_eq] using hc
        simp only [hc, Bool.not_false, if_true]
        obtain ⟨hb1, hb2⟩ := getbinhandler_eq_metaOp2 h lhs rhs .concat (g.mtEvent lhs) (g.mtEvent rhs)
        simp only [specLoop, List.foldl_cons]
        have hstep : concatStep p h ret lhs (log, .ok rhs) =
            (if (metaOp2 h lhs rhs .concat).isFunc then
               (log ++ [⟨metaOp2 h lhs rhs .concat, [lhs, rhs]⟩], .ok (ret (metaOp2 h lhs rhs .concat) [lhs, rhs]))
             else (log, .error .concat)) := by
          simp only [concatStep, concat_event, hc', hb1, hb2]
          by_cases hf : (metaOp2 h lhs rhs .concat).isFunc = true <;> simp [hf]
        rw [hstep]
        by_cases hf : (metaOp2 h lhs rhs .concat).isFunc = true
        · simp only [hf, if_true]
          exact ih _ _ _ hl'
        · simp only [hf]
          exact (specLoop_error p h ret rest log .concat).symm

theorem concat_fold_cons (p : Prims N) (h : Heap N) (ret : V N → List (V N) → V N) (x : V N) (rest : List (V N))
    (hne : rest ≠ []) :
    Meta.concat_fold p h ret (x :: rest) = concatStep p h ret x (Meta.concat_fold p h ret rest) := by
  cases rest with
  | nil => exact absurd rfl hne
  | cons y r => rfl

theorem concat_fold_snoc (p : Prims N) (h : Heap N) (ret : V N → List (V N) → V N) (front : List (V N)) (rhs : V N) :
    Meta.concat_fold p h ret (front ++ [rhs]) = front.foldr (fun x r => concatStep p h ret x r) ([], .ok rhs) := by
  induction front with
  | nil => rfl
  | cons x f ih =>
    rw [List.cons_append, concat_fold_cons _ _ _ _ _ (by simp), ih]
    rfl

theorem stringConcat_eq_fold (p : Prims N) (h : Heap N) (ret : V N → List (V N) → V N) (g : ConcatGuard h)
    (ops : List (V N)) : stringConcat p h ret ops = Meta.concat_fold p h ret ops := by
  unfold stringConcat
  cases hr : ops.reverse with
  | nil =>
    have : ops = [] := by simpa using hr
    subst this
    rfl
  | cons rhs regs =>
    have hops : ops = regs.reverse ++ [rhs] := by
      have := congrArg List.reverse hr
      simpa using this
    simp only []
    rw [stringConcatLoop_spec p h ret g _ _ _ _ (Nat.le_refl _), hops, concat_fold_snoc, List.foldr_reverse]
    rfl

end GLua.MetaProofs
