/-
  Round-trip lemmas for the regenerated instruction encoders/decoders (GLua/Generated/Opcode.lean, rewritten from
  /repo/opcode.go on every check run).  Everything is Nat/Int div/mod of literal powers of two, closed by `omega`.
-/
import GLua.Generated.Opcode
import GLua.Generated.Consts

namespace GLua.Proofs.OpcodeRT
open GLua.Generated

theorem setOp_lt (i : Nat) (x : Int) : opSetOpCode i x < 4294967296 := by
  simp only [opSetOpCode]; omega
theorem setA_lt (i : Nat) (x : Int) (h : i < 4294967296) : opSetArgA i x < 4294967296 := by
  simp only [opSetArgA]; omega
theorem setB_lt (i : Nat) (x : Int) : opSetArgB i x < 4294967296 := by
  simp only [opSetArgB]; omega
theorem setC_lt (i : Nat) (x : Int) (h : i < 4294967296) : opSetArgC i x < 4294967296 := by
  simp only [opSetArgC]; omega
theorem setBx_lt (i : Nat) (x : Int) : opSetArgBx i x < 4294967296 := by
  simp only [opSetArgBx]; omega

theorem setOp_fields (i : Nat) (x : Int) :
    opGetOpCode (opSetOpCode i x) = (x % 64).toNat ∧ opGetArgA (opSetOpCode i x) = opGetArgA i ∧
    opGetArgB (opSetOpCode i x) = opGetArgB i ∧ opGetArgC (opSetOpCode i x) = opGetArgC i ∧
    opGetArgBx (opSetOpCode i x) = opGetArgBx i := by
  simp only [opSetOpCode, opGetOpCode, opGetArgA, opGetArgB, opGetArgC, opGetArgBx]; omega

theorem setA_fields (i : Nat) (x : Int) (h : i < 4294967296) :
    opGetArgA (opSetArgA i x) = (x % 256).toNat ∧ opGetOpCode (opSetArgA i x) = opGetOpCode i ∧
    opGetArgB (opSetArgA i x) = opGetArgB i ∧ opGetArgC (opSetArgA i x) = opGetArgC i ∧
    opGetArgBx (opSetArgA i x) = opGetArgBx i := by
  simp only [opSetArgA, opGetOpCode, opGetArgA, opGetArgB, opGetArgC, opGetArgBx]; omega

theorem setB_fields (i : Nat) (x : Int) (h : i < 4294967296) :
    opGetArgB (opSetArgB i x) = (x % 512).toNat ∧ opGetOpCode (opSetArgB i x) = opGetOpCode i ∧
    opGetArgA (opSetArgB i x) = opGetArgA i ∧ opGetArgC (opSetArgB i x) = opGetArgC i := by
  simp only [opSetArgB, opGetOpCode, opGetArgA, opGetArgB, opGetArgC]; omega

theorem setC_fields (i : Nat) (x : Int) (h : i < 4294967296) :
    opGetArgC (opSetArgC i x) = (x % 512).toNat ∧ opGetOpCode (opSetArgC i x) = opGetOpCode i ∧
    opGetArgA (opSetArgC i x) = opGetArgA i ∧ opGetArgB (opSetArgC i x) = opGetArgB i := by
  simp only [opSetArgC, opGetOpCode, opGetArgA, opGetArgB, opGetArgC]; omega

theorem setBx_fields (i : Nat) (x : Int) (h : i < 4294967296) :
    opGetArgBx (opSetArgBx i x) = (x % 262144).toNat ∧ opGetOpCode (opSetArgBx i x) = opGetOpCode i ∧
    opGetArgA (opSetArgBx i x) = opGetArgA i := by
  simp only [opSetArgBx, opGetOpCode, opGetArgA, opGetArgBx]; omega

end GLua.Proofs.OpcodeRT
