/-
  Lemmas about the protected-call model (GLua/Model/PCall.lean): the state invariant `Inv`, its preservation by
  every operation (`step_inv`), the simulation `Inside` ("inner activity cannot touch what belongs to the caller
  of a protected call", `step_inside`), and the main lemma `pcall_restores_main` the property theorems of
  Props/C05.lean are made of.  Everything here is about the code after the proposed fixes (`fixedCfg`).
-/
import GLua.Proofs.PCallStep
namespace GLua.PCall

def St.bases (s : St) : List Nat := s.frames.map (·.base)

/-- what a PCall activation record knows about the call stack (`bs` = bases of the frames) -/
structure RecOk (bs : List Nat) (r : PRec) : Prop where
  sp_lt   : r.sp < bs.length
  base_le : ∀ b, bs[r.sp]? = some b → r.base ≤ b
  below   : ∀ b, r.sp ≠ 0 → bs[r.sp - 1]? = some b → b < r.base
  hsp     : r.inHandler = true → r.sp ≤ r.hsp

/-- bases strictly increase along the call stack -/
def Sorted (bs : List Nat) : Prop := ∀ (i j bi bj : Nat), i < j → bs[i]? = some bi → bs[j]? = some bj → bi < bj

/-- well-formed interpreter states (established by NewState, preserved by every operation) -/
structure Inv (s : St) : Prop where
  cur    : s.cur = lastIdx s.frames
  frames : Sorted s.bases
  top    : ∀ b, s.bases[s.bases.length - 1]? = some b → b + 1 ≤ s.top
  recs   : ∀ r, r ∈ s.pstack → RecOk s.bases r
  nested : s.pstack.Pairwise (fun inner outer => outer.sp < inner.sp)
  hef    : ∀ r rest, s.pstack = r :: rest → r.inHandler = true → s.hasErrorFunc = false

theorem inv_init : Inv {} := by
  refine ⟨rfl, ?_, ?_, ?_, ?_, ?_⟩
  · intro i j bi bj _ h; simp [St.bases] at h
  · intro b h; simp [St.bases] at h
  · intro r h; simp at h
  · simp
  · intro r rest h; simp at h

theorem bases_length (s : St) : s.bases.length = s.frames.length := by simp [St.bases]

/-- under the invariant, `localBase` is one above the base of the last frame (0 without frames) -/
theorem localBase_of_inv (s : St) (h : Inv s) :
    (s.frames = [] ∧ s.localBase = 0) ∨
    (∃ b, s.bases[s.bases.length - 1]? = some b ∧ s.localBase = b + 1 ∧ 0 < s.frames.length) := by
  by_cases hl : s.frames.length = 0
  · left
    have : s.frames = [] := List.eq_nil_of_length_eq_zero hl
    refine ⟨this, ?_⟩
    simp [St.localBase, St.curFrame, h.cur, lastIdx, this]
  · right
    have hlt : s.frames.length - 1 < s.frames.length := by omega
    refine ⟨(s.frames[s.frames.length - 1]'hlt).base, ?_, ?_, by omega⟩
    · simp [St.bases, hlt]
    · simp [St.localBase, St.curFrame, h.cur, lastIdx, hl, hlt, Frame.localBase]

/-- every frame at or above a record's `sp` has a base ≥ the record's base -/
theorem base_ge_of_rec (bs : List Nat) (hs : Sorted bs) (r : PRec) (hr : RecOk bs r) (i b : Nat)
    (hi : r.sp ≤ i) (hb : bs[i]? = some b) : r.base ≤ b := by
  have hlt := hr.sp_lt
  have : ∃ b0, bs[r.sp]? = some b0 := ⟨bs[r.sp], by simp [hlt]⟩
  obtain ⟨b0, hb0⟩ := this
  have h0 := hr.base_le b0 hb0
  by_cases he : r.sp = i
  · subst he; rw [hb0] at hb; cases hb; exact h0
  · have := hs r.sp i b0 b (by omega) hb0 hb
    omega

/-- under the invariant the current local base and the top are above the base of every active record -/
theorem above_rec (s : St) (h : Inv s) (r : PRec) (hr : r ∈ s.pstack) :
    r.base < s.localBase ∧ r.base < s.top ∧ 0 < s.frames.length := by
  have ro := h.recs r hr
  have hlt := ro.sp_lt
  rw [bases_length] at hlt
  rcases localBase_of_inv s h with ⟨hnil, _⟩ | ⟨b, hb, hlb, hpos⟩
  · rw [hnil] at hlt; simp at hlt
  · have hge := base_ge_of_rec s.bases h.frames r ro (s.bases.length - 1) b (by rw [bases_length]; omega) hb
    have ht := h.top b hb
    omega


/-! ### list transformations of the call stack -/

theorem sorted_append (bs : List Nat) (b : Nat) (hs : Sorted bs)
    (hb : ∀ x, bs[bs.length - 1]? = some x → x < b) : Sorted (bs ++ [b]) := by
  intro i j bi bj hij hi hj
  by_cases hjl : j < bs.length
  · rw [List.getElem?_append_left hjl] at hj
    rw [List.getElem?_append_left (by omega)] at hi
    exact hs i j bi bj hij hi hj
  · have hjl' : j = bs.length := by
      have hlen : j < (bs ++ [b]).length := by
        cases hlt : decide (j < (bs ++ [b]).length) with
        | true => exact of_decide_eq_true hlt
        | false =>
          have hge : (bs ++ [b]).length ≤ j := Nat.le_of_not_lt (of_decide_eq_false hlt)
          rw [List.getElem?_eq_none hge] at hj; cases hj
      simp at hlen; omega
    subst hjl'
    simp at hj; subst hj
    rw [List.getElem?_append_left hij] at hi
    by_cases hil : i = bs.length - 1
    · subst hil; exact hb bi hi
    · have hlast : ∃ x, bs[bs.length - 1]? = some x := ⟨bs[bs.length - 1]'(by omega), by simp⟩
      obtain ⟨x, hx⟩ := hlast
      have := hs i (bs.length - 1) bi x (by omega) hi hx
      have := hb x hx
      omega

theorem sorted_take (bs : List Nat) (n : Nat) (hs : Sorted bs) : Sorted (bs.take n) := by
  intro i j bi bj hij hi hj
  rw [List.getElem?_take] at hi hj
  by_cases h1 : i < n
  · by_cases h2 : j < n
    · rw [if_pos h1] at hi; rw [if_pos h2] at hj
      exact hs i j bi bj hij hi hj
    · rw [if_neg h2] at hj; cases hj
  · rw [if_neg h1] at hi; cases hi

theorem dropLast_eq_take (bs : List Nat) : bs.dropLast = bs.take (bs.length - 1) := List.dropLast_eq_take

theorem recOk_append (bs : List Nat) (b : Nat) (r : PRec) (h : RecOk bs r) : RecOk (bs ++ [b]) r := by
  have hlt := h.sp_lt
  refine ⟨by simp; omega, ?_, ?_, h.hsp⟩
  · intro x hx; rw [List.getElem?_append_left hlt] at hx; exact h.base_le x hx
  · intro x hne hx; rw [List.getElem?_append_left (by omega)] at hx; exact h.below x hne hx

theorem recOk_take (bs : List Nat) (n : Nat) (r : PRec) (h : RecOk bs r) (hn : r.sp < n) (hnl : n ≤ bs.length) :
    RecOk (bs.take n) r := by
  refine ⟨by simp; omega, ?_, ?_, h.hsp⟩
  · intro x hx; rw [List.getElem?_take] at hx; rw [if_pos hn] at hx; exact h.base_le x hx
  · intro x hne hx; rw [List.getElem?_take] at hx; rw [if_pos (by omega)] at hx; exact h.below x hne hx

theorem recOk_congr (bs : List Nat) (r r' : PRec) (h : RecOk bs r) (hsp : r'.sp = r.sp) (hb : r'.base = r.base)
    (hh : r'.inHandler = true → r'.sp ≤ r'.hsp) : RecOk bs r' := by
  refine ⟨by rw [hsp]; exact h.sp_lt, ?_, ?_, hh⟩
  · intro x hx; rw [hsp] at hx; rw [hb]; exact h.base_le x hx
  · intro x hne hx; rw [hsp] at hx hne; rw [hb]; exact h.below x hne hx

theorem lastIdx_length (fr fr' : List Frame) (h : fr'.length = fr.length) : lastIdx fr' = lastIdx fr := by
  simp [lastIdx, h]


/-! ### what an error does (fixed code), in the two possible ways -/

inductive RaiseOut (s : St) (r : PRec) (rest : List PRec) (s' : St) : Prop
  /-- the activation `r` ends: everything it saved is restored -/
  | exit (hfr : s'.frames = s.frames.take r.sp) (hcur : s'.cur = lastIdx (s.frames.take r.sp))
      (htop : s'.top = r.base) (huv : s'.uvs = closeUpvalues s.uvs r.base) (hps : s'.pstack = rest)
      (hpf : s'.panicFn = r.oldPanic)
      (hhef : s'.hasErrorFunc = false ∨ (r.inHandler = true ∧ s'.hasErrorFunc = s.hasErrorFunc))
      (hregs : ∀ i, i < r.base → i < s.top → s'.regs i = s.regs i)
      (hlog : ∃ e, s'.log = s.log ++ [.delivered rest.length e])
  /-- the handler of `r` is called on top of the intact stack -/
  | handler (f : Frame) (hfr : s'.frames = s.frames ++ [f]) (hcur : s'.cur = some s.frames.length)
      (hbase : s.top ≤ f.base) (htop : s'.top = f.base + 2)
      (huv : s'.uvs = s.uvs) (hps : s'.pstack = { r with inHandler := true, hsp := s.sp } :: rest)
      (hhef : s'.hasErrorFunc = false) (hni : r.inHandler = false) (hsome : r.errfunc.isSome = true)
      (hregs : ∀ i, i < s.top → s'.regs i = s.regs i)
      (hlog : ∃ v, s'.log = s.log ++ [.handlerStart rest.length v])

theorem doRaise_empty (s : St) (l : Nat) (m : String) :
    doRaiseError {} s l m =
      (regPush { s with cap := if s.top ≥ s.cap then s.top + 1 else s.cap } (.str (raiseMessage s l m)),
       .api ⟨.run, .str (raiseMessage s l m)⟩) := doRaise_fixed s l m

theorem take_take_self (fr : List Frame) (n : Nat) : (fr.take n).take n = fr.take n := by
  simp [List.take_take]

theorem raiseIn_out (s : St) (r : PRec) (rest : List PRec) (k : RaiseKind) (hp : s.pstack = r :: rest) :
    ∃ s', raiseIn fixedCfg s k = .ok s' ∧ RaiseOut s r rest s' := by
  have sh := throwOf_shape s k
  simp only [raiseIn]
  generalize throwOf fixedCfg s k = p at sh
  obtain ⟨s1, t⟩ := p
  simp only at sh ⊢
  rw [sh.pstack, hp]
  simp only [unwind, fixedCfg]
  by_cases hi : r.inHandler = true
  · -- inner closure
    simp only [hi, ↓reduceIte]
    refine ⟨_, rfl, .exit ?_ ?_ ?_ ?_ rfl ?_ ?_ ?_ ?_⟩
    · simp [restore, regSetTop, sh.frames]
    · simp [restore, regSetTop, sh.frames]
    · simp [restore, regSetTop]
    · simp [restore, regSetTop, sh.uvs]
    · simp [restore, regSetTop]
    · right; exact ⟨hi, by simp [restore, regSetTop, sh.hef]⟩
    · intro i hib hit
      simp only [restore, regSetTop]
      rw [if_neg (by have := sh.top_ge; omega)]
      exact sh.regs i hit
    · exact ⟨toApiErr t, by simp [restore, regSetTop, sh.log]⟩
  · have hi' : r.inHandler = false := by cases h : r.inHandler <;> simp_all
    simp only [hi', Bool.false_eq_true, ↓reduceIte]
    cases hh : r.errfunc with
    | none =>
      simp only
      refine ⟨_, rfl, .exit ?_ ?_ ?_ ?_ rfl ?_ ?_ ?_ ?_⟩
      · simp [restore, outerTail, regSetTop, sh.frames, List.take_take]
      · simp only [restore, outerTail, regSetTop, sh.frames]
        by_cases h0 : r.sp = 0
        · simp [h0, lastIdx]
        · simp [h0]
      · simp [restore, outerTail, regSetTop]
      · simp [restore, outerTail, regSetTop, sh.uvs]
      · simp [restore, outerTail, regSetTop]
      · left; simp [restore, outerTail, regSetTop]
      · intro i hib hit
        simp only [restore, outerTail, regSetTop]
        rw [if_neg (by have := sh.top_ge; omega)]
        exact sh.regs i hit
      · exact ⟨toApiErr t, by simp [restore, outerTail, regSetTop, sh.log]⟩
    | some hf =>
      obtain ⟨h, hIsG⟩ := hf
      simp only
      by_cases hov : s1.top + 2 > s1.cap
      · simp only [hov, ↓reduceIte, Bool.false_eq_true, doRaise_empty]
        have htg := sh.top_ge
        by_cases hov1 : s1.top + 1 > s1.cap
        · simp only [hov1, ↓reduceIte]
          refine ⟨_, rfl, .exit ?_ ?_ ?_ ?_ rfl ?_ ?_ ?_ ?_⟩
          · simp [restore, regSetTop, regPush, sh.frames]
          · simp [restore, regSetTop, regPush, sh.frames]
          · simp [restore, regSetTop]
          · simp [restore, regSetTop, regPush, sh.uvs]
          · simp [restore, regSetTop]
          · left; simp [restore, regSetTop, regPush]
          · intro i hib hit
            dsimp only [restore, regSetTop, regPush]
            rw [if_neg (by omega), if_neg (by omega)]; exact sh.regs i hit
          · exact ⟨_, by simp [restore, regSetTop, regPush, sh.log]; rfl⟩
        · simp only [hov1, ↓reduceIte]
          refine ⟨_, rfl, .exit ?_ ?_ ?_ ?_ rfl ?_ ?_ ?_ ?_⟩
          · simp [restore, regSetTop, regPush, sh.frames]
          · simp [restore, regSetTop, regPush, sh.frames]
          · simp [restore, regSetTop]
          · simp [restore, regSetTop, regPush, sh.uvs]
          · simp [restore, regSetTop]
          · left; simp [restore, regSetTop, regPush]
          · intro i hib hit
            dsimp only [restore, regSetTop, regPush]
            rw [if_neg (by omega), if_neg (by omega), if_neg (by omega)]; exact sh.regs i hit
          · exact ⟨_, by simp [restore, regSetTop, regPush, sh.log]; rfl⟩
      · simp only [hov, ↓reduceIte]
        have htg := sh.top_ge
        refine ⟨_, rfl, .handler { isG := hIsG, base := s1.top + 1 + 1 - 1 - 1 } ?_ ?_ ?_ ?_ ?_ ?_ ?_ hi' (by rw [hh]; rfl) ?_ ?_⟩
        · simp [pushFrame, regPush, sh.frames]
        · simp [pushFrame, regPush, sh.frames]
        · dsimp only; omega
        · dsimp only [pushFrame, regPush]; omega
        · simp [pushFrame, regPush, sh.uvs]
        · simp [pushFrame, regPush, St.sp, sh.frames, hh]
        · simp [pushFrame, regPush]
        · intro i hit
          dsimp only [pushFrame, regPush]
          rw [if_neg (by omega), if_neg (by omega)]
          exact sh.regs i hit
        · exact ⟨_, by simp [pushFrame, regPush, sh.log]; rfl⟩


/-! ### frame return -/

theorem popFrame_out (s s' : St) (n : Nat) (h : popFrame s n = some s') :
    ∃ f, s.frames.getLast? = some f ∧ f.localBase + n ≤ s.top ∧ s'.frames = s.frames.dropLast ∧
      s'.cur = lastIdx s.frames.dropLast ∧ s'.top = f.base + n ∧ s'.pstack = s.pstack ∧
      s'.hasErrorFunc = s.hasErrorFunc ∧ s'.panicFn = s.panicFn ∧ s'.log = s.log ∧
      s'.uvs = (if f.isG then s.uvs else closeUpvalues s.uvs f.localBase) ∧
      (∀ i, i < f.base → s'.regs i = s.regs i) := by
  simp only [popFrame] at h
  split at h
  · cases h
  · rename_i f hf
    split at h
    · cases h
    · rename_i hn
      simp only [Option.some.injEq] at h
      subst h
      refine ⟨f, hf, by omega, rfl, rfl, rfl, rfl, rfl, rfl, rfl, rfl, ?_⟩
      intro i hi
      dsimp only
      rw [if_neg (by omega)]

theorem getLast?_base (s : St) (f : Frame) (h : s.frames.getLast? = some f) :
    s.bases[s.bases.length - 1]? = some f.base ∧ 0 < s.frames.length := by
  rw [List.getLast?_eq_getElem?] at h
  have hpos : 0 < s.frames.length := by
    cases hl : s.frames with
    | nil => rw [hl] at h; simp at h
    | cons a l => simp
  refine ⟨?_, hpos⟩
  simp only [St.bases, List.length_map, List.getElem?_map, h, Option.map_some]

/-- generic: the state after the innermost activation `r` ended (frames cut back to `r.sp`) -/
theorem inv_exit (s s' : St) (h : Inv s) (r : PRec) (rest : List PRec) (hp : s.pstack = r :: rest)
    (hfr : s'.frames = s.frames.take r.sp) (hcur : s'.cur = lastIdx (s.frames.take r.sp))
    (htop : r.base ≤ s'.top) (hps : s'.pstack = rest)
    (hhef : s'.hasErrorFunc = false ∨ (r.inHandler = true ∧ s'.hasErrorFunc = s.hasErrorFunc)) : Inv s' := by
  have hr : RecOk s.bases r := h.recs r (by rw [hp]; simp)
  have hsplt := hr.sp_lt
  rw [bases_length] at hsplt
  have hb' : s'.bases = s.bases.take r.sp := by simp [St.bases, hfr, List.map_take]
  have hnest := h.nested
  rw [hp, List.pairwise_cons] at hnest
  refine ⟨by rw [hcur, hfr], ?_, ?_, ?_, ?_, ?_⟩
  · rw [hb']; exact sorted_take _ _ h.frames
  · intro b hb
    rw [hb'] at hb
    have hlen : (s.bases.take r.sp).length = r.sp := by simp [bases_length]; omega
    rw [hlen, List.getElem?_take] at hb
    by_cases h0 : r.sp = 0
    · rw [h0] at hb; simp at hb
    · rw [if_pos (by omega)] at hb
      have := hr.below b h0 hb
      omega
  · intro r2 hr2
    rw [hps] at hr2
    rw [hb']
    exact recOk_take _ _ _ (h.recs r2 (by rw [hp]; exact List.mem_cons_of_mem _ hr2)) (hnest.1 r2 hr2)
      (by rw [bases_length]; omega)
  · rw [hps]; exact hnest.2
  · intro r2 rest2 hps2 hin2
    rcases hhef with hf | ⟨hin, hsame⟩
    · exact hf
    · rw [hsame]; exact h.hef r rest hp hin


/-- operations that touch neither the call stack nor the activations -/
theorem inv_local (s s' : St) (h : Inv s) (hb : s'.bases = s.bases) (hc : s'.cur = s.cur)
    (hp : s'.pstack = s.pstack) (he : s'.hasErrorFunc = s.hasErrorFunc ∨ s'.hasErrorFunc = false)
    (ht : s.localBase ≤ s'.top ∨ s.top ≤ s'.top) : Inv s' := by
  have hlen : s'.frames.length = s.frames.length := by rw [← bases_length, ← bases_length, hb]
  refine ⟨by rw [hc, h.cur, lastIdx_length _ _ hlen], by rw [hb]; exact h.frames, ?_, ?_, by rw [hp]; exact h.nested, ?_⟩
  · intro b hbb
    rw [hb] at hbb
    rcases ht with ht | ht
    · rcases localBase_of_inv s h with ⟨hnil, _⟩ | ⟨b', hb', hlb, _⟩
      · simp [St.bases, hnil] at hbb
      · rw [hb'] at hbb; cases hbb; omega
    · have := h.top b hbb; omega
  · intro r hr; rw [hb]; exact h.recs r (by rw [← hp]; exact hr)
  · intro r rest hps hin
    rcases he with he | he
    · rw [he]; exact h.hef r rest (by rw [← hp]; exact hps) hin
    · exact he

/-- a frame is pushed on top (callR / OP_CALL / the handler call) -/
theorem inv_append (s s' : St) (h : Inv s) (f : Frame)
    (hfr : s'.frames = s.frames ++ [f]) (hc : s'.cur = some s.frames.length)
    (hbase : s.localBase ≤ f.base) (htop : f.base + 1 ≤ s'.top)
    (hrecs : ∀ r, r ∈ s'.pstack → RecOk (s.bases ++ [f.base]) r)
    (hnest : s'.pstack.Pairwise (fun inner outer => outer.sp < inner.sp))
    (hhef : ∀ r rest, s'.pstack = r :: rest → r.inHandler = true → s'.hasErrorFunc = false) : Inv s' := by
  have hb' : s'.bases = s.bases ++ [f.base] := by simp [St.bases, hfr]
  refine ⟨by simp [hc, hfr, lastIdx], ?_, ?_, by rw [hb']; exact hrecs, hnest, hhef⟩
  · rw [hb']
    apply sorted_append _ _ h.frames
    intro x hx
    rcases localBase_of_inv s h with ⟨hnil, _⟩ | ⟨b', hb2, hlb, _⟩
    · simp [St.bases, hnil] at hx
    · rw [hb2] at hx; cases hx; omega
  · intro b hb
    rw [hb'] at hb
    simp at hb
    omega

theorem floor_all (s : St) (h : Inv s) (hg : s.sp > popFloor s) : ∀ r, r ∈ s.pstack → r.sp + 1 < s.frames.length := by
  intro r hr
  cases hp : s.pstack with
  | nil => rw [hp] at hr; simp at hr
  | cons r0 rest =>
    have hn := h.nested
    rw [hp, List.pairwise_cons] at hn
    have h0 : r0.sp + 1 < s.frames.length := by
      simp only [popFloor, hp, St.sp] at hg
      split at hg
      · rename_i hin
        have := (h.recs r0 (by rw [hp]; simp)).hsp hin
        omega
      · omega
    rw [hp] at hr
    rcases List.mem_cons.mp hr with rfl | hr'
    · exact h0
    · have := hn.1 r hr'; omega

/-- a frame above every activation returns -/
theorem inv_pop (s s' : St) (n : Nat) (h : Inv s) (hpop : popFrame s n = some s')
    (hall : ∀ r, r ∈ s.pstack → r.sp + 1 < s.frames.length) : Inv s' := by
  obtain ⟨f, hf, hn, hfr, hcur, htop, hps, hhe, _, _, _, _⟩ := popFrame_out s s' n hpop
  obtain ⟨hfb, hpos⟩ := getLast?_base s f hf
  have hb' : s'.bases = s.bases.take (s.bases.length - 1) := by
    simp [St.bases, hfr, List.dropLast_eq_take, List.map_take]
  refine ⟨by rw [hcur, hfr], ?_, ?_, ?_, by rw [hps]; exact h.nested, ?_⟩
  · rw [hb']; exact sorted_take _ _ h.frames
  · intro b hb
    rw [hb'] at hb
    have hlen : (s.bases.take (s.bases.length - 1)).length = s.bases.length - 1 := by simp
    rw [hlen, List.getElem?_take] at hb
    by_cases h1 : s.bases.length - 1 - 1 < s.bases.length - 1
    · rw [if_pos h1] at hb
      have := h.frames (s.bases.length - 1 - 1) (s.bases.length - 1) b f.base (by omega) hb hfb
      omega
    · rw [if_neg h1] at hb; cases hb
  · intro r hr
    rw [hps] at hr
    rw [hb']
    exact recOk_take _ _ _ (h.recs r hr) (by have := hall r hr; rw [bases_length]; omega) (by omega)
  · intro r rest hp2 hin
    rw [hhe]; exact h.hef r rest (by rw [← hps]; exact hp2) hin


theorem localBase_le_top (s : St) (h : Inv s) : s.localBase ≤ s.top := by
  rcases localBase_of_inv s h with ⟨_, h0⟩ | ⟨b, hb, hlb, _⟩
  · omega
  · have := h.top b hb; omega

theorem inv_raise (s s' : St) (h : Inv s) (r : PRec) (rest : List PRec) (hp : s.pstack = r :: rest)
    (ho : RaiseOut s r rest s') : Inv s' := by
  cases ho with
  | exit hfr hcur htop huv hps hpf hhef hregs hlog =>
    exact inv_exit s s' h r rest hp hfr hcur (by omega) hps hhef
  | handler f hfr hcur hbase htop huv hps hhef hni hsome hregs hlog =>
    have hr : RecOk s.bases r := h.recs r (by rw [hp]; simp)
    have hn := h.nested
    rw [hp, List.pairwise_cons] at hn
    apply inv_append s s' h f hfr hcur (by have := localBase_le_top s h; omega) (by omega)
    · intro r2 hr2
      rw [hps] at hr2
      rcases List.mem_cons.mp hr2 with rfl | hr2'
      · apply recOk_append
        refine recOk_congr s.bases r _ hr (by rfl) (by rfl) ?_
        intro _
        have := hr.sp_lt
        rw [bases_length] at this
        simp only [St.sp]; omega
      · exact recOk_append _ _ _ (h.recs r2 (by rw [hp]; exact List.mem_cons_of_mem _ hr2'))
    · rw [hps, List.pairwise_cons]; exact ⟨hn.1, hn.2⟩
    · intro _ _ _ _; exact hhef

theorem raiseIn_inv (s s' : St) (k : RaiseKind) (h : Inv s) (hne : s.pstack ≠ [])
    (hs : raiseIn fixedCfg s k = .ok s') : Inv s' := by
  cases hp : s.pstack with
  | nil => exact absurd hp hne
  | cons r rest =>
    obtain ⟨s2, h2, ho⟩ := raiseIn_out s r rest k hp
    rw [h2] at hs; cases hs
    exact inv_raise s s' h r rest hp ho

/-- the prologue of PCall followed by callR's frame push -/
theorem prologue_inv_frame (s : St) (h : Inv s) (nargs : Nat) (hh : Option (V × Bool)) (isG : Bool)
    (hg : s.localBase + nargs + 1 ≤ s.top) : Inv (pushFrame (prologue s nargs hh) isG nargs) := by
  apply inv_append s _ h { isG := isG, base := s.top - nargs - 1 }
  · simp [pushFrame, prologue]
  · simp [pushFrame, prologue]
  · dsimp only; omega
  · dsimp only [pushFrame, prologue]; omega
  · intro r hr
    simp only [pushFrame, prologue, List.mem_cons] at hr
    rcases hr with rfl | hr
    · refine ⟨by simp [St.sp, bases_length], ?_, ?_, by simp⟩
      · intro b hb
        simp [St.sp, ← bases_length] at hb
        dsimp only
        omega
      · intro b hne hb
        simp only [St.sp] at hb hne
        rw [List.getElem?_append_left (by rw [bases_length]; omega)] at hb
        rcases localBase_of_inv s h with ⟨hnil, _⟩ | ⟨b', hb2, hlb, _⟩
        · rw [hnil] at hne; simp at hne
        · rw [bases_length] at hb2; rw [hb2] at hb; cases hb; dsimp only; omega
    · exact recOk_append _ _ _ (h.recs r hr)
  · simp only [pushFrame, prologue, List.pairwise_cons]
    refine ⟨?_, h.nested⟩
    intro r hr
    have := (h.recs r hr).sp_lt
    rw [bases_length] at this
    simp only [St.sp]; omega
  · intro r rest hps hin
    simp only [pushFrame, prologue, List.cons.injEq] at hps
    rw [← hps.1] at hin
    simp at hin

/-- the prologue alone (callR then raises before a frame exists): a transient state, but well-formed enough
    for `raiseIn` because the new record satisfies a weaker RecOk — handled directly -/
theorem prologue_raise_inv (s s' : St) (h : Inv s) (nargs : Nat) (hh : Option (V × Bool)) (k : RaiseKind)
    (hg : s.localBase + nargs + 1 ≤ s.top)
    (hs : raiseIn fixedCfg (prologue s nargs hh) k = .ok s') : Inv s' := by
  obtain ⟨s2, h2, ho⟩ := raiseIn_out (prologue s nargs hh)
    { sp := s.sp, base := s.top - nargs - 1, oldPanic := s.panicFn, errfunc := hh } s.pstack k rfl
  rw [h2] at hs; cases hs
  cases ho with
  | exit hfr hcur htop huv hps hpf hhef hregs hlog =>
    have hfr' : s'.frames = s.frames := by
      rw [hfr]; simp [prologue, St.sp]
    apply inv_local s s' h (by simp [St.bases, hfr']) ?_ hps ?_ (.inl (by rw [htop]; dsimp only; omega))
    · rw [hcur, h.cur]; simp [prologue, St.sp]
    · right
      rcases hhef with hf | ⟨hin, _⟩
      · exact hf
      · simp at hin
  | handler f hfr hcur hbase htop huv hps hhef hni hsome hregs hlog =>
    have hfr' : s'.frames = s.frames ++ [f] := by rw [hfr]; rfl
    have hbase' : s.top ≤ f.base := hbase
    apply inv_append s s' h f hfr' hcur (by have := localBase_le_top s h; omega) (by omega)
    · intro r hr
      rw [hps] at hr
      rcases List.mem_cons.mp hr with rfl | hr'
      · refine ⟨by simp [St.sp, bases_length], ?_, ?_, by intro _; exact Nat.le_refl _⟩
        · intro b hb
          simp [St.sp, ← bases_length] at hb
          dsimp only
          omega
        · intro b hne hb
          simp only [St.sp] at hb hne
          rw [List.getElem?_append_left (by rw [bases_length]; omega)] at hb
          rcases localBase_of_inv s h with ⟨hnil, _⟩ | ⟨b', hb2, hlb, _⟩
          · rw [hnil] at hne; simp at hne
          · rw [bases_length] at hb2; rw [hb2] at hb; cases hb; dsimp only; omega
      · exact recOk_append _ _ _ (h.recs r hr')
    · rw [hps, List.pairwise_cons]
      refine ⟨?_, h.nested⟩
      intro r hr
      have := (h.recs r hr).sp_lt
      rw [bases_length] at this
      simp only [St.sp]; omega
    · intro _ _ _ _; exact hhef


theorem raiseIn_ok_nonempty (s s' : St) (k : RaiseKind) (hs : raiseIn fixedCfg s k = .ok s') : s.pstack ≠ [] := by
  intro hnil
  simp only [raiseIn] at hs
  have hp := throwOf_pstack fixedCfg s k
  generalize throwOf fixedCfg s k = p at hp hs
  obtain ⟨s1, t⟩ := p
  simp only at hp hs
  rw [hp, hnil] at hs
  simp [unwind] at hs

theorem bases_modify_line (fr : List Frame) (i n : Nat) :
    (fr.modify i (fun f => { f with line := n })).map (·.base) = fr.map (·.base) := by
  apply List.ext_getElem?
  intro j
  simp only [List.getElem?_map, List.getElem?_modify]
  by_cases hij : i = j
  · subst hij; cases fr[i]? <;> simp
  · simp [hij]

theorem take_dropLast_take (fr : List Frame) (n : Nat) (h : n + 1 ≤ fr.length) :
    fr.dropLast.take n = fr.take n := by
  rw [List.dropLast_eq_take, List.take_take]
  congr 1
  omega

/-- every enabled operation preserves the invariant -/
theorem step_inv (s s' : St) (o : Op) (hinv : Inv s) (h : step fixedCfg s o = .ok s') : Inv s' := by
  cases o with
  | push v =>
    simp only [step] at h
    split at h
    · exact raiseIn_inv s s' _ hinv (raiseIn_ok_nonempty s s' _ h) h
    · cases h
      exact inv_local s _ hinv rfl rfl rfl (.inl rfl) (.inr (by simp [regPush]))
  | setTop n =>
    simp only [step] at h
    split at h
    · cases h
    · cases h
      exact inv_local s _ hinv rfl rfl rfl (.inl rfl) (.inl (by simp [regSetTop]))
  | setReg off v =>
    simp only [step] at h
    split at h
    · cases h
    · cases h
      exact inv_local s _ hinv rfl rfl rfl (.inl rfl) (.inr (by simp only [regSet]; split <;> omega))
  | setUpval j v =>
    simp only [step] at h
    split at h
    · cases h
      exact inv_local s _ hinv rfl rfl rfl (.inl rfl) (.inr (Nat.le_refl _))
    · cases h
  | openUpval off =>
    simp only [step] at h
    split at h
    · cases h
      exact inv_local s _ hinv rfl rfl rfl (.inl rfl) (.inr (Nat.le_refl _))
    · cases h
  | closeUpvals off =>
    simp only [step] at h
    cases h
    exact inv_local s _ hinv rfl rfl rfl (.inl rfl) (.inr (Nat.le_refl _))
  | setLine n =>
    simp only [step] at h
    split at h
    · cases h
      exact inv_local s _ hinv (by simp [St.bases, bases_modify_line]) rfl rfl (.inl rfl) (.inr (Nat.le_refl _))
    · cases h
  | call isG nargs =>
    simp only [step] at h
    split at h
    · rename_i hg
      cases h
      apply inv_append s _ hinv { isG := isG, base := s.top - nargs - 1 } rfl rfl
      · dsimp only; omega
      · dsimp only [pushFrame]; omega
      · intro r hr; exact recOk_append _ _ _ (hinv.recs r hr)
      · exact hinv.nested
      · exact hinv.hef
    · cases h
  | ret n =>
    simp only [step] at h
    split at h
    · rename_i hg
      split at h
      · rename_i s1 hpop
        cases h
        exact inv_pop s s' n hinv hpop (floor_all s hinv hg)
      · cases h
    · cases h
  | enter nargs hh isG =>
    simp only [step] at h
    split at h
    · rename_i hg
      cases h
      exact prologue_inv_frame s hinv nargs hh isG hg
    · cases h
  | enterFail nargs hh k =>
    simp only [step] at h
    split at h
    · rename_i hg
      exact prologue_raise_inv s s' hinv nargs hh k hg h
    · cases h
  | retLeave n =>
    simp only [step] at h
    split at h
    · rename_i r rest hp
      split at h
      · cases h
      · rename_i hcond
        split at h
        · cases h
        · rename_i s1 hpop
          cases h
          have hc : r.inHandler = false ∧ s.sp = r.sp + 1 := by
            constructor
            · cases hi : r.inHandler <;> simp_all
            · exact Decidable.of_not_not (fun hne => hcond (.inr hne))
          obtain ⟨f, hf, hn, hfr, hcur, htop, hps, hhe, _, _, _, _⟩ := popFrame_out s s1 n hpop
          obtain ⟨hfb, hpos⟩ := getLast?_base s f hf
          have hr : RecOk s.bases r := hinv.recs r (by rw [hp]; simp)
          have hsp : s.frames.length = r.sp + 1 := hc.2
          apply inv_exit s _ hinv r rest hp
          · simp only [outerTail, hfr]; exact take_dropLast_take _ _ (by omega)
          · simp only [outerTail, hcur]
            by_cases h0 : r.sp = 0
            · simp [h0, lastIdx]
            · simp only [h0, ↓reduceIte]
              rw [← take_dropLast_take s.frames r.sp (by omega)]
              congr 1
              rw [List.take_of_length_le]; simp; omega
          · simp only [outerTail, htop]
            have : s.bases.length - 1 = r.sp := by rw [bases_length]; omega
            rw [this] at hfb
            have := hr.base_le f.base hfb
            omega
          · rfl
          · left; rfl
    · cases h
  | raise k => exact raiseIn_inv s s' k hinv (raiseIn_ok_nonempty s s' k h) h
  | retHandler =>
    simp only [step] at h
    split at h
    · rename_i r rest hp
      split at h
      · cases h
      · rename_i hcond
        split at h
        · cases h
        · rename_i s1 hpop
          cases h
          have hc : r.inHandler = true ∧ s.sp = r.hsp + 1 := by
            constructor
            · cases hi : r.inHandler <;> simp_all
            · exact Decidable.of_not_not (fun hne => hcond (.inr hne))
          obtain ⟨f, hf, hn, hfr, hcur, htop, hps, hhe, _, _, _, _⟩ := popFrame_out s s1 1 hpop
          have hr : RecOk s.bases r := hinv.recs r (by rw [hp]; simp)
          have hle := hr.hsp hc.1
          have hsp : s.frames.length = r.hsp + 1 := hc.2
          apply inv_exit s _ hinv r rest hp
          · simp only [outerTail, restore, regSetTop, hfr, List.take_take, Nat.min_self]
            exact take_dropLast_take _ _ (by omega)
          · simp only [outerTail, restore, regSetTop, hfr]
            rw [take_dropLast_take _ _ (by omega)]
            by_cases h0 : r.sp = 0
            · simp [h0, lastIdx]
            · simp [h0]
          · simp [outerTail, restore, regSetTop]
          · rfl
          · right; exact ⟨hc.1, by simp [outerTail, restore, regSetTop, hhe]⟩
    · cases h

theorem runAbove_inv (d : Nat) (ops : List Op) (s s' : St) (hinv : Inv s)
    (h : runAbove fixedCfg d s ops = some s') : Inv s' := by
  induction ops generalizing s with
  | nil => simp [runAbove] at h; subst h; exact hinv
  | cons o os ih =>
    simp only [runAbove] at h
    split at h
    · rename_i s1 hs1
      split at h
      · cases h
      · exact ih s1 (step_inv s s1 o hinv hs1) h
    · cases h


/-! ### inner activity cannot touch what belongs to the caller of a protected call -/

theorem takeWhile_takeWhile_lt (l : List Nat) (a b : Nat) (h : b ≤ a) :
    (l.takeWhile (· < a)).takeWhile (· < b) = l.takeWhile (· < b) := by
  induction l with
  | nil => rfl
  | cons x xs ih =>
    by_cases hxa : x < a
    · simp only [List.takeWhile_cons, hxa, decide_true, ↓reduceIte]
      by_cases hxb : x < b
      · simp [hxb, ih]
      · simp [hxb]
    · have hxb : ¬ x < b := by omega
      simp [List.takeWhile_cons, hxa, hxb]

theorem closeUpvalues_below (l : List Nat) (a b : Nat) (h : b ≤ a) :
    (closeUpvalues l a).takeWhile (· < b) = l.takeWhile (· < b) := takeWhile_takeWhile_lt l a b h

theorem findUpvalue_below (l : List Nat) (i b : Nat) (h : b ≤ i) :
    (findUpvalue l i).takeWhile (· < b) = l.takeWhile (· < b) := by
  induction l with
  | nil => simp [findUpvalue, List.takeWhile_cons]; omega
  | cons x xs ih =>
    simp only [findUpvalue]
    split
    · rfl
    · split
      · rename_i hne hgt
        have h1 : ¬ i < b := by omega
        have h2 : ¬ x < b := by omega
        simp [List.takeWhile_cons, h1, h2]
      · simp only [List.takeWhile_cons, ih]

/-- What inner activity running *inside* the activation `R` keeps intact:
    `F` = the call stack below the activation, `U` = the open upvalues below `R.base`, `rest` = outer activations. -/
structure Inside (R : PRec) (F : List Frame) (U : List Nat) (rest : List PRec) (s : St) : Prop where
  frames : s.frames.take R.sp = F
  uvs    : s.uvs.takeWhile (· < R.base) = U
  stack  : ∃ inner R', s.pstack = inner ++ R' :: rest ∧ R'.sp = R.sp ∧ R'.base = R.base ∧
             R'.oldPanic = R.oldPanic ∧ R'.errfunc = R.errfunc

theorem inside_mk {R : PRec} {F : List Frame} {U : List Nat} {rest : List PRec} (s s' : St)
    (hin : Inside R F U rest s)
    (hf : s'.frames.take R.sp = s.frames.take R.sp)
    (hu : s'.uvs.takeWhile (· < R.base) = s.uvs.takeWhile (· < R.base))
    (hs : ∃ inner R', s'.pstack = inner ++ R' :: rest ∧ R'.sp = R.sp ∧ R'.base = R.base ∧
             R'.oldPanic = R.oldPanic ∧ R'.errfunc = R.errfunc) : Inside R F U rest s' :=
  ⟨by rw [hf]; exact hin.frames, by rw [hu]; exact hin.uvs, hs⟩

/-- facts about the activation of interest, from the invariant -/
theorem inside_facts {R : PRec} {F : List Frame} {U : List Nat} {rest : List PRec} (s : St)
    (hinv : Inv s) (hin : Inside R F U rest s) :
    R.sp < s.frames.length ∧ R.base < s.localBase ∧ R.base < s.top ∧
    (∀ i b, R.sp ≤ i → s.bases[i]? = some b → R.base ≤ b) := by
  obtain ⟨inner, R', hps, hsp, hb, _, _⟩ := hin.stack
  have hmem : R' ∈ s.pstack := by rw [hps]; simp
  have hr := hinv.recs R' hmem
  have ha := above_rec s hinv R' hmem
  have hlt := hr.sp_lt
  rw [bases_length] at hlt
  refine ⟨by omega, by omega, by omega, ?_⟩
  intro i b hi hbi
  have := base_ge_of_rec s.bases hinv.frames R' hr i b (by omega) hbi
  omega

/-- the innermost activation `r0` is not the one of interest when the stack stays deep enough; it is nested
    strictly inside it -/
theorem inside_top_inner {R : PRec} {F : List Frame} {U : List Nat} {rest : List PRec} (s : St)
    (hinv : Inv s) (hin : Inside R F U rest s) (r0 : PRec) (rest0 : List PRec) (hp : s.pstack = r0 :: rest0)
    (hd : rest0.length ≥ rest.length + 1) :
    R.sp < r0.sp ∧ R.base < r0.base ∧
    (∃ inner R', rest0 = inner ++ R' :: rest ∧ R'.sp = R.sp ∧ R'.base = R.base ∧
             R'.oldPanic = R.oldPanic ∧ R'.errfunc = R.errfunc) := by
  obtain ⟨inner, R', hps, hsp, hb, hop, hef⟩ := hin.stack
  cases inner with
  | nil =>
    rw [hp] at hps
    simp only [List.nil_append, List.cons.injEq] at hps
    rw [hps.2] at hd; omega
  | cons i0 inner' =>
    rw [hp] at hps
    simp only [List.cons_append, List.cons.injEq] at hps
    obtain ⟨rfl, hrest⟩ := hps
    have hn := hinv.nested
    rw [hp, List.pairwise_cons] at hn
    have hmem : R' ∈ rest0 := by rw [hrest]; simp
    have hlt := hn.1 R' hmem
    have hr0 := hinv.recs r0 (by rw [hp]; simp)
    have hf := inside_facts s hinv hin
    refine ⟨by omega, ?_, inner', R', hrest, hsp, hb, hop, hef⟩
    have hne : r0.sp ≠ 0 := by omega
    have hl0 := hr0.sp_lt
    have : ∃ b, s.bases[r0.sp - 1]? = some b := ⟨s.bases[r0.sp - 1]'(by omega), by simp⟩
    obtain ⟨b, hbb⟩ := this
    have h1 := hr0.below b hne hbb
    have h2 := hf.2.2.2 (r0.sp - 1) b (by omega) hbb
    omega


theorem take_take_le (fr : List Frame) (a b : Nat) (h : a ≤ b) : (fr.take b).take a = fr.take a := by
  rw [List.take_take]; congr 1; omega

theorem take_append_one (fr : List Frame) (f : Frame) (n : Nat) (h : n ≤ fr.length) :
    (fr ++ [f]).take n = fr.take n := by
  rw [List.take_append_of_le_length h]

theorem inside_raise {R : PRec} {F : List Frame} {U : List Nat} {rest : List PRec} (s s' : St)
    (hinv : Inv s) (hin : Inside R F U rest s) (r0 : PRec) (rest0 : List PRec) (hp : s.pstack = r0 :: rest0)
    (ho : RaiseOut s r0 rest0 s') (hd : s'.pstack.length ≥ rest.length + 1) : Inside R F U rest s' := by
  have hf := inside_facts s hinv hin
  cases ho with
  | exit hfr hcur htop huv hps hpf hhef hregs hlog =>
    rw [hps] at hd
    obtain ⟨h1, h2, h3⟩ := inside_top_inner s hinv hin r0 rest0 hp hd
    apply inside_mk s s' hin
    · rw [hfr]; exact take_take_le _ _ _ (by omega)
    · rw [huv]; exact closeUpvalues_below _ _ _ (by omega)
    · rw [hps]; exact h3
  | handler f hfr hcur hbase htop huv hps hhef hni hsome hregs hlog =>
    apply inside_mk s s' hin
    · rw [hfr]; exact take_append_one _ _ _ (by omega)
    · rw [huv]
    · obtain ⟨inner, R', hps0, hsp, hb, hop, hef⟩ := hin.stack
      rw [hp] at hps0
      cases inner with
      | nil =>
        simp only [List.nil_append, List.cons.injEq] at hps0
        obtain ⟨rfl, rfl⟩ := hps0
        exact ⟨[], { r0 with inHandler := true, hsp := s.sp }, by rw [hps]; rfl, hsp, hb, hop, hef⟩
      | cons i0 inner' =>
        simp only [List.cons_append, List.cons.injEq] at hps0
        obtain ⟨rfl, rfl⟩ := hps0
        exact ⟨_ :: inner', R', by rw [hps]; rfl, hsp, hb, hop, hef⟩

theorem take_modify_ge (fr : List Frame) (g : Frame → Frame) (i n : Nat) (h : n ≤ i) :
    (fr.modify i g).take n = fr.take n := by
  apply List.ext_getElem?
  intro j
  simp only [List.getElem?_take, List.getElem?_modify]
  by_cases hj : j < n
  · simp only [hj, ↓reduceIte]
    have hne : ¬ i = j := by omega
    cases fr[j]? <;> simp [hne]
  · simp [hj]

/-- one operation that stays inside the activation keeps `Inside` -/
theorem step_inside {R : PRec} {F : List Frame} {U : List Nat} {rest : List PRec} (s s' : St) (o : Op)
    (hinv : Inv s) (hin : Inside R F U rest s) (h : step fixedCfg s o = .ok s')
    (hd : s'.pstack.length ≥ rest.length + 1) : Inside R F U rest s' := by
  have hf := inside_facts s hinv hin
  have raiseCase : ∀ k, raiseIn fixedCfg s k = .ok s' → Inside R F U rest s' := by
    intro k hk
    cases hp : s.pstack with
    | nil => exact absurd hp (raiseIn_ok_nonempty s s' k hk)
    | cons r0 rest0 =>
      obtain ⟨s2, h2, ho⟩ := raiseIn_out s r0 rest0 k hp
      rw [h2] at hk; cases hk
      exact inside_raise s s' hinv hin r0 rest0 hp ho hd
  cases o with
  | push v =>
    simp only [step] at h
    split at h
    · exact raiseCase _ h
    · cases h; exact inside_mk s _ hin rfl rfl hin.stack
  | setTop n =>
    simp only [step] at h
    split at h
    · cases h
    · cases h; exact inside_mk s _ hin rfl rfl hin.stack
  | setReg off v =>
    simp only [step] at h
    split at h
    · cases h
    · cases h; exact inside_mk s _ hin rfl rfl hin.stack
  | setUpval j v =>
    simp only [step] at h
    split at h
    · cases h; exact inside_mk s _ hin rfl rfl hin.stack
    · cases h
  | openUpval off =>
    simp only [step] at h
    split at h
    · cases h
      exact inside_mk s _ hin rfl (findUpvalue_below _ _ _ (by omega)) hin.stack
    · cases h
  | closeUpvals off =>
    simp only [step] at h
    cases h
    exact inside_mk s _ hin rfl (closeUpvalues_below _ _ _ (by omega)) hin.stack
  | setLine n =>
    simp only [step] at h
    split at h
    · rename_i i hc
      cases h
      refine inside_mk s _ hin ?_ rfl hin.stack
      have : s.cur = lastIdx s.frames := hinv.cur
      rw [hc] at this
      simp only [lastIdx] at this
      split at this
      · cases this
      · cases this
        exact take_modify_ge _ _ _ _ (by omega)
    · cases h
  | call isG nargs =>
    simp only [step] at h
    split at h
    · cases h
      exact inside_mk s _ hin (take_append_one _ _ _ (by omega)) rfl hin.stack
    · cases h
  | ret n =>
    simp only [step] at h
    split at h
    · rename_i hg
      split at h
      · rename_i s1 hpop
        cases h
        obtain ⟨f, hfl, hn, hfr, hcur, htop, hps, hhe, _, _, huv, _⟩ := popFrame_out s s' n hpop
        obtain ⟨hfb, hpos⟩ := getLast?_base s f hfl
        obtain ⟨inner, R', hps0, hsp, hb, hop, hef⟩ := hin.stack
        have hall := floor_all s hinv hg R' (by rw [hps0]; simp)
        apply inside_mk s s' hin
        · rw [hfr]; exact take_dropLast_take _ _ (by omega)
        · rw [huv]
          split
          · rfl
          · have := hf.2.2.2 (s.bases.length - 1) f.base (by rw [bases_length]; omega) hfb
            exact closeUpvalues_below _ _ _ (by simp only [Frame.localBase]; omega)
        · rw [hps]; exact hin.stack
      · cases h
    · cases h
  | enter nargs hh isG =>
    simp only [step] at h
    split at h
    · cases h
      refine inside_mk s _ hin (take_append_one _ _ _ (by simp only [prologue]; omega)) rfl ?_
      obtain ⟨inner, R', hps0, hsp, hb, hop, hef⟩ := hin.stack
      exact ⟨_ :: inner, R', by simp only [pushFrame, prologue, hps0]; rfl, hsp, hb, hop, hef⟩
    · cases h
  | enterFail nargs hh k =>
    simp only [step] at h
    split at h
    · rename_i hg
      obtain ⟨s2, h2, ho⟩ := raiseIn_out (prologue s nargs hh)
        { sp := s.sp, base := s.top - nargs - 1, oldPanic := s.panicFn, errfunc := hh } s.pstack k rfl
      rw [h2] at h; cases h
      cases ho with
      | exit hfr hcur htop huv hps hpf hhef hregs hlog =>
        apply inside_mk s s' hin
        · rw [hfr]; simp only [prologue, St.sp]
          rw [List.take_of_length_le (Nat.le_refl _)]
        · rw [huv]
          exact closeUpvalues_below _ _ _ (by dsimp only; omega)
        · rw [hps]; exact hin.stack
      | handler f hfr hcur hbase htop huv hps hhef hni hsome hregs hlog =>
        apply inside_mk s s' hin
        · rw [hfr]; exact take_append_one _ _ _ (by simp only [prologue]; omega)
        · rw [huv]; rfl
        · obtain ⟨inner, R', hps0, hsp, hb, hop, hef⟩ := hin.stack
          exact ⟨_ :: inner, R', by rw [hps, hps0]; rfl, hsp, hb, hop, hef⟩
    · cases h
  | retLeave n =>
    simp only [step] at h
    split at h
    · rename_i r0 rest0 hp
      split at h
      · cases h
      · rename_i hcond
        split at h
        · cases h
        · rename_i s1 hpop
          cases h
          have hsp0 : s.sp = r0.sp + 1 := Decidable.of_not_not (fun hne => hcond (.inr hne))
          obtain ⟨f, hfl, hn, hfr, hcur, htop, hps, hhe, _, _, huv, _⟩ := popFrame_out s s1 n hpop
          obtain ⟨hfb, hpos⟩ := getLast?_base s f hfl
          have hd' : rest0.length ≥ rest.length + 1 := hd
          obtain ⟨h1, h2, h3⟩ := inside_top_inner s hinv hin r0 rest0 hp hd'
          simp only [St.sp] at hsp0
          apply inside_mk s _ hin
          · simp only [outerTail, hfr]
            rw [take_take_le _ _ _ (by omega)]
            exact take_dropLast_take _ _ (by omega)
          · simp only [outerTail, huv]
            split
            · rfl
            · have := hf.2.2.2 (s.bases.length - 1) f.base (by rw [bases_length]; omega) hfb
              exact closeUpvalues_below _ _ _ (by simp only [Frame.localBase]; omega)
          · exact h3
    · cases h
  | raise k => exact raiseCase k h
  | retHandler =>
    simp only [step] at h
    split at h
    · rename_i r0 rest0 hp
      split at h
      · cases h
      · rename_i hcond
        split at h
        · cases h
        · rename_i s1 hpop
          cases h
          have hc : r0.inHandler = true ∧ s.sp = r0.hsp + 1 := by
            constructor
            · cases hi : r0.inHandler <;> simp_all
            · exact Decidable.of_not_not (fun hne => hcond (.inr hne))
          obtain ⟨f, hfl, hn, hfr, hcur, htop, hps, hhe, _, _, huv, _⟩ := popFrame_out s s1 1 hpop
          obtain ⟨hfb, hpos⟩ := getLast?_base s f hfl
          have hd' : rest0.length ≥ rest.length + 1 := hd
          obtain ⟨h1, h2, h3⟩ := inside_top_inner s hinv hin r0 rest0 hp hd'
          have hle := (hinv.recs r0 (by rw [hp]; simp)).hsp hc.1
          have hsp0 := hc.2
          simp only [St.sp] at hsp0
          apply inside_mk s _ hin
          · simp only [outerTail, restore, regSetTop, hfr, List.take_take]
            rw [show min R.sp (min r0.sp r0.sp) = R.sp by omega]
            exact take_dropLast_take _ _ (by omega)
          · simp only [outerTail, restore, regSetTop, huv]
            rw [closeUpvalues_below _ _ _ (by omega)]
            split
            · rfl
            · have := hf.2.2.2 (s.bases.length - 1) f.base (by rw [bases_length]; omega) hfb
              exact closeUpvalues_below _ _ _ (by simp only [Frame.localBase]; omega)
          · exact h3
    · cases h

theorem runAbove_inside {R : PRec} {F : List Frame} {U : List Nat} {rest : List PRec} (ops : List Op)
    (s s' : St) (hinv : Inv s) (hin : Inside R F U rest s)
    (h : runAbove fixedCfg (rest.length + 1) s ops = some s') : Inside R F U rest s' := by
  induction ops generalizing s with
  | nil => simp [runAbove] at h; subst h; exact hin
  | cons o os ih =>
    simp only [runAbove] at h
    split at h
    · rename_i s1 hs1
      split at h
      · cases h
      · rename_i hlen
        exact ih s1 (step_inv s s1 o hinv hs1) (step_inside s s1 o hinv hin hs1 (by omega)) h
    · cases h


/-! ### the property lemmas -/

/-- an operation that ends a protected call successfully -/
def isSuccessExit : Op → Bool
  | .retLeave _ => true
  | _ => false

/-- the operations that start a protected call with `nargs` arguments and handler `h` -/
def IsEntry (nargs : Nat) (h : Option (V × Bool)) (e : Op) : Prop :=
  (∃ isG, e = .enter nargs h isG) ∨ (∃ k, e = .enterFail nargs h k)

/-- what every failing exit of the innermost activation `r` does -/
theorem exit_facts (s s2 : St) (o : Op) (hinv : Inv s) (r : PRec) (rest' : List PRec) (hp : s.pstack = r :: rest')
    (h : step fixedCfg s o = .ok s2) (hlen : s2.pstack.length ≤ rest'.length) (hfail : isSuccessExit o = false) :
    s2.frames = s.frames.take r.sp ∧ s2.cur = lastIdx (s.frames.take r.sp) ∧ s2.top = r.base ∧
    s2.panicFn = r.oldPanic ∧ s2.hasErrorFunc = false ∧ s2.uvs = s.uvs.takeWhile (· < r.base) ∧
    s2.pstack = rest' ∧ (∀ i, i < r.base → s2.regs i = s.regs i) ∧
    (∃ e, s2.log = s.log ++ [.delivered rest'.length e]) := by
  have hmem : r ∈ s.pstack := by rw [hp]; simp
  have habove := above_rec s hinv r hmem
  have hlen0 : s.pstack.length = rest'.length + 1 := by rw [hp]; simp
  have raiseCase : ∀ k, raiseIn fixedCfg s k = .ok s2 →
      (s2.frames = s.frames.take r.sp ∧ s2.cur = lastIdx (s.frames.take r.sp) ∧ s2.top = r.base ∧
       s2.panicFn = r.oldPanic ∧ s2.hasErrorFunc = false ∧ s2.uvs = s.uvs.takeWhile (· < r.base) ∧
       s2.pstack = rest' ∧ (∀ i, i < r.base → s2.regs i = s.regs i) ∧
       (∃ e, s2.log = s.log ++ [.delivered rest'.length e])) := by
    intro k hk
    obtain ⟨s3, h3, ho⟩ := raiseIn_out s r rest' k hp
    rw [h3] at hk; cases hk
    cases ho with
    | exit hfr hcur htop huv hps hpf hhef hregs hlog =>
      refine ⟨hfr, hcur, htop, hpf, ?_, huv, hps, fun i hi => hregs i hi (by omega), hlog⟩
      rcases hhef with hf | ⟨hin, hsame⟩
      · exact hf
      · rw [hsame]; exact hinv.hef r rest' hp hin
    | handler f hfr hcur hbase htop huv hps hhef hni hsome hregs hlog =>
      rw [hps] at hlen; simp only [List.length_cons] at hlen; omega
  cases o with
  | push v =>
    simp only [step] at h
    split at h
    · exact raiseCase _ h
    · cases h; simp only [regPush] at hlen; omega
  | setTop n =>
    simp only [step] at h
    split at h
    · cases h
    · cases h; simp only [regSetTop] at hlen; omega
  | setReg off v =>
    simp only [step] at h
    split at h
    · cases h
    · cases h; simp only [regSet] at hlen; omega
  | setUpval j v =>
    simp only [step] at h
    split at h
    · cases h; simp only at hlen; omega
    · cases h
  | openUpval off =>
    simp only [step] at h
    split at h
    · cases h; simp only at hlen; omega
    · cases h
  | closeUpvals off =>
    simp only [step] at h
    cases h; simp only at hlen; omega
  | setLine n =>
    simp only [step] at h
    split at h
    · cases h; simp only at hlen; omega
    · cases h
  | call isG nargs =>
    simp only [step] at h
    split at h
    · cases h; simp only [pushFrame] at hlen; omega
    · cases h
  | ret n =>
    simp only [step] at h
    split at h
    · split at h
      · rename_i s1 hpop
        cases h
        obtain ⟨f, _, _, _, _, _, hps, _⟩ := popFrame_out s s2 n hpop
        rw [hps] at hlen; omega
      · cases h
    · cases h
  | enter nargs hh isG =>
    simp only [step] at h
    split at h
    · cases h; simp only [pushFrame, prologue, List.length_cons] at hlen; omega
    · cases h
  | enterFail nargs hh k =>
    simp only [step] at h
    split at h
    · obtain ⟨s3, h3, ho⟩ := raiseIn_out (prologue s nargs hh)
        { sp := s.sp, base := s.top - nargs - 1, oldPanic := s.panicFn, errfunc := hh } s.pstack k rfl
      rw [h3] at h; cases h
      cases ho with
      | exit hfr hcur htop huv hps hpf hhef hregs hlog => rw [hps] at hlen; omega
      | handler f hfr hcur hbase htop huv hps hhef hni hsome hregs hlog =>
        rw [hps] at hlen; simp only [List.length_cons] at hlen; omega
    · cases h
  | retLeave n => simp [isSuccessExit] at hfail
  | raise k => exact raiseCase k h
  | retHandler =>
    simp only [step, hp] at h
    split at h
    · cases h
    · rename_i hcond
      split at h
      · cases h
      · rename_i s1 hpop
        cases h
        have hc : r.inHandler = true ∧ s.sp = r.hsp + 1 := by
          constructor
          · cases hi : r.inHandler <;> simp_all
          · exact Decidable.of_not_not (fun hne => hcond (.inr hne))
        obtain ⟨f, hfl, hn, hfr, hcur, htop, hps, hhe, _, hlg, huv, hregs⟩ := popFrame_out s s1 1 hpop
        obtain ⟨hfb, hpos⟩ := getLast?_base s f hfl
        have hr := hinv.recs r hmem
        have hle := hr.hsp hc.1
        have hsp0 := hc.2
        simp only [St.sp] at hsp0
        have hfge := base_ge_of_rec s.bases hinv.frames r hr (s.bases.length - 1) f.base
          (by rw [bases_length]; omega) hfb
        refine ⟨?_, ?_, ?_, ?_, ?_, ?_, rfl, ?_, ⟨⟨.error, s1.regs (s1.top - 1)⟩, by simp [outerTail, restore, regSetTop, hlg]⟩⟩
        · simp only [outerTail, restore, regSetTop, hfr, List.take_take, Nat.min_self]
          exact take_dropLast_take _ _ (by omega)
        · simp only [outerTail, restore, regSetTop, hfr]
          rw [take_dropLast_take _ _ (by omega)]
          by_cases h0 : r.sp = 0
          · simp [h0, lastIdx]
          · simp [h0]
        · simp [outerTail, restore, regSetTop]
        · rfl
        · simp only [outerTail, restore, regSetTop, hhe]; exact hinv.hef r rest' hp hc.1
        · simp only [outerTail, restore, regSetTop, huv]
          split
          · rfl
          · exact closeUpvalues_below _ _ _ (by simp only [Frame.localBase]; omega)
        · intro i hi
          simp only [outerTail, restore, regSetTop]
          rw [if_neg (by omega)]
          exact hregs i (by omega)

/-- an operation ends at most one activation -/
theorem step_depth_ge (s s' : St) (o : Op) (h : step fixedCfg s o = .ok s') :
    s.pstack.length ≤ s'.pstack.length + 1 := by
  have raiseCase : ∀ k, raiseIn fixedCfg s k = .ok s' → s.pstack.length ≤ s'.pstack.length + 1 := by
    intro k hk
    cases hp : s.pstack with
    | nil => simp
    | cons r rest' =>
      obtain ⟨s3, h3, ho⟩ := raiseIn_out s r rest' k hp
      rw [h3] at hk; cases hk
      cases ho with
      | exit hfr hcur htop huv hps hpf hhef hregs hlog => rw [hps]; simp
      | handler f hfr hcur hbase htop huv hps hhef hni hsome hregs hlog => rw [hps]; simp
  cases o with
  | push v =>
    simp only [step] at h
    split at h
    · exact raiseCase _ h
    · cases h; simp [regPush]
  | setTop n =>
    simp only [step] at h
    split at h
    · cases h
    · cases h; simp [regSetTop]
  | setReg off v =>
    simp only [step] at h
    split at h
    · cases h
    · cases h; simp [regSet]
  | setUpval j v =>
    simp only [step] at h
    split at h
    · cases h; simp
    · cases h
  | openUpval off =>
    simp only [step] at h
    split at h
    · cases h; simp
    · cases h
  | closeUpvals off =>
    simp only [step] at h
    cases h; simp
  | setLine n =>
    simp only [step] at h
    split at h
    · cases h; simp
    · cases h
  | call isG nargs =>
    simp only [step] at h
    split at h
    · cases h; simp [pushFrame]
    · cases h
  | ret n =>
    simp only [step] at h
    split at h
    · split at h
      · rename_i s1 hpop
        cases h
        obtain ⟨f, _, _, _, _, _, hps, _⟩ := popFrame_out s s' n hpop
        rw [hps]; omega
      · cases h
    · cases h
  | enter nargs hh isG =>
    simp only [step] at h
    split at h
    · cases h; simp only [pushFrame, prologue, List.length_cons]; omega
    · cases h
  | enterFail nargs hh k =>
    simp only [step] at h
    split at h
    · obtain ⟨s3, h3, ho⟩ := raiseIn_out (prologue s nargs hh)
        { sp := s.sp, base := s.top - nargs - 1, oldPanic := s.panicFn, errfunc := hh } s.pstack k rfl
      rw [h3] at h; cases h
      cases ho with
      | exit hfr hcur htop huv hps hpf hhef hregs hlog => rw [hps]; omega
      | handler f hfr hcur hbase htop huv hps hhef hni hsome hregs hlog =>
        rw [hps]; simp only [List.length_cons]; omega
    · cases h
  | retLeave n =>
    simp only [step] at h
    split at h
    · rename_i r rest' hp
      split at h
      · cases h
      · split at h
        · cases h
        · cases h; rw [hp]; simp
    · cases h
  | raise k => exact raiseCase k h
  | retHandler =>
    simp only [step] at h
    split at h
    · rename_i r rest' hp
      split at h
      · cases h
      · split at h
        · cases h
        · cases h; rw [hp]; simp
    · cases h

/-- the state right after the entry operation is inside the new activation -/
theorem entry_inside (s s0 : St) (hinv : Inv s) (nargs : Nat) (h : Option (V × Bool)) (e : Op)
    (he : IsEntry nargs h e) (h0 : step fixedCfg s e = .ok s0) (hd0 : s0.pstack.length = s.pstack.length + 1) :
    Inside { sp := s.sp, base := s.top - nargs - 1, oldPanic := s.panicFn, errfunc := h } s.frames
      (s.uvs.takeWhile (· < s.top - nargs - 1)) s.pstack s0 := by
  rcases he with ⟨isG, rfl⟩ | ⟨k, rfl⟩
  · simp only [step] at h0
    split at h0
    · cases h0
      refine ⟨?_, rfl, [], _, rfl, rfl, rfl, rfl, rfl⟩
      simp only [pushFrame, prologue, St.sp]
      rw [List.take_append_of_le_length (Nat.le_refl _), List.take_of_length_le (Nat.le_refl _)]
    · cases h0
  · simp only [step] at h0
    split at h0
    · obtain ⟨s3, h3, ho⟩ := raiseIn_out (prologue s nargs h)
        { sp := s.sp, base := s.top - nargs - 1, oldPanic := s.panicFn, errfunc := h } s.pstack k rfl
      rw [h3] at h0; cases h0
      cases ho with
      | exit hfr hcur htop huv hps hpf hhef hregs hlog => rw [hps] at hd0; omega
      | handler f hfr hcur hbase htop huv hps hhef hni hsome hregs hlog =>
        refine ⟨?_, by rw [huv]; rfl, [], _, hps, rfl, rfl, rfl, rfl⟩
        rw [hfr]
        simp only [prologue, St.sp]
        rw [List.take_append_of_le_length (Nat.le_refl _), List.take_of_length_le (Nat.le_refl _)]
    · cases h0

/-- **main lemma**: a protected call entered in a well-formed state `s`, followed by ANY inner activity `ops`
    that stays inside it (nested protected calls included, complete or not), and ended by ANY failing exit
    `last` (an error without handler, the handler returning, the handler failing, a registry overflow while
    calling the handler) leaves the interpreter bookkeeping exactly as it was before the call. -/
theorem pcall_restores_main (s s0 s1 s2 : St) (hinv : Inv s) (nargs : Nat) (h : Option (V × Bool)) (e : Op)
    (ops : List Op) (last : Op) (he : IsEntry nargs h e)
    (h0 : step fixedCfg s e = .ok s0) (hd0 : s0.pstack.length = s.pstack.length + 1)
    (h1 : runAbove fixedCfg (s.pstack.length + 1) s0 ops = some s1)
    (h2 : step fixedCfg s1 last = .ok s2) (hfail : isSuccessExit last = false)
    (hout : s2.pstack.length ≤ s.pstack.length) :
    s2.frames = s.frames ∧ s2.cur = s.cur ∧ s2.top = s.top - nargs - 1 ∧ s2.panicFn = s.panicFn ∧
    s2.hasErrorFunc = false ∧ s2.uvs = s.uvs.takeWhile (· < s.top - nargs - 1) ∧
    s2.pstack = s.pstack ∧ (∀ i, i < s.top - nargs - 1 → s2.regs i = s1.regs i) ∧ Inv s2 := by
  have hinv0 := step_inv s s0 e hinv h0
  have hin0 := entry_inside s s0 hinv nargs h e he h0 hd0
  have hinv1 := runAbove_inv _ ops s0 s1 hinv0 h1
  have hin1 := runAbove_inside ops s0 s1 hinv0 hin0 h1
  have hinv2 := step_inv s1 s2 last hinv1 h2
  obtain ⟨inner, R', hps, hsp, hb, hop, hef⟩ := hin1.stack
  cases inner with
  | cons i0 inner' =>
    -- a nested activation is still open: one operation cannot end two activations
    exfalso
    have := step_depth_ge s1 s2 last h2
    rw [hps] at this
    simp only [List.cons_append, List.length_cons, List.length_append] at this
    omega
  | nil =>
    simp only [List.nil_append] at hps
    obtain ⟨e1, e2, e3, e4, e5, e6, e7, e8, _⟩ := exit_facts s1 s2 last hinv1 R' s.pstack hps h2 hout hfail
    have hF := hin1.frames
    have hU := hin1.uvs
    simp only at hF hU hsp hb hop
    refine ⟨?_, ?_, ?_, ?_, e5, ?_, e7, ?_, hinv2⟩
    · rw [e1, hsp]; exact hF
    · rw [e2, hsp, hF]; exact hinv.cur.symm
    · rw [e3, hb]
    · rw [e4, hop]
    · rw [e6, hb]; exact hU
    · intro i hi; exact e8 i (by rw [hb]; exact hi)


/-- the protected call fails before a body frame exists (callee is not callable, call stack full) and there is no handler -/
theorem pcall_restores_immediate (s s2 : St) (hinv : Inv s) (nargs : Nat) (k : RaiseKind)
    (h0 : step fixedCfg s (.enterFail nargs none k) = .ok s2) :
    s2.frames = s.frames ∧ s2.cur = s.cur ∧ s2.top = s.top - nargs - 1 ∧ s2.panicFn = s.panicFn ∧
    s2.hasErrorFunc = false ∧ s2.uvs = s.uvs.takeWhile (· < s.top - nargs - 1) ∧
    s2.pstack = s.pstack ∧ (∀ i, i < s.top - nargs - 1 → s2.regs i = s.regs i) := by
  simp only [step] at h0
  split at h0
  · obtain ⟨s3, h3, ho⟩ := raiseIn_out (prologue s nargs none)
      { sp := s.sp, base := s.top - nargs - 1, oldPanic := s.panicFn, errfunc := none } s.pstack k rfl
    rw [h3] at h0; cases h0
    cases ho with
    | exit hfr hcur htop huv hps hpf hhef hregs hlog =>
      have hfr' : s2.frames = s.frames := by
        rw [hfr]; simp only [prologue, St.sp]; exact List.take_of_length_le (Nat.le_refl _)
      refine ⟨hfr', ?_, htop, hpf, ?_, huv, hps, ?_⟩
      · rw [hcur, hinv.cur]; simp only [prologue, St.sp]
        rw [List.take_of_length_le (Nat.le_refl _)]
      · rcases hhef with hf | ⟨hin, _⟩
        · exact hf
        · simp at hin
      · intro i hi
        exact hregs i hi (by simp only [prologue]; omega)
    | handler f hfr hcur hbase htop huv hps hhef hni hsome hregs hlog => simp at hsome
  · cases h0

/-- successful exit: same bookkeeping (the results lie above `base`) -/
theorem pcall_success_main (s s0 s1 s2 : St) (hinv : Inv s) (nargs n : Nat) (h : Option (V × Bool)) (e : Op)
    (ops : List Op) (he : IsEntry nargs h e)
    (h0 : step fixedCfg s e = .ok s0) (hd0 : s0.pstack.length = s.pstack.length + 1)
    (h1 : runAbove fixedCfg (s.pstack.length + 1) s0 ops = some s1)
    (h2 : step fixedCfg s1 (.retLeave n) = .ok s2)
    (hout : s2.pstack.length ≤ s.pstack.length) :
    s2.frames = s.frames ∧ s2.cur = s.cur ∧ s2.panicFn = s.panicFn ∧ s2.hasErrorFunc = false ∧
    s2.uvs.takeWhile (· < s.top - nargs - 1) = s.uvs.takeWhile (· < s.top - nargs - 1) ∧
    s2.pstack = s.pstack := by
  have hinv0 := step_inv s s0 e hinv h0
  have hin0 := entry_inside s s0 hinv nargs h e he h0 hd0
  have hinv1 := runAbove_inv _ ops s0 s1 hinv0 h1
  have hin1 := runAbove_inside ops s0 s1 hinv0 hin0 h1
  have hf := inside_facts s1 hinv1 hin1
  dsimp only at hf
  obtain ⟨inner, R', hps, hsp, hb, hop, hef⟩ := hin1.stack
  dsimp only at hsp hb hop hef
  cases inner with
  | cons i0 inner' =>
    exfalso
    have := step_depth_ge s1 s2 _ h2
    rw [hps] at this
    simp only [List.cons_append, List.length_cons, List.length_append] at this
    omega
  | nil =>
    simp only [List.nil_append] at hps
    simp only [step, hps] at h2
    split at h2
    · cases h2
    · rename_i hcond
      split at h2
      · cases h2
      · rename_i s3 hpop
        cases h2
        have hsp0 : s1.sp = R'.sp + 1 := Decidable.of_not_not (fun hne => hcond (.inr hne))
        simp only [St.sp] at hsp0
        obtain ⟨f, hfl, hn, hfr, hcur, htop, hps3, hhe, _, _, huv, _⟩ := popFrame_out s1 s3 n hpop
        obtain ⟨hfb, hpos⟩ := getLast?_base s1 f hfl
        have hF := hin1.frames
        have hU := hin1.uvs
        simp only at hF hU hsp hb hop
        have hfge := hf.2.2.2 (s1.bases.length - 1) f.base (by rw [bases_length]; omega) hfb
        refine ⟨?_, ?_, ?_, rfl, ?_, rfl⟩
        · simp only [outerTail, hfr]
          rw [take_dropLast_take _ _ (by omega), hsp]; exact hF
        · simp only [outerTail, hcur]
          by_cases h00 : R'.sp = 0
          · simp only [h00, ↓reduceIte]
            rw [hinv.cur, ← hF, ← hsp, h00]; simp [lastIdx]
          · simp only [h00, ↓reduceIte]
            rw [hinv.cur, ← hF, ← hsp, ← take_dropLast_take s1.frames R'.sp (by omega)]
            congr 1
            rw [List.take_of_length_le]; simp; omega
        · exact hop
        · simp only [outerTail, huv]
          rw [← hU]
          split
          · rfl
          · exact closeUpvalues_below _ _ _ (by simp only [Frame.localBase]; omega)


/-- inner activity writes the caller's registers only through open upvalues -/
def noUpvalStore : Op → Bool
  | .setUpval _ _ => false
  | _ => true

theorem step_regs_below {R : PRec} {F : List Frame} {U : List Nat} {rest : List PRec} (s s' : St) (o : Op)
    (hinv : Inv s) (hin : Inside R F U rest s) (h : step fixedCfg s o = .ok s')
    (hd : s'.pstack.length ≥ rest.length + 1) (hno : noUpvalStore o = true) :
    ∀ i, i < R.base → s'.regs i = s.regs i := by
  have hf := inside_facts s hinv hin
  intro i hi
  have raiseCase : ∀ k, raiseIn fixedCfg s k = .ok s' → s'.regs i = s.regs i := by
    intro k hk
    cases hp : s.pstack with
    | nil => exact absurd hp (raiseIn_ok_nonempty s s' k hk)
    | cons r0 rest0 =>
      obtain ⟨s2, h2, ho⟩ := raiseIn_out s r0 rest0 k hp
      rw [h2] at hk; cases hk
      cases ho with
      | exit hfr hcur htop huv hps hpf hhef hregs hlog =>
        rw [hps] at hd
        obtain ⟨h1, h2', h3⟩ := inside_top_inner s hinv hin r0 rest0 hp hd
        exact hregs i (by omega) (by omega)
      | handler f hfr hcur hbase htop huv hps hhef hni hsome hregs hlog => exact hregs i (by omega)
  cases o with
  | push v =>
    simp only [step] at h
    split at h
    · exact raiseCase _ h
    · cases h; simp only [regPush]; rw [if_neg (by omega)]
  | setTop n =>
    simp only [step] at h
    split at h
    · cases h
    · cases h; simp only [regSetTop]; rw [if_neg (by omega)]
  | setReg off v =>
    simp only [step] at h
    split at h
    · cases h
    · cases h; simp only [regSet]; rw [if_neg (by omega)]
  | setUpval j v => simp [noUpvalStore] at hno
  | openUpval off =>
    simp only [step] at h
    split at h
    · cases h; rfl
    · cases h
  | closeUpvals off => simp only [step] at h; cases h; rfl
  | setLine n =>
    simp only [step] at h
    split at h
    · cases h; rfl
    · cases h
  | call isG nargs =>
    simp only [step] at h
    split at h
    · cases h; rfl
    · cases h
  | ret n =>
    simp only [step] at h
    split at h
    · split at h
      · rename_i s1 hpop
        cases h
        obtain ⟨f, hfl, hn, hfr, hcur, htop, hps, hhe, _, _, huv, hregs⟩ := popFrame_out s s' n hpop
        obtain ⟨hfb, hpos⟩ := getLast?_base s f hfl
        have := hf.2.2.2 (s.bases.length - 1) f.base (by rw [bases_length]; omega) hfb
        exact hregs i (by omega)
      · cases h
    · cases h
  | enter nargs hh isG =>
    simp only [step] at h
    split at h
    · cases h; rfl
    · cases h
  | enterFail nargs hh k =>
    simp only [step] at h
    split at h
    · rename_i hg
      obtain ⟨s2, h2, ho⟩ := raiseIn_out (prologue s nargs hh)
        { sp := s.sp, base := s.top - nargs - 1, oldPanic := s.panicFn, errfunc := hh } s.pstack k rfl
      rw [h2] at h; cases h
      cases ho with
      | exit hfr hcur htop huv hps hpf hhef hregs hlog =>
        exact hregs i (by dsimp only; omega) (by simp only [prologue]; omega)
      | handler f hfr hcur hbase htop huv hps hhef hni hsome hregs hlog =>
        exact hregs i (by simp only [prologue]; omega)
    · cases h
  | retLeave n =>
    simp only [step] at h
    split at h
    · rename_i r0 rest0 hp
      split at h
      · cases h
      · split at h
        · cases h
        · rename_i s1 hpop
          cases h
          obtain ⟨f, hfl, hn, hfr, hcur, htop, hps, hhe, _, _, huv, hregs⟩ := popFrame_out s s1 n hpop
          obtain ⟨hfb, hpos⟩ := getLast?_base s f hfl
          have := hf.2.2.2 (s.bases.length - 1) f.base (by rw [bases_length]; omega) hfb
          simp only [outerTail]
          exact hregs i (by omega)
    · cases h
  | raise k => exact raiseCase k h
  | retHandler =>
    simp only [step] at h
    split at h
    · rename_i r0 rest0 hp
      split at h
      · cases h
      · split at h
        · cases h
        · rename_i s1 hpop
          cases h
          obtain ⟨f, hfl, hn, hfr, hcur, htop, hps, hhe, _, _, huv, hregs⟩ := popFrame_out s s1 1 hpop
          obtain ⟨hfb, hpos⟩ := getLast?_base s f hfl
          have := hf.2.2.2 (s.bases.length - 1) f.base (by rw [bases_length]; omega) hfb
          simp only [outerTail, restore, regSetTop]
          rw [if_neg (by omega)]
          exact hregs i (by omega)
    · cases h

theorem runAbove_regs_below {R : PRec} {F : List Frame} {U : List Nat} {rest : List PRec} (ops : List Op)
    (s s' : St) (hinv : Inv s) (hin : Inside R F U rest s)
    (h : runAbove fixedCfg (rest.length + 1) s ops = some s') (hno : ∀ o ∈ ops, noUpvalStore o = true) :
    ∀ i, i < R.base → s'.regs i = s.regs i := by
  induction ops generalizing s with
  | nil => simp [runAbove] at h; subst h; intro i _; rfl
  | cons o os ih =>
    simp only [runAbove] at h
    split at h
    · rename_i s1 hs1
      split at h
      · cases h
      · rename_i hlen
        intro i hi
        have h1 := step_regs_below s s1 o hinv hin hs1 (by omega) (hno o (by simp)) i hi
        have h2 := ih s1 (step_inv s s1 o hinv hs1) (step_inside s s1 o hinv hin hs1 (by omega)) h
          (fun o' ho' => hno o' (List.mem_cons_of_mem _ ho')) i hi
        rw [h2, h1]
    · cases h

theorem caller_registers_main (s s0 s1 : St) (hinv : Inv s) (nargs : Nat) (h : Option (V × Bool)) (e : Op)
    (ops : List Op) (he : IsEntry nargs h e)
    (h0 : step fixedCfg s e = .ok s0) (hd0 : s0.pstack.length = s.pstack.length + 1)
    (h1 : runAbove fixedCfg (s.pstack.length + 1) s0 ops = some s1)
    (hno : ∀ o ∈ ops, noUpvalStore o = true) :
    ∀ i, i < s.top - nargs - 1 → s1.regs i = s.regs i := by
  have hinv0 := step_inv s s0 e hinv h0
  have hin0 := entry_inside s s0 hinv nargs h e he h0 hd0
  intro i hi
  have h2 := runAbove_regs_below ops s0 s1 hinv0 hin0 h1 hno i hi
  rw [h2]
  -- the entry itself
  rcases he with ⟨isG, rfl⟩ | ⟨k, rfl⟩
  · simp only [step] at h0
    split at h0
    · cases h0; rfl
    · cases h0
  · simp only [step] at h0
    split at h0
    · obtain ⟨s3, h3, ho⟩ := raiseIn_out (prologue s nargs h)
        { sp := s.sp, base := s.top - nargs - 1, oldPanic := s.panicFn, errfunc := h } s.pstack k rfl
      rw [h3] at h0; cases h0
      cases ho with
      | exit hfr hcur htop huv hps hpf hhef hregs hlog => rw [hps] at hd0; omega
      | handler f hfr hcur hbase htop huv hps hhef hni hsome hregs hlog =>
        exact hregs i (by simp only [prologue]; omega)
    · cases h0


/-! ### exactly-once delivery, at-most-once handler -/

def isHandlerStart (d : Nat) : Event → Bool
  | .handlerStart d' _ => d' == d
  | _ => false

def isDelivery (d : Nat) : Event → Bool
  | .delivered d' _ => d' == d
  | _ => false

def handlerStarts (d : Nat) (l : List Event) : Nat := (l.filter (isHandlerStart d)).length
def deliveries (d : Nat) (l : List Event) : Nat := (l.filter (isDelivery d)).length

theorem handlerStarts_snoc (d : Nat) (l : List Event) (e : Event) :
    handlerStarts d (l ++ [e]) = handlerStarts d l + (if isHandlerStart d e then 1 else 0) := by
  simp only [handlerStarts, List.filter_append, List.length_append]
  congr 1
  by_cases h : isHandlerStart d e <;> simp [List.filter, h]

theorem deliveries_snoc (d : Nat) (l : List Event) (e : Event) :
    deliveries d (l ++ [e]) = deliveries d l + (if isDelivery d e then 1 else 0) := by
  simp only [deliveries, List.filter_append, List.length_append]
  congr 1
  by_cases h : isDelivery d e <;> simp [List.filter, h]

/-- the log counters of the activation at depth `rest.length`, while inner activity runs inside it -/
structure LogIn (rest : List PRec) (H0 D0 : Nat) (s : St) : Prop where
  stack : ∃ inner R', s.pstack = inner ++ R' :: rest ∧
            handlerStarts rest.length s.log = H0 + (if R'.inHandler then 1 else 0) ∧
            (R'.errfunc = none → R'.inHandler = false)
  deliv : deliveries rest.length s.log = D0

theorem logIn_same {rest : List PRec} {H0 D0 : Nat} (s s' : St) (h : LogIn rest H0 D0 s)
    (hp : s'.pstack = s.pstack) (hl : s'.log = s.log) : LogIn rest H0 D0 s' := by
  obtain ⟨inner, R', h1, h2, h3⟩ := h.stack
  exact ⟨⟨inner, R', by rw [hp, h1], by rw [hl]; exact h2, h3⟩, by rw [hl]; exact h.deliv⟩

/-- the innermost activation (not the one of interest) ends, logging one event at its own depth -/
theorem logIn_pop {rest : List PRec} {H0 D0 : Nat} (s s' : St) (h : LogIn rest H0 D0 s)
    (r0 : PRec) (rest0 : List PRec) (hp : s.pstack = r0 :: rest0) (hps : s'.pstack = rest0)
    (hd : rest0.length ≥ rest.length + 1) (ev : Event) (hl : s'.log = s.log ++ [ev])
    (hev : isHandlerStart rest.length ev = false ∧ isDelivery rest.length ev = false) : LogIn rest H0 D0 s' := by
  obtain ⟨inner, R', h1, h2, h3⟩ := h.stack
  cases inner with
  | nil =>
    rw [hp] at h1; simp only [List.nil_append, List.cons.injEq] at h1
    rw [h1.2] at hd; omega
  | cons i0 inner' =>
    rw [hp] at h1; simp only [List.cons_append, List.cons.injEq] at h1
    refine ⟨⟨inner', R', by rw [hps, h1.2], ?_, h3⟩, ?_⟩
    · rw [hl, handlerStarts_snoc, hev.1]; simpa using h2
    · rw [hl, deliveries_snoc, hev.2]; simpa using h.deliv

theorem delivered_ne (a b : Nat) (e : ApiErr) (h : a ≠ b) :
    isHandlerStart b (.delivered a e) = false ∧ isDelivery b (.delivered a e) = false := by
  simp [isHandlerStart, isDelivery, h]

/-- a raise: either an inner activation ends, or a handler starts (of an inner one, or of the one of interest) -/
theorem logIn_raise {rest : List PRec} {H0 D0 : Nat} (s s' : St) (h : LogIn rest H0 D0 s)
    (r0 : PRec) (rest0 : List PRec) (hp : s.pstack = r0 :: rest0) (ho : RaiseOut s r0 rest0 s')
    (hd : s'.pstack.length ≥ rest.length + 1) : LogIn rest H0 D0 s' := by
  cases ho with
  | exit hfr hcur htop huv hps hpf hhef hregs hlog =>
    obtain ⟨e, he⟩ := hlog
    rw [hps] at hd
    exact logIn_pop s s' h r0 rest0 hp hps hd _ he (delivered_ne _ _ _ (by omega))
  | handler f hfr hcur hbase htop huv hps hhef hni hsome hregs hlog =>
    obtain ⟨v, hv⟩ := hlog
    obtain ⟨inner, R', h1, h2, h3⟩ := h.stack
    rw [hp] at h1
    cases inner with
    | nil =>
      simp only [List.nil_append, List.cons.injEq] at h1
      obtain ⟨rfl, rfl⟩ := h1
      refine ⟨⟨[], { r0 with inHandler := true, hsp := s.sp }, by rw [hps]; rfl, ?_, ?_⟩, ?_⟩
      · rw [hv, handlerStarts_snoc, h2, hni]; simp [isHandlerStart]
      · intro hnone; dsimp only at hnone; rw [hnone] at hsome; cases hsome
      · rw [hv, deliveries_snoc]; simpa [isDelivery] using h.deliv
    | cons i0 inner' =>
      simp only [List.cons_append, List.cons.injEq] at h1
      obtain ⟨rfl, rfl⟩ := h1
      have hne : (inner' ++ R' :: rest).length ≠ rest.length := by
        simp only [List.length_append, List.length_cons]; omega
      refine ⟨⟨_ :: inner', R', by rw [hps]; rfl, ?_, h3⟩, ?_⟩
      · rw [hv, handlerStarts_snoc, h2]
        have : isHandlerStart rest.length (Event.handlerStart (inner' ++ R' :: rest).length v) = false := by
          simp only [isHandlerStart, beq_eq_false_iff_ne]; exact hne
        rw [this]; simp
      · rw [hv, deliveries_snoc]; simpa [isDelivery] using h.deliv

theorem step_logIn {rest : List PRec} {H0 D0 : Nat} (s s' : St) (o : Op) (hl : LogIn rest H0 D0 s)
    (h : step fixedCfg s o = .ok s') (hd : s'.pstack.length ≥ rest.length + 1) : LogIn rest H0 D0 s' := by
  have raiseCase : ∀ k, raiseIn fixedCfg s k = .ok s' → LogIn rest H0 D0 s' := by
    intro k hk
    cases hp : s.pstack with
    | nil => exact absurd hp (raiseIn_ok_nonempty s s' k hk)
    | cons r0 rest0 =>
      obtain ⟨s2, h2, ho⟩ := raiseIn_out s r0 rest0 k hp
      rw [h2] at hk; cases hk
      exact logIn_raise s s' hl r0 rest0 hp ho hd
  cases o with
  | push v =>
    simp only [step] at h
    split at h
    · exact raiseCase _ h
    · cases h; exact logIn_same s _ hl rfl rfl
  | setTop n =>
    simp only [step] at h
    split at h
    · cases h
    · cases h; exact logIn_same s _ hl rfl rfl
  | setReg off v =>
    simp only [step] at h
    split at h
    · cases h
    · cases h; exact logIn_same s _ hl rfl rfl
  | setUpval j v =>
    simp only [step] at h
    split at h
    · cases h; exact logIn_same s _ hl rfl rfl
    · cases h
  | openUpval off =>
    simp only [step] at h
    split at h
    · cases h; exact logIn_same s _ hl rfl rfl
    · cases h
  | closeUpvals off => simp only [step] at h; cases h; exact logIn_same s _ hl rfl rfl
  | setLine n =>
    simp only [step] at h
    split at h
    · cases h; exact logIn_same s _ hl rfl rfl
    · cases h
  | call isG nargs =>
    simp only [step] at h
    split at h
    · cases h; exact logIn_same s _ hl rfl rfl
    · cases h
  | ret n =>
    simp only [step] at h
    split at h
    · split at h
      · rename_i s1 hpop
        cases h
        obtain ⟨f, _, _, _, _, _, hps, _, _, hlg, _, _⟩ := popFrame_out s s' n hpop
        exact logIn_same s _ hl hps hlg
      · cases h
    · cases h
  | enter nargs hh isG =>
    simp only [step] at h
    split at h
    · cases h
      obtain ⟨inner, R', h1, h2, h3⟩ := hl.stack
      exact ⟨⟨_ :: inner, R', by simp only [pushFrame, prologue, h1]; rfl, h2, h3⟩, hl.deliv⟩
    · cases h
  | enterFail nargs hh k =>
    simp only [step] at h
    split at h
    · obtain ⟨s2, h2, ho⟩ := raiseIn_out (prologue s nargs hh)
        { sp := s.sp, base := s.top - nargs - 1, oldPanic := s.panicFn, errfunc := hh } s.pstack k rfl
      rw [h2] at h; cases h
      obtain ⟨inner, R', h1, h2', h3⟩ := hl.stack
      have hne : s.pstack.length ≠ rest.length := by
        rw [h1]; simp only [List.length_append, List.length_cons]; omega
      cases ho with
      | exit hfr hcur htop huv hps hpf hhef hregs hlog =>
        obtain ⟨e, he⟩ := hlog
        refine ⟨⟨inner, R', by rw [hps, h1], ?_, h3⟩, ?_⟩
        · rw [he]; simp only [prologue]; rw [handlerStarts_snoc]; simpa [isHandlerStart] using h2'
        · rw [he]; simp only [prologue]; rw [deliveries_snoc]; simpa [isDelivery, hne] using hl.deliv
      | handler f hfr hcur hbase htop huv hps hhef hni hsome hregs hlog =>
        obtain ⟨v, hv⟩ := hlog
        refine ⟨⟨_ :: inner, R', by rw [hps, h1]; rfl, ?_, h3⟩, ?_⟩
        · rw [hv]; simp only [prologue]; rw [handlerStarts_snoc]; simpa [isHandlerStart, hne] using h2'
        · rw [hv]; simp only [prologue]; rw [deliveries_snoc]; simpa [isDelivery] using hl.deliv
    · cases h
  | retLeave n =>
    simp only [step] at h
    split at h
    · rename_i r0 rest0 hp
      split at h
      · cases h
      · split at h
        · cases h
        · rename_i s1 hpop
          cases h
          obtain ⟨f, _, _, _, _, _, hps, _, _, hlg, _, _⟩ := popFrame_out s s1 n hpop
          exact logIn_pop s _ hl r0 rest0 hp rfl hd (.returned rest0.length)
            (by simp [outerTail, hlg]) (by simp [isHandlerStart, isDelivery])
    · cases h
  | raise k => exact raiseCase k h
  | retHandler =>
    simp only [step] at h
    split at h
    · rename_i r0 rest0 hp
      split at h
      · cases h
      · split at h
        · cases h
        · rename_i s1 hpop
          cases h
          obtain ⟨f, _, _, _, _, _, hps, _, _, hlg, _, _⟩ := popFrame_out s s1 1 hpop
          have hd' : rest0.length ≥ rest.length + 1 := hd
          exact logIn_pop s _ hl r0 rest0 hp rfl hd'
            (.delivered rest0.length ⟨.error, s1.regs (s1.top - 1)⟩)
            (by simp [outerTail, restore, regSetTop, hlg]) (delivered_ne _ _ _ (by omega))
    · cases h

theorem runAbove_logIn {rest : List PRec} {H0 D0 : Nat} (ops : List Op) (s s' : St) (hl : LogIn rest H0 D0 s)
    (h : runAbove fixedCfg (rest.length + 1) s ops = some s') : LogIn rest H0 D0 s' := by
  induction ops generalizing s with
  | nil => simp [runAbove] at h; subst h; exact hl
  | cons o os ih =>
    simp only [runAbove] at h
    split at h
    · rename_i s1 hs1
      split at h
      · cases h
      · exact ih s1 (step_logIn s s1 o hl hs1 (by omega)) h
    · cases h


/-- in a failed protected call the error is delivered to it exactly once and its handler is started at most once
    (never when there is none; exactly once when there is one and the registry has room for its two arguments:
    `handler_called_before_unwinding`) — whatever happens inside, nested protected calls and handlers included -/
theorem delivered_once_main (s s0 s1 s2 : St) (hinv : Inv s) (nargs : Nat) (h : Option (V × Bool)) (e : Op)
    (ops : List Op) (last : Op) (he : IsEntry nargs h e)
    (h0 : step fixedCfg s e = .ok s0) (hd0 : s0.pstack.length = s.pstack.length + 1)
    (h1 : runAbove fixedCfg (s.pstack.length + 1) s0 ops = some s1)
    (h2 : step fixedCfg s1 last = .ok s2) (hfail : isSuccessExit last = false)
    (hout : s2.pstack.length ≤ s.pstack.length) :
    deliveries s.pstack.length s2.log = deliveries s.pstack.length s.log + 1 ∧
    handlerStarts s.pstack.length s2.log ≤ handlerStarts s.pstack.length s.log + 1 ∧
    (h = none → handlerStarts s.pstack.length s2.log = handlerStarts s.pstack.length s.log) := by
  have hinv0 := step_inv s s0 e hinv h0
  have hin0 := entry_inside s s0 hinv nargs h e he h0 hd0
  have hinv1 := runAbove_inv _ ops s0 s1 hinv0 h1
  have hin1 := runAbove_inside ops s0 s1 hinv0 hin0 h1
  -- the counters at entry
  have hl0 : LogIn s.pstack (handlerStarts s.pstack.length s.log) (deliveries s.pstack.length s.log) s0 := by
    rcases he with ⟨isG, rfl⟩ | ⟨k, rfl⟩
    · simp only [step] at h0
      split at h0
      · cases h0
        exact ⟨⟨[], _, rfl, by simp [pushFrame, prologue], by intro _; rfl⟩, rfl⟩
      · cases h0
    · simp only [step] at h0
      split at h0
      · obtain ⟨s3, h3, ho⟩ := raiseIn_out (prologue s nargs h)
          { sp := s.sp, base := s.top - nargs - 1, oldPanic := s.panicFn, errfunc := h } s.pstack k rfl
        rw [h3] at h0; cases h0
        cases ho with
        | exit hfr hcur htop huv hps hpf hhef hregs hlog => rw [hps] at hd0; omega
        | handler f hfr hcur hbase htop huv hps hhef hni hsome hregs hlog =>
          obtain ⟨v, hv⟩ := hlog
          refine ⟨⟨[], _, hps, ?_, ?_⟩, ?_⟩
          · rw [hv]; simp only [prologue]; rw [handlerStarts_snoc]; simp [isHandlerStart]
          · intro hnone; dsimp only at hnone; rw [hnone] at hsome; cases hsome
          · rw [hv]; simp only [prologue]; rw [deliveries_snoc]; simp [isDelivery]
      · cases h0
  have hl1 := runAbove_logIn ops s0 s1 hl0 h1
  obtain ⟨inner, R', hps, hH, hE⟩ := hl1.stack
  obtain ⟨inner2, R2, hps2, _, _, _, hef2⟩ := hin1.stack
  have hdep := step_depth_ge s1 s2 last h2
  have hi1 : inner = [] := by
    cases inner with
    | nil => rfl
    | cons a l => rw [hps] at hdep; simp only [List.cons_append, List.length_cons, List.length_append] at hdep; omega
  have hi2 : inner2 = [] := by
    cases inner2 with
    | nil => rfl
    | cons a l => rw [hps2] at hdep; simp only [List.cons_append, List.length_cons, List.length_append] at hdep; omega
  subst hi1 hi2
  simp only [List.nil_append] at hps hps2
  have hRR : R' = R2 := by rw [hps] at hps2; exact (List.cons.inj hps2).1
  subst hRR
  obtain ⟨_, _, _, _, _, _, _, _, ⟨ev, hev⟩⟩ := exit_facts s1 s2 last hinv1 R' s.pstack hps h2 hout hfail
  refine ⟨?_, ?_, ?_⟩
  · rw [hev, deliveries_snoc, hl1.deliv]; simp [isDelivery]
  · rw [hev, handlerStarts_snoc, hH]; simp only [isHandlerStart]; split <;> simp
  · intro hnone
    have : R'.inHandler = false := hE (by rw [hef2]; exact hnone)
    rw [hev, handlerStarts_snoc, hH, this]; simp [isHandlerStart]


end GLua.PCall
