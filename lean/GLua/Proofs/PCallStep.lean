/-
  Single-step facts about the protected-call model: shape of raising, containment of foreign panics, the handler
  protocol, the position prefix, the coroutine bottom, and the negation witnesses for the code before the
  proposed fixes.
-/
import GLua.Model.PCall

namespace GLua.PCall

/-- the code after the proposed fixes -/
def fixedCfg : Cfg := {}
/-- the tree before /repo commit ae08bde (raising closed the upvalues of every frame) -/
def legacyRaise : Cfg := { raiseClosesAll := true }
/-- the tree before fixes/C05-handler-push-under-recover.diff -/
def legacyPush : Cfg := { handlerPushOutside := true }

def Res.isEscaped : Res → Bool
  | .escaped _ _ => true
  | _ => false

def Res.bind : Res → (St → Res) → Res
  | .ok s, f => f s
  | r, _ => r

def Res.uvs? : Res → Option (List Nat)
  | .ok s => some s.uvs
  | _ => none

def Res.flag? : Res → Option (Bool × Nat)
  | .ok s => some (s.hasErrorFunc, s.pstack.length)
  | _ => none

/-! ### what raising does before the panic travels -/

theorem doRaise_fixed (s : St) (l : Nat) (m : String) :
    doRaiseError fixedCfg s l m =
      (regPush { s with cap := if s.top ≥ s.cap then s.top + 1 else s.cap } (.str (raiseMessage s l m)),
       .api ⟨.run, .str (raiseMessage s l m)⟩) := by
  simp [doRaiseError, fixedCfg]

/-- the three shapes of `throwOf` in the fixed code -/
theorem throwOf_fixed_cases (s : St) (k : RaiseKind) :
    (∃ l m, throwOf fixedCfg s k = doRaiseError fixedCfg s l m) ∨
    (∃ v, s.top + 1 ≤ s.cap ∧ throwOf fixedCfg s k = (regPush s v, .api ⟨.run, v⟩)) ∨
    (∃ t, throwOf fixedCfg s k = (s, .foreign t)) := by
  cases k with
  | raiseError l m => exact .inl ⟨l, m, rfl⟩
  | errorObj v l =>
    cases v with
    | str m => exact .inl ⟨l, m, rfl⟩
    | nil =>
      by_cases h : s.top + 1 > s.cap
      · exact .inl ⟨1, "registry overflow", by simp [throwOf, fixedCfg, h]⟩
      · exact .inr (.inl ⟨.nil, by omega, by simp [throwOf, fixedCfg, h]⟩)
    | bool b =>
      by_cases h : s.top + 1 > s.cap
      · exact .inl ⟨1, "registry overflow", by simp [throwOf, fixedCfg, h]⟩
      · exact .inr (.inl ⟨.bool b, by omega, by simp [throwOf, fixedCfg, h]⟩)
    | num i =>
      by_cases h : s.top + 1 > s.cap
      · exact .inl ⟨1, "registry overflow", by simp [throwOf, fixedCfg, h]⟩
      · exact .inr (.inl ⟨.num i, by omega, by simp [throwOf, fixedCfg, h]⟩)
    | ref n =>
      by_cases h : s.top + 1 > s.cap
      · exact .inl ⟨1, "registry overflow", by simp [throwOf, fixedCfg, h]⟩
      · exact .inr (.inl ⟨.ref n, by omega, by simp [throwOf, fixedCfg, h]⟩)
  | foreign t => exact .inr (.inr ⟨t, rfl⟩)

structure ThrowShape (s s1 : St) (t : Thrown) : Prop where
  frames : s1.frames = s.frames
  cur : s1.cur = s.cur
  uvs : s1.uvs = s.uvs
  pstack : s1.pstack = s.pstack
  log : s1.log = s.log
  panicFn : s1.panicFn = s.panicFn
  hef : s1.hasErrorFunc = s.hasErrorFunc
  top_ge : s.top ≤ s1.top
  top_le : s1.top ≤ s.top + 1
  cap_ge : s.cap ≤ s1.cap
  cap_top : s1.top ≤ s.top ∨ s1.top ≤ s1.cap
  regs : ∀ i, i < s.top → s1.regs i = s.regs i

theorem throwOf_shape (s : St) (k : RaiseKind) : ThrowShape s (throwOf fixedCfg s k).1 (throwOf fixedCfg s k).2 := by
  rcases throwOf_fixed_cases s k with ⟨l, m, h⟩ | ⟨v, hroom, h⟩ | ⟨t, h⟩
  · rw [h, doRaise_fixed]
    refine ⟨rfl, rfl, rfl, rfl, rfl, rfl, rfl, ?_, ?_, ?_, ?_, ?_⟩ <;> simp only [regPush]
    · omega
    · omega
    · split <;> omega
    · right; split <;> omega
    · intro i hi; split <;> first | omega | rfl
  · rw [h]
    refine ⟨rfl, rfl, rfl, rfl, rfl, rfl, rfl, ?_, ?_, ?_, ?_, ?_⟩ <;> simp only [regPush]
    · omega
    · omega
    · omega
    · right; omega
    · intro i hi; split <;> first | omega | rfl
  · rw [h]
    exact ⟨rfl, rfl, rfl, rfl, rfl, rfl, rfl, Nat.le_refl _, Nat.le_succ _, Nat.le_refl _, .inl (Nat.le_refl _), fun _ _ => rfl⟩

/-! ### containment -/

theorem throwOf_pstack (c : Cfg) (s : St) (k : RaiseKind) : (throwOf c s k).1.pstack = s.pstack := by
  cases k with
  | raiseError l m => simp [throwOf, doRaiseError, regPush]
  | errorObj v l =>
    cases v <;> simp [throwOf, doRaiseError, regPush] <;> split <;> simp
  | foreign t => simp [throwOf]

theorem unwind_fixed_nonempty (t : Thrown) (s : St) (r : PRec) (rest : List PRec) :
    (unwind fixedCfg t s (r :: rest)).isEscaped = false := by
  simp only [unwind, fixedCfg]
  split
  · rfl
  · split
    · rfl
    · split
      · simp [Res.isEscaped]
      · rfl

theorem raiseIn_never_escapes (s : St) (k : RaiseKind) (h : s.pstack ≠ []) :
    (raiseIn fixedCfg s k).isEscaped = false := by
  simp only [raiseIn]
  have hp := throwOf_pstack fixedCfg s k
  generalize throwOf fixedCfg s k = p at hp
  obtain ⟨s1, t⟩ := p
  simp only at hp ⊢
  rw [hp]
  cases hps : s.pstack with
  | nil => exact absurd hps h
  | cons r rest => exact unwind_fixed_nonempty t s1 r rest

theorem step_never_escapes (s : St) (o : Op) (h : s.pstack ≠ []) : (step fixedCfg s o).isEscaped = false := by
  cases o with
  | push v => simp only [step]; split; exact raiseIn_never_escapes s _ h; rfl
  | setTop n => simp only [step]; split <;> rfl
  | setReg off v => simp only [step]; split <;> rfl
  | setUpval j v => simp only [step]; split <;> rfl
  | openUpval off => simp only [step]; split <;> rfl
  | closeUpvals off => rfl
  | setLine n => simp only [step]; split <;> rfl
  | call isG nargs => simp only [step]; split <;> rfl
  | ret n => simp only [step]; split; split <;> rfl; rfl
  | enter nargs hh isG => simp only [step]; split <;> rfl
  | enterFail nargs hh k =>
    simp only [step]; split
    · exact raiseIn_never_escapes _ _ (by simp [prologue])
    · rfl
  | retLeave n =>
    simp only [step]; split
    · split
      · rfl
      · split <;> rfl
    · rfl
  | raise k => exact raiseIn_never_escapes s k h
  | retHandler =>
    simp only [step]; split
    · split
      · rfl
      · split <;> rfl
    · rfl

theorem enterFail_never_escapes (s : St) (nargs : Nat) (h : Option (V × Bool)) (k : RaiseKind) :
    (step fixedCfg s (.enterFail nargs h k)).isEscaped = false := by
  simp only [step]; split
  · exact raiseIn_never_escapes _ _ (by simp [prologue])
  · rfl

theorem runAbove_nonempty (pre : List Op) (s s1 : St) (h : s.pstack ≠ [])
    (hrun : runAbove fixedCfg 1 s pre = some s1) : s1.pstack ≠ [] := by
  induction pre generalizing s with
  | nil => simp [runAbove] at hrun; subst hrun; exact h
  | cons o os ih =>
    simp only [runAbove] at hrun
    split at hrun
    · rename_i s' hs'
      split at hrun
      · simp at hrun
      · rename_i hlen
        apply ih s' _ hrun
        intro hnil; rw [hnil] at hlen; simp at hlen
    · simp at hrun

theorem run_never_escapes (s : St) (pre : List Op) (o : Op) (s1 : St) (h : s.pstack ≠ [])
    (hrun : runAbove fixedCfg 1 s pre = some s1) : (step fixedCfg s1 o).isEscaped = false :=
  step_never_escapes s1 o (runAbove_nonempty pre s s1 h hrun)


/-! ### delivery, handler protocol, coroutine bottom -/
theorem throwOf_log (c : Cfg) (s : St) (k : RaiseKind) : (throwOf c s k).1.log = s.log := by
  cases k with
  | raiseError l m => simp [throwOf, doRaiseError, regPush]
  | errorObj v l =>
    cases v <;> simp [throwOf, doRaiseError, regPush] <;> split <;> simp
  | foreign t => simp [throwOf]

theorem raised_value_is_delivered (s : St) (r : PRec) (rest : List PRec) (k : RaiseKind)
    (hp : s.pstack = r :: rest) (hh : r.errfunc = none) (hi : r.inHandler = false) :
    ∃ s', step fixedCfg s (.raise k) = .ok s' ∧ s'.pstack = rest ∧
      s'.log = s.log ++ [.delivered rest.length (toApiErr (throwOf fixedCfg s k).2)] := by
  simp only [step, raiseIn]
  have hps := throwOf_pstack fixedCfg s k
  have hlg := throwOf_log fixedCfg s k
  generalize throwOf fixedCfg s k = p at hps hlg
  obtain ⟨s1, t⟩ := p
  simp only at hps hlg ⊢
  rw [hps, hp]
  simp [unwind, hi, hh, restore, outerTail, regSetTop, hlg]

theorem foreign_panic_becomes_api_error (s : St) (r : PRec) (rest : List PRec) (text : String)
    (hp : s.pstack = r :: rest) (hh : r.errfunc = none) (hi : r.inHandler = false) :
    ∃ s', step fixedCfg s (.raise (.foreign text)) = .ok s' ∧ s'.pstack = rest ∧
      s'.log = s.log ++ [.delivered rest.length ⟨.panic, .str text⟩] := by
  have := raised_value_is_delivered s r rest (.foreign text) hp hh hi
  simpa [throwOf, toApiErr] using this

theorem coroutine_error_is_false_msg (t : Thrown) :
    threadRecover true false t = .resumeReturns [.bool false, (toApiErr t).obj] := by
  cases t <;> simp [threadRecover, toApiErr]

theorem wrapped_coroutine_error_is_lua_error (t : Thrown) :
    threadRecover true true t = .raisedInParent (.api ⟨.run, (toApiErr t).obj⟩) := by
  cases t <;> simp [threadRecover, toApiErr]

theorem handler_result_is_delivered (s s' : St) (r : PRec) (rest : List PRec)
    (hp : s.pstack = r :: rest) (h : step fixedCfg s .retHandler = .ok s') :
    s'.log = s.log ++ [.delivered rest.length ⟨.error, s.regs (s.top - 1)⟩] ∧ s'.pstack = rest := by
  simp only [step, hp] at h
  split at h
  · simp at h
  · split at h
    · simp at h
    · rename_i s1 hpop
      simp only [Res.ok.injEq] at h
      subst h
      simp only [popFrame] at hpop
      split at hpop
      · simp at hpop
      · rename_i f hf
        split at hpop
        · simp at hpop
        · rename_i htop
          simp only [Option.some.injEq] at hpop
          subst hpop
          simp [restore, outerTail, regSetTop, Frame.localBase] at htop ⊢


/-! ### the handler runs before unwinding -/

/-- the handler is called with the error object while NOTHING has been unwound: call stack, open upvalues and every
    register below the old top are as they were at the error; only then is the activation marked `inHandler`. -/
theorem handler_called_before_unwinding (s : St) (r : PRec) (rest : List PRec) (k : RaiseKind) (hf : V) (hIsG : Bool)
    (hp : s.pstack = r :: rest) (hh : r.errfunc = some (hf, hIsG)) (hi : r.inHandler = false)
    (hroom : s.top + 3 ≤ s.cap) :
    ∃ s' f, step fixedCfg s (.raise k) = .ok s' ∧ s'.frames = s.frames ++ [f] ∧ f.isG = hIsG ∧
      s'.uvs = s.uvs ∧ (∀ i, i < s.top → s'.regs i = s.regs i) ∧
      s'.regs (s'.top - 1) = (toApiErr (throwOf fixedCfg s k).2).obj ∧ s'.regs (s'.top - 2) = hf ∧
      s'.pstack = { r with inHandler := true, hsp := s.sp } :: rest ∧
      s'.log = s.log ++ [.handlerStart rest.length (toApiErr (throwOf fixedCfg s k).2).obj] := by
  have sh := throwOf_shape s k
  simp only [step, raiseIn]
  generalize throwOf fixedCfg s k = p at sh
  obtain ⟨s1, t⟩ := p
  simp only at sh ⊢
  have h1 := sh.top_le
  have h2 := sh.cap_ge
  have h3 := sh.top_ge
  have hnot : ¬ (s1.top + 2 > s1.cap) := by omega
  rw [sh.pstack, hp]
  simp only [unwind, hi, hh, fixedCfg]
  simp only [Bool.false_eq_true, ↓reduceIte, hnot]
  refine ⟨_, { isG := hIsG, base := s1.top + 1 + 1 - 1 - 1 }, rfl, ?_, rfl, ?_, ?_, ?_, ?_, ?_, ?_⟩
  · simp [pushFrame, regPush, sh.frames]
  · simp [pushFrame, regPush, sh.uvs]
  · intro i hi'
    simp only [pushFrame, regPush]
    rw [if_neg (by omega), if_neg (by omega)]
    exact sh.regs i hi'
  · simp [pushFrame, regPush]
  · simp only [pushFrame, regPush]
    rw [if_neg (by omega), if_pos (by omega)]
  · simp [St.sp, sh.frames]
  · simp [pushFrame, regPush, sh.log]

/-! ### hasErrorFunc, position prefix -/

theorem getStack_hef (s : St) (b : Bool) (lv : Int) : getStack { s with hasErrorFunc := b } lv = getStack s lv := rfl

theorem whereAux_hef (s : St) (b : Bool) (n : Nat) (lv : Int) :
    whereAux { s with hasErrorFunc := b } n lv = whereAux s n lv := by
  induction n generalizing lv with
  | zero => rfl
  | succ n ih =>
    simp only [whereAux, getStack_hef]
    split
    · rfl
    · split
      · rfl
      · split
        · exact ih _
        · rfl

theorem raiseMessage_hef (s : St) (b : Bool) (l : Nat) (m : String) :
    raiseMessage { s with hasErrorFunc := b } l m = raiseMessage s l m := by
  simp only [raiseMessage, whereStr, St.sp]
  split
  · rw [show ({ s with hasErrorFunc := b } : St).curFrame = s.curFrame from rfl]
    rw [whereAux_hef]
  · rfl

theorem hasErrorFunc_unread (s : St) (k : RaiseKind) (b : Bool) :
    (throwOf fixedCfg { s with hasErrorFunc := b } k).2 = (throwOf fixedCfg s k).2 ∧
    (throwOf fixedCfg { s with hasErrorFunc := b } k).1.uvs = (throwOf fixedCfg s k).1.uvs := by
  cases k with
  | raiseError l m => simp [throwOf, doRaiseError, regPush, fixedCfg, raiseMessage_hef]
  | errorObj v l =>
    cases v <;> simp only [throwOf, doRaiseError, regPush, fixedCfg] <;>
      first
      | (split <;> simp [raiseMessage_hef])
      | simp [raiseMessage_hef]
  | foreign t => simp [throwOf]

theorem level0_no_prefix (s : St) (msg : String) : raiseMessage s 0 msg = msg := by
  simp [raiseMessage]

theorem non_string_unchanged (s : St) (v : V) (level : Nat) (hv : v.isStr = false) (hroom : s.top + 1 ≤ s.cap) :
    (throwOf fixedCfg s (.errorObj v level)).2 = .api ⟨.run, v⟩ := by
  have hn : ¬ (s.top + 1 > s.cap) := by omega
  cases v <;> simp [V.isStr] at hv <;> simp [throwOf, fixedCfg, regPush, hn]

theorem string_gets_where (s : St) (m : String) (level : Nat) (_hl : level > 0) :
    (throwOf fixedCfg s (.errorObj (.str m) level)).2 = .api ⟨.run, .str (raiseMessage s level m)⟩ := by
  simp [throwOf, doRaiseError]

theorem whereAux_lua (s : St) (n : Nat) (lv : Int) (i : Nat) (f : Frame)
    (hg : getStack s lv = some i) (hf : s.frames[i]? = some f) (hl : f.isG = false) :
    whereAux s (n + 1) lv = f.src ++ ":" ++ toString f.line ++ ":" := by
  simp [whereAux, hg, hf, hl]

theorem whereStr_lua (s : St) (lv : Int) (i : Nat) (f : Frame)
    (hg : getStack s lv = some i) (hf : s.frames[i]? = some f) (hl : f.isG = false) :
    whereStr s lv = f.src ++ ":" ++ toString f.line ++ ":" := by
  simp only [whereStr]
  rw [show s.sp + tailCalls s.frames + 2 = (s.sp + tailCalls s.frames + 1) + 1 from rfl]
  exact whereAux_lua s _ lv i f hg hf hl

theorem level1_in_lua_frame (s : St) (i : Nat) (f : Frame) (msg : String)
    (hc : s.cur = some i) (hf : s.frames[i]? = some f) (hl : f.isG = false) :
    raiseMessage s 1 msg = f.src ++ ":" ++ toString f.line ++ ":" ++ " " ++ msg := by
  have hg : getStack s 0 = some i := by
    simp [getStack, hc, getStackWalk]
  simp [raiseMessage, St.curFrame, hc, hf, hl, whereStr_lua s 0 i f hg hf hl]

theorem level1_from_host_function (s : St) (i : Nat) (g f : Frame) (msg : String)
    (hc : s.cur = some (i + 1)) (hg : s.frames[i + 1]? = some g) (hgG : g.isG = true)
    (hf : s.frames[i]? = some f) (hl : f.isG = false) :
    raiseMessage s 1 msg = f.src ++ ":" ++ toString f.line ++ ":" ++ " " ++ msg := by
  have hgs : getStack s 1 = some i := by
    simp [getStack, hc, getStackWalk, hg, hgG]
  simp [raiseMessage, St.curFrame, hc, hg, hgG, whereStr_lua s 1 i f hgs hf hl]

theorem level2_from_host_function (s : St) (i : Nat) (g f1 f2 : Frame) (msg : String)
    (hc : s.cur = some (i + 2)) (hg : s.frames[i + 2]? = some g) (hgG : g.isG = true)
    (h1 : s.frames[i + 1]? = some f1) (hl1 : f1.isG = false) (ht1 : f1.tailCall = 0)
    (h2 : s.frames[i]? = some f2) (hl2 : f2.isG = false) :
    raiseMessage s 2 msg = f2.src ++ ":" ++ toString f2.line ++ ":" ++ " " ++ msg := by
  have hgs : getStack s 2 = some i := by
    simp [getStack, hc, getStackWalk, hg, hgG, h1, hl1, ht1]
  simp [raiseMessage, St.curFrame, hc, hg, hgG, whereStr_lua s 2 i f2 hgs h2 hl2]

theorem level1_no_lua_frame (s : St) (g : Frame) (msg : String)
    (hfr : s.frames = [g]) (hc : s.cur = some 0) (hgG : g.isG = true) :
    raiseMessage s 1 msg = " " ++ msg := by
  have hgs : getStack s 1 = none := by
    simp [getStack, hc, getStackWalk, hfr, hgG]
  simp [raiseMessage, St.curFrame, hc, hfr, hgG, whereStr, whereAux, hgs]

/-! ### negation witnesses: the code before the fixes -/




def CallerUpvaluesSurvive (c : Cfg) : Prop :=
  ∀ (s s0 s2 : St) (nargs : Nat) (k : RaiseKind), s.cur = lastIdx s.frames →
    step c s (.enter nargs none true) = .ok s0 → step c s0 (.raise k) = .ok s2 →
    s2.uvs = s.uvs.takeWhile (· < s.top - nargs - 1)

def witS : St := { frames := [{ isG := false, base := 0 }], cur := some 0, top := 3, uvs := [1] }

theorem witS_legacy :
    ((step legacyRaise witS (.enter 0 none true)).bind fun s0 => step legacyRaise s0 (.raise (.raiseError 1 "boom"))).uvs? = some [] := by
  rfl

theorem witS_fixed :
    ((step fixedCfg witS (.enter 0 none true)).bind fun s0 => step fixedCfg s0 (.raise (.raiseError 1 "boom"))).uvs? = some [1] := by
  rfl

theorem caller_upvalues_survive_legacy_fails : ¬ CallerUpvaluesSurvive legacyRaise := by
  intro h
  have key := witS_legacy
  cases h0 : step legacyRaise witS (.enter 0 none true) with
  | ok s0 =>
    rw [h0] at key
    simp only [Res.bind] at key
    cases h2 : step legacyRaise s0 (.raise (.raiseError 1 "boom")) with
    | ok s2 =>
      rw [h2] at key
      simp only [Res.uvs?, Option.some.injEq] at key
      have := h witS s0 s2 0 _ rfl h0 h2
      rw [key] at this
      simp [witS] at this
    | escaped t s' => rw [h2] at key; simp [Res.uvs?] at key
    | disabled => rw [h2] at key; simp [Res.uvs?] at key
  | escaped t s' => rw [h0] at key; simp [Res.bind, Res.uvs?] at key
  | disabled => rw [h0] at key; simp [Res.bind, Res.uvs?] at key

def witH : St := { frames := [{ isG := true, base := 0 }], cur := some 0, top := 2, hasErrorFunc := true,
                   pstack := [{ sp := 0, base := 0, oldPanic := .withTraceback, errfunc := some (.ref 2, true) }] }

theorem hasErrorFunc_reset_not_restored :
    ∃ s s' : St, s.hasErrorFunc = true ∧ s.pstack.length = 1 ∧
      run fixedCfg s [.enter 0 none true, .raise (.raiseError 1 "e")] = .ok s' ∧
      s'.pstack.length = 1 ∧ s'.hasErrorFunc = false := by
  have key : (run fixedCfg witH [.enter 0 none true, .raise (.raiseError 1 "e")]).flag? = some (false, 1) := by rfl
  cases hr : run fixedCfg witH [.enter 0 none true, .raise (.raiseError 1 "e")] with
  | ok s' =>
    rw [hr] at key
    simp only [Res.flag?, Option.some.injEq, Prod.mk.injEq] at key
    exact ⟨witH, s', rfl, rfl, hr, key.2, key.1⟩
  | escaped t s' => rw [hr] at key; simp [Res.flag?] at key
  | disabled => rw [hr] at key; simp [Res.flag?] at key

def witE : St := { frames := [{ isG := true, base := 0 }], cur := some 0, top := 2, cap := 2,
                   pstack := [{ sp := 0, base := 0, oldPanic := .withTraceback, errfunc := some (.ref 2, true) }] }

theorem step_never_escapes_legacy_fails :
    ¬ (∀ (s : St) (o : Op), s.pstack ≠ [] → (step legacyPush s o).isEscaped = false) := by
  intro h
  have := h witE (.raise (.foreign "x")) (by simp [witE])
  have key : (step legacyPush witE (.raise (.foreign "x"))).isEscaped = true := by rfl
  rw [key] at this
  exact absurd this (by decide)

theorem witE_fixed : (step fixedCfg witE (.raise (.foreign "x"))).isEscaped = false := by rfl

end GLua.PCall
