/-
  C14, `vm_eq_reference` with captures — definitions.

  The larger fragment: the items of PmFrag plus captures `(` … `)` (nested), position captures `()`, balanced matches
  `%bxy` and back-references `%1`–`%9` to closed captures.  `tokToks` tokenizes the bytes (flat, the reference's view),
  `capsOK` is the static capture discipline (what lstrlib checks when it passes the item), `build` is the tree the
  Model's recursive-descent parser makes of the flat tokens, `refToks` is the reference matcher on the tokens and
  `emitToks` the program the Model compiles.
-/
import GLua.Proofs.PmFragParse

namespace GLua.PmProofs
open GLua.Pm GLua.LuaPattern

inductive Tok where
  | item (it : Item)
  | opn                      -- `(`
  | cls                      -- `)`
  | pos                      -- `()`
  | bal (b e : Nat)          -- `%bxy`
  | ref (d : Nat)            -- `%d`, d the digit byte
deriving DecidableEq, Repr

/-- tokenize a pattern body (after the anchor `^` has been removed); `none` = outside the fragment -/
def tokToks : Nat → List Nat → Option (List Tok × Bool)
  | 0, _ => none
  | _, [] => some ([], false)
  | f+1, c :: r =>
    if c = 36 ∧ r = [] then some ([], true)
    else if c = 40 then
      match r with
      | 41 :: r' =>
        match tokToks f r' with
        | none => none
        | some (ts, t) => some (.pos :: ts, t)
      | _ =>
        match tokToks f r with
        | none => none
        | some (ts, t) => some (.opn :: ts, t)
    else if c = 41 then
      match tokToks f r with
      | none => none
      | some (ts, t) => some (.cls :: ts, t)
    else if c = 37 ∧ r.head? = some 98 then
      match r with
      | _ :: b :: e :: r' =>
        match tokToks f r' with
        | none => none
        | some (ts, t) => some (.bal b e :: ts, t)
      | _ => none
    else if c = 37 ∧ (r.head?.map isDigit) = some true then
      if r.headD 0 = 48 then none else
      match tokToks f (r.drop 1) with
      | none => none
      | some (ts, t) => some (.ref (r.headD 0) :: ts, t)
    else
      match tokCls (c :: r) with
      | none => none
      | some (cls, r1) =>
        match tokToks f (tokQ r1).2 with
        | none => none
        | some (ts, t) => some (.item ⟨cls, (tokQ r1).1⟩ :: ts, t)

/-- the static capture discipline: `n` captures so far, `E` the stack of the open ones (innermost first) -/
def capsOK : Nat → List Nat → List Tok → Bool
  | _, E, [] => E.isEmpty
  | n, E, .opn :: r => decide (n < 32) && capsOK (n+1) (n :: E) r
  | n, E, .pos :: r => decide (n < 32) && capsOK (n+1) E r
  | n, _ :: E, .cls :: r => capsOK n E r
  | _, [], .cls :: _ => false
  | n, E, .ref d :: r => (decide (49 ≤ d) && decide (d - 49 < n) && !E.contains (d - 49)) && capsOK n E r
  | n, E, .item _ :: r => capsOK n E r
  | n, E, .bal _ _ :: r => capsOK n E r

/-- the Model's node for a token that is not a parenthesis -/
def Tok.pat : Tok → Pat
  | .item it => it.pat
  | .pos => .posCap
  | .bal b e => .brace b e
  | .ref d => .number ((d : Int) - 48)
  | _ => .posCap

/-- the tree `parsePattern` builds: a sequence up to the end or to an unmatched `)`;
    result = (nodes, tokens consumed, tokens left) -/
def build : Nat → List Tok → Option (List Pat × List Tok × List Tok)
  | 0, _ => none
  | _+1, [] => some ([], [], [])
  | _+1, .cls :: r => some ([], [], .cls :: r)
  | f+1, .opn :: r =>
    match build f r with
    | some (inner, cin, .cls :: r2) =>
      match build f r2 with
      | some (ps, c2, r3) => some (.cap inner :: ps, .opn :: cin ++ .cls :: c2, r3)
      | none => none
    | _ => none
  | f+1, t :: r =>
    match build f r with
    | some (ps, c, r') => some (t.pat :: ps, t :: c, r')
    | none => none

/-- the fragment with captures, bytes unrestricted (see `inFragment0` for the reading of a NUL in the pattern) -/
def inFragmentC0 (pat : List Nat) : Bool :=
  match tokToks ((splitAnchor pat).2.length + 1) (splitAnchor pat).2 with
  | none => false
  | some (toks, _) =>
    capsOK 0 [] toks &&
    (match build (toks.length + 1) toks with
     | some (_, _, []) => true
     | _ => false)

/-- **the fragment with captures** (no NUL: the domain of the 5.1 manual) -/
def inFragmentC (pat : List Nat) : Bool := !pat.contains 0 && inFragmentC0 pat

/-! ### the reference matcher on tokens -/

/-- one single-character item with its quantifier, over the continuation `k` -/
def itemStep (src : Array Nat) (it : Item) (k : Nat → Res (Nat × List Cap)) (s : Nat) : Res (Nat × List Cap) :=
  match it.q with
  | .one => if mOf src it.cls s then k (s+1) else .fail
  | .opt => if mOf src it.cls s then orElse (k (s+1)) (k s) else k s
  | .star => maxExpand k s (countMax (mOf src it.cls) s (src.size - s))
  | .plus =>
    if mOf src it.cls s then maxExpand k (s+1) (countMax (mOf src it.cls) (s+1) (src.size - (s+1))) else .fail
  | .minus => minExpand k (mOf src it.cls) (src.size + 1 - s) s

def refToks (src : Array Nat) (tail : Bool) : List Tok → List Cap → Nat → Res (Nat × List Cap)
  | [], caps, s => if tail then (if s = src.size then .ok (s, caps) else .fail) else .ok (s, caps)
  | .item it :: r, caps, s => itemStep src it (fun s' => refToks src tail r caps s') s
  | .opn :: r, caps, s =>
    if caps.length ≥ maxCaptures then .error "too many captures" else refToks src tail r (caps ++ [.unfinished s]) s
  | .pos :: r, caps, s =>
    if caps.length ≥ maxCaptures then .error "too many captures" else refToks src tail r (caps ++ [.position s]) s
  | .cls :: r, caps, s =>
    match closeCap s caps with
    | none => .error "invalid pattern capture"
    | some caps' => refToks src tail r caps' s
  | .bal b e :: r, caps, s =>
    match matchBalance src s b e with
    | none => .fail
    | some s' => refToks src tail r caps s'
  | .ref d :: r, caps, s =>
    match matchCapture src caps s d with
    | .error e => .error e
    | .fail => .fail
    | .ok s' => refToks src tail r caps s'

/-! ### the program -/
def emitToks : Nat → List Nat → Nat → List Tok → List Inst
  | _, _, _, [] => []
  | n, E, idx, .item it :: r => it.block.emit idx ++ emitToks n E (idx + (it.block.emit idx).length) r
  | n, E, idx, .opn :: r => .save (2 * (n + 1)) :: emitToks (n + 1) (n :: E) (idx + 1) r
  | n, E, idx, .pos :: r => .psave (2 * (n + 1)) :: emitToks (n + 1) E (idx + 1) r
  | n, j :: E, idx, .cls :: r => .save (2 * j + 3) :: emitToks n E (idx + 1) r
  | _, [], _, .cls :: _ => []
  | n, E, idx, .bal b e :: r => .brace b e :: emitToks n E (idx + 1) r
  | n, E, idx, .ref d :: r => .number ((d : Int) - 48) :: emitToks n E (idx + 1) r

def capProg (toks : List Tok) (tail : Bool) : Array Inst :=
  ([Inst.save 0] ++ (emitToks 0 [] 1 toks ++ tailInsts tail)).toArray

end GLua.PmProofs
