/-
  C14, `vm_eq_reference` with captures — assembling: parseTop/compilePattern on the fragment, one VM run = `do_match`
  (end and capture list), `Find`'s loop = the reference scan, `strFind`'s value list = reference `string.find`.
-/
import GLua.Proofs.PmCapParse
import GLua.Proofs.PmCapVm
import GLua.Proofs.PmCapSpec

namespace GLua.PmProofs
open GLua.Pm GLua.LuaPattern

set_option linter.unusedSimpArgs false
set_option linter.unusedVariables false

/-! ### parseTop and compilePattern -/
theorem compile_capProg (toks : List Tok) (ps : List Pat) (head tail : Bool) (fb : Nat)
    (hb : build fb toks = some (ps, toks, [])) (hok : capsOK 0 [] toks = true) :
    compilePattern { mustHead := head, mustTail := tail, pats := ps } = .ok (capProg toks tail) := by
  obtain ⟨closed', hc, _⟩ := compile_toks fb toks ps toks [] hb 0 [] (by simpa using hok)
    { insts := #[.save 0], capture := 2, closed := [] } rfl (by intro l hl; omega)
  simp only [compilePattern, hc, bind, Except.bind, pure, Except.pure, capProg, tailInsts]
  cases tail <;> simp

theorem build_all (fb : Nat) (toks : List Tok) (ps : List Pat) (cons : List Tok)
    (hb : build fb toks = some (ps, cons, [])) : cons = toks := by
  obtain ⟨h1, _, _⟩ := build_facts fb toks ps cons [] hb
  simpa using h1.symm

theorem parseTop_toks (pat : List Nat) (hne : 0 < pat.length) (toks : List Tok) (tail : Bool) (ps : List Pat) (fb : Nat)
    (h : tokToks ((splitAnchor pat).2.length + 1) (splitAnchor pat).2 = some (toks, tail))
    (hb : build fb toks = some (ps, toks, [])) :
    parseTop pat.toArray = .ok { mustHead := (splitAnchor pat).1, mustTail := tail, pats := ps } := by
  have hsz : 0 < pat.toArray.size := by simp; exact hne
  have h0 : ({ src := pat.toArray } : Scanner) = scAt pat.toArray 0 {} := by simp [scAt, stAt]
  rcases splitAnchor_cases pat with ⟨r, hpat, hsa⟩ | ⟨hsa, hno⟩
  · rw [hsa] at h ⊢
    simp only at h ⊢
    have hdrop : pat.drop 1 = r := by rw [hpat]; rfl
    have hlen : pat.length = r.length + 1 := by rw [hpat]; rfl
    have hp := parse_toks pat hne fb toks ps toks [] hb _ r tail h 1 hdrop (by omega) { mustHead := true } {}
      (2 * pat.toArray.size + 8) (by simp; omega) (by intro c r' _ _ cls hl; simp at hl)
    obtain ⟨sc', hpar⟩ := hp.1 rfl
    have h94 : ((pat.toArray[0] : Nat) : Int) = 94 := by simp [hpat]
    unfold parseTop
    simp only [h0, peek_at pat.toArray 0 {} hsz, next_at pat.toArray 0 {} hsz, bind, Except.bind, h94, if_true, hpar, pure, Except.pure]
    simp
  · rw [hsa] at h ⊢
    simp only at h ⊢
    have hp := parse_toks pat hne fb toks ps toks [] hb _ pat tail h 0 (by simp) (by omega) {} {}
      (2 * pat.toArray.size + 8) (by simp; omega) (by intro c r' _ _ cls hl; simp at hl)
    obtain ⟨sc', hpar⟩ := hp.1 rfl
    have h94 : ((pat.toArray[0] : Nat) : Int) ≠ 94 := by
      intro e
      have e' : pat[0] = 94 := by
        have : ((pat[0] : Nat) : Int) = 94 := by simpa using e
        omega
      cases pat with
      | nil => simp at hne
      | cons x y => simp at e'; exact hno y (by rw [e'])
    unfold parseTop
    simp only [h0, peek_at pat.toArray 0 {} hsz, bind, Except.bind, h94, if_false, hpar, pure, Except.pure]
    simp

/-! ### items of the tokens are in the class fragment -/
theorem tokToks_clsOK : ∀ (ft : Nat) (bytes : List Nat) (toks : List Tok) (tail : Bool),
    tokToks ft bytes = some (toks, tail) → toksOK toks := by
  intro ft
  induction ft with
  | zero => intro bytes toks tail h; simp [tokToks] at h
  | succ ft ih =>
    intro bytes toks tail h
    cases bytes with
    | nil =>
      simp [tokToks] at h
      intro it hit; simp [h.1] at hit
    | cons c r =>
      rcases tokToks_inv ft c r toks tail h with ⟨_, _, rfl, _⟩ | ⟨_, h⟩
      · intro it hit; simp at hit
      · rcases h with ⟨_, r', ts, _, ht, rfl⟩ | ⟨_, _, ts, ht, rfl⟩ | ⟨_, ts, ht, rfl⟩ | ⟨_, b, e, r', ts, _, _, _, ht, rfl⟩ |
          ⟨_, d, r', ts, _, _, _, ht, rfl⟩ | ⟨cls, r1, ts, hc, ht, rfl⟩
        · intro it hit; simp at hit; exact ih _ _ _ ht it hit
        · intro it hit; simp at hit; exact ih _ _ _ ht it hit
        · intro it hit; simp at hit; exact ih _ _ _ ht it hit
        · intro it hit; simp at hit; exact ih _ _ _ ht it hit
        · intro it hit; simp at hit; exact ih _ _ _ ht it hit
        · intro it hit
          simp only [List.mem_cons, Tok.item.injEq] at hit
          rcases hit with rfl | hit
          · rcases tokCls_cases c r cls r1 hc with ⟨_, cl, _, hcl, _⟩ | ⟨_, content, hcl, _, hok, _⟩ | ⟨_, hcl, _⟩ |
                ⟨_, _, _, _, _, _, hcl, _⟩
            · simp [hcl, clsOK]
            · simp [hcl, clsOK, hok]
            · simp [hcl, clsOK]
            · simp [hcl, clsOK]
          · exact ih _ _ _ ht it hit

/-! ### one run of the VM from pc 0 -/
theorem frag_runC (src : Array Nat) (cap : Nat) (toks : List Tok) (tail : Bool)
    (hok : capsOK 0 [] toks = true) (hcls : toksOK toks) (sp : Nat) (hsp : sp ≤ src.size)
    (hcap : src.size + toks.length + 3 ≤ cap) (fuel : Nat) :
    vm src (capProg toks tail) cap fuel 0 sp 1 #[] = .error .fuel ∨
    match refToks src tail toks [] sp with
    | .ok (e, cs) => ∃ m', vm src (capProg toks tail) cap fuel 0 sp 1 #[] = .ok (true, e, m') ∧
        PostC src.size sp (capCount toks) e cs m'
    | .fail => ∃ sp' m', vm src (capProg toks tail) cap fuel 0 sp 1 #[] = .ok (false, sp', m')
    | .error _ => False := by
  cases fuel with
  | zero => exact Or.inl rfl
  | succ f =>
    have h0 : (capProg toks tail)[0]? = some (.save 0) := by simp [capProg]
    have hc' : ¬ (1 + 1 > cap) := by omega
    have hrel0 : Rel src.size sp [] #[sp * 2] := ⟨by simp, fun i c hi => by simp at hi⟩
    have hsim := vm_simC src cap sp (capCount toks) tail (capProg toks tail) toks [Inst.save 0] 0 [] rfl hok (by omega) hcls
      [] rfl rfl sp (fun i init hi => by simp at hi) (Nat.le_refl _) f sp 2 #[sp * 2] ⟨hrel0, by simp; omega⟩ (Nat.le_refl _) hsp (by omega)
    simp only [List.length_cons, List.length_nil, Nat.zero_add] at hsim
    conv => lhs; lhs; unfold vm
    conv => rhs; unfold vm
    simp only [h0, setCap0, bind, Except.bind, hc', if_false]
    rcases hsim with he | h
    · rw [he]; exact Or.inl rfl
    · right
      cases hr : refToks src tail toks [] sp with
      | error e => rw [hr] at h; exact h
      | ok v =>
        obtain ⟨e, cs⟩ := v
        rw [hr] at h
        obtain ⟨m', hv, hp⟩ := h
        refine ⟨m', ?_, hp⟩
        rw [hv]
        simp [pure, Except.pure]
      | fail =>
        rw [hr] at h
        obtain ⟨sp', m', hv, hm'⟩ := h
        show ∃ sp' m', _ = _
        rw [hv]
        have hlt : 0 < m'.size := by
          rcases Nat.lt_or_ge 0 m'.size with h' | h'
          · exact h'
          · have := hm'.1.1
            rw [Array.getElem?_eq_none h'] at this; cases this
        exact ⟨sp, m'.setIfInBounds 0 0, by simp [restoreCapture, hlt, pure, Except.pure]⟩

/-! ### the whole pipeline up to one attempt -/

/-- the Model's result of one attempt at `sp` against the reference's `do_match`: same end, and a capture array that
    carries the reference's capture list (`Rel`: closed captures as [start, end], position captures as the position,
    flagged), whose slot 1 is the end and whose length is 2·(captures+1); or both fail; the reference raises no error -/
def RunAgreesC (src : Array Nat) (p : List Nat) (T : Nat) (sp : Nat) (out : M (Bool × Nat × Caps)) : Prop :=
  match doMatch src sp p with
  | .ok (e, cs) => ∃ m', out = .ok (true, e, m') ∧ PostC src.size sp T e cs m'
  | .fail => ∃ sp' m', out = .ok (false, sp', m')
  | .error _ => False

theorem fragC_pipeline (pat : List Nat) (hne : 0 < pat.length) (hfrag : inFragmentC0 pat = true) :
    ∃ (sq : SeqPat) (insts : Array Inst) (T : Nat), parseTop pat.toArray = .ok sq ∧ sq.mustHead = (splitAnchor pat).1 ∧
      compilePattern sq = .ok insts ∧
      ∀ (cap : Nat) (src : Array Nat) (s : Nat), s ≤ src.size → src.size + pat.length + 3 ≤ cap →
        RunAgreesC src (splitAnchor pat).2 T s (vm src insts cap (vmFuel src insts) 0 s 1 #[]) := by
  unfold inFragmentC0 at hfrag
  cases ht : tokToks ((splitAnchor pat).2.length + 1) (splitAnchor pat).2 with
  | none => simp [ht] at hfrag
  | some v =>
    obtain ⟨toks, tail⟩ := v
    simp only [ht, Bool.and_eq_true] at hfrag
    obtain ⟨hok, hbuild⟩ := hfrag
    cases hb : build (toks.length + 1) toks with
    | none => simp [hb] at hbuild
    | some w =>
      obtain ⟨ps, cons, rest'⟩ := w
      rw [hb] at hbuild
      cases rest' with
      | cons _ _ => simp at hbuild
      | nil =>
        have hcons := build_all _ toks ps cons hb
        subst hcons
        have hparse := parseTop_toks pat hne cons tail ps _ ht hb
        have hcomp := compile_capProg cons ps (splitAnchor pat).1 tail _ hb hok
        refine ⟨_, _, capCount cons, hparse, rfl, hcomp, ?_⟩
        intro cap src s hs hcap
        have hlen := tokToks_length _ _ _ _ ht
        have hlen2 := splitAnchor_length pat
        have hspec : doMatch src s (splitAnchor pat).2 = refToks src tail cons [] s :=
          spec_toks src _ _ cons tail ht _ [] s (by omega)
        have hgood := vm_compiled_good _ _ hcomp src cap s
        have hrun := frag_runC src cap cons tail hok (tokToks_clsOK _ _ _ _ ht) s hs (by omega) (vmFuel src (capProg cons tail))
        unfold RunAgreesC
        rw [hspec]
        rcases hrun with he | h
        · rw [he] at hgood; exact absurd hgood (by simp [Good])
        · exact h

/-! ### the value list: `pushCaps` on the Model's array = `push_captures` on the reference's list -/
def capVal (src : Array Nat) : Cap → CapVal
  | .closed i len => .str (slice src i len)
  | .position i => .pos (i + 1)
  | .unfinished i => .pos i

def lvOf (src : Array Nat) : Cap → Pm.LV
  | .closed i len => .str (slice src i len)
  | .position i => .num ((i + 1 : Nat) : Int)
  | .unfinished i => .nil

theorem noUnf_of_stack (cs : List Cap) (h : unfStack cs = []) : ∀ (i : Nat) (c : Cap), cs[i]? = some c → isUnf c = false := by
  intro i c hi
  cases c with
  | unfinished init =>
    have := unf_mem_stack cs i init hi
    rw [h] at this; cases this
  | closed _ _ => rfl
  | position _ => rfl

theorem allCaptures_eq (src : Array Nat) : ∀ (cs : List Cap), (∀ (i : Nat) (c : Cap), cs[i]? = some c → isUnf c = false) →
    allCaptures src cs = .ok (cs.map (capVal src)) := by
  intro cs
  induction cs with
  | nil => intro _; rfl
  | cons c r ih =>
    intro h
    have hr := ih (fun i c' hi => h (i + 1) c' (by simpa using hi))
    have hc := h 0 c (by simp)
    cases c with
    | unfinished i => simp [isUnf] at hc
    | closed i len => simp [allCaptures, oneCapture, hr, capVal]
    | position i => simp [allCaptures, oneCapture, hr, capVal]

theorem pushCaps_eq (src : Array Nat) (s0 : Nat) (cs : List Cap) (m : Caps) (hrel : Rel src.size s0 cs m)
    (hsize : m.size = 2 * (cs.length + 1)) (hno : ∀ (i : Nat) (c : Cap), cs[i]? = some c → isUnf c = false) :
    ∀ (d j fuel : Nat), cs.length - j = d → j ≤ cs.length → fuel ≥ d + 1 →
      pushCaps src m fuel (2 * j + 2) = .ok ((cs.drop j).map (lvOf src)) := by
  intro d
  induction d with
  | zero =>
    intro j fuel hd hj hf
    have hje : j = cs.length := by omega
    subst hje
    obtain ⟨f, rfl⟩ : ∃ f, fuel = f + 1 := ⟨fuel - 1, by omega⟩
    have : ¬ (2 * cs.length + 2 < m.size) := by omega
    simp [pushCaps, this, pure, Except.pure]
  | succ d ih =>
    intro j fuel hd hj hf
    obtain ⟨f, rfl⟩ : ∃ f, fuel = f + 1 := ⟨fuel - 1, by omega⟩
    have hjlt : j < cs.length := by omega
    have hlt : 2 * j + 2 < m.size := by omega
    have hrest := ih (j + 1) f (by omega) (by omega) (by omega)
    have hdrop : cs.drop j = cs[j] :: cs.drop (j + 1) := by
      rw [List.drop_eq_getElem_cons hjlt]
    have hc := hrel.2 j cs[j] (List.getElem?_eq_getElem hjlt)
    have hun := hno j cs[j] (List.getElem?_eq_getElem hjlt)
    have e2 : 2 * j + 2 + 2 = 2 * (j + 1) + 2 := by omega
    unfold pushCaps
    simp only [hlt, if_true, bind, Except.bind, e2, hrest, hdrop, List.map_cons]
    cases hcj : cs[j] with
    | unfinished i => rw [hcj] at hun; simp [isUnf] at hun
    | closed i len =>
      rw [hcj] at hc
      obtain ⟨h2, h3, hle⟩ := hc
      have h3' : m[2 * j + 2 + 1]? = some ((i + len) * 2) := h3
      have heven : ¬ ((i * 2) % 2 = 1) := by omega
      have e1 : i * 2 / 2 = i := by omega
      have e3 : (i + len) * 2 / 2 = i + len := by omega
      have hcond : i ≤ i + len ∧ i + len ≤ src.size := ⟨by omega, hle⟩
      have e4 : i + len - i = len := by omega
      simp [isPosCapture, capture, substr, h2, h3', heven, e1, e3, hcond, e4, pure, Except.pure, lvOf, slice]
    | position i =>
      rw [hcj] at hc
      obtain ⟨h2, h3⟩ := hc
      have hodd : ((i + 1) * 2 + 1) % 2 = 1 := by omega
      have e1 : ((i + 1) * 2 + 1) / 2 = i + 1 := by omega
      simp [isPosCapture, capture, h2, hodd, e1, pure, Except.pure, lvOf]

/-! ### `Find`'s loop with limit 1 -/
theorem first_loop_C (src : Array Nat) (p : List Nat) (anchor : Bool) (T : Nat) (run : Nat → M (Bool × Nat × Caps))
    (hrun : ∀ sp, sp ≤ src.size → RunAgreesC src p T sp (run sp)) :
    ∀ (k s fuel : Nat), s + k = src.size + 1 → fuel ≥ k + 1 →
      match scanFrom src p anchor k s with
      | .ok mt => ∃ m', findLoop run src.size 1 anchor fuel s [] = .ok [m'] ∧ PostC src.size mt.s T mt.e mt.caps m'
      | .fail => findLoop run src.size 1 anchor fuel s [] = .ok []
      | .error _ => False := by
  intro k
  induction k with
  | zero =>
    intro s fuel hs hf
    obtain ⟨f, rfl⟩ : ∃ f, fuel = f + 1 := ⟨fuel - 1, by omega⟩
    have : s > src.size := by omega
    simp [findLoop, this, scanFrom, pure, Except.pure]
  | succ k ih =>
    intro s fuel hs hf
    obtain ⟨f, rfl⟩ : ∃ f, fuel = f + 1 := ⟨fuel - 1, by omega⟩
    have hle : ¬ s > src.size := by omega
    have hr := hrun s (by omega)
    unfold RunAgreesC at hr
    unfold findLoop scanFrom
    simp only [hle, if_false, bind, Except.bind]
    cases hd : doMatch src s p with
    | error e => rw [hd] at hr; exact absurd hr (by simp)
    | ok w =>
      obtain ⟨e, cs⟩ := w
      rw [hd] at hr
      obtain ⟨m', hv, hp⟩ := hr
      rw [hv]
      simp only [if_true, List.nil_append, List.length_cons, List.length_nil]
      exact ⟨m', by simp [pure, Except.pure], hp⟩
    | fail =>
      rw [hd] at hr
      obtain ⟨sp', m', hv⟩ := hr
      rw [hv]
      simp only [Bool.false_eq_true, if_false, List.length_nil]
      cases anchor with
      | true => simp [pure, Except.pure]
      | false =>
        by_cases hlt : s < src.size
        · simp only [hlt, Bool.not_false, and_self, if_true]
          have := ih (s + 1) f (by omega) (by omega)
          simpa using this
        · have hk : k = 0 := by omega
          subst hk
          have hgt : s + 1 > src.size := by omega
          obtain ⟨f', rfl⟩ : ∃ f', f = f' + 1 := ⟨f - 1, by omega⟩
          simp [hlt, findLoop, hgt, pure, Except.pure]

theorem PostC.size_eq {srcSize s0 T e : Nat} {cs : List Cap} {m : Caps} (h : PostC srcSize s0 T e cs m) :
    m.size = 2 * (cs.length + 1) := by
  obtain ⟨hrel, h1, hsz, hlen, hst, _, _⟩ := h
  have hlow : 2 * cs.length + 2 ≤ m.size := by
    cases hc : cs.length with
    | zero =>
      rcases Nat.lt_or_ge 1 m.size with h' | h'
      · omega
      · rw [Array.getElem?_eq_none h'] at h1; cases h1
    | succ t =>
      have hlt : t < cs.length := by omega
      have hcr := hrel.2 t cs[t] (List.getElem?_eq_getElem hlt)
      have hun := noUnf_of_stack cs hst t cs[t] (List.getElem?_eq_getElem hlt)
      have h3 : ∃ v, m[2 * t + 3]? = some v := by
        cases hct : cs[t] with
        | unfinished i => rw [hct] at hun; simp [isUnf] at hun
        | closed i len => rw [hct] at hcr; exact ⟨_, hcr.2.1⟩
        | position i => rw [hct] at hcr; exact ⟨_, hcr.2⟩
      obtain ⟨v, hv⟩ := h3
      rcases Nat.lt_or_ge (2 * t + 3) m.size with h' | h'
      · omega
      · rw [Array.getElem?_eq_none h'] at hv; cases hv
  omega

/-! ### `string.find` -/
theorem find_fragC_eq (pat subj : List Nat) (init : Int) (hfrag : inFragmentC0 pat = true)
    (hsz : subj.length + pat.length + 3 ≤ maxRecursionLevel) :
    modelFind pat subj init = specFind pat subj init := by
  unfold modelFind specFind Pm.strFind LuaPattern.strFind firstMatch
  simp only [init_eq, List.size_toArray, bind, Except.bind, pure, Except.pure]
  generalize hsrc : subj.toArray = src
  have hn : subj.length = src.size := by rw [← hsrc]; simp
  rw [hn] at hsz ⊢
  generalize hi : initOffset init src.size = i
  have hile : i ≤ src.size := by
    rw [← hi]; unfold initOffset; simp only []; repeat' split
    all_goals omega
  cases pat with
  | nil =>
    have hk : src.size + 1 - i = (src.size - i) + 1 := by omega
    simp [splitAnchor, hk, scanFrom, doMatch, matchF, pushCaptures, allCaptures]
  | cons c r =>
    obtain ⟨sq, insts, T, hparse, hhead, hcomp, hrun⟩ := fragC_pipeline (c :: r) (by simp) hfrag
    have hne : ¬ ((c :: r).length = 0) := by simp
    rcases hsa : splitAnchor (c :: r) with ⟨anchor, p⟩
    rw [hsa] at hhead hrun
    simp only at hhead hrun
    have hloop := first_loop_C src p anchor T
      (fun sp => vm src insts maxRecursionLevel (vmFuel src insts) 0 sp 1 #[])
      (fun sp hsp => hrun maxRecursionLevel src sp hsp (by omega)) (src.size + 1 - i) i (src.size + 2) (by omega) (by omega)
    simp only [hne, if_false, find, liftErr, hparse, hcomp, bind, Except.bind, hhead]
    cases hsf : scanFrom src p anchor (src.size + 1 - i) i with
    | error e => rw [hsf] at hloop; exact absurd hloop (by simp)
    | fail =>
      rw [hsf] at hloop
      simp only at hloop
      rw [hloop]
    | ok mt =>
      rw [hsf] at hloop
      obtain ⟨m', hfl, hp⟩ := hloop
      rw [hfl]
      have hsize := hp.size_eq
      obtain ⟨hrel, h1, _, hlen, hst, _, _⟩ := hp
      have hno := noUnf_of_stack mt.caps hst
      have hpc := pushCaps_eq src mt.s mt.caps m' hrel hsize hno mt.caps.length 0 m'.size (by omega) (by omega) (by omega)
      simp only [Nat.mul_zero, Nat.zero_add, List.drop_zero] at hpc
      have hcaps : pushCaptures src mt.caps mt.s mt.e false = .ok (mt.caps.map (capVal src)) := by
        simp only [pushCaptures, Bool.false_eq_true, and_false, if_false]
        exact allCaptures_eq src mt.caps hno
      have e0 : mt.s * 2 / 2 = mt.s := by omega
      have e1 : mt.e * 2 / 2 = mt.e := by omega
      simp only [Pm.capture, hrel.1, h1, hpc, hcaps, e0, e1, pure, Except.pure, bind, Except.bind]
      simp only [Option.some.injEq, List.cons.injEq, true_and, List.map_map]
      refine ⟨by simp, ?_⟩
      apply List.map_congr_left
      intro cp hcp
      obtain ⟨idx, hidx, hget⟩ := List.mem_iff_getElem.mp hcp
      have hu := hno idx cp (by rw [List.getElem?_eq_getElem hidx, hget])
      cases cp with
      | unfinished i => simp [isUnf] at hu
      | closed i len => simp [lvOf, capVal]
      | position i => simp [lvOf, capVal]

/-! ### the capture discipline alone makes `build` succeed (so the second conjunct of `inFragmentC0` is redundant) -/
theorem capsOK_build : ∀ (len : Nat) (toks : List Tok), toks.length ≤ len → ∀ (n : Nat) (E : List Nat),
    capsOK n E toks = true → ∀ (fuel : Nat), fuel ≥ toks.length + 1 →
    ∃ ps cons rest', build fuel toks = some (ps, cons, rest') ∧ rest'.length ≤ toks.length ∧
      ((E = [] ∧ rest' = []) ∨
       (∃ j E' r2, E = j :: E' ∧ rest' = .cls :: r2 ∧ capsOK (n + capCount cons) E' r2 = true)) := by
  intro len
  induction len with
  | zero =>
    intro toks hl n E hok fuel hf
    have : toks = [] := by cases toks with | nil => rfl | cons _ _ => simp at hl
    subst this
    obtain ⟨f, rfl⟩ : ∃ f, fuel = f + 1 := ⟨fuel - 1, by simp at hf; omega⟩
    simp only [capsOK, List.isEmpty_iff] at hok
    exact ⟨[], [], [], rfl, by simp, Or.inl ⟨hok, rfl⟩⟩
  | succ len ih =>
    intro toks hl n E hok fuel hf
    obtain ⟨f, rfl⟩ : ∃ f, fuel = f + 1 := ⟨fuel - 1, by omega⟩
    cases toks with
    | nil =>
      simp only [capsOK, List.isEmpty_iff] at hok
      exact ⟨[], [], [], rfl, by simp, Or.inl ⟨hok, rfl⟩⟩
    | cons t r =>
      simp only [List.length_cons] at hl hf
      have step : ∀ (t : Tok) (n1 : Nat), (∀ fb ps c r', build fb r = some (ps, c, r') →
            build (fb + 1) (t :: r) = some (t.pat :: ps, t :: c, r')) →
          capsOK n1 E r = true → (∀ c, n + capCount (t :: c) = n1 + capCount c) →
          ∃ ps cons rest', build (f + 1) (t :: r) = some (ps, cons, rest') ∧ rest'.length ≤ (t :: r).length ∧
            ((E = [] ∧ rest' = []) ∨
             (∃ j E' r2, E = j :: E' ∧ rest' = .cls :: r2 ∧ capsOK (n + capCount cons) E' r2 = true)) := by
        intro t n1 hbuild hokr hcc
        obtain ⟨ps, c, r', hb, hlen, hres⟩ := ih r (by omega) n1 E hokr f (by omega)
        refine ⟨t.pat :: ps, t :: c, r', hbuild f ps c r' hb, by simp only [List.length_cons]; omega, ?_⟩
        rcases hres with h | ⟨j, E', r2, h1, h2, h3⟩
        · exact Or.inl h
        · exact Or.inr ⟨j, E', r2, h1, h2, by rw [hcc]; exact h3⟩
      cases t with
      | cls =>
        cases E with
        | nil => simp [capsOK] at hok
        | cons j E' =>
          simp only [capsOK] at hok
          exact ⟨[], [], .cls :: r, rfl, Nat.le_refl _, Or.inr ⟨j, E', r, rfl, rfl, by simpa [capCount] using hok⟩⟩
      | item it =>
        exact step (.item it) n (fun fb ps c r' h => by simp [build, h]) (by simpa [capsOK] using hok)
          (fun c => by simp [capCount])
      | bal b e =>
        exact step (.bal b e) n (fun fb ps c r' h => by simp [build, h]) (by simpa [capsOK] using hok)
          (fun c => by simp [capCount])
      | ref d =>
        simp only [capsOK, Bool.and_eq_true] at hok
        exact step (.ref d) n (fun fb ps c r' h => by simp [build, h]) hok.2 (fun c => by simp [capCount])
      | pos =>
        simp only [capsOK, Bool.and_eq_true] at hok
        exact step .pos (n + 1) (fun fb ps c r' h => by simp [build, h]) hok.2 (fun c => by simp [capCount]; omega)
      | opn =>
        simp only [capsOK, Bool.and_eq_true] at hok
        obtain ⟨inner, cin, rin, hb1, hlen1, hres1⟩ := ih r (by omega) (n + 1) (n :: E) hok.2 f (by omega)
        rcases hres1 with ⟨h, _⟩ | ⟨j, E', r2, h1, h2, h3⟩
        · cases h
        · injection h1 with hj hE
          subst hj hE h2
          simp only [List.length_cons] at hlen1
          obtain ⟨ps2, c2, r3, hb2, hlen2, hres2⟩ := ih r2 (by omega) (n + 1 + capCount cin) E h3 f (by omega)
          refine ⟨.cap inner :: ps2, .opn :: cin ++ .cls :: c2, r3, by simp [build, hb1, hb2],
            by simp only [List.length_cons]; omega, ?_⟩
          have hcc : capCount (Tok.opn :: cin ++ Tok.cls :: c2) = 1 + capCount cin + capCount c2 := by
            rw [show Tok.opn :: cin ++ Tok.cls :: c2 = [Tok.opn] ++ (cin ++ ([Tok.cls] ++ c2)) by simp,
              capCount_append, capCount_append, capCount_append]
            simp [capCount]; omega
          rcases hres2 with h | ⟨j, E', r4, g1, g2, g3⟩
          · exact Or.inl h
          · refine Or.inr ⟨j, E', r4, g1, g2, ?_⟩
            rw [hcc, show n + (1 + capCount cin + capCount c2) = n + 1 + capCount cin + capCount c2 by omega]
            exact g3

/-- the fragment is: the pattern tokenizes and obeys the capture discipline -/
theorem inFragmentC_iff (pat : List Nat) :
    inFragmentC0 pat = true ↔
      ∃ toks tail, tokToks ((splitAnchor pat).2.length + 1) (splitAnchor pat).2 = some (toks, tail) ∧ capsOK 0 [] toks = true := by
  unfold inFragmentC0
  constructor
  · intro h
    cases ht : tokToks ((splitAnchor pat).2.length + 1) (splitAnchor pat).2 with
    | none => simp [ht] at h
    | some v =>
      obtain ⟨toks, tail⟩ := v
      simp only [ht, Bool.and_eq_true] at h
      exact ⟨toks, tail, rfl, h.1⟩
  · intro ⟨toks, tail, ht, hok⟩
    obtain ⟨ps, cons, rest', hb, _, hres⟩ := capsOK_build toks.length toks (Nat.le_refl _) 0 [] hok (toks.length + 1) (Nat.le_refl _)
    rcases hres with ⟨_, rfl⟩ | ⟨j, E', r2, h1, _, _⟩
    · simp [ht, hok, hb]
    · cases h1

/-! ### the fragment with captures contains the fragment of items -/
theorem tokItems_tokToks : ∀ (ft : Nat) (bytes : List Nat) (its : List Item) (tail : Bool),
    tokItems ft bytes = some (its, tail) → tokToks ft bytes = some (its.map Tok.item, tail) := by
  intro ft
  induction ft with
  | zero => intro bytes its tail h; simp [tokItems] at h
  | succ ft ih =>
    intro bytes its tail h
    cases bytes with
    | nil =>
      simp only [tokItems, Option.some.injEq, Prod.mk.injEq] at h
      obtain ⟨rfl, rfl⟩ := h
      simp [tokToks]
    | cons c r =>
      unfold tokItems at h
      by_cases hd : c = 36 ∧ r = []
      · simp only [hd, and_self, if_true, Option.some.injEq, Prod.mk.injEq] at h
        obtain ⟨rfl, rfl⟩ := h
        simp [tokToks, hd]
      · simp only [hd, if_false] at h
        cases hc : tokCls (c :: r) with
        | none => simp [hc] at h
        | some v =>
          obtain ⟨cls, r1⟩ := v
          simp only [hc] at h
          cases ht : tokItems ft (tokQ r1).2 with
          | none => simp [ht] at h
          | some w =>
            obtain ⟨its', t⟩ := w
            simp only [ht, Option.some.injEq, Prod.mk.injEq] at h
            obtain ⟨rfl, rfl⟩ := h
            obtain ⟨h40, h41, hb, _, hdg, _⟩ := tokCls_spec c r cls r1 hc
            unfold tokToks
            simp only [hd, if_false, h40, h41, hb, hdg, hc, ih _ _ _ ht, List.map_cons]

theorem capsOK_items (its : List Item) : capsOK 0 [] (its.map Tok.item) = true := by
  induction its with
  | nil => rfl
  | cons it r ih => simpa [capsOK] using ih

theorem inFragment_sub (pat : List Nat) (h : inFragment0 pat = true) : inFragmentC0 pat = true := by
  rw [inFragmentC_iff]
  unfold inFragment0 at h
  cases ht : tokItems ((splitAnchor pat).2.length + 1) (splitAnchor pat).2 with
  | none => simp [ht] at h
  | some v =>
    obtain ⟨its, tail⟩ := v
    exact ⟨its.map Tok.item, tail, tokItems_tokToks _ _ _ _ ht, capsOK_items its⟩

/-! ### `string.match` -/
theorem parseTop_empty : parseTop #[] = .ok {} := by
  simp [parseTop, parsePattern, Scanner.peek, Scanner.next, Scanner.nextPos, EOS, bind, Except.bind, pure, Except.pure, isQuant]

/-- `fragC_pipeline` including the empty pattern -/
theorem fragC_pipeline' (pat : List Nat) (hfrag : inFragmentC0 pat = true) :
    ∃ (sq : SeqPat) (insts : Array Inst) (T : Nat), parseTop pat.toArray = .ok sq ∧ sq.mustHead = (splitAnchor pat).1 ∧
      compilePattern sq = .ok insts ∧
      ∀ (cap : Nat) (src : Array Nat) (s : Nat), s ≤ src.size → src.size + pat.length + 3 ≤ cap →
        RunAgreesC src (splitAnchor pat).2 T s (vm src insts cap (vmFuel src insts) 0 s 1 #[]) := by
  cases pat with
  | cons c r => exact fragC_pipeline (c :: r) (by simp) hfrag
  | nil =>
    have hcomp := compile_capProg [] [] false false 1 rfl rfl
    refine ⟨{}, capProg [] false, 0, parseTop_empty, rfl, hcomp, ?_⟩
    intro cap src s hs hcap
    have hgood := vm_compiled_good _ _ hcomp src cap s
    have hrun := frag_runC src cap [] false rfl (fun it hit => by simp at hit) s hs (by simpa using hcap)
      (vmFuel src (capProg [] false))
    have hspec : doMatch src s (splitAnchor ([] : List Nat)).2 = refToks src false [] [] s := by
      simp [splitAnchor, doMatch, matchF, refToks]
    unfold RunAgreesC
    rw [hspec]
    rcases hrun with he | h
    · rw [he] at hgood; exact absurd hgood (by simp [Good])
    · exact h

theorem match_init_eq (n : Nat) (init : Int) :
    (let l : Int := n
     let offset := if init < 0 then l + init + 1 else init
     let offset := offset - 1
     let offset := if offset < 0 then 0 else offset
     let offset := if offset > l then l else offset
     offset.toNat) = initOffset init n := by
  unfold initOffset posrelat
  simp only []
  repeat' split
  all_goals omega

/-- canonical reply of the Model's `strMatch` (`none` = a Lua error or a Go panic) -/
def modelMatch (pat subj : List Nat) (init : Int) : Option (List Pm.LV) :=
  match Pm.strMatch subj.toArray pat.toArray init with
  | .ok vs => some vs
  | .error _ => none

/-- canonical reply of the Spec's `strMatch` (`none` = error) -/
def specMatch (pat subj : List Nat) (init : Int) : Option (List Pm.LV) :=
  match LuaPattern.strMatch subj.toArray pat init with
  | .ok cs => some (cs.map fun c => match c with | .str b => .str b | .pos n => .num n)
  | .fail => some [.nil]
  | .error _ => none

theorem match_fragC_eq (pat subj : List Nat) (init : Int) (hfrag : inFragmentC0 pat = true)
    (hsz : subj.length + pat.length + 3 ≤ maxRecursionLevel) :
    modelMatch pat subj init = specMatch pat subj init := by
  unfold modelMatch specMatch Pm.strMatch LuaPattern.strMatch firstMatch
  generalize hsrc : subj.toArray = src
  have hn : subj.length = src.size := by rw [← hsrc]; simp
  rw [hn] at hsz
  have hoff := match_init_eq src.size init
  simp only [] at hoff
  simp only [bind, Except.bind, pure, Except.pure, hoff]
  generalize hi : initOffset init src.size = i
  have hile : i ≤ src.size := by
    rw [← hi]; unfold initOffset; simp only []; repeat' split
    all_goals omega
  obtain ⟨sq, insts, T, hparse, hhead, hcomp, hrun⟩ := fragC_pipeline' pat hfrag
  rcases hsa : splitAnchor pat with ⟨anchor, p⟩
  rw [hsa] at hhead hrun
  simp only at hhead hrun
  have hloop := first_loop_C src p anchor T
    (fun sp => vm src insts maxRecursionLevel (vmFuel src insts) 0 sp 1 #[])
    (fun sp hsp => hrun maxRecursionLevel src sp hsp (by omega)) (src.size + 1 - i) i (src.size + 2) (by omega) (by omega)
  simp only [find, liftErr, hparse, hcomp, bind, Except.bind, hhead]
  cases hsf : scanFrom src p anchor (src.size + 1 - i) i with
  | error e => rw [hsf] at hloop; exact absurd hloop (by simp)
  | fail =>
    rw [hsf] at hloop
    simp only at hloop
    rw [hloop]
  | ok mt =>
    rw [hsf] at hloop
    obtain ⟨m', hfl, hp⟩ := hloop
    rw [hfl]
    have hsize := hp.size_eq
    obtain ⟨hrel, h1, _, hlen, hst, hse, hes⟩ := hp
    have hno := noUnf_of_stack mt.caps hst
    have e0 : mt.s * 2 / 2 = mt.s := by omega
    have e1 : mt.e * 2 / 2 = mt.e := by omega
    by_cases hc0 : mt.caps = []
    · have hsz1 : m'.size / 2 = 1 := by rw [hsize, hc0]; rfl
      have hcond : mt.s ≤ mt.e ∧ mt.e ≤ src.size := ⟨hse, hes⟩
      simp [hsz1, Pm.capture, hrel.1, h1, e0, e1, substr, hcond, pushCaptures, hc0, slice, pure, Except.pure, bind, Except.bind]
    · have hT : mt.caps.length ≠ 0 := by
        intro h0; exact hc0 (List.length_eq_zero_iff.mp h0)
      have hsz1 : ¬ (m'.size / 2 = 1) := by rw [hsize]; omega
      have hpc := pushCaps_eq src mt.s mt.caps m' hrel hsize hno mt.caps.length 0 m'.size (by omega) (by omega) (by omega)
      simp only [Nat.mul_zero, Nat.zero_add, List.drop_zero] at hpc
      have hcaps : pushCaptures src mt.caps mt.s mt.e true = .ok (mt.caps.map (capVal src)) := by
        simp only [pushCaptures, hc0, false_and, if_false]
        exact allCaptures_eq src mt.caps hno
      simp only [hsz1, if_false, hpc, hcaps, Option.some.injEq, List.map_map]
      apply List.map_congr_left
      intro cp hcp
      obtain ⟨idx, hidx, hget⟩ := List.mem_iff_getElem.mp hcp
      have hu := hno idx cp (by rw [List.getElem?_eq_getElem hidx, hget])
      cases cp with
      | unfinished i => simp [isUnf] at hu
      | closed i len => simp [lvOf, capVal]
      | position i => simp [lvOf, capVal]

end GLua.PmProofs
