/-
  C14 — `string.gmatch` on the fragment with captures: the tuples the Model's iterator closure yields (driven to
  exhaustion) are the tuples of the reference's `gmatch_aux`.
-/
import GLua.Proofs.PmCapScan

namespace GLua.PmProofs
open GLua.Pm GLua.LuaPattern

set_option linter.unusedSimpArgs false
set_option linter.unusedVariables false

/-! ### one match → one tuple of values -/
def toLV : CapVal → Pm.LV
  | .str b => .str b
  | .pos n => .num n

/-- the values of one match: the whole match if the pattern has no captures, else the captures -/
def tupleOf (src : Array Nat) (mt : Match) : List Pm.LV :=
  if mt.caps = [] then [.str (slice src mt.s (mt.e - mt.s))] else mt.caps.map (lvOf src)

theorem tupleOf_ne (src : Array Nat) (mt : Match) : tupleOf src mt ≠ [] := by
  unfold tupleOf
  split
  · simp
  · rename_i h
    intro e
    exact h (List.map_eq_nil_iff.mp e)

theorem lvOf_capVal (src : Array Nat) (cs : List Cap) (hno : ∀ (i : Nat) (c : Cap), cs[i]? = some c → isUnf c = false) :
    (cs.map (capVal src)).map toLV = cs.map (lvOf src) := by
  rw [List.map_map]
  apply List.map_congr_left
  intro cp hcp
  obtain ⟨idx, hidx, hget⟩ := List.mem_iff_getElem.mp hcp
  have hu := hno idx cp (by rw [List.getElem?_eq_getElem hidx, hget])
  cases cp with
  | unfinished i => simp [isUnf] at hu
  | closed i len => simp [lvOf, capVal, toLV]
  | position i => simp [lvOf, capVal, toLV]

/-- the reference's `push_captures(ms, s, e)` (whole match by default) -/
theorem spec_tuple (src : Array Nat) (mt : Match) (hst : unfStack mt.caps = []) :
    ∃ cvs, pushCaptures src mt.caps mt.s mt.e true = .ok cvs ∧ cvs.map toLV = tupleOf src mt := by
  have hno := noUnf_of_stack mt.caps hst
  by_cases hc : mt.caps = []
  · exact ⟨[.str (slice src mt.s (mt.e - mt.s))], by simp [pushCaptures, hc], by simp [tupleOf, hc, toLV]⟩
  · refine ⟨mt.caps.map (capVal src), ?_, ?_⟩
    · simp only [pushCaptures, hc, false_and, if_false]
      exact allCaptures_eq src mt.caps hno
    · simp only [tupleOf, hc, if_false]
      exact lvOf_capVal src mt.caps hno

/-- the Model's value-pushing code of strGmatchIter / strMatch on the capture array of a match -/
theorem model_tuple (src : Array Nat) (md : Caps) (mt : Match) (T : Nat) (hp : PostC src.size mt.s T mt.e mt.caps md) :
    (md.size = 2 ↔ mt.caps = []) ∧
    (capture md 0 = .ok mt.s ∧ capture md 1 = .ok mt.e ∧ substr src mt.s mt.e = .ok (slice src mt.s (mt.e - mt.s))) ∧
    pushCaps src md md.size 2 = .ok (mt.caps.map (lvOf src)) := by
  have hsize := hp.size_eq
  obtain ⟨hrel, h1, _, hlen, hst, hse, hes⟩ := hp
  have hno := noUnf_of_stack mt.caps hst
  have e0 : mt.s * 2 / 2 = mt.s := by omega
  have e1 : mt.e * 2 / 2 = mt.e := by omega
  have hcond : mt.s ≤ mt.e ∧ mt.e ≤ src.size := ⟨hse, hes⟩
  refine ⟨?_, ?_, ?_⟩
  · rw [hsize]
    constructor
    · intro h
      exact List.length_eq_zero_iff.mp (by omega)
    · intro h; rw [h]; rfl
  · exact ⟨by simp [Pm.capture, hrel.1, e0, pure, Except.pure], by simp [Pm.capture, h1, e1, pure, Except.pure],
      by simp [substr, hcond, slice, pure, Except.pure]⟩
  · have hpc := pushCaps_eq src mt.s mt.caps md hrel hsize hno mt.caps.length 0 md.size (by omega) (by omega) (by omega)
    simpa using hpc

/-! ### the iterator closure driven to exhaustion -/
theorem MatchRel.get {srcSize T : Nat} : ∀ {pos : Nat} {l1 : List Caps} {l2 : List Match}, MatchRel srcSize T pos l1 l2 →
    ∀ (i : Nat) (h1 : i < l1.length) (h2 : i < l2.length), PostC srcSize l2[i].s T l2[i].e l2[i].caps l1[i]
  | _, [], [], _, i, h1, _ => by simp at h1
  | _, md :: r1, mt :: r2, h, 0, _, _ => h.2.1
  | _, md :: r1, mt :: r2, h, i + 1, h1, h2 => by
    simpa using MatchRel.get h.2.2 i (by simpa using h1) (by simpa using h2)
  | _, [], _ :: _, h, _, _, _ => by cases h
  | _, _ :: _, [], h, _, _, _ => by cases h

theorem drive_eq (src : Array Nat) (T : Nat) (mds : List Caps) (ms : List Match) (hlen : mds.length = ms.length)
    (hrel : ∀ (i : Nat) (h1 : i < mds.length) (h2 : i < ms.length), PostC src.size ms[i].s T ms[i].e ms[i].caps mds[i]) :
    ∀ (d pos fuel : Nat), mds.length - pos = d → pos ≤ mds.length → fuel ≥ d + 1 →
      strGmatchDrive fuel { str := src, pos := pos, mds := mds } = .ok ((ms.drop pos).map (tupleOf src)) := by
  intro d
  induction d with
  | zero =>
    intro pos fuel hd hpos hf
    obtain ⟨f, rfl⟩ : ∃ f, fuel = f + 1 := ⟨fuel - 1, by omega⟩
    have hge : pos ≥ mds.length := by omega
    have hdrop : ms.drop pos = [] := List.drop_eq_nil_of_le (by omega)
    simp [strGmatchDrive, strGmatchIter, hge, hdrop, bind, Except.bind, pure, Except.pure]
  | succ d ih =>
    intro pos fuel hd hpos hf
    obtain ⟨f, rfl⟩ : ∃ f, fuel = f + 1 := ⟨fuel - 1, by omega⟩
    have hlt : pos < mds.length := by omega
    have hlt2 : pos < ms.length := by omega
    have hge : ¬ (pos ≥ mds.length) := by omega
    have hp := hrel pos hlt hlt2
    obtain ⟨hsz, hwhole, hcaps⟩ := model_tuple src mds[pos] ms[pos] T hp
    have hrest := ih (pos + 1) f (by omega) (by omega) (by omega)
    have hdrop : ms.drop pos = ms[pos] :: ms.drop (pos + 1) := by rw [List.drop_eq_getElem_cons hlt2]
    have hne := tupleOf_ne src ms[pos]
    unfold strGmatchDrive strGmatchIter
    simp only [hge, if_false, List.getElem?_eq_getElem hlt, bind, Except.bind, hdrop, List.map_cons]
    by_cases hc : ms[pos].caps = []
    · have h2 : mds[pos].size = 2 := hsz.mpr hc
      have ht : tupleOf src ms[pos] = [.str (slice src ms[pos].s (ms[pos].e - ms[pos].s))] := by simp [tupleOf, hc]
      obtain ⟨hw0, hw1, hw2⟩ := hwhole
      simp [h2, hw0, hw1, hw2, pure, Except.pure, hrest, ht]
    · have h2 : ¬ (mds[pos].size = 2) := fun h => hc (hsz.mp h)
      have ht : tupleOf src ms[pos] = ms[pos].caps.map (lvOf src) := by simp [tupleOf, hc]
      have hl0 : ¬ ((ms[pos].caps.map (lvOf src)).length = 0) := by
        simp only [List.length_map]
        intro h0; exact hc (List.length_eq_zero_iff.mp h0)
      simp only [h2, if_false, hcaps, pure, Except.pure, hl0, hrest, ht]

/-! ### a leading `^` is a literal in gmatch: the Model escapes it, the reference reads it as a plain byte -/
theorem mOf_caret (src : Array Nat) : mOf src (.esc 94) = mOf src (.lit 94) := by
  funext i
  unfold mOf
  cases src[i]? with
  | none => rfl
  | some ch =>
    simp only [singleMatch, matchClass, isUpper, isLower]
    simp

theorem stepF_cls_congr (src : Array Nat) (c1 c2 : Cls) (s : Nat) (K : Nat → List Nat → Res (Nat × List Cap)) (r1 : List Nat)
    (h : mOf src c1 = mOf src c2) : stepF src c1 s K r1 = stepF src c2 s K r1 := by
  unfold stepF
  rw [h]

/-- `do_match` on `^…` (caret as a literal) = `do_match` on `%^…` -/
theorem doMatch_caret (src : Array Nat) (s : Nat) (r : List Nat) (toks : List Tok) (tail : Bool) (ft : Nat)
    (ht : tokToks ft (37 :: 94 :: r) = some (toks, tail)) :
    doMatch src s (94 :: r) = doMatch src s (37 :: 94 :: r) := by
  cases ft with
  | zero => simp [tokToks] at ht
  | succ ft =>
  rcases tokToks_inv ft 37 (94 :: r) toks tail ht with ⟨h, _⟩ | ⟨hd, hcase⟩
  · cases h
  · rcases hcase with ⟨h, _⟩ | ⟨h, _⟩ | ⟨h, _⟩ | ⟨_, b, e, r', ts, h, _⟩ | ⟨_, d, r', ts, h, hdig, _⟩ | ⟨cls, r1, ts, hc, htr, rfl⟩
    · cases h
    · cases h
    · cases h
    · cases h
    · injection h with h1 _; subst h1; simp [isDigit] at hdig
    · have hc1 : tokCls (37 :: 94 :: r) = some (.esc 94, r) := by simp [tokCls, isDigit]
      rw [hc1] at hc
      injection hc with hc; injection hc with h1 h2; subst h1 h2
      have hc2 : tokCls (94 :: r) = some (.lit 94, r) := by simp [tokCls]
      have hlen := tokToks_length _ _ _ _ htr
      have hd2 : ¬ ((94 : Nat) = 36 ∧ r = []) := by simp
      -- the continuation does not depend on the fuel
      have hK : ∀ f1 f2 : Nat, f1 ≥ ts.length + 1 → f2 ≥ ts.length + 1 → ∀ (caps : List Cap) (s' : Nat),
          matchF src f1 caps s' (tokQ r).2 = matchF src f2 caps s' (tokQ r).2 := by
        intro f1 f2 h1 h2 caps s'
        rw [spec_toks src _ _ ts tail htr f1 caps s' h1, spec_toks src _ _ ts tail htr f2 caps s' h2]
      have hb1 : (tokQ r).2.length ≤ r.length := by unfold tokQ; split <;> simp
      unfold doMatch
      rw [show (94 :: r).length + 2 = (r.length + 2) + 1 by simp, show (37 :: 94 :: r).length + 2 = (r.length + 3) + 1 by simp]
      rw [spec_step src _ [] s 94 r (.lit 94) r hc2 hd2, spec_step src _ [] s 37 (94 :: r) (.esc 94) r hc1 hd]
      rw [stepF_cls_congr src (.esc 94) (.lit 94) s _ r (mOf_caret src), stepF_itemStep, stepF_itemStep]
      congr 1
      funext s'
      -- tokens never outnumber the fuel the tokenizer was given
      have hts : ts.length + 1 ≤ r.length + 2 := by
        have := tokToks_len_bytes ft (tokQ r).2 ts tail htr
        omega
      exact hK _ _ (by omega) (by omega) [] s'
where
  tokToks_len_bytes : ∀ (ft : Nat) (bytes : List Nat) (toks : List Tok) (tail : Bool),
      tokToks ft bytes = some (toks, tail) → toks.length ≤ bytes.length := by
    intro ft
    induction ft with
    | zero => intro bytes toks tail h; simp [tokToks] at h
    | succ ft ih =>
      intro bytes toks tail h
      cases bytes with
      | nil => simp [tokToks] at h; simp [h.1]
      | cons c r =>
        rcases tokToks_inv ft c r toks tail h with ⟨_, _, rfl, _⟩ | ⟨_, h⟩
        · simp
        · rcases h with ⟨_, r', ts, rfl, ht, rfl⟩ | ⟨_, _, ts, ht, rfl⟩ | ⟨_, ts, ht, rfl⟩ | ⟨_, b, e, r', ts, rfl, _, _, ht, rfl⟩ |
            ⟨_, d, r', ts, rfl, _, _, ht, rfl⟩ | ⟨cls, r1, ts, hc, ht, rfl⟩
          · have := ih _ _ _ ht; simp only [List.length_cons]; omega
          · have := ih _ _ _ ht; simp only [List.length_cons]; omega
          · have := ih _ _ _ ht; simp only [List.length_cons]; omega
          · have := ih _ _ _ ht; simp only [List.length_cons]; omega
          · have := ih _ _ _ ht; simp only [List.length_cons]; omega
          · have := ih _ _ _ ht
            have h2 : (tokQ r1).2.length ≤ r1.length := by unfold tokQ; split <;> simp
            have h3 : r1.length ≤ r.length := by
              rcases tokCls_cases c r cls r1 hc with ⟨_, cl, hr, _⟩ | ⟨_, content, _, hce, _, _⟩ | ⟨_, _, hr1⟩ | ⟨_, _, _, _, _, _, _, hr1⟩
              · rw [hr]; simp
              · obtain ⟨hr, _, _⟩ := classEnd_set r content r1 hce
                rw [hr]; simp; omega
              · rw [hr1]; exact Nat.le_refl _
              · rw [hr1]; exact Nat.le_refl _
            simp only [List.length_cons]; omega

/-! ### `string.gmatch` -/

/-- `strGmatch`'s pattern: a leading `^` is escaped (`"%" + pattern`) -/
def caretEsc (pat : List Nat) : List Nat :=
  match pat with
  | 94 :: _ => 37 :: pat
  | _ => pat

/-- the gmatch fragment: `inFragmentC0` with the caret read as a literal -/
def inFragmentG0 (pat : List Nat) : Bool := inFragmentC0 (caretEsc pat)

theorem caretEsc_array (pat : List Nat) :
    (if pat.toArray[0]? = some 94 then #[37] ++ pat.toArray else pat.toArray) = (caretEsc pat).toArray := by
  cases pat with
  | nil => simp [caretEsc]
  | cons c r =>
    by_cases hc : c = 94
    · subst hc; simp [caretEsc]
    · have : caretEsc (c :: r) = c :: r := by
        unfold caretEsc; split
        · rename_i x heq; injection heq with h1 _; exact absurd h1 hc
        · rfl
      simp [this, hc]

theorem caretEsc_noanchor (pat : List Nat) : splitAnchor (caretEsc pat) = (false, caretEsc pat) := by
  unfold caretEsc
  split
  · rfl
  · rename_i h
    unfold splitAnchor
    split
    · rename_i r; exact absurd rfl (h r)
    · rfl

theorem caretEsc_length (pat : List Nat) : (caretEsc pat).length ≤ pat.length + 1 := by
  unfold caretEsc; split <;> simp

theorem MatchRel.all_closed {srcSize T : Nat} : ∀ {pos : Nat} {l1 : List Caps} {l2 : List Match},
    MatchRel srcSize T pos l1 l2 → ∀ mt ∈ l2, unfStack mt.caps = []
  | _, [], [], _, mt, hm => by simp at hm
  | _, md :: r1, m :: r2, h, mt, hm => by
    simp only [List.mem_cons] at hm
    rcases hm with rfl | hm
    · exact h.2.1.2.2.2.2.1
    · exact MatchRel.all_closed h.2.2 mt hm
  | _, [], _ :: _, h, _, _ => by cases h
  | _, _ :: _, [], h, _, _ => by cases h

theorem gmatchAll_eq (src : Array Nat) (pat : List Nat) (ms : List Match)
    (hscan : scanAll src pat false (src.size + 2) 0 (src.size + 2) = .ok ms)
    (hclosed : ∀ mt ∈ ms, unfStack mt.caps = []) :
    ∃ l, gmatchAll src pat = .ok l ∧ l.map (·.map toLV) = ms.map (tupleOf src) := by
  unfold gmatchAll
  rw [hscan]
  simp only []
  clear hscan
  induction ms with
  | nil => exact ⟨[], rfl, rfl⟩
  | cons m r ih =>
    obtain ⟨l, hl, hmap⟩ := ih (fun mt hm => hclosed mt (by simp [hm]))
    obtain ⟨cvs, hc, ht⟩ := spec_tuple src m (hclosed m (by simp))
    exact ⟨cvs :: l, by simp only [List.foldr_cons, hl, hc], by simp [ht, hmap]⟩

/-- canonical reply of the Model's `string.gmatch` driven to exhaustion (`none` = a Lua error or a Go panic) -/
def modelGmatch (pat subj : List Nat) : Option (List (List Pm.LV)) :=
  match Pm.strGmatch subj.toArray pat.toArray with
  | .ok l => some l
  | .error _ => none

/-- canonical reply of the Spec's gmatch: the tuples of successive `gmatch_aux` calls (`none` = error) -/
def specGmatch (pat subj : List Nat) : Option (List (List Pm.LV)) :=
  match gmatchAll subj.toArray pat with
  | .ok l => some (l.map (·.map toLV))
  | _ => none

theorem gmatch_fragC_eq (pat subj : List Nat) (hfrag : inFragmentG0 pat = true)
    (hsz : subj.length + pat.length + 4 ≤ maxRecursionLevel) :
    modelGmatch pat subj = specGmatch pat subj := by
  unfold modelGmatch specGmatch Pm.strGmatch strGmatchNew gmatchAll
  generalize hsrc : subj.toArray = src
  have hn : subj.length = src.size := by rw [← hsrc]; simp
  rw [hn] at hsz
  unfold inFragmentG0 at hfrag
  have hlen := caretEsc_length pat
  obtain ⟨T, mds, ms, hfind, hscan, hrel⟩ := fragC_scan (caretEsc pat) hfrag src (-1) (by decide) (by omega)
  rw [caretEsc_noanchor] at hscan
  simp only at hscan
  have hmax : maxOfL (-1) src.size = src.size + 2 := by simp [maxOfL]
  rw [hmax] at hscan
  -- the reference reads the caret as a literal
  have hspec : scanAll src pat false (src.size + 2) 0 (src.size + 2) = .ok ms := by
    rw [← hscan]
    unfold scanAll
    have hfun : (fun s => doMatch src s pat) = (fun s => doMatch src s (caretEsc pat)) := by
      funext s
      unfold caretEsc
      split
      · rename_i r
        obtain ⟨toks, tail, ht, _⟩ := (inFragmentC_iff (caretEsc (94 :: r))).mp hfrag
        rw [caretEsc_noanchor] at ht
        exact doMatch_caret src s r toks tail _ ht
      · rfl
    rw [hfun]
  simp only [caretEsc_array, hfind, liftErr, bind, Except.bind, pure, Except.pure, hspec]
  have hdrive := drive_eq src T mds ms hrel.length (fun i h1 h2 => hrel.get i h1 h2) mds.length 0 (mds.length + 1)
    (by omega) (by omega) (by omega)
  simp only [List.drop_zero] at hdrive
  rw [hdrive]
  obtain ⟨l, hl, hmap⟩ := gmatchAll_eq src pat ms hspec hrel.all_closed
  unfold gmatchAll at hl
  rw [hspec] at hl
  simp only [] at hl
  simp only [hl, hmap]

end GLua.PmProofs
