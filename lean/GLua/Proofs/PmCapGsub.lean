/-
  C14 — `string.gsub` on the fragment with captures, assembled from the scan (`fragC_scan`), the replacement of one
  match (PmCapRepl) and the buffer surgery (`doReplace_eq_splice` = gsub_assembly): result string and count equal the
  reference's `str_gsub`, for string, table and function replacements and every max_s.
-/
import GLua.Proofs.PmCapRepl
import GLua.Proofs.PmGsub

namespace GLua.PmProofs
open GLua.Pm GLua.LuaPattern

set_option linter.unusedSimpArgs false
set_option linter.unusedVariables false

/-! ### list surgery -/
theorem take_drop_join (str : List Nat) (a b c : Nat) (hab : a ≤ b) (hbc : b ≤ c) :
    (str.drop a).take (b - a) ++ (str.drop b).take (c - b) = (str.drop a).take (c - a) := by
  have e : c - a = (b - a) + (c - b) := by omega
  rw [e, List.take_add, List.drop_drop]
  congr 3
  omega

theorem Ordered.mono {len a b : Nat} {l : List ReplaceInfo} (hab : a ≤ b) (h : Ordered len b l) : Ordered len a l := by
  cases l with
  | nil => trivial
  | cons r rest => exact ⟨by have := h.1; omega, h.2⟩

/-- a span replaced by its own text can be dropped -/
theorem splice_absorb (str : List Nat) (pos s e : Nat) (L : List ReplaceInfo) (h1 : pos ≤ s) (h2 : s ≤ e)
    (ho : Ordered str.length e L) :
    (str.drop pos).take (s - pos) ++ (str.drop s).take (e - s) ++ splice str e (infoTriples L) =
      splice str pos (infoTriples L) := by
  rw [take_drop_join str pos s e h1 h2]
  cases L with
  | nil =>
    simp only [infoTriples, List.map_nil, splice]
    have : str.drop e = (str.drop pos).drop (e - pos) := by rw [List.drop_drop]; congr 1; omega
    rw [this, List.take_append_drop]
  | cons r rest =>
    obtain ⟨g1, g2, g3, g4⟩ := ho
    simp only [infoTriples, List.map_cons, splice]
    rw [← List.append_assoc, ← List.append_assoc, take_drop_join str pos e r.i0 (by omega) g1]

/-! ### the traversal of the matches -/

/-- how the Model's answer for one match relates to `add_value`: the same replacement text, or "keep the match"
    where the reference re-inserts the original text, or an error on both sides -/
def PerMatch (whole : Bytes) (s e : Nat) (rm : M (Option ReplaceInfo)) (rs : Res Bytes) : Prop :=
  match rs with
  | .ok txt => rm = .ok (some ⟨s, e, txt⟩) ∨ (rm = .ok none ∧ txt = whole)
  | .error _ => ∃ er, rm = .error er
  | .fail => False

def trav (F : Nat → Caps → M (Option ReplaceInfo)) : Nat → List Caps → M (List (Option ReplaceInfo))
  | _, [] => pure []
  | k, m :: r => do
    let x ← F k m
    let xs ← trav F (k + 1) r
    pure (x :: xs)

theorem assemble_trav (src : Array Nat) (repl : Repl) (F : Nat → Caps → M (Option ReplaceInfo)) (T : Nat)
    (hF : ∀ (k : Nat) (md : Caps) (mt : Match), PostC src.size mt.s T mt.e mt.caps md →
      PerMatch (slice src mt.s (mt.e - mt.s)) mt.s mt.e (F k md) (addValue src repl k mt)) :
    ∀ (mds : List Caps) (ms : List Match) (p pos k : Nat), MatchRel src.size T p mds ms → pos ≤ p →
      (∃ infos, trav F k mds = .ok infos ∧ Ordered src.size pos (infos.filterMap id) ∧
          assemble src repl k pos ms = .ok (splice src.toList pos (infoTriples (infos.filterMap id)))) ∨
      ((∃ er, trav F k mds = .error er) ∧ ∃ e, assemble src repl k pos ms = .error e) := by
  intro mds
  induction mds with
  | nil =>
    intro ms p pos k hrel hp
    cases ms with
    | cons _ _ => cases hrel
    | nil =>
      left
      refine ⟨[], rfl, trivial, ?_⟩
      simp only [assemble, List.filterMap_nil, infoTriples, List.map_nil, splice, slice]
      rw [List.take_of_length_le (by simp)]
  | cons md r1 ih =>
    intro ms p pos k hrel hp
    cases ms with
    | nil => cases hrel
    | cons mt r2 =>
      obtain ⟨hps, hpost, hrest⟩ := hrel
      have hse : mt.s ≤ mt.e := hpost.2.2.2.2.2.1
      have hes : mt.e ≤ src.size := hpost.2.2.2.2.2.2
      have hnext : mt.e ≤ (if mt.e > mt.s then mt.e else mt.s + 1) := by split <;> omega
      have hper := hF k md mt hpost
      have hih := ih r2 _ mt.e (k + 1) hrest hnext
      cases hav : addValue src repl k mt with
      | fail => rw [hav] at hper; exact absurd hper (by simp [PerMatch])
      | error e =>
        rw [hav] at hper
        obtain ⟨er, her⟩ := hper
        right
        exact ⟨⟨er, by simp [trav, her, bind, Except.bind]⟩, ⟨e, by simp [assemble, hav]⟩⟩
      | ok txt =>
        rw [hav] at hper
        simp only [PerMatch] at hper
        rcases hih with ⟨infos, ht, hord, has⟩ | ⟨⟨er, ht⟩, ⟨e, has⟩⟩
        · left
          rcases hper with hF1 | ⟨hF1, htxt⟩
          · refine ⟨some ⟨mt.s, mt.e, txt⟩ :: infos, by simp [trav, hF1, ht, bind, Except.bind, pure, Except.pure], ?_, ?_⟩
            · simp only [List.filterMap_cons, id]
              exact ⟨by show pos ≤ mt.s; omega, hse, by simpa using hes, hord⟩
            · simp only [assemble, hav, has, List.filterMap_cons, id, infoTriples, List.map_cons, splice, slice]
          · refine ⟨none :: infos, by simp [trav, hF1, ht, bind, Except.bind, pure, Except.pure], ?_, ?_⟩
            · simp only [List.filterMap_cons, id]
              exact hord.mono (by omega)
            · simp only [assemble, hav, has, List.filterMap_cons, id, htxt, slice]
              have := splice_absorb src.toList pos mt.s mt.e (infos.filterMap id) (by omega) hse (by simpa using hord)
              simp only [List.append_assoc] at this ⊢
              rw [this]
        · right
          have hFok : ∃ x, F k md = .ok x := by
            rcases hper with h | ⟨h, _⟩
            · exact ⟨_, h⟩
            · exact ⟨_, h⟩
          obtain ⟨x, hx⟩ := hFok
          exact ⟨⟨er, by simp [trav, hx, ht, bind, Except.bind]⟩, ⟨e, by simp [assemble, hav, has]⟩⟩

/-! ### the three kinds of replacement as traversals -/
theorem mapM_trav (f : Caps → M (Option ReplaceInfo)) : ∀ (mds : List Caps) (k : Nat),
    mds.mapM f = trav (fun _ m => f m) k mds := by
  intro mds
  induction mds with
  | nil => intro k; simp [trav]
  | cons m r ih =>
    intro k
    simp only [List.mapM_cons, trav, ih (k + 1)]

theorem mapM_trav_some (f : Caps → M ReplaceInfo) : ∀ (mds : List Caps) (k : Nat),
    mds.mapM f = (do
      let xs ← trav (fun _ m => do let x ← f m; pure (some x)) k mds
      pure (xs.filterMap id)) := by
  intro mds
  induction mds with
  | nil => intro k; simp [trav, bind, Except.bind, pure, Except.pure]
  | cons m r ih =>
    intro k
    simp only [List.mapM_cons, trav, ih (k + 1), bind, Except.bind, pure, Except.pure]
    cases f m with
    | error e => rfl
    | ok x =>
      simp only
      generalize trav _ (k + 1) r = X
      cases X with
      | error e => rfl
      | ok xs => simp

theorem go_trav (str : Array Nat) (call : Nat → List CapVal → RVal) : ∀ (mds : List Caps) (k : Nat),
    strGsubFunc.go str call mds k = trav (fun k m => do
      let s ← capture m 0
      let e ← capture m 1
      let args ← if m.size > 2 then funcArgs str m m.size 2
                 else (do pure [CapVal.str (← capturedString m str 0)])
      match ← replValue (call k args) with
      | some txt => pure (some (ReplaceInfo.mk s e txt))
      | none => pure none) k mds := by
  intro mds
  induction mds with
  | nil => intro k; simp [strGsubFunc.go, trav]
  | cons m r ih =>
    intro k
    simp only [strGsubFunc.go, trav, ih (k + 1), bind_assoc, pure_bind]
    by_cases h : m.size > 2 <;> simp only [h, if_true, if_false, bind_assoc] <;> rfl

/-! ### one match, per kind -/
theorem replValue_fin (whole : Bytes) (s e : Nat) (v : RVal) :
    PerMatch whole s e
      (do match ← replValue v with
          | some txt => pure (some (ReplaceInfo.mk s e txt))
          | none => pure none)
      (match v with
       | .nil => .ok whole
       | .false => .ok whole
       | .str b => .ok b
       | .int i => .ok (intBytes i)
       | .other t => .error ("invalid replacement value (a " ++ t ++ ")")) := by
  cases v with
  | nil => simp [PerMatch, replValue, bind, Except.bind, pure, Except.pure]
  | «false» => simp [PerMatch, replValue, bind, Except.bind, pure, Except.pure]
  | str b => simp [PerMatch, replValue, bind, Except.bind, pure, Except.pure]
  | int i => simp [PerMatch, replValue, bind, Except.bind, pure, Except.pure, intBytes]
  | other t => simp [PerMatch, replValue, bind, Except.bind, throw, throwThe, MonadExceptOf.throw]

theorem per_str (src : Array Nat) (b : List Nat) (hb : replOK b = true) (T k : Nat) (md : Caps) (mt : Match)
    (hp : PostC src.size mt.s T mt.e mt.caps md) :
    PerMatch (slice src mt.s (mt.e - mt.s)) mt.s mt.e
      (do let x ← (do
            let s ← capture md 0
            let e ← capture md 1
            let txt ← gsubStrOne src b.toArray md (b.toArray.size + 2) { str := b.toArray }
            pure (ReplaceInfo.mk s e txt))
          pure (some x))
      (addValue src (.str b) k mt) := by
  obtain ⟨_, ⟨hc0, hc1, _⟩, _⟩ := model_tuple src md mt T hp
  have hspec := gsubStrOne_spec src b.toArray md b.length b rfl { str := b.toArray } (b.toArray.size + 2) rfl rfl
    (by simp) (by simp) (by simp)
  have hsame := mrepl_addS src md mt T hp b.length b rfl hb
  simp only [addValue, hc0, hc1, hspec, bind, Except.bind, pure, Except.pure]
  cases ha : addS src mt b with
  | fail => rw [ha] at hsame; exact hsame
  | error e =>
    rw [ha] at hsame
    obtain ⟨er, her⟩ := hsame
    exact ⟨er, by simp [her, mapBuf]⟩
  | ok txt =>
    rw [ha] at hsame
    simp only [SameRes] at hsame
    left
    simp [hsame, mapBuf]

theorem fin_eq (whole : Bytes) (v : RVal) :
    (match v with
     | .nil => Res.ok whole
     | .false => .ok whole
     | .str b => .ok b
     | .int i => .ok (intBytes i)
     | .other t => .error ("invalid replacement value (a " ++ t ++ ")")) =
    (match v with
       | .nil => .ok whole
       | .false => .ok whole
       | .str b => .ok b
       | .int i => .ok (intBytes i)
       | .other t => .error ("invalid replacement value (a " ++ t ++ ")")) := rfl

theorem per_tbl (src : Array Nat) (look : CapVal → RVal) (T k : Nat) (md : Caps) (mt : Match)
    (hp : PostC src.size mt.s T mt.e mt.caps md) :
    PerMatch (slice src mt.s (mt.e - mt.s)) mt.s mt.e
      (do
        let idx := if md.size > 2 then 2 else 0
        let key ← (do
          if (← isPosCapture md idx) then pure (CapVal.pos (← capture md idx))
          else pure (CapVal.str (← substr src (← capture md idx) (← capture md (idx + 1)))))
        match ← replValue (look key) with
        | some txt => pure (some (ReplaceInfo.mk (← capture md 0) (← capture md 1) txt))
        | none => pure none)
      (addValue src (.tbl look) k mt) := by
  obtain ⟨_, ⟨hc0, hc1, _⟩, _⟩ := model_tuple src md mt T hp
  obtain ⟨key, rest, hargs, hkey⟩ := table_key src md mt T hp
  have hsa := spec_args src mt hp.2.2.2.2.1
  have hfin := replValue_fin (slice src mt.s (mt.e - mt.s)) mt.s mt.e (look key)
  simp only [addValue, hsa, hargs]
  rw [show (do
      let key ← (do
        if (← isPosCapture md (if md.size > 2 then 2 else 0)) then
          pure (CapVal.pos (← capture md (if md.size > 2 then 2 else 0)))
        else pure (CapVal.str (← substr src (← capture md (if md.size > 2 then 2 else 0))
          (← capture md ((if md.size > 2 then 2 else 0) + 1)))) : M CapVal)
      match ← replValue (look key) with
      | some txt => pure (some (ReplaceInfo.mk (← capture md 0) (← capture md 1) txt))
      | none => pure none : M (Option ReplaceInfo)) =
    (do match ← replValue (look key) with
        | some txt => pure (some (ReplaceInfo.mk mt.s mt.e txt))
        | none => pure none) by
      rw [hkey]
      simp only [bind, Except.bind, hc0, hc1, pure, Except.pure]
      try (cases replValue (look key) with
        | error e => rfl
        | ok o => cases o <;> rfl)]
  exact hfin

theorem per_fn (src : Array Nat) (call : Nat → List CapVal → RVal) (T k : Nat) (md : Caps) (mt : Match)
    (hp : PostC src.size mt.s T mt.e mt.caps md) :
    PerMatch (slice src mt.s (mt.e - mt.s)) mt.s mt.e
      (do
        let s ← capture md 0
        let e ← capture md 1
        let args ← if md.size > 2 then funcArgs src md md.size 2
                   else (do pure [CapVal.str (← capturedString md src 0)])
        match ← replValue (call k args) with
        | some txt => pure (some (ReplaceInfo.mk s e txt))
        | none => pure none)
      (addValue src (.fn call) k mt) := by
  obtain ⟨_, ⟨hc0, hc1, _⟩, _⟩ := model_tuple src md mt T hp
  have hma := model_args src md mt T hp
  have hsa := spec_args src mt hp.2.2.2.2.1
  have hfin := replValue_fin (slice src mt.s (mt.e - mt.s)) mt.s mt.e (call k (argsOf src mt))
  simp only [addValue, hsa]
  by_cases hs2 : md.size > 2
  · simp only [hs2, if_true] at hma
    simp only [hc0, hc1, hs2, if_true, hma, bind, Except.bind] at hfin ⊢
    exact hfin
  · simp only [hs2, if_false, bind, Except.bind] at hma
    simp only [hc0, hc1, hs2, if_false, hma, bind, Except.bind] at hfin ⊢
    exact hfin

/-! ### `string.gsub` -/

/-- the replacement is inside the compared domain (only a replacement STRING is restricted, see `replOK`) -/
def replGuard : Repl → Prop
  | .str b => replOK b = true
  | _ => True

/-- canonical reply of the Model's `strGsub` (`none` = a Lua error or a Go panic) -/
def modelGsub (pat subj : List Nat) (repl : Repl) (maxS : Option Int) : Option (List Nat × Nat) :=
  match Pm.strGsub subj.toArray pat.toArray repl maxS with
  | .ok r => some r
  | .error _ => none

/-- canonical reply of the Spec's `str_gsub` (`none` = error) -/
def specGsub (pat subj : List Nat) (repl : Repl) (maxS : Option Int) : Option (List Nat × Nat) :=
  match LuaPattern.strGsub subj.toArray pat repl maxS with
  | .ok r => some r
  | _ => none

/-- `strGsub` after the limit has been read from the optional 4th argument -/
def gsubM (str pat : Array Nat) (repl : Repl) (limit : Int) : M (List Nat × Nat) := do
  if limit ≤ 0 then return (str.toList, 0)
  let mds ← liftErr (find maxRecursionLevel pat str 0 limit)
  if mds.length = 0 then return (str.toList, 0)
  let out ← match repl with
    | .str b => strGsubStr str b.toArray mds
    | .tbl look => strGsubTable str look mds
    | .fn call => strGsubFunc str call mds
  pure (out, mds.length)

theorem strGsub_gsubM (str pat : Array Nat) (repl : Repl) (maxS : Option Int) :
    Pm.strGsub str pat repl maxS = gsubM str pat repl (match maxS with | none => (str.size : Int) + 1 | some i => i) := rfl

/-- `str_gsub` after max_s has been read -/
def gsubS (src : Array Nat) (pat : List Nat) (repl : Repl) (lim : Nat) : Res (Bytes × Nat) :=
  match scanAll src (splitAnchor pat).2 (splitAnchor pat).1 (src.size + 2) 0 lim with
  | .ok ms =>
    match assemble src repl 0 0 ms with
    | .ok b => .ok (b, ms.length)
    | .error e => .error e
    | .fail => .fail
  | .error e => .error e
  | .fail => .fail

theorem strGsub_gsubS (src : Array Nat) (pat : List Nat) (repl : Repl) (maxS : Option Int) :
    LuaPattern.strGsub src pat repl maxS =
      gsubS src pat repl (match maxS with | none => src.size + 1 | some i => if i ≤ 0 then 0 else i.toNat) := by
  unfold LuaPattern.strGsub gsubS
  rcases splitAnchor pat with ⟨anchor, p⟩
  rfl

def optM {α : Type} : M α → Option α
  | .ok a => some a
  | .error _ => none

def optR {α : Type} : Res α → Option α
  | .ok a => some a
  | _ => none

theorem strGsubStr_trav (src repl : Array Nat) (mds : List Caps) :
    strGsubStr src repl mds = (do
      let xs ← trav (fun _ m => do
        let x ← (do
          let s ← capture m 0
          let e ← capture m 1
          let txt ← gsubStrOne src repl m (repl.size + 2) { str := repl }
          pure (ReplaceInfo.mk s e txt))
        pure (some x)) 0 mds
      strGsubDoReplace src.toList (xs.filterMap id)) := by
  unfold strGsubStr
  rw [mapM_trav_some _ mds 0]
  simp only [bind_assoc, pure_bind]

theorem strGsubTable_trav (src : Array Nat) (look : CapVal → RVal) (mds : List Caps) :
    strGsubTable src look mds = (do
      let xs ← trav (fun _ m => do
        let idx := if m.size > 2 then 2 else 0
        let key ← (do
          if (← isPosCapture m idx) then pure (CapVal.pos (← capture m idx))
          else pure (CapVal.str (← substr src (← capture m idx) (← capture m (idx + 1)))))
        match ← replValue (look key) with
        | some txt => pure (some (ReplaceInfo.mk (← capture m 0) (← capture m 1) txt))
        | none => pure none) 0 mds
      strGsubDoReplace src.toList (xs.filterMap id)) := by
  unfold strGsubTable
  rw [mapM_trav _ mds 0]
  rfl

theorem strGsubFunc_trav (src : Array Nat) (call : Nat → List CapVal → RVal) (mds : List Caps) :
    strGsubFunc src call mds = (do
      let xs ← trav (fun k m => do
        let s ← capture m 0
        let e ← capture m 1
        let args ← if m.size > 2 then funcArgs src m m.size 2
                   else (do pure [CapVal.str (← capturedString m src 0)])
        match ← replValue (call k args) with
        | some txt => pure (some (ReplaceInfo.mk s e txt))
        | none => pure none) 0 mds
      strGsubDoReplace src.toList (xs.filterMap id)) := by
  unfold strGsubFunc
  rw [go_trav]

theorem gsub_core (pat : List Nat) (src : Array Nat) (repl : Repl) (limit : Int) (hfrag : inFragmentC0 pat = true)
    (hsz : src.size + pat.length + 3 ≤ maxRecursionLevel) (hrepl : replGuard repl) :
    optM (gsubM src pat.toArray repl limit) = optR (gsubS src pat repl (if limit ≤ 0 then 0 else limit.toNat)) := by
  have hwhole : slice src 0 (src.size - 0) = src.toList := by
    simp only [slice, List.drop_zero, Nat.sub_zero]
    exact List.take_of_length_le (by simp)
  unfold gsubM gsubS
  by_cases hle : limit ≤ 0
  · simp only [hle, if_true, scanAll, scanAllWith_zero, List.map_nil, assemble, hwhole, List.length_nil, optM, optR, pure,
      Except.pure]
  · obtain ⟨T, mds, ms, hfind, hscan, hrel⟩ := fragC_scan pat hfrag src limit (by omega) hsz
    have hmax : maxOfL limit src.size = limit.toNat := by
      unfold maxOfL; have : ¬ (limit < 0) := by omega
      simp [this]
    rw [hmax] at hscan
    have hlen := hrel.length
    simp only [hle, if_false, hfind, liftErr, hscan, bind, Except.bind, pure, Except.pure]
    by_cases h0 : mds.length = 0
    · have hm0 : ms = [] := List.length_eq_zero_iff.mp (by omega)
      simp only [h0, if_true, hm0, assemble, hwhole, List.length_nil, optM, optR]
    · simp only [h0, if_false]
      -- the replacement, per kind
      have key : ∀ (F : Nat → Caps → M (Option ReplaceInfo)) (code : M (List Nat)),
          code = (do let xs ← trav F 0 mds; strGsubDoReplace src.toList (xs.filterMap id)) →
          (∀ (k : Nat) (md : Caps) (mt : Match), PostC src.size mt.s T mt.e mt.caps md →
            PerMatch (slice src mt.s (mt.e - mt.s)) mt.s mt.e (F k md) (addValue src repl k mt)) →
          optM (match code with
                | .error err => Except.error err
                | .ok out => Except.ok (out, mds.length)) =
          optR (match assemble src repl 0 0 ms with
                | .ok b => Res.ok (b, ms.length)
                | .error e => .error e
                | .fail => .fail) := by
        intro F code hcode hF
        rw [hcode]
        rcases assemble_trav src repl F T hF mds ms 0 0 0 hrel (Nat.le_refl _) with ⟨infos, ht, hord, has⟩ | ⟨⟨er, ht⟩, ⟨e, has⟩⟩
        · have hdr := doReplace_eq_splice src.toList (infos.filterMap id) (by simpa using hord)
          simp only [ht, has, hdr, bind, Except.bind, hlen, optM, optR]
        · simp only [ht, has, bind, Except.bind, optM, optR]
      cases repl with
      | str b =>
        dsimp only
        have hk := key _ _ (strGsubStr_trav src b.toArray mds) (fun k md mt hp => per_str src b hrepl T k md mt hp)
        cases hc : strGsubStr src b.toArray mds <;> (rw [hc] at hk; exact hk)
      | tbl look =>
        dsimp only
        have hk := key _ _ (strGsubTable_trav src look mds) (fun k md mt hp => per_tbl src look T k md mt hp)
        cases hc : strGsubTable src look mds <;> (rw [hc] at hk; exact hk)
      | fn call =>
        dsimp only
        have hk := key _ _ (strGsubFunc_trav src call mds) (fun k md mt hp => per_fn src call T k md mt hp)
        cases hc : strGsubFunc src call mds <;> (rw [hc] at hk; exact hk)

theorem gsub_fragC_eq (pat subj : List Nat) (repl : Repl) (maxS : Option Int) (hfrag : inFragmentC0 pat = true)
    (hsz : subj.length + pat.length + 3 ≤ maxRecursionLevel) (hrepl : replGuard repl) :
    modelGsub pat subj repl maxS = specGsub pat subj repl maxS := by
  have hn : subj.length = subj.toArray.size := by simp
  rw [hn] at hsz
  have hm : modelGsub pat subj repl maxS = optM (Pm.strGsub subj.toArray pat.toArray repl maxS) := by
    unfold modelGsub optM; cases Pm.strGsub subj.toArray pat.toArray repl maxS <;> rfl
  have hs : specGsub pat subj repl maxS = optR (LuaPattern.strGsub subj.toArray pat repl maxS) := by
    unfold specGsub optR; cases LuaPattern.strGsub subj.toArray pat repl maxS <;> rfl
  rw [hm, hs, strGsub_gsubM, strGsub_gsubS]
  cases maxS with
  | none =>
    have := gsub_core pat subj.toArray repl ((subj.toArray.size : Int) + 1) hfrag hsz hrepl
    have hl : ¬ ((subj.toArray.size : Int) + 1 ≤ 0) := by omega
    have ht : ((subj.toArray.size : Int) + 1).toNat = subj.toArray.size + 1 := by omega
    simp only [hl, if_false, ht] at this
    exact this
  | some i => exact gsub_core pat subj.toArray repl i hfrag hsz hrepl

/-! ### the NUL-free fragments (the domain of the 5.1 manual) are inside the byte-unrestricted ones -/

/-- the gmatch fragment without NUL -/
def inFragmentG (pat : List Nat) : Bool := !pat.contains 0 && inFragmentG0 pat

theorem inFragment_0 {pat : List Nat} (h : inFragment pat = true) : inFragment0 pat = true := by
  simp only [inFragment, Bool.and_eq_true] at h; exact h.2

theorem inFragmentC_0 {pat : List Nat} (h : inFragmentC pat = true) : inFragmentC0 pat = true := by
  simp only [inFragmentC, Bool.and_eq_true] at h; exact h.2

theorem inFragmentG_0 {pat : List Nat} (h : inFragmentG pat = true) : inFragmentG0 pat = true := by
  simp only [inFragmentG, Bool.and_eq_true] at h; exact h.2

theorem inFragment_subC {pat : List Nat} (h : inFragment pat = true) : inFragmentC pat = true := by
  simp only [inFragment, Bool.and_eq_true] at h
  simp only [inFragmentC, Bool.and_eq_true]
  exact ⟨h.1, inFragment_sub pat h.2⟩

end GLua.PmProofs
