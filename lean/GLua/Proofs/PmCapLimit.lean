/-
  C14 — the size guard of `vm_eq_reference_captures` cannot be dropped: the recursion counter of the Model's VM grows by
  one per byte a greedy item consumes, so `("a"):rep(1000000):find("a*")` raises "pattern/input too complex" where the
  reference matches; and the reference raises no error on any pattern of the fragment.
-/
import GLua.Proofs.PmCapFind

namespace GLua.PmProofs
open GLua.Pm GLua.LuaPattern

set_option linter.unusedSimpArgs false
set_option linter.unusedVariables false

/-- the program of `a*` -/
def starProg : Array Inst := fragProg [⟨.lit 97, .star⟩] false

theorem starProg_eq : starProg = #[.save 0, .split 2 4, .char (.char 97), .jmp 1, .save 1, .matchI] := by
  simp [starProg, fragProg, emitAll, Item.block, Block.emit, tailInsts, toClass]

/-- on a run of `a`s the loop of `a*` nests one call per byte until the counter passes the cap -/
theorem cap_hit (src : Array Nat) (cap : Nat) (m : Caps) : ∀ (d sp rec fuel : Nat), rec + d = cap →
    (∀ i, sp ≤ i → i < sp + d → src[i]? = some 97) → fuel ≥ 3 * d + 1 →
    vm src starProg cap fuel 1 sp rec m = .error (.pm UNKNOWN "pattern/input too complex") := by
  intro d
  induction d with
  | zero =>
    intro sp rec fuel hrec _ hf
    obtain ⟨f, rfl⟩ : ∃ f, fuel = f + 1 := ⟨fuel - 1, by omega⟩
    have hc : rec + 1 > cap := by omega
    unfold vm
    simp [starProg_eq, hc, bind, Except.bind, throw, throwThe, MonadExceptOf.throw]
  | succ d ih =>
    intro sp rec fuel hrec hall hf
    obtain ⟨f, rfl⟩ : ∃ f, fuel = f + 3 := ⟨fuel - 3, by omega⟩
    have hc : ¬ (rec + 1 > cap) := by omega
    have hs := hall sp (Nat.le_refl _) (by omega)
    have hih := ih (sp + 1) (rec + 1) f (by omega) (fun i h1 h2 => hall i (by omega) (by omega)) (by omega)
    unfold vm
    simp only [starProg_eq, List.getElem?_toArray, List.getElem?_cons_succ, List.getElem?_cons_zero, hc, if_false, bind,
      Except.bind]
    unfold vm
    simp only [List.getElem?_toArray, List.getElem?_cons_succ, List.getElem?_cons_zero, hs, Class.Matches]
    unfold vm
    simp only [List.getElem?_toArray, List.getElem?_cons_succ, List.getElem?_cons_zero]
    rw [starProg_eq] at hih
    simp [hih]

/-- `("a"):rep(N):find("a*")` is an error in the Model for every `N ≥ 999998` -/
theorem model_cap_general (N : Nat) (hN : N ≥ 999998) : modelFind [97, 42] (List.replicate N 97) 1 = none := by
  have hparse := parseTop_items [97, 42] (by simp) [⟨.lit 97, .star⟩] false (by decide)
  have hcomp := compile_items [⟨.lit 97, .star⟩] false false
  have hsa : (splitAnchor [97, 42]).1 = false := by decide
  rw [hsa] at hparse
  simp only [List.map_cons, List.map_nil] at hparse hcomp
  generalize hsrc : (List.replicate N 97).toArray = src
  have hsize : src.size = N := by rw [← hsrc]; simp
  have hget : ∀ i, i < N → src[i]? = some 97 := by
    intro i hi
    rw [← hsrc]
    simp [List.getElem?_replicate, hi]
  have hpsize : starProg.size = 6 := by rw [starProg_eq]; rfl
  have hfuel : vmFuel src starProg = 14 * (N + 1) + 1 := by
    unfold vmFuel; rw [hsize, hpsize]
  have hrun : vm src starProg maxRecursionLevel (vmFuel src starProg) 0 0 1 #[] =
      .error (.pm UNKNOWN "pattern/input too complex") := by
    rw [hfuel]
    unfold vm
    have h0 : starProg[0]? = some (.save 0) := by rw [starProg_eq]; rfl
    have hc : ¬ (1 + 1 > maxRecursionLevel) := by unfold maxRecursionLevel; omega
    simp only [h0, setCap0, bind, Except.bind, hc, if_false]
    have := cap_hit src maxRecursionLevel #[0 * 2] 999998 0 2 (14 * (N + 1)) (by unfold maxRecursionLevel; omega)
      (fun i _ h2 => hget i (by omega)) (by omega)
    rw [this]
  unfold modelFind Pm.strFind
  simp only [hsrc, bind, Except.bind, pure, Except.pure]
  have hpsz : ¬ (([97, 42] : List Nat).toArray.size = 0) := by simp
  have hinit : (if luaIndex2StringIndexStart src.size 1 > src.size then src.size else luaIndex2StringIndexStart src.size 1) = 0 := by
    unfold luaIndex2StringIndexStart; simp
  simp only [hpsz, if_false, hinit, find, hparse, hcomp, bind, Except.bind, liftErr]
  have hprog : fragProg [⟨.lit 97, .star⟩] false = starProg := rfl
  rw [hprog]
  have hlen : ¬ (0 > src.size) := by omega
  have : findLoop (fun sp => vm src starProg maxRecursionLevel (vmFuel src starProg) 0 sp 1 #[]) src.size 1 false
      (src.size + 2) 0 [] = .error (.pm UNKNOWN "pattern/input too complex") := by
    rw [show src.size + 2 = (src.size + 1) + 1 by omega]
    unfold findLoop
    simp only [hlen, if_false, bind, Except.bind, hrun]
  rw [this]

/-- **the witness**: `("a"):rep(1000000):find("a*")` is an error in the Model -/
theorem model_cap_witness : modelFind [97, 42] (List.replicate 1000000 97) 1 = none :=
  model_cap_general 1000000 (by omega)

/-- the reference raises no error on a pattern of the fragment, whatever the subject (the simulation, instantiated
    with a cap large enough for the subject at hand, excludes it) -/
theorem specFind_total (pat subj : List Nat) (init : Int) (hfrag : inFragmentC0 pat = true) :
    specFind pat subj init ≠ none := by
  unfold specFind LuaPattern.strFind firstMatch
  generalize hsrc : subj.toArray = src
  generalize hi : initOffset init src.size = i
  have hile : i ≤ src.size := by
    rw [← hi]; unfold initOffset; simp only []; repeat' split
    all_goals omega
  obtain ⟨sq, insts, T, hparse, hhead, hcomp, hrun⟩ := fragC_pipeline' pat hfrag
  rcases hsa : splitAnchor pat with ⟨anchor, p⟩
  rw [hsa] at hhead hrun
  simp only at hhead hrun
  have hloop := first_loop_C src p anchor T
    (fun sp => vm src insts (src.size + pat.length + 3) (vmFuel src insts) 0 sp 1 #[])
    (fun sp hsp => hrun (src.size + pat.length + 3) src sp hsp (Nat.le_refl _)) (src.size + 1 - i) i (src.size + 2)
    (by omega) (by omega)
  simp only []
  cases hsf : scanFrom src p anchor (src.size + 1 - i) i with
  | error e => rw [hsf] at hloop; exact absurd hloop (by simp)
  | fail => simp
  | ok mt =>
    rw [hsf] at hloop
    obtain ⟨m', _, hp⟩ := hloop
    obtain ⟨_, _, _, _, hst, _, _⟩ := hp
    have hno := noUnf_of_stack mt.caps hst
    have hcaps : pushCaptures src mt.caps mt.s mt.e false = .ok (mt.caps.map (capVal src)) := by
      simp only [pushCaptures, Bool.false_eq_true, and_false, if_false]
      exact allCaptures_eq src mt.caps hno
    simp [hcaps]

end GLua.PmProofs
