/-
  C14, `vm_eq_reference` with captures — the Model's parser and compiler on a pattern of the fragment with captures:
  `parseTop` yields the tree `build` makes of the tokens, `compilePattern` yields `capProg`.
-/
import GLua.Proofs.PmCap
import GLua.Proofs.PmCapSpec
import GLua.Proofs.PmCapVm

namespace GLua.PmProofs
open GLua.Pm GLua.LuaPattern

set_option linter.unusedSimpArgs false
set_option linter.unusedVariables false

/-! ### single steps of `parsePattern` -/
section steps
variable (P : Array Nat)

theorem pp_pos {tl : Bool} (k : Nat) (sv : ScannerState) (hk : k + 1 < P.size) (f : Nat) (acc : SeqPat)
    (h40 : P[k] = 40) (h41 : P[k + 1] = 41) :
    parsePattern (f + 1) (scAt P k sv) tl acc =
      parsePattern f (scAt P (k + 2) sv) tl (pushPat acc .posCap) := by
  have hk0 : k < P.size := by omega
  have hgc : ((P[k] : Nat) : Int) = 40 := by rw [h40]; rfl
  have hgc1 : ((P[k + 1] : Nat) : Int) = 41 := by rw [h41]; rfl
  conv => lhs; unfold parsePattern
  rw [peek_at P k sv hk0]
  simp only [bind, Except.bind, hgc]
  simp [next_at P k sv hk0, peek_at P (k + 1) sv hk, next_at P (k + 1) sv hk, hgc1, isQuant, pushPat]

theorem pp_open {tl : Bool} (k : Nat) (sv : ScannerState) (hk : k + 1 < P.size) (f : Nat) (acc : SeqPat)
    (h40 : P[k] = 40) (h41 : P[k + 1] ≠ 41) (k' : Nat) (sv' : ScannerState) (inner : SeqPat)
    (hinner : parsePattern f (scAt P (k + 1) sv) false {} = .ok (scAt P k' sv', inner))
    (hk' : k' < P.size) (hc : P[k'] = 41) :
    parsePattern (f + 1) (scAt P k sv) tl acc =
      parsePattern f (scAt P (k' + 1) sv') tl (pushPat acc (.cap inner.pats)) := by
  have hk0 : k < P.size := by omega
  have hgc : ((P[k] : Nat) : Int) = 40 := by rw [h40]; rfl
  have hgc1 : ¬ (((P[k + 1] : Nat) : Int) = 41) := by omega
  have hgc2 : ((P[k'] : Nat) : Int) = 41 := by rw [hc]; rfl
  conv => lhs; unfold parsePattern
  rw [peek_at P k sv hk0]
  simp only [bind, Except.bind, hgc]
  simp [next_at P k sv hk0, peek_at P (k + 1) sv hk, hgc1, hinner, peek_at P k' sv' hk', next_at P k' sv' hk', hgc2,
    isQuant, pushPat]

theorem pp_close (k : Nat) (sv : ScannerState) (hk : k < P.size) (f : Nat) (acc : SeqPat) (hc : P[k] = 41) :
    parsePattern (f + 1) (scAt P k sv) false acc = .ok (scAt P k sv, acc) := by
  have hgc : ((P[k] : Nat) : Int) = 41 := by rw [hc]; rfl
  conv => lhs; unfold parsePattern
  rw [peek_at P k sv hk]
  simp only [bind, Except.bind, hgc]
  simp [pure, Except.pure]

theorem pp_bal {tl : Bool} (k : Nat) (sv : ScannerState) (hk : k + 3 < P.size) (f : Nat) (acc : SeqPat)
    (hc : P[k] = 37) (hb : P[k + 1] = 98) :
    parsePattern (f + 1) (scAt P k sv) tl acc =
      parsePattern f (scAt P (k + 4) (stAt k)) tl (pushPat acc (.brace (P[k + 2] : Int) (P[k + 3] : Int))) := by
  have hk0 : k < P.size := by omega
  have hk1 : k + 1 < P.size := by omega
  have hk2 : k + 2 < P.size := by omega
  have hgc : ((P[k] : Nat) : Int) = 37 := by rw [hc]; rfl
  have hgc1 : ((P[k + 1] : Nat) : Int) = 98 := by rw [hb]; rfl
  have hsave : (scAt P k sv).save = scAt P k (stAt k) := by simp [Scanner.save, scAt]
  conv => lhs; unfold parsePattern
  rw [peek_at P k sv hk0]
  simp only [bind, Except.bind, hgc, if_true, hsave, next_at P k (stAt k) hk0, peek_at P (k + 1) (stAt k) hk1, hgc1]
  simp [next_at P (k + 1) (stAt k) hk1, next_at P (k + 2) (stAt k) hk2, next_at P (k + 3) (stAt k) hk, pushPat]

theorem pp_ref {tl : Bool} (k : Nat) (sv : ScannerState) (hk : k + 1 < P.size) (f : Nat) (acc : SeqPat)
    (hc : P[k] = 37) (hd : isDigit P[k + 1] = true) (h48 : P[k + 1] ≠ 48) :
    parsePattern (f + 1) (scAt P k sv) tl acc =
      parsePattern f (scAt P (k + 2) (stAt k)) tl (pushPat acc (.number ((P[k + 1] : Int) - 48))) := by
  have hk0 : k < P.size := by omega
  have hgc : ((P[k] : Nat) : Int) = 37 := by rw [hc]; rfl
  generalize hcv : P[k + 1] = d at *
  simp only [isDigit, Bool.and_eq_true, decide_eq_true_eq] at hd
  have i48 : (d : Int) ≠ 48 := by omega
  have i49 : (49 : Int) ≤ (d : Int) ∧ (d : Int) ≤ 57 := by omega
  have hsave : (scAt P k sv).save = scAt P k (stAt k) := by simp [Scanner.save, scAt]
  conv => lhs; unfold parsePattern
  rw [peek_at P k sv hk0]
  simp only [bind, Except.bind, hgc, if_true, hsave, next_at P k (stAt k) hk0, peek_at P (k + 1) (stAt k) hk, hcv,
    i48, if_false, i49, and_self, next_at P (k + 1) (stAt k) hk, pushPat]

end steps

/-! ### one single-character item with its quantifier -/
theorem parse_item_step (pat : List Nat) {tl : Bool} (k c : Nat) (r : List Nat) (cls : Cls) (r1 : List Nat)
    (hk : pat.drop k = c :: r) (hkle : k ≤ pat.length) (hc : tokCls (c :: r) = some (cls, r1)) (hd : ¬ (c = 36 ∧ r = []))
    (fuel : Nat) (hf : fuel ≥ (c :: r).length + 1) (acc : SeqPat) (sv : ScannerState) (hqinv : QInv acc (c :: r)) :
    ∃ k2 sv2 f2, parsePattern fuel (scAt pat.toArray k sv) tl acc =
        parsePattern f2 (scAt pat.toArray k2 sv2) tl (pushPat acc (Item.pat ⟨cls, (tokQ r1).1⟩)) ∧
      pat.drop k2 = (tokQ r1).2 ∧ k2 ≤ pat.length ∧ k < k2 ∧ f2 ≥ (tokQ r1).2.length + 1 ∧
      QInv (pushPat acc (Item.pat ⟨cls, (tokQ r1).1⟩)) (tokQ r1).2 := by
  have hsz : pat.toArray.size = pat.length := by simp
  obtain ⟨hlt, hget, hrest⟩ := drop_cons_get pat k c r hk
  have hklt : k < pat.toArray.size := by omega
  have hPk : pat.toArray[k] = c := by simp [hget]
  have hlen := drop_length_le pat k (c :: r) hk hkle
  simp only [List.length_cons] at hlen hf
  obtain ⟨f, rfl⟩ : ∃ f, fuel = f + 1 := ⟨fuel - 1, by omega⟩
  -- the class
  have hcls : ∃ k1 sv1, parsePattern (f + 1) (scAt pat.toArray k sv) tl acc =
        parsePattern f (scAt pat.toArray k1 sv1) tl (pushPat acc (.single (toClass cls))) ∧
      pat.drop k1 = r1 ∧ k1 ≤ pat.length ∧ k < k1 := by
    rcases tokCls_cases c r cls r1 hc with ⟨h37, cl, hr, hcl, hcl0, hdig, h98, h102⟩ | ⟨h91, content, hcl, hce, hok, hnul⟩ |
        ⟨h46, hcl, hr1⟩ | ⟨hc0, h40, h41, h37, h91, h46, hcl, hr1⟩
    · subst hr hcl
      obtain ⟨hlt1, hget1, hrest1⟩ := drop_cons_get pat (k + 1) cl r1 hrest
      have hP1 : pat.toArray[k + 1]'(by omega) = cl := by simp [hget1]
      refine ⟨k + 2, stAt k, ?_, hrest1, by omega, by omega⟩
      have := pp_esc (tl := tl) pat.toArray k sv (by omega) f acc (by rw [hPk, h37]) (by rw [hP1]; exact ⟨hdig, h98⟩)
      rw [this, hP1]
      rfl
    · subst h91 hcl
      obtain ⟨hr, _, _⟩ := classEnd_set r content r1 hce
      subst hr
      simp only [List.length_append, List.length_cons] at hlen hf
      refine ⟨k + content.length + 2, sv, ?_, ?_, by omega, by omega⟩
      · exact pp_set (tl := tl) pat k sv content r1 hk hok f (by omega) acc
      · have : pat.drop (k + content.length + 2) = (pat.drop k).drop (content.length + 2) := by
          rw [List.drop_drop, Nat.add_assoc]
        rw [this, hk]
        simp
    · subst hcl hr1
      refine ⟨k + 1, sv, ?_, hrest, by omega, by omega⟩
      exact pp_dot (tl := tl) pat.toArray k sv hklt f acc (by rw [hPk, h46])
    · subst hcl hr1
      refine ⟨k + 1, sv, ?_, hrest, by omega, by omega⟩
      have := pp_lit (tl := tl) pat.toArray k sv hklt f acc (by rw [hPk]; exact ⟨h37, h46, h91, h40, h41⟩)
        (by
          rw [hPk]; intro h36
          have : r1 ≠ [] := fun e => hd ⟨h36, e⟩
          cases r1 with
          | nil => exact absurd rfl this
          | cons x y => simp only [List.length_cons] at hlen; omega)
        (by rw [hPk]; intro hq; exact hqinv c r1 rfl hq)
      rw [this, hPk]
      rfl
  obtain ⟨k1, sv1, hstep, hdrop1, hk1le, hk1gt⟩ := hcls
  have hlen1 := drop_length_le pat k1 r1 hdrop1 hk1le
  -- the quantifier
  cases r1 with
  | nil =>
    have hq : tokQ [] = (.one, []) := rfl
    refine ⟨k1, sv1, f, ?_, ?_, hk1le, hk1gt, ?_, ?_⟩
    · rw [hstep, hq]; rfl
    · rw [hq]; exact hdrop1
    · rw [hq]; simp only [List.length_nil]; omega
    · rw [hq]; intro c' r' h; cases h
  | cons q r2 =>
    obtain ⟨hlt1, hget1, hrest1⟩ := drop_cons_get pat k1 q r2 hdrop1
    have hP1 : pat.toArray[k1]'(by omega) = q := by simp [hget1]
    simp only [List.length_cons] at hlen1
    by_cases hqq : isQuantNat q = true
    · obtain ⟨f', rfl⟩ : ∃ f', f = f' + 1 := ⟨f - 1, by omega⟩
      have hqs := pp_quant (tl := tl) pat.toArray k1 sv1 (by omega) f' acc (toClass cls) (by rw [hP1]; exact hqq)
      have hlast : QInv (pushPat acc (.repeat (q : Int) (toClass cls))) r2 := by
        intro c' r' _ _ cls' hl
        simp [pushPat] at hl
      have hcases : q = 42 ∨ q = 43 ∨ q = 45 ∨ q = 63 := by
        simp only [isQuantNat, Bool.or_eq_true, decide_eq_true_eq] at hqq; omega
      have key : ∀ Q, tokQ (q :: r2) = (Q, r2) → Item.pat ⟨cls, Q⟩ = .repeat (q : Int) (toClass cls) →
          ∃ k2 sv2 f2, parsePattern (f' + 1 + 1) (scAt pat.toArray k sv) tl acc =
            parsePattern f2 (scAt pat.toArray k2 sv2) tl (pushPat acc (Item.pat ⟨cls, (tokQ (q :: r2)).1⟩)) ∧
            pat.drop k2 = (tokQ (q :: r2)).2 ∧ k2 ≤ pat.length ∧ k < k2 ∧ f2 ≥ (tokQ (q :: r2)).2.length + 1 ∧
            QInv (pushPat acc (Item.pat ⟨cls, (tokQ (q :: r2)).1⟩)) (tokQ (q :: r2)).2 := by
        intro Q hQ hpat
        refine ⟨k1 + 1, sv1, f', ?_, ?_, by omega, by omega, ?_, ?_⟩
        · rw [hstep, hqs, hP1, hQ, hpat]
        · rw [hQ]; exact hrest1
        · rw [hQ]; simp only; omega
        · rw [hQ, hpat]; exact hlast
      rcases hcases with rfl | rfl | rfl | rfl
      · exact key .star rfl rfl
      · exact key .plus rfl rfl
      · exact key .minus rfl rfl
      · exact key .opt rfl rfl
    · have hnq : q ≠ 63 ∧ q ≠ 42 ∧ q ≠ 43 ∧ q ≠ 45 := by
        simp only [isQuantNat, Bool.or_eq_true, decide_eq_true_eq, not_or] at hqq; omega
      have hq : tokQ (q :: r2) = (.one, q :: r2) := tokQ_default q r2 hnq
      refine ⟨k1, sv1, f, ?_, ?_, hk1le, hk1gt, ?_, ?_⟩
      · rw [hstep, hq]; rfl
      · rw [hq]; exact hdrop1
      · rw [hq]; simp only [List.length_cons]; omega
      · rw [hq]
        intro c' r' h hq'
        injection h with h1 _; subst h1; exact absurd hq' hqq

/-! ### the whole pattern: `parsePattern` builds `build toks` -/

/-- what a run of `parsePattern` over the tokens `toks` (tree `ps`, tokens left `rest'`) returns: at top level it runs to
    the end of the pattern; inside a capture it stops in front of the unmatched `)` -/
def ParsesTo (pat : List Nat) (tail : Bool) (ps : List Pat) (rest' : List Tok) (k fuel : Nat) (acc : SeqPat)
    (sv : ScannerState) : Prop :=
  (rest' = [] → ∃ sc', parsePattern fuel (scAt pat.toArray k sv) true acc =
      .ok (sc', { acc with mustTail := acc.mustTail || tail, pats := acc.pats ++ ps })) ∧
  (∀ r2, rest' = .cls :: r2 → ∃ k' sv' ft', parsePattern fuel (scAt pat.toArray k sv) false acc =
      .ok (scAt pat.toArray k' sv', { acc with pats := acc.pats ++ ps }) ∧ k ≤ k' ∧ k' < pat.length ∧
      pat.toArray[k']? = some 41 ∧ tokToks ft' (pat.drop (k' + 1)) = some (r2, tail))

theorem ParsesTo.of_step {pat : List Nat} {tail : Bool} {ps : List Pat} {rest' : List Tok} {k k2 fuel f2 : Nat}
    {acc acc2 : SeqPat} {sv sv2 : ScannerState} (p : Pat)
    (hstep : ∀ tl, parsePattern fuel (scAt pat.toArray k sv) tl acc = parsePattern f2 (scAt pat.toArray k2 sv2) tl acc2)
    (hacc : acc2 = pushPat acc p) (hk : k ≤ k2)
    (h : ParsesTo pat tail ps rest' k2 f2 acc2 sv2) : ParsesTo pat tail (p :: ps) rest' k fuel acc sv := by
  subst hacc
  constructor
  · intro hr
    obtain ⟨sc', hp⟩ := h.1 hr
    refine ⟨sc', ?_⟩
    rw [hstep true, hp]
    simp [pushPat]
  · intro r2 hr
    obtain ⟨k', sv', ft', hp, h1, h2, h3, h4⟩ := h.2 r2 hr
    refine ⟨k', sv', ft', ?_, by omega, h2, h3, h4⟩
    rw [hstep false, hp]
    simp [pushPat]

theorem parse_toks (pat : List Nat) (hne : 0 < pat.length) :
    ∀ (fb : Nat) (toks : List Tok) (ps : List Pat) (cons rest' : List Tok), build fb toks = some (ps, cons, rest') →
      ∀ (ft : Nat) (bytes : List Nat) (tail : Bool), tokToks ft bytes = some (toks, tail) →
      ∀ (k : Nat), pat.drop k = bytes → k ≤ pat.length → ∀ (acc : SeqPat) (sv : ScannerState) (fuel : Nat),
        fuel ≥ bytes.length + 1 → QInv acc bytes → ParsesTo pat tail ps rest' k fuel acc sv := by
  have hsz : pat.toArray.size = pat.length := by simp
  intro fb
  induction fb with
  | zero => intro toks ps cons rest' h; simp [build] at h
  | succ fb ih =>
    intro toks ps cons rest' hb ft bytes tail htok k hk hkle acc sv fuel hf hqinv
    cases ft with
    | zero => simp [tokToks] at htok
    | succ ft =>
    cases bytes with
    | nil =>
      -- end of the pattern
      simp only [tokToks, Option.some.injEq, Prod.mk.injEq] at htok
      obtain ⟨rfl, rfl⟩ := htok
      simp only [build, Option.some.injEq, Prod.mk.injEq] at hb
      obtain ⟨rfl, rfl, rfl⟩ := hb
      have hk' : k = pat.toArray.size := by
        have := drop_length_le pat k [] hk hkle; simp at this; omega
      obtain ⟨f, rfl⟩ : ∃ f, fuel = f + 1 := ⟨fuel - 1, by simp at hf; omega⟩
      constructor
      · intro _
        obtain ⟨sc', hp⟩ := pp_end pat.toArray sv (by omega) f acc
        refine ⟨sc', ?_⟩
        rw [hk', hp]
        simp
      · intro r2 h; cases h
    | cons c r =>
      obtain ⟨hlt, hget, hrest⟩ := drop_cons_get pat k c r hk
      have hklt : k < pat.toArray.size := by omega
      have hPk : pat.toArray[k] = c := by simp [hget]
      have hlen := drop_length_le pat k (c :: r) hk hkle
      simp only [List.length_cons] at hlen hf
      rcases tokToks_inv ft c r toks tail htok with ⟨rfl, rfl, rfl, rfl⟩ | ⟨hd, hcase⟩
      · -- the final `$`
        simp only [build, Option.some.injEq, Prod.mk.injEq] at hb
        obtain ⟨rfl, rfl, rfl⟩ := hb
        simp only [List.length_nil] at hlen hf
        obtain ⟨f, rfl⟩ : ∃ f, fuel = f + 2 := ⟨fuel - 2, by omega⟩
        constructor
        · intro _
          obtain ⟨sc', hp⟩ := pp_tail pat.toArray k sv (by omega) f acc hPk
          refine ⟨sc', ?_⟩
          rw [hp]
          simp
        · intro r2 h; cases h
      · obtain ⟨f, rfl⟩ : ∃ f, fuel = f + 1 := ⟨fuel - 1, by omega⟩
        rcases hcase with ⟨rfl, r', ts, rfl, ht, rfl⟩ | ⟨rfl, hno, ts, ht, rfl⟩ | ⟨rfl, ts, ht, rfl⟩ |
          ⟨rfl, b, e, r', ts, rfl, _, _, ht, rfl⟩ | ⟨rfl, d, r', ts, rfl, hdig, h48, ht, rfl⟩ | ⟨cls, r1, ts, hc, ht, rfl⟩
        · -- `()`
          simp only [build] at hb
          cases hbr : build fb ts with
          | none => simp [hbr] at hb
          | some v =>
            obtain ⟨ps', c', r''⟩ := v
            simp only [hbr, Option.some.injEq, Prod.mk.injEq] at hb
            obtain ⟨rfl, rfl, rfl⟩ := hb
            obtain ⟨hlt1, hget1, hrest1⟩ := drop_cons_get pat (k + 1) 41 r' hrest
            have hP1 : pat.toArray[k + 1]'(by omega) = 41 := by simp [hget1]
            simp only [List.length_cons] at hlen hf
            have := ih ts ps' c' r'' hbr ft r' tail ht (k + 1 + 1) hrest1 (by omega) (pushPat acc .posCap) sv f (by omega)
              (by intro c' r' _ _ cls' hl; simp [pushPat] at hl)
            exact ParsesTo.of_step (Tok.pat .pos) (fun tl => pp_pos (tl := tl) pat.toArray k sv (by omega) f acc hPk hP1)
              rfl (by omega) this
        · -- `(`
          simp only [build] at hb
          cases hbr : build fb ts with
          | none => simp [hbr] at hb
          | some v =>
            obtain ⟨inner, cin, rin⟩ := v
            rw [hbr] at hb
            cases rin with
            | nil => simp at hb
            | cons t0 r2 =>
              cases t0 with
              | cls =>
                simp only at hb
                cases hb2 : build fb r2 with
                | none => simp [hb2] at hb
                | some w =>
                  obtain ⟨ps2, c2, r3⟩ := w
                  simp only [hb2, Option.some.injEq, Prod.mk.injEq] at hb
                  obtain ⟨rfl, rfl, rfl⟩ := hb
                  have hin := ih ts inner cin (.cls :: r2) hbr ft r tail ht (k + 1) hrest (by omega) {} sv f (by omega)
                    (by intro c' r' _ _ cls' hl; simp at hl)
                  obtain ⟨k', sv', ft', hp, hk1, hk2, hk3, hk4⟩ := hin.2 r2 rfl
                  have hk'lt : k' < pat.toArray.size := by omega
                  have hPk' : pat.toArray[k'] = 41 := by
                    rw [Array.getElem?_eq_getElem hk'lt] at hk3; injection hk3
                  have hk1lt : k + 1 < pat.toArray.size := by omega
                  have hP1 : pat.toArray[k + 1] ≠ 41 := by
                    intro e41
                    cases r with
                    | nil => simp at hrest; omega
                    | cons x y =>
                      obtain ⟨_, hg, _⟩ := drop_cons_get pat (k + 1) x y hrest
                      have : x = 41 := by rw [← hg]; simpa using e41
                      exact hno y (by rw [this])
                  have h2 := ih r2 ps2 c2 _ hb2 ft' (pat.drop (k' + 1)) tail hk4 (k' + 1) rfl (by omega)
                    (pushPat acc (.cap inner)) sv' f
                    (by
                      have : (pat.drop (k' + 1)).length = pat.length - (k' + 1) := by simp
                      omega)
                    (by intro c' r' _ _ cls' hl; simp [pushPat] at hl)
                  refine ParsesTo.of_step (.cap inner) (fun tl => ?_) rfl (by omega) h2
                  have := pp_open (tl := tl) pat.toArray k sv hk1lt f acc hPk hP1 k' sv' _ hp hk'lt hPk'
                  rw [this]
                  simp
              | _ => simp at hb
        · -- `)`
          simp only [build, Option.some.injEq, Prod.mk.injEq] at hb
          obtain ⟨rfl, rfl, rfl⟩ := hb
          constructor
          · intro h; cases h
          · intro r2 h
            injection h with _ h; subst h
            refine ⟨k, sv, ft, ?_, Nat.le_refl _, hlt, ?_, ?_⟩
            · rw [pp_close pat.toArray k sv hklt f acc hPk]; simp
            · rw [Array.getElem?_eq_getElem hklt, hPk]
            · rw [hrest]; exact ht
        · -- `%bxy`
          simp only [build] at hb
          cases hbr : build fb ts with
          | none => simp [hbr] at hb
          | some v =>
            obtain ⟨ps', c', r''⟩ := v
            simp only [hbr, Option.some.injEq, Prod.mk.injEq] at hb
            obtain ⟨rfl, rfl, rfl⟩ := hb
            obtain ⟨hlt1, hget1, hrest1⟩ := drop_cons_get pat (k + 1) 98 _ hrest
            obtain ⟨hlt2, hget2, hrest2⟩ := drop_cons_get pat (k + 1 + 1) b _ hrest1
            obtain ⟨hlt3, hget3, hrest3⟩ := drop_cons_get pat (k + 1 + 1 + 1) e _ hrest2
            have hP1 : pat.toArray[k + 1]'(by omega) = 98 := by simp [hget1]
            have hP2 : pat.toArray[k + 2]'(by omega) = b := by simp [hget2]
            have hP3 : pat.toArray[k + 3]'(by omega) = e := by simp [hget3]
            simp only [List.length_cons] at hlen hf
            have := ih ts ps' c' r'' hbr ft r' tail ht (k + 1 + 1 + 1 + 1) hrest3 (by omega)
              (pushPat acc (.brace (b : Int) (e : Int))) (stAt k) f (by omega)
              (by intro c' r' _ _ cls' hl; simp [pushPat] at hl)
            refine ParsesTo.of_step (Tok.pat (.bal b e)) (fun tl => ?_) rfl (by omega) this
            have := pp_bal (tl := tl) pat.toArray k sv (by omega) f acc hPk hP1
            rw [this, hP2, hP3]
            rfl
        · -- `%d`
          simp only [build] at hb
          cases hbr : build fb ts with
          | none => simp [hbr] at hb
          | some v =>
            obtain ⟨ps', c', r''⟩ := v
            simp only [hbr, Option.some.injEq, Prod.mk.injEq] at hb
            obtain ⟨rfl, rfl, rfl⟩ := hb
            obtain ⟨hlt1, hget1, hrest1⟩ := drop_cons_get pat (k + 1) d r' hrest
            have hP1 : pat.toArray[k + 1]'(by omega) = d := by simp [hget1]
            simp only [List.length_cons] at hlen hf
            have := ih ts ps' c' r'' hbr ft r' tail ht (k + 1 + 1) hrest1 (by omega)
              (pushPat acc (.number ((d : Int) - 48))) (stAt k) f (by omega)
              (by intro c' r' _ _ cls' hl; simp [pushPat] at hl)
            refine ParsesTo.of_step (Tok.pat (.ref d)) (fun tl => ?_) rfl (by omega) this
            have := pp_ref (tl := tl) pat.toArray k sv (by omega) f acc hPk (by rw [hP1]; exact hdig) (by rw [hP1]; exact h48)
            rw [this, hP1]
            rfl
        · -- a single-character item
          simp only [build] at hb
          cases hbr : build fb ts with
          | none => simp [hbr] at hb
          | some v =>
            obtain ⟨ps', c', r''⟩ := v
            simp only [hbr, Option.some.injEq, Prod.mk.injEq] at hb
            obtain ⟨rfl, rfl, rfl⟩ := hb
            have hstep : ∀ tl, ∃ k2 sv2 f2, parsePattern (f + 1) (scAt pat.toArray k sv) tl acc =
                parsePattern f2 (scAt pat.toArray k2 sv2) tl (pushPat acc (Item.pat ⟨cls, (tokQ r1).1⟩)) ∧
                pat.drop k2 = (tokQ r1).2 ∧ k2 ≤ pat.length ∧ k < k2 ∧ f2 ≥ (tokQ r1).2.length + 1 ∧
                QInv (pushPat acc (Item.pat ⟨cls, (tokQ r1).1⟩)) (tokQ r1).2 := fun tl =>
              parse_item_step pat (tl := tl) k c r cls r1 hk hkle hc hd (f + 1) (by simp only [List.length_cons]; omega) acc sv hqinv
            constructor
            · intro hr
              obtain ⟨k2, sv2, f2, hs, hd2, hk2, hkk, hf2, hq2⟩ := hstep true
              have := ih ts ps' c' r'' hbr ft _ tail ht k2 hd2 hk2 _ sv2 f2 hf2 hq2
              obtain ⟨sc', hp⟩ := this.1 hr
              refine ⟨sc', ?_⟩
              rw [hs, hp]
              simp [pushPat, Tok.pat]
            · intro r2 hr
              obtain ⟨k2, sv2, f2, hs, hd2, hk2, hkk, hf2, hq2⟩ := hstep false
              have := ih ts ps' c' r'' hbr ft _ tail ht k2 hd2 hk2 _ sv2 f2 hf2 hq2
              obtain ⟨k', sv', ft', hp, h1, h2, h3, h4⟩ := this.2 r2 hr
              refine ⟨k', sv', ft', ?_, by omega, h2, h3, h4⟩
              rw [hs, hp]
              simp [pushPat, Tok.pat]

/-! ### compile: the tree compiles to the flat program -/
theorem capCount_append (a b : List Tok) : capCount (a ++ b) = capCount a + capCount b := by
  induction a with
  | nil => simp [capCount]
  | cons t r ih => cases t <;> simp [capCount, ih] <;> omega

/-- what `build` consumes is balanced: emission and the capture discipline pass over it with the stack unchanged -/
theorem build_facts : ∀ (fb : Nat) (toks : List Tok) (ps : List Pat) (cons rest' : List Tok),
    build fb toks = some (ps, cons, rest') →
    toks = cons ++ rest' ∧
    (∀ n E idx b, emitToks n E idx (cons ++ b) =
        emitToks n E idx cons ++ emitToks (n + capCount cons) E (idx + (emitToks n E idx cons).length) b) ∧
    (∀ n E b, capsOK n E (cons ++ b) = true → capsOK (n + capCount cons) E b = true) := by
  intro fb
  induction fb with
  | zero => intro toks ps cons rest' h; simp [build] at h
  | succ fb ih =>
    intro toks ps cons rest' hb
    cases toks with
    | nil =>
      simp only [build, Option.some.injEq, Prod.mk.injEq] at hb
      obtain ⟨rfl, rfl, rfl⟩ := hb
      simp [emitToks, capCount]
    | cons t r =>
      have generic : ∀ (t : Tok), (∀ n E idx b, emitToks n E idx (t :: b) = emitToks n E idx [t] ++
            emitToks (n + capCount [t]) E (idx + (emitToks n E idx [t]).length) b) →
          (∀ n E b, capsOK n E (t :: b) = true → capsOK (n + capCount [t]) E b = true) →
          ∀ ps' c' r'', build fb r = some (ps', c', r'') →
          t :: r = (t :: c') ++ r'' ∧
          (∀ n E idx b, emitToks n E idx ((t :: c') ++ b) =
            emitToks n E idx (t :: c') ++ emitToks (n + capCount (t :: c')) E (idx + (emitToks n E idx (t :: c')).length) b) ∧
          (∀ n E b, capsOK n E ((t :: c') ++ b) = true → capsOK (n + capCount (t :: c')) E b = true) := by
        intro t he hc ps' c' r'' hbr
        obtain ⟨h1, h2, h3⟩ := ih r ps' c' r'' hbr
        refine ⟨by rw [h1]; simp, ?_, ?_⟩
        · intro n E idx b
          have hcc : capCount (t :: c') = capCount [t] + capCount c' := by
            rw [show t :: c' = [t] ++ c' from rfl, capCount_append]
          rw [List.cons_append, he n E idx (c' ++ b), h2, he n E idx c', hcc]
          simp only [List.append_assoc, List.length_append, Nat.add_assoc]
        · intro n E b hok
          have hcc : capCount (t :: c') = capCount [t] + capCount c' := by
            rw [show t :: c' = [t] ++ c' from rfl, capCount_append]
          rw [List.cons_append] at hok
          have := h3 _ _ _ (hc n E (c' ++ b) hok)
          rw [hcc, ← Nat.add_assoc]; exact this
      cases t with
      | cls =>
        simp only [build, Option.some.injEq, Prod.mk.injEq] at hb
        obtain ⟨rfl, rfl, rfl⟩ := hb
        simp [emitToks, capCount]
      | opn =>
        simp only [build] at hb
        cases hbr : build fb r with
        | none => simp [hbr] at hb
        | some v =>
          obtain ⟨inner, cin, rin⟩ := v
          rw [hbr] at hb
          cases rin with
          | nil => simp at hb
          | cons t0 r2 =>
            cases t0 with
            | cls =>
              simp only at hb
              cases hb2 : build fb r2 with
              | none => simp [hb2] at hb
              | some w =>
                obtain ⟨ps2, c2, r3⟩ := w
                simp only [hb2, Option.some.injEq, Prod.mk.injEq] at hb
                obtain ⟨rfl, rfl, rfl⟩ := hb
                obtain ⟨h1, h2, h3⟩ := ih r inner cin _ hbr
                obtain ⟨g1, g2, g3⟩ := ih r2 ps2 c2 _ hb2
                have hcc : capCount (Tok.opn :: cin ++ Tok.cls :: c2) = 1 + capCount cin + capCount c2 := by
                  rw [show Tok.opn :: cin ++ Tok.cls :: c2 = [Tok.opn] ++ (cin ++ ([Tok.cls] ++ c2)) by simp,
                    capCount_append, capCount_append, capCount_append]
                  simp [capCount]; omega
                refine ⟨by rw [h1, g1]; simp, ?_, ?_⟩
                · intro n E idx b
                  rw [hcc]
                  simp only [List.cons_append, List.append_assoc, emitToks, h2, g2, List.length_cons, List.length_append]
                  simp only [List.cons_append, List.append_assoc, List.cons.injEq, true_and, List.append_cancel_left_eq]
                  congr 1 <;> omega
                · intro n E b hok
                  rw [hcc]
                  simp only [List.cons_append, List.append_assoc, capsOK, Bool.and_eq_true] at hok
                  have := h3 _ _ _ hok.2
                  simp only [capsOK] at this
                  have := g3 _ _ _ this
                  rw [show n + (1 + capCount cin + capCount c2) = n + 1 + capCount cin + capCount c2 by omega]
                  exact this
            | _ => simp at hb
      | item it =>
        simp only [build] at hb
        cases hbr : build fb r with
        | none => simp [hbr] at hb
        | some v =>
          obtain ⟨ps', c', r''⟩ := v
          simp only [hbr, Option.some.injEq, Prod.mk.injEq] at hb
          obtain ⟨rfl, rfl, rfl⟩ := hb
          exact generic (.item it) (by intro n E idx b; simp [emitToks, capCount])
            (by intro n E b h; simpa [capsOK, capCount] using h) ps' c' r'' hbr
      | pos =>
        simp only [build] at hb
        cases hbr : build fb r with
        | none => simp [hbr] at hb
        | some v =>
          obtain ⟨ps', c', r''⟩ := v
          simp only [hbr, Option.some.injEq, Prod.mk.injEq] at hb
          obtain ⟨rfl, rfl, rfl⟩ := hb
          exact generic .pos (by intro n E idx b; simp [emitToks, capCount])
            (by intro n E b h; simp only [capsOK, Bool.and_eq_true] at h; simpa [capCount] using h.2) ps' c' r'' hbr
      | bal b0 e0 =>
        simp only [build] at hb
        cases hbr : build fb r with
        | none => simp [hbr] at hb
        | some v =>
          obtain ⟨ps', c', r''⟩ := v
          simp only [hbr, Option.some.injEq, Prod.mk.injEq] at hb
          obtain ⟨rfl, rfl, rfl⟩ := hb
          exact generic (.bal b0 e0) (by intro n E idx b; simp [emitToks, capCount])
            (by intro n E b h; simpa [capsOK, capCount] using h) ps' c' r'' hbr
      | ref d =>
        simp only [build] at hb
        cases hbr : build fb r with
        | none => simp [hbr] at hb
        | some v =>
          obtain ⟨ps', c', r''⟩ := v
          simp only [hbr, Option.some.injEq, Prod.mk.injEq] at hb
          obtain ⟨rfl, rfl, rfl⟩ := hb
          exact generic (.ref d) (by intro n E idx b; simp [emitToks, capCount])
            (by intro n E b h; simp only [capsOK, Bool.and_eq_true] at h; simpa [capCount] using h.2) ps' c' r'' hbr

/-- the compiler's list of captures a back-reference may name covers the statically closed ones -/
def ClosedRel (closed : List Nat) (n : Nat) (E : List Nat) : Prop := ∀ l, l < n → l ∉ E → (2 * (l + 1)) ∈ closed

theorem compilePat_item (it : Item) (ptr : IPtr) :
    compilePat it.pat ptr = .ok { ptr with insts := (ptr.insts.toList ++ it.block.emit ptr.insts.size).toArray } := by
  obtain ⟨cls, q⟩ := it
  cases q <;>
  · simp only [Item.pat, compilePat, pure, Except.pure]
    try simp only [show ¬ ((43 : Int) = 42) by decide, show ¬ ((45 : Int) = 42) by decide, show ¬ ((45 : Int) = 43) by decide,
      show ¬ ((63 : Int) = 42) by decide, show ¬ ((63 : Int) = 43) by decide, show ¬ ((63 : Int) = 45) by decide, if_true, if_false]
    simp only [Item.block, Block.emit, Except.ok.injEq]
    congr 1
    apply Array.ext'
    simp

theorem push_eq {α : Type} (a : Array α) (x : α) : a.push x = (a.toList ++ [x]).toArray := by
  apply Array.ext'; simp

/-- compiling one more node, then the rest -/
theorem compile_step (p : Pat) (ps : List Pat) (ptr ptr1 : IPtr) (n n1 : Nat) (E : List Nat) (t : Tok) (c' : List Tok)
    (h1 : compilePat p ptr = .ok ptr1)
    (hins : ptr1.insts = (ptr.insts.toList ++ emitToks n E ptr.insts.size [t]).toArray)
    (he : ∀ idx b, emitToks n E idx (t :: b) = emitToks n E idx [t] ++ emitToks n1 E (idx + (emitToks n E idx [t]).length) b)
    (hcc : capCount (t :: c') = (n1 - n) + capCount c') (hn1 : n ≤ n1)
    (closed' : List Nat)
    (h2 : compileSeq ps ptr1 = .ok (IPtr.mk (ptr1.insts.toList ++ emitToks n1 E ptr1.insts.size c').toArray
        (2 * (n1 + capCount c' + 1)) (closed'))) :
    compileSeq (p :: ps) ptr = .ok (IPtr.mk (ptr.insts.toList ++ emitToks n E ptr.insts.size (t :: c')).toArray
        (2 * (n + capCount (t :: c') + 1)) (closed')) := by
  simp only [compileSeq, bind, Except.bind, h1, h2]
  rw [he ptr.insts.size c', hins, hcc]
  simp only [List.append_assoc, List.size_toArray, List.length_append, Array.length_toList]
  congr 3
  omega

theorem compile_toks : ∀ (fb : Nat) (toks : List Tok) (ps : List Pat) (cons rest' : List Tok),
    build fb toks = some (ps, cons, rest') → ∀ (n : Nat) (E : List Nat), capsOK n E (cons ++ rest') = true →
    ∀ (ptr : IPtr), ptr.capture = 2 * (n + 1) → ClosedRel ptr.closed n E →
    ∃ closed', compileSeq ps ptr = .ok (IPtr.mk (ptr.insts.toList ++ emitToks n E ptr.insts.size cons).toArray
        (2 * (n + capCount cons + 1)) (closed')) ∧ ClosedRel closed' (n + capCount cons) E := by
  intro fb
  induction fb with
  | zero => intro toks ps cons rest' h; simp [build] at h
  | succ fb ih =>
    intro toks ps cons rest' hb n E hok ptr hcap hcl
    have base : ∃ closed', compileSeq [] ptr = .ok (IPtr.mk (ptr.insts.toList ++ emitToks n E ptr.insts.size []).toArray
        (2 * (n + capCount [] + 1)) (closed')) ∧ ClosedRel closed' (n + capCount []) E := by
      refine ⟨ptr.closed, ?_, hcl⟩
      obtain ⟨i, c, cl⟩ := ptr
      simp only at hcap
      simp [compileSeq, pure, Except.pure, emitToks, capCount, hcap]
    cases toks with
    | nil =>
      simp only [build, Option.some.injEq, Prod.mk.injEq] at hb
      obtain ⟨rfl, rfl, rfl⟩ := hb
      exact base
    | cons t r =>
      cases t with
      | cls =>
        simp only [build, Option.some.injEq, Prod.mk.injEq] at hb
        obtain ⟨rfl, rfl, rfl⟩ := hb
        exact base
      | item it =>
        simp only [build] at hb
        cases hbr : build fb r with
        | none => simp [hbr] at hb
        | some v =>
          obtain ⟨ps', c', r''⟩ := v
          simp only [hbr, Option.some.injEq, Prod.mk.injEq] at hb
          obtain ⟨rfl, rfl, rfl⟩ := hb
          simp only [List.cons_append, capsOK] at hok
          have hp1 := compilePat_item it ptr
          obtain ⟨closed', h2, hcl'⟩ := ih r ps' c' _ hbr n E hok
            { ptr with insts := (ptr.insts.toList ++ it.block.emit ptr.insts.size).toArray } hcap hcl
          refine ⟨closed', ?_, by simpa [capCount] using hcl'⟩
          exact compile_step (Tok.pat (.item it)) ps' ptr _ n n E (.item it) c' hp1 (by simp [emitToks])
            (by intro idx b; simp [emitToks]) (by simp [capCount]) (Nat.le_refl _) closed' h2
      | pos =>
        simp only [build] at hb
        cases hbr : build fb r with
        | none => simp [hbr] at hb
        | some v =>
          obtain ⟨ps', c', r''⟩ := v
          simp only [hbr, Option.some.injEq, Prod.mk.injEq] at hb
          obtain ⟨rfl, rfl, rfl⟩ := hb
          simp only [List.cons_append, capsOK, Bool.and_eq_true] at hok
          have hcl1 : ClosedRel (ptr.capture :: ptr.closed) (n + 1) E := by
            intro l hl hE
            by_cases hln : l = n
            · subst hln; rw [hcap]; simp
            · exact List.mem_cons_of_mem _ (hcl l (by omega) hE)
          obtain ⟨closed', h2, hcl'⟩ := ih r ps' c' _ hbr (n + 1) E hok.2
            (IPtr.mk (ptr.insts.push (.psave ptr.capture)) (ptr.capture + 2) (ptr.capture :: ptr.closed))
            (by simp only [hcap]; omega) hcl1
          refine ⟨closed', ?_, by
            have : n + capCount (Tok.pos :: c') = n + 1 + capCount c' := by simp [capCount]; omega
            rw [this]; exact hcl'⟩
          exact compile_step (Tok.pat .pos) ps' ptr _ n (n + 1) E .pos c' (by simp [Tok.pat, compilePat, pure, Except.pure])
            (by simp only [emitToks, hcap]; exact push_eq _ _) (by intro idx b; simp [emitToks]) (by simp [capCount]; omega) (by omega) closed' h2
      | bal b0 e0 =>
        simp only [build] at hb
        cases hbr : build fb r with
        | none => simp [hbr] at hb
        | some v =>
          obtain ⟨ps', c', r''⟩ := v
          simp only [hbr, Option.some.injEq, Prod.mk.injEq] at hb
          obtain ⟨rfl, rfl, rfl⟩ := hb
          simp only [List.cons_append, capsOK] at hok
          obtain ⟨closed', h2, hcl'⟩ := ih r ps' c' _ hbr n E hok
            { ptr with insts := ptr.insts.push (.brace (b0 : Int) (e0 : Int)) } hcap hcl
          refine ⟨closed', ?_, by simpa [capCount] using hcl'⟩
          exact compile_step (Tok.pat (.bal b0 e0)) ps' ptr _ n n E (.bal b0 e0) c'
            (by simp [Tok.pat, compilePat, pure, Except.pure]) (by simp only [emitToks]; exact push_eq _ _)
            (by intro idx b; simp [emitToks]) (by simp [capCount]) (Nat.le_refl _) closed' h2
      | ref d =>
        simp only [build] at hb
        cases hbr : build fb r with
        | none => simp [hbr] at hb
        | some v =>
          obtain ⟨ps', c', r''⟩ := v
          simp only [hbr, Option.some.injEq, Prod.mk.injEq] at hb
          obtain ⟨rfl, rfl, rfl⟩ := hb
          simp only [List.cons_append, capsOK, Bool.and_eq_true, decide_eq_true_eq, Bool.not_eq_true', List.contains_eq_mem,
            decide_eq_false_iff_not] at hok
          obtain ⟨⟨⟨hd49, hdn⟩, hdE⟩, hokr⟩ := hok
          have hmem := hcl (d - 49) hdn hdE
          have hidx : (((d : Int) - 48) * 2).toNat = 2 * (d - 49 + 1) := by omega
          have hge : (d : Int) - 48 ≥ 0 := by omega
          have hp1 : compilePat (Tok.pat (.ref d)) ptr = .ok { ptr with insts := ptr.insts.push (.number ((d : Int) - 48)) } := by
            simp only [Tok.pat, compilePat, hidx, List.contains_eq_mem, hmem, decide_true, hge, and_self, if_true, pure,
              Except.pure]
          obtain ⟨closed', h2, hcl'⟩ := ih r ps' c' _ hbr n E hokr
            { ptr with insts := ptr.insts.push (.number ((d : Int) - 48)) } hcap hcl
          refine ⟨closed', ?_, by simpa [capCount] using hcl'⟩
          exact compile_step (Tok.pat (.ref d)) ps' ptr _ n n E (.ref d) c' hp1 (by simp only [emitToks]; exact push_eq _ _)
            (by intro idx b; simp [emitToks]) (by simp [capCount]) (Nat.le_refl _) closed' h2
      | opn =>
        simp only [build] at hb
        cases hbr : build fb r with
        | none => simp [hbr] at hb
        | some v =>
          obtain ⟨inner, cin, rin⟩ := v
          rw [hbr] at hb
          cases rin with
          | nil => simp at hb
          | cons t0 r2 =>
            cases t0 with
            | cls =>
              simp only at hb
              cases hb2 : build fb r2 with
              | none => simp [hb2] at hb
              | some w =>
                obtain ⟨ps2, c2, r3⟩ := w
                simp only [hb2, Option.some.injEq, Prod.mk.injEq] at hb
                obtain ⟨rfl, rfl, rfl⟩ := hb
                obtain ⟨f1, f2, f3⟩ := build_facts fb r inner cin _ hbr
                obtain ⟨g1, g2, g3⟩ := build_facts fb r2 ps2 c2 _ hb2
                simp only [List.cons_append, List.append_assoc, capsOK, Bool.and_eq_true, decide_eq_true_eq] at hok
                obtain ⟨hn32, hok1⟩ := hok
                -- the inner sequence
                have hcl1 : ClosedRel ptr.closed (n + 1) (n :: E) := by
                  intro l hl hE
                  simp only [List.mem_cons, not_or] at hE
                  exact hcl l (by omega) hE.2
                obtain ⟨cl2, hi, hcl2⟩ := ih r inner cin _ hbr (n + 1) (n :: E)
                  (by rw [g1] at *; simpa using hok1)
                  { ptr with capture := ptr.capture + 2, insts := ptr.insts.push (.save ptr.capture) }
                  (by simp only [hcap]; omega) hcl1
                have hok2 := f3 (n + 1) (n :: E) _ hok1
                simp only [capsOK] at hok2
                -- after the `)`
                have hcl3 : ClosedRel (ptr.capture :: cl2) (n + 1 + capCount cin) E := by
                  intro l hl hE
                  by_cases hln : l = n
                  · subst hln; rw [hcap]; simp
                  · exact List.mem_cons_of_mem _ (hcl2 l hl (by simp only [List.mem_cons, not_or]; exact ⟨hln, hE⟩))
                obtain ⟨cl4, hi2, hcl4⟩ := ih r2 ps2 c2 _ hb2 (n + 1 + capCount cin) E hok2
                  (IPtr.mk (((ptr.insts.push (.save ptr.capture)).toList ++
                        emitToks (n + 1) (n :: E) (ptr.insts.push (.save ptr.capture)).size cin).toArray.push
                        (.save (ptr.capture + 1)))
                    (2 * (n + 1 + capCount cin + 1)) (ptr.capture :: cl2)) rfl hcl3
                have hcc : capCount (Tok.opn :: cin ++ Tok.cls :: c2) = 1 + capCount cin + capCount c2 := by
                  rw [show Tok.opn :: cin ++ Tok.cls :: c2 = [Tok.opn] ++ (cin ++ ([Tok.cls] ++ c2)) by simp,
                    capCount_append, capCount_append, capCount_append]
                  simp [capCount]; omega
                refine ⟨cl4, ?_, by
                  rw [hcc, show n + (1 + capCount cin + capCount c2) = n + 1 + capCount cin + capCount c2 by omega]
                  exact hcl4⟩
                simp only [compileSeq, compilePat, bind, Except.bind, hi, pure, Except.pure, hi2, hcc]
                refine congrArg Except.ok ?_
                have hcapture : 2 * (n + 1 + capCount cin + capCount c2 + 1) = 2 * (n + (1 + capCount cin + capCount c2) + 1) := by
                  omega
                rw [hcapture]
                congr 1
                apply Array.ext'
                simp [emitToks, f2, hcap]
                refine ⟨by omega, ?_⟩
                congr 1
                omega
            | _ => simp at hb

end GLua.PmProofs
