/-
  C14, `vm_eq_reference` with captures — the relation between the reference's capture list (`ms->capture[]`:
  closed / position / unfinished entries) and the Model's capture array (`pos<<1 | isPosition`, two slots per
  capture), how the reference's `capture_to_close` relates to the static stack of open captures, and the two byte
  loops (`%b`, back-references).
-/
import GLua.Proofs.PmCap
import GLua.Proofs.PmVm

namespace GLua.PmProofs
open GLua.Pm GLua.LuaPattern

set_option linter.unusedSimpArgs false
set_option linter.unusedVariables false

/-! ### the stack of unfinished captures -/
def isUnf : Cap → Bool
  | .unfinished _ => true
  | _ => false

/-- indices of the unfinished captures, innermost (largest) first -/
def unfStack : List Cap → List Nat
  | [] => []
  | c :: r => (unfStack r).map (· + 1) ++ (if isUnf c then [0] else [])

theorem unfStack_append (caps : List Cap) (c : Cap) :
    unfStack (caps ++ [c]) = (if isUnf c then [caps.length] else []) ++ unfStack caps := by
  induction caps with
  | nil => simp [unfStack]
  | cons x r ih =>
    simp only [List.cons_append, unfStack, ih, List.map_append, List.length_cons]
    cases isUnf c <;> simp

theorem closeCap_none (s : Nat) : ∀ (caps : List Cap), unfStack caps = [] → closeCap s caps = none := by
  intro caps
  induction caps with
  | nil => intro _; rfl
  | cons c r ih =>
    intro h
    simp only [unfStack, List.append_eq_nil_iff, List.map_eq_nil_iff] at h
    simp only [closeCap, ih h.1]
    cases c with
    | unfinished i => simp [isUnf] at h
    | closed _ _ => rfl
    | position _ => rfl

/-- `capture_to_close` finds the top of the static stack -/
theorem closeCap_stack (s : Nat) : ∀ (caps : List Cap) (j : Nat) (E : List Nat), unfStack caps = j :: E →
    ∃ init, caps[j]? = some (.unfinished init) ∧ closeCap s caps = some (caps.set j (.closed init (s - init))) ∧
      unfStack (caps.set j (.closed init (s - init))) = E := by
  intro caps
  induction caps with
  | nil => intro j E h; simp [unfStack] at h
  | cons c r ih =>
    intro j E h
    simp only [unfStack] at h
    cases hr : unfStack r with
    | nil =>
      rw [hr] at h
      simp only [List.map_nil, List.nil_append] at h
      cases c with
      | unfinished i =>
        simp only [isUnf, if_true, List.cons.injEq] at h
        obtain ⟨rfl, rfl⟩ := h
        refine ⟨i, rfl, ?_, ?_⟩
        · simp [closeCap, closeCap_none s r hr]
        · simp [unfStack, hr, isUnf]
      | closed _ _ => simp [isUnf] at h
      | position _ => simp [isUnf] at h
    | cons j' E' =>
      rw [hr] at h
      simp only [List.map_cons, List.cons_append, List.cons.injEq] at h
      obtain ⟨rfl, rfl⟩ := h
      obtain ⟨init, h1, h2, h3⟩ := ih j' E' hr
      refine ⟨init, by simpa using h1, ?_, ?_⟩
      · simp [closeCap, h2]
      · simp [unfStack, h3]

theorem unf_mem_stack : ∀ (caps : List Cap) (l init : Nat), caps[l]? = some (.unfinished init) → l ∈ unfStack caps := by
  intro caps
  induction caps with
  | nil => intro l init h; simp at h
  | cons c r ih =>
    intro l init h
    cases l with
    | zero =>
      simp only [List.getElem?_cons_zero, Option.some.injEq] at h
      subst h
      simp [unfStack, isUnf]
    | succ l =>
      simp only [List.getElem?_cons_succ] at h
      have := ih l init h
      simp only [unfStack, List.mem_append, List.mem_map]
      exact Or.inl ⟨l, this, rfl⟩

/-! ### the capture array -/
theorem pushZeros_get (m : Caps) (k i : Nat) (v : Nat) (h : m[i]? = some v) : (pushZeros m k)[i]? = some v := by
  induction k generalizing m with
  | zero => exact h
  | succ k ih =>
    apply ih
    have hlt : i < m.size := by
      rcases Nat.lt_or_ge i m.size with h1 | h1
      · exact h1
      · simp [Array.getElem?_eq_none h1] at h
    rw [Array.getElem?_push_lt hlt]
    rw [Array.getElem?_eq_getElem hlt] at h
    exact h

theorem growTo_get (m : Caps) (n i v : Nat) (h : m[i]? = some v) : (growTo m n)[i]? = some v :=
  pushZeros_get m _ i v h

theorem growTo_size_eq (m : Caps) (n : Nat) : (growTo m n).size = max m.size n := by
  unfold growTo; rw [pushZeros_size]; omega

theorem setCapture_get_ne (m : Caps) (n sp i v : Nat) (h : m[i]? = some v) (hne : i ≠ n) :
    (setCapture m n sp).1[i]? = some v := by
  unfold setCapture
  simp only
  rw [Array.getElem?_setIfInBounds_ne (by omega)]
  exact growTo_get m _ i v h

theorem setCapture_get_eq (m : Caps) (n sp : Nat) : (setCapture m n sp).1[n]? = some (sp * 2) := by
  unfold setCapture
  simp only
  have := growTo_size' m (n + 1)
  rw [Array.getElem?_setIfInBounds_self_of_lt (by omega)]

theorem setCapture_size_eq (m : Caps) (n sp : Nat) : (setCapture m n sp).1.size = max m.size (n + 1) := by
  unfold setCapture
  simp only [Array.size_setIfInBounds]
  exact growTo_size_eq m _

theorem addPos_get_ne (m : Caps) (n p i v : Nat) (h : m[i]? = some v) (h1 : i ≠ n) (h2 : i ≠ n + 1) :
    (addPosCapture m n p)[i]? = some v := by
  unfold addPosCapture
  simp only
  rw [Array.getElem?_setIfInBounds_ne (by omega), Array.getElem?_setIfInBounds_ne (by omega)]
  exact growTo_get m _ i v h

theorem addPos_get_0 (m : Caps) (n p : Nat) : (addPosCapture m n p)[n]? = some (p * 2 + 1) := by
  unfold addPosCapture
  simp only
  have := growTo_size' m (n + 2)
  rw [Array.getElem?_setIfInBounds_ne (by omega), Array.getElem?_setIfInBounds_self_of_lt (by omega)]

theorem addPos_get_1 (m : Caps) (n p : Nat) : (addPosCapture m n p)[n + 1]? = some (p * 2 + 1) := by
  unfold addPosCapture
  simp only
  have := growTo_size' m (n + 2)
  rw [Array.getElem?_setIfInBounds_self_of_lt (by simp only [Array.size_setIfInBounds]; omega)]

theorem addPos_size_eq (m : Caps) (n p : Nat) : (addPosCapture m n p).size = max m.size (n + 2) := by
  unfold addPosCapture
  simp only [Array.size_setIfInBounds]
  exact growTo_size_eq m _

/-- one entry of the reference's capture list against the two slots of the Model's array -/
def CapRel (srcSize : Nat) (m : Caps) (i : Nat) : Cap → Prop
  | .closed init len => m[2 * i + 2]? = some (init * 2) ∧ m[2 * i + 3]? = some ((init + len) * 2) ∧ init + len ≤ srcSize
  | .position init => m[2 * i + 2]? = some ((init + 1) * 2 + 1) ∧ m[2 * i + 3]? = some ((init + 1) * 2 + 1)
  | .unfinished init => m[2 * i + 2]? = some (init * 2)

/-- the capture array carries the reference's capture list (slot 0 = start of the attempt) -/
def Rel (srcSize s0 : Nat) (caps : List Cap) (m : Caps) : Prop :=
  m[0]? = some (s0 * 2) ∧ ∀ i c, caps[i]? = some c → CapRel srcSize m i c

/-- every unfinished capture started at or before `sp` -/
def UnfLE (caps : List Cap) (sp : Nat) : Prop := ∀ (i init : Nat), caps[i]? = some (Cap.unfinished init) → init ≤ sp

theorem UnfLE.mono {caps : List Cap} {a b : Nat} (h : UnfLE caps a) (hab : a ≤ b) : UnfLE caps b :=
  fun i init hi => Nat.le_trans (h i init hi) hab

theorem CapRel.of_agree {srcSize : Nat} {m m' : Caps} {i : Nat} {c : Cap} (h : CapRel srcSize m i c)
    (h2 : ∀ v, m[2 * i + 2]? = some v → m'[2 * i + 2]? = some v)
    (h3 : ∀ v, m[2 * i + 3]? = some v → m'[2 * i + 3]? = some v) : CapRel srcSize m' i c := by
  cases c with
  | closed init len => exact ⟨h2 _ h.1, h3 _ h.2.1, h.2.2⟩
  | position init => exact ⟨h2 _ h.1, h3 _ h.2⟩
  | unfinished init => exact h2 _ h

theorem Rel.prefix {srcSize s0 : Nat} {caps : List Cap} {x : List Cap} {m : Caps} (h : Rel srcSize s0 (caps ++ x) m) :
    Rel srcSize s0 caps m := by
  refine ⟨h.1, fun i c hi => h.2 i c ?_⟩
  have hlt : i < caps.length := by
    rcases Nat.lt_or_ge i caps.length with h1 | h1
    · exact h1
    · simp [List.getElem?_eq_none h1] at hi
  rw [List.getElem?_append_left hlt]; exact hi

theorem get_lt {caps : List Cap} {i : Nat} {c : Cap} (h : caps[i]? = some c) : i < caps.length := by
  rcases Nat.lt_or_ge i caps.length with h1 | h1
  · exact h1
  · simp [List.getElem?_eq_none h1] at h

/-- `(`: the start slot of the new capture is written -/
theorem Rel.open_ {srcSize s0 : Nat} {caps : List Cap} {m : Caps} (h : Rel srcSize s0 caps m) (sp : Nat) :
    Rel srcSize s0 (caps ++ [.unfinished sp]) (setCapture m (2 * (caps.length + 1)) sp).1 := by
  refine ⟨setCapture_get_ne m _ sp 0 _ h.1 (by omega), fun i c hi => ?_⟩
  by_cases hlt : i < caps.length
  · rw [List.getElem?_append_left hlt] at hi
    exact (h.2 i c hi).of_agree (fun v hv => setCapture_get_ne m _ sp _ v hv (by omega))
      (fun v hv => setCapture_get_ne m _ sp _ v hv (by omega))
  · have hi' := get_lt hi
    simp only [List.length_append, List.length_cons, List.length_nil] at hi'
    have : i = caps.length := by omega
    subst this
    simp only [List.getElem?_append_right (Nat.le_refl _), Nat.sub_self, List.getElem?_cons_zero, Option.some.injEq] at hi
    subst hi
    show (setCapture m (2 * (caps.length + 1)) sp).1[2 * caps.length + 2]? = some (sp * 2)
    have : 2 * caps.length + 2 = 2 * (caps.length + 1) := by omega
    rw [this]; exact setCapture_get_eq m _ sp

/-- undoing a save: slot `n` belongs to no finished half of `caps` -/
theorem Rel.restore {srcSize s0 : Nat} {caps caps1 : List Cap} {m2 : Caps} {n old : Nat}
    (h : Rel srcSize s0 caps1 m2) (hn : n ≠ 0)
    (hsub : ∀ i c, caps[i]? = some c → ∃ c1, caps1[i]? = some c1 ∧
      (∀ m, CapRel srcSize m i c1 → ∀ m' : Caps, (∀ k v, k ≠ n → m[k]? = some v → m'[k]? = some v) → CapRel srcSize m' i c)) :
    Rel srcSize s0 caps (m2.setIfInBounds n old) := by
  have keep : ∀ k v, k ≠ n → m2[k]? = some v → (m2.setIfInBounds n old)[k]? = some v := by
    intro k v hk hv
    rw [Array.getElem?_setIfInBounds_ne (by omega)]; exact hv
  refine ⟨keep 0 _ (by omega) h.1, fun i c hi => ?_⟩
  obtain ⟨c1, hc1, hf⟩ := hsub i c hi
  exact hf m2 (h.2 i c1 hc1) _ keep

/-- `()` -/
theorem Rel.pos_ {srcSize s0 : Nat} {caps : List Cap} {m : Caps} (h : Rel srcSize s0 caps m) (sp : Nat) :
    Rel srcSize s0 (caps ++ [.position sp]) (addPosCapture m (2 * (caps.length + 1)) (sp + 1)) := by
  refine ⟨addPos_get_ne m _ _ 0 _ h.1 (by omega) (by omega), fun i c hi => ?_⟩
  by_cases hlt : i < caps.length
  · rw [List.getElem?_append_left hlt] at hi
    exact (h.2 i c hi).of_agree (fun v hv => addPos_get_ne m _ _ _ v hv (by omega) (by omega))
      (fun v hv => addPos_get_ne m _ _ _ v hv (by omega) (by omega))
  · have hi' := get_lt hi
    simp only [List.length_append, List.length_cons, List.length_nil] at hi'
    have : i = caps.length := by omega
    subst this
    simp only [List.getElem?_append_right (Nat.le_refl _), Nat.sub_self, List.getElem?_cons_zero, Option.some.injEq] at hi
    subst hi
    have e2 : 2 * caps.length + 2 = 2 * (caps.length + 1) := by omega
    have e3 : 2 * caps.length + 3 = 2 * (caps.length + 1) + 1 := by omega
    show _ ∧ _
    rw [e2, e3]
    exact ⟨addPos_get_0 m _ _, addPos_get_1 m _ _⟩

/-- `)`: the end slot of capture `j` is written -/
theorem Rel.close_ {srcSize s0 : Nat} {caps : List Cap} {m : Caps} (h : Rel srcSize s0 caps m) (j init sp : Nat)
    (hj : caps[j]? = some (.unfinished init)) (hle : init ≤ sp) (hsp : sp ≤ srcSize) :
    Rel srcSize s0 (caps.set j (.closed init (sp - init))) (setCapture m (2 * j + 3) sp).1 := by
  refine ⟨setCapture_get_ne m _ sp 0 _ h.1 (by omega), fun i c hi => ?_⟩
  by_cases hij : i = j
  · subst hij
    have hlt := get_lt hj
    rw [List.getElem?_set_self hlt] at hi
    injection hi with hi; subst hi
    have h0 := h.2 i _ hj
    refine ⟨setCapture_get_ne m _ sp _ _ h0 (by omega), ?_, by omega⟩
    have : init + (sp - init) = sp := by omega
    rw [this]; exact setCapture_get_eq m _ sp
  · rw [List.getElem?_set_ne (by omega)] at hi
    exact (h.2 i c hi).of_agree (fun v hv => setCapture_get_ne m _ sp _ v hv (by omega))
      (fun v hv => setCapture_get_ne m _ sp _ v hv (by omega))

/-! ### `%b`: the Model's loop is `matchbalance` -/
theorem brace_eq (src : Array Nat) (b e : Nat) : ∀ (n sp cont : Nat), 1 ≤ cont → (b = e → cont = 1) →
    braceLoop src (b : Int) (e : Int) n sp (cont : Int) = balanceLoop src b e n sp cont := by
  intro n
  induction n with
  | zero => intro sp cont _ _; rfl
  | succ n ih =>
    intro sp cont h1 hbe
    unfold braceLoop balanceLoop
    cases hs : src[sp]? with
    | none => rfl
    | some ch =>
      simp only
      by_cases he : ch = e
      · subst he
        have e1 : ((ch : Int) = (ch : Int)) := rfl
        simp only [e1, if_true]
        by_cases hc : cont = 1
        · subst hc; simp
        · have hne : ¬ ((cont : Int) - 1 = 0) := by omega
          have hbne : b ≠ ch := fun e => hc (hbe e)
          have hbi : ¬ ((ch : Int) = (b : Int)) := by omega
          simp only [hne, if_false, hc, hbi]
          have := ih (sp + 1) (cont - 1) (by omega) (fun e => absurd e hbne)
          have hcast : ((cont - 1 : Nat) : Int) = (cont : Int) - 1 := by omega
          rw [hcast] at this
          exact this
      · have hei : ¬ ((ch : Int) = (e : Int)) := by omega
        have hc0 : ¬ ((cont : Int) = 0) := by omega
        simp only [hei, if_false, hc0, he]
        by_cases hb : ch = b
        · subst hb
          have e1 : ((ch : Int) = (ch : Int)) := rfl
          simp only [e1, if_true]
          have := ih (sp + 1) (cont + 1) (by omega) (fun e => absurd e he)
          have hcast : ((cont + 1 : Nat) : Int) = (cont : Int) + 1 := by omega
          rw [hcast] at this
          exact this
        · have hbi : ¬ ((ch : Int) = (b : Int)) := by omega
          simp only [hbi, if_false, hb]
          exact ih (sp + 1) cont h1 hbe

/-! ### back-references: the Model's comparison loop is `memcmp` -/
theorem backref_eq (src : Array Nat) (lo sp : Nat) : ∀ (n i : Nat),
    backrefLoop src lo sp n i = memEq src (lo + i) (sp + i) n := by
  intro n
  induction n with
  | zero => intro i; rfl
  | succ n ih =>
    intro i
    unfold backrefLoop memEq
    have e1 : i + sp = sp + i := Nat.add_comm _ _
    rw [e1]
    cases ha : src[sp + i]? with
    | none =>
      cases hb : src[lo + i]? <;> simp
    | some a =>
      cases hb : src[lo + i]? with
      | none => simp
      | some b' =>
        simp only
        by_cases hab : a = b'
        · subst hab
          simp only [if_true, beq_self_eq_true, Option.isSome_some, Bool.and_self, Bool.true_and]
          have := ih (i + 1)
          simp only [← Nat.add_assoc] at this
          exact this
        · have : (some b' == some a) = false := by simp; exact fun e => hab e.symm
          simp [hab, this]

theorem memEq_bound (src : Array Nat) : ∀ (n a b : Nat), memEq src a b n = true → n = 0 ∨ (a + n ≤ src.size ∧ b + n ≤ src.size) := by
  intro n
  induction n with
  | zero => intro a b _; exact Or.inl rfl
  | succ n ih =>
    intro a b h
    unfold memEq at h
    simp only [Bool.and_eq_true] at h
    obtain ⟨⟨h1, h2⟩, h3⟩ := h
    right
    have ha : a < src.size := by
      rcases Nat.lt_or_ge a src.size with h' | h'
      · exact h'
      · simp [Array.getElem?_eq_none h'] at h2
    have hb : b < src.size := by
      rcases Nat.lt_or_ge b src.size with h' | h'
      · exact h'
      · rw [Array.getElem?_eq_none h', Array.getElem?_eq_getElem ha] at h1; simp at h1
    rcases ih (a + 1) (b + 1) h3 with h0 | ⟨h4, h5⟩
    · subst h0; omega
    · omega

end GLua.PmProofs
