/-
  C14 — `string.gsub`, the replacement of ONE match: the Model's strGsubStr (flagScanner state machine), strGsubTable
  and strGsubFunc against the reference's `add_s` / `add_value`, given that the capture array carries the reference's
  capture list (`PostC`).
-/
import GLua.Proofs.PmCapGmatch

namespace GLua.PmProofs
open GLua.Pm GLua.LuaPattern

set_option linter.unusedSimpArgs false
set_option linter.unusedVariables false

/-! ### flagScanner.Next, as a function of what is left of the replacement string -/
def nextRes : List Nat → FlagScanner → FlagScanner × Nat × Bool
  | [], fs => ({ fs with changeFlag := false }, 0, true)
  | [c], fs => ({ fs with changeFlag := false, pos := fs.pos + 1 }, c, false)
  | c :: y :: r, fs =>
    if c = 37 then
      if y = 37 then nextRes r { fs with changeFlag := false, hasFlag := false, buf := fs.buf ++ [37], pos := fs.pos + 2 }
      else ({ fs with changeFlag := true, hasFlag := true, pos := fs.pos + 1 }, c, false)
    else ({ fs with changeFlag := false, pos := fs.pos + 1 }, c, false)

theorem drop_get {α : Type} (l : List α) (k : Nat) (c : α) (r : List α) (h : l.drop k = c :: r) :
    ∃ hlt : k < l.length, l[k] = c ∧ l.drop (k + 1) = r := by
  have hlt : k < l.length := by
    rcases Nat.lt_or_ge k l.length with h1 | h1
    · exact h1
    · rw [List.drop_eq_nil_of_le h1] at h; cases h
  refine ⟨hlt, ?_, ?_⟩
  · have h0 : (l.drop k)[0]? = some c := by rw [h]; rfl
    rw [List.getElem?_drop] at h0
    simp only [Nat.add_zero, List.getElem?_eq_getElem hlt, Option.some.injEq] at h0
    exact h0
  · have : l.drop (k + 1) = (l.drop k).drop 1 := by simp [List.drop_drop]
    rw [this, h]; rfl

theorem next_spec : ∀ (n : Nat) (rem : List Nat), rem.length = n → ∀ (fs : FlagScanner) (F : Nat),
    fs.str.toList.drop fs.pos = rem → fs.pos ≤ fs.str.size → F ≥ rem.length + 1 →
    FlagScanner.next F fs = .ok (nextRes rem fs) := by
  intro n
  induction n using Nat.strongRecOn with
  | _ n ih =>
    intro rem hn fs F hrem hpos hF
    obtain ⟨f, rfl⟩ : ∃ f, F = f + 1 := ⟨F - 1, by omega⟩
    have hlen : fs.str.size - fs.pos = rem.length := by
      have := congrArg List.length hrem
      simpa using this
    match rem, hn, hrem, hF, hlen with
    | [], _, hrem, _, hlen =>
      have he : fs.pos = fs.str.size := by simp at hlen; omega
      unfold FlagScanner.next
      simp [he, nextRes, pure, Except.pure]
    | [c], _, hrem, _, hlen =>
      obtain ⟨hlt, hget, _⟩ := drop_get _ _ _ _ hrem
      simp only [Array.length_toList] at hlt
      have hne : ¬ (fs.pos = fs.str.size) := by omega
      have hgc : fs.str[fs.pos]? = some c := by
        rw [Array.getElem?_eq_getElem hlt]; simpa using hget
      have hend : fs.pos + 1 = fs.str.size := by simp at hlen; omega
      unfold FlagScanner.next
      simp only [hne, if_false, hgc]
      by_cases hc : c = 37
      · have h1 : ¬ (fs.pos + 1 < fs.str.size ∧ fs.str[fs.pos + 1]? = some 37) := by omega
        simp [hc, h1, hend, nextRes, pure, Except.pure]
      · simp [hc, nextRes, pure, Except.pure]
    | c :: y :: r, hn, hrem, hF, hlen =>
      obtain ⟨hlt, hget, hrem1⟩ := drop_get _ _ _ _ hrem
      obtain ⟨hlt1, hget1, hrem2⟩ := drop_get _ _ _ _ hrem1
      simp only [Array.length_toList] at hlt hlt1
      have hne : ¬ (fs.pos = fs.str.size) := by omega
      have hgc : fs.str[fs.pos]? = some c := by
        rw [Array.getElem?_eq_getElem hlt]; simpa using hget
      have hgy : fs.str[fs.pos + 1]? = some y := by
        rw [Array.getElem?_eq_getElem hlt1]; simpa using hget1
      unfold FlagScanner.next
      simp only [hne, if_false, hgc]
      by_cases hc : c = 37
      · by_cases hy : y = 37
        · have h1 : fs.pos + 1 < fs.str.size ∧ fs.str[fs.pos + 1]? = some 37 := ⟨hlt1, by rw [hgy, hy]⟩
          simp only [List.length_cons] at hF hn
          have := ih r.length (by omega) r rfl
            { fs with changeFlag := false, hasFlag := false, buf := fs.buf ++ [37], pos := fs.pos + 2 } f
            (by simpa using hrem2) (by simp only; omega) (by omega)
          simp only [hc, if_true, h1, and_self, this, nextRes, hy]
        · have h1 : ¬ (fs.pos + 1 < fs.str.size ∧ fs.str[fs.pos + 1]? = some 37) := by
            rw [hgy]; intro h; injection h.2 with h2; exact hy h2
          have h2 : fs.pos + 1 ≠ fs.str.size := by omega
          simp [hc, h1, h2, nextRes, hy, pure, Except.pure]
      · simp [hc, nextRes, pure, Except.pure]

/-! ### strGsubStr's text for one match, as a function of the replacement string -/
def mrepl (str : Array Nat) (m : Caps) : List Nat → M (List Nat)
  | [] => pure []
  | [x] => pure [x]
  | x :: y :: r =>
    if x = 37 then
      if y = 37 then do pure (37 :: (← mrepl str m r))
      else if 48 ≤ y ∧ y ≤ 57 then do
        let s ← capturedString m str (2 * (y - 48))
        pure (s ++ (← mrepl str m r))
      else do pure (37 :: y :: (← mrepl str m r))
    else do pure (x :: (← mrepl str m (y :: r)))

def mapBuf (buf : List Nat) (x : M (List Nat)) : M (List Nat) :=
  match x with
  | .ok l => .ok (buf ++ l)
  | .error e => .error e

theorem gsubStrOne_spec (str repl : Array Nat) (m : Caps) : ∀ (n : Nat) (rem : List Nat), rem.length = n →
    ∀ (sc : FlagScanner) (g : Nat), sc.str = repl → sc.hasFlag = false → repl.toList.drop sc.pos = rem →
      sc.pos ≤ repl.size → g ≥ rem.length + 1 →
      gsubStrOne str repl m g sc = mapBuf sc.buf (mrepl str m rem) := by
  intro n
  induction n using Nat.strongRecOn with
  | _ n ih =>
    intro rem hn sc g hstr hflag hrem hpos hg
    obtain ⟨g', rfl⟩ : ∃ g', g = g' + 1 := ⟨g - 1, by omega⟩
    have hlen : repl.size - sc.pos = rem.length := by
      have := congrArg List.length hrem
      simpa using this
    have hnext := next_spec rem.length rem rfl sc (repl.size + 2) (by rw [hstr]; exact hrem) (by rw [hstr]; exact hpos)
      (by omega)
    match rem, hn, hrem, hg, hlen, hnext with
    | [], _, _, _, _, hnext =>
      unfold gsubStrOne
      simp [hnext, nextRes, bind, Except.bind, mrepl, mapBuf, pure, Except.pure]
    | [c], hn, hrem, hg, hlen, hnext =>
      obtain ⟨hlt, _, hrem1⟩ := drop_get _ _ _ _ hrem
      simp only [Array.length_toList] at hlt
      simp only [List.length_cons, List.length_nil] at hg
      have hrec := ih 0 (by simp at hn; omega) [] rfl
        { sc with changeFlag := false, hasFlag := false, pos := sc.pos + 1, buf := sc.buf ++ [c] } g' hstr rfl
        (by simpa using hrem1) (by simp only; omega) (by simp; omega)
      unfold gsubStrOne
      simp only [hnext, nextRes, bind, Except.bind, Bool.false_eq_true, if_false, Bool.not_false, if_true, hflag]
      rw [hrec]
      simp [mrepl, mapBuf, pure, Except.pure]
    | c :: y :: r, hn, hrem, hg, hlen, hnext =>
      obtain ⟨hlt, _, hrem1⟩ := drop_get _ _ _ _ hrem
      obtain ⟨hlt1, hget1, hrem2⟩ := drop_get _ _ _ _ hrem1
      simp only [Array.length_toList] at hlt hlt1
      simp only [List.length_cons] at hg hn hlen
      by_cases hc : c = 37
      · by_cases hy : y = 37
        · -- `%%`: the scanner swallows the pair and goes on inside the same call
          subst hc hy
          have hnext' := next_spec r.length r rfl
            { sc with changeFlag := false, hasFlag := false, buf := sc.buf ++ [37], pos := sc.pos + 2 } (repl.size + 2)
            (by simp only; rw [hstr]; simpa using hrem2) (by simp only; rw [hstr]; omega) (by omega)
          have hrec := ih r.length (by omega) r rfl
            { sc with changeFlag := false, hasFlag := false, buf := sc.buf ++ [37], pos := sc.pos + 2 } (g' + 1) hstr rfl
            (by simpa using hrem2) (by simp only; omega) (by omega)
          have hunf : gsubStrOne str repl m (g' + 1) sc = gsubStrOne str repl m (g' + 1)
              { sc with changeFlag := false, hasFlag := false, buf := sc.buf ++ [37], pos := sc.pos + 2 } := by
            conv => lhs; unfold gsubStrOne
            conv => rhs; unfold gsubStrOne
            simp only [hnext, nextRes, if_true, hnext']
          rw [hunf, hrec]
          simp only [mrepl, if_true, bind, Except.bind, pure, Except.pure, mapBuf]
          cases mrepl str m r <;> simp [List.append_assoc]
        · -- `%y`: two calls of Next
          subst hc
          obtain ⟨g'', rfl⟩ : ∃ g'', g' = g'' + 1 := ⟨g' - 1, by omega⟩
          let sc1 : FlagScanner := { sc with changeFlag := true, hasFlag := true, pos := sc.pos + 1 }
          have hnext1 := next_spec (y :: r).length (y :: r) rfl sc1 (repl.size + 2)
            (by show List.drop (sc.pos + 1) sc.str.toList = _; rw [hstr]; exact hrem1)
            (by simp only [sc1, hstr]; omega) (by simp only [List.length_cons]; omega)
          have hn1 : nextRes (y :: r) sc1 = ({ sc1 with changeFlag := false, pos := sc1.pos + 1 }, y, false) := by
            cases r with
            | nil => simp [nextRes]
            | cons z r' => simp [nextRes, hy]
          unfold gsubStrOne
          simp only [hnext, nextRes, if_true, hy, if_false, bind, Except.bind, Bool.false_eq_true, Bool.not_true]
          unfold gsubStrOne
          simp only [hnext1, hn1, bind, Except.bind, Bool.false_eq_true, if_false, Bool.not_false, if_true, sc1]
          by_cases hd : 48 ≤ y ∧ y ≤ 57
          · simp only [hd, and_self, if_true, mrepl, hy, if_false, bind, Except.bind]
            cases hcs : capturedString m str (2 * (y - 48)) with
            | error e => simp [mapBuf]
            | ok txt =>
              have hrec := ih r.length (by omega) r rfl
                { sc with changeFlag := false, hasFlag := false, pos := sc.pos + 1 + 1, buf := sc.buf ++ txt } g'' hstr rfl
                (by simpa [Nat.add_assoc] using hrem2) (by simp only; omega) (by omega)
              simp only []
              rw [hrec]
              simp only [pure, Except.pure, mapBuf]
              cases mrepl str m r <;> simp [List.append_assoc]
          · have hrec := ih r.length (by omega) r rfl
              { sc with changeFlag := false, hasFlag := false, pos := sc.pos + 1 + 1, buf := sc.buf ++ [37, y] } g'' hstr rfl
              (by simpa [Nat.add_assoc] using hrem2) (by simp only; omega) (by omega)
            simp only [hd, if_false, mrepl, hy, bind, Except.bind]
            rw [hrec]
            simp only [pure, Except.pure, mapBuf]
            cases mrepl str m r <;> simp [List.append_assoc]
      · have hrec := ih (y :: r).length (by simp only [List.length_cons]; omega) (y :: r) rfl
          { sc with changeFlag := false, hasFlag := false, pos := sc.pos + 1, buf := sc.buf ++ [c] } g' hstr rfl
          (by simpa using hrem1) (by simp only; omega) (by simp only [List.length_cons]; omega)
        unfold gsubStrOne
        simp only [hnext, nextRes, hc, if_false, bind, Except.bind, Bool.false_eq_true, Bool.not_false, if_true, hflag]
        rw [hrec]
        simp only [mrepl, hc, if_false, bind, Except.bind, pure, Except.pure, mapBuf]
        cases mrepl str m (y :: r) <;> simp [List.append_assoc]

/-! ### `%0`–`%9` in a replacement string: capturedString against `add_s` -/

/-- what `add_s` appends for `%y` -/
def specHere (src : Array Nat) (m : Match) (y : Nat) : Res Bytes :=
  if !isDigit y then .ok [y]
  else if y = 48 then .ok (slice src m.s (m.e - m.s))
  else
    let i := y - 49
    if i ≥ m.caps.length then
      (if i = 0 then .ok (slice src m.s (m.e - m.s)) else .error "invalid capture index")
    else match m.caps[i]? with
      | some c => (match oneCapture src c with | .ok v => .ok (capValBytes v) | .error e => .error e | .fail => .fail)
      | none => .error "invalid capture index"

/-- how `add_s` joins the text for `%y` with the rest -/
def combine (h r : Res Bytes) : Res Bytes :=
  match h, r with
  | .ok a, .ok b => .ok (a ++ b)
  | .error e, _ => .error e
  | _, .error e => .error e
  | _, _ => .fail

theorem addS_esc (src : Array Nat) (m : Match) (y : Nat) (r : Bytes) :
    addS src m (37 :: y :: r) = combine (specHere src m y) (addS src m r) := by
  rw [addS]
  simp only [if_true]
  unfold combine specHere
  rfl

/-- both ok with the same value, or both an error -/
def SameRes {α : Type} (x : M α) (y : Res α) : Prop :=
  match y with
  | .ok v => x = .ok v
  | .error _ => ∃ e, x = .error e
  | .fail => False

theorem capRel_bytes (src : Array Nat) (md : Caps) (k : Nat) (c : Cap) (hk : 1 ≤ k) (hsz : 2 * k + 1 < md.size)
    (hc : CapRel src.size md (k - 1) c) (hu : isUnf c = false) :
    capturedString md src (2 * k) = .ok (capValBytes (capVal src c)) := by
  have e2 : 2 * (k - 1) + 2 = 2 * k := by omega
  have e3 : 2 * (k - 1) + 3 = 2 * k + 1 := by omega
  have h1 : ¬ (2 * k > 2 ∧ 2 * k ≥ md.size) := by omega
  have h2 : ¬ (2 * k ≥ md.size ∧ 2 * k = 2) := by omega
  have h3 : 2 * k < md.size := by omega
  cases c with
  | unfinished i => simp [isUnf] at hu
  | closed i len =>
    obtain ⟨g2, g3, hle⟩ := hc
    rw [e2] at g2; rw [e3] at g3
    have heven : ¬ ((i * 2) % 2 = 1) := by omega
    have e1 : i * 2 / 2 = i := by omega
    have e4 : (i + len) * 2 / 2 = i + len := by omega
    have hcond : i ≤ i + len ∧ i + len ≤ src.size := ⟨by omega, hle⟩
    have e5 : i + len - i = len := by omega
    simp only [capturedString, h1, h2, if_false, bind, Except.bind, pure, Except.pure, isPosCapture, capture, g2, g3, heven,
      decide_false, Bool.false_eq_true, e1, e4, substr, hcond, and_self, if_true, e5, capVal, capValBytes, slice]
  | position i =>
    obtain ⟨g2, g3⟩ := hc
    rw [e2] at g2
    have hodd : ((i + 1) * 2 + 1) % 2 = 1 := by omega
    have e1 : ((i + 1) * 2 + 1) / 2 = i + 1 := by omega
    simp only [capturedString, h1, h2, if_false, bind, Except.bind, pure, Except.pure, isPosCapture, capture, g2, hodd,
      decide_true, if_true, e1, capVal, capValBytes, natBytes, natDigits]

theorem whole_string (src : Array Nat) (md : Caps) (mt : Match) (T : Nat) (hp : PostC src.size mt.s T mt.e mt.caps md) :
    capturedString md src 0 = .ok (slice src mt.s (mt.e - mt.s)) := by
  have hsize := hp.size_eq
  obtain ⟨hrel, h1, _, _, _, hse, hes⟩ := hp
  have e0 : mt.s * 2 / 2 = mt.s := by omega
  have e1 : mt.e * 2 / 2 = mt.e := by omega
  have heven : ¬ ((mt.s * 2) % 2 = 1) := by omega
  have hcond : mt.s ≤ mt.e ∧ mt.e ≤ src.size := ⟨hse, hes⟩
  have h0 : ¬ (0 ≥ md.size ∧ (0 : Nat) = 2) := by omega
  have h1' : md[0 + 1]? = some (mt.e * 2) := h1
  simp [capturedString, h0, isPosCapture, capture, hrel.1, h1', heven, e0, e1, substr, hcond, slice,
    bind, Except.bind, pure, Except.pure]

theorem capString_eq (src : Array Nat) (md : Caps) (mt : Match) (T : Nat) (hp : PostC src.size mt.s T mt.e mt.caps md)
    (y : Nat) (hy : 48 ≤ y ∧ y ≤ 57) :
    SameRes (capturedString md src (2 * (y - 48))) (specHere src mt y) := by
  have hsize := hp.size_eq
  have hwhole := whole_string src md mt T hp
  obtain ⟨hrel, h1, _, hlen, hst, hse, hes⟩ := hp
  have hno := noUnf_of_stack mt.caps hst
  have hdig : isDigit y = true := by simp [isDigit]; omega
  unfold specHere
  simp only [hdig, Bool.not_true, Bool.false_eq_true, if_false]
  by_cases h48 : y = 48
  · subst h48
    simp only [if_true, SameRes]
    exact hwhole
  · simp only [h48, if_false]
    by_cases hge : y - 49 ≥ mt.caps.length
    · simp only [hge, if_true]
      by_cases h0 : y - 49 = 0
      · -- `%1` without captures is the whole match
        have hy49 : y = 49 := by omega
        subst hy49
        have hc0 : mt.caps.length = 0 := by omega
        simp only [if_true, SameRes]
        have hsz2 : md.size = 2 := by rw [hsize, hc0]
        have hidx : 2 * (49 - 48) = 2 := rfl
        rw [hidx]
        have g1 : ¬ (2 > 2 ∧ 2 ≥ md.size) := by omega
        have g2 : (2 ≥ md.size ∧ (2 : Nat) = 2) := by omega
        have := hwhole
        unfold capturedString at this ⊢
        simp only [g1, g2, if_false, and_self, if_true] at this ⊢
        have g0 : ¬ (0 > 2 ∧ 0 ≥ md.size) := by omega
        have g0' : ¬ (0 ≥ md.size ∧ (0 : Nat) = 2) := by omega
        simp only [g0, g0', if_false] at this
        simpa using this
      · simp only [h0, if_false, SameRes]
        have g1 : 2 * (y - 48) > 2 ∧ 2 * (y - 48) ≥ md.size := by omega
        exact ⟨.lua "invalid capture index", by simp [capturedString, g1, throw, throwThe, MonadExceptOf.throw, bind, Except.bind]⟩
    · simp only [hge, if_false]
      have hlt : y - 49 < mt.caps.length := by omega
      rw [List.getElem?_eq_getElem hlt]
      simp only
      have hc := hrel.2 (y - 49) _ (List.getElem?_eq_getElem hlt)
      have hu := hno (y - 49) _ (List.getElem?_eq_getElem hlt)
      have hk : y - 48 - 1 = y - 49 := by omega
      have := capRel_bytes src md (y - 48) mt.caps[y - 49] (by omega) (by omega) (by rw [hk]; exact hc) hu
      cases hcc : mt.caps[y - 49] with
      | unfinished i => rw [hcc] at hu; simp [isUnf] at hu
      | closed i len => rw [hcc] at this; simp only [oneCapture, SameRes]; exact this
      | position i => rw [hcc] at this; simp only [oneCapture, SameRes]; exact this

/-! ### the replacement string: strGsubStr's text = `add_s`, outside the two guarded shapes -/

/-- the replacement string is inside the compared domain: every `%` is followed by a digit or `%`
    (`%x` otherwise is the open finding C14-gsub-repl-percent-nondigit; a trailing single `%` is undefined in 5.1) -/
def replOK : List Nat → Bool
  | [] => true
  | [x] => x != 37
  | x :: y :: r => if x = 37 then (isDigit y || y == 37) && replOK r else replOK (y :: r)

def consRes (c : Nat) : Res Bytes → Res Bytes
  | .ok b => .ok (c :: b)
  | e => e

theorem SameRes.cons {x : M (List Nat)} {y : Res Bytes} (c : Nat) (h : SameRes x y) :
    SameRes (do pure (c :: (← x)) : M (List Nat)) (consRes c y) := by
  cases y with
  | ok v => simp only [SameRes] at h ⊢; rw [h]; rfl
  | error e => obtain ⟨e', he⟩ := h; exact ⟨e', by rw [he]; rfl⟩
  | fail => exact h

theorem mrepl_addS (src : Array Nat) (md : Caps) (mt : Match) (T : Nat) (hp : PostC src.size mt.s T mt.e mt.caps md) :
    ∀ (n : Nat) (b : List Nat), b.length = n → replOK b = true → SameRes (mrepl src md b) (addS src mt b) := by
  intro n
  induction n using Nat.strongRecOn with
  | _ n ih =>
    intro b hn hok
    match b, hn, hok with
    | [], _, _ => simp [mrepl, addS, SameRes, pure, Except.pure]
    | [x], _, hok =>
      simp only [replOK, bne_iff_ne, ne_eq] at hok
      simp [mrepl, addS, hok, SameRes, pure, Except.pure]
    | x :: y :: r, hn, hok =>
      simp only [List.length_cons] at hn
      by_cases hx : x = 37
      · subst hx
        simp only [replOK, if_true, Bool.and_eq_true, Bool.or_eq_true, beq_iff_eq] at hok
        have ihr := ih r.length (by omega) r rfl hok.2
        rw [addS_esc]
        by_cases hy : y = 37
        · subst hy
          have hh : specHere src mt 37 = .ok [37] := by simp [specHere, isDigit]
          rw [hh]
          simp only [mrepl, if_true, combine]
          cases hr : addS src mt r with
          | ok v => rw [hr] at ihr; simp only [SameRes] at ihr ⊢; rw [ihr]; try rfl
          | error e => rw [hr] at ihr; obtain ⟨e', he⟩ := ihr; exact ⟨e', by rw [he]; rfl⟩
          | fail => rw [hr] at ihr; exact ihr
        · have hd : isDigit y = true := by
            rcases hok.1 with h | h
            · exact h
            · exact absurd h hy
          have hd' : 48 ≤ y ∧ y ≤ 57 := by simpa [isDigit] using hd
          have hcs := capString_eq src md mt T hp y hd'
          simp only [mrepl, if_true, hy, if_false, hd', and_self, bind, Except.bind, combine]
          cases hh : specHere src mt y with
          | fail => rw [hh] at hcs; exact absurd hcs (by simp [SameRes])
          | error e =>
            rw [hh] at hcs
            obtain ⟨e', he⟩ := hcs
            rw [he]
            exact ⟨e', rfl⟩
          | ok a =>
            rw [hh] at hcs
            simp only [SameRes] at hcs
            rw [hcs]
            cases hr : addS src mt r with
            | ok v => rw [hr] at ihr; simp only [SameRes] at ihr ⊢; rw [ihr]; try rfl
            | error e => rw [hr] at ihr; obtain ⟨e', he⟩ := ihr; exact ⟨e', by rw [he]⟩
            | fail => rw [hr] at ihr; exact ihr
      · simp only [replOK, hx, if_false] at hok
        have ihr := ih (y :: r).length (by simp only [List.length_cons]; omega) (y :: r) rfl hok
        have ha : addS src mt (x :: y :: r) = consRes x (addS src mt (y :: r)) := by
          simp only [addS, hx, if_false]
          cases addS src mt (y :: r) <;> rfl
        rw [ha]
        simp only [mrepl, hx, if_false]
        exact ihr.cons x

/-! ### the values a table / function replacement sees -/

/-- `push_captures(ms, s, e)` with the whole match as default -/
def argsOf (src : Array Nat) (mt : Match) : List CapVal :=
  if mt.caps = [] then [.str (slice src mt.s (mt.e - mt.s))] else mt.caps.map (capVal src)

theorem spec_args (src : Array Nat) (mt : Match) (hst : unfStack mt.caps = []) :
    pushCaptures src mt.caps mt.s mt.e true = .ok (argsOf src mt) := by
  have hno := noUnf_of_stack mt.caps hst
  by_cases hc : mt.caps = []
  · simp [pushCaptures, hc, argsOf]
  · simp only [pushCaptures, hc, false_and, if_false, argsOf]
    exact allCaptures_eq src mt.caps hno

/-- the key of strGsubTable: the first capture, or the whole match -/
theorem table_key (src : Array Nat) (md : Caps) (mt : Match) (T : Nat) (hp : PostC src.size mt.s T mt.e mt.caps md) :
    ∃ key rest, argsOf src mt = key :: rest ∧
      (do
        if (← isPosCapture md (if md.size > 2 then 2 else 0)) then
          pure (CapVal.pos (← capture md (if md.size > 2 then 2 else 0)))
        else pure (CapVal.str (← substr src (← capture md (if md.size > 2 then 2 else 0))
          (← capture md ((if md.size > 2 then 2 else 0) + 1)))) : M CapVal) = .ok key := by
  have hsize := hp.size_eq
  obtain ⟨hrel, h1, _, hlen, hst, hse, hes⟩ := hp
  have hno := noUnf_of_stack mt.caps hst
  by_cases hc : mt.caps = []
  · have hsz : ¬ (md.size > 2) := by rw [hsize, hc]; simp
    have e0 : mt.s * 2 / 2 = mt.s := by omega
    have e1 : mt.e * 2 / 2 = mt.e := by omega
    have heven : ¬ ((mt.s * 2) % 2 = 1) := by omega
    have hcond : mt.s ≤ mt.e ∧ mt.e ≤ src.size := ⟨hse, hes⟩
    have h1' : md[0 + 1]? = some (mt.e * 2) := h1
    refine ⟨.str (slice src mt.s (mt.e - mt.s)), [], by simp [argsOf, hc], ?_⟩
    simp only [hsz, if_false, isPosCapture, capture, hrel.1, h1', bind, Except.bind, pure, Except.pure, heven, decide_false,
      Bool.false_eq_true, e0, e1, substr, hcond, and_self, if_true, slice]
  · have hpos : 0 < mt.caps.length := by
      cases hcl : mt.caps with
      | nil => exact absurd hcl hc
      | cons _ _ => simp
    have hsz : md.size > 2 := by rw [hsize]; omega
    have hc0 := hrel.2 0 mt.caps[0] (List.getElem?_eq_getElem hpos)
    have hu := hno 0 mt.caps[0] (List.getElem?_eq_getElem hpos)
    refine ⟨capVal src mt.caps[0], (mt.caps.drop 1).map (capVal src), ?_, ?_⟩
    · simp only [argsOf, hc, if_false]
      rw [← List.map_cons]
      congr 1
      have := List.drop_eq_getElem_cons hpos
      simpa using this
    · simp only [hsz, if_true]
      cases hcc : mt.caps[0] with
      | unfinished i => rw [hcc] at hu; simp [isUnf] at hu
      | closed i len =>
        rw [hcc] at hc0
        obtain ⟨g2, g3, hle⟩ := hc0
        have g3' : md[2 + 1]? = some ((i + len) * 2) := g3
        have g2' : md[2]? = some (i * 2) := g2
        have heven : ¬ ((i * 2) % 2 = 1) := by omega
        have e1 : i * 2 / 2 = i := by omega
        have e4 : (i + len) * 2 / 2 = i + len := by omega
        have hcond : i ≤ i + len ∧ i + len ≤ src.size := ⟨by omega, hle⟩
        have e5 : i + len - i = len := by omega
        simp only [isPosCapture, capture, g2', g3', bind, Except.bind, pure, Except.pure, heven, decide_false,
          Bool.false_eq_true, if_false, e1, e4, substr, hcond, and_self, if_true, e5, capVal, slice]
      | position i =>
        rw [hcc] at hc0
        obtain ⟨g2, g3⟩ := hc0
        have g2' : md[2]? = some ((i + 1) * 2 + 1) := g2
        have hodd : ((i + 1) * 2 + 1) % 2 = 1 := by omega
        have e1 : ((i + 1) * 2 + 1) / 2 = i + 1 := by omega
        simp only [isPosCapture, capture, g2', bind, Except.bind, pure, Except.pure, hodd, decide_true, if_true, e1, capVal]

/-- the arguments strGsubFunc passes: every capture (strings through capturedString), or the whole match -/
theorem funcArgs_eq (src : Array Nat) (s0 : Nat) (cs : List Cap) (m : Caps) (hrel : Rel src.size s0 cs m)
    (hsize : m.size = 2 * (cs.length + 1)) (hno : ∀ (i : Nat) (c : Cap), cs[i]? = some c → isUnf c = false) :
    ∀ (d j fuel : Nat), cs.length - j = d → j ≤ cs.length → fuel ≥ d + 1 →
      funcArgs src m fuel (2 * j + 2) = .ok ((cs.drop j).map (capVal src)) := by
  intro d
  induction d with
  | zero =>
    intro j fuel hd hj hf
    have hje : j = cs.length := by omega
    subst hje
    obtain ⟨f, rfl⟩ : ∃ f, fuel = f + 1 := ⟨fuel - 1, by omega⟩
    have : ¬ (2 * cs.length + 2 < m.size) := by omega
    simp [funcArgs, this, pure, Except.pure]
  | succ d ih =>
    intro j fuel hd hj hf
    obtain ⟨f, rfl⟩ : ∃ f, fuel = f + 1 := ⟨fuel - 1, by omega⟩
    have hjlt : j < cs.length := by omega
    have hlt : 2 * j + 2 < m.size := by omega
    have hrest := ih (j + 1) f (by omega) (by omega) (by omega)
    have hdrop : cs.drop j = cs[j] :: cs.drop (j + 1) := by
      rw [List.drop_eq_getElem_cons hjlt]
    have hc := hrel.2 j cs[j] (List.getElem?_eq_getElem hjlt)
    have hun := hno j cs[j] (List.getElem?_eq_getElem hjlt)
    have e2 : 2 * j + 2 + 2 = 2 * (j + 1) + 2 := by omega
    have hbytes := capRel_bytes src m (j + 1) cs[j] (by omega) (by omega) (by simpa using hc) hun
    have e3 : 2 * (j + 1) = 2 * j + 2 := by omega
    rw [e3] at hbytes
    unfold funcArgs
    simp only [hlt, if_true, bind, Except.bind, e2, hrest, hdrop, List.map_cons]
    cases hcj : cs[j] with
    | unfinished i => rw [hcj] at hun; simp [isUnf] at hun
    | closed i len =>
      rw [hcj] at hc hbytes
      have heven : ¬ ((i * 2) % 2 = 1) := by omega
      simp only [isPosCapture, hc.1, pure, Except.pure, heven, decide_false, Bool.false_eq_true, if_false, hbytes, capVal,
        capValBytes]
    | position i =>
      rw [hcj] at hc
      have hodd : ((i + 1) * 2 + 1) % 2 = 1 := by omega
      have e1 : ((i + 1) * 2 + 1) / 2 = i + 1 := by omega
      simp only [isPosCapture, capture, hc.1, pure, Except.pure, hodd, decide_true, if_true, e1, capVal]

theorem model_args (src : Array Nat) (md : Caps) (mt : Match) (T : Nat) (hp : PostC src.size mt.s T mt.e mt.caps md) :
    (if md.size > 2 then funcArgs src md md.size 2
     else (do pure [CapVal.str (← capturedString md src 0)] : M (List CapVal))) = .ok (argsOf src mt) := by
  have hsize := hp.size_eq
  have hwhole := whole_string src md mt T hp
  obtain ⟨hrel, h1, _, hlen, hst, hse, hes⟩ := hp
  have hno := noUnf_of_stack mt.caps hst
  by_cases hc : mt.caps = []
  · have hsz : ¬ (md.size > 2) := by rw [hsize, hc]; simp
    simp [hsz, hwhole, argsOf, hc, bind, Except.bind, pure, Except.pure]
  · have hpos : 0 < mt.caps.length := by
      cases hcl : mt.caps with
      | nil => exact absurd hcl hc
      | cons _ _ => simp
    have hsz : md.size > 2 := by rw [hsize]; omega
    have := funcArgs_eq src mt.s mt.caps md hrel hsize hno mt.caps.length 0 md.size (by omega) (by omega) (by omega)
    simp only [Nat.mul_zero, Nat.zero_add, List.drop_zero] at this
    simp only [hsz, if_true, this, argsOf, hc, if_false]

end GLua.PmProofs
