/-
  C14, gmatch / gsub on the fragment with captures — the scan: `Find`'s loop over the Model's VM against the
  reference's scan over `do_match`, assembled from `findLoop_scan` (scan_loop_spec) and the per-attempt theorem
  `fragC_pipeline'`: same match positions in the same order, related capture arrays, spans ordered and disjoint.
-/
import GLua.Proofs.PmCapFind
import GLua.Proofs.PmScan

namespace GLua.PmProofs
open GLua.Pm GLua.LuaPattern

set_option linter.unusedSimpArgs false
set_option linter.unusedVariables false

/-- two scan results that agree on the spans, with related payloads; `pos` = where the scan (re)started -/
def ScanRel {β1 β2 : Type} (Q : Nat → Nat → β1 → β2 → Prop) :
    Nat → List (Nat × Nat × β1) → List (Nat × Nat × β2) → Prop
  | _, [], [] => True
  | pos, (s, e, c1) :: r1, (s', e', c2) :: r2 =>
    s = s' ∧ e = e' ∧ pos ≤ s ∧ Q s e c1 c2 ∧ ScanRel Q (if e > s then e else s + 1) r1 r2
  | _, _, _ => False

theorem ScanRel.mono {β1 β2 : Type} {Q : Nat → Nat → β1 → β2 → Prop} :
    ∀ {l1 : List (Nat × Nat × β1)} {l2 : List (Nat × Nat × β2)} {a b : Nat}, a ≤ b → ScanRel Q b l1 l2 → ScanRel Q a l1 l2
  | [], [], _, _, _, _ => trivial
  | (s, e, c1) :: r1, (s', e', c2) :: r2, a, b, hab, h => by
    obtain ⟨h1, h2, h3, h4, h5⟩ := h
    exact ⟨h1, h2, by omega, h4, h5⟩
  | [], _ :: _, _, _, _, h => by cases h
  | _ :: _, [], _, _, _, h => by cases h

/-- the reference scan over two matchers that agree position by position -/
theorem scanAllWith_rel {β1 β2 : Type} (mt1 : Nat → Res (Nat × β1)) (mt2 : Nat → Res (Nat × β2)) (len : Nat) (anchor : Bool)
    (Q : Nat → Nat → β1 → β2 → Prop)
    (h : ∀ s, s ≤ len → match mt2 s with
        | .ok (e, c2) => ∃ c1, mt1 s = .ok (e, c1) ∧ Q s e c1 c2
        | .fail => mt1 s = .fail
        | .error _ => False) :
    ∀ (fuel s maxn : Nat), ∃ l1 l2, scanAllWith mt1 len anchor fuel s maxn = .ok l1 ∧
      scanAllWith mt2 len anchor fuel s maxn = .ok l2 ∧ ScanRel Q s l1 l2 := by
  intro fuel
  induction fuel with
  | zero => intro s maxn; exact ⟨[], [], by simp [scanAllWith], by simp [scanAllWith], trivial⟩
  | succ fuel ih =>
    intro s maxn
    cases maxn with
    | zero => exact ⟨[], [], by simp [scanAllWith], by simp [scanAllWith], trivial⟩
    | succ maxn =>
      by_cases hs : s > len
      · exact ⟨[], [], by simp [scanAllWith, hs], by simp [scanAllWith, hs], trivial⟩
      · have hq := h s (by omega)
        cases h2 : mt2 s with
        | error e => rw [h2] at hq; exact absurd hq (by simp)
        | fail =>
          rw [h2] at hq
          simp only at hq
          cases anchor with
          | true => exact ⟨[], [], by simp [scanAllWith, hs, hq], by simp [scanAllWith, hs, h2], trivial⟩
          | false =>
            obtain ⟨l1, l2, e1, e2, hr⟩ := ih (s + 1) (maxn + 1)
            exact ⟨l1, l2, by simp [scanAllWith, hs, hq, e1], by simp [scanAllWith, hs, h2, e2], hr.mono (by omega)⟩
        | ok v =>
          obtain ⟨e, c2⟩ := v
          rw [h2] at hq
          obtain ⟨c1, h1, hQ⟩ := hq
          cases anchor with
          | true =>
            exact ⟨[(s, e, c1)], [(s, e, c2)], by simp [scanAllWith, hs, h1], by simp [scanAllWith, hs, h2],
              rfl, rfl, Nat.le_refl _, hQ, trivial⟩
          | false =>
            obtain ⟨l1, l2, e1, e2, hr⟩ := ih (if e > s then e else s + 1) maxn
            exact ⟨(s, e, c1) :: l1, (s, e, c2) :: l2, by simp [scanAllWith, hs, h1, e1], by simp [scanAllWith, hs, h2, e2],
              rfl, rfl, Nat.le_refl _, hQ, hr⟩

/-- Model matches (capture arrays) against reference matches: related by `PostC`, ordered from `pos` on -/
def MatchRel (srcSize T : Nat) : Nat → List Caps → List Match → Prop
  | _, [], [] => True
  | pos, md :: r1, mt :: r2 =>
    pos ≤ mt.s ∧ PostC srcSize mt.s T mt.e mt.caps md ∧ MatchRel srcSize T (if mt.e > mt.s then mt.e else mt.s + 1) r1 r2
  | _, _, _ => False

theorem MatchRel.length {srcSize T : Nat} : ∀ {pos : Nat} {l1 : List Caps} {l2 : List Match},
    MatchRel srcSize T pos l1 l2 → l1.length = l2.length
  | _, [], [], _ => rfl
  | _, _ :: r1, _ :: r2, h => by simp [MatchRel.length h.2.2]
  | _, [], _ :: _, h => by cases h
  | _, _ :: _, [], h => by cases h

theorem matchRel_of_scanRel {srcSize T : Nat} :
    ∀ (pos : Nat) (l1 : List (Nat × Nat × Caps)) (l2 : List (Nat × Nat × List Cap)),
      ScanRel (fun s e (m : Caps) (cs : List Cap) => PostC srcSize s T e cs m) pos l1 l2 →
      MatchRel srcSize T pos (l1.map (·.2.2)) (l2.map fun m => ⟨m.1, m.2.1, m.2.2⟩)
  | _, [], [], _ => trivial
  | pos, (s, e, c1) :: r1, (s', e', c2) :: r2, h => by
    obtain ⟨rfl, rfl, h3, h4, h5⟩ := h
    exact ⟨h3, h4, matchRel_of_scanRel _ r1 r2 h5⟩
  | _, [], _ :: _, h => by cases h
  | _, _ :: _, [], h => by cases h

/-- number of matches the reference scan may return for `Find`'s `limit` argument -/
def maxOfL (limit : Int) (len : Nat) : Nat := if limit < 0 then len + 2 else limit.toNat

/-- **the scan on the fragment**: `pm.Find(pat, src, 0, limit)` (limit ≠ 0) returns capture arrays that correspond one by
    one to the matches of the reference scan -/
theorem fragC_scan (pat : List Nat) (hfrag : inFragmentC0 pat = true) (src : Array Nat) (limit : Int) (hl : limit ≠ 0)
    (hsz : src.size + pat.length + 3 ≤ maxRecursionLevel) :
    ∃ (T : Nat) (mds : List Caps) (ms : List Match),
      find maxRecursionLevel pat.toArray src 0 limit = .ok mds ∧
      scanAll src (splitAnchor pat).2 (splitAnchor pat).1 (src.size + 2) 0 (maxOfL limit src.size) = .ok ms ∧
      MatchRel src.size T 0 mds ms := by
  obtain ⟨sq, insts, T, hparse, hhead, hcomp, hrun⟩ := fragC_pipeline' pat hfrag
  refine ⟨T, ?_⟩
  let run : Nat → M (Bool × Nat × Caps) := fun sp => vm src insts maxRecursionLevel (vmFuel src insts) 0 sp 1 #[]
  have hrel := scanAllWith_rel (toRes run) (fun s => doMatch src s (splitAnchor pat).2) src.size (splitAnchor pat).1
    (fun s e (m : Caps) (cs : List Cap) => PostC src.size s T e cs m)
    (by
      intro s hs
      have hr := hrun maxRecursionLevel src s hs hsz
      unfold RunAgreesC at hr
      cases hd : doMatch src s (splitAnchor pat).2 with
      | error e => rw [hd] at hr; exact hr
      | fail =>
        rw [hd] at hr
        obtain ⟨sp', m', hv⟩ := hr
        show toRes run s = .fail
        simp only [toRes, run, hv]
      | ok v =>
        obtain ⟨e, cs⟩ := v
        rw [hd] at hr
        obtain ⟨m', hv, hp⟩ := hr
        exact ⟨m', by simp only [toRes, run, hv], hp⟩)
    (src.size + 2) 0 (maxOfL limit src.size)
  obtain ⟨l1, l2, e1, e2, hsr⟩ := hrel
  have hfl := findLoop_scan run src.size limit (splitAnchor pat).1 hl (src.size + 2) 0 [] (maxOfL limit src.size)
    (by unfold maxOfL; split <;> omega)
    (by intro h0; unfold maxOfL; simp only [List.length_nil]; split <;> omega)
    (by intro h0; unfold maxOfL; simp only [h0, if_true]; omega)
  rw [e1] at hfl
  have hfind : findLoop run src.size limit (splitAnchor pat).1 (src.size + 2) 0 [] = .ok (l1.map (·.2.2)) := by
    cases hx : findLoop run src.size limit (splitAnchor pat).1 (src.size + 2) 0 [] with
    | error e => rw [hx] at hfl; simp [collapseM, collapseR, prepend] at hfl
    | ok l => rw [hx] at hfl; simp only [collapseM, collapseR, prepend, List.nil_append, Res.ok.injEq] at hfl; rw [hfl]
  refine ⟨l1.map (·.2.2), l2.map fun m => ⟨m.1, m.2.1, m.2.2⟩, ?_, ?_, matchRel_of_scanRel 0 l1 l2 hsr⟩
  · simp only [find, hparse, hcomp, bind, Except.bind, hhead]
    exact hfind
  · simp only [scanAll, e2]

end GLua.PmProofs
