/-
  C14, `vm_eq_reference` with captures — the reference side: lstrlib's `match` on the bytes of a pattern of the
  fragment is the recursion `refToks` on its tokens.
-/
import GLua.Proofs.PmCap
import GLua.Proofs.PmFragSpec

namespace GLua.PmProofs
open GLua.Pm GLua.LuaPattern

set_option linter.unusedSimpArgs false
set_option linter.unusedVariables false

/-- inversion of one step of the tokenizer -/
theorem tokToks_inv (f c : Nat) (r : List Nat) (toks : List Tok) (tail : Bool)
    (h : tokToks (f + 1) (c :: r) = some (toks, tail)) :
    (c = 36 ∧ r = [] ∧ toks = [] ∧ tail = true) ∨
    (¬ (c = 36 ∧ r = []) ∧
     ((c = 40 ∧ ∃ r' ts, r = 41 :: r' ∧ tokToks f r' = some (ts, tail) ∧ toks = .pos :: ts) ∨
      (c = 40 ∧ (∀ r', r ≠ 41 :: r') ∧ ∃ ts, tokToks f r = some (ts, tail) ∧ toks = .opn :: ts) ∨
      (c = 41 ∧ ∃ ts, tokToks f r = some (ts, tail) ∧ toks = .cls :: ts) ∨
      (c = 37 ∧ ∃ b e r' ts, r = 98 :: b :: e :: r' ∧ True ∧ True ∧ tokToks f r' = some (ts, tail) ∧ toks = .bal b e :: ts) ∨
      (c = 37 ∧ ∃ d r' ts, r = d :: r' ∧ isDigit d = true ∧ d ≠ 48 ∧ tokToks f r' = some (ts, tail) ∧ toks = .ref d :: ts) ∨
      (∃ cls r1 ts, tokCls (c :: r) = some (cls, r1) ∧ tokToks f (tokQ r1).2 = some (ts, tail) ∧
        toks = .item ⟨cls, (tokQ r1).1⟩ :: ts))) := by
  unfold tokToks at h
  by_cases hd : c = 36 ∧ r = []
  · simp only [hd, and_self, if_true, Option.some.injEq, Prod.mk.injEq] at h
    exact Or.inl ⟨hd.1, hd.2, h.1.symm, h.2.symm⟩
  · simp only [hd, if_false] at h
    refine Or.inr ⟨hd, ?_⟩
    by_cases h40 : c = 40
    · simp only [h40, if_true] at h
      split at h
      · rename_i r'
        cases ht : tokToks f r' with
        | none => simp [ht] at h
        | some v =>
          obtain ⟨ts, t⟩ := v
          simp only [ht, Option.some.injEq, Prod.mk.injEq] at h
          obtain ⟨rfl, rfl⟩ := h
          exact Or.inl ⟨h40, r', ts, rfl, ht, rfl⟩
      · rename_i hno
        cases ht : tokToks f r with
        | none => simp [ht] at h
        | some v =>
          obtain ⟨ts, t⟩ := v
          simp only [ht, Option.some.injEq, Prod.mk.injEq] at h
          obtain ⟨rfl, rfl⟩ := h
          exact Or.inr (Or.inl ⟨h40, fun r' e => hno r' e, ts, by first | exact ht | rfl, rfl⟩)
    · simp only [h40, if_false] at h
      by_cases h41 : c = 41
      · simp only [h41, if_true] at h
        cases ht : tokToks f r with
        | none => simp [ht] at h
        | some v =>
          obtain ⟨ts, t⟩ := v
          simp only [ht, Option.some.injEq, Prod.mk.injEq] at h
          obtain ⟨rfl, rfl⟩ := h
          exact Or.inr (Or.inr (Or.inl ⟨h41, ts, by first | exact ht | rfl, rfl⟩))
      · simp only [h41, if_false] at h
        by_cases hb : c = 37 ∧ r.head? = some 98
        · simp only [hb, and_self, if_true] at h
          split at h
          · rename_i x b e r'
            have hx : x = 98 := by simpa using hb.2
            subst hx
            cases ht : tokToks f r' with
            | none => simp [ht] at h
            | some v =>
              obtain ⟨ts, t⟩ := v
              simp only [ht, Option.some.injEq, Prod.mk.injEq] at h
              obtain ⟨rfl, rfl⟩ := h
              exact Or.inr (Or.inr (Or.inr (Or.inl ⟨hb.1, b, e, r', ts, rfl, trivial, trivial, ht, rfl⟩)))
          · cases h
        · simp only [hb, if_false] at h
          by_cases hdg : c = 37 ∧ (r.head?.map isDigit) = some true
          · simp only [hdg, and_self, if_true] at h
            cases r with
            | nil => simp at hdg
            | cons d r' =>
              simp only [List.headD_cons, List.drop_succ_cons, List.drop_zero] at h
              by_cases h48 : d = 48
              · simp [h48] at h
              · simp only [h48, if_false] at h
                cases ht : tokToks f r' with
                | none => simp [ht] at h
                | some v =>
                  obtain ⟨ts, t⟩ := v
                  simp only [ht, Option.some.injEq, Prod.mk.injEq] at h
                  obtain ⟨rfl, rfl⟩ := h
                  exact Or.inr (Or.inr (Or.inr (Or.inr (Or.inl ⟨hdg.1, d, r', ts, rfl, by simpa using hdg.2, h48, ht, rfl⟩))))
          · simp only [hdg, if_false] at h
            cases hc : tokCls (c :: r) with
            | none => simp [hc] at h
            | some v =>
              obtain ⟨cls, r1⟩ := v
              simp only [hc] at h
              cases ht : tokToks f (tokQ r1).2 with
              | none => simp [ht] at h
              | some w =>
                obtain ⟨ts, t⟩ := w
                simp only [ht, Option.some.injEq, Prod.mk.injEq] at h
                obtain ⟨rfl, rfl⟩ := h
                exact Or.inr (Or.inr (Or.inr (Or.inr (Or.inr ⟨cls, r1, ts, rfl, ht, rfl⟩))))

theorem tokToks_length : ∀ (ft : Nat) (bytes : List Nat) (toks : List Tok) (tail : Bool),
    tokToks ft bytes = some (toks, tail) → toks.length + 1 ≤ ft := by
  intro ft
  induction ft with
  | zero => intro bytes toks tail h; simp [tokToks] at h
  | succ ft ih =>
    intro bytes toks tail h
    cases bytes with
    | nil => simp [tokToks] at h; simp [h.1]
    | cons c r =>
      rcases tokToks_inv ft c r toks tail h with ⟨_, _, rfl, _⟩ | ⟨_, h⟩
      · simp
      · rcases h with ⟨_, r', ts, _, ht, rfl⟩ | ⟨_, _, ts, ht, rfl⟩ | ⟨_, ts, ht, rfl⟩ | ⟨_, b, e, r', ts, _, _, _, ht, rfl⟩ |
          ⟨_, d, r', ts, _, _, _, ht, rfl⟩ | ⟨cls, r1, ts, _, ht, rfl⟩
        all_goals
          have := ih _ _ _ ht
          simp only [List.length_cons]
          omega

/-- the item step of the reference over the bytes is `itemStep` -/
theorem stepF_itemStep (src : Array Nat) (cls : Cls) (s : Nat) (K : Nat → List Nat → Res (Nat × List Cap)) (r1 : List Nat) :
    stepF src cls s K r1 = itemStep src ⟨cls, (tokQ r1).1⟩ (fun s' => K s' (tokQ r1).2) s := by
  cases r1 with
  | nil =>
    have hq : tokQ [] = (.one, []) := rfl
    simp only [stepF, itemStep, hq]
  | cons q r2 =>
    by_cases h63 : q = 63
    · subst h63
      have hq : tokQ (63 :: r2) = (.opt, r2) := rfl
      simp only [stepF, itemStep, hq, orElse]
      by_cases hm : mOf src cls s = true <;> simp only [hm, if_true, if_false] <;>
        cases K (s + 1) r2 <;> rfl
    · by_cases h42 : q = 42
      · subst h42
        have hq : tokQ (42 :: r2) = (.star, r2) := rfl
        simp only [stepF, itemStep, hq]
      · by_cases h43 : q = 43
        · subst h43
          have hq : tokQ (43 :: r2) = (.plus, r2) := rfl
          simp only [stepF, itemStep, hq]
        · by_cases h45 : q = 45
          · subst h45
            have hq : tokQ (45 :: r2) = (.minus, r2) := rfl
            simp only [stepF, itemStep, hq]
          · have hq := tokQ_default q r2 ⟨h63, h42, h43, h45⟩
            rw [stepF_default _ _ _ _ q r2 ⟨h63, h42, h43, h45⟩]
            simp only [itemStep, hq]

theorem spec_toks (src : Array Nat) : ∀ (ft : Nat) (bytes : List Nat) (toks : List Tok) (tail : Bool),
    tokToks ft bytes = some (toks, tail) → ∀ (fuel : Nat) (caps : List Cap) (s : Nat), fuel ≥ toks.length + 1 →
      matchF src fuel caps s bytes = refToks src tail toks caps s := by
  intro ft
  induction ft with
  | zero => intro bytes toks tail h; simp [tokToks] at h
  | succ ft ih =>
    intro bytes toks tail h fuel caps s hf
    obtain ⟨f, rfl⟩ : ∃ f, fuel = f + 1 := ⟨fuel - 1, by omega⟩
    cases bytes with
    | nil =>
      simp only [tokToks, Option.some.injEq, Prod.mk.injEq] at h
      obtain ⟨rfl, rfl⟩ := h
      simp [matchF, refToks]
    | cons c r =>
      rcases tokToks_inv ft c r toks tail h with ⟨rfl, rfl, rfl, rfl⟩ | ⟨hd, h⟩
      · simp [matchF, refToks]
      · rcases h with ⟨rfl, r', ts, rfl, ht, rfl⟩ | ⟨rfl, hno, ts, ht, rfl⟩ | ⟨rfl, ts, ht, rfl⟩ |
          ⟨rfl, b, e, r', ts, rfl, _, _, ht, rfl⟩ | ⟨rfl, d, r', ts, rfl, hdig, h48, ht, rfl⟩ | ⟨cls, r1, ts, hc, ht, rfl⟩
        · -- `()`
          simp only [List.length_cons] at hf
          have ihr := fun caps s => ih _ _ _ ht f caps s (by omega)
          conv => lhs; unfold matchF
          simp only [if_true, refToks, ihr]
        · -- `(`
          simp only [List.length_cons] at hf
          have ihr := fun caps s => ih _ _ _ ht f caps s (by omega)
          conv => lhs; unfold matchF
          simp only [if_true, refToks]
          split
          · rfl
          · first
              | exact ihr _ _
              | (split
                 · rename_i r' heq; exact absurd heq (hno r')
                 · rw [ihr])
        · -- `)`
          simp only [List.length_cons] at hf
          have ihr := fun caps s => ih _ _ _ ht f caps s (by omega)
          conv => lhs; unfold matchF
          simp only [show ¬ ((41 : Nat) = 40) by decide, if_false, if_true, refToks]
          cases closeCap s caps with
          | none => rfl
          | some caps' => simp only [ihr]
        · -- `%bxy`
          simp only [List.length_cons] at hf
          have ihr := fun caps s => ih _ _ _ ht f caps s (by omega)
          conv => lhs; unfold matchF
          simp only [show ¬ ((37 : Nat) = 40) by decide, show ¬ ((37 : Nat) = 41) by decide, if_false, List.head?_cons,
            and_self, if_true, refToks]
          cases matchBalance src s b e with
          | none => rfl
          | some s' => simp only [ihr]
        · -- `%d`
          simp only [List.length_cons] at hf
          have ihr := fun caps s => ih _ _ _ ht f caps s (by omega)
          have hd98 : d ≠ 98 := by
            intro e; subst e; simp [isDigit] at hdig
          have hd102 : d ≠ 102 := by
            intro e; subst e; simp [isDigit] at hdig
          conv => lhs; unfold matchF
          simp only [show ¬ ((37 : Nat) = 40) by decide, show ¬ ((37 : Nat) = 41) by decide, if_false, List.head?_cons,
            Option.some.injEq, hd98, hd102, and_false, Option.map_some, hdig, and_self, if_true, List.headD_cons,
            List.drop_succ_cons, List.drop_zero, refToks]
          cases matchCapture src caps s d with
          | error e => rfl
          | fail => rfl
          | ok s' => simp only [ihr]
        · -- a single-character item
          simp only [List.length_cons] at hf
          have ihr := fun caps s => ih _ _ _ ht f caps s (by omega)
          rw [spec_step src f caps s c r cls r1 hc hd, stepF_itemStep]
          simp only [refToks, ihr]

end GLua.PmProofs
