/-
  C14, `vm_eq_reference` with captures — the simulation between the Model's VM on the program of a tokenized
  pattern with captures and the reference matcher `refToks`.

  `AgreesG Inv Post r out`: unless the VM ran out of fuel, it returns `true` with an array satisfying `Post` exactly when
  the reference succeeds (same end), and `false` with an array satisfying `Inv` when the reference fails; the
  reference raises no error.  `Inv` = the array carries the reference's capture list at entry (`Rel`, slots of
  unfinished/abandoned captures are unconstrained — that is why the Model need not undo position captures);
  `Post` = it carries the final capture list, slot 1 holds the end, and its size is exactly 2·(captures+1).
-/
import GLua.Proofs.PmCapRel
import GLua.Proofs.PmFragVm
import GLua.Proofs.PmFragFind

namespace GLua.PmProofs
open GLua.Pm GLua.LuaPattern

set_option linter.unusedSimpArgs false
set_option linter.unusedVariables false

def AgreesG (Inv : Caps → Prop) (Post : Nat → List Cap → Caps → Prop) (r : Res (Nat × List Cap))
    (out : M (Bool × Nat × Caps)) : Prop :=
  out = .error .fuel ∨
  match r with
  | .ok (e, cs) => ∃ m', out = .ok (true, e, m') ∧ Post e cs m'
  | .fail => ∃ sp' m', out = .ok (false, sp', m') ∧ Inv m'
  | .error _ => False

theorem AgreesG.weaken {Inv1 Inv0 : Caps → Prop} {Post : Nat → List Cap → Caps → Prop} {r : Res (Nat × List Cap)}
    {out : M (Bool × Nat × Caps)} (h : AgreesG Inv1 Post r out) (hw : ∀ m, Inv1 m → Inv0 m) : AgreesG Inv0 Post r out := by
  rcases h with he | h
  · exact Or.inl he
  · right
    cases r with
    | error e => exact h
    | ok v => exact h
    | fail =>
      obtain ⟨sp', m', hv, hm'⟩ := h
      exact ⟨sp', m', hv, hw m' hm'⟩

section steps
variable {src : Array Nat} {P : Array Inst} {cap : Nat} {Inv : Caps → Prop} {Post : Nat → List Cap → Caps → Prop}

theorem gchar {pc sp rec : Nat} {m : Caps} {c : Class} {cls : Cls} {r : Res (Nat × List Cap)}
    (hP : P[pc]? = some (.char c)) (hM : ∀ ch : Nat, c.Matches (ch : Int) = singleMatch ch cls)
    (hm : Inv m)
    (hk : mOf src cls sp = true → ∀ f, AgreesG Inv Post r (vm src P cap f (pc + 1) (sp + 1) rec m)) :
    ∀ fuel, AgreesG Inv Post (if mOf src cls sp = true then r else .fail) (vm src P cap fuel pc sp rec m) := by
  intro fuel
  cases fuel with
  | zero => exact Or.inl rfl
  | succ f =>
    unfold vm
    simp only [hP]
    unfold mOf at hk ⊢
    cases hs : src[sp]? with
    | none =>
      simp only [Bool.false_eq_true, if_false]
      exact Or.inr ⟨sp, m, rfl, hm⟩
    | some ch =>
      simp only [hs] at hk
      simp only [hM ch]
      by_cases h : singleMatch ch cls = true
      · simp only [h, if_true]
        exact hk h f
      · simp only [h, if_false]
        exact Or.inr ⟨sp, m, rfl, hm⟩

theorem gjmp {pc t sp rec : Nat} {m : Caps} {r : Res (Nat × List Cap)}
    (hP : P[pc]? = some (.jmp t))
    (hk : ∀ f, AgreesG Inv Post r (vm src P cap f t sp rec m)) :
    ∀ fuel, AgreesG Inv Post r (vm src P cap fuel pc sp rec m) := by
  intro fuel
  cases fuel with
  | zero => exact Or.inl rfl
  | succ f =>
    unfold vm
    simp only [hP]
    exact hk f

theorem gsplit {pc a b sp rec : Nat} {m : Caps} {r1 r2 : Res (Nat × List Cap)}
    (hP : P[pc]? = some (.split a b)) (hc : rec + 1 ≤ cap)
    (h1 : ∀ f, AgreesG Inv Post r1 (vm src P cap f a sp (rec + 1) m))
    (h2 : ∀ f m', Inv m' → AgreesG Inv Post r2 (vm src P cap f b sp rec m')) :
    ∀ fuel, AgreesG Inv Post (orElse r1 r2) (vm src P cap fuel pc sp rec m) := by
  intro fuel
  cases fuel with
  | zero => exact Or.inl rfl
  | succ f =>
    unfold vm
    have hc' : ¬ (rec + 1 > cap) := by omega
    simp only [hP, hc', if_false, bind, Except.bind]
    rcases h1 f with he | h
    · rw [he]; exact Or.inl rfl
    · cases r1 with
      | error e => exact absurd h (by simp)
      | ok v =>
        obtain ⟨e, cs⟩ := v
        obtain ⟨m', hv, hp⟩ := h
        rw [hv]
        simp only [orElse, if_true, pure, Except.pure]
        exact Or.inr ⟨m', rfl, hp⟩
      | fail =>
        obtain ⟨sp', m', hv, hm'⟩ := h
        rw [hv]
        simp only [orElse, Bool.false_eq_true, if_false]
        exact h2 f m' hm'

/-- `save n`: the callee runs with the slot written; on failure the slot is put back -/
theorem gsave {Inv1 : Caps → Prop} {pc n sp rec : Nat} {m : Caps} {r : Res (Nat × List Cap)}
    (hP : P[pc]? = some (.save n)) (hc : rec + 1 ≤ cap)
    (h1 : ∀ f, AgreesG Inv1 Post r (vm src P cap f (pc + 1) sp (rec + 1) (setCapture m n sp).1))
    (hrest : ∀ m2, Inv1 m2 → n < m2.size ∧ Inv (m2.setIfInBounds n (setCapture m n sp).2)) :
    ∀ fuel, AgreesG Inv Post r (vm src P cap fuel pc sp rec m) := by
  intro fuel
  cases fuel with
  | zero => exact Or.inl rfl
  | succ f =>
    unfold vm
    have hc' : ¬ (rec + 1 > cap) := by omega
    simp only [hP, hc', if_false, bind, Except.bind]
    rcases h1 f with he | h
    · rw [he]; exact Or.inl rfl
    · cases r with
      | error e => exact absurd h (by simp)
      | ok v =>
        obtain ⟨e, cs⟩ := v
        obtain ⟨m', hv, hp⟩ := h
        rw [hv]
        simp only [if_true, pure, Except.pure]
        exact Or.inr ⟨m', rfl, hp⟩
      | fail =>
        obtain ⟨sp', m', hv, hm'⟩ := h
        rw [hv]
        obtain ⟨hlt, hinv⟩ := hrest m' hm'
        simp only [Bool.false_eq_true, if_false, restoreCapture, hlt, if_true, pure, Except.pure]
        exact Or.inr ⟨sp, _, rfl, hinv⟩

theorem gpsave {pc n sp rec : Nat} {m : Caps} {r : Res (Nat × List Cap)}
    (hP : P[pc]? = some (.psave n))
    (h1 : ∀ f, AgreesG Inv Post r (vm src P cap f (pc + 1) sp rec (addPosCapture m n (sp + 1)))) :
    ∀ fuel, AgreesG Inv Post r (vm src P cap fuel pc sp rec m) := by
  intro fuel
  cases fuel with
  | zero => exact Or.inl rfl
  | succ f =>
    unfold vm
    simp only [hP]
    exact h1 f

/-- `%bxy` -/
theorem gbrace {pc sp rec b e : Nat} {m : Caps} {k : Nat → Res (Nat × List Cap)}
    (hP : P[pc]? = some (.brace (b : Int) (e : Int))) (hm : Inv m)
    (hk : ∀ sp', matchBalance src sp b e = some sp' → ∀ f, AgreesG Inv Post (k sp') (vm src P cap f (pc + 1) sp' rec m)) :
    ∀ fuel, AgreesG Inv Post (match matchBalance src sp b e with | none => .fail | some s' => k s')
      (vm src P cap fuel pc sp rec m) := by
  intro fuel
  cases fuel with
  | zero => exact Or.inl rfl
  | succ f =>
    unfold vm
    simp only [hP]
    unfold matchBalance at hk ⊢
    cases hs : src[sp]? with
    | none => exact Or.inr ⟨sp, m, rfl, hm⟩
    | some ch =>
      simp only [hs] at hk
      simp only
      by_cases hb : ch = b
      · subst hb
        have hbe := brace_eq src ch e (src.size - sp) (sp + 1) 1 (Nat.le_refl 1) (fun _ => rfl)
        have hcast : ((1 : Nat) : Int) = 1 := rfl
        rw [hcast] at hbe
        simp only [ne_eq, not_true_eq_false, if_false, if_true, hbe] at hk ⊢
        cases hl : balanceLoop src ch e (src.size - sp) (sp + 1) 1 with
        | none => exact Or.inr ⟨src.size, m, rfl, hm⟩
        | some sp' => exact hk sp' hl f
      · have hbi : (ch : Int) ≠ (b : Int) := by omega
        simp only [hbi, ne_eq, not_false_eq_true, if_true, hb, if_false]
        exact Or.inr ⟨sp, m, rfl, hm⟩

/-- `%d` -/
theorem gnumber {srcSize s0 : Nat} {pc sp rec d : Nat} {m : Caps} {caps : List Cap} {k : Nat → Res (Nat × List Cap)}
    (hsz : srcSize = src.size)
    (hP : P[pc]? = some (.number ((d : Int) - 48))) (hd : 49 ≤ d) (hm : Inv m) (hrel : Rel srcSize s0 caps m)
    (hsp : sp ≤ src.size)
    (hc : ∃ c, caps[d - 49]? = some c ∧ isUnf c = false)
    (hk : ∀ sp', matchCapture src caps sp d = .ok sp' → ∀ f, AgreesG Inv Post (k sp') (vm src P cap f (pc + 1) sp' rec m)) :
    ∀ fuel, AgreesG Inv Post
      (match matchCapture src caps sp d with | .error e => .error e | .fail => .fail | .ok s' => k s')
      (vm src P cap fuel pc sp rec m) := by
  intro fuel
  cases fuel with
  | zero => exact Or.inl rfl
  | succ f =>
    obtain ⟨c, hcl, hunf⟩ := hc
    have hcr := hrel.2 _ c hcl
    have hidx : (((d : Int) - 48) * 2).toNat = 2 * (d - 49) + 2 := by omega
    have hn0 : ¬ ((d : Int) - 48 < 0) := by omega
    have hd49 : ¬ (d < 49) := by omega
    unfold vm
    simp only [hP, bind, Except.bind, hidx]
    unfold matchCapture at hk ⊢
    simp only [hd49, if_false, hcl] at hk ⊢
    cases c with
    | unfinished i => simp [isUnf] at hunf
    | position init =>
      obtain ⟨h2, h3⟩ := hcr
      have hlt3 : 2 * (d - 49) + 3 < m.size := by
        rcases Nat.lt_or_ge (2 * (d - 49) + 3) m.size with h' | h'
        · exact h'
        · simp [Array.getElem?_eq_none h'] at h3
      have hg : ¬ ((d : Int) - 48 < 0 ∨ 2 * (d - 49) + 2 + 1 ≥ m.size) := by omega
      have hodd : ((init + 1) * 2 + 1) % 2 = 1 := by omega
      simp only [hg, if_false, isPosCapture, h2, pure, Except.pure, hodd, decide_true, if_true]
      exact Or.inr ⟨sp, m, rfl, hm⟩
    | closed init len =>
      obtain ⟨h2, h3, hle⟩ := hcr
      have hlt3 : 2 * (d - 49) + 3 < m.size := by
        rcases Nat.lt_or_ge (2 * (d - 49) + 3) m.size with h' | h'
        · exact h'
        · simp [Array.getElem?_eq_none h'] at h3
      have hg : ¬ ((d : Int) - 48 < 0 ∨ 2 * (d - 49) + 2 + 1 ≥ m.size) := by omega
      have heven : ¬ ((init * 2) % 2 = 1) := by omega
      have h3' : m[2 * (d - 49) + 2 + 1]? = some ((init + len) * 2) := h3
      have e1 : init * 2 / 2 = init := by omega
      have e2 : (init + len) * 2 / 2 = init + len := by omega
      have hbad : ¬ (init > init + len ∨ init + len > src.size) := by omega
      have e3 : init + len - init = len := by omega
      have hbr := backref_eq src init sp len 0
      simp only [Nat.add_zero] at hbr
      simp only [hg, if_false, isPosCapture, capture, h2, h3', pure, Except.pure, heven, decide_false, Bool.false_eq_true,
        e1, e2, hbad, e3, hbr]
      by_cases hme : memEq src init sp len = true
      · have hb := memEq_bound src len init sp hme
        have hcond : src.size - sp ≥ len ∧ sp ≤ src.size ∧ memEq src init sp len = true := by
          refine ⟨?_, hsp, hme⟩
          rcases hb with h0 | ⟨_, h5⟩ <;> omega
        simp only [hcond, and_self, if_true, hme] at hk ⊢
        exact hk _ rfl f
      · have hme' : memEq src init sp len = false := by simpa using hme
        simp only [hme', Bool.false_eq_true, and_false, if_false]
        exact Or.inr ⟨sp, m, rfl, hm⟩

end steps

/-! ### the loops of a quantified item, over any invariant -/
section loops
variable {src : Array Nat} {P : Array Inst} {cap : Nat} {Inv : Caps → Prop} {Post : Nat → List Cap → Caps → Prop}

/-- behaviour of the continuation (the rest of the program) at `pcK`, from positions ≥ `lo` -/
def ContG (src : Array Nat) (P : Array Inst) (cap : Nat) (Inv : Caps → Prop) (Post : Nat → List Cap → Caps → Prop)
    (k : Nat → Res (Nat × List Cap)) (pcK W lo : Nat) : Prop :=
  ∀ f sp rec m, Inv m → lo ≤ sp → sp ≤ src.size → rec + (src.size - sp) + W ≤ cap →
    AgreesG Inv Post (k sp) (vm src P cap f pcK sp rec m)

theorem gstar_loop {pc lo : Nat} {c : Class} {cls : Cls} {k : Nat → Res (Nat × List Cap)} {W : Nat}
    (hS : P[pc]? = some (.split (pc + 1) (pc + 3))) (hC : P[pc + 1]? = some (.char c)) (hJ : P[pc + 2]? = some (.jmp pc))
    (hM : ∀ ch : Nat, c.Matches (ch : Int) = singleMatch ch cls)
    (hK : ContG src P cap Inv Post k (pc + 3) W lo) :
    ∀ d sp, src.size - sp = d → lo ≤ sp → sp ≤ src.size → ∀ f rec m, Inv m → rec + (src.size - sp) + W + 1 ≤ cap →
      AgreesG Inv Post (maxExpand k sp (countMax (mOf src cls) sp (src.size - sp))) (vm src P cap f pc sp rec m) := by
  intro d
  induction d with
  | zero =>
    intro sp hd hlo hsp f rec m hm hpot
    rw [maxExpand_unfold]
    refine gsplit hS (by omega) ?_ (fun f m' hm' => hK f sp rec m' hm' hlo hsp (by omega)) f
    refine gchar hC hM hm ?_
    intro hmo; have := mOf_lt hmo; omega
  | succ d ih =>
    intro sp hd hlo hsp f rec m hm hpot
    rw [maxExpand_unfold]
    refine gsplit hS (by omega) ?_ (fun f m' hm' => hK f sp rec m' hm' hlo hsp (by omega)) f
    refine gchar hC hM hm ?_
    intro hmo
    have hlt := mOf_lt hmo
    refine gjmp hJ ?_
    intro f'
    exact ih (sp + 1) (by omega) (by omega) (by omega) f' (rec + 1) m hm (by omega)

theorem gplus_loop {pc lo : Nat} {c : Class} {cls : Cls} {k : Nat → Res (Nat × List Cap)} {W : Nat}
    (hC : P[pc]? = some (.char c)) (hS : P[pc + 1]? = some (.split pc (pc + 2)))
    (hM : ∀ ch : Nat, c.Matches (ch : Int) = singleMatch ch cls)
    (hK : ContG src P cap Inv Post k (pc + 2) W lo) :
    ∀ d sp, src.size - sp = d → lo ≤ sp → sp ≤ src.size → ∀ f rec m, Inv m → rec + (src.size - sp) + W + 1 ≤ cap →
      AgreesG Inv Post (maxExpand k sp (countMax (mOf src cls) sp (src.size - sp))) (vm src P cap f (pc + 1) sp rec m) := by
  intro d
  induction d with
  | zero =>
    intro sp hd hlo hsp f rec m hm hpot
    rw [maxExpand_unfold]
    refine gsplit hS (by omega) ?_ (fun f m' hm' => hK f sp rec m' hm' hlo hsp (by omega)) f
    refine gchar hC hM hm ?_
    intro hmo; have := mOf_lt hmo; omega
  | succ d ih =>
    intro sp hd hlo hsp f rec m hm hpot
    rw [maxExpand_unfold]
    refine gsplit hS (by omega) ?_ (fun f m' hm' => hK f sp rec m' hm' hlo hsp (by omega)) f
    refine gchar hC hM hm ?_
    intro hmo
    have hlt := mOf_lt hmo
    intro f'
    exact ih (sp + 1) (by omega) (by omega) (by omega) f' (rec + 1) m hm (by omega)

theorem gminus_loop {pc lo : Nat} {c : Class} {cls : Cls} {k : Nat → Res (Nat × List Cap)} {W : Nat}
    (hS : P[pc]? = some (.split (pc + 3) (pc + 1))) (hC : P[pc + 1]? = some (.char c)) (hJ : P[pc + 2]? = some (.jmp pc))
    (hM : ∀ ch : Nat, c.Matches (ch : Int) = singleMatch ch cls)
    (hK : ContG src P cap Inv Post k (pc + 3) W lo) :
    ∀ d sp, src.size - sp = d → lo ≤ sp → sp ≤ src.size → ∀ f rec m, Inv m → rec + (src.size - sp) + W + 1 ≤ cap →
      AgreesG Inv Post (minExpand k (mOf src cls) (src.size + 1 - sp) sp) (vm src P cap f pc sp rec m) := by
  intro d
  induction d with
  | zero =>
    intro sp hd hlo hsp f rec m hm hpot
    rw [minExpand_unfold src _ k sp hsp]
    refine gsplit hS (by omega) (fun f => hK f sp (rec + 1) m hm hlo hsp (by omega)) ?_ f
    intro f m' hm'
    refine gchar hC hM hm' ?_ f
    intro hmo; have := mOf_lt hmo; omega
  | succ d ih =>
    intro sp hd hlo hsp f rec m hm hpot
    rw [minExpand_unfold src _ k sp hsp]
    refine gsplit hS (by omega) (fun f => hK f sp (rec + 1) m hm hlo hsp (by omega)) ?_ f
    intro f m' hm'
    refine gchar hC hM hm' ?_ f
    intro hmo
    have hlt := mOf_lt hmo
    refine gjmp hJ ?_
    intro f'
    exact ih (sp + 1) (by omega) (by omega) (by omega) f' rec m' hm' (by omega)

/-- one item: its block at `pc`, the continuation behind it -/
theorem gitem {it : Item} {pc lo W : Nat} {k : Nat → Res (Nat × List Cap)} {rest : List Inst} {pre : List Inst}
    (hpc : pc = pre.length) (hP : P = (pre ++ (it.block.emit pc ++ rest)).toArray)
    (hM : ∀ ch : Nat, (toClass it.cls).Matches (ch : Int) = singleMatch ch it.cls)
    (hK : ContG src P cap Inv Post k (pc + (it.block.emit pc).length) W lo) :
    ContG src P cap Inv Post (fun sp => itemStep src it k sp) pc (W + 1) lo := by
  subst hpc
  have look := emit_lookup P pre (it.block.emit pre.length) rest hP
  intro f sp rec m hm hlo hsp hpot
  cases hq : it.q with
  | one =>
    have hb : it.block = .chr (toClass it.cls) := by simp [Item.block, hq]
    rw [hb] at look hK
    simp only [Block.emit, List.length_cons, List.length_nil] at look hK
    have l0 := look 0 (by simp)
    simp only [Nat.add_zero, List.getElem?_cons_zero] at l0
    simp only [itemStep, hq]
    refine gchar l0 hM hm ?_ f
    intro hmo f'
    have := mOf_lt hmo
    exact hK f' (sp + 1) rec m hm (by omega) (by omega) (by omega)
  | opt =>
    have hb : it.block = .opt (toClass it.cls) := by simp [Item.block, hq]
    rw [hb] at look hK
    simp only [Block.emit, List.length_cons, List.length_nil] at look hK
    have l0 := look 0 (by simp)
    have l1 := look 1 (by simp)
    simp only [Nat.add_zero, List.getElem?_cons_zero, List.getElem?_cons_succ] at l0 l1
    have hrw : itemStep src it k sp =
        orElse (if mOf src it.cls sp = true then k (sp + 1) else .fail) (k sp) := by
      simp only [itemStep, hq]
      split <;> simp [orElse]
    show AgreesG Inv Post (itemStep src it k sp) _
    rw [hrw]
    refine gsplit l0 (by omega) ?_ (fun f m' hm' => hK f sp rec m' hm' hlo hsp (by omega)) f
    refine gchar l1 hM hm ?_
    intro hmo f'
    have := mOf_lt hmo
    exact hK f' (sp + 1) (rec + 1) m hm (by omega) (by omega) (by omega)
  | star =>
    have hb : it.block = .star (toClass it.cls) := by simp [Item.block, hq]
    rw [hb] at look hK
    simp only [Block.emit, List.length_cons, List.length_nil] at look hK
    have l0 := look 0 (by simp)
    have l1 := look 1 (by simp)
    have l2 := look 2 (by simp)
    simp only [Nat.add_zero, List.getElem?_cons_zero, List.getElem?_cons_succ] at l0 l1 l2
    simp only [itemStep, hq]
    exact gstar_loop l0 l1 l2 hM hK _ sp rfl hlo hsp f rec m hm (by omega)
  | plus =>
    have hb : it.block = .plus (toClass it.cls) := by simp [Item.block, hq]
    rw [hb] at look hK
    simp only [Block.emit, List.length_cons, List.length_nil] at look hK
    have l0 := look 0 (by simp)
    have l1 := look 1 (by simp)
    simp only [Nat.add_zero, List.getElem?_cons_zero, List.getElem?_cons_succ] at l0 l1
    simp only [itemStep, hq]
    refine gchar l0 hM hm ?_ f
    intro hmo f'
    have := mOf_lt hmo
    exact gplus_loop l0 l1 hM hK _ (sp + 1) rfl (by omega) (by omega) f' rec m hm (by omega)
  | minus =>
    have hb : it.block = .lazy (toClass it.cls) := by simp [Item.block, hq]
    rw [hb] at look hK
    simp only [Block.emit, List.length_cons, List.length_nil] at look hK
    have l0 := look 0 (by simp)
    have l1 := look 1 (by simp)
    have l2 := look 2 (by simp)
    simp only [Nat.add_zero, List.getElem?_cons_zero, List.getElem?_cons_succ] at l0 l1 l2
    simp only [itemStep, hq]
    exact gminus_loop l0 l1 l2 hM hK _ sp rfl hlo hsp f rec m hm (by omega)

end loops

/-! ### the simulation, by induction over the tokens -/
def capCount : List Tok → Nat
  | [] => 0
  | .opn :: r => capCount r + 1
  | .pos :: r => capCount r + 1
  | .item _ :: r => capCount r
  | .cls :: r => capCount r
  | .bal _ _ :: r => capCount r
  | .ref _ :: r => capCount r

def InvC (srcSize s0 T : Nat) (caps : List Cap) (m : Caps) : Prop := Rel srcSize s0 caps m ∧ m.size ≤ 2 * (T + 1)

def PostC (srcSize s0 T : Nat) (e : Nat) (cs : List Cap) (m : Caps) : Prop :=
  Rel srcSize s0 cs m ∧ m[1]? = some (e * 2) ∧ m.size ≤ 2 * (T + 1) ∧ cs.length = T ∧ unfStack cs = [] ∧
    s0 ≤ e ∧ e ≤ srcSize

def toksOK (toks : List Tok) : Prop := ∀ it, Tok.item it ∈ toks → clsOK it.cls = true

theorem CapRel.keep {srcSize : Nat} {m m' : Caps} {i n : Nat} {c : Cap} (h : CapRel srcSize m i c)
    (hk : ∀ k v, k ≠ n → m[k]? = some v → m'[k]? = some v) (h2 : 2 * i + 2 ≠ n) (h3 : 2 * i + 3 ≠ n) :
    CapRel srcSize m' i c :=
  h.of_agree (fun v hv => hk _ v h2 hv) (fun v hv => hk _ v h3 hv)

theorem set_keep (m : Caps) (n old : Nat) : ∀ k v, k ≠ n → m[k]? = some v → (m.setIfInBounds n old)[k]? = some v := by
  intro k v hk hv
  rw [Array.getElem?_setIfInBounds_ne (by omega)]; exact hv

/-- writing a slot that belongs to no entry of `caps` -/
theorem Rel.set_free {srcSize s0 : Nat} {caps : List Cap} {m : Caps} (h : Rel srcSize s0 caps m) (n v : Nat) (hn : n ≠ 0)
    (hfree : ∀ i, i < caps.length → 2 * i + 2 ≠ n ∧ 2 * i + 3 ≠ n) : Rel srcSize s0 caps (m.setIfInBounds n v) := by
  refine ⟨set_keep m n v 0 _ (by omega) h.1, fun i c hi => ?_⟩
  have := hfree i (get_lt hi)
  exact (h.2 i c hi).keep (set_keep m n v) this.1 this.2

/-- undoing the `)` of capture `j` -/
theorem Rel.unclose {srcSize s0 : Nat} {caps : List Cap} {m2 : Caps} {j init len old : Nat}
    (hj : caps[j]? = some (.unfinished init))
    (h : Rel srcSize s0 (caps.set j (.closed init len)) m2) :
    Rel srcSize s0 caps (m2.setIfInBounds (2 * j + 3) old) := by
  refine ⟨set_keep m2 _ old 0 _ (by omega) h.1, fun i c hi => ?_⟩
  by_cases hij : i = j
  · subst hij
    rw [hj] at hi; injection hi with hi; subst hi
    have := h.2 i (.closed init len) (by rw [List.getElem?_set_self (get_lt hj)])
    exact set_keep m2 _ old _ _ (by omega) this.1
  · have := h.2 i c (by rw [List.getElem?_set_ne (by omega)]; exact hi)
    exact this.keep (set_keep m2 _ old) (by omega) (by omega)

theorem balanceLoop_bounds (src : Array Nat) (b e : Nat) :
    ∀ (n s cont s' : Nat), balanceLoop src b e n s cont = some s' → s < s' ∧ s' ≤ src.size := by
  intro n
  induction n with
  | zero => intro s cont s' h; simp [balanceLoop] at h
  | succ n ih =>
    intro s cont s' h
    unfold balanceLoop at h
    cases hs : src[s]? with
    | none => simp [hs] at h
    | some ch =>
      have hlt : s < src.size := by
        rcases Nat.lt_or_ge s src.size with h1 | h1
        · exact h1
        · simp [Array.getElem?_eq_none h1] at hs
      simp only [hs] at h
      split at h
      · split at h
        · injection h with h; omega
        · have := ih _ _ _ h; omega
      · split at h
        · have := ih _ _ _ h; omega
        · have := ih _ _ _ h; omega

theorem matchBalance_bounds (src : Array Nat) (s b e s' : Nat) (h : matchBalance src s b e = some s') :
    s < s' ∧ s' ≤ src.size := by
  unfold matchBalance at h
  cases hs : src[s]? with
  | none => simp [hs] at h
  | some ch =>
    simp only [hs] at h
    split at h
    · have := balanceLoop_bounds src b e _ _ _ _ h; omega
    · cases h

theorem matchCapture_bounds (src : Array Nat) (caps : List Cap) (s d s' : Nat) (hs : s ≤ src.size)
    (h : matchCapture src caps s d = .ok s') : s ≤ s' ∧ s' ≤ src.size := by
  unfold matchCapture at h
  split at h
  · cases h
  · split at h
    · cases h
    · cases h
    · cases h
    · split at h
      · rename_i hc
        injection h with h
        omega
      · cases h

theorem emitToks_cons_lookup (P : Array Inst) (pre : List Inst) (i : Inst) (rest : List Inst)
    (hP : P = (pre ++ ((i :: rest))).toArray) : P[pre.length]? = some i := by
  have := emit_lookup P pre [i] rest (by simpa using hP) 0 (by simp)
  simpa using this

theorem vm_simC (src : Array Nat) (cap s0 T : Nat) (tail : Bool) (P : Array Inst) :
    ∀ (toks : List Tok) (pre : List Inst) (n : Nat) (E : List Nat),
      P = (pre ++ (emitToks n E pre.length toks ++ tailInsts tail)).toArray →
      capsOK n E toks = true → n + capCount toks = T → toksOK toks →
      ∀ (caps : List Cap), caps.length = n → unfStack caps = E → ∀ (lo : Nat), UnfLE caps lo → s0 ≤ lo →
        ContG src P cap (InvC src.size s0 T caps) (PostC src.size s0 T) (fun sp => refToks src tail toks caps sp)
          pre.length (toks.length + 1) lo := by
  intro toks
  induction toks with
  | nil =>
    intro pre n E hP hok hT _ caps hlen hE lo hunf hs0 f sp rec m hm hlo hsp hpot
    have h0 : P[pre.length + 0]? = (tailInsts tail)[0]? := by
      apply emit_lookup P pre (tailInsts tail) [] (by simpa [emitToks] using hP) 0
      unfold tailInsts; split <;> simp
    have h1 : P[pre.length + 1]? = (tailInsts tail)[1]? := by
      apply emit_lookup P pre (tailInsts tail) [] (by simpa [emitToks] using hP) 1
      unfold tailInsts; split <;> simp
    have h0' : P[pre.length]? = some (.save 1) := by
      rw [Nat.add_zero] at h0; rw [h0]; unfold tailInsts; split <;> rfl
    have h1' : P[pre.length + 1]? = some (if tail then .tailMatch else .matchI) := by
      rw [h1]; unfold tailInsts; cases tail <;> rfl
    have hE0 : E = [] := by
      simp only [capsOK, List.isEmpty_iff] at hok; exact hok
    simp only [capCount, Nat.add_zero] at hT
    simp only [List.length_nil] at hpot
    obtain ⟨hrel, hsize⟩ := hm
    have hrel1 : Rel src.size s0 caps (setCapture m 1 sp).1 := by
      refine ⟨setCapture_get_ne m 1 sp 0 _ hrel.1 (by omega), fun i c hi => ?_⟩
      exact (hrel.2 i c hi).of_agree (fun v hv => setCapture_get_ne m 1 sp _ v hv (by omega))
        (fun v hv => setCapture_get_ne m 1 sp _ v hv (by omega))
    have hsize1 : (setCapture m 1 sp).1.size ≤ 2 * (T + 1) := by
      rw [setCapture_size_eq]; omega
    have hsz2 : 1 < (setCapture m 1 sp).1.size := by
      rw [setCapture_size_eq]; omega
    refine gsave (Inv1 := fun m2 => InvC src.size s0 T caps m2 ∧ 1 < m2.size) h0' (by omega) ?_ ?_ f
    · intro f'
      cases f' with
      | zero => exact Or.inl rfl
      | succ f' =>
        unfold vm
        simp only [h1']
        cases tail with
        | false =>
          simp only [Bool.false_eq_true, if_false, refToks, pure, Except.pure]
          exact Or.inr ⟨_, rfl, hrel1, setCapture_get_eq m 1 sp, hsize1, by omega, by rw [hE, hE0], by omega, hsp⟩
        | true =>
          simp only [if_true, refToks, pure, Except.pure]
          by_cases he : sp = src.size
          · subst he
            simp only [ge_iff_le, Nat.le_refl, decide_true, if_true]
            exact Or.inr ⟨_, rfl, hrel1, setCapture_get_eq m 1 _, hsize1, by omega, by rw [hE, hE0], by omega, Nat.le_refl _⟩
          · have : ¬ (sp ≥ src.size) := by omega
            simp only [this, decide_false, he, if_false]
            exact Or.inr ⟨sp, _, rfl, ⟨hrel1, hsize1⟩, hsz2⟩
    · intro m2 hm2
      exact ⟨hm2.2, hm2.1.1.set_free 1 _ (by omega) (fun i _ => by omega),
        by simp only [Array.size_setIfInBounds]; exact hm2.1.2⟩
  | cons t r ih =>
    intro pre n E hP hok hT hcls caps hlen hE lo hunf hs0
    have hclsr : toksOK r := fun it hit => hcls it (by simp [hit])
    cases t with
    | item it =>
      simp only [emitToks, List.append_assoc] at hP
      have hP' : P = ((pre ++ it.block.emit pre.length) ++
          (emitToks n E (pre ++ it.block.emit pre.length).length r ++ tailInsts tail)).toArray := by
        rw [hP]; simp [List.append_assoc]
      have ihr := ih (pre ++ it.block.emit pre.length) n E hP' (by simpa [capsOK] using hok)
        (by simpa [capCount] using hT) hclsr caps hlen hE lo hunf hs0
      simp only [List.length_append] at ihr
      have := gitem (src := src) (cap := cap) (Inv := InvC src.size s0 T caps) (Post := PostC src.size s0 T)
        (it := it) (k := fun s' => refToks src tail r caps s') rfl hP
        (fun ch => toClass_matches it.cls (hcls it (by simp)) ch) ihr
      simpa [refToks] using this
    | opn =>
      simp only [emitToks] at hP
      simp only [capsOK, Bool.and_eq_true, decide_eq_true_eq] at hok
      simp only [capCount] at hT
      have hP' : P = ((pre ++ [Inst.save (2 * (n + 1))]) ++
          (emitToks (n + 1) (n :: E) (pre ++ [Inst.save (2 * (n + 1))]).length r ++ tailInsts tail)).toArray := by
        rw [hP]; simp [List.append_assoc]
      have hl := emitToks_cons_lookup P pre _ _ hP
      intro f sp rec m hm hlo hsp hpot
      simp only [List.length_cons] at hpot
      have hlt32 : ¬ (caps.length ≥ maxCaptures) := by rw [hlen]; unfold maxCaptures; omega
      simp only [refToks, hlt32, if_false]
      have hunf1 : UnfLE (caps ++ [Cap.unfinished sp]) sp := by
        intro i init hi
        by_cases hil : i < caps.length
        · rw [List.getElem?_append_left hil] at hi
          exact Nat.le_trans (hunf i init hi) hlo
        · have := get_lt hi
          simp only [List.length_append, List.length_cons, List.length_nil] at this
          have hie : i = caps.length := by omega
          subst hie
          simp only [List.getElem?_append_right (Nat.le_refl _), Nat.sub_self, List.getElem?_cons_zero, Option.some.injEq,
            Cap.unfinished.injEq] at hi
          omega
      have ihr := ih (pre ++ [Inst.save (2 * (n + 1))]) (n + 1) (n :: E) hP' hok.2 (by omega) hclsr
        (caps ++ [Cap.unfinished sp]) (by simp [hlen]) (by rw [unfStack_append]; simp [isUnf, hlen, hE]) sp hunf1
        (Nat.le_trans hs0 hlo)
      simp only [List.length_append, List.length_cons, List.length_nil] at ihr
      have hrel1 := hm.1.open_ sp
      rw [hlen] at hrel1
      refine gsave (Inv1 := InvC src.size s0 T (caps ++ [Cap.unfinished sp])) hl (by omega) ?_ ?_ f
      · intro f'
        exact ihr f' sp (rec + 1) _ ⟨hrel1, by rw [setCapture_size_eq]; have := hm.2; omega⟩ (Nat.le_refl _) hsp (by omega)
      · intro m2 hm2
        have hslot := hm2.1.2 caps.length (Cap.unfinished sp) (by simp)
        have hlt : 2 * (n + 1) < m2.size := by
          rcases Nat.lt_or_ge (2 * (n + 1)) m2.size with h' | h'
          · exact h'
          · have hs : m2[2 * caps.length + 2]? = some (sp * 2) := hslot
            rw [hlen] at hs
            rw [show 2 * n + 2 = 2 * (n + 1) by omega, Array.getElem?_eq_none h'] at hs
            cases hs
        exact ⟨hlt, hm2.1.prefix.set_free _ _ (by omega) (fun i hi => by rw [hlen] at hi; omega),
          by simp only [Array.size_setIfInBounds]; exact hm2.2⟩
    | pos =>
      simp only [emitToks] at hP
      simp only [capsOK, Bool.and_eq_true, decide_eq_true_eq] at hok
      simp only [capCount] at hT
      have hP' : P = ((pre ++ [Inst.psave (2 * (n + 1))]) ++
          (emitToks (n + 1) E (pre ++ [Inst.psave (2 * (n + 1))]).length r ++ tailInsts tail)).toArray := by
        rw [hP]; simp [List.append_assoc]
      have hl := emitToks_cons_lookup P pre _ _ hP
      intro f sp rec m hm hlo hsp hpot
      simp only [List.length_cons] at hpot
      have hlt32 : ¬ (caps.length ≥ maxCaptures) := by rw [hlen]; unfold maxCaptures; omega
      simp only [refToks, hlt32, if_false]
      have hunf1 : UnfLE (caps ++ [Cap.position sp]) lo := by
        intro i init hi
        by_cases hil : i < caps.length
        · rw [List.getElem?_append_left hil] at hi
          exact hunf i init hi
        · have := get_lt hi
          simp only [List.length_append, List.length_cons, List.length_nil] at this
          have hie : i = caps.length := by omega
          subst hie
          simp at hi
      have ihr := ih (pre ++ [Inst.psave (2 * (n + 1))]) (n + 1) E hP' hok.2 (by omega) hclsr
        (caps ++ [Cap.position sp]) (by simp [hlen]) (by rw [unfStack_append]; simp [isUnf, hE]) lo hunf1 hs0
      simp only [List.length_append, List.length_cons, List.length_nil] at ihr
      have hrel1 := hm.1.pos_ sp
      rw [hlen] at hrel1
      refine gpsave hl ?_ f
      intro f'
      refine (ihr f' sp rec _ ⟨hrel1, by rw [addPos_size_eq]; have := hm.2; omega⟩ hlo hsp (by omega)).weaken ?_
      intro m' hm'
      exact ⟨hm'.1.prefix, hm'.2⟩
    | cls =>
      cases E with
      | nil => simp [capsOK] at hok
      | cons j E' =>
        simp only [emitToks] at hP
        simp only [capsOK] at hok
        simp only [capCount] at hT
        have hP' : P = ((pre ++ [Inst.save (2 * j + 3)]) ++
            (emitToks n E' (pre ++ [Inst.save (2 * j + 3)]).length r ++ tailInsts tail)).toArray := by
          rw [hP]; simp [List.append_assoc]
        have hl := emitToks_cons_lookup P pre _ _ hP
        intro f sp rec m hm hlo hsp hpot
        simp only [List.length_cons] at hpot
        obtain ⟨init, hj, hcc, hE1⟩ := closeCap_stack sp caps j E' hE
        have hjlt := get_lt hj
        simp only [refToks, hcc]
        have hunf1 : UnfLE (caps.set j (Cap.closed init (sp - init))) lo := by
          intro i init' hi
          by_cases hij : i = j
          · subst hij
            rw [List.getElem?_set_self hjlt] at hi
            cases hi
          · rw [List.getElem?_set_ne (by omega)] at hi
            exact hunf i init' hi
        have ihr := ih (pre ++ [Inst.save (2 * j + 3)]) n E' hP' hok hT hclsr
          (caps.set j (Cap.closed init (sp - init))) (by simp [hlen]) hE1 lo hunf1 hs0
        simp only [List.length_append, List.length_cons, List.length_nil] at ihr
        have hrel1 := hm.1.close_ j init sp hj (Nat.le_trans (hunf j init hj) hlo) hsp
        refine gsave (Inv1 := InvC src.size s0 T (caps.set j (Cap.closed init (sp - init)))) hl (by omega) ?_ ?_ f
        · intro f'
          exact ihr f' sp (rec + 1) _ ⟨hrel1, by rw [setCapture_size_eq]; have := hm.2; omega⟩ hlo hsp (by omega)
        · intro m2 hm2
          have hslot := hm2.1.2 j (Cap.closed init (sp - init)) (by rw [List.getElem?_set_self hjlt])
          have hlt : 2 * j + 3 < m2.size := by
            rcases Nat.lt_or_ge (2 * j + 3) m2.size with h' | h'
            · exact h'
            · have hs := hslot.2.1
              rw [Array.getElem?_eq_none h'] at hs
              cases hs
          exact ⟨hlt, Rel.unclose hj hm2.1, by simp only [Array.size_setIfInBounds]; exact hm2.2⟩
    | bal b e =>
      simp only [emitToks] at hP
      simp only [capsOK] at hok
      simp only [capCount] at hT
      have hP' : P = ((pre ++ [Inst.brace (b : Int) (e : Int)]) ++
          (emitToks n E (pre ++ [Inst.brace (b : Int) (e : Int)]).length r ++ tailInsts tail)).toArray := by
        rw [hP]; simp [List.append_assoc]
      have hl := emitToks_cons_lookup P pre _ _ hP
      have ihr := ih (pre ++ [Inst.brace (b : Int) (e : Int)]) n E hP' hok hT hclsr caps hlen hE lo hunf hs0
      simp only [List.length_append, List.length_cons, List.length_nil] at ihr
      intro f sp rec m hm hlo hsp hpot
      simp only [List.length_cons] at hpot
      simp only [refToks]
      refine gbrace hl hm ?_ f
      intro sp' hmb f'
      have := matchBalance_bounds src sp b e sp' hmb
      exact ihr f' sp' rec m hm (by omega) (by omega) (by omega)
    | ref d =>
      simp only [emitToks] at hP
      simp only [capsOK, Bool.and_eq_true, decide_eq_true_eq, Bool.not_eq_true', List.contains_eq_mem,
        decide_eq_false_iff_not] at hok
      obtain ⟨⟨⟨hd49, hdn⟩, hdE⟩, hokr⟩ := hok
      simp only [capCount] at hT
      have hP' : P = ((pre ++ [Inst.number ((d : Int) - 48)]) ++
          (emitToks n E (pre ++ [Inst.number ((d : Int) - 48)]).length r ++ tailInsts tail)).toArray := by
        rw [hP]; simp [List.append_assoc]
      have hl := emitToks_cons_lookup P pre _ _ hP
      have ihr := ih (pre ++ [Inst.number ((d : Int) - 48)]) n E hP' hokr hT hclsr caps hlen hE lo hunf hs0
      simp only [List.length_append, List.length_cons, List.length_nil] at ihr
      intro f sp rec m hm hlo hsp hpot
      simp only [List.length_cons] at hpot
      simp only [refToks]
      have hc : ∃ c, caps[d - 49]? = some c ∧ isUnf c = false := by
        have hlt : d - 49 < caps.length := by omega
        refine ⟨caps[d - 49], List.getElem?_eq_getElem hlt, ?_⟩
        cases hcd : caps[d - 49] with
        | unfinished init =>
          have := unf_mem_stack caps (d - 49) init (by rw [List.getElem?_eq_getElem hlt, hcd])
          rw [hE] at this
          exact absurd this hdE
        | closed _ _ => rfl
        | position _ => rfl
      refine gnumber (srcSize := src.size) (s0 := s0) rfl hl hd49 hm hm.1 hsp hc ?_ f
      intro sp' hmc f'
      have := matchCapture_bounds src caps sp d sp' hsp hmc
      exact ihr f' sp' rec m hm (by omega) (by omega) (by omega)

end GLua.PmProofs
