/-
  C14 lemmas: the shape of every program `compilePattern` emits (a flat list of blocks) and, from the shape,
  `ProgOK` — the hypothesis of `vm_good` (termination, no Go panic besides the back-reference slice).
-/
import GLua.Proofs.PmVm

namespace GLua.PmProofs
open GLua.Pm

/-- the instruction groups `compilePattern` appends -/
inductive Block where
  | chr (c : Class)
  | sav (n : Nat)
  | psav (n : Nat)
  | brc (b e : Int)
  | num (n : Int)
  | tail                      -- opTailMatch
  | fin                       -- opMatch
  | star (c : Class)
  | plus (c : Class)
  | lazy (c : Class)
  | opt (c : Class)

def Block.emit (idx : Nat) : Block → List Inst
  | .chr c => [.char c]
  | .sav n => [.save n]
  | .psav n => [.psave n]
  | .brc b e => [.brace b e]
  | .num n => [.number n]
  | .tail => [.tailMatch]
  | .fin => [.matchI]
  | .star c => [.split (idx+1) (idx+3), .char c, .jmp idx]
  | .plus c => [.char c, .split idx (idx+2)]
  | .lazy c => [.split (idx+3) (idx+1), .char c, .jmp idx]
  | .opt c => [.split (idx+1) (idx+2), .char c]

def emitAll (idx : Nat) : List Block → List Inst
  | [] => []
  | b :: r => b.emit idx ++ emitAll (idx + (b.emit idx).length) r

theorem emitAll_append (idx : Nat) (a b : List Block) :
    emitAll idx (a ++ b) = emitAll idx a ++ emitAll (idx + (emitAll idx a).length) b := by
  induction a generalizing idx with
  | nil => simp [emitAll]
  | cons x r ih => simp [emitAll, ih, Nat.add_assoc]

/-! ### compile emits blocks -/
mutual
theorem compilePat_blocks : (p : Pat) → (ptr ptr' : IPtr) → compilePat p ptr = .ok ptr' →
    ∃ bs, ptr'.insts.toList = ptr.insts.toList ++ emitAll ptr.insts.size bs
  | .single c, ptr, ptr', h => by
    simp only [compilePat, pure, Except.pure] at h
    injection h with h; subst h
    exact ⟨[.chr c], by simp [emitAll, Block.emit]⟩
  | .repeat ty c, ptr, ptr', h => by
    simp only [compilePat, pure, Except.pure] at h
    split at h
    · injection h with h; subst h; exact ⟨[.star c], by simp [emitAll, Block.emit]⟩
    · split at h
      · injection h with h; subst h; exact ⟨[.plus c], by simp [emitAll, Block.emit]⟩
      · split at h
        · injection h with h; subst h; exact ⟨[.lazy c], by simp [emitAll, Block.emit]⟩
        · split at h
          · injection h with h; subst h; exact ⟨[.opt c], by simp [emitAll, Block.emit]⟩
          · injection h with h; subst h; exact ⟨[], by simp [emitAll]⟩
  | .posCap, ptr, ptr', h => by
    simp only [compilePat, pure, Except.pure] at h
    injection h with h; subst h
    exact ⟨[.psav ptr.capture], by simp [emitAll, Block.emit]⟩
  | .cap pats, ptr, ptr', h => by
    simp only [compilePat, bind, Except.bind] at h
    split at h
    · simp at h
    · rename_i ptr2 h2
      simp only [pure, Except.pure] at h
      injection h with h; subst h
      obtain ⟨bs, hbs⟩ := compileSeq_blocks pats _ _ h2
      refine ⟨[.sav ptr.capture] ++ bs ++ [.sav (ptr.capture + 1)], ?_⟩
      simp only [Array.toList_push, hbs, emitAll_append]
      simp [emitAll, Block.emit, Nat.add_assoc]
  | .brace b e, ptr, ptr', h => by
    simp only [compilePat, pure, Except.pure] at h
    injection h with h; subst h
    exact ⟨[.brc b e], by simp [emitAll, Block.emit]⟩
  | .number n, ptr, ptr', h => by
    simp only [compilePat, pure, Except.pure] at h
    split at h
    · injection h with h; subst h; exact ⟨[.num n], by simp [emitAll, Block.emit]⟩
    · simp [throw, throwThe, MonadExceptOf.throw] at h
theorem compileSeq_blocks : (ps : List Pat) → (ptr ptr' : IPtr) → compileSeq ps ptr = .ok ptr' →
    ∃ bs, ptr'.insts.toList = ptr.insts.toList ++ emitAll ptr.insts.size bs
  | [], ptr, ptr', h => by
    simp only [compileSeq, pure, Except.pure] at h
    injection h with h; subst h
    exact ⟨[], by simp [emitAll]⟩
  | p :: r, ptr, ptr', h => by
    simp only [compileSeq, bind, Except.bind] at h
    split at h
    · simp at h
    · rename_i ptr1 h1
      obtain ⟨b1, hb1⟩ := compilePat_blocks p _ _ h1
      obtain ⟨b2, hb2⟩ := compileSeq_blocks r _ _ h
      refine ⟨b1 ++ b2, ?_⟩
      have hsz : ptr1.insts.size = ptr.insts.size + (emitAll ptr.insts.size b1).length := by
        have := congrArg List.length hb1
        simpa using this
      rw [hb2, hb1, emitAll_append, hsz, List.append_assoc]
end

/-! ### blocks are ProgOK -/
def notBack (pc : Nat) : Inst → Prop
  | .jmp _ => False
  | .split a _ => a > pc
  | _ => True

theorem rank_of_notBack (P : Array Inst) (pc : Nat) (inst : Inst) (h : P[pc]? = some inst) (hb : notBack pc inst) :
    rank P pc = 2 * (P.size - pc) := by
  unfold rank
  rw [h]
  cases inst <;> simp_all [notBack]
  omega

theorem rank_jmp (P : Array Inst) (pc t : Nat) (h : P[pc]? = some (.jmp t)) : rank P pc = 2 * (P.size - t) + 1 := by
  unfold rank; rw [h]

theorem rank_split_back (P : Array Inst) (pc a b : Nat) (h : P[pc]? = some (.split a b)) (ha : a ≤ pc) :
    rank P pc = 2 * (P.size - a) + 1 := by
  unfold rank; rw [h]; simp [ha]

def Closed (bs : List Block) : Prop := bs.getLast? = some .fin

theorem emit_head (idx : Nat) (b : Block) : ∃ i0, (b.emit idx)[0]? = some i0 ∧ notBack idx i0 := by
  cases b <;> simp [Block.emit, notBack]

theorem emit_length_pos (idx : Nat) (b : Block) : 0 < (b.emit idx).length := by
  cases b <;> simp [Block.emit]

theorem emitAll_head (idx : Nat) (bs : List Block) (h : bs ≠ []) (rest : List Inst) :
    ∃ i0, (emitAll idx bs ++ rest)[0]? = some i0 ∧ notBack idx i0 := by
  cases bs with
  | nil => exact absurd rfl h
  | cons b r =>
    obtain ⟨i0, h0, hb⟩ := emit_head idx b
    refine ⟨i0, ?_, hb⟩
    have := emit_length_pos idx b
    simp only [emitAll, List.append_assoc]
    rw [List.getElem?_append_left this]
    exact h0

theorem lookup_in (pre blk rest : List Inst) (j : Nat) (h : j < blk.length) :
    (pre ++ (blk ++ rest)).toArray[pre.length + j]? = blk[j]? := by
  simp only [List.getElem?_toArray]
  rw [List.getElem?_append_right (by omega), Nat.add_sub_cancel_left, List.getElem?_append_left h]

theorem lookup_next (pre blk rest : List Inst) :
    (pre ++ (blk ++ rest)).toArray[pre.length + blk.length]? = rest[0]? := by
  simp only [List.getElem?_toArray]
  rw [List.getElem?_append_right (by omega), Nat.add_sub_cancel_left, List.getElem?_append_right (by omega)]
  simp

theorem blocks_ok : ∀ (bs : List Block) (pre : List Inst), Closed bs →
    ∀ (pc : Nat) (inst : Inst), (pre ++ emitAll pre.length bs).toArray[pc]? = some inst → pre.length ≤ pc →
      edgeOK (pre ++ emitAll pre.length bs).toArray pc inst := by
  intro bs
  induction bs with
  | nil => intro pre hc; simp [Closed] at hc
  | cons b r ih =>
    intro pre hc pc inst hget hpc
    simp only [emitAll] at hget ⊢
    by_cases hin : pc < pre.length + (b.emit pre.length).length
    · -- inside the block
      obtain ⟨j, rfl⟩ : ∃ j, pc = pre.length + j := ⟨pc - pre.length, by omega⟩
      have hj : j < (b.emit pre.length).length := by omega
      rw [lookup_in _ _ _ _ hj] at hget
      generalize hP : (pre ++ (b.emit pre.length ++ emitAll (pre.length + (b.emit pre.length).length) r)).toArray = P
      have hsize : P.size = pre.length + (b.emit pre.length).length + (emitAll (pre.length + (b.emit pre.length).length) r).length := by
        rw [← hP]; simp; omega
      by_cases hr : r = []
      · -- last block: it is `fin`
        subst hr
        simp only [Closed, List.getLast?_singleton, Option.some.injEq] at hc
        subst hc
        simp only [Block.emit, List.length_singleton] at hj
        have : j = 0 := by omega
        subst this
        simp [Block.emit] at hget
        subst hget
        simp [edgeOK]
      · have hcr : Closed r := by
          cases r with
          | nil => exact absurd rfl hr
          | cons x y => simpa [Closed, List.getLast?_cons_cons] using hc
        obtain ⟨i0, hnext, hnb⟩ := emitAll_head (pre.length + (b.emit pre.length).length) r hr []
        simp only [List.append_nil] at hnext
        have hnx := lookup_next pre (b.emit pre.length) (emitAll (pre.length + (b.emit pre.length).length) r)
        rw [hP, hnext] at hnx
        have hrk := rank_of_notBack P _ _ hnx hnb
        have hlk := fun j (h : j < (b.emit pre.length).length) => lookup_in pre (b.emit pre.length)
          (emitAll (pre.length + (b.emit pre.length).length) r) j h
        rw [hP] at hlk
        have hrl : 0 < (emitAll (pre.length + (b.emit pre.length).length) r).length := by
          have := congrArg Option.isSome hnext
          simp at this; exact this
        generalize hblk : b.emit pre.length = blk at *
        generalize hR : (emitAll (pre.length + blk.length) r).length = R at *
        clear hP hnext
        cases b with
        | chr c =>
          simp only [Block.emit] at hblk
          subst hblk
          simp only [List.length_singleton] at hj hsize hrk hlk hnx
          have l0 := hlk 0 (by omega)
          simp only [List.getElem?_cons_zero, Nat.add_zero] at l0
          have hj0 : j = 0 := by omega
          subst hj0
          simp only [List.getElem?_cons_zero, Option.some.injEq] at hget
          subst hget
          simp only [edgeOK, Nat.add_zero]
          try omega
        | sav n =>
          simp only [Block.emit] at hblk
          subst hblk
          simp only [List.length_singleton] at hj hsize hrk hlk hnx
          have l0 := hlk 0 (by omega)
          simp only [List.getElem?_cons_zero, Nat.add_zero] at l0
          have hj0 : j = 0 := by omega
          subst hj0
          simp only [List.getElem?_cons_zero, Option.some.injEq] at hget
          subst hget
          have r0 := rank_of_notBack P _ _ l0 (by simp [notBack])
          simp only [edgeOK, Nat.add_zero]
          omega
        | psav n =>
          simp only [Block.emit] at hblk
          subst hblk
          simp only [List.length_singleton] at hj hsize hrk hlk hnx
          have l0 := hlk 0 (by omega)
          simp only [List.getElem?_cons_zero, Nat.add_zero] at l0
          have hj0 : j = 0 := by omega
          subst hj0
          simp only [List.getElem?_cons_zero, Option.some.injEq] at hget
          subst hget
          have r0 := rank_of_notBack P _ _ l0 (by simp [notBack])
          simp only [edgeOK, Nat.add_zero]
          omega
        | brc b e =>
          simp only [Block.emit] at hblk
          subst hblk
          simp only [List.length_singleton] at hj hsize hrk hlk hnx
          have l0 := hlk 0 (by omega)
          simp only [List.getElem?_cons_zero, Nat.add_zero] at l0
          have hj0 : j = 0 := by omega
          subst hj0
          simp only [List.getElem?_cons_zero, Option.some.injEq] at hget
          subst hget
          simp only [edgeOK, Nat.add_zero]
          try omega
        | num n =>
          simp only [Block.emit] at hblk
          subst hblk
          simp only [List.length_singleton] at hj hsize hrk hlk hnx
          have l0 := hlk 0 (by omega)
          simp only [List.getElem?_cons_zero, Nat.add_zero] at l0
          have hj0 : j = 0 := by omega
          subst hj0
          simp only [List.getElem?_cons_zero, Option.some.injEq] at hget
          subst hget
          have r0 := rank_of_notBack P _ _ l0 (by simp [notBack])
          simp only [edgeOK, Nat.add_zero]
          omega
        | tail  =>
          simp only [Block.emit] at hblk
          subst hblk
          simp only [List.length_singleton] at hj hsize hrk hlk hnx
          have l0 := hlk 0 (by omega)
          simp only [List.getElem?_cons_zero, Nat.add_zero] at l0
          have hj0 : j = 0 := by omega
          subst hj0
          simp only [List.getElem?_cons_zero, Option.some.injEq] at hget
          subst hget
          simp only [edgeOK, Nat.add_zero]
          try omega
        | fin  =>
          simp only [Block.emit] at hblk
          subst hblk
          simp only [List.length_singleton] at hj hsize hrk hlk hnx
          have l0 := hlk 0 (by omega)
          simp only [List.getElem?_cons_zero, Nat.add_zero] at l0
          have hj0 : j = 0 := by omega
          subst hj0
          simp only [List.getElem?_cons_zero, Option.some.injEq] at hget
          subst hget
          simp only [edgeOK, Nat.add_zero]
          try omega
        | star c =>
          simp only [Block.emit] at hblk
          subst hblk
          simp only [List.length_cons, List.length_nil, Nat.zero_add, Nat.reduceAdd] at hj hsize hrk hlk hnx
          have l0 := hlk 0 (by omega)
          have l1 := hlk 1 (by omega)
          have l2 := hlk 2 (by omega)
          simp only [List.getElem?_cons_zero, List.getElem?_cons_succ, Nat.add_zero] at l0 l1 l2
          have r0 := rank_of_notBack P _ _ l0 (by simp [notBack])
          have r1 := rank_of_notBack P _ _ l1 (by simp [notBack])
          have r2 := rank_jmp P _ _ l2
          match j, hj, hget with
          | 0, _, hget =>
            simp only [List.getElem?_cons_zero, List.getElem?_cons_succ, Option.some.injEq] at hget
            subst hget
            simp only [edgeOK, Nat.add_zero]
            omega
          | 1, _, hget =>
            simp only [List.getElem?_cons_zero, List.getElem?_cons_succ, Option.some.injEq] at hget
            subst hget
            simp only [edgeOK, Nat.add_zero]
            omega
          | 2, _, hget =>
            simp only [List.getElem?_cons_zero, List.getElem?_cons_succ, Option.some.injEq] at hget
            subst hget
            simp only [edgeOK, Nat.add_zero]
            omega
          | n + 3, hj, _ => omega
        | lazy c =>
          simp only [Block.emit] at hblk
          subst hblk
          simp only [List.length_cons, List.length_nil, Nat.zero_add, Nat.reduceAdd] at hj hsize hrk hlk hnx
          have l0 := hlk 0 (by omega)
          have l1 := hlk 1 (by omega)
          have l2 := hlk 2 (by omega)
          simp only [List.getElem?_cons_zero, List.getElem?_cons_succ, Nat.add_zero] at l0 l1 l2
          have r0 := rank_of_notBack P _ _ l0 (by simp [notBack])
          have r1 := rank_of_notBack P _ _ l1 (by simp [notBack])
          have r2 := rank_jmp P _ _ l2
          match j, hj, hget with
          | 0, _, hget =>
            simp only [List.getElem?_cons_zero, List.getElem?_cons_succ, Option.some.injEq] at hget
            subst hget
            simp only [edgeOK, Nat.add_zero]
            omega
          | 1, _, hget =>
            simp only [List.getElem?_cons_zero, List.getElem?_cons_succ, Option.some.injEq] at hget
            subst hget
            simp only [edgeOK, Nat.add_zero]
            omega
          | 2, _, hget =>
            simp only [List.getElem?_cons_zero, List.getElem?_cons_succ, Option.some.injEq] at hget
            subst hget
            simp only [edgeOK, Nat.add_zero]
            omega
          | n + 3, hj, _ => omega
        | plus c =>
          simp only [Block.emit] at hblk
          subst hblk
          simp only [List.length_cons, List.length_nil, Nat.zero_add, Nat.reduceAdd] at hj hsize hrk hlk hnx
          have l0 := hlk 0 (by omega)
          have l1 := hlk 1 (by omega)
          simp only [List.getElem?_cons_zero, List.getElem?_cons_succ, Nat.add_zero] at l0 l1
          have r0 := rank_of_notBack P _ _ l0 (by simp [notBack])
          have r1 := rank_split_back P _ _ _ l1 (by omega)
          match j, hj, hget with
          | 0, _, hget =>
            simp only [List.getElem?_cons_zero, List.getElem?_cons_succ, Option.some.injEq] at hget
            subst hget
            simp only [edgeOK, Nat.add_zero]
            omega
          | 1, _, hget =>
            simp only [List.getElem?_cons_zero, List.getElem?_cons_succ, Option.some.injEq] at hget
            subst hget
            simp only [edgeOK, Nat.add_zero]
            omega
          | n + 2, hj, _ => omega
        | opt c =>
          simp only [Block.emit] at hblk
          subst hblk
          simp only [List.length_cons, List.length_nil, Nat.zero_add, Nat.reduceAdd] at hj hsize hrk hlk hnx
          have l0 := hlk 0 (by omega)
          have l1 := hlk 1 (by omega)
          simp only [List.getElem?_cons_zero, List.getElem?_cons_succ, Nat.add_zero] at l0 l1
          have r0 := rank_of_notBack P _ _ l0 (by simp [notBack])
          have r1 := rank_of_notBack P _ _ l1 (by simp [notBack])
          match j, hj, hget with
          | 0, _, hget =>
            simp only [List.getElem?_cons_zero, List.getElem?_cons_succ, Option.some.injEq] at hget
            subst hget
            simp only [edgeOK, Nat.add_zero]
            omega
          | 1, _, hget =>
            simp only [List.getElem?_cons_zero, List.getElem?_cons_succ, Option.some.injEq] at hget
            subst hget
            simp only [edgeOK, Nat.add_zero]
            omega
          | n + 2, hj, _ => omega
    · -- beyond the block: induction hypothesis with the block moved into the prefix
      have := ih (pre ++ b.emit pre.length) (by
          unfold Closed at hc ⊢
          cases r with
          | nil => simp at hin; have := emit_length_pos pre.length b
                   have h2 := congrArg Option.isSome hget
                   simp [emitAll] at h2; omega
          | cons x y => simpa [List.getLast?_cons_cons] using hc) pc inst
      simp only [List.length_append, List.append_assoc] at this
      exact this hget (by omega)

/-- every program `compilePattern` emits passes the edge check -/
theorem compile_progOK (pat : SeqPat) (insts : Array Inst) (h : compilePattern pat = .ok insts) : ProgOK insts := by
  simp only [compilePattern, bind, Except.bind] at h
  split at h
  · simp at h
  · rename_i ptr hseq
    obtain ⟨bs, hbs⟩ := compileSeq_blocks _ _ _ hseq
    simp only [pure, Except.pure] at h
    injection h with h
    have key : ∃ bs', Closed bs' ∧ insts.toList = [] ++ emitAll ([] : List Inst).length bs' := by
      by_cases hm : pat.mustTail = true
      · refine ⟨[.sav 0] ++ bs ++ [.sav 1, .tail, .sav 1, .fin], by
          unfold Closed; rw [List.getLast?_append]; simp, ?_⟩
        rw [← h]
        simp only [hm, if_true, Array.toList_push, hbs, emitAll_append]
        simp [emitAll, Block.emit]
      · refine ⟨[.sav 0] ++ bs ++ [.sav 1, .fin], by
          unfold Closed; rw [List.getLast?_append]; simp, ?_⟩
        rw [← h]
        simp only [hm, Bool.false_eq_true, if_false, Array.toList_push, hbs, emitAll_append]
        simp [emitAll, Block.emit]
    obtain ⟨bs', hc, hl⟩ := key
    have hA : insts = ([] ++ emitAll ([] : List Inst).length bs').toArray := by
      rw [← hl]
    intro pc hpc
    have := blocks_ok bs' [] hc pc insts[pc] (by rw [← hA]; simp [hpc]) (Nat.zero_le _)
    rw [← hA] at this
    exact this

theorem mu_lt_vmFuel (src : Array Nat) (insts : Array Inst) (pc sp : Nat) : mu insts src pc sp < vmFuel src insts := by
  unfold mu vmFuel
  have h1 := rank_lt insts pc
  have h2 : (src.size - sp) * (2 * insts.size + 2) ≤ src.size * (2 * insts.size + 2) :=
    Nat.mul_le_mul_right _ (Nat.sub_le _ _)
  have h3 : (2 * insts.size + 2) * (src.size + 1) = src.size * (2 * insts.size + 2) + (2 * insts.size + 2) := by
    rw [Nat.mul_add, Nat.mul_one, Nat.mul_comm]
  generalize (src.size - sp) * (2 * insts.size + 2) = A at *
  generalize src.size * (2 * insts.size + 2) = B at *
  omega

/-- one run of the VM on a compiled program, with the fuel `Find` gives it -/
theorem vm_compiled_good (pat : SeqPat) (insts : Array Inst) (h : compilePattern pat = .ok insts)
    (src : Array Nat) (cap sp : Nat) :
    Good #[] (vm src insts cap (vmFuel src insts) 0 sp 1 #[]) := by
  have hok := compile_progOK pat insts h
  have hpos : 0 < insts.size := by
    simp only [compilePattern, bind, Except.bind] at h
    split at h
    · simp at h
    · simp only [pure, Except.pure] at h
      injection h with h
      rw [← h]; simp
  exact vm_good src insts cap hok _ 0 sp 1 #[] hpos (mu_lt_vmFuel src insts 0 sp)

end GLua.PmProofs
