/-
  C14, `vm_eq_reference` beyond literals — definitions.

  The fragment is described by a tokenizer over the pattern bytes (`tokItems`): a pattern of the fragment is a
  sequence of single-character items (literal byte, `.`, `%x`, `[set]`), each optionally followed by one of the
  quantifiers `* + - ?`, optionally closed by the anchor `$` (the anchor `^` is split off before).
  `refItems` is the reference backtracking matcher on the tokenized form (it is proved equal to lstrlib's `match`
  on the bytes in PmFragSpec), the program the Model compiles is `fragProg` (PmFragParse), and the simulation between
  the Model's VM on that program and `refItems` is in PmFragVm.
-/
import GLua.Model.Pm
import GLua.Spec.LuaPattern
import GLua.Proofs.PmCompile

namespace GLua.PmProofs
open GLua.Pm GLua.LuaPattern

inductive Quant where
  | one | star | plus | minus | opt
deriving DecidableEq, Repr

/-- a single-character class (as the reference delimits it) with its quantifier -/
structure Item where
  cls : Cls
  q : Quant
deriving DecidableEq, Repr

/-- "the byte at position i exists and belongs to the class" (the reference's `s < src_end && singlematch(...)`) -/
def mOf (src : Array Nat) (cls : Cls) (i : Nat) : Bool :=
  match src[i]? with
  | some ch => singleMatch ch cls
  | none => false

/-- first alternative unless it fails -/
def orElse {α : Type} (a b : Res α) : Res α :=
  match a with
  | .fail => b
  | x => x

/-- the reference matcher on a tokenized pattern (`tail` = the pattern ends with the anchor `$`) -/
def refItems (src : Array Nat) (tail : Bool) : List Item → List Cap → Nat → Res (Nat × List Cap)
  | [], caps, s => if tail then (if s = src.size then .ok (s, caps) else .fail) else .ok (s, caps)
  | it :: r, caps, s =>
    match it.q with
    | .one => if mOf src it.cls s then refItems src tail r caps (s+1) else .fail
    | .opt =>
      if mOf src it.cls s then orElse (refItems src tail r caps (s+1)) (refItems src tail r caps s)
      else refItems src tail r caps s
    | .star => maxExpand (fun s' => refItems src tail r caps s') s (countMax (mOf src it.cls) s (src.size - s))
    | .plus =>
      if mOf src it.cls s then
        maxExpand (fun s' => refItems src tail r caps s') (s+1) (countMax (mOf src it.cls) (s+1) (src.size - (s+1)))
      else .fail
    | .minus => minExpand (fun s' => refItems src tail r caps s') (mOf src it.cls) (src.size + 1 - s) s

/-! ### the tokenizer = the decidable description of the fragment -/

/-- the classes `parseClassSet` builds for the content of a set (after the optional `^`), written along the
    reference's reading of the content (`matchbracketclass`: `%y` pairs, `x-z` ranges, single bytes) -/
def setD : List Nat → List Class
  | [] => []
  | [x] => [.char x]
  | [x, y] => if x = 37 then [.single y] else .char x :: setD [y]
  | x :: y :: z :: r =>
    if x = 37 then .single y :: setD (z :: r)
    else if y = 45 then .range (.char x) (.char z) :: setD r
    else .char x :: setD (y :: z :: r)

/-- the Model's class for a set with the given content (with its leading `^`, if any) -/
def setClass : List Nat → Class
  | 94 :: content => .set true (setD content)
  | content => .set false (setD content)

/-- the Model's class for a reference class -/
def toClass : Cls → Class
  | .any => .dot
  | .esc cl => .single cl
  | .lit c => .char c
  | .set content => setClass content

/-- restrictions on a set's content (after the optional `^`) under which the Model's parse and the reference's
    reading coincide.  Following the reference's reading: no range whose upper bound is `%` (the open finding
    C14-set-range-upper-escape: `[a-%z]`); the other conditions (`%` only as the first half of a pair, `]` only as the
    very first byte or escaped) hold for every content `classEnd` delimits outside that case and are stated so that
    they need not be derived. `first` = this is the first byte of the content. -/
def setOKf : Bool → List Nat → Bool
  | _, [] => true
  | first, [x] => x != 37 && (first || x != 93)
  | first, [x, y] => if x = 37 then true else (first || x != 93) && setOKf false [y]
  | first, x :: y :: z :: r =>
    if x = 37 then setOKf false (z :: r)
    else if y = 45 then (first || x != 93) && z != 37 && z != 93 && setOKf false r
    else (first || x != 93) && setOKf false (y :: z :: r)

def setOK (body : List Nat) : Bool := body != [] && setOKf true body

/-- the content of a set after the optional `^` -/
def setBody : List Nat → List Nat
  | 94 :: x => x
  | x => x

/-- the first single-character class of the pattern, if it belongs to the fragment -/
def tokCls : List Nat → Option (Cls × List Nat)
  | [] => none
  | c :: r =>
    if c = 40 ∨ c = 41 then none
    else if c = 37 then
      match r with
      | [] => none
      | cl :: r' => if isDigit cl ∨ cl = 98 ∨ cl = 102 then none else some (.esc cl, r')
    else if c = 91 then
      match classEnd (c :: r) with
      | .ok (.set content, rest) =>
        if setOK (setBody content) then some (.set content, rest) else none
      | _ => none
    else if c = 46 then some (.any, r)
    else some (.lit c, r)

def tokQ : List Nat → Quant × List Nat
  | 42 :: r => (.star, r)
  | 43 :: r => (.plus, r)
  | 45 :: r => (.minus, r)
  | 63 :: r => (.opt, r)
  | r => (.one, r)

/-- tokenize a pattern body (after the anchor `^` has been removed); `none` = outside the fragment -/
def tokItems : Nat → List Nat → Option (List Item × Bool)
  | 0, _ => none
  | _, [] => some ([], false)
  | f+1, c :: r =>
    if c = 36 ∧ r = [] then some ([], true) else
    match tokCls (c :: r) with
    | none => none
    | some (cls, r1) =>
      match tokItems f (tokQ r1).2 with
      | none => none
      | some (its, t) => some (⟨cls, (tokQ r1).1⟩ :: its, t)

/-- the fragment, bytes unrestricted (a pattern may contain NUL: the Spec then reads it byte-transparently, as lstrlib does
    from 5.2 on; lstrlib 5.1 reads a pattern as a C string and would stop at the NUL — the 5.1 manual excludes such
    patterns: "a pattern cannot contain embedded zeros") -/
def inFragment0 (pat : List Nat) : Bool :=
  (tokItems ((splitAnchor pat).2.length + 1) (splitAnchor pat).2).isSome

/-- **the fragment**: a decidable predicate on pattern byte strings (no NUL: the domain of the 5.1 manual) -/
def inFragment (pat : List Nat) : Bool := !pat.contains 0 && inFragment0 pat

/-! ### the program the Model compiles for a tokenized pattern -/
def Item.block (it : Item) : Block :=
  match it.q with
  | .one => .chr (toClass it.cls)
  | .star => .star (toClass it.cls)
  | .plus => .plus (toClass it.cls)
  | .minus => .lazy (toClass it.cls)
  | .opt => .opt (toClass it.cls)

def tailInsts (tail : Bool) : List Inst :=
  if tail then [.save 1, .tailMatch, .save 1, .matchI] else [.save 1, .matchI]

def fragProg (its : List Item) (tail : Bool) : Array Inst :=
  ([Inst.save 0] ++ (emitAll 1 (its.map Item.block) ++ tailInsts tail)).toArray

end GLua.PmProofs
