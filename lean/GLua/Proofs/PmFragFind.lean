/-
  C14, `vm_eq_reference` beyond literals — assembling the pieces: classes agree, one VM run = `doMatch`,
  `Find`'s loop = the reference scan, `strFind` = reference `string.find`.
-/
import GLua.Proofs.PmFragVm
import GLua.Proofs.PmFragSpec
import GLua.Proofs.PmFragParse

namespace GLua.PmProofs
open GLua.Pm GLua.LuaPattern

set_option linter.unusedSimpArgs false
set_option linter.unusedVariables false

/-! ### the Model's class of an item matches what the reference's class matches -/
def clsOK : Cls → Bool
  | .set content => setOK (setBody content)
  | _ => true

theorem toClass_matches (cls : Cls) (h : clsOK cls = true) (ch : Nat) :
    (toClass cls).Matches (ch : Int) = singleMatch ch cls := by
  cases cls with
  | any => simp [toClass, Class.Matches, singleMatch]
  | esc cl => simp [toClass, Class.Matches, singleMatch, class_agree]
  | lit c =>
    simp only [toClass, Class.Matches, singleMatch]
    rw [Bool.eq_iff_iff]
    simp only [beq_iff_eq]
    constructor <;> intro h <;> omega
  | set content => exact setClass_matches content h ch

theorem tokItems_clsOK : ∀ (ft : Nat) (bytes : List Nat) (its : List Item) (tail : Bool),
    tokItems ft bytes = some (its, tail) → ∀ it ∈ its, clsOK it.cls = true := by
  intro ft
  induction ft with
  | zero => intro bytes its tail h; simp [tokItems] at h
  | succ ft ih =>
    intro bytes its tail h
    cases bytes with
    | nil => simp [tokItems] at h; simp [h.1]
    | cons c r =>
      unfold tokItems at h
      by_cases hd : c = 36 ∧ r = []
      · simp [hd] at h; simp [h.1]
      · simp only [hd, if_false] at h
        cases hc : tokCls (c :: r) with
        | none => simp [hc] at h
        | some v =>
          obtain ⟨cls, r1⟩ := v
          simp only [hc] at h
          cases ht : tokItems ft (tokQ r1).2 with
          | none => simp [ht] at h
          | some w =>
            obtain ⟨its', t⟩ := w
            simp only [ht, Option.some.injEq, Prod.mk.injEq] at h
            obtain ⟨rfl, rfl⟩ := h
            intro it hit
            simp only [List.mem_cons] at hit
            rcases hit with rfl | hit
            · rcases tokCls_cases c r cls r1 hc with ⟨_, cl, _, hcl, _⟩ | ⟨_, content, hcl, _, hok, _⟩ | ⟨_, hcl, _⟩ |
                  ⟨_, _, _, _, _, _, hcl, _⟩
              · simp [hcl, clsOK]
              · simp [hcl, clsOK, hok]
              · simp [hcl, clsOK]
              · simp [hcl, clsOK]
            · exact ih _ _ _ ht it hit

/-! ### one run of the VM from pc 0 -/
theorem frag_run (src : Array Nat) (cap : Nat) (its : List Item) (tail : Bool)
    (hM : ∀ it ∈ its, clsOK it.cls = true) (sp : Nat) (hsp : sp ≤ src.size)
    (hcap : src.size + its.length + 3 ≤ cap) (fuel : Nat) :
    vm src (fragProg its tail) cap fuel 0 sp 1 #[] = .error .fuel ∨
    match refItems src tail its [] sp with
    | .ok (e, _) => vm src (fragProg its tail) cap fuel 0 sp 1 #[] = .ok (true, e, #[sp * 2, e * 2])
    | .fail => ∃ sp' m', vm src (fragProg its tail) cap fuel 0 sp 1 #[] = .ok (false, sp', m')
    | .error _ => False := by
  cases fuel with
  | zero => exact Or.inl rfl
  | succ f =>
    have h0 : (fragProg its tail)[0]? = some (.save 0) := by simp [fragProg]
    have hc' : ¬ (1 + 1 > cap) := by omega
    have hsim := vm_sim src cap sp tail (fragProg its tail) its [Inst.save 0] rfl
      (fun it hit ch => toClass_matches it.cls (hM it hit) ch) [] f sp 2 #[sp * 2] (Or.inl rfl) hsp
      (by omega)
    simp only [List.length_cons, List.length_nil, Nat.zero_add] at hsim
    conv => lhs; lhs; unfold vm
    conv => rhs; unfold vm
    simp only [h0, setCap0, bind, Except.bind, hc', if_false]
    rcases hsim with he | h
    · rw [he]; exact Or.inl rfl
    · right
      cases hr : refItems src tail its [] sp with
      | error e => rw [hr] at h; exact h
      | ok v =>
        obtain ⟨e, cs⟩ := v
        rw [hr] at h
        replace h : vm src (fragProg its tail) cap f 1 sp 2 #[sp * 2] = .ok (true, e, #[sp * 2, e * 2]) := h
        show _ = Except.ok (true, e, #[sp * 2, e * 2])
        rw [h]
        simp [pure, Except.pure]
      | fail =>
        rw [hr] at h
        obtain ⟨sp', m', hv, hm'⟩ := h
        simp only
        rw [hv]
        rcases hm' with rfl | ⟨x, rfl⟩
        · exact ⟨sp, #[0], by simp [restoreCapture, pure, Except.pure]⟩
        · exact ⟨sp, #[0, x], by simp [restoreCapture, pure, Except.pure]⟩

/-! ### the reference never touches the capture list on a pattern without captures -/
theorem maxExpand_ok {α : Type} (k : Nat → Res α) (s : Nat) : ∀ (n : Nat) (v : α), maxExpand k s n = .ok v → ∃ s', k s' = .ok v := by
  intro n
  induction n with
  | zero => intro v h; exact ⟨s, h⟩
  | succ n ih =>
    intro v h
    unfold maxExpand at h
    cases hk : k (s + n + 1) with
    | fail => rw [hk] at h; exact ih v h
    | ok w => rw [hk] at h; exact ⟨s + n + 1, by rw [hk]; exact h⟩
    | error e => rw [hk] at h; cases h

theorem minExpand_ok {α : Type} (k : Nat → Res α) (mo : Nat → Bool) : ∀ (n s : Nat) (v : α), minExpand k mo n s = .ok v → ∃ s', k s' = .ok v := by
  intro n
  induction n with
  | zero => intro s v h; exact ⟨s, h⟩
  | succ n ih =>
    intro s v h
    unfold minExpand at h
    cases hk : k s with
    | fail =>
      rw [hk] at h
      simp only at h
      split at h
      · exact ih _ v h
      · cases h
    | ok w => rw [hk] at h; exact ⟨s, by rw [hk]; exact h⟩
    | error e => rw [hk] at h; cases h

theorem refItems_caps (src : Array Nat) (tail : Bool) : ∀ (its : List Item) (caps : List Cap) (s e : Nat) (cs : List Cap),
    refItems src tail its caps s = .ok (e, cs) → cs = caps := by
  intro its
  induction its with
  | nil =>
    intro caps s e cs h
    simp only [refItems] at h
    split at h
    · split at h
      · injection h with h; injection h with _ h2; exact h2.symm
      · cases h
    · injection h with h; injection h with _ h2; exact h2.symm
  | cons it r ih =>
    intro caps s e cs h
    unfold refItems at h
    cases hq : it.q with
    | one =>
      simp only [hq] at h
      split at h
      · exact ih _ _ _ _ h
      · cases h
    | opt =>
      simp only [hq, orElse] at h
      split at h
      · cases hk : refItems src tail r caps (s + 1) with
        | fail => rw [hk] at h; exact ih _ _ _ _ h
        | ok w => rw [hk] at h; obtain ⟨e', cs'⟩ := w; injection h with h; injection h with h1 h2; subst h1 h2; exact ih _ _ _ _ hk
        | error x => rw [hk] at h; cases h
      · exact ih _ _ _ _ h
    | star =>
      simp only [hq] at h
      obtain ⟨s', hs'⟩ := maxExpand_ok _ _ _ _ h
      exact ih _ _ _ _ hs'
    | plus =>
      simp only [hq] at h
      split at h
      · obtain ⟨s', hs'⟩ := maxExpand_ok _ _ _ _ h
        exact ih _ _ _ _ hs'
      · cases h
    | minus =>
      simp only [hq] at h
      obtain ⟨s', hs'⟩ := minExpand_ok _ _ _ _ _ h
      exact ih _ _ _ _ hs'

/-! ### one run of the compiled program = one `do_match` of the reference -/

/-- the Model's result of one attempt at `sp` against the reference's: same end, capture array = [start, end]
    (the pattern has no captures), or both fail; the reference raises no error -/
def RunAgrees (src : Array Nat) (p : List Nat) (sp : Nat) (out : M (Bool × Nat × Caps)) : Prop :=
  match doMatch src sp p with
  | .ok (e, cs) => out = .ok (true, e, #[sp * 2, e * 2]) ∧ cs = []
  | .fail => ∃ sp' m', out = .ok (false, sp', m')
  | .error _ => False

theorem splitAnchor_length (pat : List Nat) : (splitAnchor pat).2.length ≤ pat.length := by
  rcases splitAnchor_cases pat with ⟨r, hpat, hsa⟩ | ⟨hsa, _⟩
  · rw [hsa, hpat]; simp
  · rw [hsa]; exact Nat.le_refl _

theorem frag_pipeline (pat : List Nat) (hne : 0 < pat.length) (hfrag : inFragment0 pat = true) :
    ∃ (sq : SeqPat) (insts : Array Inst), parseTop pat.toArray = .ok sq ∧ sq.mustHead = (splitAnchor pat).1 ∧
      compilePattern sq = .ok insts ∧
      ∀ (cap : Nat) (src : Array Nat) (s : Nat), s ≤ src.size → src.size + pat.length + 3 ≤ cap →
        RunAgrees src (splitAnchor pat).2 s (vm src insts cap (vmFuel src insts) 0 s 1 #[]) := by
  unfold inFragment0 at hfrag
  cases ht : tokItems ((splitAnchor pat).2.length + 1) (splitAnchor pat).2 with
  | none => simp [ht] at hfrag
  | some v =>
    obtain ⟨its, tail⟩ := v
    have hparse := parseTop_items pat hne its tail ht
    have hcomp := compile_items its (splitAnchor pat).1 tail
    refine ⟨_, _, hparse, rfl, hcomp, ?_⟩
    intro cap src s hs hcap
    have hlen := tokItems_length _ _ _ _ ht
    have hlen2 := splitAnchor_length pat
    have hspec : doMatch src s (splitAnchor pat).2 = refItems src tail its [] s :=
      spec_items src _ _ its tail ht _ [] s (by omega)
    have hgood := vm_compiled_good _ _ hcomp src cap s
    have hrun := frag_run src cap its tail (tokItems_clsOK _ _ _ _ ht) s hs (by omega) (vmFuel src (fragProg its tail))
    unfold RunAgrees
    rw [hspec]
    rcases hrun with he | h
    · rw [he] at hgood; exact absurd hgood (by simp [Good])
    · cases hr : refItems src tail its [] s with
      | error e => rw [hr] at h; exact h
      | fail => rw [hr] at h; exact h
      | ok w =>
        obtain ⟨e, cs⟩ := w
        rw [hr] at h
        exact ⟨h, refItems_caps src tail its [] s e cs hr⟩

/-! ### `Find`'s loop with limit 1 against the reference's `scanFrom`, for any run that agrees with `do_match` -/
theorem first_loop_gen (src : Array Nat) (p : List Nat) (anchor : Bool) (run : Nat → M (Bool × Nat × Caps))
    (hrun : ∀ sp, sp ≤ src.size → RunAgrees src p sp (run sp)) :
    ∀ (k s fuel : Nat), s + k = src.size + 1 → fuel ≥ k + 1 →
      findLoop run src.size 1 anchor fuel s [] =
        .ok (match scanFrom src p anchor k s with
             | .ok m => [#[m.s * 2, m.e * 2]]
             | _ => []) ∧
      (∀ e, scanFrom src p anchor k s ≠ .error e) ∧ (∀ m, scanFrom src p anchor k s = .ok m → m.caps = []) := by
  intro k
  induction k with
  | zero =>
    intro s fuel hs hf
    obtain ⟨f, rfl⟩ : ∃ f, fuel = f + 1 := ⟨fuel - 1, by omega⟩
    have : s > src.size := by omega
    simp [findLoop, this, scanFrom, pure, Except.pure]
  | succ k ih =>
    intro s fuel hs hf
    obtain ⟨f, rfl⟩ : ∃ f, fuel = f + 1 := ⟨fuel - 1, by omega⟩
    have hle : ¬ s > src.size := by omega
    have hr := hrun s (by omega)
    unfold RunAgrees at hr
    unfold findLoop scanFrom
    simp only [hle, if_false, bind, Except.bind]
    cases hd : doMatch src s p with
    | error e => rw [hd] at hr; exact absurd hr (by simp)
    | ok w =>
      obtain ⟨e, cs⟩ := w
      rw [hd] at hr
      obtain ⟨hv, hcs⟩ := hr
      rw [hv]
      simp [pure, Except.pure, hcs]
    | fail =>
      rw [hd] at hr
      obtain ⟨sp', m', hv⟩ := hr
      rw [hv]
      simp only [Bool.false_eq_true, if_false, List.length_nil]
      cases anchor with
      | true => simp [pure, Except.pure]
      | false =>
        by_cases hlt : s < src.size
        · simp only [hlt, Bool.not_false, and_self, if_true]
          have := ih (s + 1) f (by omega) (by omega)
          simpa using this
        · have hk : k = 0 := by omega
          subst hk
          have hgt : s + 1 > src.size := by omega
          obtain ⟨f', rfl⟩ : ∃ f', f = f' + 1 := ⟨f - 1, by omega⟩
          simp [hlt, findLoop, hgt, pure, Except.pure]

/-! ### `string.find` -/
theorem find_frag_eq (pat subj : List Nat) (init : Int) (hfrag : inFragment0 pat = true)
    (hsz : subj.length + pat.length + 3 ≤ maxRecursionLevel) :
    modelFind pat subj init = specFind pat subj init := by
  unfold modelFind specFind Pm.strFind LuaPattern.strFind firstMatch
  simp only [init_eq, List.size_toArray, bind, Except.bind, pure, Except.pure]
  generalize hsrc : subj.toArray = src
  have hn : subj.length = src.size := by rw [← hsrc]; simp
  rw [hn] at hsz ⊢
  generalize hi : initOffset init src.size = i
  have hile : i ≤ src.size := by
    rw [← hi]; unfold initOffset; simp only []; repeat' split
    all_goals omega
  cases pat with
  | nil =>
    have hk : src.size + 1 - i = (src.size - i) + 1 := by omega
    simp [splitAnchor, hk, scanFrom, doMatch, matchF, pushCaptures, allCaptures]
  | cons c r =>
    obtain ⟨sq, insts, hparse, hhead, hcomp, hrun⟩ := frag_pipeline (c :: r) (by simp) hfrag
    have hne : ¬ ((c :: r).length = 0) := by simp
    rcases hsa : splitAnchor (c :: r) with ⟨anchor, p⟩
    rw [hsa] at hhead hrun
    simp only at hhead hrun
    have hloop := first_loop_gen src p anchor
      (fun sp => vm src insts maxRecursionLevel (vmFuel src insts) 0 sp 1 #[])
      (fun sp hsp => hrun maxRecursionLevel src sp hsp (by omega)) (src.size + 1 - i) i (src.size + 2) (by omega) (by omega)
    obtain ⟨hfl, hnoerr, hcaps⟩ := hloop
    simp only [hne, if_false, find, liftErr, hparse, hcomp, bind, Except.bind, hhead, hfl]
    cases hsf : scanFrom src p anchor (src.size + 1 - i) i with
    | error e => exact absurd hsf (hnoerr e)
    | fail => simp [pure, Except.pure]
    | ok m =>
      have hc := hcaps m hsf
      simp [Pm.capture, pushCaps, pushCaptures, allCaptures, hc, pure, Except.pure, bind, Except.bind]

end GLua.PmProofs
