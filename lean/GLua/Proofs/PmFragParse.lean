/-
  C14, `vm_eq_reference` beyond literals — the Model's parser (scanner + parsePattern + parseClass) and compiler on a
  pattern of the fragment: `parseTop` yields the items of the tokenizer, `compilePattern` yields `fragProg`.
-/
import GLua.Proofs.PmFrag
import GLua.Proofs.PmLit
import GLua.Proofs.PmFragSet

namespace GLua.PmProofs
open GLua.Pm GLua.LuaPattern

set_option linter.unusedSimpArgs false
set_option linter.unusedVariables false

/-- the Model's pattern node for an item -/
def Item.pat (it : Item) : Pat :=
  match it.q with
  | .one => .single (toClass it.cls)
  | .star => .repeat 42 (toClass it.cls)
  | .plus => .repeat 43 (toClass it.cls)
  | .minus => .repeat 45 (toClass it.cls)
  | .opt => .repeat 63 (toClass it.cls)

def pushPat (acc : SeqPat) (p : Pat) : SeqPat := { acc with pats := acc.pats ++ [p] }

def isQuantNat (c : Nat) : Bool := c = 42 || c = 43 || c = 45 || c = 63

/-! ### shapes of `tokCls` -/
theorem tokCls_cases (c : Nat) (r : List Nat) (cls : Cls) (r1 : List Nat) (h : tokCls (c :: r) = some (cls, r1)) :
    (c = 37 ∧ ∃ cl, r = cl :: r1 ∧ cls = .esc cl ∧ True ∧ isDigit cl = false ∧ cl ≠ 98 ∧ cl ≠ 102) ∨
    (c = 91 ∧ ∃ content, cls = .set content ∧ classEnd (91 :: r) = .ok (.set content, r1) ∧
        setOK (setBody content) = true ∧ True) ∨
    (c = 46 ∧ cls = .any ∧ r1 = r) ∨
    (True ∧ c ≠ 40 ∧ c ≠ 41 ∧ c ≠ 37 ∧ c ≠ 91 ∧ c ≠ 46 ∧ cls = .lit c ∧ r1 = r) := by
  unfold tokCls at h
  by_cases h0 : c = 40 ∨ c = 41
  · simp [h0] at h
  · simp only [h0, if_false] at h
    have hc0 : True := trivial
    have h40 : c ≠ 40 := fun e => h0 (Or.inl e)
    have h41 : c ≠ 41 := fun e => h0 (Or.inr e)
    by_cases h37 : c = 37
    · subst h37
      simp only [if_true] at h
      cases r with
      | nil => simp at h
      | cons cl r' =>
        simp only at h
        by_cases hcl : isDigit cl = true ∨ cl = 98 ∨ cl = 102
        · simp [hcl] at h
        · simp only [hcl, if_false, Option.some.injEq, Prod.mk.injEq] at h
          obtain ⟨rfl, rfl⟩ := h
          refine Or.inl ⟨rfl, cl, rfl, rfl, trivial, ?_, fun e => hcl (Or.inr (Or.inl e)),
            fun e => hcl (Or.inr (Or.inr e))⟩
          cases hd : isDigit cl with
          | false => rfl
          | true => exact absurd (Or.inl hd) hcl
    · simp only [h37, if_false] at h
      by_cases h91 : c = 91
      · subst h91
        simp only [if_true] at h
        cases hce : classEnd (91 :: r) with
        | error e => simp [hce] at h
        | fail => simp [hce] at h
        | ok v =>
          obtain ⟨cl, rest⟩ := v
          rw [hce] at h
          cases cl with
          | set content =>
            by_cases hg : setOK (setBody content) = true
            · simp only [hg, if_true, Option.some.injEq, Prod.mk.injEq] at h
              obtain ⟨rfl, rfl⟩ := h
              exact Or.inr (Or.inl ⟨rfl, content, rfl, rfl, hg, trivial⟩)
            · simp only [hg, if_false] at h
              cases h
          | any => simp at h
          | esc _ => simp at h
          | lit _ => simp at h
      · simp only [h91, if_false] at h
        by_cases h46 : c = 46
        · subst h46
          simp only [if_true, Option.some.injEq, Prod.mk.injEq] at h
          obtain ⟨rfl, rfl⟩ := h
          exact Or.inr (Or.inr (Or.inl ⟨rfl, rfl, rfl⟩))
        · simp only [h46, if_false, Option.some.injEq, Prod.mk.injEq] at h
          obtain ⟨rfl, rfl⟩ := h
          exact Or.inr (Or.inr (Or.inr ⟨hc0, h40, h41, h37, h91, h46, rfl, rfl⟩))

/-! ### single steps of `parsePattern` on the scanner -/
section steps
variable (P : Array Nat)

theorem nextPos_at (k : Nat) (sv : ScannerState) (h : k < P.size) :
    (scAt P k sv).nextPos = if k + 1 = P.size ∧ (k = 0) then EOS else (k : Int) := by
  unfold Scanner.nextPos scAt stAt EOS
  by_cases hk : k = 0
  · subst hk
    by_cases h1 : P.size = 1
    · simp [h1]
    · have : ¬ ((0 : Int) ≥ (P.size : Int) - 1) := by omega
      simp [h1, this]
      omega
  · have h1 : ¬ ((k : Int) - 1 = -1) := by omega
    have h2 : ¬ ((k : Int) - 1 ≥ (P.size : Int) - 1) := by omega
    simp [hk, h1, h2]

/-- a byte that stands for itself at the start of an item -/
theorem pp_lit {tl : Bool} (k : Nat) (sv : ScannerState) (hk : k < P.size) (f : Nat) (acc : SeqPat)
    (hc : P[k] ≠ 37 ∧ P[k] ≠ 46 ∧ P[k] ≠ 91 ∧ P[k] ≠ 40 ∧ P[k] ≠ 41)
    (h36 : P[k] = 36 → k + 1 < P.size)
    (hq : isQuantNat P[k] = true → ∀ cls, acc.pats.getLast? ≠ some (.single cls)) :
    parsePattern (f + 1) (scAt P k sv) tl acc =
      parsePattern f (scAt P (k + 1) sv) tl (pushPat acc (.single (.char (P[k] : Int)))) := by
  obtain ⟨h37, h46, h91, h40, h41⟩ := hc
  generalize hcv : P[k] = c at *
  have i37 : (c : Int) ≠ 37 := by omega
  have i46 : (c : Int) ≠ 46 := by omega
  have i91 : (c : Int) ≠ 91 := by omega
  have i40 : (c : Int) ≠ 40 := by omega
  have i41 : (c : Int) ≠ 41 := by omega
  have im1 : (c : Int) ≠ -1 := by omega
  have hgc : ((P[k] : Nat) : Int) = (c : Int) := by rw [hcv]
  conv => lhs; unfold parsePattern
  rw [peek_at P k sv hk]
  simp only [bind, Except.bind, hgc]
  by_cases h93 : c = 93
  · subst h93
    simp [parseClass, next_at P k sv hk, hcv, EOS, isQuant, pushPat, bind, Except.bind, pure, Except.pure]
  · have i93 : (c : Int) ≠ 93 := by omega
    by_cases hqq : isQuantNat c = true
    · have hgl := hq hqq
      have hqi : isQuant (c : Int) = true := by
        simp only [isQuantNat, Bool.or_eq_true, decide_eq_true_eq] at hqq
        simp only [isQuant, Bool.or_eq_true, decide_eq_true_eq]
        omega
      simp only [i37, i46, i91, i93, i41, i40, or_self, if_false, hqi, if_true, next_at P k sv hk, hcv]
      cases hl : acc.pats.getLast? with
      | none => simp [pushPat]
      | some p =>
        cases p with
        | single cls => exact absurd hl (hgl cls)
        | _ => simp [pushPat]
    · have hqi : isQuant (c : Int) = false := by
        simp only [isQuantNat, Bool.or_eq_true, decide_eq_true_eq, not_or] at hqq
        simp only [isQuant, Bool.or_eq_false_iff, decide_eq_false_iff_not]
        omega
      by_cases h36' : c = 36
      · subst h36'
        have hlt := h36 rfl
        have hnp := nextPos_at P k sv hk
        have hnp' : (scAt P k sv).nextPos = (k : Int) := by
          rw [hnp]; have : ¬ (k + 1 = P.size ∧ k = 0) := by omega
          simp [this]
        have hcond : ¬ ((scAt P k sv).nextPos = (scAt P k sv).length - 1 ∨ (scAt P k sv).nextPos = EOS) := by
          rw [hnp']
          simp only [Scanner.length, scAt, EOS]
          omega
        have hcond' : ¬ ((scAt P k sv).nextPos = (scAt P k sv).length - 1 ∨ (scAt P k sv).nextPos = -1) := hcond
        have hq36 : isQuant (36 : Int) = false := by decide
        simp [hq36, hcond, hcond', next_at P k sv hk, hcv, pushPat]
      · have i36 : (c : Int) ≠ 36 := by omega
        simp [i37, i46, i91, i93, i41, i40, i36, im1, hqi, EOS, next_at P k sv hk, hcv, pushPat]

theorem pp_dot {tl : Bool} (k : Nat) (sv : ScannerState) (hk : k < P.size) (f : Nat) (acc : SeqPat) (hc : P[k] = 46) :
    parsePattern (f + 1) (scAt P k sv) tl acc =
      parsePattern f (scAt P (k + 1) sv) tl (pushPat acc (.single .dot)) := by
  have hgc : ((P[k] : Nat) : Int) = 46 := by rw [hc]; rfl
  conv => lhs; unfold parsePattern
  rw [peek_at P k sv hk]
  simp only [bind, Except.bind, hgc]
  simp [parseClass, next_at P k sv hk, hc, pushPat, bind, Except.bind, pure, Except.pure]

theorem pp_esc {tl : Bool} (k : Nat) (sv : ScannerState) (hk : k + 1 < P.size) (f : Nat) (acc : SeqPat) (hc : P[k] = 37)
    (hcl : isDigit P[k + 1] = false ∧ P[k + 1] ≠ 98) :
    parsePattern (f + 1) (scAt P k sv) tl acc =
      parsePattern f (scAt P (k + 2) (stAt k)) tl (pushPat acc (.single (.single (P[k + 1] : Int)))) := by
  have hk0 : k < P.size := by omega
  have hgc : ((P[k] : Nat) : Int) = 37 := by rw [hc]; rfl
  generalize hcv : P[k + 1] = cl at *
  obtain ⟨hd, h98⟩ := hcl
  simp only [isDigit, Bool.and_eq_false_iff, decide_eq_false_iff_not] at hd
  have i48 : (cl : Int) ≠ 48 := by omega
  have i49 : ¬ ((49 : Int) ≤ (cl : Int) ∧ (cl : Int) ≤ 57) := by omega
  have i98 : (cl : Int) ≠ 98 := by omega
  have hsave : (scAt P k sv).save = scAt P k (stAt k) := by simp [Scanner.save, scAt]
  have hrest : (scAt P (k + 1) (stAt k)).restore = scAt P k (stAt k) := by simp [Scanner.restore, scAt]
  conv => lhs; unfold parsePattern
  rw [peek_at P k sv hk0]
  simp only [bind, Except.bind, hgc, if_true, hsave, next_at P k (stAt k) hk0, peek_at P (k + 1) (stAt k) hk, hcv,
    i48, i49, i98, if_false, hrest]
  simp [parseClass, next_at P k (stAt k) hk0, next_at P (k + 1) (stAt k) hk, hc, hcv, pushPat, bind, Except.bind, pure, Except.pure]

/-- a quantifier directly after a single-character class -/
theorem pp_quant {tl : Bool} (k : Nat) (sv : ScannerState) (hk : k < P.size) (f : Nat) (acc : SeqPat) (cls : Class)
    (hq : isQuantNat P[k] = true) :
    parsePattern (f + 1) (scAt P k sv) tl (pushPat acc (.single cls)) =
      parsePattern f (scAt P (k + 1) sv) tl (pushPat acc (.repeat (P[k] : Int) cls)) := by
  generalize hcv : P[k] = c at *
  have hgc : ((P[k] : Nat) : Int) = (c : Int) := by rw [hcv]
  simp only [isQuantNat, Bool.or_eq_true, decide_eq_true_eq] at hq
  have hqi : isQuant (c : Int) = true := by
    simp only [isQuant, Bool.or_eq_true, decide_eq_true_eq]
    omega
  have i37 : (c : Int) ≠ 37 := by omega
  have i46 : (c : Int) ≠ 46 := by omega
  have i91 : (c : Int) ≠ 91 := by omega
  have i93 : (c : Int) ≠ 93 := by omega
  have i40 : (c : Int) ≠ 40 := by omega
  have i41 : (c : Int) ≠ 41 := by omega
  conv => lhs; unfold parsePattern
  rw [peek_at P k sv hk]
  simp only [bind, Except.bind, hgc]
  simp [i37, i46, i91, i93, i41, i40, hqi, next_at P k sv hk, hcv, pushPat]

/-- the final `$` -/
theorem pp_tail (k : Nat) (sv : ScannerState) (hk : k + 1 = P.size) (f : Nat) (acc : SeqPat) (hc : P[k]'(by omega) = 36) :
    ∃ sc', parsePattern (f + 2) (scAt P k sv) true acc = .ok (sc', { acc with mustTail := true }) := by
  have hk0 : k < P.size := by omega
  have hgc : ((P[k] : Nat) : Int) = 36 := by rw [hc]; rfl
  have hnp := nextPos_at P k sv hk0
  have hcond : ((scAt P k sv).nextPos = (scAt P k sv).length - 1 ∨ (scAt P k sv).nextPos = EOS) := by
    rw [hnp]
    simp only [Scanner.length, scAt, EOS]
    by_cases h0 : k = 0
    · right
      rw [if_pos ⟨hk, h0⟩]
    · left
      have : ¬ (k + 1 = P.size ∧ k = 0) := by omega
      simp only [this, if_false]
      omega
  obtain ⟨sc', hn⟩ := next_end P sv (by omega)
  refine ⟨sc', ?_⟩
  conv => lhs; unfold parsePattern
  rw [peek_at P k sv hk0]
  simp only [bind, Except.bind, hgc]
  have hne : scAt P (k + 1) sv = scAt P P.size sv := by rw [hk]
  simp only [show ¬ ((36 : Int) = 37) by decide, show ¬ ((36 : Int) = 46 ∨ (36 : Int) = 91 ∨ (36 : Int) = 93) by decide,
    show ¬ ((36 : Int) = 41) by decide, show ¬ ((36 : Int) = 40) by decide, show isQuant 36 = false by decide,
    if_false, Bool.false_eq_true, if_true, hcond, true_and, or_self, next_at P k sv hk0, hne]
  conv => lhs; unfold parsePattern
  rw [peek_end P sv (by omega)]
  simp [bind, Except.bind, EOS, isQuant, hn, pure, Except.pure]

theorem pp_end (sv : ScannerState) (hk : 0 < P.size) (f : Nat) (acc : SeqPat) :
    ∃ sc', parsePattern (f + 1) (scAt P P.size sv) true acc = .ok (sc', acc) := by
  obtain ⟨sc', hn⟩ := next_end P sv hk
  refine ⟨sc', ?_⟩
  conv => lhs; unfold parsePattern
  rw [peek_end P sv hk]
  simp [bind, Except.bind, EOS, isQuant, hn, pure, Except.pure]

end steps

/-- a set of the fragment -/
theorem pp_set {tl : Bool} (pat : List Nat) (k : Nat) (sv : ScannerState) (content r1 : List Nat)
    (hdrop : pat.drop k = 91 :: (content ++ 93 :: r1)) (hok : setOK (setBody content) = true)
    (f : Nat) (hf : f ≥ content.length + 1) (acc : SeqPat) :
    parsePattern (f + 1) (scAt pat.toArray k sv) tl acc =
      parsePattern f (scAt pat.toArray (k + content.length + 2) sv) tl (pushPat acc (.single (setClass content))) := by
  obtain ⟨hlt, hget, _⟩ := drop_cons_get pat k 91 _ hdrop
  have hk : k < pat.toArray.size := by simp; exact hlt
  have hgc : ((pat.toArray[k] : Nat) : Int) = 91 := by simp [hget]
  conv => lhs; unfold parsePattern
  rw [peek_at pat.toArray k sv hk]
  simp only [bind, Except.bind, hgc]
  simp [parseClass_set pat k sv content r1 hdrop hok f hf, pushPat]

/-! ### the whole pattern -/

/-- at the start of an item a quantifier byte stands for itself: the sequence built so far does not end in an
    unquantified single-character node -/
def QInv (acc : SeqPat) (rest : List Nat) : Prop :=
  ∀ c r, rest = c :: r → isQuantNat c = true → ∀ cls, acc.pats.getLast? ≠ some (.single cls)

theorem Item.pat_one (cls : Cls) : Item.pat ⟨cls, .one⟩ = .single (toClass cls) := rfl

theorem parse_items (pat : List Nat) (hne : 0 < pat.length) :
    ∀ (ft : Nat) (rest : List Nat) (its : List Item) (tail : Bool), tokItems ft rest = some (its, tail) →
      ∀ (k : Nat), pat.drop k = rest → k ≤ pat.length → ∀ (fuel : Nat) (acc : SeqPat) (sv : ScannerState),
        fuel ≥ rest.length + 1 → QInv acc rest →
        ∃ sc', parsePattern fuel (scAt pat.toArray k sv) true acc =
          .ok (sc', { acc with mustTail := acc.mustTail || tail, pats := acc.pats ++ its.map Item.pat }) := by
  have hsz : pat.toArray.size = pat.length := by simp
  intro ft
  induction ft with
  | zero => intro rest its tail h; simp [tokItems] at h
  | succ ft ih =>
    intro rest its tail h k hk hkle fuel acc sv hf hqinv
    cases rest with
    | nil =>
      simp only [tokItems, Option.some.injEq, Prod.mk.injEq] at h
      obtain ⟨rfl, rfl⟩ := h
      have hk' : k = pat.toArray.size := by
        have := drop_length_le pat k [] hk hkle; simp at this; omega
      obtain ⟨f, rfl⟩ : ∃ f, fuel = f + 1 := ⟨fuel - 1, by simp at hf; omega⟩
      obtain ⟨sc', hp⟩ := pp_end pat.toArray sv (by omega) f acc
      refine ⟨sc', ?_⟩
      rw [hk', hp]
      simp
    | cons c r =>
      obtain ⟨hlt, hget, hrest⟩ := drop_cons_get pat k c r hk
      have hklt : k < pat.toArray.size := by omega
      have hPk : pat.toArray[k] = c := by simp [hget]
      have hlen := drop_length_le pat k (c :: r) hk hkle
      simp only [List.length_cons] at hlen hf
      unfold tokItems at h
      by_cases hd : c = 36 ∧ r = []
      · simp only [hd, and_self, if_true, Option.some.injEq, Prod.mk.injEq] at h
        obtain ⟨rfl, rfl⟩ := h
        obtain ⟨rfl, rfl⟩ := hd
        simp only [List.length_nil] at hlen hf
        obtain ⟨f, rfl⟩ : ∃ f, fuel = f + 2 := ⟨fuel - 2, by omega⟩
        obtain ⟨sc', hp⟩ := pp_tail pat.toArray k sv (by omega) f acc hPk
        refine ⟨sc', ?_⟩
        rw [hp]
        simp
      · simp only [hd, if_false] at h
        cases hc : tokCls (c :: r) with
        | none => simp [hc] at h
        | some v =>
          obtain ⟨cls, r1⟩ := v
          simp only [hc] at h
          cases ht : tokItems ft (tokQ r1).2 with
          | none => simp [ht] at h
          | some w =>
            obtain ⟨its', t⟩ := w
            simp only [ht, Option.some.injEq, Prod.mk.injEq] at h
            obtain ⟨rfl, rfl⟩ := h
            obtain ⟨f, rfl⟩ : ∃ f, fuel = f + 1 := ⟨fuel - 1, by omega⟩
            -- the class
            have hcls : ∃ k1 sv1, parsePattern (f + 1) (scAt pat.toArray k sv) true acc =
                  parsePattern f (scAt pat.toArray k1 sv1) true (pushPat acc (.single (toClass cls))) ∧
                pat.drop k1 = r1 ∧ k1 ≤ pat.length ∧ k < k1 := by
              rcases tokCls_cases c r cls r1 hc with ⟨h37, cl, hr, hcl, hcl0, hdig, h98, h102⟩ | ⟨h91, content, hcl, hce, hok, hnul⟩ |
                  ⟨h46, hcl, hr1⟩ | ⟨hc0, h40, h41, h37, h91, h46, hcl, hr1⟩
              · subst hr hcl
                obtain ⟨hlt1, hget1, hrest1⟩ := drop_cons_get pat (k + 1) cl r1 hrest
                have hP1 : pat.toArray[k + 1]'(by omega) = cl := by simp [hget1]
                refine ⟨k + 2, stAt k, ?_, hrest1, by omega, by omega⟩
                have := pp_esc (tl := true) pat.toArray k sv (by omega) f acc (by rw [hPk, h37]) (by rw [hP1]; exact ⟨hdig, h98⟩)
                rw [this, hP1]
                rfl
              · subst h91 hcl
                obtain ⟨hr, _, _⟩ := classEnd_set r content r1 hce
                subst hr
                simp only [List.length_append, List.length_cons] at hlen hf
                refine ⟨k + content.length + 2, sv, ?_, ?_, by omega, by omega⟩
                · exact pp_set (tl := true) pat k sv content r1 hk hok f (by omega) acc
                · have : pat.drop (k + content.length + 2) = (pat.drop k).drop (content.length + 2) := by
                    rw [List.drop_drop, Nat.add_assoc]
                  rw [this, hk]
                  simp
              · subst hcl hr1
                refine ⟨k + 1, sv, ?_, hrest, by omega, by omega⟩
                exact pp_dot (tl := true) pat.toArray k sv hklt f acc (by rw [hPk, h46])
              · subst hcl hr1
                refine ⟨k + 1, sv, ?_, hrest, by omega, by omega⟩
                have := pp_lit (tl := true) pat.toArray k sv hklt f acc (by rw [hPk]; exact ⟨h37, h46, h91, h40, h41⟩)
                  (by
                    rw [hPk]; intro h36
                    have : r1 ≠ [] := fun e => hd ⟨h36, e⟩
                    cases r1 with
                    | nil => exact absurd rfl this
                    | cons x y => simp only [List.length_cons] at hlen; omega)
                  (by rw [hPk]; intro hq; exact hqinv c r1 rfl hq)
                rw [this, hPk]
                rfl
            obtain ⟨k1, sv1, hstep, hdrop1, hk1le, hk1gt⟩ := hcls
            have hlen1 := drop_length_le pat k1 r1 hdrop1 hk1le
            rw [hstep]
            -- the quantifier
            cases r1 with
            | nil =>
              have hq : tokQ [] = (.one, []) := rfl
              rw [hq] at ht
              obtain ⟨sc', hp⟩ := ih [] its' t ht k1 hdrop1 hk1le f (pushPat acc (.single (toClass cls))) sv1
                (by simp at hlen1 ⊢; omega) (by intro c r h; cases h)
              refine ⟨sc', ?_⟩
              rw [hp]
              simp [pushPat, hq, Item.pat]
            | cons q r2 =>
              obtain ⟨hlt1, hget1, hrest1⟩ := drop_cons_get pat k1 q r2 hdrop1
              have hP1 : pat.toArray[k1]'(by omega) = q := by simp [hget1]
              simp only [List.length_cons] at hlen1
              by_cases hqq : isQuantNat q = true
              · obtain ⟨f', rfl⟩ : ∃ f', f = f' + 1 := ⟨f - 1, by omega⟩
                have hqs := pp_quant (tl := true) pat.toArray k1 sv1 (by omega) f' acc (toClass cls) (by rw [hP1]; exact hqq)
                rw [hqs, hP1]
                have hlast : QInv (pushPat acc (.repeat (q : Int) (toClass cls))) r2 := by
                  intro c' r' _ _ cls' hl
                  simp [pushPat] at hl
                have hcases : q = 42 ∨ q = 43 ∨ q = 45 ∨ q = 63 := by
                  simp only [isQuantNat, Bool.or_eq_true, decide_eq_true_eq] at hqq; omega
                have key : ∀ Q, tokQ (q :: r2) = (Q, r2) → Item.pat ⟨cls, Q⟩ = .repeat (q : Int) (toClass cls) →
                    ∃ sc', parsePattern f' (scAt pat.toArray (k1 + 1) sv1) true (pushPat acc (.repeat (q : Int) (toClass cls))) =
                      .ok (sc', { acc with mustTail := acc.mustTail || t,
                                           pats := acc.pats ++ (⟨cls, (tokQ (q :: r2)).1⟩ :: its').map Item.pat }) := by
                  intro Q hQ hpat
                  rw [hQ] at ht
                  obtain ⟨sc', hp⟩ := ih r2 its' t ht (k1 + 1) hrest1 (by omega) f' _ sv1 (by omega) hlast
                  refine ⟨sc', ?_⟩
                  rw [hp, hQ]
                  simp [pushPat, hpat]
                rcases hcases with rfl | rfl | rfl | rfl
                · exact key .star rfl rfl
                · exact key .plus rfl rfl
                · exact key .minus rfl rfl
                · exact key .opt rfl rfl
              · have hnq : q ≠ 63 ∧ q ≠ 42 ∧ q ≠ 43 ∧ q ≠ 45 := by
                  simp only [isQuantNat, Bool.or_eq_true, decide_eq_true_eq, not_or] at hqq; omega
                have hq : tokQ (q :: r2) = (.one, q :: r2) := by
                  unfold tokQ
                  split
                  all_goals first | rfl | simp_all
                rw [hq] at ht
                obtain ⟨sc', hp⟩ := ih (q :: r2) its' t ht k1 hdrop1 hk1le f (pushPat acc (.single (toClass cls))) sv1
                  (by simp only [List.length_cons]; omega)
                  (by intro c' r' h hq'; injection h with h1 _; subst h1; exact absurd hq' hqq)
                refine ⟨sc', ?_⟩
                rw [hp]
                simp [pushPat, hq, Item.pat]

/-! ### compile -/
theorem compileSeq_items (its : List Item) : ∀ (ptr : IPtr),
    compileSeq (its.map Item.pat) ptr =
      .ok { ptr with insts := (ptr.insts.toList ++ emitAll ptr.insts.size (its.map Item.block)).toArray } := by
  induction its with
  | nil => intro ptr; simp [compileSeq, emitAll, pure, Except.pure]
  | cons it r ih =>
    intro ptr
    obtain ⟨cls, q⟩ := it
    cases q <;>
    · simp only [List.map_cons, compileSeq, Item.pat, compilePat, bind, Except.bind, pure, Except.pure]
      try simp only [show ¬ ((43 : Int) = 42) by decide, show ¬ ((45 : Int) = 42) by decide, show ¬ ((45 : Int) = 43) by decide,
        show ¬ ((63 : Int) = 42) by decide, show ¬ ((63 : Int) = 43) by decide, show ¬ ((63 : Int) = 45) by decide, if_true, if_false]
      rw [ih]
      simp [emitAll, Item.block, Block.emit, List.append_assoc, Nat.add_assoc]

theorem compile_items (its : List Item) (head tail : Bool) :
    compilePattern { mustHead := head, mustTail := tail, pats := its.map Item.pat } = .ok (fragProg its tail) := by
  simp only [compilePattern, compileSeq_items, bind, Except.bind, pure, Except.pure, fragProg, tailInsts]
  cases tail <;> simp

/-! ### parseTop -/
theorem splitAnchor_cases (pat : List Nat) :
    (∃ r, pat = 94 :: r ∧ splitAnchor pat = (true, r)) ∨ (splitAnchor pat = (false, pat) ∧ ∀ r, pat ≠ 94 :: r) := by
  unfold splitAnchor
  split
  · rename_i r; exact Or.inl ⟨r, rfl, rfl⟩
  · rename_i h; exact Or.inr ⟨rfl, fun r e => h r e⟩

theorem parseTop_items (pat : List Nat) (hne : 0 < pat.length) (its : List Item) (tail : Bool)
    (h : tokItems ((splitAnchor pat).2.length + 1) (splitAnchor pat).2 = some (its, tail)) :
    parseTop pat.toArray = .ok { mustHead := (splitAnchor pat).1, mustTail := tail, pats := its.map Item.pat } := by
  have hsz : 0 < pat.toArray.size := by simp; exact hne
  have h0 : ({ src := pat.toArray } : Scanner) = scAt pat.toArray 0 {} := by simp [scAt, stAt]
  have hfuel : pat.toArray.size = pat.length := by simp
  rcases splitAnchor_cases pat with ⟨r, hpat, hsa⟩ | ⟨hsa, hno⟩
  · rw [hsa] at h ⊢
    simp only at h ⊢
    have hdrop : pat.drop 1 = r := by rw [hpat]; rfl
    have hlen : pat.length = r.length + 1 := by rw [hpat]; rfl
    obtain ⟨sc', hpar⟩ := parse_items pat hne _ r its tail h 1 hdrop (by omega) (2 * pat.toArray.size + 8)
      { mustHead := true } {} (by omega) (by intro c r' _ _ cls hl; simp at hl)
    have h94 : ((pat.toArray[0] : Nat) : Int) = 94 := by simp [hpat]
    unfold parseTop
    simp only [h0, peek_at pat.toArray 0 {} hsz, next_at pat.toArray 0 {} hsz, bind, Except.bind, h94, if_true, hpar, pure, Except.pure]
    simp
  · rw [hsa] at h ⊢
    simp only at h ⊢
    obtain ⟨sc', hpar⟩ := parse_items pat hne _ pat its tail h 0 (by simp) (by omega) (2 * pat.toArray.size + 8)
      {} {} (by omega) (by intro c r' _ _ cls hl; simp at hl)
    have h94 : ((pat.toArray[0] : Nat) : Int) ≠ 94 := by
      intro e
      have e' : pat[0] = 94 := by
        have : ((pat[0] : Nat) : Int) = 94 := by simpa using e
        omega
      cases pat with
      | nil => simp at hne
      | cons x y => simp at e'; exact hno y (by rw [e'])
    unfold parseTop
    simp only [h0, peek_at pat.toArray 0 {} hsz, bind, Except.bind, h94, if_false, hpar, pure, Except.pure]
    simp

end GLua.PmProofs
