/-
  C14, `vm_eq_reference` beyond literals — sets `[...]`: what `classEnd` delimits, what the Model's `parseClassSet`
  builds from it, and that the two membership tests agree (outside the open finding: a range with upper bound `%`).
-/
import GLua.Proofs.PmFrag
import GLua.Proofs.PmLit

namespace GLua.PmProofs
open GLua.Pm GLua.LuaPattern

set_option linter.unusedSimpArgs false
set_option linter.unusedVariables false

/-! ### `%x` classes: `singleClass.Matches` = `match_class` -/
theorem class_agree (cl ch : Nat) : singleMatches (cl : Int) (ch : Int) = matchClass ch cl := by
  rw [Bool.eq_iff_iff]
  unfold singleMatches matchClass
  simp only [btw, isUpper, isLower, isAlpha, isDigit, isAlnum, isCntrl, isPunct, isSpace, isXDigit]
  by_cases h1 : cl = 97; · subst h1; simp <;> omega
  by_cases h2 : cl = 65; · subst h2; simp <;> omega
  by_cases h3 : cl = 99; · subst h3; simp <;> omega
  by_cases h4 : cl = 67; · subst h4; simp <;> omega
  by_cases h5 : cl = 100; · subst h5; simp <;> omega
  by_cases h6 : cl = 68; · subst h6; simp <;> omega
  by_cases h7 : cl = 108; · subst h7; simp <;> omega
  by_cases h8 : cl = 76; · subst h8; simp <;> omega
  by_cases h9 : cl = 112; · subst h9; simp <;> omega
  by_cases h10 : cl = 80; · subst h10; simp <;> omega
  by_cases h11 : cl = 115; · subst h11; simp <;> omega
  by_cases h12 : cl = 83; · subst h12; simp <;> omega
  by_cases h13 : cl = 117; · subst h13; simp <;> omega
  by_cases h14 : cl = 85; · subst h14; simp <;> omega
  by_cases h15 : cl = 119; · subst h15; simp <;> omega
  by_cases h16 : cl = 87; · subst h16; simp <;> omega
  by_cases h17 : cl = 120; · subst h17; simp <;> omega
  by_cases h18 : cl = 88; · subst h18; simp <;> omega
  by_cases h19 : cl = 122; · subst h19; simp <;> omega
  by_cases h20 : cl = 90; · subst h20; simp <;> omega
  have i1 : ¬ ((cl:Int) = 97 ∨ (cl:Int) = 65) := by omega
  have i2 : ¬ ((cl:Int) = 99 ∨ (cl:Int) = 67) := by omega
  have i3 : ¬ ((cl:Int) = 100 ∨ (cl:Int) = 68) := by omega
  have i4 : ¬ ((cl:Int) = 108 ∨ (cl:Int) = 76) := by omega
  have i5 : ¬ ((cl:Int) = 112 ∨ (cl:Int) = 80) := by omega
  have i6 : ¬ ((cl:Int) = 115 ∨ (cl:Int) = 83) := by omega
  have i7 : ¬ ((cl:Int) = 117 ∨ (cl:Int) = 85) := by omega
  have i8 : ¬ ((cl:Int) = 119 ∨ (cl:Int) = 87) := by omega
  have i9 : ¬ ((cl:Int) = 120 ∨ (cl:Int) = 88) := by omega
  have i10 : ¬ ((cl:Int) = 122 ∨ (cl:Int) = 90) := by omega
  simp only [i1, i2, i3, i4, i5, i6, i7, i8, i9, i10, if_false]
  by_cases hu : 65 ≤ cl ∧ cl ≤ 90
  · have e : (decide (65 ≤ cl) && decide (cl ≤ 90)) = true := by simp [hu]
    simp only [e, if_true, beq_iff_eq]
    have n1 : ¬ (cl + 32 = 97) := by omega
    have n2 : ¬ (cl + 32 = 99) := by omega
    have n3 : ¬ (cl + 32 = 100) := by omega
    have n4 : ¬ (cl + 32 = 108) := by omega
    have n5 : ¬ (cl + 32 = 112) := by omega
    have n6 : ¬ (cl + 32 = 115) := by omega
    have n7 : ¬ (cl + 32 = 117) := by omega
    have n8 : ¬ (cl + 32 = 119) := by omega
    have n9 : ¬ (cl + 32 = 120) := by omega
    have n10 : ¬ (cl + 32 = 122) := by omega
    simp only [n1, n2, n3, n4, n5, n6, n7, n8, n9, n10, if_false, beq_iff_eq]
    constructor <;> intro h <;> omega
  · have e : (decide (65 ≤ cl) && decide (cl ≤ 90)) = false := by
      simp only [Bool.and_eq_false_iff, decide_eq_false_iff_not]; omega
    simp only [e, Bool.false_eq_true, if_false, beq_iff_eq]
    simp only [h1, h3, h5, h7, h9, h11, h13, h15, h17, h19, if_false, beq_iff_eq]
    constructor <;> intro h <;> omega

/-! ### what `classEnd` delimits -/
theorem setEnd_spec : ∀ (n : Nat) (l acc content rest : List Nat), l.length = n → setEnd acc l = .ok (content, rest) →
    ∃ mid, content = acc ++ mid ∧ l = mid ++ 93 :: rest ∧ mid ≠ [] := by
  intro n
  induction n using Nat.strongRecOn with
  | _ n ih =>
    intro l acc content rest hn h
    match l, hn, h with
    | [], _, h => simp [setEnd] at h
    | [_], _, h => simp [setEnd] at h
    | [x, y], _, h =>
      simp only [setEnd] at h
      split at h
      · cases h
      · split at h
        · rename_i hy
          injection h with h; injection h with h1 h2
          subst h1 h2 hy
          exact ⟨[x], rfl, rfl, by simp⟩
        · simp [setEnd] at h
    | x :: y :: z :: r, hn, h =>
      simp only [setEnd] at h
      split at h
      · split at h
        · rename_i hz
          injection h with h; injection h with h1 h2
          subst h1 h2 hz
          exact ⟨[x, y], rfl, rfl, by simp⟩
        · obtain ⟨mid, h1, h2, _⟩ := ih (z :: r).length (by simp at hn ⊢; omega) (z :: r) _ _ _ rfl h
          refine ⟨x :: y :: mid, by simp [h1], by simp [h2], by simp⟩
      · split at h
        · rename_i hy
          injection h with h; injection h with h1 h2
          subst h1 h2 hy
          exact ⟨[x], rfl, rfl, by simp⟩
        · obtain ⟨mid, h1, h2, _⟩ := ih (y :: z :: r).length (by simp at hn ⊢; omega) (y :: z :: r) _ _ _ rfl h
          refine ⟨x :: mid, by simp [h1], by simp [h2], by simp⟩

/-- the bytes of a set: `[` content `]` rest, and the content's body (after `^`) is not empty -/
theorem classEnd_set (r : List Nat) (content r1 : List Nat) (h : classEnd (91 :: r) = .ok (.set content, r1)) :
    r = content ++ 93 :: r1 ∧ setBody content ≠ [] ∧ (content.head? = some 94 ∨ setBody content = content) := by
  simp only [classEnd, show ¬ ((91 : Nat) = 37) by decide, if_false, if_true] at h
  split at h
  · rename_i r'
    cases hs : setEnd [] r' with
    | error e => simp [hs] at h
    | fail => simp [hs] at h
    | ok v =>
      obtain ⟨c, rest⟩ := v
      simp only [hs, Res.ok.injEq, Prod.mk.injEq, Cls.set.injEq] at h
      obtain ⟨rfl, rfl⟩ := h
      obtain ⟨mid, h1, h2, h3⟩ := setEnd_spec _ r' [] c rest rfl hs
      simp only [List.nil_append] at h1
      subst h1
      exact ⟨by simp [h2], by simpa [setBody] using h3, Or.inl rfl⟩
  · rename_i hno
    cases hs : setEnd [] r with
    | error e => simp [hs] at h
    | fail => simp [hs] at h
    | ok v =>
      obtain ⟨c, rest⟩ := v
      simp only [hs, Res.ok.injEq, Prod.mk.injEq, Cls.set.injEq] at h
      obtain ⟨rfl, rfl⟩ := h
      obtain ⟨mid, h1, h2, h3⟩ := setEnd_spec _ r [] c rest rfl hs
      simp only [List.nil_append] at h1
      subst h1
      have hb : setBody c = c := by
        unfold setBody
        split
        · rename_i x
          exact absurd h2 (by intro e; exact hno (x ++ 93 :: rest) (by rw [e]; rfl))
        · rfl
      exact ⟨h2, by rw [hb]; exact h3, Or.inr hb⟩

/-! ### membership: the Model's classes against `matchbracketclass` -/
theorem set_matches (c : Nat) : ∀ (n : Nat) (body : List Nat) (first : Bool), body.length = n → setOKf first body = true →
    anyMatches (setD body) (c : Int) = matchSetBody c body := by
  intro n
  induction n using Nat.strongRecOn with
  | _ n ih =>
    intro body first hn hok
    have lit : ∀ x : Nat, (((x : Int) == (c : Int)) = (x == c)) := by
      intro x
      rw [Bool.eq_iff_iff]; simp only [beq_iff_eq]
      constructor <;> intro h <;> omega
    match body, hn, hok with
    | [], _, _ => simp [setD, anyMatches, matchSetBody]
    | [x], _, hok =>
      simp only [setOKf, Bool.and_eq_true, bne_iff_ne, ne_eq] at hok
      simp [setD, anyMatches, matchSetBody, Class.Matches, hok.1, lit]
    | [x, y], _, hok =>
      replace hok : (if x = 37 then true else (first || x != 93) && setOKf false [y]) = true := hok
      by_cases hx : x = 37
      · simp [setD, anyMatches, matchSetBody, Class.Matches, hx, class_agree]
      · simp only [hx, if_false, Bool.and_eq_true] at hok
        have := ih 1 (by simp at *; omega) [y] false rfl hok.2
        simp only [setD, anyMatches, matchSetBody, Class.Matches, hx, if_false, lit] at this ⊢
        rw [this]
    | x :: y :: z :: r, hn, hok =>
      simp only [setOKf] at hok
      by_cases hx : x = 37
      · simp only [hx, if_true] at hok
        have := ih (z :: r).length (by simp at *; omega) (z :: r) false rfl hok
        simp only [setD, anyMatches, matchSetBody, Class.Matches, hx, if_true, this, class_agree]
      · simp only [hx, if_false] at hok
        by_cases hy : y = 45
        · simp only [hy, if_true, Bool.and_eq_true] at hok
          have := ih r.length (by simp at *; omega) r false rfl hok.2
          simp only [setD, anyMatches, matchSetBody, Class.Matches, hx, hy, if_true, if_false, this]
          congr 1
          rw [Bool.eq_iff_iff]
          simp only [Bool.and_eq_true, decide_eq_true_eq]
          constructor <;> intro h <;> omega
        · simp only [hy, if_false, Bool.and_eq_true] at hok
          have := ih (y :: z :: r).length (by simp at *; omega) (y :: z :: r) false rfl hok.2
          simp only [setD, anyMatches, matchSetBody, Class.Matches, hx, hy, if_false, this, lit]

theorem drop_cons_get (pat : List Nat) (k c : Nat) (r : List Nat) (h : pat.drop k = c :: r) :
    ∃ hlt : k < pat.length, pat[k] = c ∧ pat.drop (k + 1) = r := by
  have hlt : k < pat.length := by
    rcases Nat.lt_or_ge k pat.length with h1 | h1
    · exact h1
    · rw [List.drop_eq_nil_of_le h1] at h; simp at h
  refine ⟨hlt, ?_, ?_⟩
  · have h0 : (pat.drop k)[0]? = some c := by rw [h]; rfl
    rw [List.getElem?_drop] at h0
    simp only [Nat.add_zero, List.getElem?_eq_getElem hlt, Option.some.injEq] at h0
    exact h0
  · have : pat.drop (k + 1) = (pat.drop k).drop 1 := by simp [List.drop_drop]
    rw [this, h]; rfl

theorem drop_length_le (pat : List Nat) (k : Nat) (r : List Nat) (h : pat.drop k = r) (hk : k ≤ pat.length) :
    k + r.length = pat.length := by
  have := congrArg List.length h
  simp at this; omega


/-! ### `parseClassSet` on the scanner: single iterations of its loop -/
def lastIsChar (classes : List Class) : Prop := (classes.getLast?.map Class.isChar) = some true

section steps
variable (P : Array Nat)

theorem pcs_close (k : Nat) (sv : ScannerState) (hk : k < P.size) (f : Nat) (isNot isrange : Bool) (classes : List Class)
    (hc : P[k] = 93) (hne : classes ≠ []) :
    parseClassSetLoop (f + 1) (scAt P k sv) isNot classes isrange =
      .ok (scAt P (k + 1) sv, .set isNot (if isrange then classes ++ [.char 45] else classes)) := by
  have hgc : ((P[k] : Nat) : Int) = 93 := by rw [hc]; rfl
  have hlen : classes.length > 0 := by
    cases classes with
    | nil => exact absurd rfl hne
    | cons a b => simp
  unfold parseClassSetLoop
  rw [peek_at P k sv hk]
  simp only [bind, Except.bind, hgc]
  simp [EOS, hlen, next_at P k sv hk, pure, Except.pure]

theorem pcs_dash (k : Nat) (sv : ScannerState) (hk : k < P.size) (f : Nat) (isNot : Bool) (classes : List Class)
    (hc : P[k] = 45) (hne : classes ≠ []) (hl : lastIsChar classes) :
    parseClassSetLoop (f + 1) (scAt P k sv) isNot classes false =
      parseClassSetLoop f (scAt P (k + 1) sv) isNot classes true := by
  have hgc : ((P[k] : Nat) : Int) = 45 := by rw [hc]; rfl
  have hlen : classes.length > 0 := by
    cases classes with
    | nil => exact absurd rfl hne
    | cons a b => simp
  unfold lastIsChar at hl
  conv => lhs; unfold parseClassSetLoop
  rw [peek_at P k sv hk]
  simp only [bind, Except.bind, hgc]
  simp [EOS, hlen, hl, next_at P k sv hk, pure, Except.pure]

theorem pcs_char (k : Nat) (sv : ScannerState) (hk : k < P.size) (f : Nat) (isNot : Bool) (classes : List Class)
    (h37 : P[k] ≠ 37) (h93 : P[k] = 93 → classes = []) (h45 : P[k] = 45 → classes = [] ∨ ¬ lastIsChar classes) :
    parseClassSetLoop (f + 1) (scAt P k sv) isNot classes false =
      parseClassSetLoop f (scAt P (k + 1) sv) isNot (classes ++ [.char (P[k] : Int)]) false := by
  generalize hcv : P[k] = x at *
  have hgc : ((P[k] : Nat) : Int) = (x : Int) := by rw [hcv]
  have i37 : (x : Int) ≠ 37 := by omega
  have im1 : (x : Int) ≠ -1 := by omega
  have c1 : ¬ ((x : Int) = 93 ∧ classes.length > 0) := by
    intro ⟨a, b⟩
    have := h93 (by omega)
    subst this; simp at b
  have c2 : ¬ (((x : Int) = 45 ∨ (x : Int) = 93) ∧ classes.length > 0 ∧ (!false) = true ∧
      (classes.getLast?.map Class.isChar) = some true) := by
    intro ⟨a, b, _, d⟩
    rcases a with a | a
    · rcases h45 (by omega) with e | e
      · subst e; simp at b
      · exact e d
    · exact c1 ⟨a, b⟩
  conv => lhs; unfold parseClassSetLoop
  rw [peek_at P k sv hk]
  simp only [bind, Except.bind, hgc]
  simp only [EOS, im1, if_false, c1, c2, next_at P k sv hk, hcv, i37, pure, Except.pure, Bool.false_eq_true]

theorem pcs_esc (k : Nat) (sv : ScannerState) (hk : k + 1 < P.size) (f : Nat) (isNot : Bool) (classes : List Class)
    (hc : P[k] = 37) :
    parseClassSetLoop (f + 1) (scAt P k sv) isNot classes false =
      parseClassSetLoop f (scAt P (k + 2) sv) isNot (classes ++ [.single (P[k + 1] : Int)]) false := by
  have hk0 : k < P.size := by omega
  have hgc : ((P[k] : Nat) : Int) = 37 := by rw [hc]; rfl
  conv => lhs; unfold parseClassSetLoop
  rw [peek_at P k sv hk0]
  simp only [bind, Except.bind, hgc]
  simp [EOS, next_at P k sv hk0, next_at P (k + 1) sv hk, hc, pure, Except.pure]

theorem pcs_range_char (k : Nat) (sv : ScannerState) (hk : k < P.size) (f : Nat) (isNot : Bool) (cs : List Class) (b : Class)
    (h37 : P[k] ≠ 37) (h93 : P[k] ≠ 93) :
    parseClassSetLoop (f + 1) (scAt P k sv) isNot (cs ++ [b]) true =
      parseClassSetLoop f (scAt P (k + 1) sv) isNot (cs ++ [.range b (.char (P[k] : Int))]) false := by
  generalize hcv : P[k] = x at *
  have hgc : ((P[k] : Nat) : Int) = (x : Int) := by rw [hcv]
  have i37 : (x : Int) ≠ 37 := by omega
  have i93 : (x : Int) ≠ 93 := by omega
  have im1 : (x : Int) ≠ -1 := by omega
  conv => lhs; unfold parseClassSetLoop
  rw [peek_at P k sv hk]
  simp only [bind, Except.bind, hgc]
  simp only [EOS, im1, if_false, i93, false_and, Bool.not_true, Bool.false_eq_true, and_false, next_at P k sv hk, hcv, i37,
    pure, Except.pure, if_true]
  have hlen : ¬ ((cs ++ [b] ++ [Class.char (x : Int)]).length < 2) := by simp
  simp only [hlen, if_false]
  have e1 : (cs ++ [b] ++ [Class.char (x : Int)]).length - 2 = cs.length := by simp
  have e2 : (cs ++ [b] ++ [Class.char (x : Int)]).length - 1 = cs.length + 1 := by simp
  rw [e1, e2]
  have g1 : (cs ++ [b] ++ [Class.char (x : Int)])[cs.length]? = some b := by simp
  have g2 : (cs ++ [b] ++ [Class.char (x : Int)])[cs.length + 1]? = some (Class.char (x : Int)) := by
    simp [List.getElem?_append_right]
  rw [g1, g2]
  simp

end steps

/-! ### the whole loop -/
theorem lastIsChar_char (cs : List Class) (x : Int) : lastIsChar (cs ++ [.char x]) := by
  simp [lastIsChar, Class.isChar]

theorem not_lastIsChar_single (cs : List Class) (x : Int) : ¬ lastIsChar (cs ++ [.single x]) := by
  simp [lastIsChar, Class.isChar]

theorem not_lastIsChar_range (cs : List Class) (a b : Class) : ¬ lastIsChar (cs ++ [.range a b]) := by
  simp [lastIsChar, Class.isChar]

theorem append_singleton_isEmpty (cs : List Class) (c : Class) : (cs ++ [c]).isEmpty = false := by
  cases cs <;> rfl

theorem ok_scAt_congr (P : Array Nat) (a b : Nat) (sv : ScannerState) (c : Class) (h : a = b) :
    (Except.ok (scAt P a sv, c) : M (Scanner × Class)) = .ok (scAt P b sv, c) := by rw [h]

theorem set_loop (pat : List Nat) (isNot : Bool) (rest : List Nat) :
    ∀ (n : Nat) (body : List Nat), body.length = n → ∀ (k : Nat) (classes : List Class) (sv : ScannerState) (fuel : Nat),
      pat.drop k = body ++ 93 :: rest → setOKf classes.isEmpty body = true → (body = [] → classes ≠ []) →
      (body.head? = some 45 → classes = [] ∨ ¬ lastIsChar classes) → fuel ≥ body.length + 1 →
      parseClassSetLoop fuel (scAt pat.toArray k sv) isNot classes false =
        .ok (scAt pat.toArray (k + body.length + 1) sv, .set isNot (classes ++ setD body)) := by
  intro n
  induction n using Nat.strongRecOn with
  | _ n ih =>
    intro body hn k classes sv fuel hdrop hok hnil hinv hf
    obtain ⟨f, rfl⟩ : ∃ f, fuel = f + 1 := ⟨fuel - 1, by omega⟩
    match body, hn, hdrop, hok, hnil, hinv, hf with
    | [], _, hdrop, _, hnil, _, _ =>
      obtain ⟨hlt, hget, _⟩ := drop_cons_get pat k 93 rest hdrop
      have hk : k < pat.toArray.size := by simp; exact hlt
      have := pcs_close pat.toArray k sv hk f isNot false classes (by simp [hget]) (hnil rfl)
      rw [this]
      simp [setD]
    | [x], _, hdrop, hok, _, hinv, hf =>
      obtain ⟨hlt, hget, hdrop1⟩ := drop_cons_get pat k x (93 :: rest) hdrop
      have hk : k < pat.toArray.size := by simp; exact hlt
      have hPk : pat.toArray[k] = x := by simp [hget]
      simp only [setOKf, Bool.and_eq_true, bne_iff_ne, ne_eq, Bool.or_eq_true] at hok
      have s1 := pcs_char pat.toArray k sv hk f isNot classes (by rw [hPk]; exact hok.1)
        (by
          rw [hPk]; intro e
          rcases hok.2 with h | h
          · simpa using h
          · exact absurd e h)
        (by rw [hPk]; intro e; exact hinv (by rw [e]; rfl))
      rw [s1, hPk]
      obtain ⟨f', rfl⟩ : ∃ f', f = f' + 1 := ⟨f - 1, by simp at hf; omega⟩
      have := ih 0 (by simp at *; omega) [] rfl (k + 1) (classes ++ [.char (x : Int)]) sv (f' + 1) hdrop1 (by simp [setOKf])
        (by intro _; simp) (by intro h; simp at h) (by simp)
      rw [this]
      simp [setD]
    | [x, y], _, hdrop, hok, _, hinv, hf =>
      replace hok : (if x = 37 then true else (classes.isEmpty || x != 93) && setOKf false [y]) = true := hok
      obtain ⟨hlt, hget, hdrop1⟩ := drop_cons_get pat k x (y :: 93 :: rest) hdrop
      obtain ⟨hlt1, hget1, hdrop2⟩ := drop_cons_get pat (k + 1) y (93 :: rest) hdrop1
      have hk : k < pat.toArray.size := by simp; exact hlt
      have hk1 : k + 1 < pat.toArray.size := by simp; exact hlt1
      have hPk : pat.toArray[k] = x := by simp [hget]
      have hPk1 : pat.toArray[k + 1] = y := by simp [hget1]
      simp only [List.length_cons, List.length_nil] at hf
      by_cases hx : x = 37
      · have s1 := pcs_esc pat.toArray k sv hk1 f isNot classes (by rw [hPk, hx])
        rw [s1, hPk1]
        obtain ⟨f', rfl⟩ : ∃ f', f = f' + 1 := ⟨f - 1, by omega⟩
        have := ih 0 (by simp at *; omega) [] rfl (k + 2) (classes ++ [.single (y : Int)]) sv (f' + 1) hdrop2 (by simp [setOKf])
          (by intro _; simp) (by intro h; simp at h) (by simp)
        rw [this]
        simp [setD, hx]
      · simp only [hx, if_false, Bool.and_eq_true, Bool.or_eq_true, bne_iff_ne, ne_eq] at hok
        have s1 := pcs_char pat.toArray k sv hk f isNot classes (by rw [hPk]; exact hx)
          (by
            rw [hPk]; intro e
            rcases hok.1 with h | h
            · simpa using h
            · exact absurd e h)
          (by rw [hPk]; intro e; exact hinv (by rw [e]; rfl))
        rw [s1, hPk]
        obtain ⟨f', rfl⟩ : ∃ f', f = f' + 1 := ⟨f - 1, by omega⟩
        by_cases hy : y = 45
        · -- `x-]`: the pending range marker becomes the literal `-`
          subst hy
          have s2 := pcs_dash pat.toArray (k + 1) sv hk1 f' isNot (classes ++ [.char (x : Int)]) (by rw [hPk1])
            (by simp) (lastIsChar_char _ _)
          rw [s2]
          obtain ⟨hlt2, hget2, _⟩ := drop_cons_get pat (k + 2) 93 rest hdrop2
          have hk2 : k + 2 < pat.toArray.size := by simp; exact hlt2
          obtain ⟨f'', rfl⟩ : ∃ f'', f' = f'' + 1 := ⟨f' - 1, by omega⟩
          have s3 := pcs_close pat.toArray (k + 1 + 1) sv hk2 f'' isNot true (classes ++ [.char (x : Int)]) (by simp [hget2]) (by simp)
          rw [s3]
          simp [setD, hx]
        · have := ih 1 (by simp at *; omega) [y] rfl (k + 1) (classes ++ [.char (x : Int)]) sv (f' + 1) hdrop1
            (by rw [append_singleton_isEmpty]; exact hok.2) (by intro h; simp at h) (by intro h; simp at h; exact absurd h hy)
            (by simp only [List.length_cons, List.length_nil]; omega)
          rw [this]
          simp [setD, hx, Nat.add_assoc]
    | x :: y :: z :: r, hn, hdrop, hok, _, hinv, hf =>
      replace hok : (if x = 37 then setOKf false (z :: r)
          else if y = 45 then (classes.isEmpty || x != 93) && z != 37 && z != 93 && setOKf false r
          else (classes.isEmpty || x != 93) && setOKf false (y :: z :: r)) = true := hok
      obtain ⟨hlt, hget, hdrop1⟩ := drop_cons_get pat k x (y :: z :: r ++ 93 :: rest) hdrop
      obtain ⟨hlt1, hget1, hdrop2⟩ := drop_cons_get pat (k + 1) y (z :: r ++ 93 :: rest) hdrop1
      obtain ⟨hlt2, hget2, hdrop3⟩ := drop_cons_get pat (k + 2) z (r ++ 93 :: rest) hdrop2
      have hk : k < pat.toArray.size := by simp; exact hlt
      have hk1 : k + 1 < pat.toArray.size := by simp; exact hlt1
      have hk2 : k + 2 < pat.toArray.size := by simp; exact hlt2
      have hPk : pat.toArray[k] = x := by simp [hget]
      have hPk1 : pat.toArray[k + 1] = y := by simp [hget1]
      have hPk2 : pat.toArray[k + 2] = z := by simp [hget2]
      simp only [List.length_cons] at hf hn
      by_cases hx : x = 37
      · simp only [hx, if_true] at hok
        have s1 := pcs_esc pat.toArray k sv hk1 f isNot classes (by rw [hPk, hx])
        rw [s1, hPk1]
        have := ih (z :: r).length (by simp; omega) (z :: r) rfl (k + 2) (classes ++ [.single (y : Int)]) sv f hdrop2
          (by rw [append_singleton_isEmpty]; exact hok) (by intro h; simp at h) (by intro _; right; exact not_lastIsChar_single _ _)
          (by simp only [List.length_cons]; omega)
        rw [this]
        simp only [setD, hx, if_true, List.length_cons, List.append_assoc, List.singleton_append]
        exact ok_scAt_congr _ _ _ _ _ (by omega)
      · simp only [hx, if_false] at hok
        have s1 := pcs_char pat.toArray k sv hk f isNot classes (by rw [hPk]; exact hx)
          (by
            rw [hPk]; intro e
            have : (classes.isEmpty || x != 93) = true := by
              by_cases hy : y = 45
              · simp only [hy, if_true, Bool.and_eq_true] at hok; exact hok.1.1.1
              · simp only [hy, if_false, Bool.and_eq_true] at hok; exact hok.1
            simp only [Bool.or_eq_true, bne_iff_ne, ne_eq] at this
            rcases this with h | h
            · simpa using h
            · exact absurd e h)
          (by rw [hPk]; intro e; exact hinv (by rw [e]; rfl))
        rw [s1, hPk]
        obtain ⟨f', rfl⟩ : ∃ f', f = f' + 1 := ⟨f - 1, by omega⟩
        by_cases hy : y = 45
        · subst hy
          simp only [if_true, Bool.and_eq_true, bne_iff_ne, ne_eq] at hok
          obtain ⟨⟨⟨_, hz37⟩, hz93⟩, hokr⟩ := hok
          have s2 := pcs_dash pat.toArray (k + 1) sv hk1 f' isNot (classes ++ [.char (x : Int)]) (by rw [hPk1])
            (by simp) (lastIsChar_char _ _)
          rw [s2]
          obtain ⟨f'', rfl⟩ : ∃ f'', f' = f'' + 1 := ⟨f' - 1, by omega⟩
          have s3 := pcs_range_char pat.toArray (k + 1 + 1) sv hk2 f'' isNot classes (.char (x : Int))
            (by rw [hPk2]; exact hz37) (by rw [hPk2]; exact hz93)
          rw [s3, hPk2]
          have := ih r.length (by omega) r rfl (k + 1 + 1 + 1) (classes ++ [.range (.char (x : Int)) (.char (z : Int))]) sv f'' hdrop3
            (by rw [append_singleton_isEmpty]; exact hokr) (by intro _; simp) (by intro _; right; exact not_lastIsChar_range _ _ _) (by omega)
          rw [this]
          simp only [setD, hx, if_true, if_false, List.length_cons, List.append_assoc, List.singleton_append]
          exact ok_scAt_congr _ _ _ _ _ (by omega)
        · simp only [hy, if_false, Bool.and_eq_true] at hok
          have := ih (y :: z :: r).length (by simp; omega) (y :: z :: r) rfl (k + 1) (classes ++ [.char (x : Int)]) sv (f' + 1) hdrop1
            (by rw [append_singleton_isEmpty]; exact hok.2) (by intro h; simp at h) (by intro h; simp at h; exact absurd h hy)
            (by simp only [List.length_cons]; omega)
          rw [this]
          simp only [setD, hx, hy, if_false, List.length_cons, List.append_assoc, List.singleton_append]
          exact ok_scAt_congr _ _ _ _ _ (by omega)

theorem setBody_ne (c0 : Nat) (ct : List Nat) (h : c0 ≠ 94) : setBody (c0 :: ct) = c0 :: ct := by
  unfold setBody
  split
  · rename_i x heq; injection heq with h1 _; exact absurd h1 h
  · rfl

theorem setClass_ne (c0 : Nat) (ct : List Nat) (h : c0 ≠ 94) : setClass (c0 :: ct) = .set false (setD (c0 :: ct)) := by
  unfold setClass
  split
  · rename_i x heq; injection heq with h1 _; exact absurd h1 h
  · rfl

/-- `parseClass(sc, true)` on a set of the fragment -/
theorem parseClass_set (pat : List Nat) (k : Nat) (sv : ScannerState) (content r1 : List Nat)
    (hdrop : pat.drop k = 91 :: (content ++ 93 :: r1)) (hok : setOK (setBody content) = true)
    (f : Nat) (hf : f ≥ content.length + 1) :
    parseClass f (scAt pat.toArray k sv) true =
      .ok (scAt pat.toArray (k + content.length + 2) sv, setClass content) := by
  obtain ⟨hlt, hget, hdrop1⟩ := drop_cons_get pat k 91 _ hdrop
  have hk : k < pat.toArray.size := by simp; exact hlt
  have hPk : ((pat.toArray[k] : Nat) : Int) = 91 := by simp [hget]
  simp only [setOK, Bool.and_eq_true, bne_iff_ne, ne_eq] at hok
  obtain ⟨hbody, hokf⟩ := hok
  cases content with
  | nil => exact absurd rfl hbody
  | cons c0 ct =>
    obtain ⟨hlt1, hget1, hdrop2⟩ := drop_cons_get pat (k + 1) c0 _ hdrop1
    have hk1 : k + 1 < pat.toArray.size := by simp; exact hlt1
    have hPk1 : pat.toArray[k + 1] = c0 := by simp [hget1]
    unfold parseClass
    simp only [next_at pat.toArray k sv hk, bind, Except.bind, hPk, show ¬ ((91 : Int) = 37) by decide,
      show ¬ ((91 : Int) = 46) by decide, if_false, if_true]
    unfold parseClassSet
    simp only [peek_at pat.toArray (k + 1) sv hk1, bind, Except.bind, hPk1]
    by_cases h94 : c0 = 94
    · subst h94
      have hb : setBody (94 :: ct) = ct := rfl
      rw [hb] at hbody hokf
      have := set_loop pat true r1 ct.length ct rfl (k + 1 + 1) [] sv f hdrop2 hokf (fun h => absurd h hbody)
        (fun _ => Or.inl rfl) (by simp only [List.length_cons] at hf; omega)
      simp only [show ((94 : Nat) : Int) = 94 from rfl, if_true, next_at pat.toArray (k + 1) sv hk1, this, List.nil_append]
      exact ok_scAt_congr _ _ _ _ _ (by simp only [List.length_cons]; omega)
    · have i94 : ¬ ((c0 : Int) = 94) := by omega
      rw [setBody_ne c0 ct h94] at hokf
      have := set_loop pat false r1 (c0 :: ct).length (c0 :: ct) rfl (k + 1) [] sv f hdrop1 hokf (fun h => by cases h)
        (fun _ => Or.inl rfl) hf
      simp only [i94, if_false, this, List.nil_append, setClass_ne c0 ct h94]
      exact ok_scAt_congr _ _ _ _ _ (by omega)

/-- membership in a set of the fragment: the Model's class against `matchbracketclass` -/
theorem setClass_matches (content : List Nat) (hok : setOK (setBody content) = true) (ch : Nat) :
    (setClass content).Matches (ch : Int) = matchBracketClass ch content := by
  simp only [setOK, Bool.and_eq_true, bne_iff_ne, ne_eq] at hok
  obtain ⟨hbody, hokf⟩ := hok
  cases content with
  | nil => exact absurd rfl hbody
  | cons c0 ct =>
    by_cases h94 : c0 = 94
    · subst h94
      have hb : setBody (94 :: ct) = ct := rfl
      rw [hb] at hokf
      have := set_matches ch ct.length ct true rfl hokf
      simp only [setClass, Class.Matches, matchBracketClass, this]
      cases matchSetBody ch ct <;> rfl
    · rw [setBody_ne c0 ct h94] at hokf
      have := set_matches ch _ (c0 :: ct) true rfl hokf
      rw [setClass_ne c0 ct h94]
      have hm : matchBracketClass ch (c0 :: ct) = matchSetBody ch (c0 :: ct) := by
        unfold matchBracketClass
        split
        · rename_i x heq; injection heq with h1 _; exact absurd h1 h94
        · rfl
      simp only [Class.Matches, this, hm]
      cases matchSetBody ch (c0 :: ct) <;> rfl

end GLua.PmProofs
