/-
  C14, `vm_eq_reference` beyond literals — the reference side: lstrlib's `match` on the bytes of a pattern of the
  fragment is the recursion `refItems` on its tokenized form.
-/
import GLua.Proofs.PmFrag
import GLua.Proofs.PmLit

namespace GLua.PmProofs
open GLua.Pm GLua.LuaPattern

set_option linter.unusedSimpArgs false
set_option linter.unusedVariables false

theorem tokQ_default (q : Nat) (r : List Nat) (h : q ≠ 63 ∧ q ≠ 42 ∧ q ≠ 43 ∧ q ≠ 45) : tokQ (q :: r) = (.one, q :: r) := by
  unfold tokQ
  split
  all_goals first | rfl | simp_all

/-- what membership in the fragment says about the first class, in the reference's terms -/
theorem tokCls_spec (c : Nat) (r : List Nat) (cls : Cls) (r1 : List Nat) (h : tokCls (c :: r) = some (cls, r1)) :
    c ≠ 40 ∧ c ≠ 41 ∧ ¬ (c = 37 ∧ r.head? = some 98) ∧ ¬ (c = 37 ∧ r.head? = some 102) ∧
    ¬ (c = 37 ∧ (r.head?.map isDigit) = some true) ∧ classEnd (c :: r) = .ok (cls, r1) := by
  unfold tokCls at h
  by_cases h0 : c = 40 ∨ c = 41
  · simp [h0] at h
  · simp only [h0, if_false] at h
    have h40 : c ≠ 40 := fun e => h0 (Or.inl e)
    have h41 : c ≠ 41 := fun e => h0 (Or.inr e)
    by_cases h37 : c = 37
    · subst h37
      simp only [if_true] at h
      cases r with
      | nil => simp at h
      | cons cl r' =>
        simp only at h
        by_cases hcl : isDigit cl = true ∨ cl = 98 ∨ cl = 102
        · simp [hcl] at h
        · simp only [hcl, if_false, Option.some.injEq, Prod.mk.injEq] at h
          obtain ⟨rfl, rfl⟩ := h
          refine ⟨by omega, by omega, ?_, ?_, ?_, ?_⟩
          · simp only [List.head?_cons, Option.some.injEq, true_and]; intro e; exact hcl (Or.inr (Or.inl e))
          · simp only [List.head?_cons, Option.some.injEq, true_and]; intro e; exact hcl (Or.inr (Or.inr e))
          · simp only [List.head?_cons, Option.map_some, Option.some.injEq, true_and]; intro e; exact hcl (Or.inl e)
          · simp [classEnd]
    · simp only [h37, if_false] at h
      refine ⟨h40, h41, by simp [h37], by simp [h37], by simp [h37], ?_⟩
      by_cases h91 : c = 91
      · subst h91
        simp only [if_true] at h
        cases hce : classEnd (91 :: r) with
        | error e => simp [hce] at h
        | fail => simp [hce] at h
        | ok v =>
          obtain ⟨cl, rest⟩ := v
          rw [hce] at h
          cases cl with
          | set content =>
            by_cases hg : setOK (setBody content) = true
            · simp only [hg, if_true, Option.some.injEq, Prod.mk.injEq] at h
              obtain ⟨rfl, rfl⟩ := h
              rfl
            · simp only [hg, if_false] at h
              cases h
          | any => simp at h
          | esc _ => simp at h
          | lit _ => simp at h
      · simp only [h91, if_false] at h
        by_cases h46 : c = 46
        · subst h46
          simp only [if_true, Option.some.injEq, Prod.mk.injEq] at h
          obtain ⟨rfl, rfl⟩ := h
          simp [classEnd]
        · simp only [h46, if_false, Option.some.injEq, Prod.mk.injEq] at h
          obtain ⟨rfl, rfl⟩ := h
          simp [classEnd, h37, h91, h46]

/-- the quantifier dispatch of lstrlib's `match` after `classEnd`, over an abstract continuation `K s p` -/
def stepF (src : Array Nat) (cls : Cls) (s : Nat) (K : Nat → List Nat → Res (Nat × List Cap)) (r1 : List Nat) :
    Res (Nat × List Cap) :=
  match r1 with
  | 63 :: r' =>
    if mOf src cls s then
      match K (s+1) r' with
      | .fail => K s r'
      | x => x
    else K s r'
  | 42 :: r' => maxExpand (fun s' => K s' r') s (countMax (mOf src cls) s (src.size - s))
  | 43 :: r' =>
    if mOf src cls s then maxExpand (fun s' => K s' r') (s+1) (countMax (mOf src cls) (s+1) (src.size - (s+1)))
    else .fail
  | 45 :: r' => minExpand (fun s' => K s' r') (mOf src cls) (src.size + 1 - s) s
  | _ => if mOf src cls s then K (s+1) r1 else .fail

theorem stepF_default (src : Array Nat) (cls : Cls) (s : Nat) (K : Nat → List Nat → Res (Nat × List Cap)) (q : Nat) (r2 : List Nat)
    (h : q ≠ 63 ∧ q ≠ 42 ∧ q ≠ 43 ∧ q ≠ 45) :
    stepF src cls s K (q :: r2) = if mOf src cls s then K (s+1) (q :: r2) else .fail := by
  rw [stepF.eq_def]
  split
  all_goals first | rfl | simp_all

/-- one step of lstrlib's `match` on a single-character class of the fragment -/
theorem spec_step (src : Array Nat) (f : Nat) (caps : List Cap) (s c : Nat) (r : List Nat) (cls : Cls) (r1 : List Nat)
    (h : tokCls (c :: r) = some (cls, r1)) (hd : ¬ (c = 36 ∧ r = [])) :
    matchF src (f + 1) caps s (c :: r) = stepF src cls s (fun s' p' => matchF src f caps s' p') r1 := by
  obtain ⟨h40, h41, hb, hf, hdg, hce⟩ := tokCls_spec c r cls r1 h
  conv => lhs; unfold matchF
  simp only [h40, h41, hb, hf, hdg, hd, if_false, hce]
  unfold stepF mOf
  rfl

theorem tokItems_length : ∀ (ft : Nat) (bytes : List Nat) (its : List Item) (tail : Bool),
    tokItems ft bytes = some (its, tail) → its.length + 1 ≤ ft := by
  intro ft
  induction ft with
  | zero => intro bytes its tail h; simp [tokItems] at h
  | succ ft ih =>
    intro bytes its tail h
    cases bytes with
    | nil => simp [tokItems] at h; simp [h.1]
    | cons c r =>
      unfold tokItems at h
      by_cases hd : c = 36 ∧ r = []
      · simp [hd] at h; simp [h.1]
      · simp only [hd, if_false] at h
        cases hc : tokCls (c :: r) with
        | none => simp [hc] at h
        | some v =>
          obtain ⟨cls, r1⟩ := v
          simp only [hc] at h
          cases ht : tokItems ft (tokQ r1).2 with
          | none => simp [ht] at h
          | some w =>
            obtain ⟨its', t⟩ := w
            simp only [ht, Option.some.injEq, Prod.mk.injEq] at h
            obtain ⟨rfl, rfl⟩ := h
            have h1 := ih _ _ _ ht
            simp only [List.length_cons]
            omega

theorem spec_items (src : Array Nat) : ∀ (ft : Nat) (bytes : List Nat) (its : List Item) (tail : Bool),
    tokItems ft bytes = some (its, tail) → ∀ (fuel : Nat) (caps : List Cap) (s : Nat), fuel ≥ its.length + 1 →
      matchF src fuel caps s bytes = refItems src tail its caps s := by
  intro ft
  induction ft with
  | zero => intro bytes its tail h; simp [tokItems] at h
  | succ ft ih =>
    intro bytes its tail h fuel caps s hf
    obtain ⟨f, rfl⟩ : ∃ f, fuel = f + 1 := ⟨fuel - 1, by omega⟩
    cases bytes with
    | nil =>
      simp only [tokItems, Option.some.injEq, Prod.mk.injEq] at h
      obtain ⟨rfl, rfl⟩ := h
      simp [matchF, refItems]
    | cons c r =>
      unfold tokItems at h
      by_cases hd : c = 36 ∧ r = []
      · simp only [hd, and_self, if_true, Option.some.injEq, Prod.mk.injEq] at h
        obtain ⟨rfl, rfl⟩ := h
        obtain ⟨rfl, rfl⟩ := hd
        simp [matchF, refItems]
      · simp only [hd, if_false] at h
        cases hc : tokCls (c :: r) with
        | none => simp [hc] at h
        | some v =>
          obtain ⟨cls, r1⟩ := v
          simp only [hc] at h
          cases ht : tokItems ft (tokQ r1).2 with
          | none => simp [ht] at h
          | some w =>
            obtain ⟨its', t⟩ := w
            simp only [ht, Option.some.injEq, Prod.mk.injEq] at h
            obtain ⟨rfl, rfl⟩ := h
            simp only [List.length_cons] at hf
            have ihr := fun caps s => ih _ _ _ ht f caps s (by omega)
            rw [spec_step src f caps s c r cls r1 hc hd]
            cases r1 with
            | nil =>
              have hq : tokQ [] = (.one, []) := rfl
              rw [hq] at ihr
              simp only [stepF, refItems, hq, ihr]
            | cons q r2 =>
              by_cases h63 : q = 63
              · subst h63
                have hq : tokQ (63 :: r2) = (.opt, r2) := rfl
                rw [hq] at ihr
                simp only [stepF, refItems, hq, ihr, orElse]
                by_cases hm : mOf src cls s = true <;> simp only [hm, if_true, if_false] <;>
                  cases refItems src t its' caps (s + 1) <;> rfl
              · by_cases h42 : q = 42
                · subst h42
                  have hq : tokQ (42 :: r2) = (.star, r2) := rfl
                  rw [hq] at ihr
                  simp only [stepF, refItems, hq, ihr]
                · by_cases h43 : q = 43
                  · subst h43
                    have hq : tokQ (43 :: r2) = (.plus, r2) := rfl
                    rw [hq] at ihr
                    simp only [stepF, refItems, hq, ihr]
                  · by_cases h45 : q = 45
                    · subst h45
                      have hq : tokQ (45 :: r2) = (.minus, r2) := rfl
                      rw [hq] at ihr
                      simp only [stepF, refItems, hq, ihr]
                    · have hq := tokQ_default q r2 ⟨h63, h42, h43, h45⟩
                      rw [hq] at ihr
                      rw [stepF_default _ _ _ _ q r2 ⟨h63, h42, h43, h45⟩]
                      simp only [refItems, hq, ihr]

end GLua.PmProofs
