/-
  C14, `vm_eq_reference` beyond literals — the simulation between the Model's backtracking VM on the program of a
  tokenized pattern and the reference matcher `refItems`.

  Invariant (`Agrees`): from the block of item i at subject position sp, with a capture array that holds the start
  of the attempt (and possibly a stale end), the VM — unless it runs out of fuel — returns `true`, the end position and
  the array [start, end] exactly when the reference recursion from item i at sp succeeds with that end, and `false`
  with an array of the same shape when the reference fails.  The recursion counter is bounded by
  rec + (bytes left) + (items left) + 1 ≤ cap, so the "pattern/input too complex" error is never raised.
-/
import GLua.Proofs.PmFrag

namespace GLua.PmProofs
open GLua.Pm GLua.LuaPattern

set_option linter.unusedSimpArgs false
set_option linter.unusedVariables false

/-- the capture array during one attempt that started at `s0`: entry 0 = start, entry 1 (if present) = stale end -/
def CapsInv (s0 : Nat) (m : Caps) : Prop := m = #[s0 * 2] ∨ ∃ x, m = #[s0 * 2, x]

/-- what the VM returns against what the reference returns -/
def Agrees (s0 : Nat) (r : Res (Nat × List Cap)) (out : M (Bool × Nat × Caps)) : Prop :=
  out = .error .fuel ∨
  match r with
  | .ok (e, _) => out = .ok (true, e, #[s0 * 2, e * 2])
  | .fail => ∃ sp' m', out = .ok (false, sp', m') ∧ CapsInv s0 m'
  | .error _ => False

theorem vm_zero (src : Array Nat) (P : Array Inst) (cap pc sp rec : Nat) (m : Caps) :
    vm src P cap 0 pc sp rec m = .error .fuel := rfl

theorem mOf_lt {src : Array Nat} {cls : Cls} {i : Nat} (h : mOf src cls i = true) : i < src.size := by
  unfold mOf at h
  rcases Nat.lt_or_ge i src.size with h1 | h1
  · exact h1
  · simp [Array.getElem?_eq_none h1] at h

section steps
variable {src : Array Nat} {P : Array Inst} {cap s0 : Nat}

theorem agrees_char {pc sp rec : Nat} {m : Caps} {c : Class} {cls : Cls} {r : Res (Nat × List Cap)}
    (hP : P[pc]? = some (.char c)) (hM : ∀ ch : Nat, c.Matches (ch : Int) = singleMatch ch cls)
    (hm : CapsInv s0 m)
    (hk : mOf src cls sp = true → ∀ f, Agrees s0 r (vm src P cap f (pc + 1) (sp + 1) rec m)) :
    ∀ fuel, Agrees s0 (if mOf src cls sp = true then r else .fail) (vm src P cap fuel pc sp rec m) := by
  intro fuel
  cases fuel with
  | zero => exact Or.inl rfl
  | succ f =>
    unfold vm
    simp only [hP]
    unfold mOf at hk ⊢
    cases hs : src[sp]? with
    | none =>
      simp only [Bool.false_eq_true, if_false]
      exact Or.inr ⟨sp, m, rfl, hm⟩
    | some ch =>
      simp only [hs] at hk
      simp only [hM ch]
      by_cases h : singleMatch ch cls = true
      · simp only [h, if_true]
        exact hk h f
      · simp only [h, if_false]
        exact Or.inr ⟨sp, m, rfl, hm⟩

theorem agrees_jmp {pc t sp rec : Nat} {m : Caps} {r : Res (Nat × List Cap)}
    (hP : P[pc]? = some (.jmp t))
    (hk : ∀ f, Agrees s0 r (vm src P cap f t sp rec m)) :
    ∀ fuel, Agrees s0 r (vm src P cap fuel pc sp rec m) := by
  intro fuel
  cases fuel with
  | zero => exact Or.inl rfl
  | succ f =>
    unfold vm
    simp only [hP]
    exact hk f

theorem agrees_split {pc a b sp rec : Nat} {m : Caps} {r1 r2 : Res (Nat × List Cap)}
    (hP : P[pc]? = some (.split a b)) (hc : rec + 1 ≤ cap)
    (h1 : ∀ f, Agrees s0 r1 (vm src P cap f a sp (rec + 1) m))
    (h2 : ∀ f m', CapsInv s0 m' → Agrees s0 r2 (vm src P cap f b sp rec m')) :
    ∀ fuel, Agrees s0 (orElse r1 r2) (vm src P cap fuel pc sp rec m) := by
  intro fuel
  cases fuel with
  | zero => exact Or.inl rfl
  | succ f =>
    unfold vm
    have hc' : ¬ (rec + 1 > cap) := by omega
    simp only [hP, hc', if_false, bind, Except.bind]
    rcases h1 f with he | h
    · rw [he]; exact Or.inl rfl
    · cases r1 with
      | error e => exact absurd h (by simp)
      | ok v =>
        obtain ⟨e, cs⟩ := v
        simp only at h
        rw [h]
        simp only [orElse, if_true, pure, Except.pure]
        exact Or.inr rfl
      | fail =>
        obtain ⟨sp', m', hv, hm'⟩ := h
        rw [hv]
        simp only [orElse, Bool.false_eq_true, if_false]
        exact h2 f m' hm'

/-- `save 1; match` / `save 1; tailMatch`: the end of the program -/
theorem agrees_tail {pc sp rec : Nat} {m : Caps} (tail : Bool) (caps : List Cap)
    (h0 : P[pc]? = some (.save 1)) (h1 : P[pc + 1]? = some (if tail then .tailMatch else .matchI))
    (hm : CapsInv s0 m) (hsp : sp ≤ src.size) (hc : rec + 1 ≤ cap) :
    ∀ fuel, Agrees s0 (refItems src tail [] caps sp) (vm src P cap fuel pc sp rec m) := by
  intro fuel
  cases fuel with
  | zero => exact Or.inl rfl
  | succ f =>
    unfold vm
    have hc' : ¬ (rec + 1 > cap) := by omega
    simp only [h0, hc', if_false, bind, Except.bind]
    cases f with
    | zero => exact Or.inl rfl
    | succ f =>
      have hset : ∃ old, setCapture m 1 sp = (#[s0 * 2, sp * 2], old) := by
        rcases hm with rfl | ⟨x, rfl⟩
        · exact ⟨0, by simp [setCapture, growTo, pushZeros, Array.setIfInBounds]⟩
        · exact ⟨x, by simp [setCapture, growTo, pushZeros, Array.setIfInBounds]⟩
      obtain ⟨old, hset⟩ := hset
      rw [hset]
      unfold vm
      simp only [h1]
      cases tail with
      | false =>
        simp only [Bool.false_eq_true, if_false, refItems, pure, Except.pure, if_true]
        exact Or.inr rfl
      | true =>
        simp only [if_true, refItems, pure, Except.pure]
        by_cases he : sp = src.size
        · subst he
          simp only [ge_iff_le, Nat.le_refl, decide_true, if_true]
          exact Or.inr rfl
        · have : ¬ (sp ≥ src.size) := by omega
          simp only [this, decide_false, Bool.false_eq_true, if_false, he, restoreCapture]
          refine Or.inr ⟨sp, #[s0 * 2, old], ?_, Or.inr ⟨old, rfl⟩⟩
          simp [Array.setIfInBounds, pure, Except.pure]

end steps

/-! ### unfolding the reference's expansion loops one step -/
theorem maxExpand_succ {α : Type} (k : Nat → Res α) (s : Nat) : ∀ c,
    maxExpand k s (c + 1) = orElse (maxExpand k (s + 1) c) (k s) := by
  intro c
  induction c with
  | zero =>
    simp only [maxExpand, orElse, Nat.add_zero]
    cases k (s + 1) <;> rfl
  | succ c ih =>
    have e1 : maxExpand k s (c + 1 + 1) = (match k (s + (c + 1) + 1) with | .fail => maxExpand k s (c + 1) | r => r) := rfl
    have e2 : maxExpand k (s + 1) (c + 1) = (match k (s + 1 + c + 1) with | .fail => maxExpand k (s + 1) c | r => r) := rfl
    rw [e1, e2, ih]
    have e3 : s + (c + 1) + 1 = s + 1 + c + 1 := by omega
    rw [e3]
    cases k (s + 1 + c + 1) <;> simp [orElse]

theorem countMax_false (mo : Nat → Bool) (s n : Nat) (h : mo s = false) : countMax mo s n = 0 := by
  cases n <;> simp [countMax, h]

theorem maxExpand_unfold {α : Type} (src : Array Nat) (cls : Cls) (k : Nat → Res α) (s : Nat) :
    maxExpand k s (countMax (mOf src cls) s (src.size - s)) =
      orElse (if mOf src cls s = true then maxExpand k (s + 1) (countMax (mOf src cls) (s + 1) (src.size - (s + 1))) else .fail)
        (k s) := by
  by_cases h : mOf src cls s = true
  · have hlt := mOf_lt h
    have e : src.size - s = (src.size - (s + 1)) + 1 := by omega
    rw [e]
    simp only [countMax, h, if_true]
    rw [Nat.add_comm 1, maxExpand_succ]
  · have h' : mOf src cls s = false := by simpa using h
    rw [countMax_false _ _ _ h']
    simp [h', maxExpand, orElse]

theorem minExpand_unfold {α : Type} (src : Array Nat) (mo : Nat → Bool) (k : Nat → Res α) (s : Nat) (hs : s ≤ src.size) :
    minExpand k mo (src.size + 1 - s) s =
      orElse (k s) (if mo s = true then minExpand k mo (src.size + 1 - (s + 1)) (s + 1) else .fail) := by
  have e : src.size + 1 - s = (src.size + 1 - (s + 1)) + 1 := by omega
  rw [e]
  simp only [minExpand, orElse]
  cases k s <;> rfl

/-! ### the loops of the VM -/
section loops
variable {src : Array Nat} {P : Array Inst} {cap s0 : Nat}

/-- behaviour of the continuation (the rest of the program) at `pcK` -/
def ContOK (src : Array Nat) (P : Array Inst) (cap s0 : Nat) (k : Nat → Res (Nat × List Cap)) (pcK W : Nat) : Prop :=
  ∀ f sp rec m, CapsInv s0 m → sp ≤ src.size → rec + (src.size - sp) + W ≤ cap →
    Agrees s0 (k sp) (vm src P cap f pcK sp rec m)

theorem star_loop {pc : Nat} {c : Class} {cls : Cls} {k : Nat → Res (Nat × List Cap)} {W : Nat}
    (hS : P[pc]? = some (.split (pc + 1) (pc + 3))) (hC : P[pc + 1]? = some (.char c)) (hJ : P[pc + 2]? = some (.jmp pc))
    (hM : ∀ ch : Nat, c.Matches (ch : Int) = singleMatch ch cls)
    (hK : ContOK src P cap s0 k (pc + 3) W) :
    ∀ d sp, src.size - sp = d → sp ≤ src.size → ∀ f rec m, CapsInv s0 m → rec + (src.size - sp) + W + 1 ≤ cap →
      Agrees s0 (maxExpand k sp (countMax (mOf src cls) sp (src.size - sp))) (vm src P cap f pc sp rec m) := by
  intro d
  induction d with
  | zero =>
    intro sp hd hsp f rec m hm hpot
    rw [maxExpand_unfold]
    refine agrees_split hS (by omega) ?_ (fun f m' hm' => hK f sp rec m' hm' hsp (by omega)) f
    refine agrees_char hC hM hm ?_
    intro hmo; have := mOf_lt hmo; omega
  | succ d ih =>
    intro sp hd hsp f rec m hm hpot
    rw [maxExpand_unfold]
    refine agrees_split hS (by omega) ?_ (fun f m' hm' => hK f sp rec m' hm' hsp (by omega)) f
    refine agrees_char hC hM hm ?_
    intro hmo
    have hlt := mOf_lt hmo
    refine agrees_jmp hJ ?_
    intro f'
    exact ih (sp + 1) (by omega) (by omega) f' (rec + 1) m hm (by omega)

theorem plus_loop {pc : Nat} {c : Class} {cls : Cls} {k : Nat → Res (Nat × List Cap)} {W : Nat}
    (hC : P[pc]? = some (.char c)) (hS : P[pc + 1]? = some (.split pc (pc + 2)))
    (hM : ∀ ch : Nat, c.Matches (ch : Int) = singleMatch ch cls)
    (hK : ContOK src P cap s0 k (pc + 2) W) :
    ∀ d sp, src.size - sp = d → sp ≤ src.size → ∀ f rec m, CapsInv s0 m → rec + (src.size - sp) + W + 1 ≤ cap →
      Agrees s0 (maxExpand k sp (countMax (mOf src cls) sp (src.size - sp))) (vm src P cap f (pc + 1) sp rec m) := by
  intro d
  induction d with
  | zero =>
    intro sp hd hsp f rec m hm hpot
    rw [maxExpand_unfold]
    refine agrees_split hS (by omega) ?_ (fun f m' hm' => hK f sp rec m' hm' hsp (by omega)) f
    refine agrees_char hC hM hm ?_
    intro hmo; have := mOf_lt hmo; omega
  | succ d ih =>
    intro sp hd hsp f rec m hm hpot
    rw [maxExpand_unfold]
    refine agrees_split hS (by omega) ?_ (fun f m' hm' => hK f sp rec m' hm' hsp (by omega)) f
    refine agrees_char hC hM hm ?_
    intro hmo
    have hlt := mOf_lt hmo
    intro f'
    exact ih (sp + 1) (by omega) (by omega) f' (rec + 1) m hm (by omega)

theorem minus_loop {pc : Nat} {c : Class} {cls : Cls} {k : Nat → Res (Nat × List Cap)} {W : Nat}
    (hS : P[pc]? = some (.split (pc + 3) (pc + 1))) (hC : P[pc + 1]? = some (.char c)) (hJ : P[pc + 2]? = some (.jmp pc))
    (hM : ∀ ch : Nat, c.Matches (ch : Int) = singleMatch ch cls)
    (hK : ContOK src P cap s0 k (pc + 3) W) :
    ∀ d sp, src.size - sp = d → sp ≤ src.size → ∀ f rec m, CapsInv s0 m → rec + (src.size - sp) + W + 1 ≤ cap →
      Agrees s0 (minExpand k (mOf src cls) (src.size + 1 - sp) sp) (vm src P cap f pc sp rec m) := by
  intro d
  induction d with
  | zero =>
    intro sp hd hsp f rec m hm hpot
    rw [minExpand_unfold src _ k sp hsp]
    refine agrees_split hS (by omega) (fun f => hK f sp (rec + 1) m hm hsp (by omega)) ?_ f
    intro f m' hm'
    refine agrees_char hC hM hm' ?_ f
    intro hmo; have := mOf_lt hmo; omega
  | succ d ih =>
    intro sp hd hsp f rec m hm hpot
    rw [minExpand_unfold src _ k sp hsp]
    refine agrees_split hS (by omega) (fun f => hK f sp (rec + 1) m hm hsp (by omega)) ?_ f
    intro f m' hm'
    refine agrees_char hC hM hm' ?_ f
    intro hmo
    have hlt := mOf_lt hmo
    refine agrees_jmp hJ ?_
    intro f'
    exact ih (sp + 1) (by omega) (by omega) f' rec m' hm' (by omega)

end loops

/-! ### the simulation, by induction over the items -/

theorem emit_lookup (P : Array Inst) (pre blk rest : List Inst) (hP : P = (pre ++ (blk ++ rest)).toArray) (j : Nat)
    (h : j < blk.length) : P[pre.length + j]? = blk[j]? := by
  rw [hP]; exact lookup_in pre blk rest j h

theorem vm_sim (src : Array Nat) (cap s0 : Nat) (tail : Bool) (P : Array Inst) :
    ∀ (its : List Item) (pre : List Inst),
      P = (pre ++ (emitAll pre.length (its.map Item.block) ++ tailInsts tail)).toArray →
      (∀ it ∈ its, ∀ ch : Nat, (toClass it.cls).Matches (ch : Int) = singleMatch ch it.cls) →
      ∀ (caps : List Cap),
        ContOK src P cap s0 (fun sp => refItems src tail its caps sp) pre.length (its.length + 1) := by
  intro its
  induction its with
  | nil =>
    intro pre hP _ caps f sp rec m hm hsp hpot
    have h0 : P[pre.length + 0]? = (tailInsts tail)[0]? := by
      apply emit_lookup P pre (tailInsts tail) [] (by simpa [emitAll] using hP) 0
      unfold tailInsts; split <;> simp
    have h1 : P[pre.length + 1]? = (tailInsts tail)[1]? := by
      apply emit_lookup P pre (tailInsts tail) [] (by simpa [emitAll] using hP) 1
      unfold tailInsts; split <;> simp
    have h0' : P[pre.length]? = some (.save 1) := by
      rw [Nat.add_zero] at h0; rw [h0]; unfold tailInsts; split <;> rfl
    have h1' : P[pre.length + 1]? = some (if tail then .tailMatch else .matchI) := by
      rw [h1]; unfold tailInsts; cases tail <;> rfl
    exact agrees_tail tail caps h0' h1' hm hsp (by simp at hpot; omega) f
  | cons it r ih =>
    intro pre hP hM caps
    have hMit := hM it (by simp)
    -- the program seen from the next block
    have hP' : P = ((pre ++ it.block.emit pre.length) ++
        (emitAll (pre ++ it.block.emit pre.length).length (r.map Item.block) ++ tailInsts tail)).toArray := by
      rw [hP]; simp [emitAll, List.append_assoc]
    have ihr := ih (pre ++ it.block.emit pre.length) hP' (fun x hx => hM x (by simp [hx])) caps
    have hblk : P = (pre ++ (it.block.emit pre.length ++
        (emitAll (pre.length + (it.block.emit pre.length).length) (r.map Item.block) ++ tailInsts tail))).toArray := by
      rw [hP]; simp [emitAll, List.append_assoc]
    have look := emit_lookup P pre (it.block.emit pre.length) _ hblk
    intro f sp rec m hm hsp hpot
    simp only [List.length_cons] at hpot
    cases hq : it.q with
    | one =>
      have hb : it.block = .chr (toClass it.cls) := by simp [Item.block, hq]
      rw [hb] at look ihr
      simp only [Block.emit, List.length_append, List.length_cons, List.length_nil] at look ihr
      have l0 := look 0 (by simp)
      simp only [Nat.add_zero, List.getElem?_cons_zero] at l0
      simp only [refItems, hq]
      refine agrees_char l0 hMit hm ?_ f
      intro hmo f'
      have := mOf_lt hmo
      exact ihr f' (sp + 1) rec m hm (by omega) (by omega)
    | opt =>
      have hb : it.block = .opt (toClass it.cls) := by simp [Item.block, hq]
      rw [hb] at look ihr
      simp only [Block.emit, List.length_append, List.length_cons, List.length_nil] at look ihr
      have l0 := look 0 (by simp)
      have l1 := look 1 (by simp)
      simp only [Nat.add_zero, List.getElem?_cons_zero, List.getElem?_cons_succ] at l0 l1
      have hrw : refItems src tail (it :: r) caps sp =
          orElse (if mOf src it.cls sp = true then refItems src tail r caps (sp + 1) else .fail) (refItems src tail r caps sp) := by
        simp only [refItems, hq]
        split <;> simp [orElse]
      show Agrees s0 (refItems src tail (it :: r) caps sp) _
      rw [hrw]
      refine agrees_split l0 (by omega) ?_ (fun f m' hm' => ihr f sp rec m' hm' hsp (by omega)) f
      refine agrees_char l1 hMit hm ?_
      intro hmo f'
      have := mOf_lt hmo
      exact ihr f' (sp + 1) (rec + 1) m hm (by omega) (by omega)
    | star =>
      have hb : it.block = .star (toClass it.cls) := by simp [Item.block, hq]
      rw [hb] at look ihr
      simp only [Block.emit, List.length_append, List.length_cons, List.length_nil] at look ihr
      have l0 := look 0 (by simp)
      have l1 := look 1 (by simp)
      have l2 := look 2 (by simp)
      simp only [Nat.add_zero, List.getElem?_cons_zero, List.getElem?_cons_succ] at l0 l1 l2
      simp only [refItems, hq]
      exact star_loop l0 l1 l2 hMit ihr _ sp rfl hsp f rec m hm (by omega)
    | plus =>
      have hb : it.block = .plus (toClass it.cls) := by simp [Item.block, hq]
      rw [hb] at look ihr
      simp only [Block.emit, List.length_append, List.length_cons, List.length_nil] at look ihr
      have l0 := look 0 (by simp)
      have l1 := look 1 (by simp)
      simp only [Nat.add_zero, List.getElem?_cons_zero, List.getElem?_cons_succ] at l0 l1
      simp only [refItems, hq]
      refine agrees_char l0 hMit hm ?_ f
      intro hmo f'
      have := mOf_lt hmo
      exact plus_loop l0 l1 hMit ihr _ (sp + 1) rfl (by omega) f' rec m hm (by omega)
    | minus =>
      have hb : it.block = .lazy (toClass it.cls) := by simp [Item.block, hq]
      rw [hb] at look ihr
      simp only [Block.emit, List.length_append, List.length_cons, List.length_nil] at look ihr
      have l0 := look 0 (by simp)
      have l1 := look 1 (by simp)
      have l2 := look 2 (by simp)
      simp only [Nat.add_zero, List.getElem?_cons_zero, List.getElem?_cons_succ] at l0 l1 l2
      simp only [refItems, hq]
      exact minus_loop l0 l1 l2 hMit ihr _ sp rfl hsp f rec m hm (by omega)

end GLua.PmProofs
