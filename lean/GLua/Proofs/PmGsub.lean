/-
  C14 lemmas: `strGsubDoReplace` (offset arithmetic over a growing buffer) against the reference `splice`.
-/
import GLua.Model.Pm
import GLua.Spec.LuaPattern

namespace GLua.PmProofs
open GLua.Pm GLua.LuaPattern

/-- the spans are ordered, disjoint and inside the string (`pos` = end of the previous span) -/
def Ordered (len : Nat) : Nat → List ReplaceInfo → Prop
  | _, [] => True
  | pos, r :: rest => pos ≤ r.i0 ∧ r.i0 ≤ r.i1 ∧ r.i1 ≤ len ∧ Ordered len r.i1 rest

def infoTriples (infos : List ReplaceInfo) : List (Nat × Nat × List Nat) := infos.map fun r => (r.i0, r.i1, r.str)

theorem doReplace_go (str : List Nat) :
    ∀ (infos : List ReplaceInfo) (done : List Nat) (pos : Nat), pos ≤ str.length → Ordered str.length pos infos →
      strGsubDoReplace.go infos ((done.length : Int) - pos) (done ++ str.drop pos) =
        .ok (done ++ splice str pos (infoTriples infos)) := by
  intro infos
  induction infos with
  | nil => intro done pos _ _; simp [strGsubDoReplace.go, splice, infoTriples, pure, Except.pure]
  | cons r rest ih =>
    intro done pos hp ho
    obtain ⟨h0, h1, h2, hrest⟩ := ho
    have hlen : (done ++ str.drop pos).length = done.length + (str.length - pos) := by simp
    have ha : (done.length : Int) - pos + r.i0 = ((done.length + (r.i0 - pos) : Nat) : Int) := by omega
    have hb : (done.length : Int) - pos + r.i1 = ((done.length + (r.i1 - pos) : Nat) : Int) := by omega
    have htake : (done ++ str.drop pos).take (done.length + (r.i0 - pos)) = done ++ (str.drop pos).take (r.i0 - pos) := by
      exact List.take_length_add_append _
    have hdrop : (done ++ str.drop pos).drop (done.length + (r.i1 - pos)) = str.drop r.i1 := by
      rw [List.drop_length_add_append, List.drop_drop]; congr 1; omega
    unfold strGsubDoReplace.go
    simp only [ha, hb, hlen]
    have c1 : ¬ (((done.length + (r.i0 - pos) : Nat) : Int) < 0 ∨ ((done.length + (r.i0 - pos) : Nat) : Int) > ((done.length + (str.length - pos) : Nat) : Int)) := by
      omega
    have c2 : ¬ (((done.length + (r.i1 - pos) : Nat) : Int) < 0) := by omega
    have c3 : ((done.length + (r.i1 - pos) : Nat) : Int) ≤ ((done.length + (str.length - pos) : Nat) : Int) := by omega
    simp only [c1, c2, c3, if_false, if_true, Int.toNat_natCast, htake, hdrop]
    have key := ih (done ++ (str.drop pos).take (r.i0 - pos) ++ r.str) r.i1 h2 hrest
    have hoff : ((done.length : Int) - pos) +
        (((done ++ List.take (r.i0 - pos) (List.drop pos str) ++ r.str ++ List.drop r.i1 str).length : Int) -
          ((done.length + (str.length - pos) : Nat) : Int)) =
        ((done ++ List.take (r.i0 - pos) (List.drop pos str) ++ r.str).length : Int) - r.i1 := by
      simp only [List.length_append, List.length_take, List.length_drop]
      omega
    rw [hoff, key]
    simp [splice, infoTriples, List.append_assoc]

/-- `strGsubDoReplace` over ordered disjoint spans is the reference splice, and never panics. -/
theorem doReplace_eq_splice (str : List Nat) (infos : List ReplaceInfo) (ho : Ordered str.length 0 infos) :
    strGsubDoReplace str infos = .ok (splice str 0 (infoTriples infos)) := by
  have := doReplace_go str infos [] 0 (Nat.zero_le _) ho
  simpa [strGsubDoReplace] using this

/-- the Spec's own assembly (`str_gsub`'s buffer: gap, `add_value`, …, tail) is the same `splice`, whenever every
    `add_value` succeeds: so Model assembly = `splice` = Spec assembly for the same spans and replacement texts. -/
theorem spec_assemble_splice (src : Array Nat) (repl : Repl) :
    ∀ (ms : List Match) (txts : List (List Nat)) (k pos : Nat), ms.length = txts.length →
      (∀ i (h : i < ms.length) (h' : i < txts.length), addValue src repl (k + i) ms[i] = .ok txts[i]) →
      assemble src repl k pos ms =
        .ok (splice src.toList pos ((ms.zip txts).map fun p => (p.1.s, p.1.e, p.2))) := by
  intro ms
  induction ms with
  | nil =>
    intro txts k pos hl _
    cases txts with
    | nil =>
      simp only [assemble, splice, slice, List.zip_nil_right, List.map_nil]
      rw [List.take_of_length_le (by simp)]
    | cons _ _ => simp at hl
  | cons m r ih =>
    intro txts k pos hl hv
    cases txts with
    | nil => simp at hl
    | cons t ts =>
      have h0 := hv 0 (by simp) (by simp)
      simp only [Nat.add_zero, List.getElem_cons_zero] at h0
      have hr := ih ts (k + 1) m.e (by simpa using hl) (by
        intro i h h'
        have := hv (i + 1) (by simp; omega) (by simp; omega)
        simpa [Nat.add_assoc, Nat.add_comm 1 i] using this)
      simp [assemble, h0, hr, splice, slice]

end GLua.PmProofs
