/-
  C14 lemmas: `vm_eq_reference` for the fragment of patterns made of plain literal bytes — through the whole
  Model pipeline (scanner, parsePattern, compilePattern, recursiveVM, Find, strFind) against the Spec's `strFind`.
-/
import GLua.Model.Pm
import GLua.Spec.LuaPattern
import GLua.Proofs.PmScan
namespace GLua.PmProofs
open GLua.Pm GLua.LuaPattern

/-- a byte that is not a magic character of the pattern language (and not NUL) -/
def isPlain (c : Nat) : Bool :=
  c != 0 && c != 94 && c != 36 && c != 40 && c != 41 && c != 37 && c != 46 && c != 91 && c != 93 &&
  c != 42 && c != 43 && c != 45 && c != 63

/-! ### the scanner after `k` consumed bytes -/
def stAt (k : Nat) : ScannerState := if k = 0 then { pos := 0, started := false } else { pos := (k : Int) - 1, started := true }

def scAt (src : Array Nat) (k : Nat) (sv : ScannerState) : Scanner := { src := src, state := stAt k, saved := sv }

theorem next_at (src : Array Nat) (k : Nat) (sv : ScannerState) (h : k < src.size) :
    (scAt src k sv).next = .ok (scAt src (k + 1) sv, (src[k] : Int)) := by
  unfold Scanner.next scAt stAt Scanner.nextPos
  by_cases hk : k = 0
  · subst hk
    have h0 : src.size ≠ 0 := by omega
    simp [h0, EOS, Array.getElem?_eq_getElem h, pure, Except.pure]
  · have h1 : ¬ ((k : Int) - 1 = -1) := by omega
    have h2 : ¬ ((k : Int) - 1 ≥ (src.size : Int) - 1) := by omega
    have h3 : ((k : Int) - 1 + 1).toNat = k := by omega
    have h4 : ¬ ((k : Int) - 1 + 1 = -1) := by omega
    have h5 : ¬ ((k : Int) - 1 + 1 < 0) := by omega
    simp [hk, EOS, h1, h2, h3, h4, h5, Array.getElem?_eq_getElem h, pure, Except.pure]

theorem peek_at (src : Array Nat) (k : Nat) (sv : ScannerState) (h : k < src.size) :
    (scAt src k sv).peek = .ok (scAt src k sv, (src[k] : Int)) := by
  unfold Scanner.peek
  rw [next_at src k sv h]
  by_cases hk : k = 0
  · subst hk
    simp [scAt, stAt, EOS, bind, Except.bind, pure, Except.pure]
  · have h1 : ¬ ((k : Int) - 1 = -1) := by omega
    have h2 : ¬ ((k : Int) = -1) := by omega
    have h3 : ¬ ((k : Int) - 1 < 0) := by omega
    simp [scAt, stAt, EOS, hk, h1, h2, h3, bind, Except.bind, pure, Except.pure]

theorem peek_end (src : Array Nat) (sv : ScannerState) (h : 0 < src.size) :
    (scAt src src.size sv).peek = .ok (scAt src src.size sv, EOS) := by
  have hk : src.size ≠ 0 := by omega
  have h1 : ¬ ((src.size : Int) - 1 = -1) := by omega
  simp [Scanner.peek, Scanner.next, Scanner.nextPos, scAt, stAt, EOS, hk, h1, bind, Except.bind, pure, Except.pure]

theorem next_end (src : Array Nat) (sv : ScannerState) (h : 0 < src.size) :
    ∃ sc', (scAt src src.size sv).next = .ok (sc', EOS) := by
  have hk : src.size ≠ 0 := by omega
  have h1 : ¬ ((src.size : Int) - 1 = -1) := by omega
  simp [Scanner.next, Scanner.nextPos, scAt, stAt, EOS, hk, h1, pure, Except.pure]

/-! ### the parser on plain bytes -/
def litPats (l : List Nat) : List Pat := l.map fun (c : Nat) => Pat.single (.char (c : Int))

theorem plain_facts (c : Nat) (h : isPlain c = true) :
    (c : Int) ≠ 37 ∧ (c : Int) ≠ 46 ∧ (c : Int) ≠ 91 ∧ (c : Int) ≠ 93 ∧ (c : Int) ≠ 41 ∧ (c : Int) ≠ 40 ∧
    (c : Int) ≠ 42 ∧ (c : Int) ≠ 43 ∧ (c : Int) ≠ 45 ∧ (c : Int) ≠ 63 ∧ (c : Int) ≠ 36 ∧ (c : Int) ≠ -1 ∧ (c : Int) ≠ 94 := by
  simp [isPlain] at h
  omega

theorem parse_plain (p : List Nat) (hp : ∀ c ∈ p, isPlain c = true) (hne : 0 < p.length) :
    ∀ (rest : List Nat) (k : Nat), p.drop k = rest → k ≤ p.length → ∀ (fuel : Nat) (acc : SeqPat) (sv : ScannerState),
      fuel ≥ rest.length + 1 →
      ∃ sc', parsePattern fuel (scAt p.toArray k sv) true acc =
        .ok (sc', { acc with pats := acc.pats ++ litPats rest }) := by
  intro rest
  induction rest with
  | nil =>
    intro k hk hle fuel acc sv hf
    have hk' : k = p.length := by
      have := congrArg List.length hk
      simp at this; omega
    obtain ⟨f, rfl⟩ : ∃ f, fuel = f + 1 := ⟨fuel - 1, by simp at hf; omega⟩
    have hsz : p.toArray.size = p.length := by simp
    obtain ⟨sc', hn⟩ := next_end p.toArray sv (by omega)
    refine ⟨sc', ?_⟩
    unfold parsePattern
    rw [hk', ← hsz, peek_end p.toArray sv (by omega)]
    simp only [hsz] at hn
    simp [bind, Except.bind, EOS, isQuant, hn, pure, Except.pure, litPats]
  | cons c r ih =>
    intro k hk hle fuel acc sv hf
    have hlt : k < p.length := by
      rcases Nat.lt_or_ge k p.length with h | h
      · exact h
      · rw [List.drop_eq_nil_of_le h] at hk; simp at hk
    have hget : p[k] = c := by
      have h0 : (p.drop k)[0]? = some c := by rw [hk]; rfl
      rw [List.getElem?_drop] at h0
      simp only [Nat.add_zero, List.getElem?_eq_getElem hlt, Option.some.injEq] at h0
      exact h0
    have hrest : p.drop (k + 1) = r := by
      have : p.drop (k + 1) = (p.drop k).drop 1 := by simp [List.drop_drop]
      rw [this, hk]; rfl
    obtain ⟨f, rfl⟩ : ∃ f, fuel = f + 1 := ⟨fuel - 1, by simp at hf; omega⟩
    have hsz : k < p.toArray.size := by simp; exact hlt
    have hc := plain_facts c (hp c (by rw [← hget]; exact List.getElem_mem _))
    obtain ⟨h37, h46, h91, h93, h41, h40, h42, h43, h45, h63, h36, hm1, h94⟩ := hc
    obtain ⟨sc', hrec⟩ := ih (k + 1) hrest (by omega) f { acc with pats := acc.pats ++ [.single (.char (c : Int))] } sv
      (by simp at hf ⊢; omega)
    refine ⟨sc', ?_⟩
    unfold parsePattern
    rw [peek_at p.toArray k sv hsz]
    have hgc : ((p.toArray[k] : Nat) : Int) = (c : Int) := by simp [hget]
    simp only [bind, Except.bind, hgc]
    simp [h37, h46, h91, h93, h41, h40, h42, h43, h45, h63, h36, hm1, EOS, isQuant, next_at p.toArray k sv hsz, hrec,
      litPats, List.append_assoc]

theorem parseTop_plain (p : List Nat) (hp : ∀ c ∈ p, isPlain c = true) (hne : 0 < p.length) :
    parseTop p.toArray = .ok { pats := litPats p } := by
  have hsz : 0 < p.toArray.size := by simp; exact hne
  have h0 : ({ src := p.toArray } : Scanner) = scAt p.toArray 0 {} := by simp [scAt, stAt]
  obtain ⟨sc', hpar⟩ := parse_plain p hp hne p 0 (by simp) (by omega) (2 * p.toArray.size + 8) {} {} (by simp; omega)
  have hc := plain_facts p[0] (hp _ (List.getElem_mem _))
  have h94 : ((p.toArray[0] : Nat) : Int) ≠ 94 := by simp; exact hc.2.2.2.2.2.2.2.2.2.2.2.2
  unfold parseTop
  simp only [h0, peek_at p.toArray 0 {} hsz, bind, Except.bind, h94, if_false, hpar, pure, Except.pure]
  simp

/-! ### compile -/
def litInsts (l : List Nat) : List Inst := l.map fun (c : Nat) => Inst.char (.char (c : Int))

theorem compileSeq_lit (l : List Nat) : ∀ (ptr : IPtr),
    compileSeq (litPats l) ptr = .ok { ptr with insts := (ptr.insts.toList ++ litInsts l).toArray } := by
  induction l with
  | nil => intro ptr; simp [litPats, litInsts, compileSeq, pure, Except.pure]
  | cons c r ih =>
    intro ptr
    have := ih { ptr with insts := ptr.insts.push (.char (.char (c : Int))) }
    simp only [litPats, List.map_cons, compileSeq, compilePat, bind, Except.bind, pure, Except.pure] at this ⊢
    rw [this]
    simp [litInsts, List.append_assoc]

def litProg (p : List Nat) : Array Inst := ([Inst.save 0] ++ litInsts p ++ [Inst.save 1, Inst.matchI]).toArray

theorem compile_lit (p : List Nat) : compilePattern { pats := litPats p } = .ok (litProg p) := by
  simp [compilePattern, compileSeq_lit, bind, Except.bind, pure, Except.pure, litProg]

/-! ### the VM on a literal program -/
def litMatch (src : Array Nat) : Nat → List Nat → Bool
  | _, [] => true
  | sp, c :: r => src[sp]? == some c && litMatch src (sp + 1) r

theorem litProg_char (done rest : List Nat) (c : Nat) :
    (litProg (done ++ c :: rest))[1 + done.length]? = some (.char (.char (c : Int))) := by
  simp only [litProg, litInsts, List.getElem?_toArray, List.map_append, List.map_cons, List.append_assoc]
  rw [List.getElem?_append_right (by simp <;> omega)]
  simp

theorem litProg_save1 (p : List Nat) : (litProg p)[1 + p.length]? = some (.save 1) := by
  simp only [litProg, litInsts, List.getElem?_toArray, List.append_assoc]
  rw [List.getElem?_append_right (by simp <;> omega)]
  simp

theorem litProg_match (p : List Nat) : (litProg p)[1 + p.length + 1]? = some .matchI := by
  simp only [litProg, litInsts, List.getElem?_toArray, List.append_assoc]
  rw [List.getElem?_append_right (by simp <;> omega)]
  simp
  rw [List.getElem?_append_right (by simp <;> omega)]
  simp

theorem chars_run_ok (src : Array Nat) (cap rec : Nat) (m : Caps) :
    ∀ (rest done : List Nat) (sp f : Nat), litMatch src sp rest = true →
      vm src (litProg (done ++ rest)) cap (rest.length + f) (1 + done.length) sp rec m =
        vm src (litProg (done ++ rest)) cap f (1 + (done ++ rest).length) (sp + rest.length) rec m := by
  intro rest
  induction rest with
  | nil => intro done sp f _; simp
  | cons c r ih =>
    intro done sp f hm
    simp only [litMatch, Bool.and_eq_true, beq_iff_eq] at hm
    have h1 := ih (done ++ [c]) (sp + 1) f hm.2
    simp only [List.append_assoc, List.singleton_append, List.length_append, List.length_cons, List.length_nil] at h1
    have hfuel : (c :: r).length + f = (r.length + f) + 1 := by simp; omega
    rw [hfuel]
    conv => lhs; unfold vm
    simp only [litProg_char, hm.1, Class.Matches, beq_self_eq_true, if_true]
    rw [show 1 + done.length + 1 = 1 + (done.length + (0 + 1)) by omega, h1]
    simp only [List.length_append, List.length_cons]
    rw [show sp + 1 + r.length = sp + (r.length + 1) by omega]

theorem chars_run_fail (src : Array Nat) (cap rec : Nat) (m : Caps) :
    ∀ (rest done : List Nat) (sp f : Nat), litMatch src sp rest = false →
      ∃ sp', vm src (litProg (done ++ rest)) cap (rest.length + f) (1 + done.length) sp rec m = .ok (false, sp', m) := by
  intro rest
  induction rest with
  | nil => intro done sp f h; simp [litMatch] at h
  | cons c r ih =>
    intro done sp f hm
    have hfuel : (c :: r).length + f = (r.length + f) + 1 := by simp; omega
    rw [hfuel]
    unfold vm
    simp only [litProg_char]
    cases hs : src[sp]? with
    | none => exact ⟨sp, by simp [pure, Except.pure]⟩
    | some ch =>
      by_cases hc : ch = c
      · subst hc
        have hm2 : litMatch src (sp + 1) r = false := by simpa [litMatch, hs] using hm
        obtain ⟨sp', h1⟩ := ih (done ++ [ch]) (sp + 1) f hm2
        simp only [List.append_assoc, List.singleton_append, List.length_append, List.length_cons, List.length_nil] at h1
        refine ⟨sp', ?_⟩
        simp only [Class.Matches, beq_self_eq_true, if_true]
        rw [show 1 + done.length + 1 = 1 + (done.length + (0 + 1)) by omega, h1]
      · refine ⟨sp, ?_⟩
        have : ((c : Int) == (ch : Int)) = false := by simp; omega
        simp [Class.Matches, this, pure, Except.pure]

theorem litProg_0 (p : List Nat) : (litProg p)[0]? = some (.save 0) := by
  simp [litProg]

theorem setCap0 (sp : Nat) : setCapture #[] 0 sp = (#[sp * 2], 0) := by
  simp [setCapture, growTo, pushZeros, Array.setIfInBounds]

theorem setCap1 (a sp : Nat) : setCapture #[a] 1 sp = (#[a, sp * 2], 0) := by
  simp [setCapture, growTo, pushZeros, Array.setIfInBounds]

/-- one run of the VM on the program of a literal pattern -/
theorem lit_run (src : Array Nat) (p : List Nat) (cap sp f : Nat) (hcap : cap ≥ 3) :
    vm src (litProg p) cap (p.length + f + 3) 0 sp 1 #[] =
      if litMatch src sp p then .ok (true, sp + p.length, #[sp * 2, (sp + p.length) * 2])
      else .ok (false, sp, #[0]) := by
  have hc2 : ¬ (1 + 1 > cap) := by omega
  have hc3 : ¬ (2 + 1 > cap) := by omega
  conv => lhs; unfold vm
  simp only [litProg_0, setCap0, bind, Except.bind, hc2, if_false]
  have e1 : p.length + f + 2 = p.length + (f + 2) := by omega
  by_cases hm : litMatch src sp p = true
  · have h1 := chars_run_ok src cap (1 + 1) #[sp * 2] p [] sp (f + 2) hm
    simp only [List.nil_append, List.length_nil, Nat.add_zero] at h1
    rw [e1, h1]
    conv => lhs; unfold vm
    simp only [litProg_save1, setCap1, bind, Except.bind, hc3, if_false]
    conv => lhs; unfold vm
    simp [litProg_match, hm, pure, Except.pure]
  · have hm' : litMatch src sp p = false := by simpa using hm
    obtain ⟨sp', h1⟩ := chars_run_fail src cap (1 + 1) #[sp * 2] p [] sp (f + 2) hm'
    simp only [List.nil_append, List.length_nil, Nat.add_zero] at h1
    rw [e1, h1]
    simp [hm', restoreCapture, pure, Except.pure, Array.setIfInBounds]

/-! ### the Spec on a literal pattern -/
theorem plain_nat (c : Nat) (h : isPlain c = true) :
    c ≠ 0 ∧ c ≠ 94 ∧ c ≠ 36 ∧ c ≠ 40 ∧ c ≠ 41 ∧ c ≠ 37 ∧ c ≠ 46 ∧ c ≠ 91 ∧ c ≠ 93 ∧ c ≠ 42 ∧ c ≠ 43 ∧ c ≠ 45 ∧ c ≠ 63 := by
  simp [isPlain] at h
  omega

theorem quant_default_cons {α : Type} (c2 : Nat) (r2 : List Nat) (hr : c2 ≠ 63 ∧ c2 ≠ 42 ∧ c2 ≠ 43 ∧ c2 ≠ 45) (X : α)
    (A B C D : List Nat → α) :
    (match c2 :: r2 with
      | 63 :: r' => A r'
      | 42 :: r' => B r'
      | 43 :: r' => C r'
      | 45 :: r' => D r'
      | _ => X) = X := by
  split
  all_goals first | rfl | simp_all

theorem spec_lit (src : Array Nat) : ∀ (p : List Nat), (∀ c ∈ p, isPlain c = true) → ∀ (fuel : Nat) (caps : List Cap) (sp : Nat),
    fuel ≥ p.length + 1 →
    matchF src fuel caps sp p = if litMatch src sp p then .ok (sp + p.length, caps) else .fail := by
  intro p
  induction p with
  | nil =>
    intro _ fuel caps sp hf
    obtain ⟨f, rfl⟩ : ∃ f, fuel = f + 1 := ⟨fuel - 1, by simp at hf; omega⟩
    simp [matchF, litMatch]
  | cons c r ih =>
    intro hp fuel caps sp hf
    obtain ⟨f, rfl⟩ : ∃ f, fuel = f + 1 := ⟨fuel - 1, by simp at hf; omega⟩
    obtain ⟨h0, h94, h36, h40, h41, h37, h46, h91, h93, h42, h43, h45, h63⟩ := plain_nat c (hp c (by simp))
    have ihr := ih (fun x hx => hp x (by simp [hx])) f caps (sp + 1) (by simp at hf ⊢; omega)
    have hce : classEnd (c :: r) = .ok (.lit c, r) := by simp [classEnd, h37, h91, h46]
    unfold matchF
    simp only [h40, h41, h37, h36, false_and, if_false, hce]
    have hstep : (if (match src[sp]? with | some ch => singleMatch ch (Cls.lit c) | none => false) = true
          then matchF src f caps (sp + 1) r else Res.fail) =
        if litMatch src sp (c :: r) = true then Res.ok (sp + (c :: r).length, caps) else Res.fail := by
      rw [ihr]
      cases hs : src[sp]? with
      | none => simp [litMatch, hs]
      | some ch =>
        by_cases hc : ch = c
        · subst hc
          simp only [singleMatch, beq_self_eq_true, if_true, litMatch, hs, Bool.true_and, List.length_cons]
          split
          · rw [show sp + 1 + r.length = sp + (r.length + 1) by omega]
          · rfl
        · have : (c == ch) = false := by simp; omega
          simp [singleMatch, this, litMatch, hs, hc]
    cases r with
    | nil => exact hstep
    | cons c2 r2 =>
      obtain ⟨_, _, _, _, _, _, _, _, _, g42, g43, g45, g63⟩ := plain_nat c2 (hp c2 (by simp))
      clear ih ihr hf hp hce
      split
      · rename_i heq; injection heq with h1 _; omega
      · rename_i heq; injection heq with h1 _; omega
      · rename_i heq; injection heq with h1 _; omega
      · rename_i heq; injection heq with h1 _; omega
      · exact hstep

/-! ### assembling `string.find` -/
theorem init_eq (n : Nat) (init : Int) :
    (if luaIndex2StringIndexStart n init > n then n else luaIndex2StringIndexStart n init) = initOffset init n := by
  unfold luaIndex2StringIndexStart initOffset posrelat
  simp only []
  repeat' split
  all_goals omega

/-- the Model's run at one position, for a literal pattern -/
def litRun (src : Array Nat) (p : List Nat) (sp : Nat) : M (Bool × Nat × Caps) :=
  if litMatch src sp p then .ok (true, sp + p.length, #[sp * 2, (sp + p.length) * 2]) else .ok (false, sp, #[0])

theorem first_loop (src : Array Nat) (p : List Nat) (hp : ∀ c ∈ p, isPlain c = true) :
    ∀ (k s fuel : Nat), s + k = src.size + 1 → fuel ≥ k + 1 →
      findLoop (litRun src p) src.size 1 false fuel s [] =
        .ok (match scanFrom src p false k s with
             | .ok m => [#[m.s * 2, m.e * 2]]
             | _ => []) := by
  intro k
  induction k with
  | zero =>
    intro s fuel hs hf
    obtain ⟨f, rfl⟩ : ∃ f, fuel = f + 1 := ⟨fuel - 1, by omega⟩
    have : s > src.size := by omega
    simp [findLoop, this, scanFrom, pure, Except.pure]
  | succ k ih =>
    intro s fuel hs hf
    obtain ⟨f, rfl⟩ : ∃ f, fuel = f + 1 := ⟨fuel - 1, by omega⟩
    have hle : ¬ s > src.size := by omega
    have hspec : doMatch src s p = if litMatch src s p then .ok (s + p.length, []) else .fail :=
      spec_lit src p hp (p.length + 2) [] s (by omega)
    unfold findLoop scanFrom
    simp only [hle, if_false, hspec, litRun, bind, Except.bind]
    by_cases hm : litMatch src s p = true
    · simp [hm, pure, Except.pure]
    · have hm' : litMatch src s p = false := by simpa using hm
      simp only [hm', Bool.false_eq_true, if_false, List.length_nil]
      by_cases hlt : s < src.size
      · simp only [hlt, Bool.not_false, and_self, if_true]
        exact ih (s + 1) f (by omega) (by omega)
      · have hk : k = 0 := by omega
        subst hk
        have hgt : s + 1 > src.size := by omega
        obtain ⟨f', rfl⟩ : ∃ f', f = f' + 1 := ⟨f - 1, by omega⟩
        simp [hlt, findLoop, hgt, pure, Except.pure]

theorem scanFrom_lit (src : Array Nat) (p : List Nat) (hp : ∀ c ∈ p, isPlain c = true) :
    ∀ (k s : Nat), (∀ e, scanFrom src p false k s ≠ .error e) ∧ (∀ m, scanFrom src p false k s = .ok m → m.caps = []) := by
  intro k
  induction k with
  | zero => intro s; simp [scanFrom]
  | succ k ih =>
    intro s
    have hspec : doMatch src s p = if litMatch src s p then .ok (s + p.length, []) else .fail :=
      spec_lit src p hp (p.length + 2) [] s (by omega)
    unfold scanFrom
    rw [hspec]
    by_cases hm : litMatch src s p = true
    · simp only [hm, if_true]
      constructor
      · intro e h; cases h
      · intro m h; injection h with h; rw [← h]
    · have hm' : litMatch src s p = false := by simpa using hm
      simp only [hm', Bool.false_eq_true, if_false]
      split
      · exact ih (s + 1)
      · constructor
        · intro e h; cases h
        · intro m h; cases h

/-- canonical reply of the Model's `strFind` (`none` = a Lua error or a Go panic) -/
def modelFind (pat subj : List Nat) (init : Int) : Option (List Pm.LV) :=
  match Pm.strFind subj.toArray pat.toArray init with
  | .ok vs => some vs
  | .error _ => none

/-- canonical reply of the Spec's `strFind` (`none` = error) -/
def specFind (pat subj : List Nat) (init : Int) : Option (List Pm.LV) :=
  match LuaPattern.strFind subj.toArray pat init with
  | .ok (s, e, cs) => some (.num s :: .num e :: cs.map fun c => match c with | .str b => .str b | .pos n => .num n)
  | .fail => some [.nil]
  | .error _ => none

theorem vm_litProg_eq (src : Array Nat) (p : List Nat) (sp : Nat) :
    vm src (litProg p) maxRecursionLevel (vmFuel src (litProg p)) 0 sp 1 #[] = litRun src p sp := by
  have hsz : (litProg p).size = p.length + 3 := by simp [litProg, litInsts] <;> omega
  have hf : vmFuel src (litProg p) = p.length + (vmFuel src (litProg p) - p.length - 3) + 3 := by
    unfold vmFuel; rw [hsz]
    have : (2 * (p.length + 3) + 2) * (src.size + 1) ≥ (2 * (p.length + 3) + 2) * 1 := Nat.mul_le_mul_left _ (by omega)
    omega
  rw [hf, lit_run src p maxRecursionLevel sp _ (by unfold maxRecursionLevel; omega)]
  rfl

theorem find_literal_eq (pat subj : List Nat) (init : Int) (hp : ∀ c ∈ pat, isPlain c = true) :
    modelFind pat subj init = specFind pat subj init := by
  unfold modelFind specFind Pm.strFind LuaPattern.strFind firstMatch
  simp only [init_eq, List.size_toArray, bind, Except.bind, pure, Except.pure]
  generalize hsrc : subj.toArray = src
  have hn : subj.length = src.size := by rw [← hsrc]; simp
  rw [hn]
  generalize hi : initOffset init src.size = i
  have hile : i ≤ src.size := by
    rw [← hi]; unfold initOffset; simp only []; repeat' split
    all_goals omega
  cases pat with
  | nil =>
    have hk : src.size + 1 - i = (src.size - i) + 1 := by omega
    simp [splitAnchor, hk, scanFrom, doMatch, matchF, pushCaptures, allCaptures]
  | cons c r =>
    obtain ⟨_, h94, _⟩ := plain_nat c (hp c (by simp))
    have hsa : splitAnchor (c :: r) = (false, c :: r) := by
      unfold splitAnchor; split
      · rename_i heq; injection heq with h1 _; omega
      · rfl
    have hne : ¬ ((c :: r).length = 0) := by simp
    simp only [hsa, hne, if_false, find, liftErr, parseTop_plain (c :: r) hp (by simp), compile_lit, bind, Except.bind]
    have hrun : (fun sp => vm src (litProg (c :: r)) maxRecursionLevel (vmFuel src (litProg (c :: r))) 0 sp 1 #[]) =
        litRun src (c :: r) := funext fun sp => vm_litProg_eq src (c :: r) sp
    rw [hrun, first_loop src (c :: r) hp (src.size + 1 - i) i (src.size + 2) (by omega) (by omega)]
    cases hsf : scanFrom src (c :: r) false (src.size + 1 - i) i with
    | error e => exact absurd hsf ((scanFrom_lit src (c :: r) hp _ _).1 e)
    | fail => simp [pure, Except.pure]
    | ok m =>
      have hcaps := (scanFrom_lit src (c :: r) hp _ _).2 m hsf
      simp [Pm.capture, pushCaps, pushCaptures, allCaptures, hcaps, pure, Except.pure, bind, Except.bind]

end GLua.PmProofs