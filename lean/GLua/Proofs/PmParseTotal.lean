/-
  C14 — the pattern PARSER is total on every byte string: `parseTop p` is a parsed pattern or a `*pm.Error`
  ("unexpected EOS", "invalid capture index", "invalid ')'", "unfinished capture") — never a Go panic (scanner index,
  `set.Classes[len-2]`), and the loops need no more iterations than the model's fuel `2·|p|+8`.
  The scanner is followed through its reachable states: `scK src k sv` = "k bytes consumed" (k ≤ |src|) or, beyond, "EOS
  has been read".
-/
import GLua.Proofs.PmLit
import GLua.Proofs.PmCompile

namespace GLua.PmProofs
open GLua.Pm

set_option linter.unusedSimpArgs false
set_option linter.unusedVariables false

/-- reachable scanner states: `k ≤ size` bytes consumed, or (k > size) EOS already returned -/
def stK (size k : Nat) : ScannerState := if k ≤ size then stAt k else { pos := EOS, started := true }

def scK (src : Array Nat) (k : Nat) (sv : ScannerState) : Scanner := { src := src, state := stK src.size k, saved := sv }

/-- the byte `Next` returns from state k -/
def rd (src : Array Nat) (k : Nat) : Int := if h : k < src.size then (src[k] : Int) else EOS

/-- the state after `Next` -/
def nk (src : Array Nat) (k : Nat) : Nat := min (k + 1) (src.size + 1)

/-- the state after `Peek` (the same, except that peeking into an empty pattern leaves the scanner at EOS) -/
def pk (src : Array Nat) (k : Nat) : Nat := if src.size = 0 ∧ k = 0 then 1 else k

theorem scK_eq_scAt (src : Array Nat) (k : Nat) (sv : ScannerState) (h : k ≤ src.size) : scK src k sv = scAt src k sv := by
  simp [scK, scAt, stK, h]

theorem rd_lt {src : Array Nat} {k : Nat} (h : rd src k ≠ EOS) : k < src.size := by
  unfold rd at h
  by_cases hk : k < src.size
  · exact hk
  · simp [hk] at h

theorem rd_of_ge {src : Array Nat} {k : Nat} (h : ¬ k < src.size) : rd src k = EOS := by
  simp [rd, h]

theorem rd_nonneg {src : Array Nat} {k : Nat} (h : k < src.size) : 0 ≤ rd src k := by
  simp [rd, h]

theorem next_K (src : Array Nat) (k : Nat) (sv : ScannerState) :
    (scK src k sv).next = .ok (scK src (nk src k) sv, rd src k) := by
  by_cases h1 : k < src.size
  · rw [scK_eq_scAt src k sv (by omega), next_at src k sv h1]
    have : nk src k = k + 1 := by unfold nk; omega
    rw [this, scK_eq_scAt src (k + 1) sv (by omega)]
    simp [rd, h1]
  · have hrd : rd src k = EOS := rd_of_ge h1
    have hnk : nk src k = src.size + 1 := by unfold nk; omega
    rw [hrd, hnk]
    by_cases h2 : k = src.size
    · subst h2
      by_cases h0 : src.size = 0
      · simp [scK, stK, stAt, h0, Scanner.next, EOS, pure, Except.pure]
      · have hne : ¬ ((src.size : Int) - 1 = -1) := by omega
        simp [scK, stK, stAt, h0, Scanner.next, Scanner.nextPos, EOS, hne, pure, Except.pure]
    · have hgt : ¬ (k ≤ src.size) := by omega
      have hgt2 : ¬ (src.size + 1 ≤ src.size) := by omega
      simp [scK, stK, hgt, hgt2, Scanner.next, Scanner.nextPos, EOS, pure, Except.pure]

theorem peek_K (src : Array Nat) (k : Nat) (sv : ScannerState) :
    (scK src k sv).peek = .ok (scK src (pk src k) sv, rd src k) := by
  by_cases h1 : k < src.size
  · have hpk : pk src k = k := by
      unfold pk; rw [if_neg (by omega)]
    rw [hpk, scK_eq_scAt src k sv (by omega), peek_at src k sv h1]
    simp [rd, h1]
  · have hrd : rd src k = EOS := rd_of_ge h1
    rw [hrd]
    by_cases h2 : k = src.size
    · subst h2
      by_cases h0 : src.size = 0
      · have hpk : pk src src.size = 1 := by unfold pk; simp [h0]
        rw [hpk]
        simp [scK, stK, stAt, h0, Scanner.peek, Scanner.next, EOS, bind, Except.bind, pure, Except.pure]
      · have hpk : pk src src.size = src.size := by unfold pk; simp [h0]
        rw [hpk, scK_eq_scAt src src.size sv (Nat.le_refl _), peek_end src sv (by omega)]
    · have hgt : ¬ (k ≤ src.size) := by omega
      have hpk : pk src k = k := by
        unfold pk; rw [if_neg (by omega)]
      rw [hpk]
      simp [scK, stK, hgt, Scanner.peek, Scanner.next, Scanner.nextPos, EOS, bind, Except.bind, pure, Except.pure]

theorem save_K (src : Array Nat) (k : Nat) (sv : ScannerState) :
    (scK src k sv).save = scK src k (stK src.size k) := by
  simp [Scanner.save, scK]

theorem restore_K (src : Array Nat) (k j : Nat) :
    (scK src k (stK src.size j)).restore = scK src j (stK src.size j) := by
  simp [Scanner.restore, scK]

theorem nk_ge (src : Array Nat) (k : Nat) : k ≤ nk src k ∨ k > src.size := by unfold nk; omega
theorem nk_ge' (src : Array Nat) (k : Nat) (h : k ≤ src.size + 1) : k ≤ nk src k := by unfold nk; omega
theorem nk_le (src : Array Nat) (k : Nat) : nk src k ≤ src.size + 1 := by unfold nk; omega
theorem nk_succ (src : Array Nat) (k : Nat) (h : k < src.size) : nk src k = k + 1 := by unfold nk; omega
theorem pk_ge (src : Array Nat) (k : Nat) : k ≤ pk src k := by unfold pk; split <;> omega
theorem pk_le (src : Array Nat) (k : Nat) (h : k ≤ src.size + 1) : pk src k ≤ src.size + 1 := by unfold pk; split <;> omega
theorem pk_lt (src : Array Nat) (k : Nat) (h : k < src.size) : pk src k = k := by
  unfold pk; rw [if_neg (by omega)]

/-! ### what the parser may return -/

/-- a `*pm.Error` of the parser, with one of its four messages -/
def PmErr (e : PErr) : Prop :=
  ∃ pos msg, e = .pm pos msg ∧
    (msg = "unexpected EOS" ∨ msg = "invalid capture index" ∨ msg = "invalid ')'" ∨ msg = "unfinished capture")

/-- a result that is either a value with a reachable scanner that has not moved backwards, or a `*pm.Error` -/
def SafeR {α : Type} (src : Array Nat) (k : Nat) : M (Scanner × α) → Prop
  | .ok (sc', _) => ∃ k' sv', sc' = scK src k' sv' ∧ k ≤ k' ∧ k' ≤ src.size + 1
  | .error e => PmErr e

theorem SafeR.mono {α : Type} {src : Array Nat} {a b : Nat} {r : M (Scanner × α)} (hab : a ≤ b) (h : SafeR src b r) :
    SafeR src a r := by
  cases r with
  | error e => exact h
  | ok v =>
    obtain ⟨sc', x⟩ := v
    obtain ⟨k', sv', h1, h2, h3⟩ := h
    exact ⟨k', sv', h1, by omega, h3⟩

theorem pmErr_eos (pos : Int) : PmErr (.pm pos "unexpected EOS") := ⟨pos, _, rfl, Or.inl rfl⟩
theorem pmErr_idx (pos : Int) : PmErr (.pm pos "invalid capture index") := ⟨pos, _, rfl, Or.inr (Or.inl rfl)⟩
theorem pmErr_paren (pos : Int) : PmErr (.pm pos "invalid ')'") := ⟨pos, _, rfl, Or.inr (Or.inr (Or.inl rfl))⟩
theorem pmErr_unf (pos : Int) : PmErr (.pm pos "unfinished capture") := ⟨pos, _, rfl, Or.inr (Or.inr (Or.inr rfl))⟩

/-! ### parseClassSet -/
theorem setLoop_safe (src : Array Nat) : ∀ (fuel k : Nat) (sv : ScannerState) (isNot : Bool) (classes : List Class)
    (isrange : Bool), k ≤ src.size + 1 → fuel + k ≥ src.size + 2 → (isrange = true → classes ≠ []) →
    SafeR src k (parseClassSetLoop fuel (scK src k sv) isNot classes isrange) := by
  intro fuel
  induction fuel with
  | zero => intro k sv isNot classes isrange hk hf _; omega
  | succ fuel ih =>
    intro k sv isNot classes isrange hk hf hrange
    -- the common tail: append the class, merge a pending range
    have tailok : ∀ (k' : Nat) (cls : Class), k + 1 ≤ k' → k' ≤ src.size + 1 →
        SafeR src k
          (if isrange = true then
            if (classes ++ [cls]).length < 2 then throw (PErr.goPanic "parseClassSet: set.Classes[len-2]")
            else
              match (classes ++ [cls])[(classes ++ [cls]).length - 2]?,
                (classes ++ [cls])[(classes ++ [cls]).length - 1]? with
              | some b, some e =>
                parseClassSetLoop fuel (scK src k' sv) isNot
                  (List.take ((classes ++ [cls]).length - 2) (classes ++ [cls]) ++ [b.range e]) false
              | _, _ => throw (PErr.goPanic "parseClassSet: set.Classes[len-2]")
          else parseClassSetLoop fuel (scK src k' sv) isNot (classes ++ [cls]) false) := by
      intro k' cls h1 h2
      cases hr : isrange with
      | false =>
        simp only [Bool.false_eq_true, if_false]
        exact (ih k' sv isNot _ false h2 (by omega) (by intro h; cases h)).mono (by omega)
      | true =>
        have hne := hrange hr
        have hlen : classes.length ≥ 1 := by
          cases classes with
          | nil => exact absurd rfl hne
          | cons _ _ => simp
        have hl2 : ¬ ((classes ++ [cls]).length < 2) := by simp; omega
        have hi1 : (classes ++ [cls]).length - 2 < (classes ++ [cls]).length := by simp; omega
        have hi2 : (classes ++ [cls]).length - 1 < (classes ++ [cls]).length := by simp
        simp only [if_true, hl2, if_false, List.getElem?_eq_getElem hi1, List.getElem?_eq_getElem hi2]
        exact (ih k' sv isNot _ false h2 (by omega) (by intro h; cases h)).mono (by omega)
    unfold parseClassSetLoop
    simp only [peek_K, next_K, bind, Except.bind]
    by_cases heos : rd src k = EOS
    · simp only [heos, if_true, throw, throwThe, MonadExceptOf.throw]
      exact pmErr_eos _
    · have hlt := rd_lt heos
      have hpk := pk_lt src k hlt
      have hnk := nk_succ src k hlt
      simp only [heos, if_false, hpk, hnk]
      by_cases h93 : rd src k = 93 ∧ classes.length > 0
      · simp only [h93, and_self, if_true, pure, Except.pure]
        exact ⟨k + 1, sv, rfl, by omega, by omega⟩
      · simp only [h93, if_false]
        by_cases hdash : (rd src k = 45 ∨ rd src k = 93) ∧ classes.length > 0 ∧ (!isrange) = true ∧
            Option.map Class.isChar classes.getLast? = some true
        · simp only [hdash, and_self, if_true]
          refine (ih (k + 1) sv isNot classes true (by omega) (by omega) ?_).mono (by omega)
          intro _ hnil
          rw [hnil] at hdash
          simp at hdash
        · simp only [hdash, if_false]
          by_cases h37 : rd src k = 37
          · simp only [h37, if_true, pure, Except.pure]
            exact tailok (nk src (k + 1)) _ (by have := nk_ge src (k + 1); omega) (nk_le src _)
          · simp only [h37, if_false, heos, pure, Except.pure]
            exact tailok (k + 1) _ (Nat.le_refl _) (by omega)

theorem parseClassSet_safe (src : Array Nat) (fuel k : Nat) (sv : ScannerState) (hk : k ≤ src.size + 1)
    (hf : fuel + k ≥ src.size + 2) : SafeR src k (parseClassSet fuel (scK src k sv)) := by
  unfold parseClassSet
  simp only [peek_K, next_K, bind, Except.bind]
  by_cases h94 : rd src k = 94
  · have hlt : k < src.size := rd_lt (by rw [h94]; decide)
    simp only [h94, if_true, pk_lt src k hlt, nk_succ src k hlt]
    exact (setLoop_safe src fuel (k + 1) sv true [] false (by omega) (by omega) (by intro h; cases h)).mono (by omega)
  · simp only [h94, if_false]
    exact (setLoop_safe src fuel (pk src k) sv false [] false (pk_le src k hk) (by have := pk_ge src k; omega)
      (by intro h; cases h)).mono (pk_ge src k)

/-- `parseClass` consumes at least one byte or fails -/
theorem parseClass_safe (src : Array Nat) (fuel k : Nat) (sv : ScannerState) (allowset : Bool) (hk : k ≤ src.size + 1)
    (hf : fuel + k ≥ src.size + 1) : SafeR src (k + 1) (parseClass fuel (scK src k sv) allowset) := by
  unfold parseClass
  simp only [next_K, bind, Except.bind]
  by_cases heos : rd src k = EOS
  · simp [heos, EOS, throw, throwThe, MonadExceptOf.throw]
    exact pmErr_eos _
  · have hlt := rd_lt heos
    have hnk := nk_succ src k hlt
    simp only [hnk]
    by_cases h37 : rd src k = 37
    · simp only [h37, if_true, pure, Except.pure]
      exact ⟨nk src (k + 1), sv, rfl, by have := nk_ge src (k + 1); omega, nk_le src _⟩
    · simp only [h37, if_false]
      by_cases h46 : rd src k = 46
      · simp only [h46, if_true, pure, Except.pure]
        exact ⟨k + 1, sv, rfl, Nat.le_refl _, by omega⟩
      · simp only [h46, if_false]
        by_cases h91 : rd src k = 91
        · simp only [h91, if_true]
          cases allowset with
          | true =>
            simp only [if_true]
            exact parseClassSet_safe src fuel (k + 1) sv (by omega) (by omega)
          | false =>
            simp only [Bool.false_eq_true, if_false, pure, Except.pure]
            exact ⟨k + 1, sv, rfl, Nat.le_refl _, by omega⟩
        · simp only [h91, if_false, heos, pure, Except.pure]
          exact ⟨k + 1, sv, rfl, Nat.le_refl _, by omega⟩

theorem parsePattern_safe (src : Array Nat) : ∀ (fuel k : Nat) (sv : ScannerState) (tl : Bool) (acc : SeqPat),
    k ≤ src.size + 1 → fuel + k ≥ src.size + 3 → SafeR src k (parsePattern fuel (scK src k sv) tl acc) := by
  intro fuel
  induction fuel with
  | zero => intro k sv tl acc hk hf; omega
  | succ fuel ih =>
    intro k sv tl acc hk hf
    have recOK : ∀ (k' : Nat) (sv' : ScannerState) (tl' : Bool) (acc' : SeqPat), k + 1 ≤ k' → k' ≤ src.size + 1 →
        SafeR src k (parsePattern fuel (scK src k' sv') tl' acc') := by
      intro k' sv' tl' acc' h1 h2
      exact (ih k' sv' tl' acc' h2 (by omega)).mono (by omega)
    unfold parsePattern
    simp only [peek_K, next_K, save_K, restore_K, bind, Except.bind]
    by_cases heos : rd src k = EOS
    · simp [heos, EOS, isQuant, pure, Except.pure]
      have h1 := pk_ge src k
      have h2 := pk_le src k hk
      have h3 := nk_ge' src (pk src k) h2
      exact ⟨nk src (pk src k), sv, rfl, by omega, nk_le src _⟩
    · have hlt := rd_lt heos
      have hpk := pk_lt src k hlt
      have hnk := nk_succ src k hlt
      -- positions reached after further reads from k + 1
      have hp1 : k + 1 ≤ pk src (k + 1) := pk_ge src (k + 1)
      have hp1' : pk src (k + 1) ≤ src.size + 1 := pk_le src (k + 1) (by omega)
      have hn1 : pk src (k + 1) ≤ nk src (pk src (k + 1)) := nk_ge' src _ hp1'
      have hn1' := nk_le src (pk src (k + 1))
      have hn2 : nk src (pk src (k + 1)) ≤ nk src (nk src (pk src (k + 1))) := nk_ge' src _ hn1'
      have hn2' := nk_le src (nk src (pk src (k + 1)))
      have hn3 : nk src (nk src (pk src (k + 1))) ≤ nk src (nk src (nk src (pk src (k + 1)))) := nk_ge' src _ hn2'
      have hn3' := nk_le src (nk src (nk src (pk src (k + 1))))
      simp only [hpk, hnk]
      by_cases h37 : rd src k = 37
      · simp only [h37, if_true]
        by_cases h48 : rd src (k + 1) = 48
        · simp only [h48, if_true, throw, throwThe, MonadExceptOf.throw]
          exact pmErr_idx _
        · simp only [h48, if_false]
          by_cases hdig : 49 ≤ rd src (k + 1) ∧ rd src (k + 1) ≤ 57
          · simp only [hdig, and_self, if_true]
            exact recOK _ _ _ _ (by omega) hn1'
          · simp only [hdig, if_false]
            by_cases h98 : rd src (k + 1) = 98
            · simp only [h98, if_true]
              exact recOK _ _ _ _ (by omega) hn3'
            · simp only [h98, if_false]
              have hc := parseClass_safe src fuel k (stK src.size k) true hk (by omega)
              cases hpc : parseClass fuel (scK src k (stK src.size k)) true with
              | error e => rw [hpc] at hc; exact hc
              | ok v =>
                obtain ⟨sc', cls⟩ := v
                rw [hpc] at hc
                obtain ⟨k', sv', rfl, h1, h2⟩ := hc
                exact recOK _ _ _ _ h1 h2
      · simp only [h37, if_false]
        by_cases hcls : rd src k = 46 ∨ rd src k = 91 ∨ rd src k = 93
        · simp only [hcls, if_true]
          have hc := parseClass_safe src fuel k sv true hk (by omega)
          cases hpc : parseClass fuel (scK src k sv) true with
          | error e => rw [hpc] at hc; exact hc
          | ok v =>
            obtain ⟨sc', cls⟩ := v
            rw [hpc] at hc
            obtain ⟨k', sv', rfl, h1, h2⟩ := hc
            exact recOK _ _ _ _ h1 h2
        · simp only [hcls, if_false]
          by_cases h41 : rd src k = 41
          · simp only [h41, if_true]
            cases tl with
            | true =>
              simp only [if_true, throw, throwThe, MonadExceptOf.throw]
              exact pmErr_paren _
            | false =>
              simp only [Bool.false_eq_true, if_false, pure, Except.pure]
              exact ⟨k, sv, rfl, Nat.le_refl _, hk⟩
          · simp only [h41, if_false]
            by_cases h40 : rd src k = 40
            · simp only [h40, if_true]
              by_cases hpos : rd src (k + 1) = 41
              · simp only [hpos, if_true]
                exact recOK _ _ _ _ (by omega) hn1'
              · simp only [hpos, if_false]
                have hin := ih (pk src (k + 1)) sv false {} hp1' (by omega)
                cases hpi : parsePattern fuel (scK src (pk src (k + 1)) sv) false {} with
                | error e => rw [hpi] at hin; exact hin
                | ok v =>
                  obtain ⟨sc', inner⟩ := v
                  rw [hpi] at hin
                  obtain ⟨k', sv', rfl, h1, h2⟩ := hin
                  simp only [peek_K, next_K]
                  by_cases hclose : rd src k' ≠ 41
                  · simp only [hclose, ne_eq, not_false_eq_true, if_true, throw, throwThe, MonadExceptOf.throw]
                    exact pmErr_unf _
                  · simp only [hclose, if_false]
                    have g1 := pk_ge src k'
                    have g2 := pk_le src k' h2
                    have g3 := nk_ge' src (pk src k') g2
                    exact recOK _ _ _ _ (by omega) (nk_le src _)
            · simp only [h40, if_false]
              by_cases hq : isQuant (rd src k) = true
              · simp only [hq, if_true]
                split
                · exact recOK _ _ _ _ (Nat.le_refl _) (by omega)
                · exact recOK _ _ _ _ (Nat.le_refl _) (by omega)
              · simp only [hq, if_false]
                by_cases h36 : rd src k = 36
                · simp only [h36, if_true]
                  exact recOK _ _ _ _ (Nat.le_refl _) (by omega)
                · simp only [h36, if_false, heos]
                  exact recOK _ _ _ _ (Nat.le_refl _) (by omega)

/-! ### parseTop, compilePattern, Find -/
theorem parseTop_total (p : Array Nat) : (∃ sq, parseTop p = .ok sq) ∨ (∃ e, parseTop p = .error e ∧ PmErr e) := by
  have h0 : ({ src := p } : Scanner) = scK p 0 {} := by simp [scK, stK, stAt]
  unfold parseTop
  simp only [h0, peek_K, next_K, bind, Except.bind]
  have hp0 := pk_le p 0 (by omega)
  have hn0 := nk_le p (pk p 0)
  by_cases h94 : rd p 0 = 94
  · simp only [h94, if_true]
    have hs := parsePattern_safe p (2 * p.size + 8) (nk p (pk p 0)) {} true { mustHead := true } hn0 (by omega)
    cases hr : parsePattern (2 * p.size + 8) (scK p (nk p (pk p 0)) {}) true { mustHead := true } with
    | error e => rw [hr] at hs; exact Or.inr ⟨e, rfl, hs⟩
    | ok v => exact Or.inl ⟨v.2, rfl⟩
  · simp only [h94, if_false]
    have hs := parsePattern_safe p (2 * p.size + 8) (pk p 0) {} true {} hp0 (by omega)
    cases hr : parsePattern (2 * p.size + 8) (scK p (pk p 0) {}) true {} with
    | error e => rw [hr] at hs; exact Or.inr ⟨e, rfl, hs⟩
    | ok v => exact Or.inl ⟨v.2, rfl⟩

/-- the only error of the compiler -/
def CompileErr (e : PErr) : Prop := e = .pm UNKNOWN "invalid capture index"

mutual
theorem compilePat_total : (p : Pat) → (ptr : IPtr) →
    (∃ ptr', compilePat p ptr = .ok ptr') ∨ (∃ e, compilePat p ptr = .error e ∧ CompileErr e)
  | .single c, ptr => Or.inl ⟨_, rfl⟩
  | .repeat ty c, ptr => by
    simp only [compilePat, pure, Except.pure]
    split
    · exact Or.inl ⟨_, rfl⟩
    · split
      · exact Or.inl ⟨_, rfl⟩
      · split
        · exact Or.inl ⟨_, rfl⟩
        · split
          · exact Or.inl ⟨_, rfl⟩
          · exact Or.inl ⟨_, rfl⟩
  | .posCap, ptr => Or.inl ⟨_, rfl⟩
  | .cap pats, ptr => by
    simp only [compilePat, bind, Except.bind]
    rcases compileSeq_total pats { ptr with capture := ptr.capture + 2, insts := ptr.insts.push (.save ptr.capture) } with
      ⟨ptr2, h⟩ | ⟨e, h, he⟩
    · rw [h]; exact Or.inl ⟨_, rfl⟩
    · rw [h]; exact Or.inr ⟨e, rfl, he⟩
  | .brace b e, ptr => Or.inl ⟨_, rfl⟩
  | .number n, ptr => by
    simp only [compilePat, pure, Except.pure]
    split
    · exact Or.inl ⟨_, rfl⟩
    · exact Or.inr ⟨_, rfl, rfl⟩
theorem compileSeq_total : (ps : List Pat) → (ptr : IPtr) →
    (∃ ptr', compileSeq ps ptr = .ok ptr') ∨ (∃ e, compileSeq ps ptr = .error e ∧ CompileErr e)
  | [], ptr => Or.inl ⟨_, rfl⟩
  | p :: r, ptr => by
    simp only [compileSeq, bind, Except.bind]
    rcases compilePat_total p ptr with ⟨ptr1, h⟩ | ⟨e, h, he⟩
    · rw [h]; exact compileSeq_total r ptr1
    · rw [h]; exact Or.inr ⟨e, rfl, he⟩
end

theorem compilePattern_total (sq : SeqPat) :
    (∃ insts, compilePattern sq = .ok insts) ∨ (∃ e, compilePattern sq = .error e ∧ CompileErr e) := by
  simp only [compilePattern, bind, Except.bind]
  rcases compileSeq_total sq.pats { insts := #[.save 0], capture := 2, closed := [] } with ⟨ptr, h⟩ | ⟨e, h, he⟩
  · rw [h]; exact Or.inl ⟨_, rfl⟩
  · rw [h]; exact Or.inr ⟨e, rfl, he⟩

/-- what `pm.Find` may return on ANY pattern, subject, offset, limit and cap -/
def FindOutcome (r : M (List Caps)) : Prop :=
  match r with
  | .error (.goPanic s) => s = "recursiveVM: src[lo:hi]"
  | .error .fuel => False
  | _ => True

theorem findLoop_outcome (run : Nat → M (Bool × Nat × Caps)) (hrun : ∀ sp, Good #[] (run sp)) (len : Nat) (limit : Int)
    (mustHead : Bool) : ∀ (fuel sp : Nat) (mds : List Caps), FindOutcome (findLoop run len limit mustHead fuel sp mds) := by
  intro fuel
  induction fuel with
  | zero => intro sp mds; simp [findLoop, FindOutcome, pure, Except.pure]
  | succ fuel ih =>
    intro sp mds
    unfold findLoop
    by_cases hs : sp > len
    · simp [hs, FindOutcome, pure, Except.pure]
    · simp only [hs, if_false, bind, Except.bind]
      have hg := hrun sp
      cases hr : run sp with
      | error e =>
        rw [hr] at hg
        cases e <;> simp_all [Good, FindOutcome]
      | ok v =>
        obtain ⟨ok, nsp, ms⟩ := v
        cases ok with
        | true =>
          simp only [if_true]
          split
          · simp [FindOutcome, pure, Except.pure]
          · exact ih _ _
        | false =>
          simp only [Bool.false_eq_true, if_false]
          split
          · simp [FindOutcome, pure, Except.pure]
          · exact ih _ _

/-- **Find is total**: every pattern, subject, offset, limit, cap -/
theorem find_outcome (cap : Nat) (p src : Array Nat) (offset : Nat) (limit : Int) :
    FindOutcome (find cap p src offset limit) := by
  unfold find
  simp only [bind, Except.bind]
  rcases parseTop_total p with ⟨sq, h⟩ | ⟨e, h, ⟨pos, msg, rfl, _⟩⟩
  · rw [h]
    simp only
    rcases compilePattern_total sq with ⟨insts, hc⟩ | ⟨e, hc, he⟩
    · rw [hc]
      simp only
      exact findLoop_outcome _ (fun sp => vm_compiled_good sq insts hc src cap sp) _ _ _ _ _ _
    · rw [hc, he]; simp [FindOutcome]
  · rw [h]; simp [FindOutcome]

end GLua.PmProofs
