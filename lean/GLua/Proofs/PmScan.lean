/-
  C14 lemmas: the scan loop of `pm.Find` (Model `findLoop`) against the reference scan (`scanAllWith`),
  over an arbitrary single-position matcher.
-/
import GLua.Model.Pm
import GLua.Spec.LuaPattern

namespace GLua.PmProofs
open GLua.Pm GLua.LuaPattern

/-- how the scan loop reads one run of the VM at position `s`: end + payload, no match, or an error -/
def toRes {α : Type} (run : Nat → M (Bool × Nat × α)) (s : Nat) : Res (Nat × α) :=
  match run s with
  | .ok (true, e, c) => .ok (e, c)
  | .ok (false, _, _) => .fail
  | .error _ => .error ""

/-- results of the two scans in one type: payloads of the matches in order, or "an error" -/
def collapseM {α : Type} : M (List α) → Res (List α)
  | .ok l => .ok l
  | .error _ => .error ""

def collapseR {β : Type} : Res (List (Nat × Nat × β)) → Res (List β)
  | .ok l => .ok (l.map (·.2.2))
  | .error _ => .error ""
  | .fail => .fail

def prepend {β : Type} (acc : List β) : Res (List β) → Res (List β)
  | .ok l => .ok (acc ++ l)
  | .error e => .error e
  | .fail => .fail

theorem scanAllWith_zero {β : Type} (mt : Nat → Res (Nat × β)) (len : Nat) (anchor : Bool) (fuel s : Nat) :
    scanAllWith mt len anchor fuel s 0 = .ok [] := by
  cases fuel <;> simp [scanAllWith]

theorem findLoop_scan {α : Type} (run : Nat → M (Bool × Nat × α)) (len : Nat) (limit : Int) (anchor : Bool)
    (hl : limit ≠ 0) :
    ∀ (fuel s : Nat) (acc : List α) (maxn : Nat), maxn ≥ 1 →
      (limit > 0 → (acc.length : Int) + maxn = limit) → (limit < 0 → maxn + s ≥ len + 2) →
      collapseM (findLoop run len limit anchor fuel s acc) =
        prepend acc (collapseR (scanAllWith (toRes run) len anchor fuel s maxn)) := by
  intro fuel
  induction fuel with
  | zero =>
    intro s acc maxn _ _ _
    simp [findLoop, scanAllWith, collapseM, collapseR, prepend, pure, Except.pure]
  | succ fuel ih =>
    intro s acc maxn hm hpos hneg
    obtain ⟨k, rfl⟩ : ∃ k, maxn = k + 1 := ⟨maxn - 1, by omega⟩
    by_cases hs : s > len
    · simp [findLoop, scanAllWith, hs, collapseM, collapseR, prepend, pure, Except.pure]
    · cases hr : run s with
      | error e =>
        simp [findLoop, scanAllWith, hs, toRes, hr, collapseM, collapseR, prepend, bind, Except.bind]
      | ok r =>
        obtain ⟨ok, nsp, ms⟩ := r
        cases ok with
        | true =>
          have hne : (acc.length : Int) + 1 = limit ↔ k = 0 := by
            constructor
            · intro h
              rcases Int.lt_trichotomy limit 0 with h0 | h0 | h0
              · omega
              · exact absurd h0 hl
              · have := hpos h0; omega
            · intro h
              rcases Int.lt_trichotomy limit 0 with h0 | h0 | h0
              · have := hneg h0; omega
              · exact absurd h0 hl
              · have := hpos h0; omega
          have hsp : (if s + 1 < nsp then nsp else s + 1) = (if nsp > s then nsp else s + 1) := by
            split <;> split <;> omega
          rcases Bool.eq_false_or_eq_true anchor with ha | ha
          · subst ha
            simp [findLoop, scanAllWith, hs, toRes, hr, collapseM, collapseR, prepend, bind, Except.bind, pure, Except.pure]
          · subst ha
            by_cases hk : k = 0
            · subst hk
              have h1 : (acc.length : Int) + 1 = limit := hne.mpr rfl
              simp [findLoop, scanAllWith, hs, toRes, hr, h1, scanAllWith_zero, collapseM, collapseR, prepend, bind,
                Except.bind, pure, Except.pure]
            · have hne' : ¬ (acc.length : Int) + 1 = limit := fun h => hk (hne.mp h)
              have := ih (if s + 1 < nsp then nsp else s + 1) (acc ++ [ms]) k (by omega)
                (by intro h0; have := hpos h0; simp only [List.length_append, List.length_cons, List.length_nil]; omega)
                (by intro h0; have := hneg h0; split <;> omega)
              rw [hsp] at this
              have hlen : ((acc ++ [ms]).length : Int) = (acc.length : Int) + 1 := by simp
              simp only [findLoop, scanAllWith, hs, toRes, hr, bind, Except.bind, if_false, if_true, hsp,
                Bool.false_eq_true, or_false, hlen, hne', this]
              generalize scanAllWith (toRes run) len false fuel (if nsp > s then nsp else s + 1) k = X
              cases X <;> simp [collapseR, prepend]
        | false =>
          have hne' : ¬ ((acc.length : Int) = limit) := by
            intro h
            rcases Int.lt_trichotomy limit 0 with h0 | h0 | h0
            · omega
            · exact absurd h0 hl
            · have := hpos h0; omega
          rcases Bool.eq_false_or_eq_true anchor with ha | ha
          · subst ha
            simp [findLoop, scanAllWith, hs, toRes, hr, collapseM, collapseR, prepend, bind, Except.bind, pure, Except.pure]
          · subst ha
            have := ih (s + 1) acc (k + 1) (by omega) hpos (by intro h0; have := hneg h0; omega)
            simpa [findLoop, scanAllWith, hs, toRes, hr, hne', bind, Except.bind] using this

end GLua.PmProofs
