/-
  C14 lemmas: the pattern scanner never indexes out of range (the only Go-panic site of `scanner.Next`),
  from any state the parser can reach, and `Next`/`Peek`/`Save`/`Restore` keep the state reachable.
-/
import GLua.Model.Pm
namespace GLua.PmProofs
open GLua.Pm

/-- reachable scanner states: at EOS, on a byte of the pattern, or not yet started -/
def StWF (n : Nat) (st : ScannerState) : Prop :=
  st.pos = -1 ∨ (0 ≤ st.pos ∧ st.pos < (n : Int)) ∨ (st.started = false ∧ st.pos = 0)

def ScWF (sc : Scanner) : Prop := StWF sc.src.size sc.state ∧ StWF sc.src.size sc.saved

theorem next_safe (sc : Scanner) (h : ScWF sc) : ∃ sc' c, sc.next = .ok (sc', c) ∧ ScWF sc' ∧ sc'.src = sc.src := by
  obtain ⟨h1, h2⟩ := h
  unfold Scanner.next
  simp only []
  generalize hsc1 : (if (!sc.state.started) = true then
      ({ sc with state := { started := true, pos := if sc.src.size = 0 then EOS else sc.state.pos } } : Scanner)
    else { sc with state := { sc.state with pos := sc.nextPos } }) = sc1
  have hsrc : sc1.src = sc.src := by rw [← hsc1]; split <;> rfl
  have hsaved : sc1.saved = sc.saved := by rw [← hsc1]; split <;> rfl
  have hwf : sc1.state.pos = -1 ∨ (0 ≤ sc1.state.pos ∧ sc1.state.pos < (sc.src.size : Int)) := by
    rw [← hsc1]
    unfold StWF at h1
    by_cases hst : sc.state.started = true
    · simp only [hst, Bool.not_true, Bool.false_eq_true, if_false, Scanner.nextPos, EOS]
      repeat' split
      all_goals (simp only [hst] at h1; omega)
    · simp only [hst, Bool.not_false, if_true, EOS]
      split
      · left; rfl
      · omega
  have hw' : StWF sc1.src.size sc1.state := by
    unfold StWF; rw [hsrc]
    rcases hwf with h | h
    · exact Or.inl h
    · exact Or.inr (Or.inl h)
  by_cases he : sc1.state.pos = EOS
  · exact ⟨sc1, EOS, by simp [he, pure, Except.pure], ⟨hw', by rw [hsrc, hsaved]; exact h2⟩, hsrc⟩
  · have hb : 0 ≤ sc1.state.pos ∧ sc1.state.pos < (sc.src.size : Int) := by
      rcases hwf with h | h
      · exact absurd h he
      · exact h
    have hlt : sc1.state.pos.toNat < sc1.src.size := by rw [hsrc]; omega
    have hneg : ¬ sc1.state.pos < 0 := by omega
    exact ⟨sc1, ((sc1.src[sc1.state.pos.toNat]'hlt : Nat) : Int),
      by simp [he, hneg, Array.getElem?_eq_getElem hlt, pure, Except.pure],
      ⟨hw', by rw [hsrc, hsaved]; exact h2⟩, hsrc⟩

theorem peek_safe (sc : Scanner) (h : ScWF sc) : ∃ sc' c, sc.peek = .ok (sc', c) ∧ ScWF sc' ∧ sc'.src = sc.src := by
  obtain ⟨sc1, c, hn, hw1, hs1⟩ := next_safe sc h
  obtain ⟨w1, w2⟩ := hw1
  unfold Scanner.peek
  simp only [hn, bind, Except.bind]
  by_cases hc : sc.state.pos = EOS
  · exact ⟨sc1, c, by simp [hc, pure, Except.pure], ⟨w1, w2⟩, hs1⟩
  · simp only [hc, decide_false, Bool.not_false, if_true]
    unfold EOS at hc
    have h1 := h.1
    unfold StWF at w1 h1
    by_cases he : sc1.state.pos = EOS
    · refine ⟨{ sc1 with state := { sc1.state with pos := (sc1.src.size : Int) - 1 } }, c,
        by simp [he, pure, Except.pure], ⟨?_, w2⟩, hs1⟩
      unfold StWF; dsimp only; omega
    · simp only [he, if_false]
      unfold EOS at he
      by_cases hp : sc1.state.pos - 1 < 0
      · refine ⟨{ sc1 with state := { pos := 0, started := false } }, c, by simp [hp, pure, Except.pure], ⟨?_, w2⟩, hs1⟩
        exact Or.inr (Or.inr ⟨rfl, rfl⟩)
      · refine ⟨{ sc1 with state := { sc1.state with pos := sc1.state.pos - 1 } }, c,
          by simp [hp, pure, Except.pure], ⟨?_, w2⟩, hs1⟩
        unfold StWF; dsimp only; omega

theorem save_restore_safe (sc : Scanner) (h : ScWF sc) : ScWF sc.save ∧ ScWF sc.restore :=
  ⟨⟨h.1, h.1⟩, ⟨h.2, h.2⟩⟩

theorem newScanner_wf (p : Array Nat) : ScWF { src := p } := by
  constructor <;> (unfold StWF; right; right; exact ⟨rfl, rfl⟩)

end GLua.PmProofs
