/-
  C14 lemmas about the model VM: for a program whose control-flow edges pass the decidable check `edgeOK`
  (targets in range; every edge that does not consume a subject byte goes to an instruction of smaller rank)
  the VM (a) never needs more than `mu` fuel — it terminates, (b) never shrinks the capture array,
  (c) can raise no Go panic other than the slice expression of `opNumber`.
-/
import GLua.Model.Pm

namespace GLua.PmProofs
open GLua.Pm

/-- rank of an instruction: twice its distance from the end of the program; an instruction that jumps backwards
    ranks just above its target -/
def rank (insts : Array Inst) (pc : Nat) : Nat :=
  match insts[pc]? with
  | some (.jmp t) => 2 * (insts.size - t) + 1
  | some (.split a _) => if a ≤ pc then 2 * (insts.size - a) + 1 else 2 * (insts.size - pc)
  | _ => 2 * (insts.size - pc)

/-- the per-instruction well-formedness check -/
def edgeOK (insts : Array Inst) (pc : Nat) : Inst → Prop
  | .char _ => pc + 1 < insts.size
  | .brace _ _ => pc + 1 < insts.size
  | .matchI => True
  | .tailMatch => True
  | .jmp t => t < insts.size ∧ rank insts t < rank insts pc
  | .split a b => a < insts.size ∧ b < insts.size ∧ rank insts a < rank insts pc ∧ rank insts b < rank insts pc
  | .save _ => pc + 1 < insts.size ∧ rank insts (pc + 1) < rank insts pc
  | .psave _ => pc + 1 < insts.size ∧ rank insts (pc + 1) < rank insts pc
  | .number _ => pc + 1 < insts.size ∧ rank insts (pc + 1) < rank insts pc

def ProgOK (insts : Array Inst) : Prop := ∀ pc (h : pc < insts.size), edgeOK insts pc insts[pc]

theorem rank_lt (insts : Array Inst) (pc : Nat) : rank insts pc < 2 * insts.size + 2 := by
  unfold rank
  split
  · omega
  · split <;> omega
  · omega

/-- the termination measure: subject bytes left, then rank -/
def mu (insts : Array Inst) (src : Array Nat) (pc sp : Nat) : Nat :=
  (src.size - sp) * (2 * insts.size + 2) + rank insts pc

/-- what the VM may return -/
def Good (m : Caps) : M (Bool × Nat × Caps) → Prop
  | .ok (_, _, m') => m.size ≤ m'.size
  | .error (.goPanic s) => s = "recursiveVM: src[lo:hi]"
  | .error .fuel => False
  | .error _ => True

theorem Good.mono {m0 m : Caps} {r : M (Bool × Nat × Caps)} (h : m0.size ≤ m.size) (g : Good m r) : Good m0 r := by
  cases r with
  | ok v => obtain ⟨a, b, c⟩ := v; simp only [Good] at *; omega
  | error e => cases e <;> simp_all [Good]

theorem braceLoop_bounds (src : Array Nat) (b e : Int) :
    ∀ (n sp : Nat) (count : Int) (sp' : Nat), braceLoop src b e n sp count = some sp' → sp < sp' ∧ sp' ≤ src.size := by
  intro n
  induction n with
  | zero => intro sp count sp' h; simp [braceLoop] at h
  | succ n ih =>
    intro sp count sp' h
    unfold braceLoop at h
    cases hs : src[sp]? with
    | none => simp [hs] at h
    | some ch =>
      have hlt : sp < src.size := by
        rcases Nat.lt_or_ge sp src.size with h1 | h1
        · exact h1
        · simp [Array.getElem?_eq_none h1] at hs
      simp only [hs] at h
      generalize (if (ch : Int) = e then count - 1 else count) = c1 at h
      split at h
      · injection h with h; omega
      · have := ih _ _ _ h; omega

theorem pushZeros_size (m : Caps) (k : Nat) : (pushZeros m k).size = m.size + k := by
  induction k generalizing m with
  | zero => simp [pushZeros]
  | succ k ih => simp [pushZeros, ih]; omega

theorem growTo_size (m : Caps) (n : Nat) : m.size ≤ (growTo m n).size := by
  unfold growTo; rw [pushZeros_size]; omega

theorem growTo_size' (m : Caps) (n : Nat) : n ≤ (growTo m n).size := by
  unfold growTo; rw [pushZeros_size]; omega

theorem setCapture_size (m : Caps) (s pos : Nat) :
    m.size ≤ (setCapture m s pos).1.size ∧ s < (setCapture m s pos).1.size := by
  unfold setCapture
  simp only [Array.size_setIfInBounds]
  exact ⟨growTo_size m _, growTo_size' m _⟩

theorem addPosCapture_size (m : Caps) (s pos : Nat) : m.size ≤ (addPosCapture m s pos).size := by
  unfold addPosCapture
  simp only [Array.size_setIfInBounds]
  exact growTo_size m _

theorem mu_consume (insts : Array Inst) (src : Array Nat) (pc pc' sp sp' : Nat) (h1 : sp < sp') (h2 : sp' ≤ src.size) :
    mu insts src pc' sp' < mu insts src pc sp := by
  unfold mu
  have := rank_lt insts pc'
  have h3 : (src.size - sp') + 1 ≤ src.size - sp := by omega
  have := Nat.mul_le_mul_right (2 * insts.size + 2) h3
  rw [Nat.add_mul] at this
  omega

theorem mu_rank (insts : Array Inst) (src : Array Nat) (pc pc' sp sp' : Nat) (h1 : sp ≤ sp')
    (h2 : rank insts pc' < rank insts pc) : mu insts src pc' sp' < mu insts src pc sp := by
  unfold mu
  have h3 : (src.size - sp') ≤ src.size - sp := by omega
  have := Nat.mul_le_mul_right (2 * insts.size + 2) h3
  omega

theorem vm_good (src : Array Nat) (insts : Array Inst) (cap : Nat) (hok : ProgOK insts) :
    ∀ (fuel pc sp rec : Nat) (m : Caps), pc < insts.size → mu insts src pc sp < fuel →
      Good m (vm src insts cap fuel pc sp rec m) := by
  intro fuel
  induction fuel with
  | zero => intro pc sp rec m _ h; omega
  | succ fuel ih =>
    intro pc sp rec m hpc hmu
    have he := hok pc hpc
    unfold vm
    simp only [Array.getElem?_eq_getElem hpc]
    cases hi : insts[pc] with
    | char c =>
      rw [hi] at he
      simp only [edgeOK] at he
      cases hs : src[sp]? with
      | none => simp [Good, pure, Except.pure]
      | some ch =>
        have hlt : sp < src.size := by
          rcases Nat.lt_or_ge sp src.size with h1 | h1
          · exact h1
          · simp [Array.getElem?_eq_none h1] at hs
        simp only []
        split
        · exact ih _ _ _ _ he (by have := mu_consume insts src pc (pc+1) sp (sp+1) (by omega) (by omega); omega)
        · simp [Good, pure, Except.pure]
    | matchI => simp [Good, pure, Except.pure]
    | tailMatch => simp [Good, pure, Except.pure]
    | jmp t =>
      rw [hi] at he
      simp only [edgeOK] at he
      exact ih _ _ _ _ he.1 (by have := mu_rank insts src pc t sp sp (by omega) he.2; omega)
    | split a b =>
      rw [hi] at he
      simp only [edgeOK] at he
      obtain ⟨ha, hb, ra, rb⟩ := he
      simp only [bind, Except.bind]
      by_cases hc : rec + 1 > cap
      · simp [hc, Good, throw, throwThe, MonadExceptOf.throw]
      · simp only [hc, if_false]
        have g1 := ih a sp (rec + 1) m ha (by have := mu_rank insts src pc a sp sp (by omega) ra; omega)
        cases hr : vm src insts cap fuel a sp (rec + 1) m with
        | error e => rw [hr] at g1; cases e <;> simp_all [Good]
        | ok v =>
          obtain ⟨ok, nsp, m1⟩ := v
          rw [hr] at g1
          simp only [Good] at g1
          simp only []
          split
          · simp [Good, pure, Except.pure]; exact g1
          · exact Good.mono g1 (ih b sp rec m1 hb (by have := mu_rank insts src pc b sp sp (by omega) rb; omega))
    | save n =>
      rw [hi] at he
      simp only [edgeOK] at he
      obtain ⟨h1, r1⟩ := he
      have hsz := setCapture_size m n sp
      simp only [bind, Except.bind]
      by_cases hc : rec + 1 > cap
      · simp [hc, Good, throw, throwThe, MonadExceptOf.throw]
      · simp only [hc, if_false]
        have g1 := ih (pc + 1) sp (rec + 1) (setCapture m n sp).1 h1
          (by have := mu_rank insts src pc (pc+1) sp sp (by omega) r1; omega)
        cases hr : vm src insts cap fuel (pc + 1) sp (rec + 1) (setCapture m n sp).1 with
        | error e => rw [hr] at g1; cases e <;> simp_all [Good]
        | ok v =>
          obtain ⟨ok, nsp, m2⟩ := v
          rw [hr] at g1
          simp only [Good] at g1
          simp only []
          split
          · simp [Good, pure, Except.pure]; omega
          · have hn : n < m2.size := by omega
            simp [restoreCapture, hn, Good, pure, Except.pure]; omega
    | psave n =>
      rw [hi] at he
      simp only [edgeOK] at he
      obtain ⟨h1, r1⟩ := he
      exact Good.mono (addPosCapture_size m n (sp + 1))
        (ih _ _ _ _ h1 (by have := mu_rank insts src pc (pc+1) sp sp (by omega) r1; omega))
    | brace b e =>
      rw [hi] at he
      simp only [edgeOK] at he
      cases hs : src[sp]? with
      | none => simp [Good, pure, Except.pure]
      | some ch =>
        simp only []
        split
        · simp [Good, pure, Except.pure]
        · cases hb : braceLoop src b e (src.size - sp) (sp + 1) 1 with
          | none => simp [Good, pure, Except.pure]
          | some sp' =>
            have := braceLoop_bounds src b e _ _ _ _ hb
            simp only []
            exact ih _ _ _ _ he (by have := mu_consume insts src pc (pc+1) sp sp' (by omega) (by omega); omega)
    | number n =>
      rw [hi] at he
      simp only [edgeOK] at he
      obtain ⟨h1, r1⟩ := he
      simp only [bind, Except.bind, isPosCapture, capture]
      by_cases hg : n < 0 ∨ (n * 2).toNat + 1 ≥ Array.size m
      · simp [hg, Good, throw, throwThe, MonadExceptOf.throw]
      · have hlt0 : (n * 2).toNat < m.size := by omega
        have hlt1 : (n * 2).toNat + 1 < m.size := by omega
        simp only [hg, if_false, Array.getElem?_eq_getElem hlt0, Array.getElem?_eq_getElem hlt1, pure, Except.pure]
        split
        · simp [Good]
        · split
          · simp [Good, throw, throwThe, MonadExceptOf.throw]
          · split
            · exact ih _ _ _ _ h1 (by have := mu_rank insts src pc (pc+1) sp (sp + (m[(n * 2).toNat + 1] / 2 - m[(n * 2).toNat] / 2)) (by omega) r1; omega)
            · simp [Good]

end GLua.PmProofs
