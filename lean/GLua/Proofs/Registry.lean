/-
  Lemmas for C12 (registry): the registry simulates the Spec list `[0, top)` step by step, and raises
  "registry overflow" exactly when the result would be longer than max(cap, maxSize), before any write.
-/
import GLua.Model.Registry

namespace GLua.Registry
open GLua GLua.LimitsSpec

/-- `omega` after reducing projections of structure literals. -/
macro "somega" : tactic => `(tactic| (try dsimp only at *) <;> omega)

/-- value of the spec list at `i` (nil past the end). -/
def at? (l : List OVal) (i : Nat) : OVal := (l[i]?).getD none

/-- abstraction relation: slots `[0, top)` hold exactly the values of `l`. -/
def Rel (r : Reg) (l : List OVal) : Prop :=
  r.top = l.length ∧ r.top ≤ r.cap ∧ ∀ i, i < l.length → r.array i = .val (at? l i)

/-- configuration and monotone capacity: what an operation may change besides the contents. -/
def Ext (r r' : Reg) : Prop :=
  r'.growBy = r.growBy ∧ r'.maxSize = r.maxSize ∧ r.cap ≤ r'.cap ∧ r'.cap ≤ max r.cap r.maxSize

theorem Ext.refl (r : Reg) : Ext r r := ⟨rfl, rfl, Nat.le_refl _, Nat.le_max_left _ _⟩

theorem Ext.trans {a b c : Reg} (h1 : Ext a b) (h2 : Ext b c) : Ext a c := by
  obtain ⟨g1, m1, c1, d1⟩ := h1
  obtain ⟨g2, m2, c2, d2⟩ := h2
  refine ⟨by rw [g2, g1], by rw [m2, m1], by omega, ?_⟩
  rw [m1] at d2
  omega

theorem rel_new (size growBy maxSize : Nat) : Rel (Reg.new size growBy maxSize) [] :=
  ⟨rfl, Nat.zero_le _, by intro i h; simp at h⟩

/-! ## checkSize / resize -/

/-- **growth preserves the live prefix**: when the required size fits under the limit, `checkSize` succeeds,
    the capacity covers the requirement, and slots `[0, top)` are untouched. -/
theorem checkSize_ok (r : Reg) (req : Nat) (htop : r.top ≤ r.cap) (hreq : req ≤ max r.cap r.maxSize) :
    ∃ r', r.checkSize req = .ok r' ∧ r'.top = r.top ∧ req ≤ r'.cap ∧ Ext r r' ∧
      (∀ i, i < r.top → r'.array i = r.array i) ∧ (req ≤ r.cap → r' = r) := by
  by_cases h : req > r.cap
  · have hm : req ≤ r.maxSize := by omega
    simp only [Reg.checkSize, h, if_true, Reg.resize, Reg.forceResize, htop]
    by_cases h2 : req + r.growBy > r.maxSize
    · simp only [h2, if_true]
      have : ¬ r.maxSize < req := by omega
      simp only [this, if_false]
      refine ⟨_, rfl, rfl, by somega, ⟨rfl, rfl, by somega, by somega⟩, ?_, by omega⟩
      intro i hi
      have : i < r.maxSize ∧ i < r.top := by omega
      simp [this]
    · simp only [h2, if_false]
      have : ¬ req + r.growBy < req := by omega
      simp only [this, if_false]
      refine ⟨_, rfl, rfl, by somega, ⟨rfl, rfl, by somega, by somega⟩, ?_, by omega⟩
      intro i hi
      have : i < req + r.growBy ∧ i < r.top := by omega
      simp [this]
  · have h' : ¬ req > r.cap := h
    simp only [Reg.checkSize, h', if_false]
    exact ⟨r, rfl, rfl, by omega, Ext.refl r, fun _ _ => rfl, fun _ => rfl⟩

/-- **overflow is raised exactly past the limit** (and before anything is written: the result carries no state). -/
theorem checkSize_overflow (r : Reg) (req : Nat) (hreq : req > max r.cap r.maxSize) :
    r.checkSize req = .error overflow := by
  have h : req > r.cap := by omega
  simp only [Reg.checkSize, h, if_true, Reg.resize]
  by_cases h2 : req + r.growBy > r.maxSize
  · simp only [h2, if_true]
    have : r.maxSize < req := by omega
    simp [this]
  · omega

theorem checkSize_id (r : Reg) (req : Nat) (h : req ≤ r.cap) : r.checkSize req = .ok r := by
  have h' : ¬ req > r.cap := by omega
  simp [Reg.checkSize, h']

theorem rel_of_checkSize {r r' : Reg} {l : List OVal} (h : Rel r l) (ht : r'.top = r.top) (hc : r.cap ≤ r'.cap)
    (ha : ∀ i, i < r.top → r'.array i = r.array i) : Rel r' l := by
  obtain ⟨h1, h2, h3⟩ := h
  refine ⟨by rw [ht, h1], by omega, ?_⟩
  intro i hi
  rw [ha i (by omega)]
  exact h3 i hi

/-! ## facts about `at?` -/

theorem at?_append (l m : List OVal) (i : Nat) :
    at? (l ++ m) i = if i < l.length then at? l i else at? m (i - l.length) := by
  simp only [at?, List.getElem?_append]
  split <;> rfl

theorem at?_single (v : OVal) (i : Nat) : at? [v] i = if i = 0 then v else none := by
  cases i <;> simp [at?]

theorem at?_take (l : List OVal) (n i : Nat) : at? (l.take n) i = if i < n then at? l i else none := by
  simp only [at?, List.getElem?_take]
  split <;> rfl

theorem at?_replicate (n i : Nat) : at? (List.replicate n (none : OVal)) i = none := by
  simp only [at?, List.getElem?_replicate]
  split <;> rfl

theorem at?_of_ge (l : List OVal) (i : Nat) (h : l.length ≤ i) : at? l i = none := by
  simp [at?, List.getElem?_eq_none h]

theorem at?_dropLast (l : List OVal) (i : Nat) : at? l.dropLast i = if i < l.length - 1 then at? l i else none := by
  rw [List.dropLast_eq_take, at?_take]

theorem at?_set (l : List OVal) (i j : Nat) (v : OVal) (hi : i < l.length) :
    at? (l.set i v) j = if j = i then v else at? l j := by
  simp only [at?, List.getElem?_set]
  by_cases h : i = j
  · subst h; simp [hi]
  · have : ¬ j = i := fun e => h e.symm
    simp [h, this]

theorem at?_cons (v : OVal) (l : List OVal) (i : Nat) : at? (v :: l) i = if i = 0 then v else at? l (i - 1) := by
  cases i <;> simp [at?]

theorem at?_drop (l : List OVal) (n i : Nat) : at? (l.drop n) i = at? l (n + i) := by
  simp [at?, List.getElem?_drop]

theorem at?_getLast (l : List OVal) (v : OVal) (h : l.getLast? = some v) : l ≠ [] ∧ at? l (l.length - 1) = v := by
  rw [List.getLast?_eq_getElem?] at h
  refine ⟨?_, by simp [at?, h]⟩
  intro hl; subst hl; simp at h

theorem at?_get (l : List OVal) (i : Nat) (v : OVal) (h : l[i]? = some v) : i < l.length ∧ at? l i = v := by
  refine ⟨?_, by simp [at?, h]⟩
  by_cases hi : i < l.length
  · exact hi
  · rw [List.getElem?_eq_none (by omega)] at h; cases h

/-! ## the simple operations -/

theorem push_ok {r : Reg} {l : List OVal} (v : OVal) (h : Rel r l) (hl : l.length + 1 ≤ max r.cap r.maxSize) :
    ∃ r', r.push v = .ok r' ∧ Rel r' (l ++ [v]) ∧ Ext r r' := by
  obtain ⟨h1, h2, h3⟩ := h
  obtain ⟨r1, hc, ht, hcap, hext, harr, _⟩ := checkSize_ok r (r.top + 1) h2 (by omega)
  have hlt : r1.top < r1.cap := by omega
  refine ⟨{ r1 with array := upd r1.array r1.top (.val v), top := r1.top + 1 }, ?_, ?_, ?_⟩
  · simp [Reg.push, hc, bind, Except.bind, hlt]
  · refine ⟨by simp; somega, by somega, ?_⟩
    intro i hi
    simp only [List.length_append, List.length_singleton] at hi
    rw [at?_append]
    by_cases hi' : i < l.length
    · have : i ≠ r1.top := by omega
      simp only [upd, this, if_false, hi', if_true]
      rw [harr i (by omega)]
      exact h3 i hi'
    · have hi2 : i = r1.top := by omega
      have e : i - l.length = 0 := by omega
      simp only [hi', if_false, e, at?_single, if_true]
      rw [hi2]; simp [upd]
  · exact ⟨hext.1, hext.2.1, hext.2.2.1, hext.2.2.2⟩

theorem push_overflow {r : Reg} {l : List OVal} (v : OVal) (h : Rel r l) (hl : l.length + 1 > max r.cap r.maxSize) :
    r.push v = .error overflow := by
  have := checkSize_overflow r (r.top + 1) (by rw [h.1]; exact hl)
  simp [Reg.push, this, bind, Except.bind]

theorem pop_ok {r : Reg} {l : List OVal} {v : OVal} (h : Rel r l) (hv : l.getLast? = some v) :
    ∃ r', r.pop = .ok (r', .val v) ∧ Rel r' l.dropLast ∧ Ext r r' := by
  obtain ⟨h1, h2, h3⟩ := h
  obtain ⟨hne, hat⟩ := at?_getLast l v hv
  have hpos : 0 < l.length := List.length_pos_iff.mpr hne
  have hz : ¬ r.top = 0 := by omega
  have hlt : r.top - 1 < r.cap := by omega
  refine ⟨{ r with array := upd r.array (r.top - 1) LNil, top := r.top - 1 }, ?_, ?_, Ext.refl r⟩
  · have := h3 (l.length - 1) (by omega)
    rw [hat, ← h1] at this
    simp [Reg.pop, hz, hlt, this]
  · refine ⟨by simp; somega, by somega, ?_⟩
    intro i hi
    simp only [List.length_dropLast] at hi
    rw [at?_dropLast]
    have : i ≠ r.top - 1 := by omega
    simp only [upd, this, if_false, hi, if_true]
    exact h3 i (by omega)

theorem get_ok {r : Reg} {l : List OVal} {i : Nat} {v : OVal} (h : Rel r l) (hv : l[i]? = some v) :
    r.get i = .ok (.val v) := by
  obtain ⟨h1, h2, h3⟩ := h
  obtain ⟨hi, hat⟩ := at?_get l i v hv
  have : i < r.cap := by omega
  simp [Reg.get, this, h3 i hi, hat]

/-- a store inside the allocated part does not touch the size. -/
theorem set_inside (r : Reg) (i : Nat) (v : RV) (h : i < r.cap) :
    r.set i v = .ok { r with array := upd r.array i v, top := if i ≥ r.top then i + 1 else r.top } := by
  simp [Reg.set, checkSize_id r (i + 1) (by omega), bind, Except.bind, h]

theorem set_ok {r : Reg} {l : List OVal} (i : Nat) (v : OVal) (h : Rel r l) (hi : i < l.length) :
    ∃ r', r.set i (.val v) = .ok r' ∧ Rel r' (l.set i v) ∧ Ext r r' := by
  obtain ⟨h1, h2, h3⟩ := h
  refine ⟨_, set_inside r i (.val v) (by omega), ?_, Ext.refl r⟩
  have hnt : ¬ i ≥ r.top := by omega
  refine ⟨?_, ?_, ?_⟩
  · show (if i ≥ r.top then i + 1 else r.top) = (l.set i v).length
    rw [if_neg hnt, List.length_set]; exact h1
  · show (if i ≥ r.top then i + 1 else r.top) ≤ r.cap
    rw [if_neg hnt]; exact h2
  intro j hj
  simp only [List.length_set] at hj
  rw [at?_set l i j v hi]
  by_cases hji : j = i
  · simp [upd, hji]
  · simp only [upd, hji, if_false]
    exact h3 j hj

theorem set_append_ok {r : Reg} {l : List OVal} (v : OVal) (h : Rel r l) (hl : l.length + 1 ≤ max r.cap r.maxSize) :
    ∃ r', r.set l.length (.val v) = .ok r' ∧ Rel r' (l ++ [v]) ∧ Ext r r' := by
  obtain ⟨h1, h2, h3⟩ := h
  obtain ⟨r1, hc, ht, hcap, hext, harr, _⟩ := checkSize_ok r (l.length + 1) h2 hl
  have hlt : l.length < r1.cap := by omega
  have hge : l.length ≥ r1.top := by omega
  refine ⟨{ r1 with array := upd r1.array l.length (.val v), top := l.length + 1 }, ?_, ?_, ?_⟩
  · simp [Reg.set, hc, bind, Except.bind, hlt, hge]
  · refine ⟨by simp, by somega, ?_⟩
    intro i hi
    simp only [List.length_append, List.length_singleton] at hi
    rw [at?_append]
    by_cases hi' : i < l.length
    · have : i ≠ l.length := by omega
      simp only [upd, this, if_false, hi', if_true]
      rw [harr i (by omega)]
      exact h3 i hi'
    · have : i = l.length := by omega
      have e : i - l.length = 0 := by omega
      simp [upd, this, at?_single]
  · exact hext

theorem set_overflow {r : Reg} (i : Nat) (v : RV) (hl : i + 1 > max r.cap r.maxSize) :
    r.set i v = .error overflow := by
  simp [Reg.set, checkSize_overflow r (i + 1) hl, bind, Except.bind]

/-! ## truncation, SetTop, FillNil -/

theorem truncTo_ok (r : Reg) (n : Nat) (h : r.top ≤ r.cap) :
    ∃ r', r.truncTo n = .ok r' ∧ r'.top = n ∧ r'.cap = r.cap ∧ r'.growBy = r.growBy ∧ r'.maxSize = r.maxSize ∧
      ∀ i, i < n → r'.array i = r.array i := by
  by_cases hn : n < r.top
  · refine ⟨{ r with top := n, array := fun i => if n ≤ i ∧ i < r.top then .goNil else r.array i },
      by simp only [Reg.truncTo, hn, h, if_true], rfl, rfl, rfl, rfl, ?_⟩
    intro i hi
    have : ¬ (n ≤ i ∧ i < r.top) := by omega
    simp [this]
  · refine ⟨{ r with top := n }, by simp only [Reg.truncTo, hn, if_false], rfl, rfl, rfl, rfl, ?_⟩
    intro i _; rfl

theorem setTop_ok {r : Reg} {l : List OVal} (n : Nat) (h : Rel r l) (hl : n ≤ max r.cap r.maxSize) :
    ∃ r', r.setTop n = .ok r' ∧ Rel r' (l.take n ++ List.replicate (n - l.length) none) ∧ Ext r r' := by
  obtain ⟨h1, h2, h3⟩ := h
  obtain ⟨r1, hc, ht, hcap, hext, harr, _⟩ := checkSize_ok r n h2 hl
  obtain ⟨e1, e2, e3, e4⟩ := hext
  have hno : ¬ (r1.top < n ∧ ¬ n ≤ r1.cap) := by omega
  obtain ⟨r2, ht2, htop2, hcap2, hg2, hm2, harr2⟩ :=
    truncTo_ok { r1 with array := fun i => if r1.top ≤ i ∧ i < n then LNil else r1.array i } n (by somega)
  dsimp only at ht2 hcap2 hg2 hm2 harr2
  refine ⟨r2, ?_, ?_, ?_⟩
  · simp only [Reg.setTop, hc, bind, Except.bind, hno, if_false]; exact ht2
  · refine ⟨?_, by somega, ?_⟩
    · rw [htop2]; simp; omega
    · intro i hi
      simp only [List.length_append, List.length_take, List.length_replicate] at hi
      have hin : i < n := by omega
      rw [harr2 i hin, at?_append, at?_take, at?_replicate]
      simp only [List.length_take]
      by_cases hil : i < l.length
      · have c1 : ¬ (r1.top ≤ i ∧ i < n) := by omega
        have c2 : i < min n l.length := by omega
        rw [if_neg c1, if_pos c2, if_pos hin, harr i (by omega)]
        exact h3 i hil
      · have c1 : r1.top ≤ i ∧ i < n := by omega
        have c2 : ¬ i < min n l.length := by omega
        rw [if_pos c1, if_neg c2]
        rfl
  · exact ⟨by rw [hg2]; exact e1, by rw [hm2]; exact e2, by rw [hcap2]; exact e3, by rw [hcap2]; exact e4⟩

theorem setTop_overflow {r : Reg} (n : Nat) (hl : n > max r.cap r.maxSize) : r.setTop n = .error overflow := by
  simp [Reg.setTop, checkSize_overflow r n hl, bind, Except.bind]

theorem fillLoop_ok (regm : Nat) : ∀ (k i : Nat) (r : Reg), regm + i + k ≤ r.cap →
    ∃ r', Reg.fillLoop regm k i r = .ok r' ∧ r'.top = r.top ∧ r'.cap = r.cap ∧ r'.growBy = r.growBy ∧
      r'.maxSize = r.maxSize ∧
      ∀ x, r'.array x = if regm + i ≤ x ∧ x < regm + i + k then LNil else r.array x := by
  intro k
  induction k with
  | zero =>
    intro i r _
    refine ⟨r, rfl, rfl, rfl, rfl, rfl, ?_⟩
    intro x
    have : ¬ (regm + i ≤ x ∧ x < regm + i + 0) := by omega
    rw [if_neg this]
  | succ k ih =>
    intro i r hc
    have h1 : regm + i < r.cap := by omega
    obtain ⟨r', e, t, c, g, m, a⟩ := ih (i + 1) { r with array := upd r.array (regm + i) LNil } (by somega)
    refine ⟨r', by simp only [Reg.fillLoop, h1, if_true]; exact e, t, c, g, m, ?_⟩
    intro x
    rw [a x]
    by_cases hx : x = regm + i
    · have c1 : ¬ (regm + (i + 1) ≤ x ∧ x < regm + (i + 1) + k) := by omega
      have c2 : regm + i ≤ x ∧ x < regm + i + (k + 1) := by omega
      simp [c1, c2, upd, hx]
    · by_cases c1 : regm + (i + 1) ≤ x ∧ x < regm + (i + 1) + k
      · have c2 : regm + i ≤ x ∧ x < regm + i + (k + 1) := by omega
        simp [c1, c2]
      · have c2 : ¬ (regm + i ≤ x ∧ x < regm + i + (k + 1)) := by omega
        simp [c1, c2, upd, hx]

theorem fillNil_ok {r : Reg} {l : List OVal} (regm n : Nat) (h : Rel r l) (hr : regm ≤ l.length)
    (hl : regm + n ≤ max r.cap r.maxSize) :
    ∃ r', r.fillNil regm n = .ok r' ∧ Rel r' (l.take regm ++ List.replicate n none) ∧ Ext r r' := by
  obtain ⟨h1, h2, h3⟩ := h
  obtain ⟨r1, hc, ht, hcap, hext, harr, _⟩ := checkSize_ok r (regm + n) h2 hl
  obtain ⟨x1, x2, x3, x4⟩ := hext
  obtain ⟨r2, e2, t2, c2, g2, m2, a2⟩ := fillLoop_ok regm n 0 r1 (by omega)
  obtain ⟨r3, e3, t3, c3, g3, m3, a3⟩ := truncTo_ok r2 (regm + n) (by omega)
  refine ⟨r3, ?_, ?_, ?_⟩
  · simp [Reg.fillNil, hc, bind, Except.bind, e2, e3]
  · refine ⟨?_, by omega, ?_⟩
    · rw [t3]; simp; omega
    · intro i hi
      simp only [List.length_append, List.length_take, List.length_replicate] at hi
      have hin : i < regm + n := by omega
      rw [a3 i hin, a2 i, at?_append, at?_take, at?_replicate]
      simp only [List.length_take]
      by_cases hil : i < regm
      · have k1 : ¬ (regm + 0 ≤ i ∧ i < regm + 0 + n) := by omega
        have k2 : i < min regm l.length := by omega
        rw [if_neg k1, if_pos k2, if_pos hil, harr i (by omega)]
        exact h3 i (by omega)
      · have k1 : regm + 0 ≤ i ∧ i < regm + 0 + n := by omega
        have k2 : ¬ i < min regm l.length := by omega
        rw [if_pos k1, if_neg k2]
        rfl
  · exact ⟨by rw [g3, g2]; exact x1, by rw [m3, m2]; exact x2, by rw [c3, c2]; exact x3, by rw [c3, c2]; exact x4⟩

theorem fillNil_overflow {r : Reg} (regm n : Nat) (hl : regm + n > max r.cap r.maxSize) :
    r.fillNil regm n = .error overflow := by
  simp [Reg.fillNil, checkSize_overflow r (regm + n) hl, bind, Except.bind]

/-! ## CopyRange -/

/-- what the copy loop stores into slot `x ≥ regv`, in terms of the array at loop start. -/
def srcVal (r : Reg) (regv : Nat) (start limit : Int) (x : Nat) : RV :=
  if start + ((x - regv : Nat) : Int) ≥ limit ∨ start + ((x - regv : Nat) : Int) < 0 then LNil
  else r.array (start + ((x - regv : Nat) : Int)).toNat

theorem copyLoop_ok (regv : Nat) (start limit : Int) : ∀ (k i : Nat) (r : Reg), regv + i + k ≤ r.cap →
    (∀ j : Nat, i ≤ j → j < i + k → ¬ (start + (j : Int) ≥ limit ∨ start + (j : Int) < 0) →
        (start + (j : Int)).toNat < r.cap ∧
        ((start + (j : Int)).toNat < regv + i ∨ regv + j ≤ (start + (j : Int)).toNat)) →
    ∃ r', Reg.copyLoop regv start limit k i r = .ok r' ∧ r'.top = r.top ∧ r'.cap = r.cap ∧
      r'.growBy = r.growBy ∧ r'.maxSize = r.maxSize ∧
      ∀ x, r'.array x = if regv + i ≤ x ∧ x < regv + i + k then srcVal r regv start limit x else r.array x := by
  intro k
  induction k with
  | zero =>
    intro i r _ _
    refine ⟨r, rfl, rfl, rfl, rfl, rfl, ?_⟩
    intro x
    have : ¬ (regv + i ≤ x ∧ x < regv + i + 0) := by omega
    rw [if_neg this]
  | succ k ih =>
    intro i r hc hsrc
    have h1 : regv + i < r.cap := by omega
    have hsub : regv + i - regv = i := by omega
    by_cases hcond : start + (i : Int) ≥ limit ∨ start + (i : Int) < 0
    · obtain ⟨r', e, t, c, g, m, a⟩ := ih (i + 1) { r with array := upd r.array (regv + i) LNil } (by somega)
        (by
          intro j hj1 hj2 hj3
          obtain ⟨p1, p2⟩ := hsrc j (by omega) (by omega) hj3
          exact ⟨p1, by omega⟩)
      refine ⟨r', by simp only [Reg.copyLoop, h1, if_true, hcond]; exact e, t, c, g, m, ?_⟩
      intro x
      rw [a x]
      by_cases hx : x = regv + i
      · have c1 : ¬ (regv + (i + 1) ≤ x ∧ x < regv + (i + 1) + k) := by omega
        have c2 : regv + i ≤ x ∧ x < regv + i + (k + 1) := by omega
        rw [if_neg c1, if_pos c2]
        simp only [upd, hx, if_true, srcVal, hsub, hcond]
      · by_cases c1 : regv + (i + 1) ≤ x ∧ x < regv + (i + 1) + k
        · have c2 : regv + i ≤ x ∧ x < regv + i + (k + 1) := by omega
          rw [if_pos c1, if_pos c2]
          simp only [srcVal]
          by_cases hcx : start + ((x - regv : Nat) : Int) ≥ limit ∨ start + ((x - regv : Nat) : Int) < 0
          · simp only [hcx, if_true]
          · simp only [hcx, if_false]
            obtain ⟨p1, p2⟩ := hsrc (x - regv) (by omega) (by omega) hcx
            have : (start + ((x - regv : Nat) : Int)).toNat ≠ regv + i := by omega
            simp only [upd, this, if_false]
        · have c2 : ¬ (regv + i ≤ x ∧ x < regv + i + (k + 1)) := by omega
          rw [if_neg c1, if_neg c2]
          simp only [upd, hx, if_false]
    · obtain ⟨q1, q2⟩ := hsrc i (Nat.le_refl _) (by omega) hcond
      obtain ⟨r', e, t, c, g, m, a⟩ := ih (i + 1)
        { r with array := upd r.array (regv + i) (r.array (start + (i : Int)).toNat) } (by somega)
        (by
          intro j hj1 hj2 hj3
          obtain ⟨p1, p2⟩ := hsrc j (by omega) (by omega) hj3
          exact ⟨p1, by omega⟩)
      refine ⟨r', by simp only [Reg.copyLoop, h1, if_true, hcond, if_false, q1]; exact e, t, c, g, m, ?_⟩
      intro x
      rw [a x]
      by_cases hx : x = regv + i
      · have c1 : ¬ (regv + (i + 1) ≤ x ∧ x < regv + (i + 1) + k) := by omega
        have c2 : regv + i ≤ x ∧ x < regv + i + (k + 1) := by omega
        rw [if_neg c1, if_pos c2]
        simp only [upd, hx, if_true, srcVal, hsub, hcond, if_false]
      · by_cases c1 : regv + (i + 1) ≤ x ∧ x < regv + (i + 1) + k
        · have c2 : regv + i ≤ x ∧ x < regv + i + (k + 1) := by omega
          rw [if_pos c1, if_pos c2]
          simp only [srcVal]
          by_cases hcx : start + ((x - regv : Nat) : Int) ≥ limit ∨ start + ((x - regv : Nat) : Int) < 0
          · simp only [hcx, if_true]
          · simp only [hcx, if_false]
            obtain ⟨p1, p2⟩ := hsrc (x - regv) (by omega) (by omega) hcx
            have : (start + ((x - regv : Nat) : Int)).toNat ≠ regv + i := by omega
            simp only [upd, this, if_false]
        · have c2 : ¬ (regv + i ≤ x ∧ x < regv + i + (k + 1)) := by omega
          rw [if_neg c1, if_neg c2]
          simp only [upd, hx, if_false]

theorem at?_map_range (f : Nat → OVal) (n i : Nat) :
    at? ((List.range n).map f) i = if i < n then f i else none := by
  simp only [at?, List.getElem?_map, List.getElem?_range]
  by_cases h : i < n <;> simp [h]

theorem copyRange_ok {r : Reg} {l : List OVal} (regv : Nat) (start limit : Int) (n : Nat) (h : Rel r l)
    (hr : regv ≤ l.length) (hdir : (regv : Int) ≤ start ∨ moveLim l.length limit ≤ regv)
    (hl : regv + n ≤ max r.cap r.maxSize) :
    ∃ r', r.copyRange regv start limit n = .ok r' ∧
      Rel r' (l.take regv ++ (List.range n).map (fun (i : Nat) => moveSrc l (moveLim l.length limit) (start + (i : Int)))) ∧
      Ext r r' := by
  obtain ⟨h1, h2, h3⟩ := h
  obtain ⟨r1, hc, ht, hcap, hext, harr, _⟩ := checkSize_ok r (regv + n) h2 hl
  obtain ⟨x1, x2, x3, x4⟩ := hext
  -- the effective limit of the loop and of the spec agree on every source index
  have hlim : ∀ j : Int, (j ≥ (if limit = -1 ∨ limit > (r1.top : Int) then (r1.top : Int) else limit) ∨ j < 0) ↔
      (j < 0 ∨ j ≥ ((moveLim l.length limit : Nat) : Int)) := by
    intro j
    simp only [moveLim]
    rw [ht, h1]
    split <;> omega
  have hml : moveLim l.length limit ≤ l.length := by
    simp only [moveLim]; split <;> omega
  obtain ⟨r2, e2, t2, c2, g2, m2, a2⟩ := copyLoop_ok regv start
    (if limit = -1 ∨ limit > (r1.top : Int) then (r1.top : Int) else limit) n 0 r1 (by omega)
    (by
      intro j _ hj hcond
      have := (not_congr (hlim (start + (j : Int)))).mp hcond
      rcases hdir with hd | hd <;> omega)
  obtain ⟨r3, e3, t3, c3, g3, m3, a3⟩ := truncTo_ok r2 (regv + n) (by omega)
  refine ⟨r3, ?_, ?_, ?_⟩
  · simp only [Reg.copyRange, hc, bind, Except.bind, e2, e3]
  · refine ⟨?_, by omega, ?_⟩
    · rw [t3]; simp; omega
    · intro i hi
      simp only [List.length_append, List.length_take, List.length_map, List.length_range] at hi
      have hin : i < regv + n := by omega
      rw [a3 i hin, a2 i, at?_append, at?_take, at?_map_range]
      simp only [List.length_take]
      by_cases hil : i < regv
      · have k1 : ¬ (regv + 0 ≤ i ∧ i < regv + 0 + n) := by omega
        have k2 : i < min regv l.length := by omega
        rw [if_neg k1, if_pos k2, if_pos hil, harr i (by omega)]
        exact h3 i (by omega)
      · have k1 : regv + 0 ≤ i ∧ i < regv + 0 + n := by omega
        have k2 : ¬ i < min regv l.length := by omega
        have k3 : i - min regv l.length < n := by omega
        have k4 : i - min regv l.length = i - regv := by omega
        rw [if_pos k1, if_neg k2, if_pos k3, k4]
        simp only [srcVal, moveSrc]
        by_cases hcx : start + ((i - regv : Nat) : Int) ≥
            (if limit = -1 ∨ limit > (r1.top : Int) then (r1.top : Int) else limit) ∨ start + ((i - regv : Nat) : Int) < 0
        · have := (hlim _).mp hcx
          simp only [hcx, if_true, this]
          rfl
        · have hn := (not_congr (hlim _)).mp hcx
          simp only [hcx, if_false, hn]
          have hs : (start + ((i - regv : Nat) : Int)).toNat < l.length := by omega
          rw [harr _ (by omega), h3 _ hs]
          rfl
  · exact ⟨by rw [g3, g2]; exact x1, by rw [m3, m2]; exact x2, by rw [c3, c2]; exact x3, by rw [c3, c2]; exact x4⟩

theorem copyRange_overflow {r : Reg} (regv : Nat) (start limit : Int) (n : Nat) (hl : regv + n > max r.cap r.maxSize) :
    r.copyRange regv start limit n = .error overflow := by
  simp [Reg.copyRange, checkSize_overflow r (regv + n) hl, bind, Except.bind]

/-! ## Insert -/

/-- the shifting loop when every store lands below `top` (no growth): slots `(j+1-k, j+1]` receive their left neighbour. -/
theorem insertLoop_inside : ∀ (k j : Nat) (r : Reg), k ≤ j + 1 → j + 1 < r.top → r.top ≤ r.cap →
    ∃ r', Reg.insertLoop k j r = .ok r' ∧ r'.top = r.top ∧ r'.cap = r.cap ∧ r'.growBy = r.growBy ∧
      r'.maxSize = r.maxSize ∧
      ∀ x, r'.array x = if j + 1 - k < x ∧ x ≤ j + 1 then r.array (x - 1) else r.array x := by
  intro k
  induction k with
  | zero =>
    intro j r _ _ _
    refine ⟨r, rfl, rfl, rfl, rfl, rfl, ?_⟩
    intro x
    have : ¬ (j + 1 - 0 < x ∧ x ≤ j + 1) := by omega
    rw [if_neg this]
  | succ k ih =>
    intro j r hk hj hc
    have g1 : j < r.cap := by omega
    have g2 : j + 1 < r.cap := by omega
    have g3 : ¬ j + 1 ≥ r.top := by omega
    obtain ⟨r', e, t, c, g, m, a⟩ := ih (j - 1)
      { r with array := upd r.array (j + 1) (r.array j), top := if j + 1 ≥ r.top then j + 1 + 1 else r.top }
      (by omega) (by simp only [g3, if_false]; omega) (by simp only [g3, if_false]; exact hc)
    simp only [g3, if_false] at t
    refine ⟨r', ?_, t, c, g, m, ?_⟩
    · simp only [Reg.insertLoop, Reg.get, g1, if_true, bind, Except.bind, set_inside r (j + 1) (r.array j) g2]
      exact e
    · intro x
      rw [a x]
      dsimp only
      by_cases hx : x = j + 1
      · have c1 : ¬ (j - 1 + 1 - k < x ∧ x ≤ j - 1 + 1) := by omega
        have c2 : j + 1 - (k + 1) < x ∧ x ≤ j + 1 := by omega
        rw [if_neg c1, if_pos c2]
        simp [upd, hx]
      · by_cases c1 : j - 1 + 1 - k < x ∧ x ≤ j - 1 + 1
        · have c2 : j + 1 - (k + 1) < x ∧ x ≤ j + 1 := by omega
          have : x - 1 ≠ j + 1 := by omega
          rw [if_pos c1, if_pos c2]
          simp only [upd, this, if_false]
        · have c2 : ¬ (j + 1 - (k + 1) < x ∧ x ≤ j + 1) := by omega
          rw [if_neg c1, if_neg c2]
          simp only [upd, hx, if_false]

/-- the first store of Insert's loop is the only one that can grow the registry. -/
theorem set_at_top (r : Reg) (v : RV) (h2 : r.top ≤ r.cap) (hl : r.top + 1 ≤ max r.cap r.maxSize) :
    ∃ r1, r.set r.top v = .ok r1 ∧ r1.top = r.top + 1 ∧ r1.top ≤ r1.cap ∧ Ext r r1 ∧
      (∀ i, i < r.top → r1.array i = r.array i) ∧ r1.array r.top = v := by
  obtain ⟨r1, hc, ht, hcap, hext, harr, _⟩ := checkSize_ok r (r.top + 1) h2 hl
  have hlt : r.top < r1.cap := by omega
  have hge : r.top ≥ r1.top := by omega
  refine ⟨{ r1 with array := upd r1.array r.top v, top := r.top + 1 }, ?_, rfl, by somega, hext, ?_, by simp [upd]⟩
  · simp [Reg.set, hc, bind, Except.bind, hlt, hge]
  · intro i hi
    have : i ≠ r.top := by omega
    simp only [upd, this, if_false]
    exact harr i hi

theorem insert_ok {r : Reg} {l : List OVal} (v : OVal) (reg : Nat) (h : Rel r l) (hr : reg ≤ l.length)
    (hl : l.length + 1 ≤ max r.cap r.maxSize) :
    ∃ r', r.insert v reg = .ok r' ∧ Rel r' (l.take reg ++ v :: l.drop reg) ∧ Ext r r' := by
  by_cases hreg : reg = l.length
  · -- reg ≥ top: a plain store at top
    subst hreg
    obtain ⟨r', e, hrel, hext⟩ := set_append_ok v h hl
    refine ⟨r', ?_, ?_, hext⟩
    · have : l.length ≥ r.top := by rw [h.1]; exact Nat.le_refl _
      simp only [Reg.insert, this, if_true]; exact e
    · simpa using hrel
  · obtain ⟨h1, h2, h3⟩ := h
    have hlt : reg < r.top := by omega
    have hnge : ¬ reg ≥ r.top := by omega
    have hpos : 0 < r.top := by omega
    obtain ⟨r1, e1, t1, tc1, hext, a1, a1t⟩ := set_at_top r (r.array (r.top - 1)) h2 (by omega)
    obtain ⟨x1, x2, x3, x4⟩ := hext
    obtain ⟨r2, e2, t2, c2, g2, m2, a2⟩ := insertLoop_inside (r.top - reg - 1) (r.top - 1 - 1) r1
      (by omega) (by omega) tc1
    have g5 : reg < r2.cap := by omega
    have hk : r.top - reg = (r.top - reg - 1) + 1 := by omega
    have hg : r.top - 1 < r.cap := by omega
    have hs : r.top - 1 + 1 = r.top := by omega
    refine ⟨{ r2 with array := upd r2.array reg (.val v), top := if reg ≥ r2.top then reg + 1 else r2.top }, ?_, ?_, ?_⟩
    · simp only [Reg.insert, hnge, if_false, bind, Except.bind]
      rw [hk]
      simp only [Reg.insertLoop, Reg.get, hg, if_true, bind, Except.bind, hs, e1, e2]
      exact set_inside r2 reg (.val v) g5
    · have hnt : ¬ reg ≥ r2.top := by omega
      refine ⟨?_, ?_, ?_⟩
      · show (if reg ≥ r2.top then reg + 1 else r2.top) = _
        rw [if_neg hnt]; simp; omega
      · show (if reg ≥ r2.top then reg + 1 else r2.top) ≤ r2.cap
        rw [if_neg hnt]; omega
      · intro i hi
        simp only [List.length_append, List.length_take, List.length_cons, List.length_drop] at hi
        show upd r2.array reg (.val v) i = _
        rw [at?_append, at?_take, at?_cons, at?_drop]
        simp only [List.length_take]
        by_cases hi1 : i < reg
        · have k2 : i < min reg l.length := by omega
          have k3 : i ≠ reg := by omega
          have k4 : ¬ (r.top - 1 - 1 + 1 - (r.top - reg - 1) < i ∧ i ≤ r.top - 1 - 1 + 1) := by omega
          rw [if_pos k2, if_pos hi1]
          simp only [upd, k3, if_false]
          rw [a2 i, if_neg k4, a1 i (by omega)]
          exact h3 i (by omega)
        · have k2 : ¬ i < min reg l.length := by omega
          rw [if_neg k2]
          by_cases hi2 : i = reg
          · have k5 : i - min reg l.length = 0 := by omega
            rw [if_pos k5]
            simp [upd, hi2]
          · have k5 : ¬ i - min reg l.length = 0 := by omega
            have k6 : reg + (i - min reg l.length - 1) = i - 1 := by omega
            rw [if_neg k5, k6]
            simp only [upd, hi2, if_false]
            rw [a2 i]
            by_cases hi3 : i = r.top
            · have k4 : ¬ (r.top - 1 - 1 + 1 - (r.top - reg - 1) < i ∧ i ≤ r.top - 1 - 1 + 1) := by omega
              rw [if_neg k4, hi3, a1t]
              exact h3 _ (by omega)
            · have k4 : r.top - 1 - 1 + 1 - (r.top - reg - 1) < i ∧ i ≤ r.top - 1 - 1 + 1 := by omega
              rw [if_pos k4, a1 _ (by omega)]
              exact h3 _ (by omega)
    · exact ⟨by dsimp only; rw [g2]; exact x1, by dsimp only; rw [m2]; exact x2, by dsimp only; rw [c2]; exact x3,
        by dsimp only; rw [c2]; exact x4⟩

theorem insert_overflow {r : Reg} {l : List OVal} (v : OVal) (reg : Nat) (h : Rel r l) (hr : reg ≤ l.length)
    (hl : l.length + 1 > max r.cap r.maxSize) : r.insert v reg = .error overflow := by
  obtain ⟨h1, h2, h3⟩ := h
  by_cases hreg : reg ≥ r.top
  · have : reg = l.length := by omega
    simp only [Reg.insert, hreg, if_true]
    exact set_overflow reg _ (by omega)
  · have hk : r.top - reg = (r.top - reg - 1) + 1 := by omega
    have hg : r.top - 1 < r.cap := by omega
    have hs : r.top - 1 + 1 = r.top := by omega
    simp only [Reg.insert, hreg, if_false, bind, Except.bind]
    rw [hk]
    have hov : r.set r.top (r.array (r.top - 1)) = .error overflow := set_overflow r.top _ (by omega)
    simp only [Reg.insertLoop, Reg.get, hg, if_true, bind, Except.bind, hs, hov]

/-! ## one step of any operation -/

theorem step_refines {r : Reg} {l l' : List OVal} {op : ROp} {o : RObs} (h : Rel r l)
    (hs : rstep l op = some (l', o)) :
    (l'.length ≤ max r.cap r.maxSize → ∃ r', r.step op = .ok (r', o) ∧ Rel r' l' ∧ Ext r r') ∧
    (l'.length > max r.cap r.maxSize → r.step op = .error overflow) := by
  have hcap : l.length ≤ max r.cap r.maxSize := by have := h.1; have := h.2.1; omega
  cases op with
  | push v =>
    simp only [rstep, Option.some.injEq, Prod.mk.injEq] at hs
    obtain ⟨rfl, rfl⟩ := hs
    constructor
    · intro hl
      obtain ⟨r', e, hr, hx⟩ := push_ok v h (by simpa using hl)
      exact ⟨r', by simp [Reg.step, e, Except.map], hr, hx⟩
    · intro hl
      simp [Reg.step, push_overflow v h (by simpa using hl), Except.map]
  | pop =>
    simp only [rstep] at hs
    split at hs
    · rename_i v hv
      simp only [Option.some.injEq, Prod.mk.injEq] at hs
      obtain ⟨rfl, rfl⟩ := hs
      constructor
      · intro _
        obtain ⟨r', e, hr, hx⟩ := pop_ok h hv
        exact ⟨r', by simp [Reg.step, e, Except.map, Reg.obsOf], hr, hx⟩
      · intro hl; simp only [List.length_dropLast] at hl; omega
    · cases hs
  | get i =>
    simp only [rstep] at hs
    split at hs
    · rename_i v hv
      simp only [Option.some.injEq, Prod.mk.injEq] at hs
      obtain ⟨rfl, rfl⟩ := hs
      constructor
      · intro _
        exact ⟨r, by simp [Reg.step, get_ok h hv, Except.map, Reg.obsOf], h, Ext.refl r⟩
      · intro hl; omega
    · cases hs
  | set i v =>
    simp only [rstep] at hs
    split at hs
    · rename_i hi
      simp only [Option.some.injEq, Prod.mk.injEq] at hs
      obtain ⟨rfl, rfl⟩ := hs
      constructor
      · intro _
        obtain ⟨r', e, hr, hx⟩ := set_ok i v h hi
        exact ⟨r', by simp [Reg.step, e, Except.map], hr, hx⟩
      · intro hl; simp only [List.length_set] at hl; omega
    · split at hs
      · rename_i hi
        simp only [Option.some.injEq, Prod.mk.injEq] at hs
        obtain ⟨rfl, rfl⟩ := hs
        subst hi
        constructor
        · intro hl
          obtain ⟨r', e, hr, hx⟩ := set_append_ok v h (by simpa using hl)
          exact ⟨r', by simp [Reg.step, e, Except.map], hr, hx⟩
        · intro hl
          simp [Reg.step, set_overflow l.length (.val v) (by simpa using hl), Except.map]
      · cases hs
  | setTop n =>
    simp only [rstep, Option.some.injEq, Prod.mk.injEq] at hs
    obtain ⟨rfl, rfl⟩ := hs
    have hlen : (l.take n ++ List.replicate (n - l.length) (none : OVal)).length = n := by simp; omega
    constructor
    · intro hl
      obtain ⟨r', e, hr, hx⟩ := setTop_ok n h (by omega)
      exact ⟨r', by simp [Reg.step, e, Except.map], hr, hx⟩
    · intro hl
      simp [Reg.step, setTop_overflow (r := r) n (by omega), Except.map]
  | copyRange regv start limit n =>
    simp only [rstep] at hs
    split at hs
    · rename_i hpre
      simp only [Option.some.injEq, Prod.mk.injEq] at hs
      obtain ⟨rfl, rfl⟩ := hs
      have hlen : (l.take regv ++ (List.range n).map
          (fun (i : Nat) => moveSrc l (moveLim l.length limit) (start + (i : Int)))).length = regv + n := by
        simp; omega
      constructor
      · intro hl
        obtain ⟨r', e, hr, hx⟩ := copyRange_ok regv start limit n h hpre.1 hpre.2 (by omega)
        exact ⟨r', by simp [Reg.step, e, Except.map], hr, hx⟩
      · intro hl
        simp [Reg.step, copyRange_overflow (r := r) regv start limit n (by omega), Except.map]
    · cases hs
  | fillNil regm n =>
    simp only [rstep] at hs
    split at hs
    · rename_i hpre
      simp only [Option.some.injEq, Prod.mk.injEq] at hs
      obtain ⟨rfl, rfl⟩ := hs
      have hlen : (l.take regm ++ List.replicate n (none : OVal)).length = regm + n := by simp; omega
      constructor
      · intro hl
        obtain ⟨r', e, hr, hx⟩ := fillNil_ok regm n h hpre (by omega)
        exact ⟨r', by simp [Reg.step, e, Except.map], hr, hx⟩
      · intro hl
        simp [Reg.step, fillNil_overflow (r := r) regm n (by omega), Except.map]
    · cases hs
  | insert v reg =>
    simp only [rstep] at hs
    split at hs
    · rename_i hpre
      simp only [Option.some.injEq, Prod.mk.injEq] at hs
      obtain ⟨rfl, rfl⟩ := hs
      have hlen : (l.take reg ++ v :: l.drop reg).length = l.length + 1 := by simp; omega
      constructor
      · intro hl
        obtain ⟨r', e, hr, hx⟩ := insert_ok v reg h hpre (by omega)
        exact ⟨r', by simp [Reg.step, e, Except.map], hr, hx⟩
      · intro hl
        simp [Reg.step, insert_overflow v reg h hpre (by omega), Except.map]
    · cases hs
  | top =>
    simp only [rstep, Option.some.injEq, Prod.mk.injEq] at hs
    obtain ⟨rfl, rfl⟩ := hs
    exact ⟨fun _ => ⟨r, by simp [Reg.step, h.1], h, Ext.refl r⟩, fun hl => by omega⟩
  | isFull =>
    simp only [rstep, Option.some.injEq, Prod.mk.injEq] at hs
    obtain ⟨rfl, rfl⟩ := hs
    exact ⟨fun _ => ⟨r, by simp [Reg.step], h, Ext.refl r⟩, fun hl => by omega⟩

/-- `raiseError`'s forced growth: the error message can always be pushed (top ≤ cap suffices), nothing below moves. -/
theorem raisePush_ok {r : Reg} {l : List OVal} (msg : OVal) (h : Rel r l) :
    ∃ r', r.raisePush msg = .ok r' ∧ Rel r' (l ++ [msg]) := by
  obtain ⟨h1, h2, h3⟩ := h
  by_cases hf : r.top ≥ r.cap
  · -- full: forceResize(top+1), then the push needs no further growth
    have hfull : r.isFull = true := by simp [Reg.isFull, hf]
    have hrel : Rel { r with cap := r.top + 1, array := fun i => if i < r.top + 1 ∧ i < r.top then r.array i else .goNil } l := by
      refine ⟨h1, by somega, ?_⟩
      intro i hi
      have : i < r.top + 1 ∧ i < r.top := by omega
      simp only [this, and_self, if_true]
      exact h3 i hi
    obtain ⟨r', e, hr, _⟩ := push_ok msg hrel (by dsimp only; omega)
    exact ⟨r', by simp [Reg.raisePush, hfull, Reg.forceResize, h2, bind, Except.bind, e], hr⟩
  · have hfull : r.isFull = false := by simp [Reg.isFull]; omega
    obtain ⟨r', e, hr, _⟩ := push_ok msg ⟨h1, h2, h3⟩ (by omega)
    exact ⟨r', by simp [Reg.raisePush, hfull, bind, Except.bind, e], hr⟩

end GLua.Registry
