/-
  Lemmas for C20.
   1. Model = Spec:   Model.loRequire = Spec.require .assigned,  Model.loModule = Spec.module,
                      Model.registerModule = Spec.register        (all states, all fuel)
   2. frame lemmas of the Spec's require (for both Tie choices): a cached module stays cached with the
      identical value and its loader never runs, whatever else is required / nested.
-/
import GLua.Model.Require

namespace GLua.Require
open GLua.Require

/-! ### small facts about states -/
@[simp] theorem setLoaded_loaded_same (s : St) (n : Name) (v : LV) : (s.setLoaded n v).loaded n = v := by
  simp [St.setLoaded]
@[simp] theorem setLoaded_loaded_other (s : St) (n m : Name) (v : LV) (h : m ≠ n) :
    (s.setLoaded n v).loaded m = s.loaded m := by simp [St.setLoaded, h]
@[simp] theorem setLoaded_log (s : St) (n : Name) (v : LV) : (s.setLoaded n v).log = s.log := rfl
@[simp] theorem setLoaded_heap (s : St) (n : Name) (v : LV) : (s.setLoaded n v).heap = s.heap := rfl
@[simp] theorem setLoaded_preload (s : St) (n : Name) (v : LV) : (s.setLoaded n v).preload = s.preload := rfl
@[simp] theorem setLoaded_files (s : St) (n : Name) (v : LV) : (s.setLoaded n v).files = s.files := rfl
@[simp] theorem setLoaded_broken (s : St) (n : Name) (v : LV) : (s.setLoaded n v).broken = s.broken := rfl
@[simp] theorem setLoaded_path (s : St) (n : Name) (v : LV) : (s.setLoaded n v).path = s.path := rfl
@[simp] theorem setLoaded_serial (s : St) (n : Name) (v : LV) : (s.setLoaded n v).serial = s.serial := rfl
@[simp] theorem logEv_loaded (s : St) (e : Ev) : (s.logEv e).loaded = s.loaded := rfl
@[simp] theorem logEv_log (s : St) (e : Ev) : (s.logEv e).log = e :: s.log := rfl
@[simp] theorem fresh_loaded (s : St) : s.fresh.1.loaded = s.loaded := rfl
@[simp] theorem fresh_log (s : St) : s.fresh.1.log = s.log := rfl
@[simp] theorem fresh_val (s : St) : s.fresh.2 = .tbl (s.serial + 1) := rfl
@[simp] theorem heapSet_loaded (s : St) (t : Nat) (k : String) (v : LV) : (s.heapSet t k v).loaded = s.loaded := rfl
@[simp] theorem heapSet_log (s : St) (t : Nat) (k : String) (v : LV) : (s.heapSet t k v).log = s.log := rfl


/-! ### 1. Model = Spec -/
namespace Refine

theorem findTableLoop_eq (l : List String) : ∀ (s : St) (t : Nat),
    Model.findTableLoop s t l = (match Spec.findTable s t l with
      | (s', some id) => (s', LV.tbl id)
      | (s', none) => (s', LV.nil)) := by
  induction l with
  | nil => intro s t; simp [Model.findTableLoop, Spec.findTable]
  | cons k r ih =>
    intro s t
    simp only [Model.findTableLoop, Spec.findTable]
    cases h : s.heap t k <;> simp [St.fresh, ih]

theorem loModule_eq (s : St) (n : Name) : Model.loModule s n = Spec.module s n := by
  unfold Model.loModule Spec.module Model.findTable Spec.parts
  rw [findTableLoop_eq]
  cases hl : s.loaded n <;>
    (try simp) <;>
    (rcases hft : Spec.findTable s 0 (s.str.splitDots n) with ⟨s1, _ | id⟩ <;> simp)

theorem foldl_heapSet_setLoaded (funcs : List String) (id : Nat) (n : Name) (v : LV) : ∀ s : St,
    (funcs.foldl (fun s f => s.heapSet id f .fn) s).setLoaded n v
      = funcs.foldl (fun s f => s.heapSet id f .fn) (s.setLoaded n v) := by
  induction funcs with
  | nil => intro s; rfl
  | cons f r ih => intro s; simp only [List.foldl_cons]; rw [ih]; rfl

theorem registerModule_eq (s : St) (n : Name) (funcs : List String) :
    Model.registerModule s n funcs = Spec.register s n funcs := by
  unfold Model.registerModule Spec.register Model.findTable Spec.parts
  rw [findTableLoop_eq]
  cases hl : s.loaded n <;>
    (try simp) <;>
    (rcases hft : Spec.findTable s 0 (s.str.splitDots n) with ⟨s1, _ | id⟩ <;> simp [foldl_heapSet_setLoaded])

theorem loFindFileLoop_eq (s : St) (name : String) (pats : List String) : ∀ msgs,
    Model.loFindFileLoop s name pats msgs =
      (match (pats.map (fun t => s.str.subst t name)).find? (fun p => (s.files p).isSome) with
       | some p => .inl p
       | none => .inr (msgs ++ (pats.map (fun t => s.str.subst t name)).map ("F:" ++ ·))) := by
  induction pats with
  | nil => intro msgs; simp [Model.loFindFileLoop]
  | cons pat r ih =>
    intro msgs
    simp only [Model.loFindFileLoop, List.map_cons, List.find?_cons]
    by_cases h : (s.files (s.str.subst pat name)).isSome = true
    · simp [h]
    · simp [h, ih, List.append_assoc]

theorem loLoaders_eq : Model.loLoaders = [.preload, .lua] := by decide

/-- each searcher, as gopher-lua runs it, answers what the reference says it answers. -/
theorem callSearcher_eq (s : St) (n : Name) (l : Searcher) : Model.callSearcher s n l = Spec.search s n l := by
  cases l with
  | preload =>
    simp only [Model.callSearcher, Spec.search, Model.loLoaderPreload]
    cases s.preload n <;> rfl
  | lua =>
    simp only [Model.callSearcher, Spec.search, Model.loLoaderLua, Model.loFindFile, Spec.candidates, loFindFileLoop_eq]
    cases hf : ((s.str.splitPath s.path).map (fun t => s.str.subst t (s.str.replaceDots n))).find?
        (fun p => (s.files p).isSome) with
    | none => simp
    | some p => by_cases hb : s.broken p = true <;> cases hfp : s.files p <;> simp [hb, hfp]
  | unknown => rfl
  | finder who b => rfl
  | says tag => rfl
  | silent => rfl

/-- the searcher loop of loRequire = ll_require's loop, over any chain. -/
theorem loaderLoopL_eq (s : St) (n : Name) : ∀ (chain : List Searcher) (msgs : List String),
    Model.loaderLoop s n chain msgs = Spec.findLoaderIn s n chain msgs := by
  intro chain
  induction chain with
  | nil => intro msgs; rfl
  | cons l r ih =>
    intro msgs
    simp only [Model.loaderLoop, Spec.findLoaderIn, callSearcher_eq]
    cases Spec.search s n l <;> simp [ih]

/-- over the chain the library installs, the loop is the manual's "preload first, then the path". -/
theorem findLoaderIn_std (s : St) (n : Name) : Spec.findLoaderIn s n Spec.stdLoaders [] = Spec.findLoader s n := by
  simp only [Spec.stdLoaders, Spec.findLoaderIn, Spec.search, Spec.findLoader]
  cases hp : s.preload n with
  | some ld => simp
  | none =>
    simp only []
    cases hf : (Spec.candidates s n).find? (fun p => (s.files p).isSome) with
    | none => simp
    | some p =>
      have hs := List.find?_some hf
      by_cases hb : s.broken p = true
      · simp [hb]
      · cases hfp : s.files p with
        | none => simp [hfp] at hs
        | some b => simp [hb, hfp]

theorem loaderLoop_eq (s : St) (n : Name) :
    Model.loaderLoop s n Model.loLoaders [] = Spec.findLoader s n := by
  rw [loLoaders_eq, loaderLoopL_eq]; exact findLoaderIn_std s n

theorem runFinal_ne_sentinel (modf : St → Name → St × Res) (s : St) (self : Name) (fin : Final)
    (s' : St) (v : LV) (h : runFinal modf s self fin = (s', .ok v)) : v ≠ .sentinel := by
  cases fin <;> simp [runFinal, St.fresh] at h <;> try (obtain ⟨_, rfl⟩ := h; simp)
  · rcases hm : modf s self with ⟨s1, r⟩
    cases r <;> simp [hm] at h
    obtain ⟨_, rfl⟩ := h; simp
  · rcases hm : modf (St.setLoaded { s with serial := s.serial + 1 } self (.tbl (s.serial + 1))) self with ⟨s1, r⟩
    cases r <;> simp [hm] at h
    obtain ⟨_, rfl⟩ := h; simp

theorem runLoader_ne_sentinel (lib : Lib) (s : St) (ld : Loader) (arg : Name) (s' : St) (v : LV)
    (h : runLoader lib s ld arg = (s', .ok v)) : v ≠ .sentinel := by
  unfold runLoader at h
  rcases hs : runSteps lib.require (s.logEv (.run ld.src ld.key arg)) ld.beh.steps with ⟨s1, e⟩
  cases e with
  | some e => simp [hs] at h
  | none => simp only [hs] at h; exact runFinal_ne_sentinel _ _ _ _ _ _ h

theorem loRequireL_eq (chain : List Searcher) : ∀ (f : Nat) (s : St) (n : Name),
    Model.loRequireL chain f s n = Spec.requireL .assigned chain f s n
  | 0, s, n => rfl
  | f + 1, s, n => by
    have ih : Model.loRequireL chain f = Spec.requireL .assigned chain f :=
      funext fun s => funext fun n => loRequireL_eq chain f s n
    have hm : Model.loModule = Spec.module := funext fun s => funext fun n => loModule_eq s n
    simp only [Model.loRequireL, Spec.requireL]
    split
    · rfl
    · rw [loaderLoopL_eq]
      cases Spec.findLoaderIn s n chain [] with
      | inr e => rfl
      | inl ld =>
        simp only [ih, hm]
        rcases hr : runLoader { require := Spec.requireL .assigned chain f, module := Spec.module }
            (s.setLoaded n .sentinel) ld n with ⟨s2, r⟩
        cases r with
        | err e => rfl
        | ok ret =>
          have hns := runLoader_ne_sentinel _ _ _ _ _ _ hr
          by_cases h1 : ret = .nil <;> by_cases h2 : s2.loaded n = .sentinel <;> simp [h1, h2, hns]

/-- the regenerated chain is the standard chain: loRequire in a fresh state = the manual's require. -/
theorem loRequire_eq (f : Nat) (s : St) (n : Name) : Model.loRequire f s n = Spec.require .assigned f s n := by
  unfold Model.loRequire Spec.require
  rw [loLoaders_eq]; exact loRequireL_eq _ f s n

end Refine

/-! ### 2. frame lemmas: a cached module is left alone -/

/-- package.loaded[m] holds the true value `v` (a cached module value, or the sentinel while/after a failed load). -/
def Cached (s : St) (m : Name) (v : LV) : Prop := s.loaded m = v ∧ v.truthy = true

/-- how often a loader body for module `m` was started, according to the log. -/
def runsOf (m : Name) : List Ev → Nat
  | [] => 0
  | e :: r => (if e.isRunOf m then 1 else 0) + runsOf m r

/-- going from `s` to `s'` kept `m` cached with the identical value and ran no loader of `m`. -/
def Kept (m : Name) (v : LV) (s s' : St) : Prop := Cached s' m v ∧ runsOf m s'.log = runsOf m s.log

theorem Kept.refl {m v s} (h : Cached s m v) : Kept m v s s := ⟨h, rfl⟩
theorem Kept.trans {m v s1 s2 s3} (h1 : Kept m v s1 s2) (h2 : Kept m v s2 s3) : Kept m v s1 s3 :=
  ⟨h2.1, h2.2.trans h1.2⟩

/-- a library function that leaves the cached module `m` alone, whatever it is called with. -/
def Frame (m : Name) (v : LV) (g : St → Name → St × Res) : Prop :=
  ∀ s n, Cached s m v → Kept m v s (g s n).1

theorem kept_of_eq {m v} {s s' : St} (hc : Cached s m v) (hl : s'.loaded m = s.loaded m) (hlog : s'.log = s.log) :
    Kept m v s s' := ⟨⟨hl ▸ hc.1, hc.2⟩, by rw [hlog]⟩

theorem kept_setLoaded {m v} {s : St} (hc : Cached s m v) (n : Name) (w : LV) (hne : n ≠ m) :
    Kept m v s (s.setLoaded n w) :=
  kept_of_eq hc (by simp [Ne.symm hne]) rfl

theorem kept_logNest {m v} {s : St} (hc : Cached s m v) (k : Name) (r : Res) :
    Kept m v s (s.logEv (.nest k r)) :=
  ⟨⟨hc.1, hc.2⟩, by simp [runsOf, Ev.isRunOf]⟩

theorem kept_logRun {m v} {s : St} (hc : Cached s m v) (src : Src) (key : String) (arg : Name) (hne : arg ≠ m) :
    Kept m v s (s.logEv (.run src key arg)) :=
  ⟨⟨hc.1, hc.2⟩, by simp [runsOf, Ev.isRunOf, hne]⟩

theorem runSteps_frame {m v} {req : St → Name → St × Res} (hreq : Frame m v req) :
    ∀ (steps : List Step) (s : St), Cached s m v → Kept m v s (runSteps req s steps).1 := by
  intro steps
  induction steps with
  | nil => intro s hc; exact Kept.refl hc
  | cons st rest ih =>
    intro s hc
    have h1 := hreq s st.target hc
    simp only [runSteps]
    rcases hr : req s st.target with ⟨s1, r⟩
    rw [hr] at h1
    cases r with
    | ok w =>
      have h2 := kept_logNest h1.1 st.target (.ok w)
      exact (h1.trans h2).trans (ih _ h2.1)
    | err e =>
      by_cases hp : st.prot = true
      · simp only [hp, if_true]
        have h2 := kept_logNest h1.1 st.target (.err e)
        exact (h1.trans h2).trans (ih _ h2.1)
      · simp only [hp]; exact h1

theorem findTable_loaded_log (l : List String) : ∀ (s : St) (t : Nat),
    (Spec.findTable s t l).1.loaded = s.loaded ∧ (Spec.findTable s t l).1.log = s.log := by
  induction l with
  | nil => intro s t; simp [Spec.findTable]
  | cons k r ih =>
    intro s t
    simp only [Spec.findTable]
    cases h : s.heap t k <;> simp [St.fresh]
    · have := ih ({ s with serial := s.serial + 1 }.heapSet t k (.tbl (s.serial + 1))) (s.serial + 1)
      simpa using this
    · exact ih s _

theorem module_loaded_log (s : St) (n : Name) :
    (Spec.module s n).1.log = s.log ∧ ∀ k, k ≠ n → (Spec.module s n).1.loaded k = s.loaded k := by
  unfold Spec.module
  have hft := findTable_loaded_log (Spec.parts s n) s 0
  rcases hf : Spec.findTable s 0 (Spec.parts s n) with ⟨s1, o⟩
  rw [hf] at hft
  simp only at hft
  cases hl : s.loaded n <;> cases o <;> simp only [] <;> (try split) <;>
    refine ⟨by simp [hft.2], fun k hk => by simp [hk, hft.1]⟩

theorem module_frame {m v} {s : St} (hc : Cached s m v) (n : Name) (hne : n ≠ m) :
    Kept m v s (Spec.module s n).1 :=
  have h := module_loaded_log s n
  kept_of_eq hc (h.2 m (Ne.symm hne)) h.1

theorem runFinal_frame {m v} {s : St} (hc : Cached s m v) (self : Name) (hne : self ≠ m) (fin : Final) :
    Kept m v s (runFinal Spec.module s self fin).1 := by
  cases fin <;> simp only [runFinal, St.fresh]
  case module =>
    have := module_frame hc self hne
    rcases hm : Spec.module s self with ⟨s1, r⟩
    rw [hm] at this
    cases r <;> exact this
  case setMod =>
    have h0 : Kept m v s (St.setLoaded { s with serial := s.serial + 1 } self (.tbl (s.serial + 1))) :=
      kept_of_eq hc (by simp [St.setLoaded, Ne.symm hne]) rfl
    have := module_frame h0.1 self hne
    rcases hm : Spec.module (St.setLoaded { s with serial := s.serial + 1 } self (.tbl (s.serial + 1))) self with ⟨s1, r⟩
    rw [hm] at this
    cases r <;> exact h0.trans this
  all_goals first
    | exact Kept.refl hc
    | exact kept_of_eq hc (by simp [St.setLoaded, Ne.symm hne]) rfl
    | exact kept_of_eq hc rfl rfl

theorem runLoader_frame {m v} {req : St → Name → St × Res} (hreq : Frame m v req) {s : St} (hc : Cached s m v)
    (ld : Loader) (arg : Name) (hne : arg ≠ m) :
    Kept m v s (runLoader { require := req, module := Spec.module } s ld arg).1 := by
  unfold runLoader
  have h0 := kept_logRun hc ld.src ld.key arg hne
  have h1 := runSteps_frame hreq ld.beh.steps _ h0.1
  rcases hs : runSteps req (s.logEv (.run ld.src ld.key arg)) ld.beh.steps with ⟨s1, e⟩
  rw [hs] at h1
  cases e with
  | some e => exact h0.trans h1
  | none => exact (h0.trans h1).trans (runFinal_frame h1.1 arg hne ld.beh.final)

/-- **frame of require** (both Tie choices, every chain of searchers, every fuel): requiring anything — including
    everything the loaders nest — leaves a cached module cached with the identical value and runs no loader of it. -/
theorem requireL_frame (tie : Spec.Tie) (chain : List Searcher) (m : Name) (v : LV) :
    ∀ f, Frame m v (Spec.requireL tie chain f)
  | 0 => fun s n hc => Kept.refl hc
  | f + 1 => by
    intro s n hc
    have ih := requireL_frame tie chain m v f
    simp only [Spec.requireL]
    split
    · split <;> exact Kept.refl hc
    · rename_i hfalse
      have hne : n ≠ m := by
        intro h; subst h; rw [hc.1, hc.2] at hfalse; exact hfalse rfl
      cases Spec.findLoaderIn s n chain [] with
      | inr e => exact Kept.refl hc
      | inl ld =>
        simp only []
        have h0 := kept_setLoaded hc n .sentinel hne
        have h1 := runLoader_frame ih h0.1 ld n hne
        rcases hr : runLoader { require := Spec.requireL tie chain f, module := Spec.module }
            (s.setLoaded n .sentinel) ld n with ⟨s2, r⟩
        rw [hr] at h1
        have h01 := h0.trans h1
        cases r with
        | err e => exact h01
        | ok ret =>
          simp only []
          refine h01.trans ?_
          have hk : ∀ (s' : St) (c : Prop) [Decidable c] (w : LV), Cached s' m v →
              Kept m v s' (if c then s'.setLoaded n w else s') := by
            intro s' c _ w hc'
            split
            · exact kept_setLoaded hc' n w hne
            · exact Kept.refl hc'
          have ha := hk s2 (ret ≠ .nil ∧ (tie = .returned ∨ s2.loaded n = .sentinel)) ret h1.1
          exact ha.trans (hk _ _ (.bool true) ha.1)

theorem require_frame (tie : Spec.Tie) (m : Name) (v : LV) : ∀ f, Frame m v (Spec.require tie f) :=
  requireL_frame tie Spec.stdLoaders m v

/-- a cache hit: the identical value, no state change (hence no loader run). -/
theorem requireL_hit (tie : Spec.Tie) (chain : List Searcher) (f : Nat) (s : St) (n : Name) (v : LV) (hc : Cached s n v)
    (hns : v ≠ .sentinel) : Spec.requireL tie chain (f + 1) s n = (s, .ok v) := by
  simp [Spec.requireL, hc.1, hc.2, hns]

theorem require_hit (tie : Spec.Tie) (f : Nat) (s : St) (n : Name) (v : LV) (hc : Cached s n v)
    (hns : v ≠ .sentinel) : Spec.require tie (f + 1) s n = (s, .ok v) :=
  requireL_hit tie Spec.stdLoaders f s n v hc hns

/-- the sentinel is visible: a loop (or a previous error) is reported, nothing else happens. -/
theorem requireL_sentinel (tie : Spec.Tie) (chain : List Searcher) (f : Nat) (s : St) (n : Name)
    (h : s.loaded n = .sentinel) : Spec.requireL tie chain (f + 1) s n = (s, .err (.loop n)) := by
  simp [Spec.requireL, h, LV.truthy]

theorem require_sentinel (tie : Spec.Tie) (f : Nat) (s : St) (n : Name) (h : s.loaded n = .sentinel) :
    Spec.require tie (f + 1) s n = (s, .err (.loop n)) :=
  requireL_sentinel tie Spec.stdLoaders f s n h

theorem final_ne_sentinel (s3 : St) (n : Name) :
    (if s3.loaded n = .sentinel then s3.setLoaded n (.bool true) else s3).loaded n ≠ .sentinel := by
  split
  · simp
  · assumption

/-- whatever `require` returns is the final package.loaded[n], and never the sentinel. -/
theorem requireL_result (tie : Spec.Tie) (chain : List Searcher) (f : Nat) (s s' : St) (n : Name) (v : LV)
    (h : Spec.requireL tie chain f s n = (s', .ok v)) : s'.loaded n = v ∧ v ≠ .sentinel := by
  cases f with
  | zero => simp [Spec.requireL] at h
  | succ f =>
    simp only [Spec.requireL] at h
    split at h
    · split at h
      · simp at h
      · rename_i hns; simp only [Prod.mk.injEq, Res.ok.injEq] at h; obtain ⟨rfl, rfl⟩ := h; exact ⟨rfl, hns⟩
    · cases hl : Spec.findLoaderIn s n chain [] with
      | inr e => simp [hl] at h
      | inl ld =>
        simp only [hl] at h
        rcases hr : runLoader { require := Spec.requireL tie chain f, module := Spec.module }
            (s.setLoaded n .sentinel) ld n with ⟨s2, r⟩
        rw [hr] at h
        cases r with
        | err e => simp at h
        | ok ret =>
          simp only [Prod.mk.injEq, Res.ok.injEq] at h
          obtain ⟨rfl, rfl⟩ := h
          refine ⟨rfl, ?_⟩
          exact final_ne_sentinel _ n

theorem require_result (tie : Spec.Tie) (f : Nat) (s s' : St) (n : Name) (v : LV)
    (h : Spec.require tie f s n = (s', .ok v)) : s'.loaded n = v ∧ v ≠ .sentinel :=
  requireL_result tie Spec.stdLoaders f s s' n v h

/-- a failed search — nothing found, or the file found does not load — changes nothing: no sentinel, no other
    entry of package.loaded, no log entry (so a later require, after the cause was repaired, starts afresh). -/
theorem requireL_search_failed (tie : Spec.Tie) (chain : List Searcher) (f : Nat) (s : St) (n : Name) (e : RErr)
    (hun : (s.loaded n).truthy = false) (hl : Spec.findLoaderIn s n chain [] = .inr e) :
    Spec.requireL tie chain (f + 1) s n = (s, .err e) := by
  simp [Spec.requireL, hun, hl]

/-- a cached module whose loader did nothing but `return` nothing holds `true`. -/
theorem require_true_when_nothing (tie : Spec.Tie) (f : Nat) (s : St) (n : Name) (ld : Loader)
    (hun : (s.loaded n).truthy = false) (hl : Spec.findLoader s n = .inl ld)
    (hb : ld.beh = { steps := [], final := .none }) :
    ∃ s', Spec.require tie (f + 1) s n = (s', .ok (.bool true)) ∧ s'.loaded n = .bool true := by
  rw [← Refine.findLoaderIn_std] at hl
  simp [Spec.require, Spec.requireL, hun, hl, runLoader, hb, runSteps, runFinal]

theorem foldl_heapSet_loaded_log (fs : List String) (id : Nat) : ∀ (s : St),
    (fs.foldl (fun s f => s.heapSet id f .fn) s).log = s.log ∧
    (fs.foldl (fun s f => s.heapSet id f .fn) s).loaded = s.loaded := by
  induction fs with
  | nil => intro s; exact ⟨rfl, rfl⟩
  | cons f r ih => intro s; simp only [List.foldl_cons]; have := ih (s.heapSet id f .fn); simpa using this

theorem register_loaded_log (s : St) (n : Name) (fs : List String) :
    (Spec.register s n fs).1.log = s.log ∧ ∀ k, k ≠ n → (Spec.register s n fs).1.loaded k = s.loaded k := by
  have hfold : ∀ (fs : List String) (id : Nat) (s : St),
      (fs.foldl (fun s f => s.heapSet id f .fn) s).log = s.log ∧
      (fs.foldl (fun s f => s.heapSet id f .fn) s).loaded = s.loaded := by
    intro fs id
    induction fs with
    | nil => intro s; exact ⟨rfl, rfl⟩
    | cons f r ih => intro s; simp only [List.foldl_cons]; have := ih (s.heapSet id f .fn); simpa using this
  unfold Spec.register
  have hft := findTable_loaded_log (Spec.parts s n) s 0
  rcases hf : Spec.findTable s 0 (Spec.parts s n) with ⟨s1, o⟩
  rw [hf] at hft
  simp only at hft
  cases hl : s.loaded n <;> cases o <;> simp only [] <;>
    refine ⟨by simp [hft.2, (hfold _ _ _).1], fun k hk => by simp [hk, hft.1, (hfold _ _ _).2]⟩

/-- registration of another module leaves the cached module alone. -/
def RegFrame (m : Name) (v : LV) (reg : St → Name → List String → St × Res) : Prop :=
  ∀ s n fs, n ≠ m → Cached s m v → Kept m v s (reg s n fs).1

theorem register_frame (m : Name) (v : LV) : RegFrame m v Spec.register := by
  intro s n fs hne hc
  have h := register_loaded_log s n fs
  exact kept_of_eq hc (h.2 m (Ne.symm hne)) h.1

/-- **histories**: over any history that neither clears nor re-registers `m`, a cached module stays cached
    with the identical value, none of its loaders runs, and every `require m` returns that value. -/
theorem history_cached {m : Name} {v : LV} {req : St → Name → St × Res} {reg : St → Name → List String → St × Res}
    (hreq : Frame m v req) (hhit : ∀ s, Cached s m v → req s m = (s, .ok v)) (hreg : RegFrame m v reg) :
    ∀ (ops : List Op) (s : St), Cached s m v → (∀ o ∈ ops, o.resets m = false) →
      Kept m v s (runWith req reg s ops).1 ∧
      ∀ p ∈ ops.zip (runWith req reg s ops).2, p.1 = .require m → p.2 = some (.ok v) := by
  intro ops
  induction ops with
  | nil => intro s hc _; exact ⟨Kept.refl hc, by simp [runWith]⟩
  | cons o r ih =>
    intro s hc hno
    have ho := hno o (List.mem_cons_self ..)
    have hr : ∀ o' ∈ r, o'.resets m = false := fun o' h => hno o' (List.mem_cons_of_mem _ h)
    have hstep : Kept m v s (stepWith req reg s o).1 ∧ (o = .require m → (stepWith req reg s o).2 = some (.ok v)) := by
      cases o with
      | file p b => exact ⟨kept_of_eq hc rfl rfl, by simp⟩
      | badfile p => exact ⟨kept_of_eq hc rfl rfl, by simp⟩
      | rmfile p => exact ⟨kept_of_eq hc rfl rfl, by simp⟩
      | newPreload keep => exact ⟨kept_of_eq hc rfl rfl, by simp⟩
      | preload n b => exact ⟨kept_of_eq hc rfl rfl, by simp⟩
      | gpreload n b => exact ⟨kept_of_eq hc rfl rfl, by simp⟩
      | unpreload n => exact ⟨kept_of_eq hc rfl rfl, by simp⟩
      | clear n =>
        have hne : n ≠ m := by simpa [Op.resets] using ho
        exact ⟨kept_setLoaded hc n .nil hne, by simp⟩
      | require n =>
        refine ⟨hreq s n hc, ?_⟩
        intro h
        cases h
        simp [stepWith, hhit s hc]
      | register n f =>
        have hne : n ≠ m := by simpa [Op.resets] using ho
        exact ⟨hreg s n [f] hne hc, by simp⟩
    simp only [runWith]
    have ih' := ih (stepWith req reg s o).1 hstep.1.1 hr
    refine ⟨hstep.1.trans ih'.1, ?_⟩
    intro p hp
    simp only [List.zip_cons_cons, List.mem_cons] at hp
    rcases hp with rfl | hp
    · exact hstep.2
    · exact ih'.2 p hp

/-! ### RegisterModule -/

theorem foldl_heapSet_get (funcs : List String) (id : Nat) : ∀ (s : St),
    (∀ f ∈ funcs, (funcs.foldl (fun s f => s.heapSet id f .fn) s).heap id f = .fn) ∧
    (∀ t k, (t ≠ id ∨ k ∉ funcs) → (funcs.foldl (fun s f => s.heapSet id f .fn) s).heap t k = s.heap t k) := by
  induction funcs with
  | nil => intro s; simp
  | cons g r ih =>
    intro s
    simp only [List.foldl_cons]
    have ih' := ih (s.heapSet id g .fn)
    constructor
    · intro f hf
      by_cases hfr : f ∈ r
      · exact ih'.1 f hfr
      · have : f = g := by simpa [hfr] using hf
        subst this
        rw [ih'.2 id f (Or.inr hfr)]
        simp [St.heapSet]
    · intro t k h
      rw [ih'.2 t k (by rcases h with h | h; exact Or.inl h; exact Or.inr (fun hk => h (List.mem_cons_of_mem _ hk)))]
      simp only [St.heapSet]
      split
      · rename_i hc
        rcases h with h | h
        · exact absurd hc.1 h
        · exact absurd (hc.2 ▸ List.mem_cons_self ..) h
      · rfl

/-- what a successful RegisterModule did: the module table `id` is package.loaded[n] (already there, or
    found/created under the global name by FindTable and stored), and the functions were set on it. -/
theorem registerModule_ok (s s' : St) (n : Name) (funcs : List String) (t : LV)
    (h : Model.registerModule s n funcs = (s', .ok t)) :
    ∃ id s1, t = .tbl id ∧ s'.heap = (funcs.foldl (fun s f => s.heapSet id f .fn) s1).heap ∧
      s'.loaded n = .tbl id ∧
      ((s.loaded n = .tbl id ∧ s1 = s) ∨ ((∀ j, s.loaded n ≠ .tbl j) ∧ Model.findTable s 0 n = (s1, .tbl id))) := by
  unfold Model.registerModule at h
  cases hl : s.loaded n with
  | tbl id =>
    simp only [hl, Prod.mk.injEq, Res.ok.injEq] at h
    obtain ⟨rfl, rfl⟩ := h
    exact ⟨id, s, rfl, rfl, by rw [(foldl_heapSet_loaded_log funcs id s).2, hl], Or.inl ⟨rfl, rfl⟩⟩
  | nil | bool _ | str _ | fn | sentinel =>
    simp only [hl] at h
    rcases hf : Model.findTable s 0 n with ⟨s1, w⟩
    rw [hf] at h
    cases w <;> simp only [Prod.mk.injEq, Res.ok.injEq, reduceCtorEq, and_false] at h
    rename_i id
    obtain ⟨rfl, rfl⟩ := h
    exact ⟨id, s1, rfl, rfl, by simp, Or.inr ⟨by simp, rfl⟩⟩

end GLua.Require
