/-
  Statement-level definitions shared by the C17 proofs: the abstraction from the compile operations of the
  Model to the events of the Spec, and the properties of a debug table.
-/
import GLua.Model.Scopes
import GLua.Spec.ScopeSpec

namespace GLua.Scopes
open GLua

instance instDecEqExcept {ε α : Type} [DecidableEq ε] [DecidableEq α] : DecidableEq (Except ε α) := fun a b =>
  match a, b with
  | .ok x, .ok y => if h : x = y then isTrue (by rw [h]) else isFalse (by intro h'; cases h'; exact h rfl)
  | .error x, .error y => if h : x = y then isTrue (by rw [h]) else isFalse (by intro h'; cases h'; exact h rfl)
  | .ok _, .error _ => isFalse (by intro h; cases h)
  | .error _, .ok _ => isFalse (by intro h; cases h)

/-- the Spec event of a Model operation (`markUp` is invisible to the Spec: it only makes LeaveBlock emit CLOSE). -/
def toSpecEv : Op → List ScopeSpec.Ev
  | .declare n => [.declare n]
  | .enter => [.begin]
  | .leave => [.end]
  | .markUp => []
  | .instr => [.instr]

def specEvs (ops : List Op) : List ScopeSpec.Ev := ops.flatMap toSpecEv

/-- pc ranges nested or disjoint, in declaration order: a later entry starts no earlier, and either ends inside
    the earlier one or starts after the earlier one has ended. -/
def Laminar (ls : List DbgLocalInfo) : Prop :=
  ls.Pairwise (fun a b => a.startPc ≤ b.startPc ∧ (b.endPc ≤ a.endPc ∨ a.endPc ≤ b.startPc))

/-- the full statement of `localname_enumerates_scope` for a version `cfg` of the code: at every instruction of
    every well-nested body, the sweep LocalName(1, pc), LocalName(2, pc), … on the finished debug table yields
    exactly the variables in scope there, in declaration order. -/
def EnumeratesScope (cfg : Cfg) : Prop :=
  ∀ (ops : List Op) (t : Trace), ScopeSpec.wellNested (specEvs ops) = true → compileOps cfg ops = .ok t →
    t.ipcs.map (enumLocals cfg t.fc.locals) = ScopeSpec.scopesAtInstrs (specEvs ops)

end GLua.Scopes
