/-
  C17 lemmas, part 1: what the LocalName sweep computes on a debug table (`enumLocals = visible`), and a
  list lemma about picking the elements at a sorted list of indices.
-/
import GLua.Proofs.ScopesDefs

namespace GLua.Scopes
open GLua

/-- the entries whose range contains `pc`, in table order, up to the first entry that starts after `pc`. -/
def visible : List DbgLocalInfo → Int → List String
  | [], _ => []
  | l :: r, pc =>
    if l.startPc ≤ pc then (if pc < l.endPc then l.name :: visible r pc else visible r pc) else []

theorem localNameAux_fixed (ls : List DbgLocalInfo) (pc : Int) :
    ∀ n : Nat, localNameAux .fixed ls ((n : Int) + 1) pc = (visible ls pc)[n]? := by
  induction ls with
  | nil => intro n; simp [localNameAux, visible]
  | cons l r ih =>
    intro n
    unfold localNameAux visible
    simp only [show Cfg.fixed.startLe = true from rfl, if_true]
    by_cases h1 : l.startPc ≤ pc
    · simp only [h1, if_true]
      by_cases h2 : pc < l.endPc
      · simp only [h2, if_true]
        cases n with
        | zero => simp
        | succ m =>
          have hne : ¬ (((m + 1 : Nat) : Int) + 1 - 1 = 0) := by omega
          have he : ((m + 1 : Nat) : Int) + 1 - 1 = (m : Int) + 1 := by omega
          rw [if_neg hne, he, ih m, List.getElem?_cons_succ]
      · simp only [h2, if_false]
        exact ih n
    · simp [h1]

theorem enumAux_fixed (ls : List DbgLocalInfo) (pc : Int) :
    ∀ (fuel k : Nat), (visible ls pc).length < fuel + k →
      enumAux .fixed ls pc fuel (k + 1) = (visible ls pc).drop k := by
  intro fuel
  induction fuel with
  | zero =>
    intro k h
    simp only [enumAux]
    rw [List.drop_eq_nil_of_le (by omega)]
  | succ fuel ih =>
    intro k h
    unfold enumAux
    have hk : ((k + 1 : Nat) : Int) = (k : Int) + 1 := by omega
    simp only [localName, hk, localNameAux_fixed]
    cases hq : (visible ls pc)[k]? with
    | none =>
      have : (visible ls pc).length ≤ k := by
        rcases Nat.lt_or_ge k (visible ls pc).length with h' | h'
        · rw [List.getElem?_eq_getElem h'] at hq; cases hq
        · exact h'
      simp [List.drop_eq_nil_of_le this]
    | some nm =>
      have hlt : k < (visible ls pc).length := by
        rcases Nat.lt_or_ge k (visible ls pc).length with h' | h'
        · exact h'
        · rw [List.getElem?_eq_none h'] at hq; cases hq
      simp only
      rw [ih (k + 1) (by omega), List.drop_eq_getElem_cons hlt]
      rw [List.getElem?_eq_getElem hlt] at hq
      simp only [Option.some.injEq] at hq
      rw [hq]

theorem visible_length_le (ls : List DbgLocalInfo) (pc : Int) : (visible ls pc).length ≤ ls.length := by
  induction ls with
  | nil => simp [visible]
  | cons l r ih =>
    unfold visible
    split
    · split
      · simp only [List.length_cons]; omega
      · simp only [List.length_cons]; omega
    · simp

/-- the sweep `LocalName(1, pc), LocalName(2, pc), …` (repaired code) returns exactly `visible`. -/
theorem enumLocals_fixed (ls : List DbgLocalInfo) (pc : Int) : enumLocals .fixed ls pc = visible ls pc := by
  unfold enumLocals
  have := enumAux_fixed ls pc (ls.length + 1) 0 (by have := visible_length_le ls pc; omega)
  simpa using this

/-- if the first part of the table has started by `pc` and the rest starts later, the sweep filters the first part. -/
theorem visible_append (A B : List DbgLocalInfo) (pc : Int) (hA : ∀ l ∈ A, l.startPc ≤ pc)
    (hB : ∀ l ∈ B, pc < l.startPc) :
    visible (A ++ B) pc = (A.filter (fun l => decide (pc < l.endPc))).map (·.name) := by
  induction A with
  | nil =>
    cases B with
    | nil => simp [visible]
    | cons b r =>
      have := hB b (List.mem_cons_self ..)
      have : ¬ b.startPc ≤ pc := by omega
      simp [visible, this]
  | cons a r ih =>
    have h1 := hA a (List.mem_cons_self ..)
    have ih' := ih (fun l hl => hA l (List.mem_cons_of_mem _ hl))
    simp only [List.cons_append, visible, h1, if_true]
    by_cases h2 : pc < a.endPc
    · simp [h2, ih', List.filter_cons]
    · simp [h2, ih', List.filter_cons]

theorem filterMap_congr' {α β : Type} {f g : α → Option β} :
    ∀ (l : List α), (∀ a ∈ l, f a = g a) → l.filterMap f = l.filterMap g := by
  intro l
  induction l with
  | nil => intro _; rfl
  | cons a r ih =>
    intro h
    simp only [List.filterMap_cons, h a (List.mem_cons_self ..)]
    rw [ih (fun x hx => h x (List.mem_cons_of_mem _ hx))]

/-- picking by a predicate that holds exactly at a strictly increasing list of positions = picking those positions. -/
theorem filter_eq_pick {α : Type} (P : α → Bool) :
    ∀ (A : List α) (k : Nat) (idx : List Nat), idx.Pairwise (· < ·) →
      (∀ i ∈ idx, k ≤ i ∧ i < k + A.length) →
      (∀ j (h : j < A.length), P A[j] = true ↔ k + j ∈ idx) →
      A.filter P = idx.filterMap (fun i => A[i - k]?) := by
  intro A
  induction A with
  | nil =>
    intro k idx _ hb _
    cases idx with
    | nil => simp
    | cons a r => have := hb a (List.mem_cons_self ..); simp at this; omega
  | cons a r ih =>
    intro k idx hs hb hP
    have hP0 := hP 0 (by simp)
    simp only [List.getElem_cons_zero, Nat.add_zero] at hP0
    by_cases hk : k ∈ idx
    · -- k is the head of idx
      cases idx with
      | nil => cases hk
      | cons b rest =>
        have hs' := List.pairwise_cons.1 hs
        have hbk : b = k := by
          rcases List.mem_cons.1 hk with h | h
          · exact h.symm
          · have := hs'.1 k h
            have := (hb b (List.mem_cons_self ..)).1
            omega
        subst hbk
        have hrest : ∀ i ∈ rest, b + 1 ≤ i ∧ i < b + 1 + r.length := by
          intro i hi
          have h1 := hs'.1 i hi
          have h2 := (hb i (List.mem_cons_of_mem _ hi)).2
          simp only [List.length_cons] at h2
          omega
        have hP' : ∀ j (h : j < r.length), P r[j] = true ↔ b + 1 + j ∈ rest := by
          intro j hj
          have := hP (j + 1) (by simp; omega)
          simp only [List.getElem_cons_succ] at this
          rw [this]
          constructor
          · intro h
            rcases List.mem_cons.1 h with h | h
            · omega
            · have : b + (j + 1) = b + 1 + j := by omega
              rw [← this]; exact h
          · intro h
            have : b + (j + 1) = b + 1 + j := by omega
            rw [this]; exact List.mem_cons_of_mem _ h
        have iha := ih (b + 1) rest hs'.2 hrest hP'
        rw [List.filter_cons, if_pos (hP0.2 hk), iha]
        simp only [List.filterMap_cons, Nat.sub_self, List.getElem?_cons_zero]
        congr 1
        apply filterMap_congr'
        intro i hi
        have := (hrest i hi).1
        have he : i - b = (i - (b + 1)) + 1 := by omega
        rw [he, List.getElem?_cons_succ]
    · have hna : ¬ (P a = true) := fun h => hk (hP0.1 h)
      have hb' : ∀ i ∈ idx, k + 1 ≤ i ∧ i < k + 1 + r.length := by
        intro i hi
        have h2 := hb i hi
        simp only [List.length_cons] at h2
        have : i ≠ k := fun e => hk (e ▸ hi)
        omega
      have hP' : ∀ j (h : j < r.length), P r[j] = true ↔ k + 1 + j ∈ idx := by
        intro j hj
        have := hP (j + 1) (by simp; omega)
        simp only [List.getElem_cons_succ] at this
        have he : k + (j + 1) = k + 1 + j := by omega
        rw [he] at this; exact this
      have iha := ih (k + 1) idx hs hb' hP'
      rw [List.filter_cons, if_neg hna, iha]
      apply filterMap_congr'
      intro i hi
      have := (hb' i hi).1
      have he : i - k = (i - (k + 1)) + 1 := by omega
      rw [he, List.getElem?_cons_succ]

end GLua.Scopes
