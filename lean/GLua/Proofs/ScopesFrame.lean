/-
  Lemmas for C17 (mechanism): SetLocal frame condition, GetStack / where level arithmetic.
-/
import GLua.Model.Scopes
import GLua.Spec.ScopeSpec

namespace GLua.Scopes
open GLua

/-! ### registry.Set touches one slot -/

theorem Reg.set_other {V} (r r' : Reg V) (nil v : V) (i : Int) (h : r.set nil i v = .ok r')
    (j : Nat) (hj : (j : Int) ≠ i) (hlt : j < r.array.length) : r'.array[j]? = r.array[j]? := by
  unfold Reg.set at h
  split at h
  · cases h
  · rename_i hi
    simp only [Except.ok.injEq] at h
    subst h
    have hne : i.toNat ≠ j := by
      intro e; apply hj; omega
    simp only
    rw [List.getElem?_set_ne hne]
    split
    · rw [List.getElem?_append_left hlt]
    · rfl

theorem Reg.set_same {V} (r r' : Reg V) (nil v : V) (i : Int) (h : r.set nil i v = .ok r') :
    r'.get i = .ok v := by
  unfold Reg.set at h
  split at h
  · cases h
  · rename_i hi
    simp only [Except.ok.injEq] at h
    subst h
    unfold Reg.get
    rw [if_neg hi]
    have hlen : i.toNat < (if i.toNat + 1 > r.array.length then
        r.array ++ List.replicate (i.toNat + 1 - r.array.length) nil else r.array).length := by
      split
      · simp only [List.length_append, List.length_replicate]; omega
      · omega
    simp only [List.getElem?_set_self hlen]

/-! ### findLocal (fixed code) only answers for positive indices -/

theorem findLocal_fixed_pos (ls : List DbgLocalInfo) (fr : FrameView) (no : Int)
    (h : findLocal .fixed ls fr no ≠ "") : 1 ≤ no := by
  unfold findLocal at h
  by_cases hn : no < 1
  · simp [Cfg.fixed, hn] at h
  · omega

/-! ### GetStack / where on stacks without lost (tail-called) frames -/

def NoLost (fs : List Frame) : Prop := ∀ f ∈ fs, f.isG = false → f.tailCall = 0

theorem getStackLoop_noLost (fs : List Frame) (h : NoLost fs) (i n : Nat) :
    getStackLoop fs i (n : Int) =
      if n < fs.length then (0, some (i + n)) else (((n - fs.length : Nat) : Int), none) := by
  induction fs generalizing i n with
  | nil => simp [getStackLoop]
  | cons f r ih =>
    have hr : NoLost r := fun x hx => h x (List.mem_cons_of_mem _ hx)
    cases n with
    | zero => simp [getStackLoop]
    | succ n =>
      have hz : (if f.isG then (0 : Int) else (f.tailCall : Int)) = 0 := by
        by_cases hg : f.isG
        · simp [hg]
        · have := h f (List.mem_cons_self ..) (by simpa using hg)
          simp [hg, this]
      unfold getStackLoop
      have hpos : ((n + 1 : Nat) : Int) > 0 := by omega
      simp only [hpos, if_true, hz]
      have : ((n + 1 : Nat) : Int) - 1 - 0 = (n : Int) := by omega
      rw [this, ih hr]
      simp only [List.length_cons, Nat.add_lt_add_iff_right]
      split
      · congr 2; omega
      · congr 2; omega

theorem getStack_noLost (fs : List Frame) (h : NoLost fs) (sp n : Nat) :
    frameOf fs (getStack fs sp (n : Int)) = fs[n]? := by
  unfold getStack
  rw [getStackLoop_noLost fs h 0 n]
  by_cases hlt : n < fs.length
  · simp [hlt, frameOf]
  · have h1 : ¬ (((n - fs.length : Nat) : Int) < 0) := by omega
    have h2 : fs.length ≤ n := by omega
    simp [hlt, h1, frameOf]

/-- what `where(level, skipg = true)` answers on the frames from `level` outwards -/
def firstLua : List Frame → WhereRes
  | [] => .empty
  | f :: r => if f.isG then firstLua r else (match f.line with | some l => .pos l | none => .empty)

def LinesOk (fs : List Frame) : Prop := ∀ f ∈ fs, f.isG = false → f.line.isSome

theorem firstLua_drop (fs : List Frame) (n : Nat) (cf : Frame) (h : fs[n]? = some cf) :
    firstLua (fs.drop n) = if cf.isG then firstLua (fs.drop (n + 1)) else
      (match cf.line with | some l => .pos l | none => .empty) := by
  have hlt : n < fs.length := by
    rcases Nat.lt_or_ge n fs.length with h' | h'
    · exact h'
    · rw [List.getElem?_eq_none h'] at h; cases h
  have hcf : fs[n] = cf := by
    rw [List.getElem?_eq_getElem hlt] at h; exact Option.some.inj h
  rw [List.drop_eq_getElem_cons hlt, hcf]
  simp [firstLua]

theorem whereAux_noLost (fs : List Frame) (h : NoLost fs) (hl : LinesOk fs) (sp : Nat) :
    ∀ (fuel n : Nat), fs.length ≤ fuel + n →
      whereAux fs sp true (fuel + 1) (n : Int) = .ok (firstLua (fs.drop n)) := by
  intro fuel
  induction fuel with
  | zero =>
    intro n hn
    unfold whereAux
    rw [getStack_noLost fs h sp n]
    have : fs.length ≤ n := by omega
    simp [List.getElem?_eq_none this, List.drop_eq_nil_of_le this, firstLua]
  | succ fuel ih =>
    intro n hn
    unfold whereAux
    rw [getStack_noLost fs h sp n]
    cases hq : fs[n]? with
    | none =>
      have : fs.length ≤ n := by
        rcases Nat.lt_or_ge n fs.length with h' | h'
        · rw [List.getElem?_eq_getElem h'] at hq; cases hq
        · exact h'
      simp [List.drop_eq_nil_of_le this, firstLua]
    | some cf =>
      have hmem : cf ∈ fs := List.mem_of_getElem? hq
      rw [firstLua_drop fs n cf hq]
      by_cases hg : cf.isG
      · simp only [hg, Bool.not_true, Bool.false_eq_true, if_false, if_true]
        have := ih (n + 1) (by omega)
        have hc : ((n + 1 : Nat) : Int) = (n : Int) + 1 := by omega
        rw [hc] at this
        exact this
      · have hsome := hl cf hmem (by simpa using hg)
        cases hline : cf.line with
        | none => rw [hline] at hsome; cases hsome
        | some l => simp [hg, hline]

theorem whereM_noLost (fs : List Frame) (h : NoLost fs) (hl : LinesOk fs) (sp n : Nat) :
    whereM fs sp (n : Int) true = .ok (firstLua (fs.drop n)) := by
  unfold whereM
  have : totalLevels fs + 2 + (-(n : Int)).toNat = (totalLevels fs + 1 + (-(n : Int)).toNat) + 1 := by omega
  rw [this]
  apply whereAux_noLost fs h hl sp
  have : fs.length ≤ totalLevels fs := by
    unfold totalLevels
    induction fs with
    | nil => simp
    | cons f r ih =>
      have := ih (fun x hx => h x (List.mem_cons_of_mem _ hx)) (fun x hx => hl x (List.mem_cons_of_mem _ hx))
      simp only [List.map_cons, List.sum_cons, List.length_cons]; omega
  omega

/-! ### the Spec's `callerAt` is "first Lua function from level n outwards" -/

def toFn (f : Frame) : ScopeSpec.Fn := if f.isG then .host else .lua (f.line.getD 0)

def specRes : Option Nat → WhereRes
  | some l => .pos l
  | none => .empty

theorem callerAt_firstLua (rest : List Frame) (hl : LinesOk rest) :
    ∀ n : Nat, specRes (ScopeSpec.callerAt (rest.map toFn) (n + 1)) = firstLua (rest.drop n) := by
  induction rest with
  | nil => intro n; simp [ScopeSpec.callerAt, firstLua, specRes]
  | cons f r ih =>
    have hr : LinesOk r := fun x hx => hl x (List.mem_cons_of_mem _ hx)
    intro n
    cases n with
    | zero =>
      by_cases hg : f.isG
      · simp only [List.map_cons, toFn, hg, if_true, ScopeSpec.callerAt, List.drop_zero, firstLua]
        have := ih hr 0
        simpa using this
      · have hsome := hl f (List.mem_cons_self ..) (by simpa using hg)
        cases hline : f.line with
        | none => rw [hline] at hsome; cases hsome
        | some l => simp [toFn, hg, ScopeSpec.callerAt, firstLua, specRes, hline]
    | succ n =>
      have := ih hr n
      simp only [List.map_cons, List.drop_succ_cons]
      rw [← this]
      cases hf : toFn f <;> simp [ScopeSpec.callerAt]

end GLua.Scopes
