/-
  C17 lemmas, part 2: invariant of the compile model (repaired code) and what a step does to the debug table.
-/
import GLua.Proofs.ScopesEnum

namespace GLua.Scopes
open GLua

/-- DbgLocals indices of the locals that are still open, outermost block first. -/
def openIdx (fc : FC) : List Nat := (fc.parents.reverse.map (·.dbg)).flatten ++ fc.block.dbg
/-- their names as the blocks remember them. -/
def openNames (fc : FC) : List String := (fc.parents.reverse.map (·.names)).flatten ++ fc.block.names

def nameAt (L : List DbgLocalInfo) (i : Nat) : Option String := (L[i]?).map (·.name)

structure Inv (fc : FC) : Prop where
  sorted : (openIdx fc).Pairwise (· < ·)
  bound : ∀ i ∈ openIdx fc, i < fc.locals.length
  blocksOk : ∀ B ∈ fc.block :: fc.parents, B.dbg.map (nameAt fc.locals) = B.names.map some
  started : ∀ l ∈ fc.locals, l.startPc ≤ (fc.pc : Int)
  closedEnd : ∀ i l, fc.locals[i]? = some l → i ∉ openIdx fc → l.endPc ≤ (fc.pc : Int)

theorem inv_init : Inv {} := by
  refine ⟨by simp [openIdx], by simp [openIdx], by simp [nameAt], by simp, by simp⟩

theorem mem_openIdx_of_block {fc : FC} {B : Block} (hB : B ∈ fc.block :: fc.parents) {i : Nat} (hi : i ∈ B.dbg) :
    i ∈ openIdx fc := by
  unfold openIdx
  rcases List.mem_cons.1 hB with rfl | hB
  · exact List.mem_append.2 (Or.inr hi)
  · apply List.mem_append.2; left
    apply List.mem_flatten.2
    exact ⟨B.dbg, List.mem_map.2 ⟨B, List.mem_reverse.2 hB, rfl⟩, hi⟩

theorem openNames_eq (fc : FC) (h : Inv fc) : (openIdx fc).map (nameAt fc.locals) = (openNames fc).map some := by
  unfold openIdx openNames
  simp only [List.map_append, List.map_flatten, List.map_map, List.map_reverse]
  rw [h.blocksOk fc.block (List.mem_cons_self ..)]
  have : List.map (List.map (nameAt fc.locals) ∘ fun x => x.dbg) fc.parents =
      List.map (List.map some ∘ fun x => x.names) fc.parents := by
    apply List.map_congr_left
    intro B hB
    exact h.blocksOk B (List.mem_cons_of_mem _ hB)
  rw [this]

/-! ### EndScope -/

def closeEntry (v : Int) (l : DbgLocalInfo) : DbgLocalInfo := { l with endPc := v }

theorem setEndPc_ok : ∀ (L : List DbgLocalInfo) (i : Nat) (v : Int), i < L.length →
    setEndPc L i v = .ok (L.modify i (closeEntry v)) := by
  intro L
  induction L with
  | nil => intro i v h; simp at h
  | cons l r ih =>
    intro i v h
    cases i with
    | zero => simp [setEndPc, List.modify, closeEntry]
    | succ i =>
      have := ih i v (by simpa using h)
      simp [setEndPc, this, Except.map, List.modify]

theorem endScope_fold (fc : FC) (v : Int) :
    ∀ (idxs : List Nat) (L0 : List DbgLocalInfo), (∀ i ∈ idxs, i < L0.length) →
      ∃ L1, idxs.foldlM (fun (f : FC) i => (setEndPc f.locals i v).map (fun ls => { f with locals := ls }))
            { fc with locals := L0 } = .ok { fc with locals := L1 } ∧ L1.length = L0.length ∧
        ∀ i, L1[i]? = (L0[i]?).map (fun l => if i ∈ idxs then closeEntry v l else l) := by
  intro idxs
  induction idxs with
  | nil => intro L0 _; exact ⟨L0, by simp [pure, Except.pure], rfl, by intro i; cases L0[i]? <;> simp⟩
  | cons a r ih =>
    intro L0 hb
    have ha := hb a (List.mem_cons_self ..)
    obtain ⟨L1, h1, hlen, hget⟩ := ih (L0.modify a (closeEntry v))
      (by intro i hi; rw [List.length_modify]; exact hb i (List.mem_cons_of_mem _ hi))
    refine ⟨L1, ?_, by rw [hlen, List.length_modify], ?_⟩
    · rw [List.foldlM_cons]
      simp only [setEndPc_ok L0 a v ha, Except.map]
      exact h1
    · intro i
      rw [hget i, List.getElem?_modify]
      cases L0[i]? with
      | none => simp
      | some l =>
        simp only [Option.map_some, Functor.map, Option.map, List.mem_cons]
        by_cases hia : a = i
        · subst hia
          by_cases hr : a ∈ r <;> simp [hr, closeEntry]
        · have : ¬ i = a := fun e => hia e.symm
          simp [hia, this]

theorem endScope_spec (fc : FC) (hb : ∀ i ∈ fc.block.dbg, i < fc.locals.length) :
    ∃ L1, endScope .fixed fc = .ok { fc with locals := L1 } ∧ L1.length = fc.locals.length ∧
      ∀ i, L1[i]? = (fc.locals[i]?).map (fun l => if i ∈ fc.block.dbg then closeEntry (fc.pc : Int) l else l) := by
  have hv : fc.lastPC + Cfg.fixed.endOff = (fc.pc : Int) := by simp [FC.lastPC, Cfg.fixed]
  obtain ⟨L1, h1, h2, h3⟩ := endScope_fold fc (fc.pc : Int) fc.block.dbg fc.locals hb
  refine ⟨L1, ?_, h2, h3⟩
  unfold endScope endScopeIndices
  simp only [show Cfg.fixed.byRegister = false from rfl, Bool.false_eq_true, if_false, hv]
  exact h1

end GLua.Scopes

namespace GLua.Scopes
open GLua

theorem lt_of_getElem? {α : Type} {L : List α} {i : Nat} {l : α} (h : L[i]? = some l) : i < L.length := by
  rcases Nat.lt_or_ge i L.length with h' | h'
  · exact h'
  · rw [List.getElem?_eq_none h'] at h; cases h

/-- what one compile step guarantees about the debug table and the open set -/
structure StepOK (fc fc1 : FC) : Prop where
  inv : Inv fc1
  len : fc.locals.length ≤ fc1.locals.length
  pcMono : fc.pc ≤ fc1.pc
  old : ∀ i l, fc.locals[i]? = some l → ∃ l1, fc1.locals[i]? = some l1 ∧ l1.name = l.name ∧ l1.startPc = l.startPc ∧
          (i ∉ openIdx fc → l1 = l ∧ i ∉ openIdx fc1) ∧
          (i ∈ openIdx fc → i ∈ openIdx fc1 ∨ (i ∉ openIdx fc1 ∧ (fc.pc : Int) ≤ l1.endPc))
  new : ∀ i l1, fc1.locals[i]? = some l1 → fc.locals.length ≤ i → (fc.pc : Int) ≤ l1.startPc

theorem stepOK_same {fc fc1 : FC} (h : Inv fc) (hl : fc1.locals = fc.locals) (ho : openIdx fc1 = openIdx fc)
    (hp : fc.pc ≤ fc1.pc)
    (hb : ∀ B ∈ fc1.block :: fc1.parents, B.dbg.map (nameAt fc.locals) = B.names.map some) : StepOK fc fc1 := by
  refine ⟨⟨by rw [ho]; exact h.sorted, by rw [ho, hl]; exact h.bound, by rw [hl]; exact hb, ?_, ?_⟩,
    by rw [hl]; exact Nat.le_refl _, hp, ?_, ?_⟩
  · intro l hl'; rw [hl] at hl'; have := h.started l hl'; omega
  · intro i l hi hno; rw [hl] at hi; rw [ho] at hno; have := h.closedEnd i l hi hno; omega
  · intro i l hi
    exact ⟨l, by rw [hl]; exact hi, rfl, rfl, fun hno => ⟨rfl, by rw [ho]; exact hno⟩,
      fun hin => Or.inl (by rw [ho]; exact hin)⟩
  · intro i l1 hi hge; rw [hl] at hi; rw [List.getElem?_eq_none hge] at hi; cases hi

/-! ### the individual steps -/

def declFC (fc : FC) (name : String) : FC :=
  { fc with block := { fc.block with names := fc.block.names ++ [name], dbg := fc.block.dbg ++ [fc.locals.length] },
            locals := fc.locals ++ [{ name := name, startPc := fc.lastPC + 1 }],
            regTop := fc.regTop + 1 }

theorem registerLocalVar_ok {fc fc1 : FC} {name : String} {r : Nat} (hs : registerLocalVar fc name = .ok (fc1, r)) :
    fc1 = declFC fc name ∧ r = fc.block.names.length + fc.block.offset := by
  unfold registerLocalVar setRegTop at hs
  simp only at hs
  split at hs
  · simp [Except.map] at hs
  · simp only [Except.map, Except.ok.injEq, Prod.mk.injEq] at hs
    exact ⟨hs.1.symm, hs.2.symm⟩

theorem openIdx_decl (fc : FC) (name : String) : openIdx (declFC fc name) = openIdx fc ++ [fc.locals.length] := by
  simp [openIdx, declFC, List.append_assoc]

theorem stepOK_declare {fc : FC} (name : String) (h : Inv fc) : StepOK fc (declFC fc name) := by
  have hopen := openIdx_decl fc name
  have hloc : (declFC fc name).locals = fc.locals ++ [{ name := name, startPc := fc.lastPC + 1 }] := rfl
  have hpc : (declFC fc name).pc = fc.pc := rfl
  have hold : ∀ i, i < fc.locals.length → (declFC fc name).locals[i]? = fc.locals[i]? := by
    intro i hi; rw [hloc, List.getElem?_append_left hi]
  have hnew : (declFC fc name).locals[fc.locals.length]? = some { name := name, startPc := fc.lastPC + 1 } := by
    rw [hloc, List.getElem?_append_right (Nat.le_refl _)]; simp
  have hnameOld : ∀ i ∈ openIdx fc, nameAt (declFC fc name).locals i = nameAt fc.locals i := by
    intro i hi; unfold nameAt; rw [hold i (h.bound i hi)]
  refine ⟨⟨?_, ?_, ?_, ?_, ?_⟩, ?_, ?_, ?_, ?_⟩
  · rw [hopen]
    apply List.pairwise_append.2
    refine ⟨h.sorted, by simp, ?_⟩
    intro a ha b hb
    simp only [List.mem_singleton] at hb
    subst hb; exact h.bound a ha
  · intro i hi
    rw [hopen] at hi
    rw [hloc, List.length_append]
    rcases List.mem_append.1 hi with hi | hi
    · have := h.bound i hi; simp; omega
    · simp only [List.mem_singleton] at hi; subst hi; simp
  · intro B hB
    have hB' : B = (declFC fc name).block ∨ B ∈ fc.parents := by
      rcases List.mem_cons.1 hB with hB | hB
      · exact Or.inl hB
      · exact Or.inr hB
    rcases hB' with rfl | hB'
    · show List.map (nameAt (declFC fc name).locals) (fc.block.dbg ++ [fc.locals.length]) =
          List.map some (fc.block.names ++ [name])
      rw [List.map_append, List.map_append, ← h.blocksOk fc.block (List.mem_cons_self ..)]
      congr 1
      · apply List.map_congr_left
        intro i hi
        exact hnameOld i (mem_openIdx_of_block (List.mem_cons_self ..) hi)
      · simp [nameAt, hnew]
    · rw [← h.blocksOk B (List.mem_cons_of_mem _ hB')]
      apply List.map_congr_left
      intro i hi
      exact hnameOld i (mem_openIdx_of_block (List.mem_cons_of_mem _ hB') hi)
  · intro l hl
    rw [hloc] at hl
    rcases List.mem_append.1 hl with hl | hl
    · have := h.started l hl; rw [hpc]; exact this
    · simp only [List.mem_singleton] at hl; subst hl; simp [FC.lastPC, hpc]
  · intro i l hi hno
    have hlt := lt_of_getElem? hi
    rw [hloc, List.length_append] at hlt
    simp only [List.length_singleton] at hlt
    rw [hopen] at hno
    have hne : i ≠ fc.locals.length := fun e => hno (List.mem_append.2 (Or.inr (by simp [e])))
    have hlt' : i < fc.locals.length := by omega
    rw [hold i hlt'] at hi
    rw [hpc]
    exact h.closedEnd i l hi (fun hin => hno (List.mem_append.2 (Or.inl hin)))
  · rw [hloc, List.length_append]; omega
  · exact Nat.le_refl _
  · intro i l hi
    have hlt := lt_of_getElem? hi
    refine ⟨l, by rw [hold i hlt]; exact hi, rfl, rfl, ?_, ?_⟩
    · intro hno
      refine ⟨rfl, ?_⟩
      rw [hopen]
      intro hin
      rcases List.mem_append.1 hin with hin | hin
      · exact hno hin
      · simp only [List.mem_singleton] at hin; omega
    · intro hin; left; rw [hopen]; exact List.mem_append.2 (Or.inl hin)
  · intro i l1 hi hge
    have hlt := lt_of_getElem? hi
    rw [hloc, List.length_append] at hlt
    simp only [List.length_singleton] at hlt
    have : i = fc.locals.length := by omega
    subst this
    rw [hnew] at hi
    simp only [Option.some.injEq] at hi
    subst hi
    simp [FC.lastPC]

theorem stepOK_enter {fc : FC} (h : Inv fc) : StepOK fc (enterBlock fc) := by
  apply stepOK_same (fc1 := enterBlock fc) h rfl (by simp [openIdx, enterBlock]) (Nat.le_refl _)
  intro B hB
  simp only [enterBlock, List.mem_cons] at hB
  rcases hB with rfl | rfl | hB
  · simp
  · exact h.blocksOk _ (List.mem_cons_self ..)
  · exact h.blocksOk B (List.mem_cons_of_mem _ hB)

theorem stepOK_markUp {fc : FC} (h : Inv fc) :
    StepOK fc { fc with block := { fc.block with refUpvalue := true } } := by
  apply stepOK_same (fc1 := { fc with block := { fc.block with refUpvalue := true } }) h rfl (by simp [openIdx]) (Nat.le_refl _)
  intro B hB
  simp only [List.mem_cons] at hB
  rcases hB with rfl | hB
  · exact h.blocksOk fc.block (List.mem_cons_self ..)
  · exact h.blocksOk B (List.mem_cons_of_mem _ hB)

theorem stepOK_add {fc : FC} (h : Inv fc) : StepOK fc (add fc) := by
  apply stepOK_same (fc1 := add fc) h rfl (by simp [openIdx, add]) (by simp [add])
  intro B hB
  exact h.blocksOk B hB

end GLua.Scopes

namespace GLua.Scopes
open GLua

theorem leaveBlock_ok {fc fc1 : FC} (h : Inv fc) (hs : leaveBlock .fixed fc = .ok fc1) :
    ∃ p ps pc1, fc.parents = p :: ps ∧ fc.pc ≤ pc1 ∧ fc1.block = p ∧ fc1.parents = ps ∧ fc1.pc = pc1 ∧
      fc1.locals.length = fc.locals.length ∧
      ∀ i, fc1.locals[i]? =
        (fc.locals[i]?).map (fun l => if i ∈ fc.block.dbg then closeEntry (pc1 : Int) l else l) := by
  have hbnd : ∀ i ∈ fc.block.dbg, i < fc.locals.length :=
    fun i hi => h.bound i (mem_openIdx_of_block (List.mem_cons_self ..) hi)
  -- the state EndScope runs on: `add fc` when the block captured an upvalue (CLOSE is emitted first), else `fc`
  have key : ∀ fcA : FC, fcA.locals = fc.locals → fcA.block = fc.block → fcA.parents = fc.parents → fc.pc ≤ fcA.pc →
      (do let fc2 ← endScope .fixed fcA
          match fc2.parents with
          | [] => (.error (.goPanic "LeaveBlock: nil Block") : Except Err FC)
          | p :: ps => setRegTop { fc2 with block := p, parents := ps } (p.offset + p.names.length)) = .ok fc1 →
      ∃ p ps pc1, fc.parents = p :: ps ∧ fc.pc ≤ pc1 ∧ fc1.block = p ∧ fc1.parents = ps ∧ fc1.pc = pc1 ∧
        fc1.locals.length = fc.locals.length ∧
        ∀ i, fc1.locals[i]? =
          (fc.locals[i]?).map (fun l => if i ∈ fc.block.dbg then closeEntry (pc1 : Int) l else l) := by
    intro fcA hl hb hpar hpc hrun
    obtain ⟨L1, he, hlen, hget⟩ := endScope_spec fcA (by rw [hb, hl]; exact hbnd)
    rw [he] at hrun
    simp only [bind, Except.bind] at hrun
    cases hp : fc.parents with
    | nil => rw [hpar, hp] at hrun; cases hrun
    | cons p ps =>
      rw [hpar, hp] at hrun
      simp only [setRegTop] at hrun
      split at hrun
      · cases hrun
      · simp only [Except.ok.injEq] at hrun
        subst hrun
        refine ⟨p, ps, fcA.pc, rfl, hpc, rfl, rfl, rfl, by simp [hlen, hl], ?_⟩
        intro i
        simp only
        rw [hget i, hl, hb]
  unfold leaveBlock at hs
  by_cases hr : fc.block.refUpvalue = true
  · by_cases hnil : fc.parents = []
    · simp [hr, hnil, bind, Except.bind] at hs
    · obtain ⟨p, ps, hp⟩ := List.exists_cons_of_ne_nil hnil
      simp only [hr, if_true] at hs
      rw [hp] at hs
      exact key (add fc) rfl rfl rfl (by simp [add]) hs
  · simp only [hr, Bool.false_eq_true, if_false] at hs
    exact key fc rfl rfl rfl (Nat.le_refl _) hs

theorem openIdx_leave {fc fc1 : FC} {p : Block} {ps : List Block} (hp : fc.parents = p :: ps)
    (hb : fc1.block = p) (hps : fc1.parents = ps) : openIdx fc = openIdx fc1 ++ fc.block.dbg := by
  simp [openIdx, hp, hb, hps]

theorem stepOK_leave {fc fc1 : FC} (h : Inv fc) (hs : leaveBlock .fixed fc = .ok fc1) : StepOK fc fc1 := by
  obtain ⟨p, ps, pc1, hp, hpc, hb, hps, hpc1, hlen, hget⟩ := leaveBlock_ok h hs
  have hopen := openIdx_leave hp hb hps
  have hsub : ∀ i, i ∈ openIdx fc1 → i ∈ openIdx fc := by
    intro i hi; rw [hopen]; exact List.mem_append.2 (Or.inl hi)
  have hsorted := h.sorted
  rw [hopen] at hsorted
  have hdisj : ∀ i, i ∈ openIdx fc1 → i ∉ fc.block.dbg := by
    intro i hi hd
    have := (List.pairwise_append.1 hsorted).2.2 i hi i hd
    omega
  have hname : ∀ i, nameAt fc1.locals i = nameAt fc.locals i := by
    intro i
    unfold nameAt
    rw [hget i]
    cases fc.locals[i]? with
    | none => rfl
    | some l => by_cases hd : i ∈ fc.block.dbg <;> simp [hd, closeEntry]
  refine ⟨⟨(List.pairwise_append.1 hsorted).1, ?_, ?_, ?_, ?_⟩, by omega, by omega, ?_, ?_⟩
  · intro i hi; rw [hlen]; exact h.bound i (hsub i hi)
  · intro B hB
    have hB' : B ∈ fc.block :: fc.parents := by
      rw [hb, hps] at hB; rw [hp]; exact List.mem_cons_of_mem _ hB
    rw [← h.blocksOk B hB']
    apply List.map_congr_left
    intro i _; exact hname i
  · intro l hl
    obtain ⟨i, hi, rfl⟩ := List.getElem_of_mem hl
    have hq : fc1.locals[i]? = some fc1.locals[i] := List.getElem?_eq_getElem hi
    rw [hget i] at hq
    cases hf : fc.locals[i]? with
    | none => rw [hf] at hq; cases hq
    | some l0 =>
      rw [hf] at hq
      simp only [Option.map_some, Option.some.injEq] at hq
      have h0 := h.started l0 (List.mem_of_getElem? hf)
      rw [← hq]
      by_cases hd : i ∈ fc.block.dbg <;> simp [hd, closeEntry] <;> omega
  · intro i l hi hno
    rw [hget i] at hi
    cases hf : fc.locals[i]? with
    | none => rw [hf] at hi; cases hi
    | some l0 =>
      rw [hf] at hi
      simp only [Option.map_some, Option.some.injEq] at hi
      by_cases hd : i ∈ fc.block.dbg
      · simp only [hd, if_true] at hi; rw [← hi]; simp [closeEntry]; omega
      · simp only [hd, if_false] at hi
        have hno' : i ∉ openIdx fc := by
          rw [hopen]; intro hin
          rcases List.mem_append.1 hin with hin | hin
          · exact hno hin
          · exact hd hin
        have := h.closedEnd i l0 hf hno'
        rw [← hi]; omega
  · intro i l hi
    refine ⟨if i ∈ fc.block.dbg then closeEntry (pc1 : Int) l else l, by rw [hget i, hi]; rfl, ?_, ?_, ?_, ?_⟩
    · by_cases hd : i ∈ fc.block.dbg <;> simp [hd, closeEntry]
    · by_cases hd : i ∈ fc.block.dbg <;> simp [hd, closeEntry]
    · intro hno
      have hd : i ∉ fc.block.dbg := fun hd => hno (by rw [hopen]; exact List.mem_append.2 (Or.inr hd))
      exact ⟨by simp [hd], fun hin => hno (hsub i hin)⟩
    · intro hin
      rw [hopen] at hin
      rcases List.mem_append.1 hin with hin | hin
      · exact Or.inl hin
      · right
        refine ⟨fun h1 => hdisj i h1 hin, ?_⟩
        simp [hin, closeEntry]; omega
  · intro i l1 hi hge
    have := lt_of_getElem? hi
    omega

end GLua.Scopes
