/-
  C17 lemmas, part 4: the pc ranges of the finished debug table are nested or disjoint (repaired code).
-/
import GLua.Proofs.ScopesRun

namespace GLua.Scopes
open GLua

structure Lam (fc : FC) : Prop where
  mono : (fc.locals.map (·.startPc)).Pairwise (· ≤ ·)
  lam : ∀ i j li lj, i < j → fc.locals[i]? = some li → fc.locals[j]? = some lj → i ∉ openIdx fc →
          (lj.endPc ≤ li.endPc ∧ j ∉ openIdx fc) ∨ li.endPc ≤ lj.startPc

theorem lam_init : Lam {} := ⟨by simp, by intro i j li lj _ h; simp at h⟩

theorem lam_same {fc fc1 : FC} (h : Lam fc) (hl : fc1.locals = fc.locals) (ho : openIdx fc1 = openIdx fc) : Lam fc1 :=
  ⟨by rw [hl]; exact h.mono, by rw [hl, ho]; exact h.lam⟩

theorem lam_declare {fc : FC} (name : String) (hi : Inv fc) (h : Lam fc) : Lam (declFC fc name) := by
  have hopen := openIdx_decl fc name
  have hloc : (declFC fc name).locals = fc.locals ++ [{ name := name, startPc := fc.lastPC + 1 }] := rfl
  refine ⟨?_, ?_⟩
  · rw [hloc, List.map_append]
    apply List.pairwise_append.2
    refine ⟨h.mono, by simp, ?_⟩
    intro a ha b hb
    simp only [List.map_cons, List.map_nil, List.mem_singleton] at hb
    obtain ⟨l, hl, rfl⟩ := List.mem_map.1 ha
    have := hi.started l hl
    subst hb
    simp [FC.lastPC]; omega
  · intro i j li lj hij h1 h2 hno
    rw [hopen] at hno
    have hnoOld : i ∉ openIdx fc := fun hin => hno (List.mem_append.2 (Or.inl hin))
    have hjlt := lt_of_getElem? h2
    rw [hloc, List.length_append] at hjlt
    simp only [List.length_singleton] at hjlt
    have hilt : i < fc.locals.length := by omega
    rw [hloc, List.getElem?_append_left hilt] at h1
    by_cases hj : j < fc.locals.length
    · rw [hloc, List.getElem?_append_left hj] at h2
      rcases h.lam i j li lj hij h1 h2 hnoOld with ⟨ha, hb⟩ | hc
      · left; refine ⟨ha, ?_⟩
        rw [hopen]; intro hin
        rcases List.mem_append.1 hin with hin | hin
        · exact hb hin
        · simp only [List.mem_singleton] at hin; omega
      · right; exact hc
    · have hje : j = fc.locals.length := by omega
      subst hje
      rw [hloc, List.getElem?_append_right (Nat.le_refl _)] at h2
      simp only [Nat.sub_self, List.getElem?_cons_zero, Option.some.injEq] at h2
      subst h2
      right
      have := hi.closedEnd i li h1 hnoOld
      simp [FC.lastPC]; omega

theorem lam_leave {fc fc1 : FC} (hi : Inv fc) (h : Lam fc) (hs : leaveBlock .fixed fc = .ok fc1) : Lam fc1 := by
  obtain ⟨p, ps, pc1, hp, hpc, hb, hps, hpc1, hlen, hget⟩ := leaveBlock_ok hi hs
  have hopen := openIdx_leave hp hb hps
  have hsorted := hi.sorted
  rw [hopen] at hsorted
  have hsep := (List.pairwise_append.1 hsorted).2.2
  refine ⟨?_, ?_⟩
  · have : fc1.locals.map (·.startPc) = fc.locals.map (·.startPc) := by
      apply List.ext_getElem?
      intro i
      simp only [List.getElem?_map, hget i]
      cases fc.locals[i]? with
      | none => rfl
      | some l => by_cases hd : i ∈ fc.block.dbg <;> simp [hd, closeEntry]
    rw [this]; exact h.mono
  · intro i j li lj hij h1 h2 hno
    rw [hget i] at h1
    rw [hget j] at h2
    cases hfi : fc.locals[i]? with
    | none => rw [hfi] at h1; cases h1
    | some li0 =>
    cases hfj : fc.locals[j]? with
    | none => rw [hfj] at h2; cases h2
    | some lj0 =>
      rw [hfi] at h1; rw [hfj] at h2
      simp only [Option.map_some, Option.some.injEq] at h1 h2
      by_cases hdi : i ∈ fc.block.dbg
      · simp only [hdi, if_true] at h1
        by_cases hdj : j ∈ fc.block.dbg
        · simp only [hdj, if_true] at h2
          left
          refine ⟨by rw [← h1, ← h2]; simp [closeEntry], ?_⟩
          intro hin; have := hsep j hin j hdj; omega
        · simp only [hdj, if_false] at h2
          have hjno1 : j ∉ openIdx fc1 := by
            intro hin; have := hsep j hin i hdi; omega
          have hjno : j ∉ openIdx fc := by
            rw [hopen]; intro hin
            rcases List.mem_append.1 hin with hin | hin
            · exact hjno1 hin
            · exact hdj hin
          left
          have := hi.closedEnd j lj0 hfj hjno
          refine ⟨by rw [← h1, ← h2]; simp [closeEntry]; omega, hjno1⟩
      · simp only [hdi, if_false] at h1
        have hino : i ∉ openIdx fc := by
          rw [hopen]; intro hin
          rcases List.mem_append.1 hin with hin | hin
          · exact hno hin
          · exact hdi hin
        rcases h.lam i j li0 lj0 hij hfi hfj hino with ⟨ha, hbb⟩ | hc
        · have hdj : j ∉ fc.block.dbg := fun hd => hbb (by rw [hopen]; exact List.mem_append.2 (Or.inr hd))
          simp only [hdj, if_false] at h2
          left
          refine ⟨by rw [← h1, ← h2]; exact ha, ?_⟩
          intro hin; exact hbb (by rw [hopen]; exact List.mem_append.2 (Or.inl hin))
        · right
          rw [← h1, ← h2]
          by_cases hdj : j ∈ fc.block.dbg <;> simp [hdj, closeEntry] <;> exact hc

theorem stepOp_lam {t t1 : Trace} {op : Op} (hi : Inv t.fc) (h : Lam t.fc) (hs : stepOp .fixed t op = .ok t1) :
    Lam t1.fc := by
  cases op with
  | declare n =>
    simp only [stepOp] at hs
    cases hq : registerLocalVar t.fc n with
    | error e => rw [hq] at hs; cases hs
    | ok pr =>
      obtain ⟨f, rg⟩ := pr
      rw [hq] at hs
      simp only [Except.map, Except.ok.injEq] at hs
      subst hs
      obtain ⟨hf, _⟩ := registerLocalVar_ok hq
      subst hf
      exact lam_declare n hi h
  | enter =>
    simp only [stepOp, Except.ok.injEq] at hs
    subst hs
    exact lam_same h rfl (by simp [openIdx, enterBlock])
  | leave =>
    simp only [stepOp] at hs
    cases hq : leaveBlock .fixed t.fc with
    | error e => rw [hq] at hs; cases hs
    | ok f =>
      rw [hq] at hs
      simp only [Except.map, Except.ok.injEq] at hs
      subst hs
      exact lam_leave hi h hq
  | markUp =>
    simp only [stepOp, Except.ok.injEq] at hs
    subst hs
    exact lam_same h rfl (by simp [openIdx])
  | instr =>
    simp only [stepOp, Except.ok.injEq] at hs
    subst hs
    exact lam_same h rfl (by simp [openIdx, add])

theorem finish_laminar {t tf : Trace} (hi : Inv t.fc) (h : Lam t.fc) (hp : t.fc.parents = [])
    (hs : finish .fixed t = .ok tf) : Laminar tf.fc.locals := by
  unfold finish at hs
  have hb : ∀ i ∈ (add t.fc).block.dbg, i < (add t.fc).locals.length :=
    fun i hi' => hi.bound i (mem_openIdx_of_block (List.mem_cons_self ..) hi')
  obtain ⟨L1, he, hlen, hget⟩ := endScope_spec (add t.fc) hb
  rw [he] at hs
  simp only [Except.map, Except.ok.injEq] at hs
  subst hs
  have hopen : openIdx t.fc = t.fc.block.dbg := by simp [openIdx, hp]
  show Laminar L1
  unfold Laminar
  rw [List.pairwise_iff_getElem]
  intro i j hi' hj' hij
  have hq1 : L1[i]? = some L1[i] := List.getElem?_eq_getElem hi'
  have hq2 : L1[j]? = some L1[j] := List.getElem?_eq_getElem hj'
  rw [hget i] at hq1
  rw [hget j] at hq2
  have hLi : i < t.fc.locals.length := by rw [hlen] at hi'; exact hi'
  have hLj : j < t.fc.locals.length := by rw [hlen] at hj'; exact hj'
  have hfi : (add t.fc).locals[i]? = some t.fc.locals[i] := List.getElem?_eq_getElem hLi
  have hfj : (add t.fc).locals[j]? = some t.fc.locals[j] := List.getElem?_eq_getElem hLj
  rw [hfi] at hq1; rw [hfj] at hq2
  simp only [Option.map_some, Option.some.injEq] at hq1 hq2
  have hmono : t.fc.locals[i].startPc ≤ t.fc.locals[j].startPc := by
    have := (List.pairwise_iff_getElem.1 h.mono) i j (by simpa using hLi) (by simpa using hLj) hij
    simpa using this
  have hdbg : (add t.fc).block.dbg = t.fc.block.dbg := rfl
  have hpc : ((add t.fc).pc : Int) = (t.fc.pc : Int) + 1 := by simp [add]
  rw [hdbg, hpc] at hq1 hq2
  constructor
  · rw [← hq1, ← hq2]
    by_cases hdi : i ∈ t.fc.block.dbg <;> by_cases hdj : j ∈ t.fc.block.dbg <;> simp [hdi, hdj, closeEntry] <;> exact hmono
  · by_cases hdi : i ∈ t.fc.block.dbg
    · left
      rw [← hq1, ← hq2]
      by_cases hdj : j ∈ t.fc.block.dbg
      · simp [hdi, hdj, closeEntry]
      · have := hi.closedEnd j _ (List.getElem?_eq_getElem hLj) (by rw [hopen]; exact hdj)
        simp [hdi, hdj, closeEntry]; omega
    · have hino : i ∉ openIdx t.fc := by rw [hopen]; exact hdi
      rcases h.lam i j _ _ hij (List.getElem?_eq_getElem hLi) (List.getElem?_eq_getElem hLj) hino with ⟨ha, hbb⟩ | hc
      · left
        have hdj : j ∉ t.fc.block.dbg := by rw [← hopen]; exact hbb
        rw [← hq1, ← hq2]
        simp [hdi, hdj]; exact ha
      · right
        rw [← hq1, ← hq2]
        by_cases hdj : j ∈ t.fc.block.dbg <;> simp [hdi, hdj, closeEntry] <;> exact hc

theorem run_laminar : ∀ (ops : List Op) (t tf : Trace), Inv t.fc → Lam t.fc →
    ScopeSpec.balancedAux t.fc.parents.length (specEvs ops) = true → runFrom t ops = .ok tf →
    Laminar tf.fc.locals := by
  intro ops
  induction ops with
  | nil =>
    intro t tf h hl hbal hrun
    rw [runFrom_nil] at hrun
    have hp : t.fc.parents = [] := by
      cases hq : t.fc.parents with
      | nil => rfl
      | cons a b => rw [hq] at hbal; simp [specEvs, ScopeSpec.balancedAux] at hbal
    exact finish_laminar h hl hp hrun
  | cons op r ih =>
    intro t tf h hl hbal hrun
    rw [runFrom_cons] at hrun
    cases hs : stepOp .fixed t op with
    | error e => rw [hs] at hrun; cases hrun
    | ok t1 =>
      rw [hs] at hrun
      obtain ⟨hstep, hbal1, _, _, _⟩ := stepOp_ok r h hs hbal
      exact ih t1 tf hstep.inv (stepOp_lam h hl hs) hbal1 hrun

/-- **local_scopes_laminar** for the repaired code. -/
theorem laminar_fixed (ops : List Op) (ls : List DbgLocalInfo)
    (hwn : ScopeSpec.wellNested (specEvs ops) = true) (hc : dbgLocalsOf .fixed ops = .ok ls) : Laminar ls := by
  unfold dbgLocalsOf at hc
  cases hq : compileOps .fixed ops with
  | error e => rw [hq] at hc; cases hc
  | ok t =>
    rw [hq] at hc
    simp only [Except.map, Except.ok.injEq] at hc
    subst hc
    rw [compileOps_eq] at hq
    exact run_laminar ops {} t inv_init lam_init hwn hq

end GLua.Scopes
