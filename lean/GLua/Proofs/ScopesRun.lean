/-
  C17 lemmas, part 3: whole runs of the compile model (repaired code): the finished debug table relative to any
  intermediate state (`Fut`), and the simulation of the Spec.
-/
import GLua.Proofs.ScopesInv

namespace GLua.Scopes
open GLua

def runFrom (t : Trace) (ops : List Op) : Except Err Trace := (ops.foldlM (stepOp .fixed) t) >>= finish .fixed

theorem runFrom_nil (t : Trace) : runFrom t [] = finish .fixed t := by
  simp [runFrom, pure, Except.pure, bind, Except.bind]

theorem runFrom_cons (t : Trace) (op : Op) (r : List Op) :
    runFrom t (op :: r) = (stepOp .fixed t op >>= fun t1 => runFrom t1 r) := by
  simp only [runFrom, List.foldlM_cons, bind_assoc]

theorem compileOps_eq (ops : List Op) : compileOps .fixed ops = runFrom {} ops := rfl

/-- the finished table `Lf` as seen from an intermediate state -/
structure Fut (fc : FC) (Lf : List DbgLocalInfo) : Prop where
  len : fc.locals.length ≤ Lf.length
  old : ∀ i l, fc.locals[i]? = some l → ∃ l', Lf[i]? = some l' ∧ l'.name = l.name ∧ l'.startPc = l.startPc ∧
        (i ∉ openIdx fc → l' = l) ∧ (i ∈ openIdx fc → (fc.pc : Int) ≤ l'.endPc)
  new : ∀ i l', Lf[i]? = some l' → fc.locals.length ≤ i → (fc.pc : Int) ≤ l'.startPc

theorem fut_step {fc fc1 : FC} {Lf : List DbgLocalInfo} (hs : StepOK fc fc1) (hf : Fut fc1 Lf) : Fut fc Lf := by
  refine ⟨Nat.le_trans hs.len hf.len, ?_, ?_⟩
  · intro i l hi
    obtain ⟨l1, h1, hn1, hs1, hc1, ho1⟩ := hs.old i l hi
    obtain ⟨l', h2, hn2, hs2, hc2, ho2⟩ := hf.old i l1 h1
    refine ⟨l', h2, by rw [hn2, hn1], by rw [hs2, hs1], ?_, ?_⟩
    · intro hno
      obtain ⟨e1, hno1⟩ := hc1 hno
      rw [hc2 hno1, e1]
    · intro hin
      rcases ho1 hin with hin1 | ⟨hno1, hle⟩
      · have := ho2 hin1
        have := hs.pcMono
        omega
      · rw [hc2 hno1]; exact hle
  · intro i l' hi hge
    by_cases hlt : fc1.locals.length ≤ i
    · have := hf.new i l' hi hlt
      have := hs.pcMono
      omega
    · have hlt' : i < fc1.locals.length := by omega
      have hq : fc1.locals[i]? = some fc1.locals[i] := List.getElem?_eq_getElem hlt'
      obtain ⟨l2, h2, _, hs2, _, _⟩ := hf.old i _ hq
      rw [hi] at h2
      simp only [Option.some.injEq] at h2
      subst h2
      rw [hs2]
      exact hs.new i _ hq hge

theorem finish_ok {t tf : Trace} (h : Inv t.fc) (hp : t.fc.parents = []) (hs : finish .fixed t = .ok tf) :
    Fut t.fc tf.fc.locals ∧ tf.ipcs = t.ipcs := by
  unfold finish at hs
  have hb : ∀ i ∈ (add t.fc).block.dbg, i < (add t.fc).locals.length :=
    fun i hi => h.bound i (mem_openIdx_of_block (List.mem_cons_self ..) hi)
  obtain ⟨L1, he, hlen, hget⟩ := endScope_spec (add t.fc) hb
  rw [he] at hs
  simp only [Except.map, Except.ok.injEq] at hs
  subst hs
  have hopen : openIdx t.fc = t.fc.block.dbg := by simp [openIdx, hp]
  refine ⟨⟨by simp [hlen, add], ?_, ?_⟩, rfl⟩
  · intro i l hi
    have hi' : (add t.fc).locals[i]? = some l := hi
    refine ⟨if i ∈ t.fc.block.dbg then closeEntry ((add t.fc).pc : Int) l else l, ?_, ?_, ?_, ?_, ?_⟩
    · show L1[i]? = _
      rw [hget i, hi']; rfl
    · by_cases hd : i ∈ t.fc.block.dbg <;> simp [hd, closeEntry]
    · by_cases hd : i ∈ t.fc.block.dbg <;> simp [hd, closeEntry]
    · intro hno; rw [hopen] at hno; simp [hno]
    · intro hin; rw [hopen] at hin; simp [hin, closeEntry, add]; omega
  · intro i l' hi hge
    have hi' : L1[i]? = some l' := hi
    have := lt_of_getElem? hi'
    have hl : (add t.fc).locals.length = t.fc.locals.length := rfl
    omega

/-! ### bookkeeping of block depth and of the Spec state along a step -/

theorem specEvs_cons (op : Op) (r : List Op) : specEvs (op :: r) = toSpecEv op ++ specEvs r := by
  simp [specEvs]

def relS (fc : FC) : ScopeSpec.Scopes := (fc.block :: fc.parents).map (·.names)

theorem inScope_relS (fc : FC) : ScopeSpec.inScope (relS fc) = openNames fc := by
  simp [ScopeSpec.inScope, relS, openNames]

theorem bal_declare (d : Nat) (n : String) (r : List ScopeSpec.Ev) :
    ScopeSpec.balancedAux d (.declare n :: r) = ScopeSpec.balancedAux d r := by
  cases d <;> rfl
theorem bal_instr (d : Nat) (r : List ScopeSpec.Ev) :
    ScopeSpec.balancedAux d (.instr :: r) = ScopeSpec.balancedAux d r := by
  cases d <;> rfl
theorem bal_begin (d : Nat) (r : List ScopeSpec.Ev) :
    ScopeSpec.balancedAux d (.begin :: r) = ScopeSpec.balancedAux (d + 1) r := by
  cases d <;> rfl

/-- everything a successful step gives: step facts, depth bookkeeping, Spec state, recorded instruction pcs -/
theorem stepOp_ok {t t1 : Trace} {op : Op} (r : List Op) (h : Inv t.fc) (hs : stepOp .fixed t op = .ok t1)
    (hbal : ScopeSpec.balancedAux t.fc.parents.length (specEvs (op :: r)) = true) :
    StepOK t.fc t1.fc ∧ ScopeSpec.balancedAux t1.fc.parents.length (specEvs r) = true ∧
    relS t1.fc = (toSpecEv op).foldl ScopeSpec.step (relS t.fc) ∧
    t1.ipcs = t.ipcs ++ (if op = .instr then [(t.fc.pc : Int)] else []) ∧
    (op = .instr → t1.fc = add t.fc) := by
  rw [specEvs_cons] at hbal
  cases op with
  | declare n =>
    simp only [stepOp] at hs
    cases hq : registerLocalVar t.fc n with
    | error e => rw [hq] at hs; cases hs
    | ok pr =>
      obtain ⟨f, rg⟩ := pr
      rw [hq] at hs
      simp only [Except.map, Except.ok.injEq] at hs
      subst hs
      obtain ⟨hf, _⟩ := registerLocalVar_ok hq
      subst hf
      refine ⟨stepOK_declare n h, ?_, ?_, by simp, by intro hh; cases hh⟩
      · simpa [toSpecEv, bal_declare, declFC] using hbal
      · simp [relS, toSpecEv, ScopeSpec.step, declFC]
  | enter =>
    simp only [stepOp, Except.ok.injEq] at hs
    subst hs
    refine ⟨stepOK_enter h, ?_, ?_, by simp, by intro hh; cases hh⟩
    · simpa [toSpecEv, bal_begin, enterBlock] using hbal
    · simp [relS, toSpecEv, ScopeSpec.step, enterBlock]
  | leave =>
    simp only [stepOp] at hs
    cases hq : leaveBlock .fixed t.fc with
    | error e => rw [hq] at hs; cases hs
    | ok f =>
      rw [hq] at hs
      simp only [Except.map, Except.ok.injEq] at hs
      subst hs
      obtain ⟨p, ps, pc1, hp, _, hb, hps, _, _, _⟩ := leaveBlock_ok h hq
      refine ⟨stepOK_leave h hq, ?_, ?_, by simp, by intro hh; cases hh⟩
      · simp only [toSpecEv, List.cons_append, List.nil_append, hp, List.length_cons] at hbal
        simp only [hps]
        exact hbal
      · simp [relS, toSpecEv, ScopeSpec.step, hp, hb, hps]
  | markUp =>
    simp only [stepOp, Except.ok.injEq] at hs
    subst hs
    refine ⟨stepOK_markUp h, ?_, ?_, by simp, by intro hh; cases hh⟩
    · simpa [toSpecEv] using hbal
    · simp [relS, toSpecEv]
  | instr =>
    simp only [stepOp, Except.ok.injEq] at hs
    subst hs
    refine ⟨stepOK_add h, ?_, ?_, by simp [FC.lastPC, add], fun _ => rfl⟩
    · simpa [toSpecEv, bal_instr, add] using hbal
    · simp [relS, toSpecEv, ScopeSpec.step, add]

/-- **the finished table from any reachable state**: closed entries never change, open entries end later,
    later declarations start later. -/
theorem run_fut : ∀ (ops : List Op) (t tf : Trace), Inv t.fc →
    ScopeSpec.balancedAux t.fc.parents.length (specEvs ops) = true → runFrom t ops = .ok tf →
    Fut t.fc tf.fc.locals := by
  intro ops
  induction ops with
  | nil =>
    intro t tf h hbal hrun
    rw [runFrom_nil] at hrun
    have hp : t.fc.parents = [] := by
      cases hq : t.fc.parents with
      | nil => rfl
      | cons a b => rw [hq] at hbal; simp [specEvs, ScopeSpec.balancedAux] at hbal
    exact (finish_ok h hp hrun).1
  | cons op r ih =>
    intro t tf h hbal hrun
    rw [runFrom_cons] at hrun
    cases hs : stepOp .fixed t op with
    | error e => rw [hs] at hrun; cases hrun
    | ok t1 =>
      rw [hs] at hrun
      obtain ⟨hstep, hbal1, _, _, _⟩ := stepOp_ok r h hs hbal
      exact fut_step hstep (ih t1 tf hstep.inv hbal1 hrun)

end GLua.Scopes

namespace GLua.Scopes
open GLua

theorem filterMap_of_map_some {α β : Type} (f : α → Option β) :
    ∀ (l : List α) (ys : List β), l.map f = ys.map some → l.filterMap f = ys := by
  intro l
  induction l with
  | nil => intro ys h; cases ys with
    | nil => rfl
    | cons y r => simp at h
  | cons a r ih =>
    intro ys h
    cases ys with
    | nil => simp at h
    | cons y r' =>
      simp only [List.map_cons, List.cons.injEq] at h
      simp only [List.filterMap_cons, h.1]
      rw [ih r' h.2]

/-- at an instruction with pc `p` the sweep on the FINISHED table sees exactly the locals open at that time -/
theorem visible_at_instr {fc : FC} {Lf : List DbgLocalInfo} (h : Inv fc) (hf : Fut (add fc) Lf) :
    visible Lf (fc.pc : Int) = openNames fc := by
  have hL : (add fc).locals = fc.locals := rfl
  have hO : openIdx (add fc) = openIdx fc := by simp [openIdx, add]
  have hP : ((add fc).pc : Int) = (fc.pc : Int) + 1 := by simp [add]
  have hlen : fc.locals.length ≤ Lf.length := hf.len
  -- final entry at an old position
  have hold : ∀ i (hi : i < fc.locals.length), ∃ l', Lf[i]? = some l' ∧ l'.name = fc.locals[i].name ∧
      l'.startPc = fc.locals[i].startPc ∧ (i ∉ openIdx fc → l' = fc.locals[i]) ∧
      (i ∈ openIdx fc → (fc.pc : Int) + 1 ≤ l'.endPc) := by
    intro i hi
    have hq : (add fc).locals[i]? = some fc.locals[i] := by rw [hL]; exact List.getElem?_eq_getElem hi
    obtain ⟨l', h1, h2, h3, h4, h5⟩ := hf.old i _ hq
    rw [hO] at h4 h5
    rw [hP] at h5
    exact ⟨l', h1, h2, h3, h4, h5⟩
  rw [← List.take_append_drop fc.locals.length Lf]
  rw [visible_append]
  · -- the filter picks the open positions
    have hpick := filter_eq_pick (fun l : DbgLocalInfo => decide ((fc.pc : Int) < l.endPc)) (Lf.take fc.locals.length) 0
      (openIdx fc) h.sorted
      (by intro i hi; have := h.bound i hi; simp only [List.length_take]; omega)
      (by
        intro j hj
        simp only [List.length_take] at hj
        have hj' : j < fc.locals.length := by omega
        obtain ⟨l', h1, _, _, h4, h5⟩ := hold j hj'
        have hlt : j < Lf.length := by omega
        have he : (Lf.take fc.locals.length)[j]'(by simp only [List.length_take]; omega) = l' := by
          rw [List.getElem_take]
          rw [List.getElem?_eq_getElem hlt] at h1
          exact Option.some.inj h1
        rw [he]
        simp only [decide_eq_true_eq, Nat.zero_add]
        constructor
        · intro hlt'
          apply Classical.byContradiction
          intro hno
          have := h4 hno
          have hc := h.closedEnd j fc.locals[j] (List.getElem?_eq_getElem hj') hno
          rw [this] at hlt'
          omega
        · intro hin
          have := h5 hin
          omega)
    rw [hpick, List.map_filterMap]
    apply filterMap_of_map_some
    rw [← openNames_eq fc h]
    apply List.map_congr_left
    intro i hi
    have hi' := h.bound i hi
    obtain ⟨l', h1, h2, _, _, _⟩ := hold i hi'
    simp only [Nat.sub_zero, nameAt]
    rw [List.getElem?_take]
    simp only [hi', if_true, h1, List.getElem?_eq_getElem hi', Option.map_some, h2]
  · intro l' hl'
    obtain ⟨i, hi⟩ := List.mem_iff_getElem?.1 hl'
    rw [List.getElem?_take] at hi
    by_cases hlt : i < fc.locals.length
    · simp only [hlt, if_true] at hi
      obtain ⟨l2, h1, _, h3, _, _⟩ := hold i hlt
      rw [hi] at h1
      simp only [Option.some.injEq] at h1
      subst h1
      rw [h3]
      exact h.started _ (List.getElem_mem hlt)
    · simp [hlt] at hi
  · intro l' hl'
    obtain ⟨i, hi⟩ := List.mem_iff_getElem?.1 hl'
    rw [List.getElem?_drop] at hi
    have := hf.new _ l' hi (by rw [hL]; omega)
    omega

theorem scopesAux_notInstr (s : ScopeSpec.Scopes) (e : ScopeSpec.Ev) (r : List ScopeSpec.Ev) (he : e ≠ .instr) :
    ScopeSpec.scopesAux s (e :: r) = ScopeSpec.scopesAux (ScopeSpec.step s e) r := by
  cases e with
  | instr => exact absurd rfl he
  | declare n => rfl
  | begin => rfl
  | «end» => rfl

/-- simulation: the instructions of the rest of the body see, on the finished table, what the Spec says -/
theorem run_sim : ∀ (ops : List Op) (t tf : Trace), Inv t.fc →
    ScopeSpec.balancedAux t.fc.parents.length (specEvs ops) = true → runFrom t ops = .ok tf →
    ∃ newpcs, tf.ipcs = t.ipcs ++ newpcs ∧
      newpcs.map (visible tf.fc.locals) = ScopeSpec.scopesAux (relS t.fc) (specEvs ops) := by
  intro ops
  induction ops with
  | nil =>
    intro t tf h hbal hrun
    rw [runFrom_nil] at hrun
    have hp : t.fc.parents = [] := by
      cases hq : t.fc.parents with
      | nil => rfl
      | cons a b => rw [hq] at hbal; simp [specEvs, ScopeSpec.balancedAux] at hbal
    exact ⟨[], by simp [(finish_ok h hp hrun).2], by simp [specEvs, ScopeSpec.scopesAux]⟩
  | cons op r ih =>
    intro t tf h hbal hrun
    have hrun0 := hrun
    rw [runFrom_cons] at hrun
    cases hs : stepOp .fixed t op with
    | error e => rw [hs] at hrun; cases hrun
    | ok t1 =>
      rw [hs] at hrun
      obtain ⟨hstep, hbal1, hrel, hipcs, hinstr⟩ := stepOp_ok r h hs hbal
      obtain ⟨new1, hn1, hn2⟩ := ih t1 tf hstep.inv hbal1 hrun
      rw [specEvs_cons]
      by_cases hop : op = .instr
      · subst hop
        simp only [if_true] at hipcs
        refine ⟨(t.fc.pc : Int) :: new1, by rw [hn1, hipcs]; simp, ?_⟩
        have hfut := run_fut r t1 tf hstep.inv hbal1 hrun
        rw [hinstr rfl] at hfut
        simp only [toSpecEv, List.cons_append, List.nil_append, ScopeSpec.scopesAux, List.map_cons]
        rw [visible_at_instr h hfut, inScope_relS, hn2, hrel]
        simp [toSpecEv, ScopeSpec.step]
      · simp only [hop, if_false, List.append_nil] at hipcs
        refine ⟨new1, by rw [hn1, hipcs], ?_⟩
        rw [hn2, hrel]
        cases op with
        | instr => exact absurd rfl hop
        | declare n => simp [toSpecEv, scopesAux_notInstr]
        | enter => simp [toSpecEv, scopesAux_notInstr]
        | leave => simp [toSpecEv, scopesAux_notInstr]
        | markUp => simp [toSpecEv]

/-- **localname_enumerates_scope** for the repaired code. -/
theorem enumeratesScope_fixed : EnumeratesScope .fixed := by
  intro ops t hwn hc
  rw [compileOps_eq] at hc
  obtain ⟨newpcs, h1, h2⟩ := run_sim ops {} t inv_init hwn hc
  have : t.ipcs = newpcs := by simpa using h1
  rw [this]
  have he : List.map (enumLocals Cfg.fixed t.fc.locals) newpcs = List.map (visible t.fc.locals) newpcs := by
    apply List.map_congr_left
    intro p _
    exact enumLocals_fixed _ _
  rw [he, h2]
  rfl

end GLua.Scopes
