import GLua.Spec.SemStep

/-
  Facts about the reference semantics itself (used by C01, C05, C06, C11):
  determinism is by construction (`step` is a function); here: fuel monotonicity, the trace of `emit`
  calls is append-only, and a run with a fault injected at step k agrees with the fault-free run
  on every earlier step (so its side effects up to the fault are a prefix of the fault-free ones).
-/
namespace GLua.Sem

def M.traceL (m : M) : List (List SVal) := m.trace.toList

def Outcome.isOutOfFuel : Outcome → Bool
  | .outOfFuel => true
  | _ => false

/-- `iter n m`: the machine after exactly n transitions, `none` if the run ended earlier -/
def iter : Nat → M → Option M
  | 0, m => some m
  | n + 1, m => match step m with
    | .inl m' => iter n m'
    | .inr _ => none

def M.eraseFault (m : M) : M := { m with faultAt := none }

/-- one transition never removes or reorders earlier `emit`s -/
theorem step_trace_mono (m m' : M) (h : step m = .inl m') : m.traceL <+: m'.traceL := by
  sorry

/-- … hence neither does a whole run -/
theorem run_trace_mono (fuel : Nat) (m : M) : m.traceL <+: (run fuel m).1.traceL := by
  induction fuel generalizing m with
  | zero => simp [run]
  | succ n ih =>
    simp only [run]
    cases h : step m with
    | inl m' => exact (step_trace_mono m m' h).trans (ih m')
    | inr o => simp

/-- more fuel never changes a finished run -/
theorem run_mono (fuel k : Nat) (m : M) (h : (run fuel m).2.isOutOfFuel = false) :
    run (fuel + k) m = run fuel m := by
  induction fuel generalizing m with
  | zero => simp [run, Outcome.isOutOfFuel] at h
  | succ n ih =>
    have e : n + 1 + k = (n + k) + 1 := by omega
    rw [e]
    simp only [run] at h ⊢
    cases hs : step m with
    | inl m' =>
      simp only [hs] at h
      exact ih m' h
    | inr o => rfl

/-- `step` only looks at `faultAt` to decide whether to inject; before step k the faulty and the
    fault-free machine are in the same state (up to the `faultAt` field). -/
theorem fault_agrees_before (m : M) (k n : Nat) (hk : m.steps + n < k) :
    (iter n { m with faultAt := some k }).map M.eraseFault = (iter n { m with faultAt := none }).map M.eraseFault := by
  sorry

/-- the emits of a faulted run up to the fault are a prefix of the emits of the fault-free run
    (at the same step, hence — by `run_trace_mono` — of the whole fault-free run). -/
theorem fault_trace_prefix (m : M) (k n : Nat) (hk : m.steps + n < k) (mf mc : M)
    (hf : iter n { m with faultAt := some k } = some mf) (hc : iter n { m with faultAt := none } = some mc) :
    mf.traceL = mc.traceL := by
  sorry

end GLua.Sem
