import GLua.Spec.SemStep

/-
  Facts about the reference semantics itself (used by C01, C05, C06, C11):
  determinism is by construction (`step` is a function); here: fuel monotonicity, the trace of `emit`
  calls is append-only, and a run with a fault injected at step k agrees with the fault-free run
  on every earlier step (so its side effects up to the fault are a prefix of the fault-free ones).
-/
namespace GLua.Sem

def M.traceL (m : M) : List (List SVal) := m.trace.toList

def Outcome.isOutOfFuel : Outcome → Bool
  | .outOfFuel => true
  | _ => false

/-- `iter n m`: the machine after exactly n transitions, `none` if the run ended earlier -/
def iter : Nat → M → Option M
  | 0, m => some m
  | n + 1, m => match step m with
    | .inl m' => iter n m'
    | .inr _ => none

def M.eraseFault (m : M) : M := { m with faultAt := none }

/-! ### invariant of one `stepCore` transition: `steps` untouched, `trace` only extended -/

/-- what one transition may do to the observable bookkeeping: keep `steps`, extend `trace` -/
def R (m m0 : M) : Prop := m0.steps = m.steps ∧ m.trace.toList <+: m0.trace.toList

def Ext (m : M) (s : Step) : Prop := ∀ m', s = .inl m' → R m m'

theorem R.refl (m : M) : R m m := ⟨rfl, List.prefix_refl _⟩
theorem R.trans {a b c : M} (h1 : R a b) (h2 : R b c) : R a c :=
  ⟨h2.1.trans h1.1, h1.2.trans h2.2⟩

theorem Ext.trans {m m0 : M} {s : Step} (h : R m m0) (e : Ext m0 s) : Ext m s :=
  fun m' hs => h.trans (e m' hs)

@[simp] theorem Ext_inr (m : M) (o : Outcome) : Ext m (.inr o) := by intro m' h; cases h
@[simp] theorem Ext_inl (m m0 : M) : Ext m (.inl m0) ↔ R m m0 :=
  ⟨fun h => h _ rfl, fun h m' e => by cases e; exact h⟩

@[simp] theorem R_def (m m0 : M) : R m m0 ↔ (m0.steps = m.steps ∧ m.trace.toList <+: m0.trace.toList) := Iff.rfl

@[simp] theorem Ext_unspec (m : M) (w : String) : Ext m (unspec w) := by simp [unspec]
@[simp] theorem Ext_vals (m m0 : M) (vs) : Ext m (vals m0 vs) ↔ R m m0 := by simp [vals]
@[simp] theorem Ext_val1 (m m0 : M) (v) : Ext m (val1 m0 v) ↔ R m m0 := by simp [val1]
@[simp] theorem Ext_push (m m0 : M) (f c) : Ext m (push m0 f c) ↔ R m m0 := by simp [push]
@[simp] theorem Ext_goto (m m0 : M) (c) : Ext m (goto_ m0 c) ↔ R m m0 := by simp [goto_]
@[simp] theorem Ext_fault (m m0 : M) (w) : Ext m (fault m0 w) ↔ R m m0 := by simp [fault]

@[simp] theorem tset_trace (m : M) (i t) : (m.tset i t).trace = m.trace := rfl
@[simp] theorem tset_steps (m : M) (i t) : (m.tset i t).steps = m.steps := rfl
@[simp] theorem rawsetK_trace (m : M) (i k v) : (m.rawsetK i k v).trace = m.trace := rfl
@[simp] theorem rawsetK_steps (m : M) (i k v) : (m.rawsetK i k v).steps = m.steps := rfl
@[simp] theorem setCell_trace (m : M) (c v) : (m.setCell c v).trace = m.trace := rfl
@[simp] theorem setCell_steps (m : M) (c v) : (m.setCell c v).steps = m.steps := rfl
@[simp] theorem setThread_trace (m : M) (c v) : (m.setThread c v).trace = m.trace := rfl
@[simp] theorem setThread_steps (m : M) (c v) : (m.setThread c v).steps = m.steps := rfl
@[simp] theorem newTable_trace (m : M) : (m.newTable).1.trace = m.trace := rfl
@[simp] theorem newTable_steps (m : M) : (m.newTable).1.steps = m.steps := rfl
@[simp] theorem newCell_trace (m : M) (v) : (m.newCell v).1.trace = m.trace := rfl
@[simp] theorem newCell_steps (m : M) (v) : (m.newCell v).1.steps = m.steps := rfl

theorem foldl_trace {α} (f : M → α → M) (hf : ∀ m a, (f m a).trace = m.trace) (l : List α) (m : M) :
    (l.foldl f m).trace = m.trace := by
  induction l generalizing m with
  | nil => rfl
  | cons a l ih => simp [List.foldl, ih, hf]
theorem foldl_steps {α} (f : M → α → M) (hf : ∀ m a, (f m a).steps = m.steps) (l : List α) (m : M) :
    (l.foldl f m).steps = m.steps := by
  induction l generalizing m with
  | nil => rfl
  | cons a l ih => simp [List.foldl, ih, hf]

@[simp] theorem foldl_rawsetK_trace {α} (tid : Nat) (k : M → α → Key) (v : M → α → SVal) (l : List α) (m : M) :
    (l.foldl (fun m d => m.rawsetK tid (k m d) (v m d)) m).trace = m.trace :=
  foldl_trace (fun m d => m.rawsetK tid (k m d) (v m d)) (fun _ _ => rfl) l m
@[simp] theorem foldl_rawsetK_steps {α} (tid : Nat) (k : M → α → Key) (v : M → α → SVal) (l : List α) (m : M) :
    (l.foldl (fun m d => m.rawsetK tid (k m d) (v m d)) m).steps = m.steps :=
  foldl_steps (fun m d => m.rawsetK tid (k m d) (v m d)) (fun _ _ => rfl) l m

macro "ext_auto" : tactic => `(tactic| repeat' (first | split | (simp; done)))

theorem binop_ext (m : M) (op a b) : Ext m (binop m op a b) := by
  simp only [binop]
  ext_auto

@[simp] theorem Ext_binop {m m0 : M} (h : R m m0) (op a b) : Ext m (binop m0 op a b) :=
  Ext.trans h (binop_ext m0 op a b)

theorem tblNext_ext (m : M) (tid idx fs env) : Ext m (tblNext m tid idx fs env) := by
  simp only [tblNext]
  ext_auto
@[simp] theorem Ext_tblNext {m m0 : M} (h : R m m0) (tid idx fs env) : Ext m (tblNext m0 tid idx fs env) :=
  Ext.trans h (tblNext_ext m0 tid idx fs env)

theorem resume_ext (m : M) (co args wrap) : Ext m (resume m co args wrap) := by
  simp only [resume]
  ext_auto
@[simp] theorem Ext_resume {m m0 : M} (h : R m m0) (co args wrap) : Ext m (resume m0 co args wrap) :=
  Ext.trans h (resume_ext m0 co args wrap)

theorem switchToParent_ext (m : M) (st sk d) : Ext m (switchToParent m st sk d) := by
  simp only [switchToParent]
  ext_auto
@[simp] theorem Ext_switchToParent {m m0 : M} (h : R m m0) (st sk d) : Ext m (switchToParent m0 st sk d) :=
  Ext.trans h (switchToParent_ext m0 st sk d)

set_option maxRecDepth 4000 in
theorem hostCall_ext (m : M) (name args via) : Ext m (hostCall m name args via) := by
  simp only [hostCall]
  split
  all_goals ext_auto
@[simp] theorem Ext_hostCall {m m0 : M} (h : R m m0) (name args via) : Ext m (hostCall m0 name args via) :=
  Ext.trans h (hostCall_ext m0 name args via)


/-! heap helpers returning pairs / recursive ones -/

@[simp] theorem bindNames_trace (m : M) (env ns vs) : (bindNames m env ns vs).1.trace = m.trace := by
  induction ns generalizing m env vs with
  | nil => rfl
  | cons n ns ih => simp [bindNames, M.newCell, ih]
@[simp] theorem bindNames_steps (m : M) (env ns vs) : (bindNames m env ns vs).1.steps = m.steps := by
  induction ns generalizing m env vs with
  | nil => rfl
  | cons n ns ih => simp [bindNames, M.newCell, ih]

theorem bindNames_R {m : M} {env ns vs m1 e} (h : bindNames m env ns vs = (m1, e)) :
    m1.steps = m.steps ∧ m1.trace = m.trace := by
  have h1 := bindNames_steps m env ns vs
  have h2 := bindNames_trace m env ns vs
  rw [h] at h1 h2
  exact ⟨h1, h2⟩

@[simp] theorem pack_go_trace (tid : Nat) (m : M) (i vs) : (M.pack.go tid m i vs).trace = m.trace := by
  induction vs generalizing m i with
  | nil => rfl
  | cons v vs ih => simp [M.pack.go, ih]
@[simp] theorem pack_go_steps (tid : Nat) (m : M) (i vs) : (M.pack.go tid m i vs).steps = m.steps := by
  induction vs generalizing m i with
  | nil => rfl
  | cons v vs ih => simp [M.pack.go, ih]
@[simp] theorem pack_trace (m : M) (vs) : (m.pack vs).1.trace = m.trace := by
  simp [M.pack, M.newTable]
@[simp] theorem pack_steps (m : M) (vs) : (m.pack vs).1.steps = m.steps := by
  simp [M.pack, M.newTable]

theorem pack_R {m : M} {vs m1 t} (h : m.pack vs = (m1, t)) : m1.steps = m.steps ∧ m1.trace = m.trace := by
  have h1 := pack_steps m vs
  have h2 := pack_trace m vs
  rw [h] at h1 h2
  exact ⟨h1, h2⟩

@[simp] theorem put_trace (tid : Nat) (m : M) (i vs) : (stepVals.put tid m i vs).trace = m.trace := by
  induction vs generalizing m i with
  | nil => rfl
  | cons v vs ih => simp [stepVals.put, ih]
@[simp] theorem put_steps (tid : Nat) (m : M) (i vs) : (stepVals.put tid m i vs).steps = m.steps := by
  induction vs generalizing m i with
  | nil => rfl
  | cons v vs ih => simp [stepVals.put, ih]

/-- like `ext_auto`, also using the facts about `bindNames` / `pack` results named by a `split` -/
macro "ext_auto'" : tactic => `(tactic| repeat' (first
  | split
  | (simp; done)
  | (have := bindNames_R ‹bindNames _ _ _ _ = _›; simp [this]; done)))

theorem callClosure_ext (m : M) (id args fh) : Ext m (callClosure m id args fh) := by
  simp only [callClosure]
  rcases hb : bindNames m (m.clo id).env (m.clo id).params args with ⟨m1, env1⟩
  have hb' := bindNames_R hb
  simp only []
  split
  · rcases hp : m1.pack (List.drop (m.clo id).params.length args) with ⟨m2, tid⟩
    have hp' := pack_R hp
    simp [M.newCell, hb', hp']
  · simp [hb']
@[simp] theorem Ext_callClosure {m m0 : M} (h : R m m0) (id args fh) : Ext m (callClosure m0 id args fh) :=
  Ext.trans h (callClosure_ext m0 id args fh)

theorem stepExpr_ext (m : M) (e env) : Ext m (stepExpr m e env) := by
  simp only [stepExpr, M.newTable]
  ext_auto
@[simp] theorem Ext_stepExpr {m m0 : M} (h : R m m0) (e env) : Ext m (stepExpr m0 e env) :=
  Ext.trans h (stepExpr_ext m0 e env)

theorem stepStmt_ext (m : M) (s env) : Ext m (stepStmt m s env) := by
  simp only [stepStmt]
  ext_auto
@[simp] theorem Ext_stepStmt {m m0 : M} (h : R m m0) (s env) : Ext m (stepStmt m0 s env) :=
  Ext.trans h (stepStmt_ext m0 s env)

theorem stepBlock_ext (m : M) (ss env) : Ext m (stepBlock m ss env) := by
  simp only [stepBlock, M.newCell]
  ext_auto
@[simp] theorem Ext_stepBlock {m m0 : M} (h : R m m0) (ss env) : Ext m (stepBlock m0 ss env) :=
  Ext.trans h (stepBlock_ext m0 ss env)

theorem stepIndex_ext (m : M) (o k d) : Ext m (stepIndex m o k d) := by
  simp only [stepIndex]
  ext_auto
@[simp] theorem Ext_stepIndex {m m0 : M} (h : R m m0) (o k d) : Ext m (stepIndex m0 o k d) :=
  Ext.trans h (stepIndex_ext m0 o k d)

theorem stepSetIndex_ext (m : M) (o k v d) : Ext m (stepSetIndex m o k v d) := by
  simp only [stepSetIndex]
  ext_auto
@[simp] theorem Ext_stepSetIndex {m m0 : M} (h : R m m0) (o k v d) : Ext m (stepSetIndex m0 o k v d) :=
  Ext.trans h (stepSetIndex_ext m0 o k v d)

theorem stepCall_ext (m : M) (f args) : Ext m (stepCall m f args) := by
  simp only [stepCall]
  ext_auto
@[simp] theorem Ext_stepCall {m m0 : M} (h : R m m0) (f args) : Ext m (stepCall m0 f args) :=
  Ext.trans h (stepCall_ext m0 f args)

theorem stepAssignTargets_ext (m : M) (d r es env) : Ext m (stepAssignTargets m d r es env) := by
  simp only [stepAssignTargets]
  ext_auto
@[simp] theorem Ext_stepAssignTargets {m m0 : M} (h : R m m0) (d r es env) :
    Ext m (stepAssignTargets m0 d r es env) :=
  Ext.trans h (stepAssignTargets_ext m0 d r es env)

theorem stepStores_ext (m : M) (p env) : Ext m (stepStores m p env) := by
  simp only [stepStores]
  ext_auto
@[simp] theorem Ext_stepStores {m m0 : M} (h : R m m0) (p env) : Ext m (stepStores m0 p env) :=
  Ext.trans h (stepStores_ext m0 p env)

theorem startForNum_ext (m : M) (v c l s b env) : Ext m (startForNum m v c l s b env) := by
  simp only [startForNum, M.newCell]
  ext_auto
@[simp] theorem Ext_startForNum {m m0 : M} (h : R m m0) (v c l s b env) :
    Ext m (startForNum m0 v c l s b env) :=
  Ext.trans h (startForNum_ext m0 v c l s b env)

theorem stepVals_ext (m : M) (fr vs) : Ext m (stepVals m fr vs) := by
  simp only [stepVals]
  split
  all_goals ext_auto'
@[simp] theorem Ext_stepVals {m m0 : M} (h : R m m0) (fr vs) : Ext m (stepVals m0 fr vs) :=
  Ext.trans h (stepVals_ext m0 fr vs)

theorem stepDone_ext (m : M) (fr) : Ext m (stepDone m fr) := by
  simp only [stepDone]
  ext_auto
@[simp] theorem Ext_stepDone {m m0 : M} (h : R m m0) (fr) : Ext m (stepDone m0 fr) :=
  Ext.trans h (stepDone_ext m0 fr)

theorem stepBrk_ext (m : M) : Ext m (stepBrk m) := by
  simp only [stepBrk]
  ext_auto
theorem stepRetn_ext (m : M) (vs) : Ext m (stepRetn m vs) := by
  simp only [stepRetn]
  ext_auto
theorem stepGoto_ext (m : M) (l) : Ext m (stepGoto m l) := by
  simp only [stepGoto]
  ext_auto
theorem stepErr_ext (m : M) (v fl) : Ext m (stepErr m v fl) := by
  simp only [stepErr]
  ext_auto

/-- one fault-free transition keeps `steps` and only extends `trace` -/
theorem stepCore_ext (m : M) : Ext m (stepCore m) := by
  simp only [stepCore]
  split
  all_goals first
    | exact stepBrk_ext m
    | exact stepRetn_ext m _
    | exact stepGoto_ext m _
    | exact stepErr_ext m _ _
    | ext_auto

/-! ### `step` -/

theorem step_of_ne (m : M) (h : m.faultAt ≠ some (m.steps + 1)) :
    step m = reattachFault m.faultAt (stepCore { m with steps := m.steps + 1, faultAt := none }) := by
  simp [step, h]

theorem step_R (m m' : M) (h : step m = .inl m') : m'.steps = m.steps + 1 ∧ m.traceL <+: m'.traceL := by
  simp only [step] at h
  split at h
  · split at h <;> (cases h; simp [M.traceL])
  · generalize hs : stepCore _ = s at h
    cases s with
    | inl m2 =>
      have := stepCore_ext _ _ hs
      simp only [reattachFault, Sum.inl.injEq] at h
      subst h
      simpa [M.traceL] using this
    | inr o => simp [reattachFault] at h

/-- one transition never removes or reorders earlier `emit`s -/
theorem step_trace_mono (m m' : M) (h : step m = .inl m') : m.traceL <+: m'.traceL :=
  (step_R m m' h).2

/-- … hence neither does a whole run -/
theorem run_trace_mono (fuel : Nat) (m : M) : m.traceL <+: (run fuel m).1.traceL := by
  induction fuel generalizing m with
  | zero => simp [run]
  | succ n ih =>
    simp only [run]
    cases h : step m with
    | inl m' => exact (step_trace_mono m m' h).trans (ih m')
    | inr o => simp

/-- more fuel never changes a finished run -/
theorem run_mono (fuel k : Nat) (m : M) (h : (run fuel m).2.isOutOfFuel = false) :
    run (fuel + k) m = run fuel m := by
  induction fuel generalizing m with
  | zero => simp [run, Outcome.isOutOfFuel] at h
  | succ n ih =>
    have e : n + 1 + k = (n + k) + 1 := by omega
    rw [e]
    simp only [run] at h ⊢
    cases hs : step m with
    | inl m' =>
      simp only [hs] at h
      exact ih m' h
    | inr o => rfl

/-- `step` only looks at `faultAt` to decide whether to inject; before step k the faulty and the
    fault-free machine are in the same state (up to the `faultAt` field). -/
theorem fault_agrees_before (m : M) (k n : Nat) (hk : m.steps + n < k) :
    (iter n { m with faultAt := some k }).map M.eraseFault = (iter n { m with faultAt := none }).map M.eraseFault := by
  induction n generalizing m with
  | zero => rfl
  | succ n ih =>
    have h1 : ({ m with faultAt := some k } : M).faultAt ≠ some (({ m with faultAt := some k } : M).steps + 1) := by
      simp only [ne_eq, Option.some.injEq]; omega
    have h2 : ({ m with faultAt := none } : M).faultAt ≠ some (({ m with faultAt := none } : M).steps + 1) := by
      simp
    simp only [iter, step_of_ne _ h1, step_of_ne _ h2]
    cases hs : stepCore { m with steps := m.steps + 1, faultAt := none } with
    | inr o => rfl
    | inl m2 =>
      have hR := stepCore_ext _ _ hs
      simp only [reattachFault]
      apply ih m2
      have : m2.steps = m.steps + 1 := hR.1
      omega

/-- the emits of a faulted run up to the fault are a prefix of the emits of the fault-free run
    (at the same step, hence — by `run_trace_mono` — of the whole fault-free run). -/
theorem fault_trace_prefix (m : M) (k n : Nat) (hk : m.steps + n < k) (mf mc : M)
    (hf : iter n { m with faultAt := some k } = some mf) (hc : iter n { m with faultAt := none } = some mc) :
    mf.traceL = mc.traceL := by
  have h := fault_agrees_before m k n hk
  rw [hf, hc] at h
  simp only [Option.map_some, Option.some.injEq] at h
  have := congrArg M.trace h
  simpa [M.eraseFault, M.traceL] using congrArg Array.toList this

end GLua.Sem
