/-
  Lemmas for C15 (Model GLua/Model/StrLib.lean refines Spec GLua/Spec/StrLib.lean).  Core Lean only.
-/
import GLua.Model.StrLib
import GLua.Spec.StrLib

namespace GLua.StrProofs
open GLua GLua.Generated GLua.StrModel GLua.StrSpec

instance instDecEqExcept {ε α} [DecidableEq ε] [DecidableEq α] : DecidableEq (Except ε α) := fun a b =>
  match a, b with
  | .ok x, .ok y => if h : x = y then isTrue (by rw [h]) else isFalse (fun e => by cases e; exact h rfl)
  | .error x, .error y => if h : x = y then isTrue (by rw [h]) else isFalse (fun e => by cases e; exact h rfl)
  | .ok _, .error _ => isFalse (fun e => by cases e)
  | .error _, .ok _ => isFalse (fun e => by cases e)

/-! ### the regenerated index normalisation against `posrelat` -/

theorem lis_start (n : Nat) (i : Int) :
    luaIndex2StringIndex n i true = max (posrelat i n) 1 - 1 := by
  unfold luaIndex2StringIndex intMax posrelat
  simp only []
  repeat' split
  all_goals (simp_all <;> omega)

theorem lis_end (n : Nat) (j : Int) :
    luaIndex2StringIndex n j false = min (posrelat j n) n := by
  unfold luaIndex2StringIndex intMax posrelat
  simp only []
  repeat' split
  all_goals (simp_all <;> omega)


/-! ### sub -/

theorem goSlice_eq_slice {α} (s : List α) (st en : Int) (site : String)
    (h0 : 0 ≤ st) (h1 : st ≤ en) (h2 : en ≤ s.length) :
    goSlice s st en site = .ok (slice s (st + 1) en) := by
  unfold goSlice slice
  rw [if_pos ⟨h0, h1, h2⟩]
  by_cases h : st + 1 ≤ en
  · rw [if_pos h]
    have e1 : (st + 1 - 1).toNat = st.toNat := by congr 1; omega
    have e2 : (en - (st + 1) + 1).toNat = (en - st).toNat := by congr 1; omega
    rw [e1, e2]
  · rw [if_neg h]
    have : en - st = 0 := by omega
    rw [this]; simp

theorem posrelat_nonneg (p : Int) (n : Nat) : 0 ≤ posrelat p n := by
  unfold posrelat; simp only []; split <;> omega

theorem strSub_eq {α} (s : List α) (i : Int) (j : Option Int) :
    strSub s i j = .ok (sub s i (j.getD (-1))) := by
  unfold strSub sub
  simp only [lis_start, lis_end]
  have hp := posrelat_nonneg i s.length
  have hq := posrelat_nonneg (j.getD (-1)) s.length
  generalize posrelat i s.length = p at *
  generalize posrelat (j.getD (-1)) s.length = q at *
  by_cases hc : max p 1 - 1 ≥ (s.length : Int) ∨ min q (s.length : Int) < max p 1 - 1
  · rw [if_pos hc]
    unfold slice
    rw [if_neg (by omega)]
  · rw [if_neg hc]
    rw [goSlice_eq_slice s _ _ _ (by omega) (by omega) (by omega)]
    congr 2; omega


/-! ### byte -/

theorem goIndex_ok {α} (s : List α) (i : Nat) (h : i < s.length) (site : String) :
    goIndex s (i : Int) site = .ok s[i] := by
  unfold goIndex
  simp [h]

theorem strByteLoop_eq {α} (s : List α) : ∀ (n i : Nat) (acc : List α), i + n ≤ s.length →
    strByteLoop s n (i : Int) acc = .ok (acc ++ (s.drop i).take n) := by
  intro n
  induction n with
  | zero => intro i acc _; simp [strByteLoop]
  | succ n ih =>
    intro i acc h
    have hi : i < s.length := by omega
    have e : ((i : Int) + 1) = ((i + 1 : Nat) : Int) := by omega
    simp only [strByteLoop, goIndex_ok s i hi, bind, Except.bind]
    rw [e, ih (i + 1) _ (by omega)]
    have t : List.take (n + 1) (List.drop i s) = s[i] :: List.take n (List.drop (i + 1) s) := by
      rw [List.drop_eq_getElem_cons hi, List.take_succ_cons]
    rw [t]; simp

theorem posrelat_model (p : Int) (n : Nat) :
    (if p < 0 then max ((n : Int) + p + 1) 0 else p) = posrelat p n := by
  unfold posrelat
  simp only []
  repeat' split
  all_goals omega

theorem intMax_eq (a b : Int) : intMax a b = max a b := by unfold intMax; split <;> omega
theorem intMin_eq (a b : Int) : intMin a b = min a b := by unfold intMin; split <;> omega

theorem strByte_eq {α} (s : List α) (a2 a3 : Option Int) :
    strByte s a2 a3 = .ok (byte s a2 a3) := by
  unfold strByte byte
  simp only [intMax_eq, intMin_eq, posrelat_model]
  have hp := posrelat_nonneg (a2.getD 1) s.length
  generalize posrelat (a2.getD 1) s.length = p at *
  have hq := posrelat_nonneg (a3.getD p) s.length
  generalize posrelat (a3.getD p) s.length = q at *
  unfold slice
  by_cases hc : max p 1 > min q (s.length : Int)
  · rw [if_pos hc, if_neg (by omega)]
  · rw [if_neg hc, if_pos (by omega)]
    have e : max p 1 - 1 = (((max p 1 - 1).toNat : Nat) : Int) := by omega
    rw [e, strByteLoop_eq s _ _ [] (by omega)]
    simp only [List.nil_append]
    congr 2
    · omega


/-! ### plain find -/

theorem isPrefixOf_nil_right {α} [BEq α] (pat : List α) : pat.isPrefixOf [] = pat.isEmpty := by
  cases pat <;> rfl

theorem firstOcc_nil {α} [BEq α] (s : List α) : firstOcc ([] : List α) s = some 0 := by
  cases s <;> simp [firstOcc]

theorem stringsIndexAux_eq {α} [BEq α] (pat : List α) : ∀ (s : List α) (i : Int),
    stringsIndexAux pat (s.length + 1) i s =
      (match firstOcc pat s with | none => -1 | some k => i + (k : Int)) := by
  intro s
  induction s with
  | nil =>
    intro i
    simp only [List.length_nil, stringsIndexAux, firstOcc, isPrefixOf_nil_right]
    cases pat.isEmpty <;> simp
  | cons c r ih =>
    intro i
    show stringsIndexAux pat (r.length + 1 + 1) i (c :: r) = _
    rw [stringsIndexAux]
    simp only [firstOcc, List.tail_cons]
    by_cases h : pat.isPrefixOf (c :: r) = true
    · simp [h]
    · simp only [h, Bool.false_eq_true, if_false]
      rw [ih (i + 1)]
      cases firstOcc pat r with
      | none => simp
      | some k =>
        simp only [Option.map_some, Int.natCast_add, Int.natCast_one]
        rw [Int.add_assoc, Int.add_comm 1]

theorem stringsIndex_eq {α} [BEq α] (s pat : List α) :
    stringsIndex s pat = (match firstOcc pat s with | none => -1 | some k => (k : Int)) := by
  unfold stringsIndex
  rw [stringsIndexAux_eq]
  cases firstOcc pat s <;> simp

theorem goSlice_tail {α} (s : List α) (a : Int) (site : String) (h0 : 0 ≤ a) (h1 : a ≤ s.length) :
    goSlice s a s.length site = .ok (s.drop a.toNat) := by
  unfold goSlice
  rw [if_pos ⟨h0, h1, Int.le_refl _⟩]
  congr 1
  apply List.take_of_length_le
  simp only [List.length_drop]
  omega

theorem strFindPlain_eq {α} [BEq α] (s pat : List α) (init : Option Int) :
    strFindPlain s pat init = .ok (findPlain s pat (init.getD 1)) := by
  unfold strFindPlain findPlain
  simp only [lis_start, intMin_eq]
  have hp := posrelat_nonneg (init.getD 1) s.length
  generalize posrelat (init.getD 1) s.length = p at *
  have e : (if p - 1 < 0 then (0 : Int) else if p - 1 > (s.length : Int) then (s.length : Int) else p - 1)
      = min (max p 1 - 1) (s.length : Int) := by
    repeat' split
    all_goals omega
  rw [e]
  generalize hi : min (max p 1 - 1) (s.length : Int) = i0
  have h0 : 0 ≤ i0 := by omega
  have h1 : i0 ≤ s.length := by omega
  by_cases hz : pat.length = 0
  · have : pat = [] := List.eq_nil_of_length_eq_zero hz
    subst this
    simp [firstOcc_nil]
  · rw [if_neg hz]
    simp only [goSlice_tail s i0 _ h0 h1, bind, Except.bind, stringsIndex_eq]
    cases firstOcc pat (List.drop i0.toNat s) with
    | none => simp
    | some k =>
      simp only [Option.map_some]
      rw [if_neg (by omega)]


/-! ### rep -/

theorem flatten_replicate_comm {α} (s : List α) (k : Nat) :
    (List.replicate k s).flatten ++ s = s ++ (List.replicate k s).flatten := by
  induction k with
  | zero => simp
  | succ k ih => simp only [List.replicate_succ, List.flatten_cons, List.append_assoc, ih]

theorem repeatLoop_eq {α} (s : List α) (k : Nat) :
    (Nat.rec [] (fun _ acc => acc ++ s) k : List α) = (List.replicate k s).flatten := by
  induction k with
  | zero => rfl
  | succ k ih =>
    show (Nat.rec [] (fun _ acc => acc ++ s) k : List α) ++ s = _
    rw [ih, flatten_replicate_comm]
    simp [List.replicate_succ]

theorem rep_nil {α} (n : Int) : rep ([] : List α) n = [] := by
  unfold rep
  induction n.toNat with
  | zero => rfl
  | succ k ih => simp [List.replicate_succ]

theorem strRep_eq {α} (s : List α) (n : Int) (h : (s.length : Int) * n ≤ maxInt) :
    strRep s n = .ok (rep s n) := by
  unfold strRep stringsRepeat
  by_cases h0 : n < 0
  · rw [if_pos h0]
    have : n.toNat = 0 := by omega
    simp [rep, this]
  · rw [if_neg h0]
    by_cases h1 : n = 0
    · subst h1; simp [rep]
    · rw [if_neg h1]
      by_cases h2 : n = 1
      · subst h2; simp [rep]
      · rw [if_neg h2, if_neg h0]
        have hpos : 0 < n := by omega
        have hle : (s.length : Int) ≤ maxInt / n := Int.le_ediv_of_mul_le hpos h
        rw [if_neg (by omega)]
        by_cases h3 : s.length = 0
        · rw [if_pos h3]
          have : s = [] := List.eq_nil_of_length_eq_zero h3
          subst this
          rw [rep_nil]
        · rw [if_neg h3, repeatLoop_eq]
          rfl

theorem rep_length {α} (s : List α) (n : Int) : (rep s n).length = n.toNat * s.length := by
  unfold rep
  induction n.toNat with
  | zero => simp
  | succ k ih => simp [List.replicate_succ, ih, Nat.succ_mul, Nat.add_comm]

/-! ### reverse -/

theorem strReverseLoop_eq {α} (bts : List α) : ∀ (j : Nat) (out : List α), j ≤ bts.length →
    strReverseLoop bts j out = .ok (out ++ (bts.take j).reverse) := by
  intro j
  induction j with
  | zero => intro out _; simp [strReverseLoop]
  | succ j ih =>
    intro out h
    have hj : j < bts.length := by omega
    simp only [strReverseLoop, goIndex_ok bts j hj, bind, Except.bind]
    rw [ih _ (by omega)]
    have t : (List.take (j + 1) bts).reverse = bts[j] :: (List.take j bts).reverse := by
      rw [List.take_succ_eq_append_getElem hj]; simp
    rw [t]; simp

theorem strReverse_eq {α} (s : List α) : strReverse s = .ok (reverse s) := by
  unfold strReverse reverse
  rw [strReverseLoop_eq s _ _ (Nat.le_refl _)]
  simp

/-! ### upper / lower -/

theorem strUpper_eq (s : List Nat) : strUpper s = upper s := by
  induction s with
  | nil => rfl
  | cons c r ih => simp only [strUpper, upper, List.map_cons, toUpper] at *; rw [ih]

theorem strLower_eq (s : List Nat) : strLower s = lower s := by
  induction s with
  | nil => rfl
  | cons c r ih => simp only [strLower, lower, List.map_cons, toLower] at *; rw [ih]

/-! ### char -/

theorem strChar_eq (cs : List Int) :
    strChar cs = (match char cs with | some b => .ok b | none => .error (.luaError "invalid value")) := by
  induction cs with
  | nil => rfl
  | cons c r ih =>
    unfold strChar
    by_cases hc : c < 0 ∨ c > 255
    · rw [if_pos hc]
      have : (decide (0 ≤ c) && decide (c ≤ 255)) = false := by
        rcases hc with h | h <;> simp <;> omega
      simp [char, this]
    · rw [if_neg hc, ih]
      have hd : (decide (0 ≤ c) && decide (c ≤ 255)) = true := by simp; omega
      have hm : (c % 256).toNat = c.toNat := by congr 1; omega
      unfold char
      simp only [List.all_cons, hd, Bool.true_and, List.map_cons, hm, Bool.decide_and]
      cases hall : (r.all fun c => decide (0 ≤ c) && decide (c ≤ 255)) <;> simp [Except.map]


/-! ### max / min over a NaN-free linear order -/

theorem mathMaxLoop_eq (l : List Int) : ∀ m, mathMaxLoop m l = l.foldl max m := by
  induction l with
  | nil => intro m; rfl
  | cons v r ih =>
    intro m
    simp only [mathMaxLoop, List.foldl_cons, ih]
    congr 1
    split <;> omega

theorem mathMinLoop_eq (l : List Int) : ∀ m, mathMinLoop m l = l.foldl min m := by
  induction l with
  | nil => intro m; rfl
  | cons v r ih =>
    intro m
    simp only [mathMinLoop, List.foldl_cons, ih]
    congr 1
    split <;> omega

theorem mathMaxLoop_spec (l : List Int) : ∀ m,
    m ≤ mathMaxLoop m l ∧ (∀ x ∈ l, x ≤ mathMaxLoop m l) ∧ (mathMaxLoop m l = m ∨ mathMaxLoop m l ∈ l) := by
  induction l with
  | nil => intro m; simp [mathMaxLoop]
  | cons v r ih =>
    intro m
    simp only [mathMaxLoop]
    have hw : m ≤ (if v > m then v else m) ∧ v ≤ (if v > m then v else m) ∧
        ((if v > m then v else m) = m ∨ (if v > m then v else m) = v) := by split <;> omega
    generalize (if v > m then v else m) = w at *
    obtain ⟨h1, h2, h3⟩ := ih w
    refine ⟨by omega, ?_, ?_⟩
    · intro x hx
      rcases List.mem_cons.mp hx with rfl | hx
      · omega
      · exact h2 x hx
    · rcases h3 with h3 | h3
      · rcases hw.2.2 with e | e
        · left; omega
        · right; rw [h3, e]; exact List.mem_cons_self
      · right; exact List.mem_cons_of_mem _ h3

theorem mathMinLoop_spec (l : List Int) : ∀ m,
    mathMinLoop m l ≤ m ∧ (∀ x ∈ l, mathMinLoop m l ≤ x) ∧ (mathMinLoop m l = m ∨ mathMinLoop m l ∈ l) := by
  induction l with
  | nil => intro m; simp [mathMinLoop]
  | cons v r ih =>
    intro m
    simp only [mathMinLoop]
    have hw : (if v < m then v else m) ≤ m ∧ (if v < m then v else m) ≤ v ∧
        ((if v < m then v else m) = m ∨ (if v < m then v else m) = v) := by split <;> omega
    generalize (if v < m then v else m) = w at *
    obtain ⟨h1, h2, h3⟩ := ih w
    refine ⟨by omega, ?_, ?_⟩
    · intro x hx
      rcases List.mem_cons.mp hx with rfl | hx
      · omega
      · exact h2 x hx
    · rcases h3 with h3 | h3
      · rcases hw.2.2 with e | e
        · left; omega
        · right; rw [h3, e]; exact List.mem_cons_self
      · right; exact List.mem_cons_of_mem _ h3

/-! ### fmod / mod (given the trusted law `math.Mod = Int.tmod` on integral arguments) -/

theorem goMod_facts (x y : Int) (hy : y ≠ 0) :
    (0 ≤ x → 0 ≤ goMod x y) ∧ (x ≤ 0 → goMod x y ≤ 0) ∧ (goMod x y).natAbs < y.natAbs ∧ y ∣ (x - goMod x y) := by
  unfold goMod
  refine ⟨fun h => Int.tmod_nonneg y h, ?_, ?_, ?_⟩
  · intro h
    have h1 : 0 ≤ (-x).tmod y := Int.tmod_nonneg y (by omega)
    rw [Int.neg_tmod] at h1
    omega
  · rw [Int.natAbs_tmod]
    exact Nat.mod_lt _ (by omega)
  · rw [Int.tmod_def]
    exact ⟨x.tdiv y, by omega⟩

theorem mathMod_facts (x y : Int) (hy : y ≠ 0) :
    (0 < y → 0 ≤ mathMod x y) ∧ (y < 0 → mathMod x y ≤ 0) ∧ (mathMod x y).natAbs < y.natAbs ∧ y ∣ (x - mathMod x y) := by
  obtain ⟨_, _, h3, q, hq⟩ := goMod_facts x y hy
  unfold mathMod
  simp only []
  generalize goMod x y = v at *
  split
  · refine ⟨by omega, by omega, by omega, ⟨q - 1, ?_⟩⟩
    rw [Int.mul_sub, Int.mul_one, ← hq]; omega
  · exact ⟨by omega, by omega, h3, ⟨q, hq⟩⟩

/-! ### random -/

theorem mathRandom2_in_range (intn : Int → Int) (hintn : ∀ k, 0 < k → 0 ≤ intn k ∧ intn k < k) (rf : Nat) (m n : Int)
    (hm : -9223372036854775808 ≤ m) (hn : n ≤ 9223372036854775807) (hmn : m ≤ n)
    (hspan : n - m + 1 ≤ 9223372036854775807) :
    ∃ r, mathRandom2 intn rf m n = .ok (.int r) ∧ m ≤ r ∧ r ≤ n := by
  unfold mathRandom2
  have hk : wrap64 (wrap64 (n - m) + 1) = n - m + 1 := by unfold wrap64; omega
  rw [if_neg (by omega), hk, if_pos (by omega)]
  obtain ⟨h1, h2⟩ := hintn (n - m + 1) (by omega)
  refine ⟨_, rfl, ?_, ?_⟩ <;> unfold wrap64 <;> omega

/-- no guard on the distance any more: `min > max` is compared directly -/
theorem mathRandom2_empty (intn : Int → Int) (rf : Nat) (m n : Int) (hmn : n < m) :
    mathRandom2 intn rf m n = .error (.luaError "interval is empty") := by
  unfold mathRandom2
  rw [if_pos (by omega)]

/-- a non-empty interval never raises (and never panics), whatever its width: the ordinary path is taken exactly
    when the width `n - m + 1` fits an int, the float64 path otherwise -/
theorem mathRandom2_total (intn : Int → Int) (rf : Nat) (m n : Int)
    (hm : -9223372036854775808 ≤ m) (hn : n ≤ 9223372036854775807) (hmn : m ≤ n) :
    (n - m + 1 ≤ 9223372036854775807 → ∃ r, mathRandom2 intn rf m n = .ok (.int r)) ∧
    (9223372036854775807 < n - m + 1 → mathRandom2 intn rf m n = .ok (.num (mathRandom2Wide rf m n))) := by
  unfold mathRandom2
  constructor
  · intro hspan
    have hk : wrap64 (wrap64 (n - m) + 1) = n - m + 1 := by unfold wrap64; omega
    rw [if_neg (by omega), hk, if_pos (by omega)]
    exact ⟨_, rfl⟩
  · intro hspan
    have hk : ¬ (wrap64 (wrap64 (n - m) + 1) > 0) := by unfold wrap64; omega
    rw [if_neg (by omega), if_neg hk]

theorem mathRandom1_in_range (intn : Int → Int) (hintn : ∀ k, 0 < k → 0 ≤ intn k ∧ intn k < k) (n : Int)
    (h1 : 1 ≤ n) (hn : n ≤ 9223372036854775807) :
    ∃ r, mathRandom1 intn n = .ok r ∧ 1 ≤ r ∧ r ≤ n := by
  unfold mathRandom1
  rw [if_neg (by omega)]
  obtain ⟨h1, h2⟩ := hintn n (by omega)
  refine ⟨_, rfl, ?_, ?_⟩ <;> unfold wrap64 <;> omega

end GLua.StrProofs
