import GLua.Model.Table
import GLua.Spec.TableSpec

namespace GLua.Table
open GLua GLua.TableSpec

/-! ### association lists -/

@[simp] theorem alGet_alSet (l : AL) (k v k' : Val) :
    alGet (alSet l k v) k' = if k' = k then some v else alGet l k' := by
  induction l with
  | nil => simp [alSet, alGet]; split <;> simp_all [eq_comm]
  | cons p r ih =>
    obtain ⟨a, b⟩ := p
    simp only [alSet]
    by_cases h : a = k
    · subst h; simp only [if_true, alGet]; by_cases h2 : a = k' <;> simp_all [eq_comm]
    · simp only [h, if_false, alGet, ih]
      by_cases h2 : a = k'
      · subst h2; simp [Ne.symm h, h]
      · simp [h2]

@[simp] theorem alGet_alDel (l : AL) (k k' : Val) :
    alGet (alDel l k) k' = if k' = k then none else alGet l k' := by
  induction l with
  | nil => simp [alDel, alGet]
  | cons p r ih =>
    obtain ⟨a, b⟩ := p
    simp only [alDel]
    by_cases h : a = k
    · subst h; simp only [if_true, ih, alGet]; by_cases h2 : a = k' <;> simp_all [eq_comm]
    · simp only [h, if_false, alGet, ih]
      by_cases h2 : a = k'
      · subst h2; simp [h]
      · simp [h2]

/-! ### key classification -/

theorem arrIdx_some {mai : Nat} {k : Val} {n : Nat} (h : arrIdx mai k = some n) :
    k = .int n ∧ 0 < n ∧ n < mai := by
  cases k <;> simp [arrIdx] at h
  rename_i i
  obtain ⟨⟨h1, h2⟩, h3⟩ := h
  subst h3
  refine ⟨?_, ?_, ?_⟩
  · congr 1; omega
  · omega
  · omega

theorem arrIdx_int {mai : Nat} {n : Nat} (h1 : 0 < n) (h2 : n < mai) : arrIdx mai (.int n) = some n := by
  simp [arrIdx]; omega

theorem arrIdx_isStr {mai : Nat} {k : Val} {n : Nat} (h : arrIdx mai k = some n) : isStr k = false := by
  cases k <;> simp_all [arrIdx, isStr]

/-! ### `mai` is never changed -/

@[simp] theorem setArr_mai (t : Tbl) (n : Nat) (v : OVal) : (setArr t n v).mai = t.mai := by
  simp only [setArr]; split
  · rfl
  · split <;> rfl
@[simp] theorem noteKey_mai (t : Tbl) (k : Val) : (noteKey t k).mai = t.mai := by
  unfold noteKey; split <;> rfl
@[simp] theorem rawSetString_mai (t : Tbl) (k : Val) (v : OVal) : (rawSetString t k v).mai = t.mai := by
  unfold rawSetString; split <;> simp
@[simp] theorem rawSetH_mai (t : Tbl) (k : Val) (v : OVal) : (rawSetH t k v).mai = t.mai := by
  unfold rawSetH; split
  · simp
  · split <;> simp
@[simp] theorem rawSet_mai (t : Tbl) (k : Val) (v : OVal) : (rawSet t k v).mai = t.mai := by
  unfold rawSet; split
  · simp
  · split <;> simp

/-! ### the array part -/

theorem setArr_get (t : Tbl) (n m : Nat) (hn : 0 < n) (hm : 0 < m) (v : OVal) :
    ((setArr t n v).array[m - 1]?).join = if m = n then v else (t.array[m - 1]?).join := by
  unfold setArr
  simp only
  by_cases h1 : n - 1 = t.array.length
  · simp only [h1, if_true]
    by_cases h2 : m = n
    · subst h2; simp [h1]
    · simp only [h2, if_false]
      by_cases h3 : m - 1 < t.array.length
      · simp [List.getElem?_append_left h3]
      · have : t.array.length < m - 1 := by omega
        rw [List.getElem?_eq_none (by simp; omega), List.getElem?_eq_none (by omega)]
  · simp only [h1, if_false]
    by_cases h2 : n - 1 > t.array.length
    · simp only [h2, if_true]
      by_cases h3 : m = n
      · subst h3
        have hl : (t.array ++ List.replicate (m - 1 - t.array.length) none).length = m - 1 := by simp; omega
        rw [List.getElem?_append_right (by omega), hl]; simp
      · simp only [h3, if_false]
        by_cases h4 : m - 1 < t.array.length
        · rw [List.append_assoc, List.getElem?_append_left h4]
        · rw [List.getElem?_eq_none (l := t.array) (by omega)]
          by_cases h5 : m - 1 < n - 1
          · rw [List.getElem?_append_left (by simp; omega), List.getElem?_append_right (by omega)]
            rw [List.getElem?_replicate]; split <;> rfl
          · rw [List.getElem?_eq_none (by simp; omega)]
    · simp only [h2, if_false]
      rw [List.getElem?_set]
      by_cases h3 : m = n
      · subst h3; simp; split
        · rfl
        · omega
      · have : n - 1 ≠ m - 1 := by omega
        simp [this, h3]

end GLua.Table

namespace GLua.Table
open GLua GLua.TableSpec

/-! ### stores and reads -/

@[simp] theorem noteKey_fields (t : Tbl) (k : Val) :
    (noteKey t k).array = t.array ∧ (noteKey t k).strdict = t.strdict ∧ (noteKey t k).dict = t.dict := by
  unfold noteKey; split <;> simp

theorem rawSetString_get (t : Tbl) (k : Val) (v : OVal) :
    (rawSetString t k v).array = t.array ∧ (rawSetString t k v).dict = t.dict ∧
    ∀ k', alGet (rawSetString t k v).strdict k' = if k' = k then v else alGet t.strdict k' := by
  unfold rawSetString
  cases v with
  | none => simp
  | some x => simp [(noteKey_fields _ k)]

theorem rawSetDict_get (t : Tbl) (k : Val) (v : OVal) (hk : isStr k = false) :
    (rawSetH t k v).array = t.array ∧ (rawSetH t k v).strdict = t.strdict ∧
    ∀ k', alGet (rawSetH t k v).dict k' = if k' = k then v else alGet t.dict k' := by
  unfold rawSetH
  simp only [hk]
  cases v with
  | none => simp
  | some x => simp [(noteKey_fields _ k)]

/-- **read-after-write** for the generic accessors: the table behaves as a finite map. -/
theorem rawGet_rawSet (t : Tbl) (k : Val) (v : OVal) (k' : Val) :
    rawGet (rawSet t k v) k' = if k' = k then v else rawGet t k' := by
  unfold rawGet
  rw [rawSet_mai]
  unfold rawSet
  cases hk : arrIdx t.mai k with
  | some n =>
    obtain ⟨rfl, hn0, hn1⟩ := arrIdx_some hk
    simp only
    cases hk' : arrIdx t.mai k' with
    | some m =>
      obtain ⟨rfl, hm0, hm1⟩ := arrIdx_some hk'
      simp only
      rw [setArr_get t n m hn0 hm0]
      by_cases h : m = n
      · subst h; simp
      · have : (Val.int (m : Int)) ≠ Val.int (n : Int) := by
          intro hh; injection hh with hh; omega
        simp [h, this]
    | none =>
      have hne : k' ≠ Val.int (n : Int) := by
        intro hh; subst hh; simp [hk] at hk'
      simp only [hne, if_false]
      have h1 : (setArr t n v).strdict = t.strdict := by simp only [setArr]; split; rfl; split <;> rfl
      have h2 : (setArr t n v).dict = t.dict := by simp only [setArr]; split; rfl; split <;> rfl
      rw [h1, h2]
  | none =>
    simp only
    by_cases hs : isStr k = true
    · simp only [hs, if_true]
      obtain ⟨ha, hd, hg⟩ := rawSetString_get t k v
      rw [ha, hd]
      cases hk' : arrIdx t.mai k' with
      | some m =>
        simp only
        have : k' ≠ k := by intro hh; subst hh; simp [hk] at hk'
        simp [this]
      | none =>
        simp only
        by_cases hs' : isStr k' = true
        · simp only [hs', if_true, hg]
        · have : k' ≠ k := by intro hh; subst hh; exact hs' hs
          simp [hs', this]
    · have hs0 : isStr k = false := by simpa using hs
      simp only [hs0, Bool.false_eq_true, if_false]
      obtain ⟨ha, hd, hg⟩ := rawSetDict_get t k v hs0
      rw [ha, hd]
      cases hk' : arrIdx t.mai k' with
      | some m =>
        simp only
        have : k' ≠ k := by intro hh; subst hh; simp [hk] at hk'
        simp [this]
      | none =>
        simp only
        by_cases hs' : isStr k' = true
        · have : k' ≠ k := by intro hh; subst hh; exact hs hs'
          simp [hs', this]
        · simp [hs', hg]

/-- a fresh table maps every key to nil. -/
theorem rawGet_empty (mai : Nat) (k : Val) : rawGet { mai := mai } k = none := by
  unfold rawGet; split
  · simp
  · split <;> rfl

/-- hash-part accessors agree with the generic ones on hash-part keys. -/
theorem rawSetH_eq_rawSet (t : Tbl) (k : Val) (v : OVal) (h : arrIdx t.mai k = none) :
    rawSetH t k v = rawSet t k v := by
  unfold rawSet; simp only [h]; split
  · unfold rawSetH; simp [*]
  · rfl

theorem rawGetH_eq_rawGet (t : Tbl) (k : Val) (h : arrIdx t.mai k = none) :
    rawGetH t k = rawGet t k := by
  unfold rawGet rawGetH; simp only [h]

theorem rawSetString_eq_rawSet (t : Tbl) (k : Val) (v : OVal) (h : isStr k = true) :
    rawSetString t k v = rawSet t k v := by
  have : arrIdx t.mai k = none := by cases k <;> simp_all [isStr, arrIdx]
  unfold rawSet; simp only [this, h, if_true]

theorem rawGetString_eq_rawGet (t : Tbl) (k : Val) (h : isStr k = true) :
    rawGetString t k = rawGet t k := by
  have : arrIdx t.mai k = none := by cases k <;> simp_all [isStr, arrIdx]
  unfold rawGet rawGetString; simp only [this, h, if_true]

/-- integer accessors agree with the generic ones (after the `RawGetInt` repair). -/
theorem rawSetInt_eq_rawSet (t : Tbl) (i : Int) (v : OVal) : rawSetInt t i v = rawSet t (.int i) v := by
  unfold rawSetInt rawSet
  by_cases h : i < 1 ∨ i ≥ (t.mai : Int)
  · have : arrIdx t.mai (.int i) = none := by simp [arrIdx]; omega
    simp [h, this, isStr]
  · have : arrIdx t.mai (.int i) = some i.toNat := by simp [arrIdx]; omega
    simp only [h, if_false, this]

theorem rawGetInt_eq_rawGet (t : Tbl) (i : Int) : rawGetInt t i = rawGet t (.int i) := by
  unfold rawGetInt rawGet
  by_cases h : i < 1 ∨ i ≥ (t.mai : Int)
  · have : arrIdx t.mai (.int i) = none := by simp [arrIdx]; omega
    simp [h, this, rawGetH, isStr]
  · have : arrIdx t.mai (.int i) = some i.toNat := by simp [arrIdx]; omega
    simp only [h, if_false, this]
    by_cases h2 : i - 1 ≥ (t.array.length : Int) ∨ i - 1 < 0
    · simp only [h2, if_true]
      rw [List.getElem?_eq_none (by omega)]; rfl
    · simp only [h2, if_false]
      have : (i - 1).toNat = i.toNat - 1 := by omega
      rw [this]

end GLua.Table

namespace GLua.Table
open GLua GLua.TableSpec

/-! ### length -/

theorem lastNonNil_le (a : List OVal) : lastNonNil a ≤ a.length := by
  induction a with
  | nil => simp [lastNonNil]
  | cons x r ih =>
    simp only [lastNonNil, List.length_cons]; split
    · omega
    · split <;> omega

theorem lastNonNil_after (a : List OVal) (j : Nat) (h : lastNonNil a ≤ j) : (a[j]?).join = none := by
  induction a generalizing j with
  | nil => simp
  | cons x r ih =>
    simp only [lastNonNil] at h
    cases j with
    | zero =>
      split at h
      · omega
      · split at h
        · omega
        · cases x <;> simp_all
    | succ j =>
      simp only [List.getElem?_cons_succ]
      apply ih
      split at h
      · omega
      · omega

theorem lastNonNil_at (a : List OVal) (h : 0 < lastNonNil a) : (a[lastNonNil a - 1]?).join ≠ none := by
  induction a with
  | nil => simp [lastNonNil] at h
  | cons x r ih =>
    simp only [lastNonNil] at h ⊢
    split
    · rename_i hpos
      have := ih hpos
      have e : lastNonNil r + 1 - 1 = (lastNonNil r - 1) + 1 := by omega
      rw [e, List.getElem?_cons_succ]; exact this
    · rename_i hz
      simp only [hz, if_false] at h
      split
      · cases x <;> simp_all
      · simp_all

/-- **`Len` returns a border** of the abstract map, provided the array part has not been driven to the
    `MaxArrayIndex` boundary (the excluded corner is the recorded finding `C09-border-at-maxarrayindex`). -/
theorem len_is_border (t : Tbl) (h : t.array.length + 1 < t.mai) : isBorder (rawGet t) (len t) := by
  unfold isBorder len
  have hle := lastNonNil_le t.array
  by_cases h0 : lastNonNil t.array = 0
  · left
    refine ⟨h0, ?_⟩
    have : arrIdx t.mai (.int 1) = some 1 := by simp [arrIdx]; omega
    unfold rawGet; simp only [this]
    exact lastNonNil_after t.array 0 (by omega)
  · right
    refine ⟨by omega, ?_, ?_⟩
    · have : arrIdx t.mai (.int (lastNonNil t.array : Nat)) = some (lastNonNil t.array) :=
        arrIdx_int (by omega) (by omega)
      unfold rawGet; simp only [this]
      exact lastNonNil_at t.array (by omega)
    · have : arrIdx t.mai (.int ((lastNonNil t.array : Nat) + 1 : Int)) = some (lastNonNil t.array + 1) := by
        have := arrIdx_int (mai := t.mai) (n := lastNonNil t.array + 1) (by omega) (by omega)
        simpa using this
      unfold rawGet; simp only [this]
      exact lastNonNil_after t.array _ (by omega)

end GLua.Table
