import GLua.Proofs.TableNext

/-!
  Traversal under modification (C09): a `Next` chain interleaved with stores.

  The mechanism of /repo/table.go: a traversal position is a *slot* — an index of the array part or an
  index of `keys` (the insertion-ordered list of every key that was ever put into `strdict`/`dict`;
  a deleted key stays in `keys`/`k2i` as a tombstone, cf. the two `TODO tb.keys and tb.k2i should also
  be removed` comments).  `slots t` is the list of all slots; it only depends on `array.length` and
  `keys`.  `Next(cur)` returns the first *live* slot (value non-nil *now*) strictly after the slot of
  `cur`.  A store that clears or overwrites an existing field — more generally a store to any key that
  has a slot — changes neither `array.length` nor `keys`, so the chain's position stays meaningful and
  strictly increases: that is the whole argument.
-/

namespace GLua.Table
open GLua

/-! ### slots -/

/-- `c` array slots following the first `j`: keys `j+1 … j+c`. -/
def arrSlotsAux : Nat → Nat → List Val
  | 0, _ => []
  | c + 1, j => Val.int ((j + 1 : Nat) : Int) :: arrSlotsAux c (j + 1)

/-- the traversal frame of a table: array positions `1 … len(array)`, then `keys` (tombstones included). -/
def slots (t : Tbl) : List Val := arrSlotsAux t.array.length 0 ++ t.keys

/-- first slot of `ks` whose value is non-nil now, with that value. -/
def firstLive (t : Tbl) : List Val → Option (Val × Val)
  | [] => none
  | k :: r => match rawGet t k with
    | some v => some (k, v)
    | none => firstLive t r

@[simp] theorem arrSlotsAux_length (c j : Nat) : (arrSlotsAux c j).length = c := by
  induction c generalizing j with
  | zero => rfl
  | succ c ih => simp [arrSlotsAux, ih]

theorem arrSlotsAux_drop (c j d : Nat) : (arrSlotsAux c j).drop d = arrSlotsAux (c - d) (j + d) := by
  induction d generalizing c j with
  | zero => simp
  | succ d ih =>
    cases c with
    | zero => simp [arrSlotsAux]
    | succ c =>
      simp only [arrSlotsAux, List.drop_succ_cons, ih]
      have e1 : c + 1 - (d + 1) = c - d := by omega
      have e2 : j + 1 + d = j + (d + 1) := by omega
      rw [e1, e2]

theorem mem_arrSlotsAux (c j : Nat) (k : Val) :
    k ∈ arrSlotsAux c j ↔ ∃ i : Nat, j < i ∧ i ≤ j + c ∧ k = Val.int (i : Int) := by
  induction c generalizing j with
  | zero => simp [arrSlotsAux]; intro i h1 h2; omega
  | succ c ih =>
    simp only [arrSlotsAux, List.mem_cons, ih]
    constructor
    · rintro (h | ⟨i, h1, h2, h3⟩)
      · exact ⟨j + 1, by omega, by omega, h⟩
      · exact ⟨i, by omega, by omega, h3⟩
    · rintro ⟨i, h1, h2, h3⟩
      by_cases e : i = j + 1
      · left; rw [h3, e]
      · right; exact ⟨i, by omega, by omega, h3⟩

theorem arrSlotsAux_getElem? (c j i : Nat) (h : i < c) :
    (arrSlotsAux c j)[i]? = some (Val.int ((j + i + 1 : Nat) : Int)) := by
  induction c generalizing j i with
  | zero => omega
  | succ c ih =>
    cases i with
    | zero => simp [arrSlotsAux]
    | succ i =>
      simp only [arrSlotsAux, List.getElem?_cons_succ]
      rw [ih (j + 1) i (by omega)]
      congr 3; omega

theorem arrSlotsAux_nodup (c j : Nat) : (arrSlotsAux c j).Nodup := by
  induction c generalizing j with
  | zero => simp [arrSlotsAux]
  | succ c ih =>
    simp only [arrSlotsAux, List.nodup_cons]
    refine ⟨?_, ih (j + 1)⟩
    intro hm
    obtain ⟨i, h1, _, h3⟩ := (mem_arrSlotsAux c (j + 1) _).1 hm
    injection h3 with h3
    omega

/-- under the invariant the array part is below `MaxArrayIndex` (for `MaxArrayIndex ≥ 1`). -/
theorem Inv.alen_lt {t : Tbl} (h : Inv t) (hm : 0 < t.mai) : t.array.length < t.mai := by
  rcases h.arrLt with h1 | h1
  · exact h1
  · rw [h1]; exact hm

theorem arrSlot_arrIdx {t : Tbl} (h : Inv t) (hm : 0 < t.mai) {k : Val}
    (hk : k ∈ arrSlotsAux t.array.length 0) : ∃ n : Nat, arrIdx t.mai k = some n ∧ 0 < n ∧ n ≤ t.array.length ∧ k = Val.int (n : Int) := by
  obtain ⟨i, h1, h2, rfl⟩ := (mem_arrSlotsAux _ _ _).1 hk
  have := h.alen_lt hm
  exact ⟨i, arrIdx_int (by omega) (by omega), h1, by omega, rfl⟩

theorem slots_nodup {t : Tbl} (h : Inv t) (hm : 0 < t.mai) : (slots t).Nodup := by
  unfold slots
  rw [List.nodup_append]
  refine ⟨arrSlotsAux_nodup _ _, h.keysNodup, ?_⟩
  intro a ha b hb e
  subst e
  obtain ⟨n, hn, _⟩ := arrSlot_arrIdx h hm ha
  rw [h.keysHash a hb] at hn
  cases hn

/-- every present key has a slot. -/
theorem present_mem_slots {t : Tbl} (h : Inv t) {k : Val} (hk : rawGet t k ≠ none) : k ∈ slots t := by
  unfold slots
  rw [List.mem_append]
  cases hidx : arrIdx t.mai k with
  | some n =>
    left
    obtain ⟨rfl, hn0, hn1⟩ := arrIdx_some hidx
    unfold rawGet at hk
    rw [hidx] at hk
    simp only at hk
    have : n - 1 < t.array.length := by
      by_cases hlt : n - 1 < t.array.length
      · exact hlt
      · rw [List.getElem?_eq_none (by omega)] at hk; exact absurd rfl hk
    exact (mem_arrSlotsAux _ _ _).2 ⟨n, hn0, by omega, rfl⟩
  | none =>
    right
    rw [← rawGetH_eq_rawGet t k hidx] at hk
    unfold rawGetH at hk
    split at hk
    · cases hg : alGet t.strdict k with
      | none => rw [hg] at hk; exact absurd rfl hk
      | some v => exact (h.strKeys k v hg).2
    · cases hg : alGet t.dict k with
      | none => rw [hg] at hk; exact absurd rfl hk
      | some v => exact (h.dictKeys k v hg).2.2

/-! ### `firstLive` -/

theorem firstLive_append (t : Tbl) (a b : List Val) :
    firstLive t (a ++ b) = (firstLive t a).or (firstLive t b) := by
  induction a with
  | nil => simp [firstLive]
  | cons k r ih =>
    simp only [List.cons_append, firstLive]
    cases rawGet t k with
    | none => simpa using ih
    | some v => simp

theorem firstLive_none {t : Tbl} {ks : List Val} (h : firstLive t ks = none) :
    ∀ k ∈ ks, rawGet t k = none := by
  induction ks with
  | nil => simp
  | cons k r ih =>
    simp only [firstLive] at h
    cases hg : rawGet t k with
    | some v => rw [hg] at h; cases h
    | none =>
      rw [hg] at h
      intro k' hk'
      rcases List.mem_cons.1 hk' with e | e
      · rw [e]; exact hg
      · exact ih h k' e

theorem firstLive_some {t : Tbl} {ks : List Val} {k v : Val} (h : firstLive t ks = some (k, v)) :
    ∃ pre post, ks = pre ++ k :: post ∧ (∀ x ∈ pre, rawGet t x = none) ∧ rawGet t k = some v := by
  induction ks with
  | nil => simp [firstLive] at h
  | cons a r ih =>
    simp only [firstLive] at h
    cases hg : rawGet t a with
    | some w =>
      rw [hg] at h
      simp only [Option.some.injEq, Prod.mk.injEq] at h
      obtain ⟨rfl, rfl⟩ := h
      exact ⟨[], r, rfl, by simp, hg⟩
    | none =>
      rw [hg] at h
      obtain ⟨pre, post, e, h1, h2⟩ := ih h
      refine ⟨a :: pre, post, by rw [e]; rfl, ?_, h2⟩
      intro x hx
      rcases List.mem_cons.1 hx with e' | e'
      · rw [e']; exact hg
      · exact h1 x e'

theorem scanKeys_eq_firstLive (t : Tbl) (ks : List Val) (h : ∀ k ∈ ks, arrIdx t.mai k = none) :
    scanKeys t ks = firstLive t ks := by
  induction ks with
  | nil => rfl
  | cons k r ih =>
    simp only [scanKeys, firstLive]
    rw [rawGetH_eq_rawGet t k (h k (List.mem_cons_self ..))]
    cases rawGet t k with
    | some v => rfl
    | none => exact ih (fun k' hk' => h k' (List.mem_cons_of_mem _ hk'))

/-- how `Next` packages the result of its array scan (`X` = what it does when the scan is exhausted). -/
def arrRes (r : Option (Nat × Val)) (X : Option (Val × Val)) : Option (Val × Val) :=
  match r with
  | some (k, v) => some (Val.int (k : Int), v)
  | none => X

/-- the array scan of `Next` is `firstLive` over the remaining array slots. -/
theorem scanArr_eq_firstLive (t : Tbl) (hlt : t.array.length < t.mai) (X : Option (Val × Val)) (n : Nat) :
    ∀ j : Nat, t.array.length - j ≤ n → j ≤ t.array.length →
      arrRes (scanArr t.array j) X = (firstLive t (arrSlotsAux (t.array.length - j) j)).or X := by
  induction n with
  | zero =>
    intro j hn hj
    have : t.array.length - j = 0 := by omega
    rw [scanArr_ge _ _ (by omega), this]
    simp [arrSlotsAux, firstLive, arrRes]
  | succ n ih =>
    intro j hn hj
    by_cases hj' : t.array.length ≤ j
    · have : t.array.length - j = 0 := by omega
      rw [scanArr_ge _ _ hj', this]
      simp [arrSlotsAux, firstLive, arrRes]
    · have hlt' : j < t.array.length := by omega
      have e : t.array.length - j = (t.array.length - (j + 1)) + 1 := by omega
      rw [e]
      simp only [arrSlotsAux, firstLive]
      have hget : t.array[j]? = some t.array[j] := List.getElem?_eq_getElem hlt'
      have hidx : arrIdx t.mai (Val.int ((j + 1 : Nat) : Int)) = some (j + 1) := arrIdx_int (by omega) (by omega)
      have hraw : rawGet t (Val.int ((j + 1 : Nat) : Int)) = t.array[j] := by
        unfold rawGet; rw [hidx]; simp only
        have : j + 1 - 1 = j := by omega
        rw [this, hget]; rfl
      rw [hraw]
      cases hx : t.array[j] with
      | none =>
        rw [hx] at hget
        rw [scanArr_hole _ _ hget]
        simp only
        exact ih (j + 1) (by omega) (by omega)
      | some v =>
        rw [hx] at hget
        rw [scanArr_hit _ _ v hget]
        simp [arrRes]

/-! ### `Next` in terms of slots -/

theorem slots_getElem?_arr (t : Tbl) (i : Nat) (h : i < t.array.length) :
    (slots t)[i]? = some (Val.int ((i + 1 : Nat) : Int)) := by
  unfold slots
  rw [List.getElem?_append_left (by simpa using h), arrSlotsAux_getElem? _ _ _ h]
  congr 3; omega

theorem slots_getElem?_keys (t : Tbl) (i : Nat) (h : t.array.length ≤ i) :
    (slots t)[i]? = t.keys[i - t.array.length]? := by
  unfold slots
  rw [List.getElem?_append_right (by simpa using h)]
  simp

theorem slots_drop_arr (t : Tbl) (d : Nat) (h : d ≤ t.array.length) :
    (slots t).drop d = arrSlotsAux (t.array.length - d) d ++ t.keys := by
  unfold slots
  rw [List.drop_append_of_le_length (by simpa using h), arrSlotsAux_drop]
  simp

theorem slots_drop_keys (t : Tbl) (d : Nat) (h : t.array.length ≤ d) :
    (slots t).drop d = t.keys.drop (d - t.array.length) := by
  unfold slots
  rw [List.drop_append]
  simp only [arrSlotsAux_length]
  rw [List.drop_eq_nil_of_le (by simpa using h)]
  simp

/-- **`Next(nil)`** returns the first live slot. -/
theorem next_slots_nil (t : Tbl) (h : Inv t) (hm : 0 < t.mai) :
    next t none = .ok (firstLive t (slots t)) := by
  have hlt := h.alen_lt hm
  rw [next_arr t h none 0 (Or.inl ⟨rfl, rfl⟩) hm (by omega)]
  have key := scanArr_eq_firstLive t hlt (scanKeys t t.keys) t.array.length 0 (by omega) (by omega)
  rw [scanKeys_eq_firstLive t t.keys h.keysHash] at key
  congr 1
  unfold slots
  rw [firstLive_append]
  rw [scanKeys_eq_firstLive t t.keys h.keysHash]
  simp only [Nat.sub_zero] at key
  rw [← key]
  cases scanArr t.array 0 with
  | none => rfl
  | some p => obtain ⟨a, b⟩ := p; rfl

/-- **`Next(k)`** for the key in slot `i` returns the first live slot after `i` — whatever the value
    of slot `i` itself is now (a tombstone works as a position). -/
theorem next_slots (t : Tbl) (h : Inv t) (hm : 0 < t.mai) (i : Nat) (k : Val)
    (hk : (slots t)[i]? = some k) : next t (some k) = .ok (firstLive t ((slots t).drop (i + 1))) := by
  have hlt := h.alen_lt hm
  by_cases hi : i < t.array.length
  · rw [slots_getElem?_arr t i hi] at hk
    injection hk with hk
    subst hk
    rw [next_arr t h _ (i + 1) (Or.inr ⟨rfl, by omega⟩) (by omega) (by omega)]
    have key := scanArr_eq_firstLive t hlt (scanKeys t t.keys) t.array.length (i + 1) (by omega) (by omega)
    congr 1
    rw [slots_drop_arr t (i + 1) (by omega), firstLive_append]
    rw [← scanKeys_eq_firstLive t t.keys h.keysHash, ← key]
    cases scanArr t.array (i + 1) with
    | none => rfl
    | some p => obtain ⟨a, b⟩ := p; rfl
  · rw [slots_getElem?_keys t i (by omega)] at hk
    rw [next_hash t h _ k hk]
    rw [slots_drop_keys t (i + 1) (by omega)]
    have e : i + 1 - t.array.length = i - t.array.length + 1 := by omega
    rw [e]
    rw [scanKeys_eq_firstLive]
    intro k' hk'
    exact h.keysHash k' (List.mem_of_mem_drop hk')

/-! ### stores that keep the frame -/

theorem noteKey_of_some {t : Tbl} {k : Val} {i : Nat} (h : k2iGet t.k2i k = some i) : noteKey t k = t := by
  unfold noteKey; rw [h]

theorem mem_keys_k2i {t : Tbl} (h : Inv t) {k : Val} (hk : k ∈ t.keys) : ∃ i, k2iGet t.k2i k = some i := by
  obtain ⟨i, hi, he⟩ := List.getElem_of_mem hk
  exact ⟨i, h.k2iInv i k (by rw [List.getElem?_eq_getElem hi, he])⟩

/-- a store to a key that has a slot (in particular: clearing or overwriting an existing field, or
    re-inserting a cleared one) leaves `array.length`, `keys` and `k2i` — hence the frame — unchanged. -/
theorem rawSet_slot (t : Tbl) (h : Inv t) (hm : 0 < t.mai) (k : Val) (v : OVal) (hk : k ∈ slots t) :
    slots (rawSet t k v) = slots t := by
  have hlt := h.alen_lt hm
  unfold slots at hk
  rw [List.mem_append] at hk
  unfold rawSet
  cases hidx : arrIdx t.mai k with
  | some n =>
    simp only
    obtain ⟨rfl, hn0, hn1⟩ := arrIdx_some hidx
    have hn : n ≤ t.array.length := by
      rcases hk with hk | hk
      · obtain ⟨i, _, h2, h3⟩ := (mem_arrSlotsAux _ _ _).1 hk
        injection h3 with h3
        omega
      · rw [h.keysHash _ hk] at hidx; cases hidx
    unfold setArr slots
    simp only
    have e1 : ¬ (n - 1 = t.array.length) := by omega
    have e2 : ¬ (n - 1 > t.array.length) := by omega
    simp only [e1, e2, if_false, List.length_set]
  | none =>
    simp only
    have hkk : k ∈ t.keys := by
      rcases hk with hk | hk
      · obtain ⟨n, hn, _⟩ := arrSlot_arrIdx h hm hk
        rw [hidx] at hn; cases hn
      · exact hk
    obtain ⟨i, hi⟩ := mem_keys_k2i h hkk
    by_cases hs : isStr k = true
    · simp only [hs, if_true]
      unfold rawSetString
      cases v with
      | none => rfl
      | some x => simp only; rw [noteKey_of_some (t := { t with strdict := alSet t.strdict k x }) hi]; rfl
    · have hs0 : isStr k = false := by simpa using hs
      simp only [hs0, Bool.false_eq_true, if_false]
      unfold rawSetH
      simp only [hs0, Bool.false_eq_true, if_false]
      cases v with
      | none => rfl
      | some x => simp only; rw [noteKey_of_some (t := { t with dict := alSet t.dict k x }) hi]; rfl

/-- a store performed between two `Next` calls: key and new value (`none` clears the field). -/
abbrev Store := Val × OVal

def applyStores (t : Tbl) (l : List Store) : Tbl := l.foldl (fun t p => rawSet t p.1 p.2) t

/-- decidable guard, checked store by store on the table as it is then: the key has a slot. -/
def storesOK (t : Tbl) : List Store → Bool
  | [] => true
  | p :: r => decide (p.1 ∈ slots t) && storesOK (rawSet t p.1 p.2) r

/-- the guard of the property text: the store hits a field that exists at that moment
    (`v = none` clears it, `v = some _` overwrites it). -/
def storesExisting (t : Tbl) : List Store → Bool
  | [] => true
  | p :: r => (rawGet t p.1).isSome && storesExisting (rawSet t p.1 p.2) r

theorem storesExisting_OK (t : Tbl) (h : Inv t) (l : List Store) (hl : storesExisting t l = true) :
    storesOK t l = true := by
  induction l generalizing t with
  | nil => rfl
  | cons p r ih =>
    simp only [storesExisting, Bool.and_eq_true] at hl
    simp only [storesOK, Bool.and_eq_true, decide_eq_true_eq]
    refine ⟨present_mem_slots h ?_, ih _ (inv_rawSet t p.1 p.2 h) hl.2⟩
    intro e; rw [e] at hl; simp at hl

theorem applyStores_frame (t : Tbl) (h : Inv t) (hm : 0 < t.mai) (l : List Store) (hl : storesOK t l = true) :
    slots (applyStores t l) = slots t ∧ Inv (applyStores t l) ∧ (applyStores t l).mai = t.mai := by
  induction l generalizing t with
  | nil => exact ⟨rfl, h, rfl⟩
  | cons p r ih =>
    simp only [storesOK, Bool.and_eq_true, decide_eq_true_eq] at hl
    have h1 := rawSet_slot t h hm p.1 p.2 hl.1
    have h2 := inv_rawSet t p.1 p.2 h
    have h3 := rawSet_mai t p.1 p.2
    obtain ⟨a, b, c⟩ := ih (rawSet t p.1 p.2) h2 (by rw [h3]; exact hm) hl.2
    exact ⟨by rw [← h1]; exact a, b, by rw [← h3]; exact c⟩

/-- stores to existing fields never make an absent key present. -/
theorem applyStores_existing_mono (t : Tbl) (l : List Store) (hl : storesExisting t l = true) (k : Val)
    (hk : rawGet (applyStores t l) k ≠ none) : rawGet t k ≠ none := by
  induction l generalizing t with
  | nil => exact hk
  | cons p r ih =>
    simp only [storesExisting, Bool.and_eq_true] at hl
    have := ih (rawSet t p.1 p.2) hl.2 hk
    rw [rawGet_rawSet] at this
    by_cases e : k = p.1
    · rw [e]; intro e'; rw [e'] at hl; simp at hl
    · simpa [e] using this

/-! ### the chain -/

/-- one step of the chain: the table as it was at the moment of the `Next` call, and the pair returned. -/
structure Visit where
  t : Tbl
  k : Val
  v : Val

/-- A `Next` chain with interleaved stores.  After the `i`-th call has returned the key `k` on the table `t`,
    the stores `sched i k t` are performed (the schedule may depend on everything the program can see),
    then `Next(k)` is called on the resulting table.  Result: the visits in order and the table at the
    moment of the last call (the one that returned nil).  Running out of fuel is an error, so
    `… = .ok _` includes termination. -/
def chainAux (sched : Nat → Val → Tbl → List Store) : Nat → Nat → Tbl → OVal → Except Err (List Visit × Tbl)
  | 0, _, _, _ => .error (.goPanic "chain: did not terminate")
  | f + 1, i, t, cur =>
    match next t cur with
    | .error e => .error e
    | .ok none => .ok ([], t)
    | .ok (some (k, v)) =>
      match chainAux sched f (i + 1) (applyStores t (sched i k t)) (some k) with
      | .error e => .error e
      | .ok (l, tf) => .ok (⟨t, k, v⟩ :: l, tf)

/-- the chain from nil; at most `len(array) + len(keys) + 1` calls of `Next`. -/
def chain (sched : Nat → Val → Tbl → List Store) (t : Tbl) : Except Err (List Visit × Tbl) :=
  chainAux sched ((slots t).length + 1) 0 t none

theorem chainAux_spec (sched : Nat → Val → Tbl → List Store)
    (hs : ∀ i k t', Inv t' → storesOK t' (sched i k t') = true) (S : List Val) (mai : Nat) (hm : 0 < mai) :
    ∀ (f i : Nat) (t : Tbl) (cur : OVal) (d : Nat), Inv t → t.mai = mai → slots t = S →
      ((cur = none ∧ d = 0) ∨ (∃ k, cur = some k ∧ 0 < d ∧ S[d - 1]? = some k)) →
      S.length - d + 1 ≤ f →
      ∃ vs tf, chainAux sched f i t cur = .ok (vs, tf) ∧ Inv tf ∧ slots tf = S ∧ tf.mai = mai ∧
        (vs.map (·.k)).Sublist (S.drop d) ∧
        (∀ x ∈ vs, rawGet x.t x.k = some x.v ∧ slots x.t = S ∧ Inv x.t) ∧
        (∀ k ∈ S.drop d, rawGet tf k ≠ none → (∀ x ∈ vs, rawGet x.t k ≠ none) → k ∈ vs.map (·.k)) := by
  intro f
  induction f with
  | zero => intro i t cur d _ _ _ _ hf; omega
  | succ f ih =>
    intro i t cur d hI hmai hS hcur hf
    have hm' : 0 < t.mai := by rw [hmai]; exact hm
    have hnext : next t cur = .ok (firstLive t (S.drop d)) := by
      rcases hcur with ⟨rfl, rfl⟩ | ⟨k, rfl, hd, hk⟩
      · rw [next_slots_nil t hI hm', hS]; rfl
      · rw [← hS] at hk
        rw [next_slots t hI hm' (d - 1) k hk, hS]
        have : d - 1 + 1 = d := by omega
        rw [this]
    cases hfl : firstLive t (S.drop d) with
    | none =>
      refine ⟨[], t, ?_, hI, hS, hmai, by simp, by simp, ?_⟩
      · simp only [chainAux, hnext, hfl]
      · intro k hk hne _
        exact absurd (firstLive_none hfl k hk) hne
    | some p =>
      obtain ⟨k, v⟩ := p
      obtain ⟨pre, post, hsplit, hpre, hkv⟩ := firstLive_some hfl
      obtain ⟨hS2, hI2, hmai2⟩ := applyStores_frame t hI hm' (sched i k t) (hs i k t hI)
      have hlen : S.length - d = pre.length + 1 + post.length := by
        have := congrArg List.length hsplit
        simp only [List.length_drop, List.length_append, List.length_cons] at this
        omega
      have hdS : d ≤ S.length := by omega
      have hidx : S[d + pre.length + 1 - 1]? = some k := by
        have e : d + pre.length + 1 - 1 = d + pre.length := by omega
        rw [e]
        have := List.getElem?_drop (xs := S) (i := d) (j := pre.length)
        rw [← this, hsplit]
        simp
      have hdrop : S.drop (d + pre.length + 1) = post := by
        have : S.drop (d + pre.length + 1) = (S.drop d).drop (pre.length + 1) := by
          rw [List.drop_drop]; congr 1
        rw [this, hsplit]
        simp
      obtain ⟨vs, tf, hc, hIf, hSf, hmf, hsub, hvis, hall⟩ :=
        ih (i + 1) (applyStores t (sched i k t)) (some k) (d + pre.length + 1) hI2 (by rw [hmai2, hmai])
          (by rw [hS2, hS]) (Or.inr ⟨k, rfl, by omega, hidx⟩) (by omega)
      refine ⟨⟨t, k, v⟩ :: vs, tf, ?_, hIf, hSf, hmf, ?_, ?_, ?_⟩
      · simp only [chainAux, hnext, hfl, hc]
      · rw [hsplit]
        simp only [List.map_cons]
        apply List.sublist_append_of_sublist_right
        apply List.Sublist.cons_cons
        rw [← hdrop]; exact hsub
      · intro x hx
        rcases List.mem_cons.1 hx with e | e
        · subst e; exact ⟨hkv, hS, hI⟩
        · exact hvis x e
      · intro k' hk' hne hall'
        rw [hsplit] at hk'
        simp only [List.map_cons, List.mem_cons]
        rcases List.mem_append.1 hk' with e | e
        · exact absurd (hpre k' e) (hall' ⟨t, k, v⟩ (List.mem_cons_self ..))
        · rcases List.mem_cons.1 e with e | e
          · left; exact e
          · right
            apply hall k' (by rw [hdrop]; exact e) hne
            intro x hx
            exact hall' x (List.mem_cons_of_mem _ hx)

/-- **traversal under modification**: for every table satisfying the invariant and every schedule of stores
    to keys that have a slot, the `Next` chain from nil terminates without panic; the visited keys are
    pairwise distinct; each is returned with its value at the moment of that call; and every key that is
    present at each `Next` call of the chain (the last, nil-returning one included) is visited. -/
theorem chain_complete (sched : Nat → Val → Tbl → List Store)
    (hs : ∀ i k t', Inv t' → storesOK t' (sched i k t') = true) (t : Tbl) (h : Inv t) (hm : 0 < t.mai) :
    ∃ vs tf, chain sched t = .ok (vs, tf) ∧
      vs.length ≤ t.array.length + t.keys.length ∧
      (vs.map (·.k)).Nodup ∧
      (∀ x ∈ vs, rawGet x.t x.k = some x.v) ∧
      (∀ k, rawGet tf k ≠ none → (∀ x ∈ vs, rawGet x.t k ≠ none) → k ∈ vs.map (·.k)) := by
  obtain ⟨vs, tf, hc, hIf, hSf, _, hsub, hvis, hall⟩ :=
    chainAux_spec sched hs (slots t) t.mai hm ((slots t).length + 1) 0 t none 0 h rfl rfl
      (Or.inl ⟨rfl, rfl⟩) (by omega)
  simp only [List.drop_zero] at hsub hall
  refine ⟨vs, tf, hc, ?_, hsub.nodup (slots_nodup h hm), fun x hx => (hvis x hx).1, ?_⟩
  · have := hsub.length_le
    simp only [List.length_map] at this
    unfold slots at this
    simpa using this
  · intro k hne hall'
    exact hall k (by rw [← hSf]; exact present_mem_slots hIf hne) hne hall'

/-! ### stores to existing fields only: presence is monotone along the chain -/

/-- drop the stores that would not hit an existing field (makes any schedule admissible). -/
def keepExisting (t : Tbl) : List Store → List Store
  | [] => []
  | p :: r => if (rawGet t p.1).isSome then p :: keepExisting (rawSet t p.1 p.2) r else keepExisting t r

theorem storesExisting_keepExisting (t : Tbl) (l : List Store) : storesExisting t (keepExisting t l) = true := by
  induction l generalizing t with
  | nil => rfl
  | cons p r ih =>
    simp only [keepExisting]
    split
    · rename_i h; simp only [storesExisting, h, Bool.true_and]; exact ih _
    · exact ih _

theorem chainAux_mono (sched : Nat → Val → Tbl → List Store)
    (hs : ∀ i k t', storesExisting t' (sched i k t') = true) :
    ∀ (f i : Nat) (t : Tbl) (cur : OVal) (vs : List Visit) (tf : Tbl), chainAux sched f i t cur = .ok (vs, tf) →
      (∀ k, rawGet tf k ≠ none → rawGet t k ≠ none) ∧
      (∀ x ∈ vs, ∀ k, (rawGet tf k ≠ none → rawGet x.t k ≠ none) ∧ (rawGet x.t k ≠ none → rawGet t k ≠ none)) := by
  intro f
  induction f with
  | zero => intro i t cur vs tf h; simp [chainAux] at h
  | succ f ih =>
    intro i t cur vs tf h
    simp only [chainAux] at h
    cases hn : next t cur with
    | error e => rw [hn] at h; simp at h
    | ok r =>
      rw [hn] at h
      cases r with
      | none =>
        simp only [Except.ok.injEq, Prod.mk.injEq] at h
        obtain ⟨rfl, rfl⟩ := h
        exact ⟨fun _ hk => hk, by simp⟩
      | some p =>
        obtain ⟨k, v⟩ := p
        simp only at h
        cases hc : chainAux sched f (i + 1) (applyStores t (sched i k t)) (some k) with
        | error e => rw [hc] at h; simp at h
        | ok r =>
          obtain ⟨l, tf'⟩ := r
          rw [hc] at h
          simp only [Except.ok.injEq, Prod.mk.injEq] at h
          obtain ⟨rfl, rfl⟩ := h
          obtain ⟨h1, h2⟩ := ih _ _ _ _ _ hc
          have hm := applyStores_existing_mono t (sched i k t) (hs i k t)
          refine ⟨fun k' hk' => hm k' (h1 k' hk'), ?_⟩
          intro x hx k'
          rcases List.mem_cons.1 hx with e | e
          · subst e
            exact ⟨fun hk' => hm k' (h1 k' hk'), fun hk' => hk'⟩
          · exact ⟨(h2 x e k').1, fun hk' => hm k' ((h2 x e k').2 hk')⟩

/-- a schedule whose raw proposal is filtered by the slot guard (so it is admissible on every table). -/
def keepSlot (t : Tbl) : List Store → List Store
  | [] => []
  | p :: r => if p.1 ∈ slots t then p :: keepSlot (rawSet t p.1 p.2) r else keepSlot t r

theorem storesOK_keepSlot (t : Tbl) (l : List Store) : storesOK t (keepSlot t l) = true := by
  induction l generalizing t with
  | nil => rfl
  | cons p r ih =>
    simp only [keepSlot]
    split
    · rename_i h; simp only [storesOK, h, decide_true, Bool.true_and]; exact ih _
    · exact ih _

end GLua.Table
