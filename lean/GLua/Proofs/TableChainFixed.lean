import GLua.Proofs.TableChain
import GLua.Proofs.TableOps

/-!
  C09: the `Next` chain with the proposed repair of `Next` (`nextFixed`), interleaved with stores to slot keys
  **and** `Remove` (which shrinks the array part).  The frame is the one of the table the traversal started on:
  `A` array slots and the key list `K`; a later table has the same `keys`/`k2i` and an array part of length `≤ A`
  (array slots beyond the current length are dead).
-/

namespace GLua.Table
open GLua

theorem nextFixed_hash (t : Tbl) (h : Inv t) (i : Nat) (k : Val) (hk : t.keys[i]? = some k) :
    nextFixed t (some k) = .ok (scanKeys t (t.keys.drop (i + 1))) := by
  have hidx := h.keysHash k (List.mem_of_getElem? hk)
  have hf := hashFrom_at t h i k hk
  unfold nextFixed
  simp only [Option.isNone_some, Option.getD_some, Bool.false_eq_true, false_or]
  cases k with
  | int z =>
    by_cases hz : z = 0
    · subst hz; simp [hf]
    · have : ¬ (0 ≤ z ∧ z < (t.mai : Int)) := by
        simp [arrIdx] at hidx; omega
      simp [hz, this, hf]
  | flt b => simp [hf]
  | str s => simp [hf]
  | bool b => simp [hf]
  | ref n => simp [hf]

/-- `nextFixed` from nil (`i = 0`) or from an integer key `i` below `MaxArrayIndex` — wherever the array part ends. -/
theorem nextFixed_arr (t : Tbl) (h : Inv t) (key0 : OVal) (i : Nat)
    (hk : (key0 = none ∧ i = 0) ∨ (key0 = some (.int (i : Int)) ∧ 0 < i)) (hi : i < t.mai) :
    nextFixed t key0 = .ok (arrRes (scanArr t.array i) (scanKeys t t.keys)) := by
  have htail := next_tail t h
  simp only [List.isEmpty_iff] at htail
  rcases hk with ⟨rfl, rfl⟩ | ⟨rfl, h0⟩
  · unfold nextFixed
    simp [hi]
    cases hs : scanArr t.array 0 with
    | some p => obtain ⟨a, b⟩ := p; rfl
    | none => simp only [arrRes]; exact htail
  · have hne : (Val.int (i : Int)) ≠ Val.int 0 := by intro e; injection e with e; omega
    have hc : (i : Int) < (t.mai : Int) := by omega
    unfold nextFixed
    simp [hne, hc]
    cases hs : scanArr t.array i with
    | some p => obtain ⟨a, b⟩ := p; rfl
    | none => simp only [arrRes]; exact htail

/-! ### the shrinking frame -/

theorem arrSlotsAux_add (a b j : Nat) : arrSlotsAux (a + b) j = arrSlotsAux a j ++ arrSlotsAux b (j + a) := by
  induction a generalizing j with
  | zero => simp [arrSlotsAux]
  | succ a ih =>
    have e : a + 1 + b = (a + b) + 1 := by omega
    rw [e]
    simp only [arrSlotsAux, List.cons_append, ih]
    have e2 : j + 1 + a = j + (a + 1) := by omega
    rw [e2]

/-- array slots beyond the current array part are dead. -/
theorem firstLive_dead (t : Tbl) (c j : Nat) (hj : t.array.length ≤ j) (hm : j + c < t.mai) :
    firstLive t (arrSlotsAux c j) = none := by
  induction c generalizing j with
  | zero => rfl
  | succ c ih =>
    simp only [arrSlotsAux, firstLive]
    rw [rawGet_int_arr t (j + 1) (by omega) (by omega)]
    rw [List.getElem?_eq_none (by omega)]
    simp only [Option.join_none]
    exact ih (j + 1) (by omega) (by omega)

/-- the frame relation: `t` has the key list `K` and an array part of at most `A < MaxArrayIndex` slots. -/
structure InFrame (A : Nat) (K : List Val) (mai : Nat) (t : Tbl) : Prop where
  hinv  : Inv t
  hmai  : t.mai = mai
  hkeys : t.keys = K
  halen : t.array.length ≤ A
  hamai : A < mai

def frameSlots (A : Nat) (K : List Val) : List Val := arrSlotsAux A 0 ++ K

theorem frameSlots_drop_arr (A : Nat) (K : List Val) (d : Nat) (h : d ≤ A) :
    (frameSlots A K).drop d = arrSlotsAux (A - d) d ++ K := by
  unfold frameSlots
  rw [List.drop_append_of_le_length (by simpa using h), arrSlotsAux_drop]
  simp

theorem frameSlots_drop_keys (A : Nat) (K : List Val) (d : Nat) (h : A ≤ d) :
    (frameSlots A K).drop d = K.drop (d - A) := by
  unfold frameSlots
  rw [List.drop_append]
  simp only [arrSlotsAux_length]
  rw [List.drop_eq_nil_of_le (by simpa using h)]
  simp

/-- the array scan from `d`, then the keys — relative to the big frame. -/
theorem frame_scan (A : Nat) (K : List Val) (mai : Nat) (t : Tbl) (hf : InFrame A K mai t) (d : Nat) (hd : d ≤ A) :
    arrRes (scanArr t.array d) (scanKeys t t.keys) = firstLive t ((frameSlots A K).drop d) := by
  have hlt : t.array.length < t.mai := by have := hf.halen; have := hf.hamai; rw [hf.hmai]; omega
  have hA : A < t.mai := by rw [hf.hmai]; exact hf.hamai
  rw [frameSlots_drop_arr A K d hd, firstLive_append]
  rw [scanKeys_eq_firstLive t t.keys hf.hinv.keysHash, hf.hkeys]
  by_cases hda : d ≤ t.array.length
  · rw [scanArr_eq_firstLive t hlt _ t.array.length d (by omega) hda]
    have e : A - d = (t.array.length - d) + (A - t.array.length) := by have := hf.halen; omega
    rw [e, arrSlotsAux_add, firstLive_append]
    have e2 : d + (t.array.length - d) = t.array.length := by omega
    have hdead := firstLive_dead t (A - t.array.length) t.array.length (Nat.le_refl _)
      (by have := hf.halen; omega)
    rw [e2, hdead]
    cases firstLive t (arrSlotsAux (t.array.length - d) d) <;> simp
  · rw [scanArr_ge _ _ (by omega)]
    rw [firstLive_dead t _ _ (by omega) (by omega)]
    simp [arrRes]

theorem frameSlots_getElem?_arr (A : Nat) (K : List Val) (i : Nat) (h : i < A) :
    (frameSlots A K)[i]? = some (Val.int ((i + 1 : Nat) : Int)) := by
  unfold frameSlots
  rw [List.getElem?_append_left (by simpa using h), arrSlotsAux_getElem? _ _ _ h]
  congr 3; omega

theorem frameSlots_getElem?_keys (A : Nat) (K : List Val) (i : Nat) (h : A ≤ i) :
    (frameSlots A K)[i]? = K[i - A]? := by
  unfold frameSlots
  rw [List.getElem?_append_right (by simpa using h)]
  simp

theorem nextFixed_frame_nil (A : Nat) (K : List Val) (mai : Nat) (t : Tbl) (hf : InFrame A K mai t) :
    nextFixed t none = .ok (firstLive t (frameSlots A K)) := by
  have hA : 0 < t.mai := by rw [hf.hmai]; have := hf.hamai; omega
  rw [nextFixed_arr t hf.hinv none 0 (Or.inl ⟨rfl, rfl⟩) hA, frame_scan A K mai t hf 0 (by omega)]
  rfl

theorem nextFixed_frame (A : Nat) (K : List Val) (mai : Nat) (t : Tbl) (hf : InFrame A K mai t) (i : Nat) (k : Val)
    (hk : (frameSlots A K)[i]? = some k) :
    nextFixed t (some k) = .ok (firstLive t ((frameSlots A K).drop (i + 1))) := by
  by_cases hi : i < A
  · rw [frameSlots_getElem?_arr A K i hi] at hk
    injection hk with hk
    subst hk
    have hA : i + 1 < t.mai := by rw [hf.hmai]; have := hf.hamai; omega
    rw [nextFixed_arr t hf.hinv _ (i + 1) (Or.inr ⟨rfl, by omega⟩) hA, frame_scan A K mai t hf (i + 1) (by omega)]
  · rw [frameSlots_getElem?_keys A K i (by omega), ← hf.hkeys] at hk
    rw [nextFixed_hash t hf.hinv _ k hk]
    rw [frameSlots_drop_keys A K (i + 1) (by omega)]
    have e : i + 1 - A = i - A + 1 := by omega
    rw [e, ← hf.hkeys]
    rw [scanKeys_eq_firstLive]
    intro k' hk'
    exact hf.hinv.keysHash k' (List.mem_of_mem_drop hk')

theorem frame_present (A : Nat) (K : List Val) (mai : Nat) (t : Tbl) (hf : InFrame A K mai t) {k : Val}
    (hk : rawGet t k ≠ none) : k ∈ frameSlots A K := by
  have := present_mem_slots hf.hinv hk
  unfold slots at this
  unfold frameSlots
  rw [List.mem_append] at this ⊢
  rcases this with h1 | h1
  · left
    obtain ⟨i, a, b, c⟩ := (mem_arrSlotsAux _ _ _).1 h1
    exact (mem_arrSlotsAux _ _ _).2 ⟨i, a, by have := hf.halen; omega, c⟩
  · right; rw [← hf.hkeys]; exact h1

theorem frameSlots_nodup (A : Nat) (K : List Val) (mai : Nat) (t : Tbl) (hf : InFrame A K mai t) :
    (frameSlots A K).Nodup := by
  unfold frameSlots
  rw [List.nodup_append]
  refine ⟨arrSlotsAux_nodup _ _, by rw [← hf.hkeys]; exact hf.hinv.keysNodup, ?_⟩
  intro a ha b hb e
  subst e
  obtain ⟨i, h1, h2, rfl⟩ := (mem_arrSlotsAux _ _ _).1 ha
  have := hf.hinv.keysHash _ (by rw [hf.hkeys]; exact hb)
  rw [arrIdx_int (by omega) (by rw [hf.hmai]; have := hf.hamai; omega)] at this
  cases this

/-! ### modifications: stores to slot keys and `Remove` -/

inductive Mod where
  | store (k : Val) (v : OVal)    -- `t[k] = v`
  | remove (pos : Int)            -- `table.remove(t, pos)` / `LTable.Remove(pos)`

def applyMod (t : Tbl) : Mod → Tbl
  | .store k v => rawSet t k v
  | .remove pos => (remove t pos).1

def applyMods (t : Tbl) (l : List Mod) : Tbl := l.foldl applyMod t

/-- decidable guard: stores only to keys that have a slot at that moment; `Remove` is always allowed. -/
def modsOK (t : Tbl) : List Mod → Bool
  | [] => true
  | .store k v :: r => decide (k ∈ slots t) && modsOK (rawSet t k v) r
  | .remove pos :: r => modsOK (remove t pos).1 r

theorem remove_frame (t : Tbl) (pos : Int) :
    (remove t pos).1.keys = t.keys ∧ (remove t pos).1.array.length ≤ t.array.length := by
  unfold remove
  simp only
  split
  · exact ⟨rfl, Nat.le_refl _⟩
  · split
    · exact ⟨rfl, Nat.le_refl _⟩
    · split
      · exact ⟨rfl, by simp⟩
      · refine ⟨rfl, ?_⟩
        simp only [List.length_eraseIdx]; split <;> omega

theorem rawSet_slot_keys (t : Tbl) (h : Inv t) (hm : 0 < t.mai) (k : Val) (v : OVal) (hk : k ∈ slots t) :
    (rawSet t k v).keys = t.keys ∧ (rawSet t k v).array.length = t.array.length := by
  have hs := rawSet_slot t h hm k v hk
  unfold slots at hs
  have hl := congrArg List.length hs
  simp only [List.length_append, arrSlotsAux_length] at hl
  -- keys only ever grows by appending: compare lengths via the two components
  have hkeys : (rawSet t k v).keys = t.keys ∨ ∃ x, (rawSet t k v).keys = t.keys ++ [x] := by
    unfold rawSet
    split
    · left; simp only [setArr]; split; rfl; split <;> rfl
    · split
      · unfold rawSetString
        cases v with
        | none => left; rfl
        | some x => simp only; unfold noteKey; split; left; rfl; right; exact ⟨k, rfl⟩
      · unfold rawSetH
        split
        · unfold rawSetString
          cases v with
          | none => left; rfl
          | some x => simp only; unfold noteKey; split; left; rfl; right; exact ⟨k, rfl⟩
        · cases v with
          | none => left; rfl
          | some x => simp only; unfold noteKey; split; left; rfl; right; exact ⟨k, rfl⟩
  have halen : t.array.length ≤ (rawSet t k v).array.length := by
    unfold rawSet
    split
    · simp only [setArr]; split
      · simp
      · split
        · simp only [List.length_append, List.length_replicate, List.length_cons, List.length_nil]; omega
        · simp
    · split
      · rw [(rawSetString_get t k v).1]; exact Nat.le_refl _
      · unfold rawSetH
        split
        · rw [(rawSetString_get t k v).1]; exact Nat.le_refl _
        · cases v with
          | none => exact Nat.le_refl _
          | some x => simp only; rw [(noteKey_fields _ k).1]; exact Nat.le_refl _
  rcases hkeys with e | ⟨x, e⟩
  · rw [e] at hl; exact ⟨e, by omega⟩
  · rw [e] at hl; simp at hl; omega

theorem applyMods_frame (A : Nat) (K : List Val) (mai : Nat) (t : Tbl) (hf : InFrame A K mai t)
    (l : List Mod) (hl : modsOK t l = true) : InFrame A K mai (applyMods t l) := by
  induction l generalizing t with
  | nil => exact hf
  | cons m r ih =>
    have hm : 0 < t.mai := by rw [hf.hmai]; have := hf.hamai; omega
    cases m with
    | store k v =>
      simp only [modsOK, Bool.and_eq_true, decide_eq_true_eq] at hl
      obtain ⟨e1, e2⟩ := rawSet_slot_keys t hf.hinv hm k v hl.1
      exact ih (rawSet t k v) ⟨inv_rawSet t k v hf.hinv, by rw [rawSet_mai]; exact hf.hmai, by rw [e1]; exact hf.hkeys,
        by rw [e2]; exact hf.halen, hf.hamai⟩ hl.2
    | remove pos =>
      simp only [modsOK] at hl
      obtain ⟨e1, e2⟩ := remove_frame t pos
      exact ih (remove t pos).1 ⟨inv_remove t hf.hinv pos, by rw [remove_mai]; exact hf.hmai, by rw [e1]; exact hf.hkeys,
        by have := hf.halen; omega, hf.hamai⟩ hl

/-! ### the chain -/

def chainFixedAux (sched : Nat → Val → Tbl → List Mod) : Nat → Nat → Tbl → OVal → Except Err (List Visit × Tbl)
  | 0, _, _, _ => .error (.goPanic "chain: did not terminate")
  | f + 1, i, t, cur =>
    match nextFixed t cur with
    | .error e => .error e
    | .ok none => .ok ([], t)
    | .ok (some (k, v)) =>
      match chainFixedAux sched f (i + 1) (applyMods t (sched i k t)) (some k) with
      | .error e => .error e
      | .ok (l, tf) => .ok (⟨t, k, v⟩ :: l, tf)

def chainFixed (sched : Nat → Val → Tbl → List Mod) (t : Tbl) : Except Err (List Visit × Tbl) :=
  chainFixedAux sched ((slots t).length + 1) 0 t none

theorem chainFixedAux_spec (sched : Nat → Val → Tbl → List Mod)
    (hs : ∀ i k (t' : Tbl), Inv t' → modsOK t' (sched i k t') = true) (A : Nat) (K : List Val) (mai : Nat) :
    ∀ (f i : Nat) (t : Tbl) (cur : OVal) (d : Nat), InFrame A K mai t →
      ((cur = none ∧ d = 0) ∨ (∃ k, cur = some k ∧ 0 < d ∧ (frameSlots A K)[d - 1]? = some k)) →
      (frameSlots A K).length - d + 1 ≤ f →
      ∃ vs tf, chainFixedAux sched f i t cur = .ok (vs, tf) ∧ InFrame A K mai tf ∧
        (vs.map (·.k)).Sublist ((frameSlots A K).drop d) ∧
        (∀ x ∈ vs, rawGet x.t x.k = some x.v) ∧
        (∀ k ∈ (frameSlots A K).drop d, rawGet tf k ≠ none → (∀ x ∈ vs, rawGet x.t k ≠ none) → k ∈ vs.map (·.k)) := by
  intro f
  induction f with
  | zero => intro i t cur d _ _ hf; omega
  | succ f ih =>
    intro i t cur d hF hcur hf
    have hnext : nextFixed t cur = .ok (firstLive t ((frameSlots A K).drop d)) := by
      rcases hcur with ⟨rfl, rfl⟩ | ⟨k, rfl, hd, hk⟩
      · rw [nextFixed_frame_nil A K mai t hF]; rfl
      · rw [nextFixed_frame A K mai t hF (d - 1) k hk]
        have : d - 1 + 1 = d := by omega
        rw [this]
    cases hfl : firstLive t ((frameSlots A K).drop d) with
    | none =>
      refine ⟨[], t, ?_, hF, by simp, by simp, ?_⟩
      · simp only [chainFixedAux, hnext, hfl]
      · intro k hk hne _
        exact absurd (firstLive_none hfl k hk) hne
    | some p =>
      obtain ⟨k, v⟩ := p
      obtain ⟨pre, post, hsplit, hpre, hkv⟩ := firstLive_some hfl
      have hF2 := applyMods_frame A K mai t hF (sched i k t) (hs i k t hF.hinv)
      have hlen : (frameSlots A K).length - d = pre.length + 1 + post.length := by
        have := congrArg List.length hsplit
        simp only [List.length_drop, List.length_append, List.length_cons] at this
        omega
      have hidx : (frameSlots A K)[d + pre.length + 1 - 1]? = some k := by
        have e : d + pre.length + 1 - 1 = d + pre.length := by omega
        rw [e]
        have := List.getElem?_drop (xs := frameSlots A K) (i := d) (j := pre.length)
        rw [← this, hsplit]
        simp
      have hdrop : (frameSlots A K).drop (d + pre.length + 1) = post := by
        have : (frameSlots A K).drop (d + pre.length + 1) = ((frameSlots A K).drop d).drop (pre.length + 1) := by
          rw [List.drop_drop]; congr 1
        rw [this, hsplit]
        simp
      obtain ⟨vs, tf, hc, hFf, hsub, hvis, hall⟩ :=
        ih (i + 1) (applyMods t (sched i k t)) (some k) (d + pre.length + 1) hF2
          (Or.inr ⟨k, rfl, by omega, hidx⟩) (by omega)
      refine ⟨⟨t, k, v⟩ :: vs, tf, ?_, hFf, ?_, ?_, ?_⟩
      · simp only [chainFixedAux, hnext, hfl, hc]
      · rw [hsplit]
        simp only [List.map_cons]
        apply List.sublist_append_of_sublist_right
        apply List.Sublist.cons_cons
        rw [← hdrop]; exact hsub
      · intro x hx
        rcases List.mem_cons.1 hx with e | e
        · subst e; exact hkv
        · exact hvis x e
      · intro k' hk' hne hall'
        rw [hsplit] at hk'
        simp only [List.map_cons, List.mem_cons]
        rcases List.mem_append.1 hk' with e | e
        · exact absurd (hpre k' e) (hall' ⟨t, k, v⟩ (List.mem_cons_self ..))
        · rcases List.mem_cons.1 e with e | e
          · left; exact e
          · right
            apply hall k' (by rw [hdrop]; exact e) hne
            intro x hx
            exact hall' x (List.mem_cons_of_mem _ hx)

/-- **with the repair, the traversal is complete also under `Remove`**: for every table satisfying the invariant and
    every schedule of stores to slot keys and `Remove` calls, the `nextFixed` chain from nil terminates without panic,
    returns no key twice, returns each key with its value at that moment, and returns every key that is present at
    each call of the chain. -/
theorem chainFixed_complete (sched : Nat → Val → Tbl → List Mod)
    (hs : ∀ i k (t' : Tbl), Inv t' → modsOK t' (sched i k t') = true) (t : Tbl) (h : Inv t) (hm : 0 < t.mai) :
    ∃ vs tf, chainFixed sched t = .ok (vs, tf) ∧
      vs.length ≤ t.array.length + t.keys.length ∧
      (vs.map (·.k)).Nodup ∧
      (∀ x ∈ vs, rawGet x.t x.k = some x.v) ∧
      (∀ k, rawGet tf k ≠ none → (∀ x ∈ vs, rawGet x.t k ≠ none) → k ∈ vs.map (·.k)) := by
  have hF : InFrame t.array.length t.keys t.mai t := ⟨h, rfl, rfl, Nat.le_refl _, h.alen_lt hm⟩
  have hS : frameSlots t.array.length t.keys = slots t := rfl
  obtain ⟨vs, tf, hc, hFf, hsub, hvis, hall⟩ :=
    chainFixedAux_spec sched hs t.array.length t.keys t.mai ((slots t).length + 1) 0 t none 0 hF
      (Or.inl ⟨rfl, rfl⟩) (by rw [hS]; omega)
  simp only [List.drop_zero] at hsub hall
  refine ⟨vs, tf, hc, ?_, hsub.nodup (frameSlots_nodup _ _ _ t hF), hvis, ?_⟩
  · have := hsub.length_le
    simp only [List.length_map] at this
    unfold frameSlots at this
    simpa using this
  · intro k hne hall'
    exact hall k (frame_present _ _ _ tf hFf hne) hne hall'

/-- the repair changes nothing for a key inside the array part, a key of the hash part, or nil. -/
theorem nextFixed_eq_next (t : Tbl) (h : Inv t) (hm : 0 < t.mai) (cur : OVal)
    (hc : cur = none ∨ ∃ (i : Nat) (k : Val), (slots t)[i]? = some k ∧ cur = some k) : nextFixed t cur = next t cur := by
  have hF : InFrame t.array.length t.keys t.mai t := ⟨h, rfl, rfl, Nat.le_refl _, h.alen_lt hm⟩
  have hS : frameSlots t.array.length t.keys = slots t := rfl
  rcases hc with rfl | ⟨i, k, hk, rfl⟩
  · rw [nextFixed_frame_nil _ _ _ t hF, next_slots_nil t h hm, hS]
  · rw [nextFixed_frame _ _ _ t hF i k (by rw [hS]; exact hk), next_slots t h hm i k hk, hS]

end GLua.Table
