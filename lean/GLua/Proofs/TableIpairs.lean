import GLua.Proofs.TableOps

/-!
  C09: `ipairs` visits 1..n up to the first nil; the exact condition under which `Len` is a border.
-/

namespace GLua.Table
open GLua GLua.TableSpec

/-! ### `ipairs` -/

theorem ipairsAux_eq (t : Tbl) (i : Int) :
    ipairsAux t i = (rawGet t (.int (i + 1))).map (fun v => (i + 1, v)) := by
  unfold ipairsAux
  rw [rawGetInt_eq_rawGet]
  cases rawGet t (.int (i + 1)) <;> rfl

/-- if `1 … n` are present and `n+1` is not, the `ipairs` loop started at control value `i` (`i + d = n`) makes
    `d` visits `i+1 … n` in order, each with its value, and stops. -/
theorem ipairsRun_from (t : Tbl) (n : Nat)
    (hpres : ∀ j : Nat, 1 ≤ j → j ≤ n → rawGet t (.int (j : Int)) ≠ none)
    (hnil : rawGet t (.int ((n + 1 : Nat) : Int)) = none) :
    ∀ (d i fuel : Nat), i + d = n → d < fuel →
      ∃ l, ipairsRun t fuel (i : Int) = some l ∧ l.length = d ∧
        ∀ j < d, ∃ v, rawGet t (.int ((i + j + 1 : Nat) : Int)) = some v ∧
          l[j]? = some (((i + j + 1 : Nat) : Int), v) := by
  intro d
  induction d with
  | zero =>
    intro i fuel hi hf
    obtain ⟨f, rfl⟩ : ∃ f, fuel = f + 1 := ⟨fuel - 1, by omega⟩
    refine ⟨[], ?_, rfl, fun j hj => by omega⟩
    have e : ((i : Int) + 1) = ((n + 1 : Nat) : Int) := by omega
    simp only [ipairsRun, ipairsAux_eq, e, hnil]; rfl
  | succ d ih =>
    intro i fuel hi hf
    obtain ⟨f, rfl⟩ : ∃ f, fuel = f + 1 := ⟨fuel - 1, by omega⟩
    have e : ((i : Int) + 1) = ((i + 1 : Nat) : Int) := by omega
    cases hv : rawGet t (.int ((i + 1 : Nat) : Int)) with
    | none => exact absurd hv (hpres (i + 1) (by omega) (by omega))
    | some v =>
      obtain ⟨l, hl, hlen, hall⟩ := ih (i + 1) f (by omega) (by omega)
      refine ⟨(((i + 1 : Nat) : Int), v) :: l, ?_, by simp [hlen], ?_⟩
      · simp only [ipairsRun, ipairsAux_eq, e, hv, Option.map_some, hl]
      · intro j hj
        cases j with
        | zero => exact ⟨v, hv, rfl⟩
        | succ j =>
          obtain ⟨w, hw1, hw2⟩ := hall j (by omega)
          have e2 : i + 1 + j + 1 = i + (j + 1) + 1 := by omega
          rw [e2] at hw1 hw2
          exact ⟨w, hw1, by simpa using hw2⟩

/-- a first nil exists among the positive integers: at most `len(array) + len(dict)` of them are present. -/
theorem first_nil_exists (t : Tbl) (h : Inv t) (hm : 0 < t.mai) :
    ∃ n : Nat, n ≤ t.array.length + t.dict.length ∧
      (∀ j : Nat, 1 ≤ j → j ≤ n → rawGet t (.int (j : Int)) ≠ none) ∧
      rawGet t (.int ((n + 1 : Nat) : Int)) = none := by
  have hlt : t.array.length < t.mai := by
    rcases h.arrLt with h1 | h1
    · exact h1
    · rw [h1]; exact hm
  -- either a prefix of length m is present, or the first nil comes before
  have step : ∀ m : Nat, (∀ j : Nat, 1 ≤ j → j ≤ m → rawGet t (.int (j : Int)) ≠ none) ∨
      ∃ n : Nat, n < m ∧ (∀ j : Nat, 1 ≤ j → j ≤ n → rawGet t (.int (j : Int)) ≠ none) ∧
        rawGet t (.int ((n + 1 : Nat) : Int)) = none := by
    intro m
    induction m with
    | zero => left; intro j h1 h2; omega
    | succ m ih =>
      rcases ih with ih | ⟨n, hn, h1, h2⟩
      · by_cases hp : rawGet t (.int ((m + 1 : Nat) : Int)) = none
        · right; exact ⟨m, by omega, ih, hp⟩
        · left
          intro j h1 h2
          by_cases e : j = m + 1
          · rw [e]; exact hp
          · exact ih j h1 (by omega)
      · right; exact ⟨n, by omega, h1, h2⟩
  rcases step (t.array.length + t.dict.length + 1) with hall | ⟨n, hn, h1, h2⟩
  · exfalso
    -- key len(array)+1 is present, so it is not an array key: len(array)+1 = MaxArrayIndex
    have hk := hall (t.array.length + 1) (by omega) (by omega)
    have hmai : t.array.length + 1 = t.mai := by
      apply Classical.byContradiction
      intro hne
      apply hk
      rw [rawGet_int_arr t (t.array.length + 1) (by omega) (by omega)]
      rw [List.getElem?_eq_none (by omega)]; rfl
    -- the keys MaxArrayIndex … MaxArrayIndex + len(dict) are all in dict: one too many
    let L : List Val := (List.range (t.dict.length + 1)).map (fun i => Val.int ((t.mai + i : Nat) : Int))
    have hnd : L.Nodup := by
      simp only [L, List.Nodup, List.pairwise_map]
      exact List.Pairwise.imp (fun {a b} (hab : a ≠ b) e => by injection e with e; omega) List.nodup_range
    have hsub : L ⊆ alKeys t.dict := by
      intro k hk
      simp only [L, List.mem_map, List.mem_range] at hk
      obtain ⟨i, hi, rfl⟩ := hk
      have hp := hall (t.mai + i) (by omega) (by omega)
      have hidx : arrIdx t.mai (Val.int ((t.mai + i : Nat) : Int)) = none := by
        simp [arrIdx]; omega
      unfold rawGet at hp
      rw [hidx] at hp
      simp only [isStr, Bool.false_eq_true, if_false] at hp
      apply Classical.byContradiction
      intro hn
      exact hp (alGet_none_of_not_mem _ _ hn)
    have := hnd.length_le_of_subset hsub
    simp [L, alKeys] at this
    omega
  · exact ⟨n, by omega, h1, h2⟩

/-! ### the exact border condition -/

/-- **`Len` returns a border exactly when** it is not the case that the array part is full up to
    `MaxArrayIndex-1` *and* `t[MaxArrayIndex]` (which lives in the hash part) is present. -/
theorem len_is_border_iff (t : Tbl) (h : Inv t) (hm : 0 < t.mai) :
    isBorder (rawGet t) (len t) ↔ ¬ (len t + 1 = t.mai ∧ rawGet t (.int (t.mai : Int)) ≠ none) := by
  have hlt : t.array.length < t.mai := by
    rcases h.arrLt with h1 | h1
    · exact h1
    · rw [h1]; exact hm
  have hle := lastNonNil_le t.array
  unfold isBorder len
  by_cases h0 : lastNonNil t.array = 0
  · rw [h0]
    by_cases h1 : 1 < t.mai
    · have e : rawGet t (.int 1) = none := by
        have this : rawGet t (.int 1) = _ := rawGet_int_arr t 1 (by omega) h1
        rw [this]
        exact lastNonNil_after t.array 0 (by omega)
      constructor
      · intro _ hc; omega
      · intro _; left; exact ⟨rfl, e⟩
    · have e : (t.mai : Int) = 1 := by omega
      rw [e]
      constructor
      · rintro (⟨_, hh⟩ | ⟨hh, _⟩) hc
        · exact hc.2 hh
        · omega
      · intro hc
        left
        refine ⟨rfl, ?_⟩
        apply Classical.byContradiction
        intro hne
        exact hc ⟨by omega, hne⟩
  · have hat : rawGet t (.int (lastNonNil t.array : Int)) ≠ none := by
      rw [rawGet_int_arr t _ (by omega) (by omega)]
      exact lastNonNil_at t.array (by omega)
    by_cases h1 : lastNonNil t.array + 1 < t.mai
    · have e : rawGet t (.int ((lastNonNil t.array : Int) + 1)) = none := by
        have e0 : ((lastNonNil t.array : Int) + 1) = ((lastNonNil t.array + 1 : Nat) : Int) := by omega
        rw [e0, rawGet_int_arr t (lastNonNil t.array + 1) (by omega) h1]
        exact lastNonNil_after t.array _ (by omega)
      constructor
      · intro _ hc; omega
      · intro _; right; exact ⟨by omega, hat, e⟩
    · have e : ((lastNonNil t.array : Int) + 1) = (t.mai : Int) := by omega
      rw [e]
      constructor
      · rintro (⟨hh, _⟩ | ⟨_, _, hh⟩) hc
        · omega
        · exact hc.2 hh
      · intro hc
        right
        refine ⟨by omega, hat, ?_⟩
        apply Classical.byContradiction
        intro hne
        exact hc ⟨by omega, hne⟩

end GLua.Table
