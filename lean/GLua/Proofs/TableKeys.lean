import GLua.Proofs.Table

/-!
  C09: key normalisation — the canonical key of a number as a function of its float64 bit pattern.
-/

namespace GLua.Table
open GLua

theorem f64sh_pos (bits : Nat) : 1 ≤ f64sh bits := by
  unfold f64sh; split <;> omega

theorem signed_mul (neg : Bool) (a b : Nat) : signed neg (a * b) = signed neg a * (b : Int) := by
  unfold signed; cases neg <;> simp [Int.natCast_mul, Int.neg_mul]

/-- if `± m·2^(s−(c+1))` is the integer `z`, then `± m·2^(s−1) = z·2^c`. -/
theorem scaledInt?_value (neg : Bool) (m s c : Nat) (z : Int) (hs : 1 ≤ s) (h : scaledInt? neg m s c = some z) :
    signed neg (m * 2 ^ (s - 1)) = z * ((2 ^ c : Nat) : Int) := by
  unfold scaledInt? at h
  split at h
  · rename_i h1
    injection h with h; subst h
    have e : s - 1 = (s - (c + 1)) + c := by omega
    rw [e, Nat.pow_add, ← Nat.mul_assoc, signed_mul]
  · split at h
    · rename_i h1 h2
      injection h with h; subst h
      have e : (2 : Nat) ^ c = 2 ^ (c + 1 - s) * 2 ^ (s - 1) := by
        rw [← Nat.pow_add]; congr 1; omega
      have e2 : m / 2 ^ (c + 1 - s) * 2 ^ (c + 1 - s) = m := Nat.div_mul_cancel (Nat.dvd_of_mod_eq_zero h2)
      have e3 : m * 2 ^ (s - 1) = m / 2 ^ (c + 1 - s) * 2 ^ c := by
        rw [e, ← Nat.mul_assoc, e2]
      rw [e3, signed_mul]
    · cases h

/-- conversely: if `± m·2^(s−1) = z·2^c` for an integer `z`, the classifier finds `z`. -/
theorem scaledInt?_complete (neg : Bool) (m s c : Nat) (z : Int) (hs : 1 ≤ s)
    (h : signed neg (m * 2 ^ (s - 1)) = z * ((2 ^ c : Nat) : Int)) : scaledInt? neg m s c = some z := by
  have hP : (0 : Int) < ((2 ^ c : Nat) : Int) := Int.natCast_pos.2 (Nat.two_pow_pos c)
  -- the magnitude of z
  have key : ∀ a : Nat, m * 2 ^ (s - 1) = a * 2 ^ c → signed neg a = z → scaledInt? neg m s c = some z := by
    intro a ha hz
    unfold scaledInt?
    by_cases h1 : c + 1 ≤ s
    · rw [if_pos h1]
      have e : s - 1 = (s - (c + 1)) + c := by omega
      rw [e, Nat.pow_add, ← Nat.mul_assoc] at ha
      have := Nat.eq_of_mul_eq_mul_right (Nat.two_pow_pos c) ha
      rw [this, hz]
    · rw [if_neg h1]
      have e : (2 : Nat) ^ c = 2 ^ (c + 1 - s) * 2 ^ (s - 1) := by
        rw [← Nat.pow_add]; congr 1; omega
      rw [e, ← Nat.mul_assoc] at ha
      have hm : m = a * 2 ^ (c + 1 - s) := Nat.eq_of_mul_eq_mul_right (Nat.two_pow_pos _) ha
      have h2 : m % 2 ^ (c + 1 - s) = 0 := by rw [hm]; exact Nat.mul_mod_left _ _
      rw [if_pos h2]
      have : m / 2 ^ (c + 1 - s) = a := by
        rw [hm]; exact Nat.mul_div_cancel _ (Nat.two_pow_pos _)
      rw [this, hz]
  cases neg with
  | false =>
    simp only [signed, Bool.false_eq_true, if_false] at h key
    have hz : 0 ≤ z := by
      apply Classical.byContradiction
      intro hn
      have : z * ((2 ^ c : Nat) : Int) < 0 := Int.mul_neg_of_neg_of_pos (by omega) hP
      omega
    have hc : (z.toNat : Int) = z := Int.toNat_of_nonneg hz
    apply key z.toNat ?_ hc
    apply Int.natCast_inj.1
    rw [Int.natCast_mul z.toNat, hc]; exact h
  | true =>
    simp only [signed, if_true] at h key
    have hz : z ≤ 0 := by
      apply Classical.byContradiction
      intro hn
      have : 0 < z * ((2 ^ c : Nat) : Int) := Int.mul_pos (by omega) hP
      omega
    have hc : ((-z).toNat : Int) = -z := Int.toNat_of_nonneg (by omega)
    apply key (-z).toNat ?_ (by rw [hc]; omega)
    apply Int.natCast_inj.1
    rw [Int.natCast_mul (-z).toNat, hc, Int.neg_mul]; omega

theorem scaledInt?_trunc (neg : Bool) (m s c : Nat) (z : Int) (h : scaledInt? neg m s c = some z) :
    scaledTrunc neg m s c = z := by
  unfold scaledInt? at h
  unfold scaledTrunc
  split at h
  · rename_i h1; rw [if_pos h1]; injection h
  · rename_i h1
    rw [if_neg h1]
    split at h
    · injection h
    · cases h

/-- the exact value of a finite double, scaled by `2^1074` (an integer: the smallest subnormal is `2^-1074`). -/
def f64scaled (bits : Nat) : Int := signed (f64neg bits) (f64mant bits * 2 ^ (f64sh bits - 1))

/-- **the integer key is the exact value**: if the classifier says `z`, the double's value is `z`. -/
theorem f64int?_value (bits : Nat) (z : Int) (h : f64int? bits = some z) :
    f64scaled bits = z * ((2 ^ 1074 : Nat) : Int) := by
  unfold f64int? at h
  split at h
  · cases h
  · exact scaledInt?_value _ _ _ 1074 z (f64sh_pos bits) h

/-- **every finite integral value is found**: if the double's value is the integer `z`, the classifier says `z`. -/
theorem f64int?_complete (bits : Nat) (z : Int) (hf : f64exp bits ≠ 2047)
    (h : f64scaled bits = z * ((2 ^ 1074 : Nat) : Int)) : f64int? bits = some z := by
  unfold f64int?
  rw [if_neg hf]
  exact scaledInt?_complete _ _ _ 1074 z (f64sh_pos bits) h

theorem f64int?_trunc (bits : Nat) (z : Int) (h : f64int? bits = some z) : f64trunc bits = z := by
  unfold f64int? at h
  split at h
  · cases h
  · exact scaledInt?_trunc _ _ _ _ z h

theorem f64int?_finite (bits : Nat) (z : Int) (h : f64int? bits = some z) : f64exp bits ≠ 2047 := by
  unfold f64int? at h
  split at h
  · cases h
  · assumption

theorem notNaN_of_finite (bits : Nat) (h : f64exp bits ≠ 2047) : isNaNBits bits = false := by
  unfold isNaNBits; simp [h]

/-- **array routing agrees with the Go classifier**: `isArrayKey` (computed as the Go code does, through `int64(v)`)
    holds exactly for the numbers whose canonical key is an array index of the Model. -/
theorem goIsArrayKey_iff (mai : Nat) (hmai : (mai : Int) ≤ 2 ^ 63) (bits : Nat) :
    goIsArrayKey mai bits = true ↔ ∃ k n, numKey bits = some k ∧ arrIdx mai k = some n := by
  constructor
  · intro h
    unfold goIsArrayKey goIsInteger at h
    simp only [Bool.and_eq_true, beq_iff_eq, decide_eq_true_eq] at h
    obtain ⟨⟨⟨h1, _⟩, h3⟩, h4⟩ := h
    have hf := f64int?_finite bits _ h1
    refine ⟨.int (goInt64 bits), (goInt64 bits).toNat, ?_, ?_⟩
    · unfold numKey; rw [notNaN_of_finite bits hf, h1]; rfl
    · simp [arrIdx, h3, h4]
  · rintro ⟨k, n, hk, hn⟩
    obtain ⟨rfl, hn0, hn1⟩ := arrIdx_some hn
    unfold numKey at hk
    split at hk
    · cases hk
    · cases hz : f64int? bits with
      | none => rw [hz] at hk; simp at hk
      | some z =>
        rw [hz] at hk
        simp only [Option.some.injEq, Val.int.injEq] at hk
        subst hk
        have ht := f64int?_trunc bits _ hz
        have hf := f64int?_finite bits _ hz
        have hg : goInt64 bits = (n : Int) := by
          unfold goInt64
          rw [if_neg hf, ht]
          rw [if_pos ⟨by omega, by omega⟩]
        unfold goIsArrayKey goIsInteger
        rw [hg, hz]
        simp only [Bool.and_eq_true, beq_iff_eq, decide_eq_true_eq]
        exact ⟨⟨⟨trivial, by omega⟩, by omega⟩, by omega⟩

/-- the canonical key of a number is a number key. -/
theorem numKey_is_number (bits : Nat) (k : Val) (h : numKey bits = some k) :
    (∃ z, k = .int z) ∨ k = .flt bits := by
  unfold numKey at h
  split at h
  · cases h
  · cases hz : f64int? bits with
    | none => rw [hz] at h; right; simpa using h.symm
    | some z => rw [hz] at h; left; exact ⟨z, by simpa using h.symm⟩

/-- **number keys compare by value** (the part that needs no uniqueness of IEEE encodings):
    equal keys have equal values; and equal values have equal keys as soon as the value is integral — the only
    case in which two different spellings of one value exist (`+0`/`-0`). -/
theorem numKey_value (b1 b2 : Nat) (h1 : f64exp b1 ≠ 2047) (h2 : f64exp b2 ≠ 2047) :
    (numKey b1 = numKey b2 → f64scaled b1 = f64scaled b2) ∧
    (f64scaled b1 = f64scaled b2 → (∃ z, f64int? b1 = some z) → numKey b1 = numKey b2) := by
  have n1 := notNaN_of_finite b1 h1
  have n2 := notNaN_of_finite b2 h2
  constructor
  · intro h
    unfold numKey at h
    rw [n1, n2] at h
    simp only [Bool.false_eq_true, if_false] at h
    cases hz1 : f64int? b1 with
    | none =>
      cases hz2 : f64int? b2 with
      | none => rw [hz1, hz2] at h; simp at h; rw [h]
      | some z2 => rw [hz1, hz2] at h; simp at h
    | some z1 =>
      cases hz2 : f64int? b2 with
      | none => rw [hz1, hz2] at h; simp at h
      | some z2 =>
        rw [hz1, hz2] at h
        simp only [Option.some.injEq, Val.int.injEq] at h
        subst h
        rw [f64int?_value b1 z1 hz1, f64int?_value b2 z1 hz2]
  · rintro h ⟨z, hz⟩
    have hv := f64int?_value b1 z hz
    rw [h] at hv
    have hz2 := f64int?_complete b2 z h2 hv
    unfold numKey
    rw [n1, n2, hz, hz2]

/-! ### uniqueness of the IEEE-754 encoding of a non-zero finite value -/

theorem signed_eq (n1 n2 : Bool) (a1 a2 : Nat) (h : signed n1 a1 = signed n2 a2) (ha : 0 < a1) :
    n1 = n2 ∧ a1 = a2 := by
  unfold signed at h
  cases n1 <;> cases n2 <;> simp only [Bool.false_eq_true, if_false, if_true] at h
  · exact ⟨rfl, by omega⟩
  · exfalso; omega
  · exfalso; omega
  · exact ⟨rfl, by omega⟩

/-- normalised significands: `m·2^(s−1)` determines `(m, s)` when `m` is in the subnormal range with `s = 1` or in
    the normal range `[2^52, 2^53)`. -/
theorem mant_unique_le (m1 s1 m2 s2 : Nat) (hs1 : 1 ≤ s1) (hle : s1 ≤ s2)
    (hm1 : m1 < 2 ^ 53) (hn2 : s2 = 1 ∨ 2 ^ 52 ≤ m2)
    (h : m1 * 2 ^ (s1 - 1) = m2 * 2 ^ (s2 - 1)) (hpos : 0 < m1) : s1 = s2 ∧ m1 = m2 := by
  have e : s2 - 1 = (s2 - s1) + (s1 - 1) := by omega
  rw [e, Nat.pow_add, ← Nat.mul_assoc] at h
  have hm : m1 = m2 * 2 ^ (s2 - s1) := Nat.eq_of_mul_eq_mul_right (Nat.two_pow_pos _) h
  by_cases hd : s2 - s1 = 0
  · rw [hd] at hm
    exact ⟨by omega, by omega⟩
  · exfalso
    obtain ⟨d, hd'⟩ : ∃ d, s2 - s1 = d + 1 := ⟨s2 - s1 - 1, by omega⟩
    rw [hd', Nat.pow_succ, ← Nat.mul_assoc] at hm
    have h1 : 1 ≤ 2 ^ d := Nat.two_pow_pos d
    have h2 : m2 * 1 ≤ m2 * 2 ^ d := Nat.mul_le_mul_left m2 h1
    rcases hn2 with hn2 | hn2
    · omega
    · omega

theorem f64_fields_bound (bits : Nat) : f64frac bits < 2 ^ 52 ∧ f64exp bits < 2048 := by
  unfold f64frac f64exp; omega

theorem f64mant_lt (bits : Nat) : f64mant bits < 2 ^ 53 := by
  have := (f64_fields_bound bits).1
  unfold f64mant; split <;> omega

theorem f64_norm (bits : Nat) : f64sh bits = 1 ∨ 2 ^ 52 ≤ f64mant bits := by
  unfold f64sh f64mant
  by_cases h : f64exp bits = 0
  · left; simp [h]
  · right; simp only [h, if_false]; omega

theorem f64_fields_eq (b1 b2 : Nat) (h1 : b1 < 2 ^ 64) (h2 : b2 < 2 ^ 64)
    (hn : f64neg b1 = f64neg b2) (he : f64exp b1 = f64exp b2) (hf : f64frac b1 = f64frac b2) : b1 = b2 := by
  unfold f64neg at hn
  unfold f64exp at he
  unfold f64frac at hf
  have hn' : b1 / 2 ^ 63 % 2 = b2 / 2 ^ 63 % 2 := by
    have a1 : b1 / 2 ^ 63 % 2 = 0 ∨ b1 / 2 ^ 63 % 2 = 1 := by omega
    have a2 : b2 / 2 ^ 63 % 2 = 0 ∨ b2 / 2 ^ 63 % 2 = 1 := by omega
    rcases a1 with a1 | a1 <;> rcases a2 with a2 | a2 <;> simp [a1, a2] at hn ⊢
  omega

/-- **a non-zero finite value has exactly one float64 encoding.** -/
theorem f64scaled_inj (b1 b2 : Nat) (hb1 : b1 < 2 ^ 64) (hb2 : b2 < 2 ^ 64)
    (h1 : f64exp b1 ≠ 2047) (h2 : f64exp b2 ≠ 2047) (hnz : f64mant b1 ≠ 0)
    (h : f64scaled b1 = f64scaled b2) : b1 = b2 := by
  unfold f64scaled at h
  have hp : 0 < f64mant b1 * 2 ^ (f64sh b1 - 1) := Nat.mul_pos (by omega) (Nat.two_pow_pos _)
  obtain ⟨hneg, hmag⟩ := signed_eq _ _ _ _ h hp
  have hnz2 : 0 < f64mant b2 := by
    apply Classical.byContradiction
    intro hn
    have : f64mant b2 = 0 := by omega
    rw [this] at hmag; omega
  have key : f64sh b1 = f64sh b2 ∧ f64mant b1 = f64mant b2 := by
    by_cases hle : f64sh b1 ≤ f64sh b2
    · exact mant_unique_le _ _ _ _ (f64sh_pos b1) hle (f64mant_lt b1) (f64_norm b2) hmag (by omega)
    · have := mant_unique_le _ _ _ _ (f64sh_pos b2) (by omega) (f64mant_lt b2) (f64_norm b1) hmag.symm hnz2
      exact ⟨this.1.symm, this.2.symm⟩
  obtain ⟨hs, hm⟩ := key
  have f1 := f64_fields_bound b1
  have f2 := f64_fields_bound b2
  -- recover exponent and fraction fields
  have hef : f64exp b1 = f64exp b2 ∧ f64frac b1 = f64frac b2 := by
    unfold f64sh at hs
    unfold f64mant at hm
    by_cases e1 : f64exp b1 = 0 <;> by_cases e2 : f64exp b2 = 0 <;> simp only [e1, e2, if_true, if_false] at hs hm <;>
      constructor <;> omega
  exact f64_fields_eq b1 b2 hb1 hb2 hneg hef.1 hef.2

/-- **number keys compare by value**: two finite doubles are the same table key iff they have the same value. -/
theorem numKey_eq_iff_value (b1 b2 : Nat) (hb1 : b1 < 2 ^ 64) (hb2 : b2 < 2 ^ 64)
    (h1 : f64exp b1 ≠ 2047) (h2 : f64exp b2 ≠ 2047) :
    numKey b1 = numKey b2 ↔ f64scaled b1 = f64scaled b2 := by
  constructor
  · exact (numKey_value b1 b2 h1 h2).1
  · intro h
    by_cases hz : ∃ z, f64int? b1 = some z
    · exact (numKey_value b1 b2 h1 h2).2 h hz
    · -- non-integral, hence non-zero: the encoding is unique
      have hnz : f64mant b1 ≠ 0 := by
        intro h0
        apply hz
        refine ⟨0, f64int?_complete b1 0 h1 ?_⟩
        unfold f64scaled; rw [h0]; unfold signed; split <;> simp
      rw [f64scaled_inj b1 b2 hb1 hb2 h1 h2 hnz h]

end GLua.Table
