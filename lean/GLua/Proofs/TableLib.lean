/-
  Lemmas for C18: the table model (GLua/Model/Table.lean) under the list functions of GLua/Model/TableLib.lean
  refines the manual's list semantics (GLua/Spec/TableLib.lean).
-/
import GLua.Model.TableLib
import GLua.Spec.TableLib
import GLua.Proofs.Table

namespace GLua.TableLib
open GLua GLua.Table GLua.TableLibSpec

/-! ### the representation of a list -/

/-- the array part of a list: its elements followed by `k` nil slots (left behind by `t[#t] = nil`). -/
def listArr (l : List Val) (k : Nat) : List OVal := l.map some ++ List.replicate k none

/-- table `t` holds exactly the list `l`: the array part is `l` plus trailing nil slots, and the hash part
    has no integer key (so `t[i]` is nil for every integer outside `1..n`). -/
structure IsList (t : Tbl) (l : List Val) : Prop where
  arr : ∃ k, t.array = listArr l k
  noInt : ∀ i : Int, alGet t.dict (.int i) = none

@[simp] theorem listArr_length (l : List Val) (k : Nat) : (listArr l k).length = l.length + k := by
  simp [listArr]

theorem lastNonNil_replicate (k : Nat) : lastNonNil (List.replicate k (none : OVal)) = 0 := by
  induction k with
  | zero => rfl
  | succ k ih => simp [List.replicate_succ, lastNonNil, ih]

theorem lastNonNil_listArr (l : List Val) (k : Nat) : lastNonNil (listArr l k) = l.length := by
  induction l with
  | nil => simpa [listArr] using lastNonNil_replicate k
  | cons a r ih =>
    have : listArr (a :: r) k = some a :: listArr r k := by simp [listArr]
    rw [this, lastNonNil, ih]
    by_cases h : r.length > 0
    · simp [h]
    · have : r.length = 0 := by omega
      simp [this]

theorem getElem?_listArr (l : List Val) (k i : Nat) : ((listArr l k)[i]?).join = l[i]? := by
  unfold listArr
  by_cases h : i < l.length
  · rw [List.getElem?_append_left (by simpa using h)]
    simp [h]
  · have h' : l.length ≤ i := Nat.le_of_not_lt h
    rw [List.getElem?_append_right (by simpa using h')]
    rw [List.getElem?_eq_none (l := l) h']
    simp only [List.getElem?_replicate, List.length_map]
    split <;> rfl

theorem IsList.len_eq {t : Tbl} {l : List Val} (h : IsList t l) : len t = l.length := by
  obtain ⟨k, hk⟩ := h.arr
  simp [len, hk, lastNonNil_listArr]

theorem IsList.maxN_eq {t : Tbl} {l : List Val} (h : IsList t l) : maxN t = l.length := by
  obtain ⟨k, hk⟩ := h.arr
  simp [maxN, hk, lastNonNil_listArr]

theorem IsList.length_le {t : Tbl} {l : List Val} (h : IsList t l) : l.length ≤ t.array.length := by
  obtain ⟨k, hk⟩ := h.arr
  simp [hk]

/-- every integer index reads what the list holds there (nil outside `1..n`). -/
theorem IsList.rawGetInt_eq {t : Tbl} {l : List Val} (h : IsList t l) (hs : t.array.length < t.mai) (i : Int) :
    rawGetInt t i = index l i := by
  obtain ⟨k, hk⟩ := h.arr
  have hlen := h.length_le
  unfold rawGetInt index
  by_cases h1 : i < 1
  · have : ¬ (1 ≤ i) := by omega
    simp [h1, this, rawGetH, isStr, h.noInt]
  · by_cases h2 : i ≥ (t.mai : Int)
    · have hn : l[(i - 1).toNat]? = none := by
        apply List.getElem?_eq_none; omega
      have : (1 : Int) ≤ i := by omega
      simp [h2, this, rawGetH, isStr, h.noInt]
      omega
    · have h1' : (1 : Int) ≤ i := by omega
      simp only [h1, h2, or_self, if_false, h1', if_true]
      by_cases h3 : i - 1 ≥ (t.array.length : Int)
      · have hn : l[(i - 1).toNat]? = none := by
          apply List.getElem?_eq_none; omega
        have : ¬ (i - 1 < 0) := by omega
        simp [h3]
        omega
      · have : ¬ (i - 1 < 0) := by omega
        simp only [h3, this, or_self, if_false]
        rw [hk]; exact getElem?_listArr l k _

/-! ### generic list lemmas (not in core) -/

theorem insertIdx_append_left {α} (l r : List α) (i : Nat) (a : α) (h : i ≤ l.length) :
    (l ++ r).insertIdx i a = l.insertIdx i a ++ r := by
  induction l generalizing i with
  | nil =>
    have : i = 0 := by simpa using h
    subst this; simp
  | cons x xs ih =>
    cases i with
    | zero => simp
    | succ i =>
      have h' : i ≤ xs.length := by simpa using h
      simp [List.insertIdx_succ_cons, ih i h']

theorem map_insertIdx {α β} (f : α → β) (l : List α) (i : Nat) (a : α) :
    (l.insertIdx i a).map f = (l.map f).insertIdx i (f a) := by
  induction l generalizing i with
  | nil => cases i <;> simp
  | cons x xs ih => cases i <;> simp [List.insertIdx_succ_cons, ih]

theorem insertIdx_eq_take_drop {α} (l : List α) (i : Nat) (a : α) (h : i ≤ l.length) :
    l.insertIdx i a = l.take i ++ a :: l.drop i := by
  induction l generalizing i with
  | nil =>
    have : i = 0 := by simpa using h
    subst this; simp
  | cons x xs ih =>
    cases i with
    | zero => simp
    | succ i =>
      have h' : i ≤ xs.length := by simpa using h
      simp [List.insertIdx_succ_cons, ih i h']

theorem map_eraseIdx {α β} (f : α → β) (l : List α) (i : Nat) :
    (l.eraseIdx i).map f = (l.map f).eraseIdx i := by
  induction l generalizing i with
  | nil => simp
  | cons x xs ih => cases i <;> simp [ih]

/-! ### listArr under the array operations -/

theorem listArr_zero (l : List Val) : listArr l 0 = l.map some := by simp [listArr]

theorem listArr_snoc (l : List Val) (v : Val) (k : Nat) :
    listArr (l ++ [v]) k = l.map some ++ some v :: List.replicate k none := by
  simp [listArr]

theorem getLast?_listArr_succ (l : List Val) (k : Nat) : (listArr l (k + 1)).getLast? = some none := by
  simp [listArr, List.getLast?_append, List.getLast?_replicate]

theorem dropLast_listArr_succ (l : List Val) (k : Nat) : (listArr l (k + 1)).dropLast = listArr l k := by
  unfold listArr
  rw [List.dropLast_append_of_ne_nil (by simp), List.dropLast_replicate]
  simp

theorem set_listArr_end (l : List Val) (k : Nat) (v : OVal) :
    (listArr l (k + 1)).set l.length v = l.map some ++ v :: List.replicate k none := by
  unfold listArr
  rw [List.set_append]
  simp [List.replicate_succ]

theorem insertIdx_listArr (l : List Val) (k i : Nat) (v : Val) (h : i ≤ l.length) :
    (listArr l k).insertIdx i (some v) = listArr (l.insertIdx i v) k := by
  unfold listArr
  rw [insertIdx_append_left _ _ _ _ (by simpa using h), map_insertIdx]

theorem eraseIdx_listArr (l : List Val) (k i : Nat) (h : i < l.length) :
    (listArr l k).eraseIdx i = listArr (l.eraseIdx i) k := by
  unfold listArr
  rw [List.eraseIdx_append_of_lt_length (by simpa using h), map_eraseIdx]

theorem set_listArr (l : List Val) (k i : Nat) (v : Val) (h : i < l.length) :
    (listArr l k).set i (some v) = listArr (l.set i v) k := by
  unfold listArr
  rw [List.set_append]
  simp [h, List.map_set]

/-! ### Append / Insert / Remove on a list -/

theorem append_dict (t : Tbl) (v : OVal) : (append t v).dict = t.dict := by
  unfold Table.append
  split
  · rfl
  · split <;> rfl

theorem append_mai (t : Tbl) (v : OVal) : (append t v).mai = t.mai := by
  unfold Table.append
  split
  · rfl
  · split <;> rfl

theorem append_array_listArr (t : Tbl) (l : List Val) (k : Nat) (v : Val) (hk : t.array = listArr l k) :
    (append t (some v)).array = listArr (l ++ [v]) (k - 1) := by
  unfold Table.append
  cases k with
  | zero =>
    have hz : t.array = l.map some := by rw [hk, listArr_zero]
    simp only
    split
    · simp [hz, listArr]
    · simp [hz, listArr]
    · rename_i hl
      rw [hz] at hl
      simp [List.getLast?_map] at hl
  | succ k =>
    simp only
    have hl := getLast?_listArr_succ l k
    rw [← hk] at hl
    rw [hl]
    simp only
    rw [hk, dropLast_listArr_succ, lastNonNil_listArr, set_listArr_end, listArr_snoc]
    simp

theorem IsList.append {t : Tbl} {l : List Val} (h : IsList t l) (v : Val) :
    IsList (append t (some v)) (l ++ [v]) := by
  obtain ⟨k, hk⟩ := h.arr
  exact ⟨⟨k - 1, append_array_listArr t l k v hk⟩, by rw [append_dict]; exact h.noInt⟩

theorem append_length_le (t : Tbl) (v : OVal) : (append t v).array.length ≤ t.array.length + 1 := by
  unfold Table.append
  split
  · omega
  · split <;> simp

@[simp] theorem setArr_dict (t : Tbl) (n : Nat) (v : OVal) : (setArr t n v).dict = t.dict := by
  simp only [setArr]; split
  · rfl
  · split <;> rfl

/-- `setArr` at key `n+1` of a list (`t[#t+1] = v`): the list grows by `v`. -/
theorem setArr_listArr_end (t : Tbl) (l : List Val) (k : Nat) (v : Val) (hk : t.array = listArr l k) :
    (setArr t (l.length + 1) (some v)).array = listArr (l ++ [v]) (k - 1) := by
  unfold setArr
  simp only [Nat.add_sub_cancel]
  cases k with
  | zero =>
    have hlen : t.array.length = l.length := by simp [hk]
    simp only [hlen, if_true]
    rw [hk]; simp [listArr]
  | succ k =>
    have h1 : ¬ (l.length = t.array.length) := by simp [hk]
    have h2 : ¬ (l.length > t.array.length) := by simp [hk]
    simp only [h1, h2, if_false]
    rw [hk, set_listArr_end, listArr_snoc]; simp

theorem setArr_listArr_mid (t : Tbl) (l : List Val) (k i : Nat) (v : Val) (hk : t.array = listArr l k)
    (h1 : 1 ≤ i) (h2 : i ≤ l.length) :
    (setArr t i (some v)).array = listArr (l.set (i - 1) v) k := by
  unfold setArr
  have a1 : ¬ (i - 1 = t.array.length) := by simp [hk]; omega
  have a2 : ¬ (i - 1 > t.array.length) := by simp [hk]; omega
  simp only [a1, a2, if_false]
  rw [hk, set_listArr _ _ _ _ (by omega)]

theorem listArr_clear_last (l : List Val) (k : Nat) (h : l ≠ []) :
    (listArr l k).set (l.length - 1) none = listArr l.dropLast (k + 1) := by
  obtain ⟨l', a, rfl⟩ : ∃ l' a, l = l' ++ [a] := ⟨l.dropLast, l.getLast h, (List.dropLast_concat_getLast h).symm⟩
  unfold listArr
  simp [List.set_append, List.replicate_succ]

theorem setArr_listArr_clear (t : Tbl) (l : List Val) (k : Nat) (hk : t.array = listArr l k) (h : l ≠ []) :
    (setArr t l.length none).array = listArr l.dropLast (k + 1) := by
  unfold setArr
  have hl : 0 < l.length := List.length_pos_iff.mpr h
  have a1 : ¬ (l.length - 1 = t.array.length) := by simp [hk]; omega
  have a2 : ¬ (l.length - 1 > t.array.length) := by simp [hk]; omega
  simp only [a1, a2, if_false]
  rw [hk, listArr_clear_last l k h]

/-- `Insert(pos, v)` for `1 ≤ pos ≤ n+1` on a list. -/
theorem insert_array_listArr (t : Tbl) (l : List Val) (k pos : Nat) (v : Val) (hk : t.array = listArr l k)
    (h1 : 1 ≤ pos) (h2 : pos ≤ l.length + 1) (hm : t.array.length + 1 < t.mai) :
    ∃ k', (Table.insert t (pos : Int) (some v)).array = listArr (l.insertIdx (pos - 1) v) k' ∧
      (Table.insert t (pos : Int) (some v)).dict = t.dict ∧ (Table.insert t (pos : Int) (some v)).mai = t.mai ∧
      (Table.insert t (pos : Int) (some v)).array.length ≤ t.array.length + 1 := by
  unfold Table.insert
  simp only
  by_cases c1 : (pos : Int) > (t.array.length : Int)
  · -- only possible with no trailing nil slot and pos = n+1
    have hlen : t.array.length = l.length + k := by simp [hk]
    have hk0 : k = 0 := by omega
    have hp : pos = l.length + 1 := by omega
    subst hk0
    simp only [c1, if_true]
    unfold rawSetInt
    have c2 : ¬ ((pos : Int) < 1 ∨ (pos : Int) ≥ (t.mai : Int)) := by omega
    simp only [c2, if_false, Int.toNat_natCast]
    refine ⟨0, ?_, by simp, by simp, ?_⟩
    · rw [hp]
      have := setArr_listArr_end { t with alloc := true } l 0 v hk
      simpa [List.insertIdx_length_self] using this
    · rw [hp]
      have := setArr_listArr_end { t with alloc := true } l 0 v hk
      rw [this]; simp [hlen]
  · have c2 : ¬ ((pos : Int) ≤ 0) := by omega
    simp only [c1, c2, if_false, Int.toNat_natCast]
    refine ⟨k, ?_, trivial, trivial, ?_⟩
    · simp only [hk]
      exact insertIdx_listArr l k (pos - 1) v (by omega)
    · simp [List.length_insertIdx]; split <;> omega

theorem remove_inRange (t : Tbl) (pos : Nat) (h1 : 1 ≤ pos) (h2 : pos ≤ t.array.length) :
    remove t (pos : Int) = ({ t with array := t.array.eraseIdx (pos - 1) }, (t.array[pos - 1]?).join) := by
  unfold remove
  simp only
  have a0 : ¬ (t.array.length = 0) := by omega
  have a1 : ¬ ((pos : Int) - 1 ≥ (t.array.length : Int)) := by omega
  simp only [a0, a1, if_false]
  by_cases c : (pos : Int) - 1 = (t.array.length : Int) - 1 ∨ (pos : Int) - 1 < 0
  · simp only [c, if_true]
    have hp : pos - 1 + 1 = t.array.length := by omega
    rw [List.eraseIdx_eq_dropLast hp, List.getLast?_eq_getElem?]
    have : t.array.length - 1 = pos - 1 := by omega
    rw [this]
  · simp only [c, if_false]
    have : ((pos : Int) - 1).toNat = pos - 1 := by omega
    rw [this]

theorem rawSet_str_fields (t : Tbl) (h : String) (v : OVal) :
    (rawSet t (.str h) v).array = t.array ∧ (rawSet t (.str h) v).dict = t.dict := by
  unfold rawSet
  simp only [arrIdx, isStr, if_true]
  exact ⟨(rawSetString_get t _ v).1, (rawSetString_get t _ v).2.1⟩

/-! ### concat / unpack loops -/

theorem asString_eq_strOf (v : OVal) : asString v = strOf v := by
  cases v with
  | none => rfl
  | some x => cases x <;> rfl

theorem concatLoop_spec {t : Tbl} {l : List Val} (h : IsList t l) (hs : t.array.length < t.mai)
    (i : Int) (cnt : Nat) :
    match allSome ((upFrom i cnt).map (fun k => strOf (index l k))) with
    | some ss => concatLoop t i cnt = .ok ss
    | none => ∃ m, concatLoop t i cnt = .error (.luaError m) := by
  induction cnt generalizing i with
  | zero => simp [upFrom, allSome, concatLoop]
  | succ cnt ih =>
    simp only [upFrom, List.map_cons, concatLoop, h.rawGetInt_eq hs, asString_eq_strOf]
    cases hx : strOf (index l i) with
    | none => simp only [allSome]; exact ⟨_, rfl⟩
    | some x =>
      simp only [allSome]
      have := ih (i + 1)
      cases hr : allSome ((upFrom (i + 1) cnt).map (fun k => strOf (index l k))) with
      | none =>
        rw [hr] at this
        obtain ⟨m, hm⟩ := this
        simp only [Option.map_none]
        exact ⟨m, by rw [hm]; rfl⟩
      | some ss =>
        rw [hr] at this
        simp only [Option.map_some, this]; rfl

theorem unpackLoop_spec {t : Tbl} {l : List Val} (h : IsList t l) (hs : t.array.length < t.mai)
    (i : Int) (cnt : Nat) : unpackLoop t i cnt = (upFrom i cnt).map (index l) := by
  induction cnt generalizing i with
  | zero => rfl
  | succ cnt ih => simp [unpackLoop, upFrom, h.rawGetInt_eq hs, ih]

/-! ### sort: any strategy only permutes -/

theorem set_set_perm_of_getElem? {α} (a : List α) (i j : Nat) (x y : α) (hi : a[i]? = some x) (hj : a[j]? = some y) :
    ((a.set i y).set j x).Perm a := by
  obtain ⟨hi', rfl⟩ := List.getElem?_eq_some_iff.mp hi
  obtain ⟨hj', rfl⟩ := List.getElem?_eq_some_iff.mp hj
  exact List.set_set_perm hi' hj'

theorem runSort_perm (lt : Cmp) (s : Strategy) (a : List OVal) : (runSort lt s a).arr.Perm a := by
  induction s generalizing a with
  | done => exact List.Perm.refl _
  | less i j k ih =>
    unfold runSort
    split
    · split
      · exact ih _ a
      · exact List.Perm.refl _
    · exact List.Perm.refl _
  | swap i j k ih =>
    unfold runSort
    split
    · rename_i x y hi hj
      exact (ih _).trans (set_set_perm_of_getElem? a i j x y hi hj)
    · exact List.Perm.refl _

theorem runSort_calls_mem (lt : Cmp) (s : Strategy) (a : List OVal) :
    ∀ c ∈ (runSort lt s a).calls, c.1 ∈ a ∧ c.2 ∈ a := by
  induction s generalizing a with
  | done => intro c hc; simp [runSort] at hc
  | less i j k ih =>
    unfold runSort
    split
    · rename_i x y hi hj
      have hx : x ∈ a := List.mem_of_getElem? hi
      have hy : y ∈ a := List.mem_of_getElem? hj
      split
      · intro c hc
        simp only [List.mem_cons] at hc
        rcases hc with rfl | hc
        · exact ⟨hx, hy⟩
        · exact ih _ a c hc
      · intro c hc
        simp only [List.mem_cons, List.not_mem_nil, or_false] at hc
        subst hc; exact ⟨hx, hy⟩
    · intro c hc; simp at hc
  | swap i j k ih =>
    unfold runSort
    split
    · rename_i x y hi hj
      intro c hc
      have hp := set_set_perm_of_getElem? a i j x y hi hj
      have := ih _ c hc
      exact ⟨hp.mem_iff.mp this.1, hp.mem_iff.mp this.2⟩
    · intro c hc; simp at hc

theorem runSort_snaps_perm (lt : Cmp) (s : Strategy) (a : List OVal) :
    ∀ st ∈ (runSort lt s a).snaps, st.Perm a := by
  induction s generalizing a with
  | done => intro c hc; simp [runSort] at hc
  | less i j k ih =>
    unfold runSort
    split
    · split
      · intro c hc
        simp only [List.mem_cons] at hc
        rcases hc with rfl | hc
        · exact List.Perm.refl _
        · exact ih _ a c hc
      · intro c hc
        simp only [List.mem_cons, List.not_mem_nil, or_false] at hc
        subst hc; exact List.Perm.refl _
    · intro c hc; simp at hc
  | swap i j k ih =>
    unfold runSort
    split
    · rename_i x y hi hj
      intro c hc
      exact (ih _ c hc).trans (set_set_perm_of_getElem? a i j x y hi hj)
    · intro c hc; simp at hc

/-- no Go panic: with in-range indices (trusted `sort.Sort` contract) the only way a sort ends abnormally is
    the comparator's own error. -/
theorem runSort_no_panic (lt : Cmp) (hlt : ∀ x y m, lt x y ≠ .error (.goPanic m))
    (s : Strategy) (a : List OVal) (hr : s.InRange a.length) :
    ∀ m, (runSort lt s a).err ≠ some (.goPanic m) := by
  induction s generalizing a with
  | done => intro m; simp [runSort]
  | less i j k ih =>
    obtain ⟨hi, hj, hk⟩ := hr
    unfold runSort
    rw [List.getElem?_eq_getElem hi, List.getElem?_eq_getElem hj]
    simp only
    split
    · rename_i b hb
      exact ih b a (hk b)
    · rename_i e he
      intro m hm
      simp only [Option.some.injEq] at hm
      subst hm
      exact hlt _ _ m he
  | swap i j k ih =>
    obtain ⟨hi, hj, hk⟩ := hr
    unfold runSort
    rw [List.getElem?_eq_getElem hi, List.getElem?_eq_getElem hj]
    simp only
    apply ih
    simpa using hk

theorem eq_map_some_of_all_isSome {α} (arr : List (Option α)) (h : ∀ x ∈ arr, ∃ v, x = some v) :
    arr = (arr.filterMap id).map some := by
  induction arr with
  | nil => rfl
  | cons x r ih =>
    obtain ⟨v, rfl⟩ := h x (List.mem_cons_self ..)
    have := ih (fun y hy => h y (List.mem_cons_of_mem _ hy))
    simp only [List.filterMap_cons, id, List.map_cons]
    rw [← this]

theorem perm_map_some {arr : List OVal} {l : List Val} (h : arr.Perm (l.map some)) :
    ∃ l' : List Val, arr = l'.map some ∧ l'.Perm l := by
  refine ⟨arr.filterMap id, ?_, ?_⟩
  · apply eq_map_some_of_all_isSome
    intro x hx
    have := h.mem_iff.mp hx
    simp only [List.mem_map] at this
    obtain ⟨v, _, rfl⟩ := this
    exact ⟨v, rfl⟩
  · have := h.filterMap id
    simpa [List.filterMap_map] using this

theorem sortRange_isList {t : Tbl} {l : List Val} (h : IsList t l) : sortRange true t = l.map some := by
  obtain ⟨k, hk⟩ := h.arr
  show t.array.take (len t) = _
  rw [h.len_eq, hk, listArr, List.take_append_of_le_length (by simp)]
  exact List.take_of_length_le (by simp)

/-- `table.sort` on a list, with any comparator and any strategy of `sort.Sort`, leaves a list holding a
    permutation of the original elements — also when the comparator raised in the middle. -/
theorem tableSort_isList {t : Tbl} {l : List Val} (h : IsList t l) (c : CmpArg) (s : Strategy) :
    ∃ l' : List Val, IsList (tableSort t c s).1 l' ∧ l'.Perm l ∧ (tableSort t c s).2.arr = l'.map some := by
  obtain ⟨k, hk⟩ := h.arr
  have key : ∀ lt : Cmp, ∃ l' : List Val,
      IsList ({ t with array := ((runSort lt s (sortRange true t)).arr ++ t.array.drop (runSort lt s (sortRange true t)).arr.length) }) l' ∧
        l'.Perm l ∧ (runSort lt s (sortRange true t)).arr = l'.map some := by
    intro lt
    have hp := runSort_perm lt s (sortRange true t)
    rw [sortRange_isList h] at hp ⊢
    obtain ⟨l', hl', hperm⟩ := perm_map_some hp
    refine ⟨l', ⟨⟨k, ?_⟩, h.noInt⟩, hperm, hl'⟩
    simp only [hl', List.length_map, hperm.length_eq, hk, listArr]
    rw [List.drop_append_of_le_length (by simp)]
    simp
  unfold tableSort tableSortG
  cases c with
  | absent => exact key lessThan
  | notFunction => exact ⟨l, h, List.Perm.refl _, sortRange_isList h⟩
  | fn f => exact key (fnCmp f)

/-! ### argument reading -/

theorem toGoInt_int (i : Int) (h1 : -(2^63 : Int) ≤ i) (h2 : i < 2^63) : toGoInt (.int i) = some i := by
  show some (if -(2^63 : Int) ≤ i ∧ i < 2^63 then i else -(2^63 : Int)) = some i
  rw [if_pos ⟨h1, h2⟩]

theorem checkInt_int (rest : List OVal) (i : Int) (h1 : -(2^63 : Int) ≤ i) (h2 : i < 2^63) :
    checkInt (some (.int i) :: rest) 2 = .ok i := by
  simp [checkInt, getArg, toGoInt_int i h1 h2]

theorem optInt_int (args : List OVal) (n : Nat) (d i : Int) (hg : getArg args n = some (.int i))
    (h1 : -(2^63 : Int) ≤ i) (h2 : i < 2^63) : optInt args n d = .ok i := by
  simp [optInt, hg, toGoInt_int i h1 h2]


end GLua.TableLib
