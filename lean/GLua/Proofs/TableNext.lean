import GLua.Proofs.Table

namespace GLua.Table
open GLua

/-- Representation invariant of `LTable` (what `RawSet*` maintain):
    * the array part stays below `MaxArrayIndex`;
    * `strdict` holds only string keys, `dict` only non-string keys that are not array keys;
    * `keys` lists every key ever stored in `strdict ∪ dict`, once, and `k2i` is its inverse. -/
structure Inv (t : Tbl) : Prop where
  arrLt    : t.array.length < t.mai ∨ t.array = []
  strKeys  : ∀ k v, alGet t.strdict k = some v → isStr k = true ∧ k ∈ t.keys
  dictKeys : ∀ k v, alGet t.dict k = some v → isStr k = false ∧ arrIdx t.mai k = none ∧ k ∈ t.keys
  keysHash : ∀ k ∈ t.keys, arrIdx t.mai k = none
  keysNodup : t.keys.Nodup
  k2iInv   : ∀ (i : Nat) (k : Val), t.keys[i]? = some k → k2iGet t.k2i k = some i
  k2iConv  : ∀ (i : Nat) (k : Val), k2iGet t.k2i k = some i → t.keys[i]? = some k

/-- iterate `Next` from nil, collecting the pairs; the fuel bounds the number of steps (running out of
    fuel is reported as an error, so `traverse t = .ok l` includes termination). -/
def traverseAux (t : Tbl) : Nat → OVal → Except Err (List (Val × Val))
  | 0, _ => .error (.goPanic "traverse: did not terminate")
  | f + 1, key =>
    match next t key with
    | .error e => .error e
    | .ok none => .ok []
    | .ok (some (k, v)) =>
      match traverseAux t f (some k) with
      | .error e => .error e
      | .ok l => .ok ((k, v) :: l)

def traverse (t : Tbl) : Except Err (List (Val × Val)) :=
  traverseAux t (t.array.length + t.keys.length + 2) none

/-! ### the invariant is established and maintained -/

theorem inv_empty {mai : Nat} : Inv { mai := mai } := by
  constructor <;> simp [alGet, k2iGet]

theorem k2iGet_append (l : List (Val × Nat)) (k : Val) (n : Nat) (k' : Val) :
    k2iGet (l ++ [(k, n)]) k' =
      match k2iGet l k' with
      | some i => some i
      | none => if k = k' then some n else none := by
  induction l with
  | nil => simp [k2iGet]
  | cons p r ih =>
    obtain ⟨a, b⟩ := p
    simp only [List.cons_append, k2iGet]
    split
    · rfl
    · exact ih

theorem inv_setArr (t : Tbl) (n : Nat) (v : OVal) (hn0 : 0 < n) (hn : n < t.mai) (h : Inv t) : Inv (setArr t n v) := by
  have hs : (setArr t n v).strdict = t.strdict := by simp only [setArr]; split; rfl; split <;> rfl
  have hd : (setArr t n v).dict = t.dict := by simp only [setArr]; split; rfl; split <;> rfl
  have hk : (setArr t n v).keys = t.keys := by simp only [setArr]; split; rfl; split <;> rfl
  have hi : (setArr t n v).k2i = t.k2i := by simp only [setArr]; split; rfl; split <;> rfl
  have hl : (setArr t n v).array.length < t.mai := by
    have hlen : t.array.length < t.mai ∨ t.array.length = 0 := by
      rcases h.arrLt with h1 | h1
      · exact Or.inl h1
      · right; rw [h1]; rfl
    simp only [setArr]; split
    · simp only [List.length_append, List.length_cons, List.length_nil]; omega
    · split
      · simp only [List.length_append, List.length_cons, List.length_nil, List.length_replicate]; omega
      · simp only [List.length_set]; omega
  constructor
  · left; rw [setArr_mai]; exact hl
  · rw [hs, hk]; exact h.strKeys
  · rw [hd, hk, setArr_mai]; exact h.dictKeys
  · rw [hk, setArr_mai]; exact h.keysHash
  · rw [hk]; exact h.keysNodup
  · rw [hk, hi]; exact h.k2iInv
  · rw [hk, hi]; exact h.k2iConv

/-- `noteKey` keeps the bookkeeping part of the invariant and makes `k` a listed key. -/
theorem noteKey_keys (t : Tbl) (k : Val)
    (hN : t.keys.Nodup)
    (hI : ∀ (i : Nat) (k : Val), t.keys[i]? = some k → k2iGet t.k2i k = some i)
    (hC : ∀ (i : Nat) (k : Val), k2iGet t.k2i k = some i → t.keys[i]? = some k) :
    k ∈ (noteKey t k).keys ∧ (∀ k' ∈ t.keys, k' ∈ (noteKey t k).keys) ∧
    (∀ k' ∈ (noteKey t k).keys, k' = k ∨ k' ∈ t.keys) ∧
    (noteKey t k).keys.Nodup ∧
    (∀ (i : Nat) (k' : Val), (noteKey t k).keys[i]? = some k' → k2iGet (noteKey t k).k2i k' = some i) ∧
    (∀ (i : Nat) (k' : Val), k2iGet (noteKey t k).k2i k' = some i → (noteKey t k).keys[i]? = some k') := by
  unfold noteKey
  cases hk : k2iGet t.k2i k with
  | some i =>
    simp only
    refine ⟨?_, fun _ h => h, fun _ h => Or.inr h, hN, hI, hC⟩
    exact List.mem_of_getElem? (hC i k hk)
  | none =>
    simp only
    have hnot : k ∉ t.keys := by
      intro hm
      obtain ⟨i, hi, he⟩ := List.getElem_of_mem hm
      have := hI i k (by rw [List.getElem?_eq_getElem hi, he])
      rw [hk] at this; cases this
    refine ⟨by simp, fun _ h => by simp [h], ?_, ?_, ?_, ?_⟩
    · intro k' h'
      simp at h'
      rcases h' with h' | h'
      · exact Or.inr h'
      · exact Or.inl h'
    · rw [List.nodup_append]
      refine ⟨hN, by simp, ?_⟩
      intro a ha b hb
      simp at hb; subst hb
      intro e; subst e; exact hnot ha
    · intro i k' hi
      rw [k2iGet_append]
      by_cases hlt : i < t.keys.length
      · rw [List.getElem?_append_left hlt] at hi
        rw [hI i k' hi]
      · rw [List.getElem?_append_right (by omega)] at hi
        have hi0 : i - t.keys.length = 0 := by
          by_cases h0 : i - t.keys.length = 0
          · exact h0
          · rw [List.getElem?_eq_none (by simp; omega)] at hi; cases hi
        rw [hi0] at hi
        simp at hi; subst hi
        rw [hk]; simp; omega
    · intro i k' hi
      rw [k2iGet_append] at hi
      cases hk' : k2iGet t.k2i k' with
      | some j =>
        rw [hk'] at hi; simp at hi; subst hi
        have := hC j k' hk'
        have hlt : j < t.keys.length := by
          by_cases hlt : j < t.keys.length
          · exact hlt
          · rw [List.getElem?_eq_none (by omega)] at this; cases this
        rw [List.getElem?_append_left hlt]; exact this
      | none =>
        rw [hk'] at hi; simp at hi
        obtain ⟨rfl, rfl⟩ := hi
        simp

theorem inv_rawSetString (t : Tbl) (k : Val) (v : OVal) (hs : isStr k = true) (h : Inv t) :
    Inv (rawSetString t k v) := by
  have hidx : arrIdx t.mai k = none := by cases k <;> simp_all [isStr, arrIdx]
  cases v with
  | none =>
    simp only [rawSetString]
    constructor
    · exact h.arrLt
    · intro k' v' hg
      simp only [alGet_alDel] at hg
      split at hg
      · cases hg
      · exact h.strKeys k' v' hg
    · exact h.dictKeys
    · exact h.keysHash
    · exact h.keysNodup
    · exact h.k2iInv
    · exact h.k2iConv
  | some x =>
    simp only [rawSetString]
    obtain ⟨ha, hsd, hdd⟩ := noteKey_fields { t with strdict := alSet t.strdict k x } k
    obtain ⟨h1, h2, h3, h4, h5, h6⟩ :=
      noteKey_keys { t with strdict := alSet t.strdict k x } k h.keysNodup h.k2iInv h.k2iConv
    constructor
    · rw [ha, noteKey_mai]; exact h.arrLt
    · intro k' v' hg
      rw [hsd] at hg
      simp only [alGet_alSet] at hg
      split at hg
      · rename_i e; subst e; exact ⟨hs, h1⟩
      · obtain ⟨a, b⟩ := h.strKeys k' v' hg
        exact ⟨a, h2 k' b⟩
    · intro k' v' hg
      rw [hdd] at hg
      rw [noteKey_mai]
      obtain ⟨a, b, c⟩ := h.dictKeys k' v' hg
      exact ⟨a, b, h2 k' c⟩
    · intro k' hk'
      rw [noteKey_mai]
      rcases h3 k' hk' with e | e
      · subst e; exact hidx
      · exact h.keysHash k' e
    · exact h4
    · exact h5
    · exact h6

theorem inv_rawSetDict (t : Tbl) (k : Val) (v : OVal) (hs : isStr k = false) (hidx : arrIdx t.mai k = none)
    (h : Inv t) : Inv (rawSetH t k v) := by
  cases v with
  | none =>
    simp only [rawSetH, hs, Bool.false_eq_true, if_false]
    constructor
    · exact h.arrLt
    · exact h.strKeys
    · intro k' v' hg
      simp only [alGet_alDel] at hg
      split at hg
      · cases hg
      · exact h.dictKeys k' v' hg
    · exact h.keysHash
    · exact h.keysNodup
    · exact h.k2iInv
    · exact h.k2iConv
  | some x =>
    simp only [rawSetH, hs, Bool.false_eq_true, if_false]
    obtain ⟨ha, hsd, hdd⟩ := noteKey_fields { t with dict := alSet t.dict k x } k
    obtain ⟨h1, h2, h3, h4, h5, h6⟩ :=
      noteKey_keys { t with dict := alSet t.dict k x } k h.keysNodup h.k2iInv h.k2iConv
    constructor
    · rw [ha, noteKey_mai]; exact h.arrLt
    · intro k' v' hg
      rw [hsd] at hg
      obtain ⟨a, b⟩ := h.strKeys k' v' hg
      exact ⟨a, h2 k' b⟩
    · intro k' v' hg
      rw [hdd] at hg
      rw [noteKey_mai]
      simp only [alGet_alSet] at hg
      split at hg
      · rename_i e; subst e; exact ⟨hs, hidx, h1⟩
      · obtain ⟨a, b, c⟩ := h.dictKeys k' v' hg
        exact ⟨a, b, h2 k' c⟩
    · intro k' hk'
      rw [noteKey_mai]
      rcases h3 k' hk' with e | e
      · subst e; exact hidx
      · exact h.keysHash k' e
    · exact h4
    · exact h5
    · exact h6

theorem inv_rawSet (t : Tbl) (k : Val) (v : OVal) (h : Inv t) : Inv (rawSet t k v) := by
  unfold rawSet
  cases hk : arrIdx t.mai k with
  | some n =>
    simp only
    exact inv_setArr t n v (arrIdx_some hk).2.1 (arrIdx_some hk).2.2 h
  | none =>
    simp only
    by_cases hs : isStr k = true
    · simp only [hs, if_true]; exact inv_rawSetString t k v hs h
    · have hs0 : isStr k = false := by simpa using hs
      simp only [hs0, Bool.false_eq_true, if_false]
      exact inv_rawSetDict t k v hs0 hk h

/-! ### `scanArr` -/

theorem scanArr_ge (a : List OVal) (j : Nat) (h : a.length ≤ j) : scanArr a j = none := by
  induction a generalizing j with
  | nil => simp [scanArr]
  | cons x r ih =>
    cases j with
    | zero => simp at h
    | succ s =>
      simp only [scanArr]
      rw [ih s (by simpa using h)]; rfl

theorem scanArr_hole (a : List OVal) (j : Nat) (h : a[j]? = some none) : scanArr a j = scanArr a (j + 1) := by
  induction a generalizing j with
  | nil => simp at h
  | cons x r ih =>
    cases j with
    | zero =>
      simp at h; subst h
      simp only [scanArr]
    | succ s =>
      simp only [List.getElem?_cons_succ] at h
      simp only [scanArr]
      rw [ih s h]

theorem scanArr_hit (a : List OVal) (j : Nat) (v : Val) (h : a[j]? = some (some v)) :
    scanArr a j = some (j + 1, v) := by
  induction a generalizing j with
  | nil => simp at h
  | cons x r ih =>
    cases j with
    | zero =>
      simp at h; subst h
      simp only [scanArr]
    | succ s =>
      simp only [List.getElem?_cons_succ] at h
      simp only [scanArr]
      rw [ih s h]; rfl

/-! ### what `Next` returns under the invariant -/

/-- the live pairs of the hash part, in `keys` order. -/
def keyPairs (t : Tbl) (ks : List Val) : List (Val × Val) :=
  ks.filterMap (fun k => (rawGetH t k).map (fun v => (k, v)))

/-- the live pairs of the array part, in index order (`off` = number of entries already passed). -/
def arrPairs : List OVal → Nat → List (Val × Val)
  | [], _ => []
  | none :: r, off => arrPairs r (off + 1)
  | some v :: r, off => (.int ((off + 1 : Nat) : Int), v) :: arrPairs r (off + 1)

theorem scanKeys_empty (t : Tbl) (h : t.dict.isEmpty ∧ t.strdict.isEmpty) (ks : List Val) :
    scanKeys t ks = none := by
  obtain ⟨h1, h2⟩ := h
  have e1 : t.dict = [] := by simpa using h1
  have e2 : t.strdict = [] := by simpa using h2
  induction ks with
  | nil => rfl
  | cons k r ih =>
    have : rawGetH t k = none := by unfold rawGetH; rw [e1, e2]; split <;> rfl
    simp only [scanKeys, this]; exact ih

theorem hashFrom_at (t : Tbl) (h : Inv t) (i : Nat) (k : Val) (hk : t.keys[i]? = some k) :
    hashFrom t k = scanKeys t (t.keys.drop (i + 1)) := by
  unfold hashFrom; rw [h.k2iInv i k hk]; rfl

/-- the block of `Next` entered when the array scan is exhausted: first live key of `keys`. -/
theorem next_tail (t : Tbl) (h : Inv t) :
    (if t.dict.isEmpty ∧ t.strdict.isEmpty then (.ok none : Except Err (Option (Val × Val)))
      else match t.keys with
        | [] => .error (.goPanic "Next: tb.keys[0]")
        | k0 :: _ =>
          match rawGetH t k0 with
          | some v => .ok (some (k0, v))
          | none => .ok (hashFrom t k0)) = .ok (scanKeys t t.keys) := by
  by_cases he : t.dict.isEmpty ∧ t.strdict.isEmpty
  · rw [if_pos he, scanKeys_empty t he]
  · rw [if_neg he]
    cases hks : t.keys with
    | nil =>
      exfalso; apply he
      constructor
      · cases hd : t.dict with
        | nil => rfl
        | cons p r =>
          obtain ⟨a, b⟩ := p
          have := (h.dictKeys a b (by rw [hd]; simp [alGet])).2.2
          rw [hks] at this; cases this
      · cases hd : t.strdict with
        | nil => rfl
        | cons p r =>
          obtain ⟨a, b⟩ := p
          have := (h.strKeys a b (by rw [hd]; simp [alGet])).2
          rw [hks] at this; cases this
    | cons k0 r =>
      simp only [scanKeys]
      cases hg : rawGetH t k0 with
      | some v => rfl
      | none =>
        simp only
        rw [hashFrom_at t h 0 k0 (by rw [hks]; rfl), hks]; rfl

/-- `Next` on a key of the hash part: the next live key after it in `keys`. -/
theorem next_hash (t : Tbl) (h : Inv t) (i : Nat) (k : Val) (hk : t.keys[i]? = some k) :
    next t (some k) = .ok (scanKeys t (t.keys.drop (i + 1))) := by
  have hidx := h.keysHash k (List.mem_of_getElem? hk)
  have hf := hashFrom_at t h i k hk
  unfold next
  simp only [Option.isNone_some, Option.getD_some, Bool.false_eq_true, false_or]
  cases k with
  | int z =>
    by_cases hz : z = 0
    · subst hz; simp [hf]
    · have : ¬ (0 ≤ z ∧ z < (t.mai : Int)) := by
        simp [arrIdx] at hidx; omega
      simp [hz, this, hf]
  | flt b => simp [hf]
  | str s => simp [hf]
  | bool b => simp [hf]
  | ref n => simp [hf]

/-- `Next` from nil (`i = 0`) or from an array key `i` inside the array part. -/
theorem next_arr (t : Tbl) (h : Inv t) (key0 : OVal) (i : Nat)
    (hk : (key0 = none ∧ i = 0) ∨ (key0 = some (.int (i : Int)) ∧ 0 < i))
    (hi : i < t.mai) (hl : i ≤ t.array.length) :
    next t key0 = .ok (match scanArr t.array i with
      | some (k, v) => some (.int (k : Int), v)
      | none => scanKeys t t.keys) := by
  have htail := next_tail t h
  simp only [List.isEmpty_iff] at htail
  rcases hk with ⟨rfl, rfl⟩ | ⟨rfl, h0⟩
  · unfold next
    simp [hi]
    cases hs : scanArr t.array 0 with
    | some p => rfl
    | none => simp only; exact htail
  · have hne : (Val.int (i : Int)) ≠ Val.int 0 := by intro e; injection e with e; omega
    have hc : (i : Int) < (t.mai : Int) := by omega
    unfold next
    simp [hne, hc]
    cases hs : scanArr t.array i with
    | some p => rfl
    | none => simp only [hl, or_true, if_true]; exact htail

/-! ### the traversal -/

theorem traverseAux_keys (t : Tbl) (h : Inv t) (ks : List Val) :
    ∀ (pre : List Val) (f : Nat) (key : OVal), t.keys = pre ++ ks → ks.length + 1 ≤ f →
      next t key = .ok (scanKeys t ks) → traverseAux t f key = .ok (keyPairs t ks) := by
  induction ks with
  | nil =>
    intro pre f key _ hf hn
    obtain ⟨f, rfl⟩ : ∃ g, f = g + 1 := ⟨f - 1, by omega⟩
    simp only [traverseAux, hn, scanKeys]; rfl
  | cons k r ih =>
    intro pre f key hks hf hn
    cases hg : rawGetH t k with
    | none =>
      have e1 : scanKeys t (k :: r) = scanKeys t r := by simp only [scanKeys, hg]
      have e2 : keyPairs t (k :: r) = keyPairs t r := by simp [keyPairs, hg]
      rw [e2]
      apply ih (pre ++ [k]) f key (by simp [hks]) (by simp at hf; omega)
      rw [hn, e1]
    | some v =>
      have e1 : scanKeys t (k :: r) = some (k, v) := by simp only [scanKeys, hg]
      have e2 : keyPairs t (k :: r) = (k, v) :: keyPairs t r := by simp [keyPairs, hg]
      obtain ⟨f, rfl⟩ : ∃ g, f = g + 1 := ⟨f - 1, by simp at hf; omega⟩
      have hidx : t.keys[pre.length]? = some k := by rw [hks]; simp
      have hnext := next_hash t h pre.length k hidx
      have hdrop : t.keys.drop (pre.length + 1) = r := by rw [hks]; simp
      rw [hdrop] at hnext
      have := ih (pre ++ [k]) f (some k) (by simp [hks]) (by simp at hf; omega) hnext
      simp only [traverseAux, hn, e1, this, e2]

theorem traverseAux_arr (t : Tbl) (h : Inv t) (n : Nat) :
    ∀ (j f : Nat) (key : OVal), t.array.length - j ≤ n → j ≤ t.array.length →
      (t.array.length - j) + t.keys.length + 1 ≤ f →
      next t key = .ok (match scanArr t.array j with
        | some (k, v) => some (.int (k : Int), v)
        | none => scanKeys t t.keys) →
      traverseAux t f key = .ok (arrPairs (t.array.drop j) j ++ keyPairs t t.keys) := by
  induction n with
  | zero =>
    intro j f key hn hj hf hnext
    have hj' : t.array.length ≤ j := by omega
    rw [scanArr_ge _ _ hj'] at hnext
    rw [List.drop_eq_nil_of_le hj']
    simp only [arrPairs, List.nil_append]
    exact traverseAux_keys t h t.keys [] f key rfl (by omega) hnext
  | succ n ih =>
    intro j f key hn hj hf hnext
    by_cases hj' : t.array.length ≤ j
    · rw [scanArr_ge _ _ hj'] at hnext
      rw [List.drop_eq_nil_of_le hj']
      simp only [arrPairs, List.nil_append]
      exact traverseAux_keys t h t.keys [] f key rfl (by omega) hnext
    · have hlt : j < t.array.length := by omega
      have hdrop : t.array.drop j = t.array[j] :: t.array.drop (j + 1) := List.drop_eq_getElem_cons hlt
      have hget : t.array[j]? = some t.array[j] := List.getElem?_eq_getElem hlt
      cases hx : t.array[j] with
      | none =>
        rw [hx] at hget
        rw [scanArr_hole _ _ hget] at hnext
        rw [hdrop, hx]
        simp only [arrPairs]
        exact ih (j + 1) f key (by omega) (by omega) (by omega) hnext
      | some v =>
        rw [hx] at hget
        rw [scanArr_hit _ _ v hget] at hnext
        rw [hdrop, hx]
        simp only [arrPairs]
        obtain ⟨f, rfl⟩ : ∃ g, f = g + 1 := ⟨f - 1, by omega⟩
        have hmai : j + 1 < t.mai := by
          rcases h.arrLt with h1 | h1
          · omega
          · rw [h1] at hlt; simp at hlt
        have hn2 := next_arr t h (some (.int ((j + 1 : Nat) : Int))) (j + 1) (Or.inr ⟨rfl, by omega⟩) hmai (by omega)
        have := ih (j + 1) f (some (.int ((j + 1 : Nat) : Int))) (by omega) (by omega) (by omega) hn2
        simp only [traverseAux, hnext, this, List.cons_append]

theorem traverse_eq (t : Tbl) (h : Inv t) (hm : 0 < t.mai) :
    traverse t = .ok (arrPairs t.array 0 ++ keyPairs t t.keys) := by
  have := traverseAux_arr t h t.array.length 0 (t.array.length + t.keys.length + 2) none
    (by omega) (by omega) (by omega) (next_arr t h none 0 (Or.inl ⟨rfl, rfl⟩) hm (by omega))
  simpa [traverse] using this

/-! ### the visited pairs are exactly the present ones, each key once -/

theorem mem_arrPairs (a : List OVal) (off : Nat) (k v : Val) :
    (k, v) ∈ arrPairs a off ↔ ∃ i : Nat, a[i]? = some (some v) ∧ k = .int ((off + 1 + i : Nat) : Int) := by
  induction a generalizing off with
  | nil => simp [arrPairs]
  | cons x r ih =>
    cases x with
    | none =>
      simp only [arrPairs, ih]
      constructor
      · rintro ⟨i, h1, h2⟩
        exact ⟨i + 1, by simpa using h1, by rw [h2]; congr 2; omega⟩
      · rintro ⟨i, h1, h2⟩
        cases i with
        | zero => simp at h1
        | succ i => exact ⟨i, by simpa using h1, by rw [h2]; congr 2; omega⟩
    | some w =>
      simp only [arrPairs, List.mem_cons, ih]
      constructor
      · rintro (h | ⟨i, h1, h2⟩)
        · injection h with h1 h2
          exact ⟨0, by simp [h2], by rw [h1]⟩
        · exact ⟨i + 1, by simpa using h1, by rw [h2]; congr 2; omega⟩
      · rintro ⟨i, h1, h2⟩
        cases i with
        | zero =>
          left
          simp at h1
          rw [h2, h1]
        | succ i => exact Or.inr ⟨i, by simpa using h1, by rw [h2]; congr 2; omega⟩

theorem mem_arrPairs_keys (a : List OVal) (off : Nat) (k : Val) (h : k ∈ (arrPairs a off).map (·.1)) :
    ∃ i : Nat, i < a.length ∧ k = .int ((off + 1 + i : Nat) : Int) := by
  simp only [List.mem_map] at h
  obtain ⟨⟨k', v⟩, hm, rfl⟩ := h
  obtain ⟨i, h1, h2⟩ := (mem_arrPairs a off k' v).1 hm
  refine ⟨i, ?_, h2⟩
  by_cases hlt : i < a.length
  · exact hlt
  · rw [List.getElem?_eq_none (by omega)] at h1; cases h1

theorem arrPairs_nodup (a : List OVal) (off : Nat) : ((arrPairs a off).map (·.1)).Nodup := by
  induction a generalizing off with
  | nil => simp [arrPairs]
  | cons x r ih =>
    cases x with
    | none => simp only [arrPairs]; exact ih (off + 1)
    | some w =>
      simp only [arrPairs, List.map_cons, List.nodup_cons]
      refine ⟨?_, ih (off + 1)⟩
      intro hm
      obtain ⟨i, _, h2⟩ := mem_arrPairs_keys r (off + 1) _ hm
      injection h2 with h2
      omega

theorem mem_keyPairs (t : Tbl) (ks : List Val) (k v : Val) :
    (k, v) ∈ keyPairs t ks ↔ k ∈ ks ∧ rawGetH t k = some v := by
  simp only [keyPairs, List.mem_filterMap, Option.map_eq_some_iff]
  constructor
  · rintro ⟨a, ha, w, hw, he⟩
    injection he with e1 e2
    subst e1; subst e2
    exact ⟨ha, hw⟩
  · rintro ⟨h1, h2⟩
    exact ⟨k, h1, v, h2, rfl⟩

theorem keyPairs_sublist (t : Tbl) (ks : List Val) : ((keyPairs t ks).map (·.1)).Sublist ks := by
  induction ks with
  | nil => simp [keyPairs]
  | cons k r ih =>
    cases hg : rawGetH t k with
    | none =>
      have : keyPairs t (k :: r) = keyPairs t r := by simp [keyPairs, hg]
      rw [this]; exact List.Sublist.cons k ih
    | some v =>
      have : keyPairs t (k :: r) = (k, v) :: keyPairs t r := by simp [keyPairs, hg]
      rw [this]; simp only [List.map_cons]; exact List.Sublist.cons_cons k ih

/-- **traversal is complete** (for `MaxArrayIndex ≥ 1`): iterating `Next` from nil terminates without
    panic and yields exactly the present pairs, each key once.

    The original statement had no `0 < t.mai` hypothesis and is *false* for `MaxArrayIndex = 0`
    (see `traverse_complete_fails_mai_zero` below): `Next(nil)` then fails the test
    `0 ≤ 0 ∧ 0 < MaxArrayIndex`, falls through to the loop `for i := k2i[LNumber(0)] + 1; …` and
    skips `keys[0]`.
    ```
    theorem traverse_complete (t : Tbl) (h : Inv t) :
        ∃ l : List (Val × Val), traverse t = .ok l ∧ (l.map (·.1)).Nodup ∧
          ∀ k v, (k, v) ∈ l ↔ rawGet t k = some v
    ``` -/
theorem traverse_complete (t : Tbl) (h : Inv t) (hm : 0 < t.mai) :
    ∃ l : List (Val × Val), traverse t = .ok l ∧ (l.map (·.1)).Nodup ∧
      ∀ k v, (k, v) ∈ l ↔ rawGet t k = some v := by
  refine ⟨_, traverse_eq t h hm, ?_, ?_⟩
  · rw [List.map_append, List.nodup_append]
    refine ⟨arrPairs_nodup _ _, (keyPairs_sublist t t.keys).nodup h.keysNodup, ?_⟩
    intro a ha b hb e
    subst e
    obtain ⟨i, hi, rfl⟩ := mem_arrPairs_keys _ _ _ ha
    have hb' := h.keysHash _ ((keyPairs_sublist t t.keys).subset hb)
    have hlt : t.array.length < t.mai := by
      rcases h.arrLt with h1 | h1
      · exact h1
      · rw [h1] at hi; simp at hi
    rw [arrIdx_int (by omega) (by omega)] at hb'
    cases hb'
  · intro k v
    rw [List.mem_append, mem_arrPairs, mem_keyPairs]
    constructor
    · rintro (⟨i, h1, rfl⟩ | ⟨h1, h2⟩)
      · have hi : i < t.array.length := by
          by_cases hlt : i < t.array.length
          · exact hlt
          · rw [List.getElem?_eq_none (by omega)] at h1; cases h1
        have hlt : t.array.length < t.mai := by
          rcases h.arrLt with h2 | h2
          · exact h2
          · rw [h2] at hi; simp at hi
        unfold rawGet
        rw [arrIdx_int (by omega) (by omega)]
        simp only
        have : 0 + 1 + i - 1 = i := by omega
        rw [this, h1]; rfl
      · rw [← rawGetH_eq_rawGet t k (h.keysHash k h1)]; exact h2
    · intro hg
      cases hidx : arrIdx t.mai k with
      | some n =>
        left
        obtain ⟨rfl, hn0, hn1⟩ := arrIdx_some hidx
        unfold rawGet at hg
        rw [hidx] at hg
        simp only at hg
        refine ⟨n - 1, ?_, by congr 2; omega⟩
        cases hx : t.array[n - 1]? with
        | none => rw [hx] at hg; cases hg
        | some x => rw [hx] at hg; simp at hg; rw [hg]
      | none =>
        right
        rw [← rawGetH_eq_rawGet t k hidx] at hg
        refine ⟨?_, hg⟩
        unfold rawGetH at hg
        split at hg
        · exact (h.strKeys k v hg).2
        · exact (h.dictKeys k v hg).2.2

/-- the unguarded statement is false — whatever the invariant, as long as it holds of fresh tables and is
    kept by `RawSet`: with `MaxArrayIndex = 0`, after `t["a"] = 1` the traversal from nil visits nothing. -/
theorem traverse_complete_fails_mai_zero :
    ¬ (∀ t : Tbl, Inv t → ∃ l : List (Val × Val), traverse t = .ok l ∧ (l.map (·.1)).Nodup ∧
        ∀ k v, (k, v) ∈ l ↔ rawGet t k = some v) := by
  intro H
  obtain ⟨l, h1, _, h3⟩ :=
    H (rawSet { mai := 0 } (.str "61") (some (.int 1))) (inv_rawSet _ _ _ inv_empty)
  have e1 : traverse (rawSet { mai := 0 } (.str "61") (some (.int 1))) = .ok [] := by rfl
  have e2 : rawGet (rawSet { mai := 0 } (.str "61") (some (.int 1))) (.str "61") = some (.int 1) := by decide
  rw [e1] at h1
  injection h1 with h1
  have := (h3 _ _).2 e2
  rw [← h1] at this
  cases this

end GLua.Table
