import GLua.Proofs.Table

namespace GLua.Table
open GLua

/-- Representation invariant of `LTable` (what `RawSet*` maintain):
    * the array part stays below `MaxArrayIndex`;
    * `strdict` holds only string keys, `dict` only non-string keys that are not array keys;
    * `keys` lists every key ever stored in `strdict ∪ dict`, once, and `k2i` is its inverse. -/
structure Inv (t : Tbl) : Prop where
  arrLt    : t.array.length < t.mai ∨ t.array = []
  strKeys  : ∀ k v, alGet t.strdict k = some v → isStr k = true ∧ k ∈ t.keys
  dictKeys : ∀ k v, alGet t.dict k = some v → isStr k = false ∧ arrIdx t.mai k = none ∧ k ∈ t.keys
  keysHash : ∀ k ∈ t.keys, arrIdx t.mai k = none
  keysNodup : t.keys.Nodup
  k2iInv   : ∀ (i : Nat) (k : Val), t.keys[i]? = some k → k2iGet t.k2i k = some i
  emptyOk  : (t.dict.isEmpty ∧ t.strdict.isEmpty) → ∀ k, rawGetH t k = none

/-- iterate `Next` from nil, collecting the pairs; the fuel bounds the number of steps (running out of
    fuel is reported as an error, so `traverse t = .ok l` includes termination). -/
def traverseAux (t : Tbl) : Nat → OVal → Except Err (List (Val × Val))
  | 0, _ => .error (.goPanic "traverse: did not terminate")
  | f + 1, key =>
    match next t key with
    | .error e => .error e
    | .ok none => .ok []
    | .ok (some (k, v)) =>
      match traverseAux t f (some k) with
      | .error e => .error e
      | .ok l => .ok ((k, v) :: l)

def traverse (t : Tbl) : Except Err (List (Val × Val)) :=
  traverseAux t (t.array.length + t.keys.length + 2) none

theorem inv_empty {mai : Nat} : Inv { mai := mai } := by
  sorry

theorem inv_rawSet (t : Tbl) (k : Val) (v : OVal) (h : Inv t) : Inv (rawSet t k v) := by
  sorry

theorem traverse_complete (t : Tbl) (h : Inv t) :
    ∃ l : List (Val × Val), traverse t = .ok l ∧ (l.map (·.1)).Nodup ∧
      ∀ k v, (k, v) ∈ l ↔ rawGet t k = some v := by
  sorry

end GLua.Table
