import GLua.Proofs.TableNext

/-!
  C09: the list helpers of the Go table API (`Append`, `Insert`, `Remove`) and `ForEach`:
  they keep the representation invariant and are transformers of the abstract finite map.
-/

namespace GLua.Table
open GLua GLua.TableSpec

/-! ### `lastNonNil` (= `Len` = `MaxN`) -/

theorem lastNonNil_append_some (a : List OVal) (x : Val) : lastNonNil (a ++ [some x]) = a.length + 1 := by
  induction a with
  | nil => simp [lastNonNil]
  | cons y r ih => simp [lastNonNil, ih]

theorem lastNonNil_append_none (a : List OVal) : lastNonNil (a ++ [none]) = lastNonNil a := by
  induction a with
  | nil => simp [lastNonNil]
  | cons y r ih => simp [lastNonNil, ih]

/-! ### reads of a table whose array part has been replaced -/

theorem rawGet_setArray (t : Tbl) (a : List OVal) (b : Bool) (k : Val) :
    rawGet { t with array := a, alloc := b } k =
      match arrIdx t.mai k with
      | some n => (a[n - 1]?).join
      | none => rawGet t k := by
  unfold rawGet
  cases arrIdx t.mai k <;> rfl

theorem rawGet_arr (t : Tbl) (k : Val) (n : Nat) (h : arrIdx t.mai k = some n) :
    rawGet t k = (t.array[n - 1]?).join := by
  unfold rawGet; rw [h]

theorem rawGet_int_arr (t : Tbl) (n : Nat) (h0 : 0 < n) (h1 : n < t.mai) :
    rawGet t (.int (n : Int)) = (t.array[n - 1]?).join :=
  rawGet_arr t _ n (arrIdx_int h0 h1)

theorem inv_setArray (t : Tbl) (h : Inv t) (a : List OVal) (b : Bool) (hl : a.length < t.mai ∨ a = []) :
    Inv { t with array := a, alloc := b } :=
  ⟨hl, h.strKeys, h.dictKeys, h.keysHash, h.keysNodup, h.k2iInv, h.k2iConv⟩

/-! ### `Append` -/

/-- `Append(v)` is the array-part store at key `Len() + 1` — in all three branches of the Go code. -/
theorem append_some_eq_setArr (t : Tbl) (x : Val) : append t (some x) = setArr t (len t + 1) (some x) := by
  obtain ⟨mai, alloc, array, strdict, dict, keys, k2i⟩ := t
  unfold append len
  simp only
  cases hl : array.getLast? with
  | none =>
    have e : array = [] := List.getLast?_eq_none_iff.1 hl
    subst e
    simp [setArr, lastNonNil]
  | some y =>
    obtain ⟨ys, hys⟩ := List.getLast?_eq_some_iff.1 hl
    subst hys
    cases y with
    | some w =>
      simp only
      rw [lastNonNil_append_some]
      simp [setArr]
    | none =>
      simp only
      have hle := lastNonNil_le ys
      rw [lastNonNil_append_none, List.dropLast_concat]
      unfold setArr
      have e0 : (ys ++ [none]).length = ys.length + 1 := by simp
      have e1 : ¬ (lastNonNil ys + 1 - 1 = (ys ++ [none]).length) := by omega
      have e2 : ¬ (lastNonNil ys + 1 - 1 > (ys ++ [none]).length) := by omega
      simp only [e1, e2, if_false]
      have e3 : lastNonNil ys + 1 - 1 = lastNonNil ys := by omega
      rw [e3]

theorem append_none (t : Tbl) : append t none = t := rfl

/-- below the `MaxArrayIndex` boundary `Append(v)` is the store `t[Len()+1] = v`. -/
theorem append_eq_rawSet (t : Tbl) (x : Val) (h : len t + 1 < t.mai) :
    append t (some x) = rawSet t (.int ((len t + 1 : Nat) : Int)) (some x) := by
  rw [append_some_eq_setArr]
  unfold rawSet
  rw [arrIdx_int (by omega) h]

/-! ### `Insert` -/

theorem insert_eq_rawSet (t : Tbl) (i : Int) (v : OVal) (h : i ≤ 0 ∨ i > t.array.length) :
    insert t i v = rawSet { t with alloc := true } (.int i) v := by
  unfold insert
  simp only
  by_cases h1 : i > (t.array.length : Int)
  · simp only [h1, if_true]; exact rawSetInt_eq_rawSet _ i v
  · have h2 : i ≤ 0 := by omega
    simp only [h1, h2, if_false, if_true]

theorem rawGet_alloc (t : Tbl) (b : Bool) (k : Val) : rawGet { t with alloc := b } k = rawGet t k := by
  unfold rawGet; rfl

theorem inv_alloc (t : Tbl) (h : Inv t) (b : Bool) : Inv { t with alloc := b } :=
  ⟨h.arrLt, h.strKeys, h.dictKeys, h.keysHash, h.keysNodup, h.k2iInv, h.k2iConv⟩

/-- `Insert` keeps the invariant as long as the array part stays below `MaxArrayIndex`
    (the excluded corner is the recorded finding `C09-array-past-maxarrayindex`). -/
theorem inv_insert (t : Tbl) (h : Inv t) (i : Int) (v : OVal) (hg : t.array.length + 1 < t.mai) :
    Inv (insert t i v) := by
  by_cases hc : i ≤ 0 ∨ i > t.array.length
  · rw [insert_eq_rawSet t i v hc]; exact inv_rawSet _ _ _ (inv_alloc t h true)
  · unfold insert
    have h1 : ¬ i > (t.array.length : Int) := by omega
    have h2 : ¬ i ≤ 0 := by omega
    simp only [h1, h2, if_false]
    apply inv_setArray t h
    left
    rw [List.length_insertIdx]
    split <;> omega

/-- **`Insert` is `table.insert` on the abstract map** (window = the array part). -/
theorem rawGet_insert (t : Tbl) (h : Inv t) (i : Int) (v : OVal) (hg : t.array.length + 1 < t.mai) (k : Val) :
    rawGet (insert t i v) k = SMap.insertAt (rawGet t) t.array.length i v k := by
  by_cases hc : i ≤ 0 ∨ i > t.array.length
  · rw [insert_eq_rawSet t i v hc, rawGet_rawSet]
    unfold SMap.insertAt
    rw [if_pos hc]
    simp only [SMap.set, rawGet_alloc]
  · unfold SMap.insertAt
    rw [if_neg hc]
    unfold insert
    have h1 : ¬ i > (t.array.length : Int) := by omega
    have h2 : ¬ i ≤ 0 := by omega
    simp only [h1, h2, if_false]
    rw [rawGet_setArray]
    cases hidx : arrIdx t.mai k with
    | none =>
      simp only
      cases k with
      | int j =>
        simp only
        have hj : ¬ (0 < j ∧ j < (t.mai : Int)) := by
          intro hh; simp [arrIdx, hh] at hidx
        have c1 : ¬ (i < j ∧ j ≤ (t.array.length : Int) + 1) := by omega
        have c2 : ¬ (j = i) := by omega
        simp only [c1, c2, if_false]
      | flt b => rfl
      | str s => rfl
      | bool b => rfl
      | ref n => rfl
    | some n =>
      obtain ⟨rfl, hn0, hn1⟩ := arrIdx_some hidx
      simp only
      rw [List.getElem?_insertIdx]
      by_cases c0 : n - 1 < i.toNat - 1
      · -- below the insertion point
        have c1 : ¬ (i < (n : Int) ∧ (n : Int) ≤ (t.array.length : Int) + 1) := by omega
        have c2 : ¬ ((n : Int) = i) := by omega
        simp only [c0, if_true, c1, c2, if_false]
        rw [rawGet_int_arr t n hn0 hn1]
      · simp only [c0, if_false]
        by_cases c3 : n - 1 = i.toNat - 1
        · have c1 : ¬ (i < (n : Int) ∧ (n : Int) ≤ (t.array.length : Int) + 1) := by omega
          have c2 : (n : Int) = i := by omega
          have c4 : n - 1 ≤ t.array.length := by omega
          simp only [c3, if_true, c1, c2, if_false]
          rw [← c3]; simp [c4]
        · simp only [c3, if_false]
          have c2 : ¬ ((n : Int) = i) := by omega
          by_cases c5 : (n : Int) ≤ (t.array.length : Int) + 1
          · have c1 : (i < (n : Int) ∧ (n : Int) ≤ (t.array.length : Int) + 1) := by omega
            simp only [c1, and_self, if_true]
            have e : ((n : Int) - 1) = ((n - 1 : Nat) : Int) := by omega
            rw [e, rawGet_int_arr t (n - 1) (by omega) (by omega)]
          · have c1 : ¬ (i < (n : Int) ∧ (n : Int) ≤ (t.array.length : Int) + 1) := by omega
            simp only [c1, c2, if_false]
            rw [rawGet_int_arr t n hn0 hn1]
            rw [List.getElem?_eq_none (by omega), List.getElem?_eq_none (by omega)]

/-! ### `Remove` -/

theorem inv_remove (t : Tbl) (h : Inv t) (pos : Int) : Inv (remove t pos).1 := by
  have hlt : t.array.length < t.mai ∨ t.array.length = 0 := by
    rcases h.arrLt with h1 | h1
    · exact Or.inl h1
    · right; rw [h1]; rfl
  unfold remove
  simp only
  split
  · exact h
  · split
    · exact h
    · split
      · apply inv_setArray t h _ t.alloc
        left; rw [List.length_dropLast]; omega
      · apply inv_setArray t h _ t.alloc
        left; rw [List.length_eraseIdx]; split <;> omega

/-- **`Remove` is `table.remove` on the abstract map** (window = the array part `1 … n`): nothing happens
    for an empty array part or `pos > n`; `pos < 1` means the last position; the value returned is the old
    `t[pos]`. -/
theorem rawGet_remove (t : Tbl) (h : Inv t) (hm : 0 < t.mai) (pos : Int) :
    let n := t.array.length
    let p : Int := if pos < 1 then n else pos
    (n = 0 ∨ pos > n → (remove t pos).1 = t ∧ (remove t pos).2 = none) ∧
    (¬ (n = 0 ∨ pos > n) → (remove t pos).2 = rawGet t (.int p) ∧
        ∀ k, rawGet (remove t pos).1 k = SMap.removeAt (rawGet t) n p k) := by
  have hlt : t.array.length < t.mai := by
    rcases h.arrLt with h1 | h1
    · exact h1
    · rw [h1]; exact hm
  intro n p
  constructor
  · intro hc
    unfold remove
    simp only
    by_cases h0 : t.array.length = 0
    · simp [h0]
    · have h1 : pos - 1 ≥ (t.array.length : Int) := by
        rcases hc with hc | hc
        · exact absurd hc h0
        · show pos - 1 ≥ (n : Int); omega
      simp [h0, h1]
  · intro hc
    have h0 : ¬ t.array.length = 0 := fun e => hc (Or.inl e)
    have h1 : ¬ pos - 1 ≥ (t.array.length : Int) := by
      intro hh; apply hc; right; show pos > (n : Int); omega
    unfold remove
    simp only [h0, h1, if_false]
    by_cases h2 : pos - 1 = (t.array.length : Int) - 1 ∨ pos - 1 < 0
    · -- the last position
      simp only [h2, if_true]
      have hp : p = (t.array.length : Int) := by
        show (if pos < 1 then (n : Int) else pos) = _
        split
        · rfl
        · show pos = (n : Int) ; omega
      constructor
      · rw [hp, rawGet_int_arr t t.array.length (by omega) hlt]
        rw [List.getLast?_eq_getElem?]
      · intro k
        rw [rawGet_setArray]
        unfold SMap.removeAt
        cases hidx : arrIdx t.mai k with
        | none =>
          simp only
          cases k with
          | int j =>
            simp only
            have hj : ¬ (0 < j ∧ j < (t.mai : Int)) := by
              intro hh; simp [arrIdx, hh] at hidx
            have c1 : ¬ (p ≤ j ∧ j < (n : Int)) := by rw [hp]; omega
            have c2 : ¬ (j = (n : Int)) := by show ¬ (j = (t.array.length : Int)); omega
            simp only [c1, c2, if_false]
          | flt b => rfl
          | str s => rfl
          | bool b => rfl
          | ref n => rfl
        | some m =>
          obtain ⟨rfl, hm0, hm1⟩ := arrIdx_some hidx
          simp only
          have c1 : ¬ (p ≤ (m : Int) ∧ (m : Int) < (n : Int)) := by rw [hp]; show ¬ (_ ∧ (m : Int) < (t.array.length : Int)); omega
          simp only [c1, if_false]
          rw [List.getElem?_dropLast]
          by_cases c2 : (m : Int) = (n : Int)
          · have : ¬ (m - 1 < t.array.length - 1) := by
              have : (m : Int) = (t.array.length : Int) := c2
              omega
            simp [c2, this]
          · simp only [c2, if_false]
            rw [rawGet_int_arr t m hm0 hm1]
            by_cases c3 : m - 1 < t.array.length - 1
            · simp [c3]
            · have : ¬ ((m : Int) = (t.array.length : Int)) := c2
              simp only [c3, if_false]
              rw [List.getElem?_eq_none (by omega)]
    · -- a middle position: shift down
      simp only [h2, if_false]
      have hp : p = pos := by
        show (if pos < 1 then (n : Int) else pos) = _
        rw [if_neg (by omega)]
      have hpos : 1 ≤ pos ∧ pos < (t.array.length : Int) := by omega
      constructor
      · rw [hp]
        have e : pos = ((pos.toNat : Nat) : Int) := by omega
        rw [e, rawGet_int_arr t pos.toNat (by omega) (by omega)]
        have : (((pos.toNat : Nat) : Int) - 1).toNat = pos.toNat - 1 := by omega
        rw [this]
      · intro k
        rw [rawGet_setArray]
        unfold SMap.removeAt
        cases hidx : arrIdx t.mai k with
        | none =>
          simp only
          cases k with
          | int j =>
            simp only
            have hj : ¬ (0 < j ∧ j < (t.mai : Int)) := by
              intro hh; simp [arrIdx, hh] at hidx
            have c1 : ¬ (p ≤ j ∧ j < (n : Int)) := by rw [hp]; show ¬ (_ ∧ j < (t.array.length : Int)); omega
            have c2 : ¬ (j = (n : Int)) := by show ¬ (j = (t.array.length : Int)); omega
            simp only [c1, c2, if_false]
          | flt b => rfl
          | str s => rfl
          | bool b => rfl
          | ref n => rfl
        | some m =>
          obtain ⟨rfl, hm0, hm1⟩ := arrIdx_some hidx
          simp only
          rw [List.getElem?_eraseIdx, hp]
          by_cases c0 : m - 1 < (pos - 1).toNat
          · have c1 : ¬ (pos ≤ (m : Int) ∧ (m : Int) < (n : Int)) := by omega
            have c2 : ¬ ((m : Int) = (n : Int)) := by show ¬ ((m : Int) = (t.array.length : Int)); omega
            simp only [c0, if_true, c1, c2, if_false]
            rw [rawGet_int_arr t m hm0 hm1]
          · simp only [c0, if_false]
            by_cases c1 : (m : Int) < (n : Int)
            · have c1' : (pos ≤ (m : Int) ∧ (m : Int) < (n : Int)) := by omega
              simp only [c1', and_self, if_true]
              have e : ((m : Int) + 1) = ((m + 1 : Nat) : Int) := by omega
              have c4 : m + 1 < t.mai := by
                have : (m : Int) < (t.array.length : Int) := c1
                omega
              rw [e, rawGet_int_arr t (m + 1) (by omega) c4]
              have : m - 1 + 1 = m + 1 - 1 := by omega
              rw [this]
            · have c1' : ¬ (pos ≤ (m : Int) ∧ (m : Int) < (n : Int)) := by omega
              have c5 : ¬ ((m : Int) < (t.array.length : Int)) := c1
              simp only [c1', if_false]
              rw [List.getElem?_eq_none (by omega)]
              by_cases c2 : (m : Int) = (n : Int)
              · simp [c2]
              · simp only [c2, if_false]
                rw [rawGet_int_arr t m hm0 hm1, List.getElem?_eq_none (by
                  have : ¬ ((m : Int) = (t.array.length : Int)) := c2
                  omega)]

/-! ### the two Go maps hold each key once (needed for `ForEach`) -/

def alKeys (l : AL) : List Val := l.map (·.1)

theorem alGet_some_of_mem_keys (l : AL) (k : Val) (h : k ∈ alKeys l) : ∃ v, alGet l k = some v := by
  induction l with
  | nil => simp [alKeys] at h
  | cons p r ih =>
    obtain ⟨a, b⟩ := p
    simp only [alGet]
    by_cases e : a = k
    · exact ⟨b, by simp [e]⟩
    · simp only [e, if_false]
      apply ih
      simp only [alKeys, List.map_cons, List.mem_cons] at h
      rcases h with h | h
      · exact absurd h.symm e
      · exact h

theorem alGet_none_of_not_mem (l : AL) (k : Val) (h : k ∉ alKeys l) : alGet l k = none := by
  induction l with
  | nil => rfl
  | cons p r ih =>
    obtain ⟨a, b⟩ := p
    simp only [alKeys, List.map_cons, List.mem_cons, not_or] at h
    simp only [alGet]
    rw [if_neg (fun e => h.1 e.symm)]
    exact ih h.2

theorem mem_al_iff (l : AL) (h : (alKeys l).Nodup) (k v : Val) : (k, v) ∈ l ↔ alGet l k = some v := by
  induction l with
  | nil => simp [alGet]
  | cons p r ih =>
    obtain ⟨a, b⟩ := p
    simp only [alKeys, List.map_cons, List.nodup_cons] at h
    simp only [List.mem_cons, alGet, Prod.mk.injEq]
    by_cases e : a = k
    · subst e
      simp only [if_true, Option.some.injEq]
      constructor
      · rintro (⟨_, rfl⟩ | hm)
        · rfl
        · exact absurd (List.mem_map.2 ⟨(a, v), hm, rfl⟩) h.1
      · intro e; left; simp [e]
    · simp only [e, if_false]
      rw [← ih h.2]
      constructor
      · rintro (⟨e', _⟩ | hm)
        · exact absurd e'.symm e
        · exact hm
      · intro hm; right; exact hm

theorem alKeys_alSet (l : AL) (k v : Val) :
    alKeys (alSet l k v) = if k ∈ alKeys l then alKeys l else alKeys l ++ [k] := by
  induction l with
  | nil => simp [alSet, alKeys]
  | cons p r ih =>
    obtain ⟨a, b⟩ := p
    simp only [alSet]
    by_cases e : a = k
    · subst e; simp [alKeys]
    · simp only [e, if_false]
      simp only [alKeys, List.map_cons, List.mem_cons] at ih ⊢
      rw [ih]
      have : ¬ k = a := fun e' => e e'.symm
      simp only [this, false_or]
      split
      · rename_i hk; simp [hk]
      · rename_i hk; simp [hk]

theorem alKeys_alDel_sublist (l : AL) (k : Val) : (alKeys (alDel l k)).Sublist (alKeys l) := by
  induction l with
  | nil => simp [alDel, alKeys]
  | cons p r ih =>
    obtain ⟨a, b⟩ := p
    simp only [alDel]
    split
    · exact List.Sublist.cons _ ih
    · exact List.Sublist.cons_cons _ ih

theorem alSet_nodup (l : AL) (k v : Val) (h : (alKeys l).Nodup) : (alKeys (alSet l k v)).Nodup := by
  rw [alKeys_alSet]
  split
  · exact h
  · rename_i hk
    rw [List.nodup_append]
    refine ⟨h, by simp, ?_⟩
    intro a ha b hb e
    simp at hb; subst hb; subst e; exact hk ha

theorem alDel_nodup (l : AL) (k : Val) (h : (alKeys l).Nodup) : (alKeys (alDel l k)).Nodup :=
  (alKeys_alDel_sublist l k).nodup h

/-- second part of the representation invariant: a Go map holds a key at most once (the association lists
    that model `strdict` and `dict` have pairwise distinct keys). -/
structure InvAL (t : Tbl) : Prop where
  str  : (alKeys t.strdict).Nodup
  dict : (alKeys t.dict).Nodup

theorem invAL_empty {mai : Nat} : InvAL { mai := mai } := ⟨by simp [alKeys], by simp [alKeys]⟩

theorem setArr_hash (t : Tbl) (n : Nat) (v : OVal) :
    (setArr t n v).strdict = t.strdict ∧ (setArr t n v).dict = t.dict := by
  simp only [setArr]; split
  · exact ⟨rfl, rfl⟩
  · split <;> exact ⟨rfl, rfl⟩

theorem invAL_rawSetString (t : Tbl) (k : Val) (v : OVal) (h : InvAL t) : InvAL (rawSetString t k v) := by
  unfold rawSetString
  cases v with
  | none => exact ⟨alDel_nodup _ _ h.str, h.dict⟩
  | some x =>
    simp only
    obtain ⟨_, h2, h3⟩ := noteKey_fields { t with strdict := alSet t.strdict k x } k
    exact ⟨by rw [h2]; exact alSet_nodup _ _ _ h.str, by rw [h3]; exact h.dict⟩

theorem invAL_rawSetH (t : Tbl) (k : Val) (v : OVal) (h : InvAL t) : InvAL (rawSetH t k v) := by
  unfold rawSetH
  split
  · exact invAL_rawSetString t k v h
  · cases v with
    | none => exact ⟨h.str, alDel_nodup _ _ h.dict⟩
    | some x =>
      simp only
      obtain ⟨_, h2, h3⟩ := noteKey_fields { t with dict := alSet t.dict k x } k
      exact ⟨by rw [h2]; exact h.str, by rw [h3]; exact alSet_nodup _ _ _ h.dict⟩

theorem invAL_rawSet (t : Tbl) (k : Val) (v : OVal) (h : InvAL t) : InvAL (rawSet t k v) := by
  unfold rawSet
  split
  · obtain ⟨h1, h2⟩ := setArr_hash t _ v
    exact ⟨by rw [h1]; exact h.str, by rw [h2]; exact h.dict⟩
  · split
    · exact invAL_rawSetString t k v h
    · exact invAL_rawSetH t k v h

theorem invAL_rawSetInt (t : Tbl) (i : Int) (v : OVal) (h : InvAL t) : InvAL (rawSetInt t i v) := by
  rw [rawSetInt_eq_rawSet]; exact invAL_rawSet t _ v h

theorem invAL_append (t : Tbl) (v : OVal) (h : InvAL t) : InvAL (append t v) := by
  cases v with
  | none => exact h
  | some x =>
    rw [append_some_eq_setArr]
    obtain ⟨h1, h2⟩ := setArr_hash t (len t + 1) (some x)
    exact ⟨by rw [h1]; exact h.str, by rw [h2]; exact h.dict⟩

theorem invAL_insert (t : Tbl) (i : Int) (v : OVal) (h : InvAL t) : InvAL (insert t i v) := by
  have ha : InvAL { t with alloc := true } := ⟨h.str, h.dict⟩
  unfold insert
  simp only
  split
  · exact invAL_rawSetInt _ i v ha
  · split
    · exact invAL_rawSet _ _ v ha
    · exact ⟨h.str, h.dict⟩

theorem invAL_remove (t : Tbl) (pos : Int) (h : InvAL t) : InvAL (remove t pos).1 := by
  unfold remove
  simp only
  split
  · exact h
  · split
    · exact h
    · split <;> exact ⟨h.str, h.dict⟩

/-! ### `ForEach` -/

theorem forEach_arr_eq (a : List OVal) (i : Nat) : forEach.arr a i = arrPairs a i := by
  induction a generalizing i with
  | nil => rfl
  | cons x r ih =>
    cases x with
    | none => simp only [forEach.arr, arrPairs, ih]
    | some v =>
      simp only [forEach.arr, arrPairs, ih]
      congr 3

/-- **`ForEach` is complete and repetition-free**: the callback receives exactly the present pairs, each key once
    (array part in index order, then the two maps; the order inside a Go map is unspecified). -/
theorem forEach_complete (t : Tbl) (h : Inv t) (ha : InvAL t) (hm : 0 < t.mai) :
    ((forEach t).map (·.1)).Nodup ∧ ∀ k v, (k, v) ∈ forEach t ↔ rawGet t k = some v := by
  have hlt : t.array.length < t.mai := by
    rcases h.arrLt with h1 | h1
    · exact h1
    · rw [h1]; exact hm
  have harr : ∀ k, k ∈ (arrPairs t.array 0).map (·.1) → ∃ n, arrIdx t.mai k = some n := by
    intro k hk
    obtain ⟨i, hi, rfl⟩ := mem_arrPairs_keys _ _ _ hk
    exact ⟨_, arrIdx_int (by omega) (by omega)⟩
  have hstr : ∀ k, k ∈ alKeys t.strdict → isStr k = true ∧ arrIdx t.mai k = none := by
    intro k hk
    obtain ⟨v, hv⟩ := alGet_some_of_mem_keys _ _ hk
    have := (h.strKeys k v hv).1
    refine ⟨this, ?_⟩
    cases k <;> simp_all [isStr, arrIdx]
  have hdict : ∀ k, k ∈ alKeys t.dict → isStr k = false ∧ arrIdx t.mai k = none := by
    intro k hk
    obtain ⟨v, hv⟩ := alGet_some_of_mem_keys _ _ hk
    exact ⟨(h.dictKeys k v hv).1, (h.dictKeys k v hv).2.1⟩
  unfold forEach
  rw [forEach_arr_eq]
  constructor
  · rw [List.map_append, List.map_append, List.nodup_append, List.nodup_append]
    refine ⟨⟨arrPairs_nodup _ _, ha.str, ?_⟩, ha.dict, ?_⟩
    · intro a h1 b h2 e
      subst e
      obtain ⟨n, hn⟩ := harr a h1
      rw [(hstr a h2).2] at hn; cases hn
    · intro a h1 b h2 e
      subst e
      rcases List.mem_append.1 h1 with h1 | h1
      · obtain ⟨n, hn⟩ := harr a h1
        rw [(hdict a h2).2] at hn; cases hn
      · have := (hstr a h1).1
        rw [(hdict a h2).1] at this; cases this
  · intro k v
    rw [List.mem_append, List.mem_append, mem_arrPairs, mem_al_iff _ ha.str, mem_al_iff _ ha.dict]
    constructor
    · rintro ((⟨i, h1, rfl⟩ | h1) | h1)
      · have hi : i < t.array.length := by
          by_cases hlt' : i < t.array.length
          · exact hlt'
          · rw [List.getElem?_eq_none (by omega)] at h1; cases h1
        rw [rawGet_int_arr t (0 + 1 + i) (by omega) (by omega)]
        have : 0 + 1 + i - 1 = i := by omega
        rw [this, h1]; rfl
      · have hk := hstr k (by
          cases hg : alGet t.strdict k with
          | none => rw [hg] at h1; cases h1
          | some w =>
            apply Classical.byContradiction
            intro hn; rw [alGet_none_of_not_mem _ _ hn] at hg; cases hg)
        unfold rawGet; rw [hk.2]; simp only [hk.1, if_true]; exact h1
      · have hk := hdict k (by
          apply Classical.byContradiction
          intro hn; rw [alGet_none_of_not_mem _ _ hn] at h1; cases h1)
        unfold rawGet; rw [hk.2]; simp only [hk.1, Bool.false_eq_true, if_false]; exact h1
    · intro hg
      cases hidx : arrIdx t.mai k with
      | some n =>
        left; left
        obtain ⟨rfl, hn0, hn1⟩ := arrIdx_some hidx
        rw [rawGet_int_arr t n hn0 hn1] at hg
        refine ⟨n - 1, ?_, by congr 2; omega⟩
        cases hx : t.array[n - 1]? with
        | none => rw [hx] at hg; cases hg
        | some x => rw [hx] at hg; simp at hg; rw [hg]
      | none =>
        unfold rawGet at hg
        rw [hidx] at hg
        simp only at hg
        split at hg
        · left; right; exact hg
        · right; exact hg

/-! ### `mai` is never changed by the list helpers -/

@[simp] theorem append_mai (t : Tbl) (v : OVal) : (append t v).mai = t.mai := by
  cases v with
  | none => rfl
  | some x => rw [append_some_eq_setArr, setArr_mai]

@[simp] theorem rawSetInt_mai (t : Tbl) (i : Int) (v : OVal) : (rawSetInt t i v).mai = t.mai := by
  rw [rawSetInt_eq_rawSet, rawSet_mai]

@[simp] theorem insert_mai (t : Tbl) (i : Int) (v : OVal) : (insert t i v).mai = t.mai := by
  unfold insert
  simp only
  split
  · simp
  · split
    · simp
    · rfl

@[simp] theorem remove_mai (t : Tbl) (pos : Int) : (remove t pos).1.mai = t.mai := by
  unfold remove
  simp only
  split
  · rfl
  · split
    · rfl
    · split <;> rfl

theorem inv_append (t : Tbl) (h : Inv t) (v : OVal) (hg : v = none ∨ len t + 1 < t.mai) : Inv (append t v) := by
  cases v with
  | none => exact h
  | some x =>
    have hg' : len t + 1 < t.mai := by
      rcases hg with hg | hg
      · cases hg
      · exact hg
    rw [append_eq_rawSet t x hg']; exact inv_rawSet t _ _ h

/-! ### `ForEach` with a storing callback: an admissible delivery is a present field with its current value -/

theorem feStep_current (t : Tbl) (h : Inv t) (hm : 0 < t.mai) (s s' : FEState) (k v : Val)
    (hal : s.alen ≤ t.array.length) (hs : feStep t s k v = some s') :
    rawGet t k = some v ∧ s'.seen = s.seen ++ [k] ∧ s'.alen = s.alen ∧
      (arrIdx t.mai k = none → k ∉ s.seenH ∧ s'.seenH = s.seenH ++ [k]) := by
  have hlt : t.array.length < t.mai := by
    rcases h.arrLt with h1 | h1
    · exact h1
    · rw [h1]; exact hm
  unfold feStep at hs
  split at hs
  · -- array delivery
    rename_i j hj
    injection hs with hs
    subst hs
    unfold feArrNext at hj
    split at hj
    · rename_i z
      split at hj
      · rename_i hc
        obtain ⟨_, h1, h2, _, hv⟩ := hc
        have hz : z = ((z.toNat : Nat) : Int) := by omega
        have hidx : arrIdx t.mai (Val.int z) = some z.toNat := by
          rw [hz]; exact arrIdx_int (by omega) (by omega)
        refine ⟨?_, rfl, rfl, fun hn => by rw [hidx] at hn; cases hn⟩
        rw [rawGet_arr t _ _ hidx]; exact hv
      · cases hj
    · cases hj
  · -- hash delivery
    split at hs
    · cases hs
    · split at hs
      · rename_i hstr
        split at hs
        · rename_i hc
          injection hs with hs
          subst hs
          obtain ⟨_, hg, hns⟩ := hc
          have hidx : arrIdx t.mai k = none := by cases k <;> simp_all [isStr, arrIdx]
          refine ⟨?_, rfl, rfl, fun _ => ⟨by simpa using hns, rfl⟩⟩
          unfold rawGet; rw [hidx]; simp only [hstr, if_true]; exact hg
        · cases hs
      · rename_i hstr
        split at hs
        · rename_i hc
          injection hs with hs
          subst hs
          obtain ⟨_, hg, hns⟩ := hc
          obtain ⟨hs0, hidx, _⟩ := h.dictKeys k v hg
          refine ⟨?_, rfl, rfl, fun _ => ⟨by simpa using hns, rfl⟩⟩
          unfold rawGet; rw [hidx]; simp only [hs0, Bool.false_eq_true, if_false]; exact hg
        · cases hs

end GLua.Table
