/-
  Jump threading of `patchCode` (`threadJmp`, the jump-to-jump loop, ≤ 5 hops, reading targets from the UNPATCHED
  code): the distance it computes leads where the label-resolved code gets by executing only JMPs.
-/
import GLua.Proofs.LoweringBasic

namespace GLua.Lowering
open GLua.Compile GLua.MiniVM

variable [NumStruct]
set_option linter.unusedSectionVars false
variable {V : Type}

/-- one or more steps. -/
inductive ReachesPlus (d : Dom V) (code : List Instr) (consts : List Konst) : VM V → VM V → Prop where
  | one {s s'} : step d code consts s = .ok s' → ReachesPlus d code consts s s'
  | cons {s s' s''} : step d code consts s = .ok s' → ReachesPlus d code consts s' s'' → ReachesPlus d code consts s s''

theorem ReachesPlus.reaches {d : Dom V} {code : List Instr} {consts : List Konst} {s s' : VM V}
    (h : ReachesPlus d code consts s s') : Reaches d code consts s s' := by
  induction h with
  | one h => exact .single h
  | cons h _ ih => exact .step h ih

/-- executing the resolved `JMP L` at position `t`. -/
theorem step_resolved_jmp (d : Dom V) (orig : List Instr) (lp : List (Nat × Int)) (consts : List Konst) (t : Nat) (sbx : Int)
    (ρ g : Nat → V) (h : orig[t]? = some (.jmp sbx)) (hnn : 0 ≤ lookupLabel lp sbx.toNat + 1) :
    step d (resolveLabels orig lp) consts ⟨t, ρ, g⟩ = .ok ⟨(lookupLabel lp sbx.toNat + 1).toNat, ρ, g⟩ := by
  have hg : (resolveLabels orig lp)[t]? = some (.jmp (lookupLabel lp sbx.toNat - (t : Int))) := by
    simp [resolve_get, h, resInstr]
  have heq : (((t + 1 : Nat) : Int) + (lookupLabel lp sbx.toNat - (t : Int))) = lookupLabel lp sbx.toNat + 1 := by omega
  have hlt : ¬ (lookupLabel lp sbx.toNat + 1 < 0) := by omega
  simp only [step, hg, heq, hlt, if_false]

/-- the loop of `threadJmp`, started on the instruction `cur` found at position `t`: if it succeeds with a
    distance different from the one it was given, the label-resolved code gets from `t` to `pc + distance + 1`
    by executing JMPs only.  `hlab`: every label binding is ≥ -1 (labels are bound by `SetLabelPc(label, LastPC())`;
    a missing key reads 0) — needed since the loop, like the Go code, no longer fails on a target below 0 but stops. -/
theorem threadJmp_sound (d : Dom V) (orig : List Instr) (lp : List (Nat × Int)) (consts : List Konst) (pc : Nat) (ρ g : Nat → V)
    (hlab : ∀ L, -1 ≤ lookupLabel lp L) :
    ∀ (fuel : Nat) (cur : Instr) (t : Nat) (dist res : Int),
      orig[t]? = some cur → threadJmp orig lp pc fuel cur dist = .ok res →
      res = dist ∨ (0 ≤ (pc : Int) + res + 1 ∧
        ReachesPlus d (resolveLabels orig lp) consts ⟨t, ρ, g⟩ ⟨((pc : Int) + res + 1).toNat, ρ, g⟩) := by
  intro fuel
  induction fuel with
  | zero => intro cur t dist res _ h; simp [threadJmp] at h; exact Or.inl h.symm
  | succ n ih =>
    intro cur t dist res hcur h
    cases cur with
    | jmp sbx =>
      have hnn' : 0 ≤ lookupLabel lp sbx.toNat + 1 := by have := hlab sbx.toNat; omega
      have hstep := step_resolved_jmp d orig lp consts t sbx ρ g hcur hnn'
      have hpos : ((pc : Int) + (lookupLabel lp sbx.toNat - (pc : Int)) + 1) = lookupLabel lp sbx.toNat + 1 := by omega
      have hstop : res = lookupLabel lp sbx.toNat - (pc : Int) →
          res = dist ∨ (0 ≤ (pc : Int) + res + 1 ∧
            ReachesPlus d (resolveLabels orig lp) consts ⟨t, ρ, g⟩ ⟨((pc : Int) + res + 1).toNat, ρ, g⟩) := by
        intro hr; right; subst hr; rw [hpos]; exact ⟨hnn', .one hstep⟩
      simp only [threadJmp] at h
      split at h
      · split at h
        · cases h
        · simp only [Except.ok.injEq] at h; exact Or.inl h.symm
      · split at h
        · simp only [Except.ok.injEq] at h; exact hstop h.symm
        · split at h
          · simp only [Except.ok.injEq] at h; exact hstop h.symm
          · rename_i next hnext
            rw [hpos] at hnext
            rcases ih next (lookupLabel lp sbx.toNat + 1).toNat (lookupLabel lp sbx.toNat - (pc : Int)) res hnext h with hr | ⟨h0, hr⟩
            · exact hstop hr
            · right
              exact ⟨h0, .cons hstep hr⟩
    | _ => simp [threadJmp] at h; exact Or.inl h.symm

/-- **jump threading is sound**: for a `JMP` at `pc`, the distance computed by the jump-to-jump loop of `patchCode`
    (5 hops, targets read from the unpatched code) is either 0 — the jump is turned into NOP only if … see
    `nop` below — or leads exactly where the label-resolved code arrives by following JMP instructions. -/
theorem jump_threading_sound (d : Dom V) (orig : List Instr) (lp : List (Nat × Int)) (consts : List Konst) (pc : Nat) (sbx : Int)
    (ρ g : Nat → V) (res : Int) (n : Nat) (hlab : ∀ L, -1 ≤ lookupLabel lp L)
    (hcur : orig[pc]? = some (.jmp sbx)) (h : threadJmp orig lp pc (n + 1) (.jmp sbx) 0 = .ok res) :
    0 ≤ (pc : Int) + res + 1 ∧
      ReachesPlus d (resolveLabels orig lp) consts ⟨pc, ρ, g⟩ ⟨((pc : Int) + res + 1).toNat, ρ, g⟩ := by
  -- the first hop is always taken (otherwise the loop raises "too long to jump")
  have hnn' : 0 ≤ lookupLabel lp sbx.toNat + 1 := by have := hlab sbx.toNat; omega
  have hstep := step_resolved_jmp d orig lp consts pc sbx ρ g hcur hnn'
  have hpos : ((pc : Int) + (lookupLabel lp sbx.toNat - (pc : Int)) + 1) = lookupLabel lp sbx.toNat + 1 := by omega
  have hstop : res = lookupLabel lp sbx.toNat - (pc : Int) →
      0 ≤ (pc : Int) + res + 1 ∧
        ReachesPlus d (resolveLabels orig lp) consts ⟨pc, ρ, g⟩ ⟨((pc : Int) + res + 1).toNat, ρ, g⟩ := by
    intro hr; subst hr; rw [hpos]; exact ⟨hnn', .one hstep⟩
  simp only [threadJmp] at h
  split at h
  · simp at h
  · split at h
    · simp only [Except.ok.injEq] at h; exact hstop h.symm
    · split at h
      · simp only [Except.ok.injEq] at h; exact hstop h.symm
      · rename_i next hnext
        rw [hpos] at hnext
        rcases threadJmp_sound d orig lp consts pc ρ g hlab n next (lookupLabel lp sbx.toNat + 1).toNat
            (lookupLabel lp sbx.toNat - (pc : Int)) res hnext h with hr | ⟨h0, hr⟩
        · exact hstop hr
        · exact ⟨h0, .cons hstep hr⟩

end GLua.Lowering
