/-
  Lemmas about Model/Upvalue.lean: the invariant of the open list, functional characterisations of
  `findUpvalue` / `closeUpvalues`, preservation of the invariant.
-/
import GLua.Model.UpvalueOps

namespace GLua.Upvalue
open GLua

/-- register index of upvalue `h` (0 for a dangling handle) -/
def idxOf (s : St) (h : Nat) : Nat :=
  match s.uvs[h]? with
  | some u => u.index
  | none => 0

/-- the invariant of the open-upvalue list -/
structure Inv (s : St) : Prop where
  valid    : ∀ h ∈ s.openL, h < s.uvs.length
  sorted   : (s.openL.map (idxOf s)).Pairwise (· < ·)
  allOpen  : ∀ h ∈ s.openL, ∀ u : UvObj, s.uvs[h]? = some u → u.closed = false
  complete : ∀ (h : Nat) (u : UvObj), s.uvs[h]? = some u → u.closed = false → h ∈ s.openL
  inRange  : ∀ (h : Nat) (u : UvObj), s.uvs[h]? = some u → u.closed = false → u.index < s.regs.length

theorem inv_init (n : Nat) : Inv (St.init n) := by
  constructor <;> simp [St.init]

theorem getUv_of (s : St) (h : Nat) (u : UvObj) (hu : s.uvs[h]? = some u) : getUv s h = .ok u := by
  simp [getUv, hu]

theorem idxOf_of (s : St) (h : Nat) (u : UvObj) (hu : s.uvs[h]? = some u) : idxOf s h = u.index := by
  simp [idxOf, hu]

theorem sorted_nodup {α} (f : α → Nat) (l : List α) (h : (l.map f).Pairwise (· < ·)) : l.Nodup := by
  induction l with
  | nil => simp
  | cons a r ih =>
    simp only [List.map_cons, List.pairwise_cons] at h
    simp only [List.nodup_cons]
    refine ⟨?_, ih h.2⟩
    intro ha
    have := h.1 (f a) (List.mem_map.mpr ⟨a, ha, rfl⟩)
    omega

/-- a strictly increasing key is injective on the list -/
theorem sorted_inj {α} (f : α → Nat) : ∀ (l : List α), (l.map f).Pairwise (· < ·) →
    ∀ a ∈ l, ∀ b ∈ l, f a = f b → a = b := by
  intro l
  induction l with
  | nil => intro _ a ha; cases ha
  | cons c r ih =>
    intro hp a ha b hb hab
    simp only [List.map_cons, List.pairwise_cons] at hp
    have hlt : ∀ x ∈ r, f c < f x := fun x hx => hp.1 _ (List.mem_map.mpr ⟨x, hx, rfl⟩)
    rcases List.mem_cons.mp ha with ha | ha
    · rcases List.mem_cons.mp hb with hb | hb
      · rw [ha, hb]
      · have := hlt b hb; rw [ha] at hab; omega
    · rcases List.mem_cons.mp hb with hb | hb
      · have := hlt a ha; rw [hb] at hab; omega
      · exact ih hp.2 a ha b hb hab

deriving instance DecidableEq for Except

theorem takeWhile_eq_filter_of_sorted {α} (f : α → Nat) (k : Nat) (l : List α)
    (h : (l.map f).Pairwise (· < ·)) :
    l.takeWhile (fun x => decide (f x < k)) = l.filter (fun x => decide (f x < k)) := by
  induction l with
  | nil => simp
  | cons a r ih =>
    simp only [List.map_cons, List.pairwise_cons] at h
    by_cases ha : f a < k
    · simp [List.takeWhile_cons, List.filter_cons, ha, ih h.2]
    · simp only [List.takeWhile_cons, List.filter_cons, ha, decide_false, Bool.false_eq_true, if_false]
      symm
      rw [List.filter_eq_nil_iff]
      intro x hx
      have := h.1 (f x) (List.mem_map.mpr ⟨x, hx, rfl⟩)
      simp; omega

/-! ### findUpvalue -/

theorem findLoop_spec (s : St) (idx fresh : Nat) :
    ∀ l : List Nat, (∀ h ∈ l, h < s.uvs.length) → (l.map (idxOf s)).Pairwise (· < ·) →
    ∃ r l', findLoop s idx fresh l = .ok (r, l') ∧
      ((r ∈ l ∧ idxOf s r = idx ∧ l' = l) ∨
       (r = fresh ∧ ∃ pre post, l = pre ++ post ∧ l' = pre ++ fresh :: post ∧
          (∀ h ∈ pre, idxOf s h < idx) ∧ (∀ h ∈ post, idx < idxOf s h))) := by
  intro l
  induction l with
  | nil => intro _ _; exact ⟨fresh, [fresh], rfl, Or.inr ⟨rfl, [], [], rfl, rfl, by simp, by simp⟩⟩
  | cons h rest ih =>
    intro hv hs
    have hh : h < s.uvs.length := hv h (List.mem_cons_self ..)
    obtain ⟨u, hu⟩ : ∃ u, s.uvs[h]? = some u := ⟨s.uvs[h], by simp [hh]⟩
    have hi := idxOf_of s h u hu
    simp only [List.map_cons, List.pairwise_cons] at hs
    by_cases h1 : u.index = idx
    · refine ⟨h, h :: rest, ?_, Or.inl ⟨List.mem_cons_self .., by rw [hi, h1], rfl⟩⟩
      simp [findLoop, getUv_of s h u hu, h1, bind, Except.bind]
    · by_cases h2 : u.index > idx
      · refine ⟨fresh, fresh :: h :: rest, ?_, Or.inr ⟨rfl, [], h :: rest, rfl, rfl, by simp, ?_⟩⟩
        · simp [findLoop, getUv_of s h u hu, h1, h2, bind, Except.bind]
        · intro x hx
          rcases List.mem_cons.mp hx with rfl | hx
          · omega
          · have := hs.1 (idxOf s x) (List.mem_map.mpr ⟨x, hx, rfl⟩); omega
      · obtain ⟨r, l', hf, hcase⟩ := ih (fun x hx => hv x (List.mem_cons_of_mem _ hx)) hs.2
        refine ⟨r, h :: l', ?_, ?_⟩
        · simp [findLoop, getUv_of s h u hu, h1, h2, hf, bind, Except.bind]
        · rcases hcase with ⟨hr, hri, hl⟩ | ⟨hr, pre, post, hl, hl', hpre, hpost⟩
          · exact Or.inl ⟨List.mem_cons_of_mem _ hr, hri, by rw [hl]⟩
          · refine Or.inr ⟨hr, h :: pre, post, by rw [hl]; rfl, by rw [hl']; rfl, ?_, hpost⟩
            intro x hx
            rcases List.mem_cons.mp hx with rfl | hx
            · omega
            · exact hpre x hx

/-- the state after `findUpvalue` had to allocate -/
def findNew (s : St) (idx : Nat) (pre post : List Nat) : St :=
  { s with uvs := s.uvs ++ [{ index := idx, value := none, closed := false }],
           openL := pre ++ s.uvs.length :: post }

theorem findUpvalue_spec (s : St) (idx : Nat) (hI : Inv s) :
    (∃ h, h ∈ s.openL ∧ idxOf s h = idx ∧ findUpvalue s idx = .ok (h, s)) ∨
    (∃ pre post, s.openL = pre ++ post ∧ (∀ h ∈ pre, idxOf s h < idx) ∧ (∀ h ∈ post, idx < idxOf s h) ∧
        findUpvalue s idx = .ok (s.uvs.length, findNew s idx pre post)) := by
  obtain ⟨r, l', hf, hcase⟩ := findLoop_spec s idx s.uvs.length s.openL hI.valid hI.sorted
  rcases hcase with ⟨hr, hri, hl⟩ | ⟨hr, pre, post, hl, hl', hpre, hpost⟩
  · left
    refine ⟨r, hr, hri, ?_⟩
    have : r ≠ s.uvs.length := Nat.ne_of_lt (hI.valid r hr)
    simp [findUpvalue, hf, this, bind, Except.bind]
  · right
    refine ⟨pre, post, hl, hpre, hpost, ?_⟩
    simp [findUpvalue, hf, hr, hl', findNew, bind, Except.bind]

theorem idxOf_findNew_old (s : St) (idx : Nat) (pre post : List Nat) (h : Nat) (hh : h < s.uvs.length) :
    idxOf (findNew s idx pre post) h = idxOf s h := by
  simp [idxOf, findNew, List.getElem?_append_left hh]

theorem idxOf_findNew_fresh (s : St) (idx : Nat) (pre post : List Nat) :
    idxOf (findNew s idx pre post) s.uvs.length = idx := by
  simp [idxOf, findNew]

theorem findNew_get (s : St) (idx : Nat) (pre post : List Nat) (h : Nat) (u : UvObj)
    (hu : (findNew s idx pre post).uvs[h]? = some u) :
    (h < s.uvs.length ∧ s.uvs[h]? = some u) ∨ (h = s.uvs.length ∧ u = { index := idx, value := none, closed := false }) := by
  simp only [findNew] at hu
  by_cases hh : h < s.uvs.length
  · left; rw [List.getElem?_append_left hh] at hu; exact ⟨hh, hu⟩
  · right
    have hle : s.uvs.length ≤ h := Nat.le_of_not_lt hh
    rw [List.getElem?_append_right hle] at hu
    by_cases h0 : h - s.uvs.length = 0
    · rw [h0] at hu; simp at hu; exact ⟨by omega, hu.symm⟩
    · have : ([{ index := idx, value := none, closed := false }] : List UvObj)[h - s.uvs.length]? = none := by
        apply List.getElem?_eq_none; simp; omega
      rw [this] at hu; cases hu

theorem inv_findNew (s : St) (idx : Nat) (pre post : List Nat) (hI : Inv s) (hidx : idx < s.regs.length)
    (hl : s.openL = pre ++ post) (hpre : ∀ h ∈ pre, idxOf s h < idx) (hpost : ∀ h ∈ post, idx < idxOf s h) :
    Inv (findNew s idx pre post) := by
  have hvalid : ∀ h ∈ pre ++ post, h < s.uvs.length := by rw [← hl]; exact hI.valid
  have hsorted := hI.sorted
  rw [hl, List.map_append, List.pairwise_append] at hsorted
  constructor
  · intro h hh
    simp only [findNew, List.mem_append, List.mem_cons] at hh
    simp only [findNew, List.length_append, List.length_cons, List.length_nil]
    rcases hh with hh | rfl | hh
    · have := hvalid h (List.mem_append_left _ hh); omega
    · omega
    · have := hvalid h (List.mem_append_right _ hh); omega
  · show ((pre ++ s.uvs.length :: post).map (idxOf (findNew s idx pre post))).Pairwise (· < ·)
    have e1 : pre.map (idxOf (findNew s idx pre post)) = pre.map (idxOf s) :=
      List.map_congr_left (fun h hh => idxOf_findNew_old s idx pre post h (hvalid h (List.mem_append_left _ hh)))
    have e2 : post.map (idxOf (findNew s idx pre post)) = post.map (idxOf s) :=
      List.map_congr_left (fun h hh => idxOf_findNew_old s idx pre post h (hvalid h (List.mem_append_right _ hh)))
    rw [List.map_append, List.map_cons, e1, e2, idxOf_findNew_fresh, List.pairwise_append]
    refine ⟨hsorted.1, ?_, ?_⟩
    · rw [List.pairwise_cons]
      refine ⟨?_, hsorted.2.1⟩
      intro a ha
      obtain ⟨x, hx, rfl⟩ := List.mem_map.mp ha
      exact hpost x hx
    · intro a ha b hb
      obtain ⟨x, hx, rfl⟩ := List.mem_map.mp ha
      rcases List.mem_cons.mp hb with rfl | hb
      · exact hpre x hx
      · exact hsorted.2.2 _ ha _ hb
  · intro h hh u hu
    rcases findNew_get s idx pre post h u hu with ⟨hlt, hu'⟩ | ⟨_, rfl⟩
    · apply hI.allOpen h _ u hu'
      simp only [findNew, List.mem_append, List.mem_cons] at hh
      rw [hl, List.mem_append]
      rcases hh with hh | rfl | hh
      · exact Or.inl hh
      · omega
      · exact Or.inr hh
    · rfl
  · intro h u hu hc
    simp only [findNew, List.mem_append, List.mem_cons]
    rcases findNew_get s idx pre post h u hu with ⟨_, hu'⟩ | ⟨rfl, _⟩
    · have := hI.complete h u hu' hc
      rw [hl, List.mem_append] at this
      rcases this with t | t
      · exact Or.inl t
      · exact Or.inr (Or.inr t)
    · exact Or.inr (Or.inl rfl)
  · intro h u hu hc
    show u.index < s.regs.length
    rcases findNew_get s idx pre post h u hu with ⟨_, hu'⟩ | ⟨_, rfl⟩
    · exact hI.inRange h u hu' hc
    · exact hidx

/-- `findUpvalue` preserves the invariant and returns an open upvalue for exactly that register. -/
theorem findUpvalue_inv (s : St) (idx : Nat) (hI : Inv s) (hidx : idx < s.regs.length) :
    ∃ h s', findUpvalue s idx = .ok (h, s') ∧ Inv s' ∧ h ∈ s'.openL ∧ idxOf s' h = idx ∧ s'.regs = s.regs := by
  rcases findUpvalue_spec s idx hI with ⟨h, hh, hi, hf⟩ | ⟨pre, post, hl, hpre, hpost, hf⟩
  · exact ⟨h, s, hf, hI, hh, hi, rfl⟩
  · refine ⟨_, _, hf, inv_findNew s idx pre post hI hidx hl hpre hpost, ?_, idxOf_findNew_fresh .., rfl⟩
    simp [findNew]

/-! ### closeUpvalues -/

/-- what `Upvalue.Close` makes of an open upvalue in state `s` -/
def closedAt (s : St) (u : UvObj) : UvObj :=
  { index := u.index, value := (s.regs[u.index]?).getD none, closed := true }

theorem uvClose_open (s : St) (h : Nat) (u : UvObj) (hu : s.uvs[h]? = some u) (hc : u.closed = false)
    (hr : u.index < s.regs.length) :
    uvClose s h = .ok { s with uvs := s.uvs.set h (closedAt s u) } := by
  have hg : s.regs[u.index]? = some s.regs[u.index] := by simp [hr]
  simp [uvClose, uvValue, getUv_of s h u hu, hc, regGet, hg, bind, Except.bind, closedAt]

/-- the entry of handle `x` after closing, from level `idx`, the members of `l` -/
def closedEntry (s : St) (idx : Nat) (l : List Nat) (x : Nat) : Option UvObj :=
  if x ∈ l ∧ idx ≤ idxOf s x then (s.uvs[x]?).map (closedAt s) else s.uvs[x]?

theorem closeLoop_spec (idx : Nat) :
    ∀ (l : List Nat) (s : St), l.Nodup →
      (∀ h ∈ l, ∃ u, s.uvs[h]? = some u ∧ u.closed = false ∧ u.index < s.regs.length) →
      ∃ s', closeLoop idx l s = .ok (l.takeWhile (fun h => decide (idxOf s h < idx)), s') ∧
        s'.regs = s.regs ∧ s'.openL = s.openL ∧ s'.uvs.length = s.uvs.length ∧
        ∀ x, s'.uvs[x]? = closedEntry s idx l x := by
  intro l
  induction l with
  | nil => intro s _ _; exact ⟨s, rfl, rfl, rfl, rfl, fun x => by simp [closedEntry]⟩
  | cons h rest ih =>
    intro s hnd hall
    obtain ⟨u, hu, hc, hr⟩ := hall h (List.mem_cons_self ..)
    have hi := idxOf_of s h u hu
    rw [List.nodup_cons] at hnd
    by_cases hge : u.index ≥ idx
    · -- closed; the chain is cut here
      have hcl0 := uvClose_open s h u hu hc hr
      generalize hs1def : ({ s with uvs := s.uvs.set h (closedAt s u) } : St) = s1 at hcl0
      have hregs1 : s1.regs = s.regs := by rw [← hs1def]
      have hopen1 : s1.openL = s.openL := by rw [← hs1def]
      have huvs1 : s1.uvs = s.uvs.set h (closedAt s u) := by rw [← hs1def]
      have hlt : h < s.uvs.length := (List.getElem?_eq_some_iff.mp hu).1
      have hs1 : ∀ x, x ≠ h → s1.uvs[x]? = s.uvs[x]? := by
        intro x hx; rw [huvs1, List.getElem?_set_ne (Ne.symm hx)]
      have hs1h : s1.uvs[h]? = some (closedAt s u) := by
        rw [huvs1, List.getElem?_set_self hlt]
      have hall1 : ∀ x ∈ rest, ∃ u, s1.uvs[x]? = some u ∧ u.closed = false ∧ u.index < s1.regs.length := by
        intro x hx
        have hne : x ≠ h := fun e => hnd.1 (e ▸ hx)
        rw [hs1 x hne, hregs1]; exact hall x (List.mem_cons_of_mem _ hx)
      obtain ⟨s2, hcl, hregs, hopen, hlen, hent⟩ := ih s1 hnd.2 hall1
      refine ⟨s2, ?_, by rw [hregs, hregs1], by rw [hopen, hopen1], by rw [hlen, huvs1]; simp, ?_⟩
      · have hnot : ¬ (idxOf s h < idx) := by omega
        simp [closeLoop, getUv_of s h u hu, hge, hcl0, bind, Except.bind, hcl, List.takeWhile_cons, hnot]
      · intro x
        rw [hent x]
        have e2 : closedAt s1 = closedAt s := by
          funext v; simp [closedAt, hregs1]
        by_cases hx : x = h
        · subst hx
          have hnr : ¬ (x ∈ rest) := hnd.1
          have hle : idx ≤ idxOf s x := by omega
          simp [closedEntry, hnr, hs1h, hu, hle]
        · have e1 : idxOf s1 x = idxOf s x := by simp [idxOf, hs1 x hx]
          simp only [closedEntry, e1, e2, hs1 x hx, List.mem_cons, hx, false_or]
    · -- kept
      have hall1 : ∀ x ∈ rest, ∃ u, s.uvs[x]? = some u ∧ u.closed = false ∧ u.index < s.regs.length :=
        fun x hx => hall x (List.mem_cons_of_mem _ hx)
      obtain ⟨s2, hcl, hregs, hopen, hlen, hent⟩ := ih s hnd.2 hall1
      refine ⟨s2, ?_, hregs, hopen, hlen, ?_⟩
      · have hlt : idxOf s h < idx := by omega
        simp [closeLoop, getUv_of s h u hu, hge, bind, Except.bind, hcl, List.takeWhile_cons, hlt]
      · intro x
        rw [hent x]
        by_cases hx : x = h
        · subst hx
          have : ¬ (x ∈ rest) := hnd.1
          have hnot : ¬ (idx ≤ idxOf s x) := by omega
          simp [closedEntry, this, hnot]
        · simp [closedEntry, List.mem_cons, hx]

/-- the state after `closeUpvalues idx` -/
theorem closeUpvalues_spec (idx : Nat) (s : St) (hI : Inv s) :
    ∃ s', closeUpvalues idx s = .ok s' ∧ s'.regs = s.regs ∧
      s'.openL = s.openL.filter (fun h => decide (idxOf s h < idx)) ∧
      s'.uvs.length = s.uvs.length ∧ ∀ x, s'.uvs[x]? = closedEntry s idx s.openL x := by
  have hall : ∀ h ∈ s.openL, ∃ u, s.uvs[h]? = some u ∧ u.closed = false ∧ u.index < s.regs.length := by
    intro h hh
    have hlt := hI.valid h hh
    have hu : s.uvs[h]? = some s.uvs[h] := by simp [hlt]
    exact ⟨_, hu, hI.allOpen h hh _ hu, hI.inRange h _ hu (hI.allOpen h hh _ hu)⟩
  obtain ⟨s1, hcl, hregs, _, hlen, hent⟩ := closeLoop_spec idx s.openL s (sorted_nodup _ _ hI.sorted) hall
  refine ⟨{ s1 with openL := s.openL.takeWhile (fun h => decide (idxOf s h < idx)) }, ?_, hregs, ?_, hlen, hent⟩
  · simp [closeUpvalues, hcl, bind, Except.bind]
  · exact takeWhile_eq_filter_of_sorted (idxOf s) idx s.openL hI.sorted

theorem closedEntry_index (s : St) (idx : Nat) (l : List Nat) (x : Nat) :
    (closedEntry s idx l x).map (·.index) = (s.uvs[x]?).map (·.index) := by
  unfold closedEntry
  split
  · cases s.uvs[x]? <;> simp [closedAt]
  · rfl

theorem closeUpvalues_inv (idx : Nat) (s : St) (hI : Inv s) :
    ∃ s', closeUpvalues idx s = .ok s' ∧ Inv s' ∧ s'.regs = s.regs ∧
      s'.openL = s.openL.filter (fun h => decide (idxOf s h < idx)) ∧
      s'.uvs.length = s.uvs.length ∧ (∀ x, s'.uvs[x]? = closedEntry s idx s.openL x) ∧
      (∀ x, idxOf s' x = idxOf s x) := by
  obtain ⟨s', hcl, hregs, hopen, hlen, hent⟩ := closeUpvalues_spec idx s hI
  have hidx : ∀ x, idxOf s' x = idxOf s x := by
    intro x
    have := closedEntry_index s idx s.openL x
    rw [← hent x] at this
    unfold idxOf
    cases h1 : s'.uvs[x]? <;> cases h2 : s.uvs[x]? <;> simp [h1, h2] at this ⊢
    exact this
  refine ⟨s', hcl, ?_, hregs, hopen, hlen, hent, hidx⟩
  constructor
  · intro h hh
    rw [hopen] at hh
    rw [hlen]; exact hI.valid h (List.mem_filter.mp hh).1
  · rw [hopen]
    have : (s.openL.filter (fun h => decide (idxOf s h < idx))).map (idxOf s') =
           (s.openL.filter (fun h => decide (idxOf s h < idx))).map (idxOf s) :=
      List.map_congr_left (fun x _ => hidx x)
    rw [this]
    exact List.Pairwise.sublist (List.Sublist.map _ List.filter_sublist) hI.sorted
  · intro h hh u hu
    rw [hopen] at hh
    obtain ⟨hm, hp⟩ := List.mem_filter.mp hh
    have hp' : idxOf s h < idx := by simpa using hp
    rw [hent h] at hu
    have : ¬ (h ∈ s.openL ∧ idx ≤ idxOf s h) := by omega
    simp only [closedEntry, this, if_false] at hu
    exact hI.allOpen h hm u hu
  · intro h u hu hc
    rw [hent h] at hu
    rw [hopen]
    by_cases hcase : h ∈ s.openL ∧ idx ≤ idxOf s h
    · simp only [closedEntry, hcase, and_self, if_true] at hu
      cases h2 : s.uvs[h]? with
      | none => simp [h2] at hu
      | some v => simp [h2] at hu; subst hu; simp [closedAt] at hc
    · simp only [closedEntry, hcase, if_false] at hu
      have hm := hI.complete h u hu hc
      refine List.mem_filter.mpr ⟨hm, ?_⟩
      have : idxOf s h < idx := by
        by_cases hlt : idxOf s h < idx
        · exact hlt
        · exact absurd ⟨hm, Nat.le_of_not_lt hlt⟩ hcase
      simpa using this
  · intro h u hu hc
    rw [hent h] at hu
    rw [hregs]
    by_cases hcase : h ∈ s.openL ∧ idx ≤ idxOf s h
    · simp only [closedEntry, hcase, and_self, if_true] at hu
      cases h2 : s.uvs[h]? with
      | none => simp [h2] at hu
      | some v => simp [h2] at hu; subst hu; simp [closedAt] at hc
    · simp only [closedEntry, hcase, if_false] at hu
      exact hI.inRange h u hu hc

end GLua.Upvalue
