/-
  Simulation between the cell semantics (Spec/Cells) and "registers + open list" (Model/Upvalue*).
-/
import GLua.Proofs.Upvalue

namespace GLua.Upvalue
open GLua GLua.Cells

theorem regSet_ok (s : St) (r : Nat) (v : OVal) (h : r < s.regs.length) :
    regSet s r v = .ok { s with regs := s.regs.set r v } := by simp [regSet, h]

theorem inv_regs (s : St) (regs' : List OVal) (hl : regs'.length = s.regs.length) (hI : Inv s) :
    Inv { s with regs := regs' } := by
  constructor
  · exact hI.valid
  · exact hI.sorted
  · exact hI.allOpen
  · exact hI.complete
  · intro h u hu hc; show u.index < regs'.length; rw [hl]; exact hI.inRange h u hu hc

theorem inv_setValue (s : St) (h : Nat) (u : UvObj) (v : OVal) (hu : s.uvs[h]? = some u) (hI : Inv s) :
    Inv { s with uvs := s.uvs.set h { u with value := v } } := by
  have hlt : h < s.uvs.length := (List.getElem?_eq_some_iff.mp hu).1
  have hget : ∀ (x : Nat) (w : UvObj), (s.uvs.set h { u with value := v })[x]? = some w →
      ∃ w0 : UvObj, s.uvs[x]? = some w0 ∧ w.index = w0.index ∧ w.closed = w0.closed := by
    intro x w hw
    by_cases hx : h = x
    · subst hx
      rw [List.getElem?_set_self hlt] at hw
      cases hw
      exact ⟨u, hu, rfl, rfl⟩
    · rw [List.getElem?_set_ne hx] at hw
      exact ⟨w, hw, rfl, rfl⟩
  have hidx : ∀ x, idxOf { s with uvs := s.uvs.set h { u with value := v } } x = idxOf s x := by
    intro x
    by_cases hx : h = x
    · subst hx; simp [idxOf, List.getElem?_set_self hlt, hu]
    · simp [idxOf, List.getElem?_set_ne hx]
  constructor
  · intro x hx; simp only [List.length_set]; exact hI.valid x hx
  · show (s.openL.map (idxOf _)).Pairwise (· < ·)
    rw [List.map_congr_left (fun x _ => hidx x)]; exact hI.sorted
  · intro x hx w hw
    obtain ⟨w0, h0, _, hc⟩ := hget x w hw
    rw [hc]; exact hI.allOpen x hx w0 h0
  · intro x w hw hc
    obtain ⟨w0, h0, _, hc0⟩ := hget x w hw
    exact hI.complete x w0 h0 (by rw [← hc0]; exact hc)
  · intro x w hw hc
    obtain ⟨w0, h0, hi0, hc0⟩ := hget x w hw
    show w.index < s.regs.length
    rw [hi0]; exact hI.inRange x w0 h0 (by rw [← hc0]; exact hc)

/-- the simulation relation: `rep h` is the cell upvalue `h` stands for. -/
structure Sim (s : St) (mcaps : List Nat) (c : CSt) (rep : List Nat) : Prop where
  inv       : Inv s
  repLen    : rep.length = s.uvs.length
  repInj    : ∀ (h1 h2 cell : Nat), rep[h1]? = some cell → rep[h2]? = some cell → h1 = h2
  repCap    : ∀ (h cell : Nat), rep[h]? = some cell → cell ∈ c.captured
  closedVal : ∀ (h : Nat) (u : UvObj) (cell : Nat), s.uvs[h]? = some u → rep[h]? = some cell → u.closed = true →
                c.cells[cell]? = some u.value ∧ ∀ r, c.regCell r ≠ some cell
  openCell  : ∀ (h : Nat) (u : UvObj) (cell : Nat), s.uvs[h]? = some u → rep[h]? = some cell → u.closed = false →
                c.regCell u.index = some cell
  regVal    : ∀ (r cell : Nat), c.regCell r = some cell → r < s.regs.length ∧ c.cells[cell]? = s.regs[r]?
  regInj    : ∀ (r1 r2 cell : Nat), c.regCell r1 = some cell → c.regCell r2 = some cell → r1 = r2
  capLen    : mcaps.length = c.caps.length
  capRep    : ∀ (i h : Nat), mcaps[i]? = some h → ∃ cell : Nat, rep[h]? = some cell ∧ c.caps[i]? = some cell

theorem sim_init (n : Nat) : Sim (St.init n) [] CSt.init [] := by
  constructor <;> simp [St.init, CSt.init, inv_init]
  exact inv_init n

/-- a live cell is inside the heap -/
theorem Sim.cell_lt {s : St} {mcaps : List Nat} {c : CSt} {rep : List Nat} (hS : Sim s mcaps c rep) {r cell : Nat} (h : c.regCell r = some cell) :
    cell < c.cells.length := by
  obtain ⟨hr, hv⟩ := hS.regVal r cell h
  have : s.regs[r]? = some s.regs[r] := by simp [hr]
  rw [this] at hv
  exact (List.getElem?_eq_some_iff.mp hv).1

/-- writing a live variable through its name: register store on one side, cell store on the other -/
theorem sim_write {s : St} {mcaps : List Nat} {c : CSt} {rep : List Nat} (hS : Sim s mcaps c rep) (r cell : Nat) (v : OVal)
    (hrc : c.regCell r = some cell) :
    Sim { s with regs := s.regs.set r v } mcaps { c with cells := c.cells.set cell v } rep := by
  have hcl := hS.cell_lt hrc
  obtain ⟨hr, _⟩ := hS.regVal r cell hrc
  constructor
  · exact inv_regs s _ (by simp) hS.inv
  · exact hS.repLen
  · exact hS.repInj
  · exact hS.repCap
  · intro h u cell' hu hrep hc
    obtain ⟨h1, h2⟩ := hS.closedVal h u cell' hu hrep hc
    refine ⟨?_, h2⟩
    have hne : cell ≠ cell' := fun e => h2 r (e ▸ hrc)
    show (c.cells.set cell v)[cell']? = _
    rw [List.getElem?_set_ne hne]; exact h1
  · exact hS.openCell
  · intro r' cell' hrc'
    obtain ⟨hr', hv'⟩ := hS.regVal r' cell' hrc'
    refine ⟨by simpa using hr', ?_⟩
    show (c.cells.set cell v)[cell']? = (s.regs.set r v)[r']?
    by_cases hrr : r = r'
    · subst hrr
      have : cell' = cell := by rw [hrc] at hrc'; cases hrc'; rfl
      subst this
      rw [List.getElem?_set_self hcl, List.getElem?_set_self hr]
    · have hne : cell ≠ cell' := fun e => hrr (hS.regInj r r' cell hrc (e ▸ hrc'))
      rw [List.getElem?_set_ne hne, List.getElem?_set_ne hrr]; exact hv'
  · exact hS.regInj
  · exact hS.capLen
  · exact hS.capRep

/-- a new variable instance in slot `r` (Discipline: the slot's previous instance, if any, is not captured) -/
theorem sim_declare {s : St} {mcaps : List Nat} {c : CSt} {rep : List Nat} (hS : Sim s mcaps c rep)
    (r : Nat) (v : OVal) (hr : r < s.regs.length)
    (hd : ∀ cell, c.regCell r = some cell → cell ∉ c.captured) :
    Sim { s with regs := s.regs.set r v } mcaps
      { c with cells := c.cells ++ [v],
               regCell := fun x => if x = r then some c.cells.length else c.regCell x } rep := by
  constructor
  · exact inv_regs s _ (by simp) hS.inv
  · exact hS.repLen
  · exact hS.repInj
  · exact hS.repCap
  · intro h u cell hu hrep hc
    obtain ⟨h1, h2⟩ := hS.closedVal h u cell hu hrep hc
    have hlt : cell < c.cells.length := (List.getElem?_eq_some_iff.mp h1).1
    refine ⟨?_, ?_⟩
    · show (c.cells ++ [v])[cell]? = _
      rw [List.getElem?_append_left hlt]; exact h1
    · intro x
      show (if x = r then some c.cells.length else c.regCell x) ≠ some cell
      split
      · intro e; cases e; omega
      · exact h2 x
  · intro h u cell hu hrep hc
    have hold := hS.openCell h u cell hu hrep hc
    show (if u.index = r then some c.cells.length else c.regCell u.index) = some cell
    split
    · rename_i e
      exact absurd (hS.repCap h cell hrep) (hd cell (e ▸ hold))
    · exact hold
  · intro r' cell' hrc'
    have hrc'' : (if r' = r then some c.cells.length else c.regCell r') = some cell' := hrc'
    show r' < (s.regs.set r v).length ∧ (c.cells ++ [v])[cell']? = (s.regs.set r v)[r']?
    by_cases hrr : r' = r
    · subst hrr
      simp only [if_true] at hrc''
      cases hrc''
      refine ⟨by simpa using hr, ?_⟩
      rw [List.getElem?_set_self hr]; simp
    · simp only [hrr, if_false] at hrc''
      obtain ⟨h1, h2⟩ := hS.regVal r' cell' hrc''
      have hlt := hS.cell_lt hrc''
      refine ⟨by simpa using h1, ?_⟩
      rw [List.getElem?_append_left hlt, List.getElem?_set_ne (Ne.symm hrr)]; exact h2
  · intro r1 r2 cell h1 h2
    have h1' : (if r1 = r then some c.cells.length else c.regCell r1) = some cell := h1
    have h2' : (if r2 = r then some c.cells.length else c.regCell r2) = some cell := h2
    by_cases e1 : r1 = r <;> by_cases e2 : r2 = r
    · rw [e1, e2]
    · simp only [e1, if_true, e2, if_false] at h1' h2'
      cases h1'; have := hS.cell_lt h2'; omega
    · simp only [e1, if_false, e2, if_true] at h1' h2'
      cases h2'; have := hS.cell_lt h1'; omega
    · simp only [e1, e2, if_false] at h1' h2'
      exact hS.regInj r1 r2 cell h1' h2'
  · exact hS.capLen
  · exact hS.capRep

/-- leaving the scopes of the slots ≥ k -/
theorem sim_close {s : St} {mcaps : List Nat} {c : CSt} {rep : List Nat} (hS : Sim s mcaps c rep) (k : Nat) :
    ∃ s', closeUpvalues k s = .ok s' ∧ s'.regs = s.regs ∧
      Sim s' mcaps { c with regCell := fun x => if k ≤ x then none else c.regCell x } rep := by
  obtain ⟨s', hcl, hI', hregs, hopen, hlen, hent, hidx⟩ := closeUpvalues_inv k s hS.inv
  refine ⟨s', hcl, hregs, ?_⟩
  -- an entry of s' is either untouched or the closed copy of an open entry with index ≥ k
  have hentry : ∀ (h : Nat) (u' : UvObj), s'.uvs[h]? = some u' →
      (s.uvs[h]? = some u' ∧ (u'.closed = false → u'.index < k)) ∨
      (∃ u : UvObj, s.uvs[h]? = some u ∧ u.closed = false ∧ k ≤ u.index ∧ u' = closedAt s u) := by
    intro h u' hu'
    rw [hent h] at hu'
    by_cases hcase : h ∈ s.openL ∧ k ≤ idxOf s h
    · right
      simp only [closedEntry, hcase, and_self, if_true] at hu'
      cases h2 : s.uvs[h]? with
      | none => simp [h2] at hu'
      | some u =>
        simp [h2] at hu'
        refine ⟨u, rfl, hS.inv.allOpen h hcase.1 u h2, ?_, hu'.symm⟩
        have := idxOf_of s h u h2; omega
    · left
      simp only [closedEntry, hcase, if_false] at hu'
      refine ⟨hu', fun hc => ?_⟩
      have hm := hS.inv.complete h u' hu' hc
      have := idxOf_of s h u' hu'
      by_cases hlt : u'.index < k
      · exact hlt
      · exact absurd ⟨hm, by omega⟩ hcase
  constructor
  · exact hI'
  · rw [hlen]; exact hS.repLen
  · exact hS.repInj
  · exact hS.repCap
  · intro h u' cell hu' hrep hc
    rcases hentry h u' hu' with ⟨hu, _⟩ | ⟨u, hu, huo, hk, rfl⟩
    · obtain ⟨h1, h2⟩ := hS.closedVal h u' cell hu hrep hc
      refine ⟨h1, fun x => ?_⟩
      show (if k ≤ x then none else c.regCell x) ≠ some cell
      split
      · simp
      · exact h2 x
    · have hcell := hS.openCell h u cell hu hrep huo
      obtain ⟨hr, hv⟩ := hS.regVal u.index cell hcell
      refine ⟨?_, fun x => ?_⟩
      · show c.cells[cell]? = some ((s.regs[u.index]?).getD none)
        rw [hv]; simp [hr]
      · show (if k ≤ x then none else c.regCell x) ≠ some cell
        split
        · simp
        · intro e
          have := hS.regInj x u.index cell e hcell
          omega
  · intro h u' cell hu' hrep hc
    rcases hentry h u' hu' with ⟨hu, hlt⟩ | ⟨u, _, _, _, rfl⟩
    · have hold := hS.openCell h u' cell hu hrep hc
      have := hlt hc
      show (if k ≤ u'.index then none else c.regCell u'.index) = some cell
      rw [if_neg (by omega)]; exact hold
    · simp [closedAt] at hc
  · intro r cell hrc
    have hrc' : (if k ≤ r then none else c.regCell r) = some cell := hrc
    rw [hregs]
    split at hrc'
    · cases hrc'
    · exact hS.regVal r cell hrc'
  · intro r1 r2 cell h1 h2
    have h1' : (if k ≤ r1 then none else c.regCell r1) = some cell := h1
    have h2' : (if k ≤ r2 then none else c.regCell r2) = some cell := h2
    split at h1'
    · cases h1'
    · split at h2'
      · cases h2'
      · exact hS.regInj r1 r2 cell h1' h2'
  · exact hS.capLen
  · exact hS.capRep

/-- a closure captures the variable in slot `r` -/
theorem sim_capture {s : St} {mcaps : List Nat} {c : CSt} {rep : List Nat} (hS : Sim s mcaps c rep)
    (r cell : Nat) (hrc : c.regCell r = some cell) :
    ∃ h s' rep', findUpvalue s r = .ok (h, s') ∧ s'.regs = s.regs ∧
      Sim s' (mcaps ++ [h]) { c with captured := cell :: c.captured, caps := c.caps ++ [cell] } rep' := by
  obtain ⟨hr, _⟩ := hS.regVal r cell hrc
  have hcapRep : ∀ (rep' : List Nat) (h : Nat), rep'[h]? = some cell →
      (∀ (i h' : Nat), mcaps[i]? = some h' → ∃ cell', rep'[h']? = some cell' ∧ c.caps[i]? = some cell') →
      ∀ (i h' : Nat), (mcaps ++ [h])[i]? = some h' →
        ∃ cell', rep'[h']? = some cell' ∧ (c.caps ++ [cell])[i]? = some cell' := by
    intro rep' h hrep hold i h' hi
    by_cases hlt : i < mcaps.length
    · rw [List.getElem?_append_left hlt] at hi
      obtain ⟨cell', h1, h2⟩ := hold i h' hi
      refine ⟨cell', h1, ?_⟩
      rw [List.getElem?_append_left (by rw [← hS.capLen]; exact hlt)]; exact h2
    · have hle : mcaps.length ≤ i := Nat.le_of_not_lt hlt
      rw [List.getElem?_append_right hle] at hi
      by_cases h0 : i - mcaps.length = 0
      · rw [h0] at hi; simp at hi; subst hi
        refine ⟨cell, hrep, ?_⟩
        have : i = c.caps.length := by rw [← hS.capLen]; omega
        rw [this]; simp
      · have : ([h] : List Nat)[i - mcaps.length]? = none := by
          apply List.getElem?_eq_none; simp; omega
        rw [this] at hi; cases hi
  rcases findUpvalue_spec s r hS.inv with ⟨h, hh, hi, hf⟩ | ⟨pre, post, hl, hpre, hpost, hf⟩
  · -- the register already has an open upvalue: it is shared
    have hlt := hS.inv.valid h hh
    have hu : s.uvs[h]? = some s.uvs[h] := by simp [hlt]
    have hopen := hS.inv.allOpen h hh _ hu
    have hrl : h < rep.length := by rw [hS.repLen]; exact hlt
    have hrep : rep[h]? = some rep[h] := by simp [hrl]
    have hcell := hS.openCell h _ _ hu hrep hopen
    rw [← idxOf_of s h _ hu, hi, hrc] at hcell
    cases hcell
    refine ⟨h, s, rep, hf, rfl, ?_⟩
    constructor
    · exact hS.inv
    · exact hS.repLen
    · exact hS.repInj
    · intro h' cell' hr'; exact List.mem_cons_of_mem _ (hS.repCap h' cell' hr')
    · exact hS.closedVal
    · exact hS.openCell
    · exact hS.regVal
    · exact hS.regInj
    · simp [hS.capLen]
    · exact hcapRep rep h hrep hS.capRep
  · -- a new upvalue object
    have hnew : ∀ (h' cell' : Nat), rep[h']? = some cell' → cell' ≠ cell := by
      intro h' cell' hr' e
      subst e
      have hlt : h' < s.uvs.length := by rw [← hS.repLen]; exact (List.getElem?_eq_some_iff.mp hr').1
      have hu : s.uvs[h']? = some s.uvs[h'] := by simp [hlt]
      cases hc : (s.uvs[h']).closed with
      | true => exact (hS.closedVal h' _ _ hu hr' hc).2 r hrc
      | false =>
        have hcell := hS.openCell h' _ _ hu hr' hc
        have hreq := hS.regInj _ _ _ hcell hrc
        have hm := hS.inv.complete h' _ hu hc
        have hidx := idxOf_of s h' _ hu
        rw [hl, List.mem_append] at hm
        rcases hm with hm | hm
        · have := hpre h' hm; omega
        · have := hpost h' hm; omega
    have hrepget : ∀ (h' cell' : Nat), (rep ++ [cell])[h']? = some cell' →
        (h' < s.uvs.length ∧ rep[h']? = some cell') ∨ (h' = s.uvs.length ∧ cell' = cell) := by
      intro h' cell' hr'
      by_cases hlt : h' < rep.length
      · rw [List.getElem?_append_left hlt] at hr'
        exact Or.inl ⟨by rw [← hS.repLen]; exact hlt, hr'⟩
      · have hle : rep.length ≤ h' := Nat.le_of_not_lt hlt
        rw [List.getElem?_append_right hle] at hr'
        by_cases h0 : h' - rep.length = 0
        · rw [h0] at hr'; simp at hr'
          exact Or.inr ⟨by rw [← hS.repLen]; omega, hr'.symm⟩
        · have : ([cell] : List Nat)[h' - rep.length]? = none := by
            apply List.getElem?_eq_none; simp; omega
          rw [this] at hr'; cases hr'
    refine ⟨s.uvs.length, findNew s r pre post, rep ++ [cell], hf, rfl, ?_⟩
    constructor
    · exact inv_findNew s r pre post hS.inv hr hl hpre hpost
    · simp [findNew, hS.repLen]
    · intro h1 h2 cell' e1 e2
      rcases hrepget h1 cell' e1 with ⟨_, a1⟩ | ⟨a1, b1⟩ <;> rcases hrepget h2 cell' e2 with ⟨_, a2⟩ | ⟨a2, b2⟩
      · exact hS.repInj h1 h2 cell' a1 a2
      · exact absurd b2 (hnew h1 cell' a1)
      · exact absurd b1 (hnew h2 cell' a2)
      · rw [a1, a2]
    · intro h' cell' hr'
      rcases hrepget h' cell' hr' with ⟨_, a⟩ | ⟨_, b⟩
      · exact List.mem_cons_of_mem _ (hS.repCap h' cell' a)
      · rw [b]; exact List.mem_cons_self ..
    · intro h' u cell' hu hr' hc
      rcases findNew_get s r pre post h' u hu with ⟨hlt, hu'⟩ | ⟨_, rfl⟩
      · rcases hrepget h' cell' hr' with ⟨_, a⟩ | ⟨a, _⟩
        · exact hS.closedVal h' u cell' hu' a hc
        · omega
      · cases hc
    · intro h' u cell' hu hr' hc
      rcases findNew_get s r pre post h' u hu with ⟨hlt, hu'⟩ | ⟨e, rfl⟩
      · rcases hrepget h' cell' hr' with ⟨_, a⟩ | ⟨a, _⟩
        · exact hS.openCell h' u cell' hu' a hc
        · omega
      · rcases hrepget h' cell' hr' with ⟨a, _⟩ | ⟨_, b⟩
        · omega
        · rw [b]; exact hrc
    · exact hS.regVal
    · exact hS.regInj
    · simp [hS.capLen]
    · apply hcapRep (rep ++ [cell]) s.uvs.length
      · rw [← hS.repLen]; simp
      · intro i h' hi
        obtain ⟨cell', h1, h2⟩ := hS.capRep i h' hi
        refine ⟨cell', ?_, h2⟩
        rw [List.getElem?_append_left (List.getElem?_eq_some_iff.mp h1).1]; exact h1

/-- reading through a closure -/
theorem sim_uvread {s : St} {mcaps : List Nat} {c : CSt} {rep : List Nat} (hS : Sim s mcaps c rep)
    (h cell : Nat) (v : OVal) (hrep : rep[h]? = some cell) (hv : c.cells[cell]? = some v) :
    uvValue s h = .ok v := by
  have hlt : h < s.uvs.length := by rw [← hS.repLen]; exact (List.getElem?_eq_some_iff.mp hrep).1
  have hu : s.uvs[h]? = some s.uvs[h] := by simp [hlt]
  cases hc : (s.uvs[h]).closed with
  | true =>
    have := (hS.closedVal h _ _ hu hrep hc).1
    rw [hv] at this; cases this
    simp [uvValue, getUv_of s h _ hu, hc, bind, Except.bind]
  | false =>
    have hcell := hS.openCell h _ _ hu hrep hc
    obtain ⟨hr, hval⟩ := hS.regVal _ _ hcell
    rw [hv] at hval
    simp [uvValue, getUv_of s h _ hu, hc, bind, Except.bind, regGet, ← hval]

/-- writing through a closure -/
theorem sim_uvwrite {s : St} {mcaps : List Nat} {c : CSt} {rep : List Nat} (hS : Sim s mcaps c rep)
    (h cell : Nat) (v : OVal) (hrep : rep[h]? = some cell) :
    ∃ s', uvSetValue s h v = .ok s' ∧ s'.regs.length = s.regs.length ∧
      Sim s' mcaps { c with cells := c.cells.set cell v } rep := by
  have hlt : h < s.uvs.length := by rw [← hS.repLen]; exact (List.getElem?_eq_some_iff.mp hrep).1
  have hu : s.uvs[h]? = some s.uvs[h] := by simp [hlt]
  cases hc : (s.uvs[h]).closed with
  | false =>
    have hcell := hS.openCell h _ _ hu hrep hc
    obtain ⟨hr, _⟩ := hS.regVal _ _ hcell
    refine ⟨_, ?_, ?_, sim_write hS _ cell v hcell⟩
    · simp [uvSetValue, getUv_of s h _ hu, hc, bind, Except.bind, regSet_ok s _ v hr]
    · simp
  | true =>
    obtain ⟨hval, hdead⟩ := hS.closedVal h _ _ hu hrep hc
    have hcl : cell < c.cells.length := (List.getElem?_eq_some_iff.mp hval).1
    refine ⟨{ s with uvs := s.uvs.set h { s.uvs[h] with value := v } }, ?_, rfl, ?_⟩
    · simp [uvSetValue, getUv_of s h _ hu, hc, bind, Except.bind]
    · have hget : ∀ (x : Nat) (w : UvObj), (s.uvs.set h { s.uvs[h] with value := v })[x]? = some w →
          (x = h ∧ w = { s.uvs[h] with value := v }) ∨ (x ≠ h ∧ s.uvs[x]? = some w) := by
        intro x w hw
        by_cases hx : h = x
        · subst hx; rw [List.getElem?_set_self hlt] at hw; cases hw; exact Or.inl ⟨rfl, rfl⟩
        · rw [List.getElem?_set_ne hx] at hw; exact Or.inr ⟨Ne.symm hx, hw⟩
      constructor
      · exact inv_setValue s h _ v hu hS.inv
      · simp [hS.repLen]
      · exact hS.repInj
      · exact hS.repCap
      · intro x w cell' hw hr' hcw
        rcases hget x w hw with ⟨rfl, rfl⟩ | ⟨hne, hw'⟩
        · rw [hrep] at hr'; cases hr'
          refine ⟨?_, hdead⟩
          show (c.cells.set cell v)[cell]? = some v
          rw [List.getElem?_set_self hcl]
        · obtain ⟨h1, h2⟩ := hS.closedVal x w cell' hw' hr' hcw
          refine ⟨?_, h2⟩
          have : cell ≠ cell' := fun e => hne (hS.repInj x h cell' hr' (e ▸ hrep))
          show (c.cells.set cell v)[cell']? = _
          rw [List.getElem?_set_ne this]; exact h1
      · intro x w cell' hw hr' hcw
        rcases hget x w hw with ⟨rfl, rfl⟩ | ⟨_, hw'⟩
        · simp [hc] at hcw
        · exact hS.openCell x w cell' hw' hr' hcw
      · intro r cell' hrc
        obtain ⟨h1, h2⟩ := hS.regVal r cell' hrc
        refine ⟨h1, ?_⟩
        have : cell ≠ cell' := fun e => hdead r (e ▸ hrc)
        show (c.cells.set cell v)[cell']? = _
        rw [List.getElem?_set_ne this]; exact h2
      · exact hS.regInj
      · exact hS.capLen
      · exact hS.capRep

/-- the only request that can address a slot outside the register file is a declaration -/
def opBounded (n : Nat) : Op → Prop
  | .declare r _ => r < n
  | _ => True

instance (n : Nat) (op : Op) : Decidable (opBounded n op) := by
  cases op <;> simp only [opBounded] <;> infer_instance

/-- one step: whenever the cell semantics is defined on the request (the Discipline holds), the mechanism
    succeeds, observes the same value, and the relation is re-established. -/
theorem sim_step {s : St} {mcaps : List Nat} {c : CSt} {rep : List Nat} (hS : Sim s mcaps c rep) (op : Op)
    (hb : opBounded s.regs.length op) (c' : CSt) (out : Option OVal) (hc : Cells.step c op = some (c', out)) :
    ∃ s' mcaps' rep', mstep { st := s, caps := mcaps } op = .ok ({ st := s', caps := mcaps' }, out) ∧
      Sim s' mcaps' c' rep' ∧ s'.regs.length = s.regs.length := by
  cases op with
  | declare r v =>
    have hr : r < s.regs.length := hb
    simp only [Cells.step] at hc
    have hd : (∀ cell, c.regCell r = some cell → cell ∉ c.captured) ∧
        c' = { c with cells := c.cells ++ [v],
                      regCell := fun x => if x = r then some c.cells.length else c.regCell x } ∧ out = none := by
      cases hrc : c.regCell r with
      | none => simp [hrc] at hc; exact ⟨by simp, hc.1.symm, hc.2.symm⟩
      | some cell =>
        simp only [hrc] at hc
        by_cases hm : cell ∈ c.captured
        · simp [hm] at hc
        · simp [hm] at hc
          exact ⟨by intro x hx; cases hx; exact hm, hc.1.symm, hc.2.symm⟩
    obtain ⟨hd1, rfl, rfl⟩ := hd
    exact ⟨_, mcaps, rep, by simp [mstep, regSet_ok s r v hr, bind, Except.bind, pure, Except.pure],
      sim_declare hS r v hr hd1, by simp⟩
  | write r v =>
    simp only [Cells.step] at hc
    cases hrc : c.regCell r with
    | none => simp [hrc] at hc
    | some cell =>
      simp [hrc] at hc
      obtain ⟨rfl, rfl⟩ := hc
      obtain ⟨hr, _⟩ := hS.regVal r cell hrc
      exact ⟨_, mcaps, rep, by simp [mstep, regSet_ok s r v hr, bind, Except.bind, pure, Except.pure],
        sim_write hS r cell v hrc, by simp⟩
  | read r =>
    simp only [Cells.step] at hc
    cases hrc : c.regCell r with
    | none => simp [hrc] at hc
    | some cell =>
      cases hv : c.cells[cell]? with
      | none => simp [hrc, hv] at hc
      | some v =>
        simp [hrc, hv] at hc
        obtain ⟨rfl, rfl⟩ := hc
        obtain ⟨hr, hval⟩ := hS.regVal r cell hrc
        rw [hv] at hval
        exact ⟨s, mcaps, rep, by simp [mstep, regGet, ← hval, bind, Except.bind, pure, Except.pure], hS, rfl⟩
  | capture r =>
    simp only [Cells.step] at hc
    cases hrc : c.regCell r with
    | none => simp [hrc] at hc
    | some cell =>
      simp [hrc] at hc
      obtain ⟨rfl, rfl⟩ := hc
      obtain ⟨h, s', rep', hf, hregs, hS'⟩ := sim_capture hS r cell hrc
      exact ⟨s', mcaps ++ [h], rep', by simp [mstep, hf, bind, Except.bind, pure, Except.pure], hS', by rw [hregs]⟩
  | close k =>
    simp only [Cells.step] at hc
    simp at hc
    obtain ⟨rfl, rfl⟩ := hc
    obtain ⟨s', hcl, hregs, hS'⟩ := sim_close hS k
    exact ⟨s', mcaps, rep, by simp [mstep, hcl, bind, Except.bind, pure, Except.pure], hS', by rw [hregs]⟩
  | uvread i =>
    simp only [Cells.step] at hc
    cases hci : c.caps[i]? with
    | none => simp [hci] at hc
    | some cell =>
      cases hv : c.cells[cell]? with
      | none => simp [hci, hv] at hc
      | some v =>
        simp [hci, hv] at hc
        obtain ⟨rfl, rfl⟩ := hc
        have hil : i < mcaps.length := by rw [hS.capLen]; exact (List.getElem?_eq_some_iff.mp hci).1
        have hmi : mcaps[i]? = some mcaps[i] := by simp [hil]
        obtain ⟨cell', hrep, hci'⟩ := hS.capRep i _ hmi
        rw [hci] at hci'; cases hci'
        have := sim_uvread hS _ cell v hrep hv
        exact ⟨s, mcaps, rep, by simp [mstep, hmi, this, bind, Except.bind, pure, Except.pure], hS, rfl⟩
  | uvwrite i v =>
    simp only [Cells.step] at hc
    cases hci : c.caps[i]? with
    | none => simp [hci] at hc
    | some cell =>
      simp [hci] at hc
      obtain ⟨rfl, rfl⟩ := hc
      have hil : i < mcaps.length := by rw [hS.capLen]; exact (List.getElem?_eq_some_iff.mp hci).1
      have hmi : mcaps[i]? = some mcaps[i] := by simp [hil]
      obtain ⟨cell', hrep, hci'⟩ := hS.capRep i _ hmi
      rw [hci] at hci'; cases hci'
      obtain ⟨s', hset, hlen, hS'⟩ := sim_uvwrite hS _ cell v hrep
      exact ⟨s', mcaps, rep, by simp [mstep, hmi, hset, bind, Except.bind, pure, Except.pure], hS', hlen⟩

/-- whole traces -/
theorem sim_run : ∀ (ops : List Op) {s : St} {mcaps : List Nat} {c : CSt} {rep : List Nat},
    Sim s mcaps c rep → (∀ op ∈ ops, opBounded s.regs.length op) →
    ∀ (c' : CSt) (outs : List OVal), Cells.run c ops = some (c', outs) →
    ∃ s' mcaps' rep', mrun { st := s, caps := mcaps } ops = .ok ({ st := s', caps := mcaps' }, outs) ∧
      Sim s' mcaps' c' rep' := by
  intro ops
  induction ops with
  | nil =>
    intro s mcaps c rep hS _ c' outs hr
    simp [Cells.run] at hr
    obtain ⟨rfl, rfl⟩ := hr
    exact ⟨s, mcaps, rep, rfl, hS⟩
  | cons op rest ih =>
    intro s mcaps c rep hS hb c' outs hr
    simp only [Cells.run] at hr
    cases hst : Cells.step c op with
    | none => simp [hst] at hr
    | some p =>
      obtain ⟨c1, o⟩ := p
      simp only [hst] at hr
      cases hrr : Cells.run c1 rest with
      | none => simp [hrr] at hr
      | some q =>
        obtain ⟨c2, os⟩ := q
        simp [hrr] at hr
        obtain ⟨rfl, rfl⟩ := hr
        obtain ⟨s1, mc1, rep1, hm, hS1, hlen⟩ := sim_step hS op (hb op (List.mem_cons_self ..)) c1 o hst
        obtain ⟨s2, mc2, rep2, hm2, hS2⟩ := ih hS1
          (fun op' h' => by rw [hlen]; exact hb op' (List.mem_cons_of_mem _ h')) c2 os hrr
        exact ⟨s2, mc2, rep2, by simp [mrun, hm, hm2, bind, Except.bind, pure, Except.pure]; cases o <;> rfl, hS2⟩

end GLua.Upvalue
