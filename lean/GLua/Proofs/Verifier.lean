/-
  Lemmas about the bytecode verifier (GLua/Model/Verifier.lean): what `wf p = true` gives at every instruction start.
-/
import GLua.Model.Verifier

namespace GLua.Proofs.Verifier
open GLua GLua.Verifier GLua.Generated

theorem isSt_lt {sm : Array Bool} {pc : Nat} (h : isSt sm pc = true) : pc < sm.size := by
  unfold isSt at h
  by_cases hlt : pc < sm.size
  · exact hlt
  · have : sm[pc]? = none := by simp; omega
    rw [this] at h; simp at h

theorem wfWith_header {p : Proto} {sm : Array Bool} (h : wfWith p sm = true) : headerOk p sm = true := by
  unfold wfWith at h
  exact (Bool.and_eq_true _ _ ▸ h).1

theorem headerOk_size {p : Proto} {sm : Array Bool} (h : headerOk p sm = true) : sm.size = p.code.size := by
  unfold headerOk at h
  simp only [Bool.and_eq_true, decide_eq_true_eq] at h
  exact h.1.1.1.1.2

theorem wfWith_at {p : Proto} {sm : Array Bool} (h : wfWith p sm = true) {pc : Nat} (hs : isSt sm pc = true) :
    startsOkAt p sm pc = true ∧ stepOk p sm pc = true ∧ hyg p pc = true := by
  have hh := wfWith_header h
  have hsz := headerOk_size hh
  have hlt : pc < p.code.size := hsz ▸ isSt_lt hs
  unfold wfWith at h
  have h2 := (Bool.and_eq_true _ _ ▸ h).2
  rw [List.all_eq_true] at h2
  have := h2 pc (List.mem_range.mpr hlt)
  simp only [hs, Bool.not_true, Bool.false_or, Bool.and_eq_true] at this
  exact ⟨this.1.1, this.1.2, this.2⟩

theorem stepOk_elim {p : Proto} {sm : Array Bool} {pc : Nat} (h : stepOk p sm pc = true) :
    ∃ succs, step p pc = .ok succs ∧ ∀ s ∈ succs, isSt sm s = true := by
  unfold stepOk at h
  cases hst : step p pc with
  | error e => rw [hst] at h; simp at h
  | ok succs =>
    rw [hst] at h
    simp only [List.all_eq_true] at h
    exact ⟨succs, rfl, h⟩

theorem startsOkAt_interior {p : Proto} {sm : Array Bool} {pc k : Nat} (h : startsOkAt p sm pc = true)
    (hk : 0 < k) (hk' : k < groupLen p pc) : isSt sm (pc + k) = false := by
  unfold startsOkAt at h
  simp only [Bool.and_eq_true, List.all_eq_true, List.mem_range] at h
  have := h.1.2 (k - 1) (by omega)
  have e : pc + 1 + (k - 1) = pc + k := by omega
  rw [e] at this
  simpa using this

theorem startsOkAt_bound {p : Proto} {sm : Array Bool} {pc : Nat} (h : startsOkAt p sm pc = true) :
    pc + groupLen p pc ≤ p.code.size := by
  unfold startsOkAt at h
  simp only [Bool.and_eq_true, decide_eq_true_eq] at h
  exact h.1.1

end GLua.Proofs.Verifier
