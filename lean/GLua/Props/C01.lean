/-
  C01 (mechanism part) — property theorems.  Lemmas live in GLua/Proofs/{ConstFold,Lowering,Assign}.lean;
  the models are GLua/Model/{ConstFold,Compile,CompileStmt,MiniVM}.lean (transcriptions of /repo/compile.go
  and /repo/vm.go, tied to the code by the C01M correspondence check on every run); the reference meaning of
  conditions and assignments is GLua/Spec/CondSpec.lean (written from the manual).
-/
import GLua.Proofs.ConstFold
import GLua.Proofs.Lowering
import GLua.Proofs.Assign
import GLua.Proofs.LoweringValue7
import GLua.Proofs.Threading

namespace GLua.Props.C01
open GLua GLua.Compile GLua.MiniVM GLua.Lowering

/-! ## 1. compile-time constant folding equals run-time arithmetic -/

/-- **constFold_sound** — for every number structure (the six operations, negation, NaN and the numeral reader
    are arbitrary), every environment of the non-literal leaves and every arithmetic tree, the node `constFold`
    returns means what the tree means at run time.  Structural induction over arbitrary nesting; includes the
    numeral-parse-failure → NaN path, unary minus, the in-place rewrite of a unary minus' child and the
    "not constant → return the ORIGINAL node" case. -/
theorem constFold_sound {N : Type} (ops : ConstFold.NumOps N) (ρ : Nat → N) (e : ConstFold.Expr N) :
    ConstFold.eval ops ρ (ConstFold.constFold ops e).1 = ConstFold.eval ops ρ e :=
  (ConstFold.constFold_sound_both ops ρ e).1

/-- the node left behind in the tree (the parent keeps pointing at it) means the same as well. -/
theorem constFold_rewrite_sound {N : Type} (ops : ConstFold.NumOps N) (ρ : Nat → N) (e : ConstFold.Expr N) :
    ConstFold.eval ops ρ (ConstFold.constFold ops e).2 = ConstFold.eval ops ρ e :=
  (ConstFold.constFold_sound_both ops ρ e).2

/-- a tree all of whose leaves are literals folds to a constant (no arithmetic instruction remains). -/
theorem constFold_literal_is_constant {N : Type} (ops : ConstFold.NumOps N) (e : ConstFold.Expr N)
    (h : ConstFold.allLiteral e = true) : ∃ v, ConstFold.lnumberValue ops (ConstFold.constFold ops e).1 = some v :=
  ConstFold.constFold_literal ops e h

/-- non-vacuity: `-(2 + x)` is not constant, `-(2 + 3) % 4` is; over the integers with the modelled modulo. -/
def intOps : ConstFold.NumOps Int where
  add := (· + ·)
  sub := (· - ·)
  mul := (· * ·)
  div := (· / ·)
  mod := ConstFold.luaModuloInt
  pow := fun a b => a ^ b.toNat
  neg := (- ·)
  nan := 0
  parse := fun s => if s = "2" then some 2 else if s = "3" then some 3 else if s = "4" then some 4 else none

example : (ConstFold.constFold intOps (.arith .mod (.unm (.arith .add (.number "2") (.number "3"))) (.number "4"))).1
    = .const 3 := by decide
example : (ConstFold.constFold intOps (.unm (.arith .add (.number "2") (.other 0)))).1
    = .unm (.arith .add (.number "2") (.other 0)) := by decide

/-- **fold_uses_runtime_arith** (regenerated fact) — `constFold` and `numberArith` use the same Go expression
    for each of the six operators (`luaModulo`, `math.Pow`, …): re-extracted from /repo on every run. -/
theorem fold_uses_runtime_arith : Generated.constFoldOps = Generated.numberArithOps := by decide

/-- **luaModulo_body_is_modelled** (regenerated fact) — the body of `luaModulo` is the text `luaModuloInt` models. -/
theorem luaModulo_body_is_modelled : Generated.luaModuloBody = ConstFold.luaModuloBodyModelled := by decide +kernel

/-- **luaModulo_int** — over the integers (where `math.Mod` is the truncated remainder) the sign fix makes
    `luaModulo` the floored modulo of Lua 5.1 (`a - floor(a/b)*b`). -/
theorem luaModulo_int (a b : Int) (hb : b ≠ 0) : ConstFold.luaModuloInt a b = Int.fmod a b :=
  ConstFold.luaModuloInt_eq_fmod a b hb

example : ConstFold.luaModuloInt (-5) 3 = 1 ∧ ConstFold.luaModuloInt 5 (-3) = -1 := by decide


/-! ## 2. lowering of conditions (compileBranchCondition + label resolution)

    `Lowering.BCFrag e`  : `e` is built from and / or / not, relational operators whose operands are leaves,
                           the constants true/false/nil/number/string, locals and opaque atoms;
    `Lowering.P0 F`      : the code of the (final) compile state `F` with every `JMP label` resolved to its distance
                           (`patchCode` without jump threading and MOVEN merging);
    `Lowering.tgt F L`   : where a jump to label `L` lands;
    `CondSpec.eval`      : the manual's value of the condition (short-circuit semantics, §2.5.3–2.5.4). -/

/-- **branch_lowering_correct** (branch contexts: the condition of if / while / repeat) — for every condition
    tree of the fragment, every compile state before it, every register file and atom valuation on which the
    condition does not raise, and EVERY completion `F` of the compile state (the emitted code and constants are
    still there, the labels allocated inside keep their binding, the then-label is bound right behind the
    condition as compileIfStmt/While/Repeat do): running the label-resolved code from the first instruction of
    the condition reaches the then-target iff the manual's value is truthy, the else-target otherwise, and
    every register below `reg` is unchanged.  (Unbounded: structural induction over the tree.) -/
theorem branch_lowering_correct {V : Type} (d : Dom V) (hd : d.Lawful) (e : Cond) (hfrag : BCFrag e)
    (st F : CState) (reg thenl elsel : Nat) (ρ γ : Nat → V) (v : V)
    (htop : st.regTop ≤ reg) (hloc : LocalsBelow reg e) (hreg : reg + 1 < 256)
    (hev : CondSpec.eval d ρ γ e = some v)
    (hF : (compileBranchCondition st reg e thenl elsel false).code <+: F.code)
    (hK : (compileBranchCondition st reg e thenl elsel false).consts <+: F.consts)
    (hlab : ∀ L, st.labelId ≤ L → L < (compileBranchCondition st reg e thenl elsel false).labelId →
        getLabelPc F L = getLabelPc (compileBranchCondition st reg e thenl elsel false) L)
    (hthen : getLabelPc F thenl = lastPC (compileBranchCondition st reg e thenl elsel false))
    (helse : LabelOK F elsel) :
    ∃ ρ', Reaches d (P0 F) F.consts ⟨st.code.length, ρ, γ⟩
        ⟨if d.truthy v then tgt F thenl else tgt F elsel, ρ', γ⟩ ∧ ∀ x, x < reg → ρ' x = ρ x := by
  have hLt : LabelOK F thenl := by unfold LabelOK; rw [hthen]; unfold lastPC; omega
  have htgt : tgt F thenl = (compileBranchCondition st reg e thenl elsel false).code.length := by
    unfold tgt; rw [hthen]; unfold lastPC; omega
  obtain ⟨ρ', pc', hr, hag, hbo⟩ := bc_correct d hd e hfrag st F reg thenl elsel false ρ γ v htop hloc hreg hLt helse hev hF hK hlab
  refine ⟨ρ', ?_, hag⟩
  cases ht : d.truthy v with
  | true =>
    rw [ht] at hbo
    rcases hbo.1 rfl with h | ⟨_, h⟩
    · simpa [h] using hr
    · simp only [if_true]; rw [htgt]; rw [h] at hr; exact hr
  | false =>
    rw [ht] at hbo
    rcases hbo.2 rfl with h | ⟨h, _⟩
    · simpa [h] using hr
    · exact Bool.noConfusion h

/-- non-vacuity: the hypotheses hold for the if statement
    `if l0 and not (g1 or l1 < 3) then return 1 else return 2 end` as compiled by the model of compileIfStmt
    (F = the finished main chunk, st = the store right before the condition). -/
example : ∃ (e : Cond) (st F : CState),
    BCFrag e ∧ st.regTop ≤ 2 ∧ LocalsBelow 2 e ∧
    (compileBranchCondition st 2 e 1 2 false).code <+: F.code ∧
    (compileBranchCondition st 2 e 1 2 false).consts <+: F.consts ∧
    (∀ L, st.labelId ≤ L → L < (compileBranchCondition st 2 e 1 2 false).labelId →
        getLabelPc F L = getLabelPc (compileBranchCondition st 2 e 1 2 false) L) ∧
    getLabelPc F 1 = lastPC (compileBranchCondition st 2 e 1 2 false) ∧ LabelOK F 2 ∧
    (compileBranchCondition st 2 e 1 2 false).code.length = st.code.length + 7 := by
  refine ⟨.and (.loc 0) (.not (.or (.ev 1) (.rel .lt (.loc 1) (.num 3)))),
    { code := [.abc Generated.OP_VARARG 0 3 0], labelId := 4, regTop := 2 },
    compileMain 2 (Block.ofList [.ifS (.and (.loc 0) (.not (.or (.ev 1) (.rel .lt (.loc 1) (.num 3)))))
      (Block.ofList [.ret [.num 1]]) (Block.ofList [.ret [.num 2]])]), ?_, ?_, ?_, ?_, ?_, ?_, ?_, ?_, ?_⟩
  · simp [BCFrag, isLeaf]
  · decide
  · simp [LocalsBelow]
  · decide
  · decide
  · intro L h1 h2
    exact (show ∀ L, L < 6 → 4 ≤ L → getLabelPc _ L = getLabelPc _ L by decide) L h2 h1
  · decide
  · unfold LabelOK; decide
  · decide

/-- the general form for sub-conditions (any `hasnextcond`, labels bound anywhere): control ends at the
    then-label / else-label or, for the side that does not jump, behind the condition's code. -/
theorem branch_lowering_general {V : Type} (d : Dom V) (hd : d.Lawful) (e : Cond) (hfrag : Lowering.BCFrag e)
    (st F : Compile.CState) (reg thenl elsel : Nat) (hasnext : Bool) (ρ γ : Nat → V) (v : V)
    (htop : st.regTop ≤ reg) (hloc : Lowering.LocalsBelow reg e) (hreg : reg + 1 < 256)
    (hLt : Lowering.LabelOK F thenl) (hLe : Lowering.LabelOK F elsel)
    (hev : CondSpec.eval d ρ γ e = some v)
    (hF : (Compile.compileBranchCondition st reg e thenl elsel hasnext).code <+: F.code)
    (hK : (Compile.compileBranchCondition st reg e thenl elsel hasnext).consts <+: F.consts)
    (hlab : ∀ L, st.labelId ≤ L → L < (Compile.compileBranchCondition st reg e thenl elsel hasnext).labelId →
        Compile.getLabelPc F L = Compile.getLabelPc (Compile.compileBranchCondition st reg e thenl elsel hasnext) L) :
    ∃ ρ' pc', MiniVM.Reaches d (Lowering.P0 F) F.consts ⟨st.code.length, ρ, γ⟩ ⟨pc', ρ', γ⟩ ∧ (∀ x, x < reg → ρ' x = ρ x) ∧
      Lowering.BranchOut F thenl elsel hasnext (Compile.compileBranchCondition st reg e thenl elsel hasnext).code.length (d.truthy v) pc' :=
  Lowering.bc_correct d hd e hfrag st F reg thenl elsel hasnext ρ γ v htop hloc hreg hLt hLe hev hF hK hlab

/-- **value_lowering_correct** (value contexts: `local x = e`, `x = e` with x an EXISTING local that may also be an
    operand, `g = e`, `return e`, operand of not / a relational operator, any position of a multiple assignment) —
    for every condition tree of the fragment compiled by `compileExpr` into destination context `ec`
    (destination `savereg ec reg` = `reg` or a local below it), every compile state, register file and atom valuation
    on which the expression does not raise, and every completion `F`: running the label-resolved code from the
    first instruction of the expression reaches the end of its code with the manual's VALUE in the destination,
    and every register below `reg` other than the destination is unchanged.  This covers `compileLogicalOpExpr`
    (operands through `compileLogicalOpExprAux`: TEST vs TESTSET — today's fix —, locals tested in place, the
    "last operand" MOVE, the lb.t/lb.f LOADBOOL pair, the removal of the final `JMP endlabel`),
    `compileRelationalOpExpr` and `not` in value position.  (Unbounded: structural induction, both modes at once.) -/
theorem value_lowering_correct {V : Type} (d : Dom V) (hd : d.Lawful) (e : Cond) (hfrag : BCFrag e)
    (st F : CState) (reg : Nat) (ec : ExpCtx) (ρ γ : Nat → V) (v : V)
    (htop : st.regTop ≤ reg) (hloc : LocalsBelow reg e) (hreg : reg + 1 < 256) (hdest : savereg ec reg ≤ reg)
    (hev : CondSpec.eval d ρ γ e = some v) (hok : ∀ L, LabelOK F L)
    (hF : (compileExpr st reg e ec).1.code <+: F.code)
    (hK : (compileExpr st reg e ec).1.consts <+: F.consts)
    (hlab : ∀ L, st.labelId ≤ L → L < (compileExpr st reg e ec).1.labelId →
        getLabelPc F L = getLabelPc (compileExpr st reg e ec).1 L) :
    ∃ ρ', Reaches d (P0 F) F.consts ⟨st.code.length, ρ, γ⟩ ⟨(compileExpr st reg e ec).1.code.length, ρ', γ⟩ ∧
      ρ' (savereg ec reg) = v ∧ ∀ x, x < reg → x ≠ savereg ec reg → ρ' x = ρ x :=
  (value_main d hd e hfrag).1 st F reg ec ρ γ v htop hloc hreg hdest hev hok hF hK hlab

/-- non-vacuity: the hypotheses hold for `l0 = (l1 or l1) and l0` (the witness of the TESTSET defect fixed today:
    destination = an operand) as compiled by the model's compileAssignStmt inside a main chunk. -/
example : ∃ (e : Cond) (st F : CState) (ec : ExpCtx),
    BCFrag e ∧ st.regTop ≤ 2 ∧ LocalsBelow 2 e ∧ savereg ec 2 = 0 ∧ (∀ L, LabelOK F L) ∧
    (compileExpr st 2 e ec).1.code <+: F.code ∧ (compileExpr st 2 e ec).1.consts <+: F.consts ∧
    (∀ L, st.labelId ≤ L → L < (compileExpr st 2 e ec).1.labelId →
        getLabelPc F L = getLabelPc (compileExpr st 2 e ec).1 L) ∧
    st.code.length + 3 < (compileExpr st 2 e ec).1.code.length := by
  refine ⟨.and (.or (.loc 1) (.loc 1)) (.loc 0), { code := [.abc Generated.OP_VARARG 0 3 0], regTop := 2 },
    compileMain 2 (Block.ofList [.assign [.loc 0] [.and (.or (.loc 1) (.loc 1)) (.loc 0)], .ret [.loc 0, .loc 1]]),
    ⟨ecLocal, 0⟩, ?_, ?_, ?_, ?_, ?_, ?_, ?_, ?_, ?_⟩
  · simp [BCFrag]
  · decide
  · simp [LocalsBelow]
  · decide
  · exact labelOK_of_all _ (by decide)
  · decide
  · decide
  · intro L h1 h2
    exact (show ∀ L, L < 6 → 1 ≤ L → getLabelPc _ L = getLabelPc _ L by decide) L h2 h1
  · decide

/-! ## 3. multiple assignment to locals -/

/-- the statement "the assignment compiler `compile` computes the simultaneous assignment": for every number of
    distinct local targets `ts`, right-hand sides that are locals or constants, and every register file, the code
    appended to the store is a straight-line MOVE/LOADK/LOADBOOL/LOADNIL segment after which target i holds the
    OLD value of right-hand side i (nil if missing) and every other local is unchanged. -/
def AssignParallel (compile : Compile.CState → List Compile.Target → List Compile.Cond → Compile.CState) : Prop :=
  ∀ (V : Type) (d : Compile.Dom V) (st : Compile.CState) (ts : List Nat) (rhs : List Compile.Cond),
    ts.Nodup → (∀ t ∈ ts, t < st.regTop) → (∀ e ∈ rhs, Assign.SimpleRhs st.regTop e) → st.regTop ≤ 256 →
    ∃ seg, (compile st (ts.map Compile.Target.loc) rhs).code = st.code ++ seg ∧
      ∀ consts, (compile st (ts.map Compile.Target.loc) rhs).consts <+: consts → ∀ ρ : Nat → V,
        ∃ ρ', Assign.sexec d consts seg ρ = some ρ' ∧
          (∀ (i t : Nat), ts[i]? = some t → ρ' t = Assign.sval d ρ ((rhs[i]?).getD .nil)) ∧
          (∀ x, x < st.regTop → x ∉ ts → ρ' x = ρ x)

/-- **assign_locals_parallel** — `compileAssignStmt` (only the last local is stored in place, and only when no
    surplus expression follows) computes the simultaneous assignment, for every k and every register file. -/
theorem assign_locals_parallel : AssignParallel Compile.compileAssignStmt := by
  intro V d st ts rhs hnd hlt hrhs hB
  obtain ⟨seg, h1, _, h3⟩ := Assign.assign_parallel d st ts rhs hnd hlt hrhs hB
  exact ⟨seg, h1, h3⟩

/-- the straight-line segment runs on the MiniVM exactly as `sexec` says, wherever it is placed. -/
theorem assign_segment_runs {V : Type} (d : Compile.Dom V) (consts : List MiniVM.Konst) (g : Nat → V)
    (seg pre post : List MiniVM.Instr) (ρ ρ' : Nat → V) (h : Assign.sexec d consts seg ρ = some ρ') :
    MiniVM.Reaches d (pre ++ seg ++ post) consts ⟨pre.length, ρ, g⟩ ⟨pre.length + seg.length, ρ', g⟩ :=
  Assign.sexec_reaches d consts g seg pre post ρ ρ' h

/-- `sval` is the manual's value of a simple right-hand side. -/
theorem assign_rhs_value_is_spec {V : Type} (d : Compile.Dom V) (ρ γ : Nat → V) (B : Nat) (rhs : List Compile.Cond)
    (hrhs : ∀ e ∈ rhs, Assign.SimpleRhs B e) (i : Nat) :
    CondSpec.rhsVal d ρ γ rhs i = some (Assign.sval d ρ ((rhs[i]?).getD .nil)) := by
  unfold CondSpec.rhsVal
  cases h : rhs[i]? with
  | none => simp [Assign.sval]
  | some e => simpa using Assign.sval_eval d ρ γ (hrhs e (List.mem_of_getElem? h))

/-- a value domain over `Nat` for the witness (values are just numbers). -/
def natDom : Compile.Dom Nat :=
  { nilV := 100, trueV := 101, falseV := 102, truthy := fun _ => true, num := fun _ => 0, str := fun _ => 0,
    eq := fun _ _ => none, lt := fun _ _ => none, le := fun _ _ => none }

/-- **assign_locals_parallel_prefix_fails** — the compiler as it was before today's fix (every local target stored
    in place, snapshot f14c8c8) does NOT compute the simultaneous assignment: witness `a, b = b, a`. -/
theorem assign_locals_parallel_prefix_fails : ¬ AssignParallel Compile.compileAssignStmtPreFix := by
  intro h
  obtain ⟨seg, hcode, hsem⟩ := h Nat natDom { regTop := 2 } [0, 1] [.loc 1, .loc 0] (by decide) (by decide)
    (by intro e he; simp at he; rcases he with rfl | rfl <;> simp [Assign.SimpleRhs]) (by decide)
  have hseg : seg = [.move 0 1, .move 1 0] := by
    have : (Compile.compileAssignStmtPreFix { regTop := 2 } ([0, 1].map Compile.Target.loc) [.loc 1, .loc 0]).code
        = [.move 0 1, .move 1 0] := by decide
    rw [this] at hcode
    simpa using hcode.symm
  subst hseg
  obtain ⟨ρ', hex, hval, _⟩ := hsem [] (List.nil_prefix) (fun x => x)
  simp only [Assign.sexec, Assign.sstep, Option.bind_some, Option.some.injEq] at hex
  have h1 := hval 1 1 (by simp)
  rw [← hex] at h1
  simp [MiniVM.setReg, Assign.sval] at h1


/-! ## 4. patchCode -/

/-- **jump_threading_sound** — the jump-to-jump loop of `patchCode` (≤ 5 hops, targets read from the UNPATCHED code —
    the repaired loop) computes, for the `JMP` at `pc`, a distance that leads exactly where the label-resolved code
    arrives from `pc` by executing one or more JMP instructions (registers untouched).  Hence replacing the jump by
    `JMP distance` (or by NOP when the distance is 0) only skips executions of JMPs. -/
theorem jump_threading_sound {V : Type} (d : Dom V) (orig : List Instr) (lp : List (Nat × Int)) (consts : List Konst)
    (pc : Nat) (sbx : Int) (ρ g : Nat → V) (res : Int)
    (hcur : orig[pc]? = some (.jmp sbx)) (h : threadJmp orig lp pc 5 (.jmp sbx) 0 = .ok res) :
    0 ≤ (pc : Int) + res + 1 ∧
      ReachesPlus d (resolveLabels orig lp) consts ⟨pc, ρ, g⟩ ⟨((pc : Int) + res + 1).toNat, ρ, g⟩ :=
  Lowering.jump_threading_sound d orig lp consts pc sbx ρ g res 4 hcur h

/-- a machine started in `s` halts (RETURN / foreign instruction) in state `h`. -/
def HaltsAt {V : Type} (d : Dom V) (code : List Instr) (consts : List Konst) (s h : VM V) : Prop :=
  ∃ n, ∃ o, run d code consts n s = some o ∧ (match o with | .halt h' => h'.pc = h.pc ∧ h'.regs = h.regs ∧ h'.globs = h.globs | _ => False)

/-- NOT PROVED (sampled by the `run` tie on every check: the real VM runs the really patched code, the MiniVM the
    model's patched code, both are compared with the manual's semantics).  Full statement: the whole of `patchCode`
    (jump threading, JMP→NOP, MOVEN merging) preserves where and with which registers a run halts, compared with the
    label-resolved code the lowering theorems speak about.  Missing: the loop invariant of `patchLoop` (which
    instruction ends up at which index) and the stuttering simulation for MOVEN groups. -/
def patch_preserves_halting_full : Prop :=
  ∀ (V : Type) (d : Dom V) (st : CState) (code : List Instr) (nregs : Nat), patchCode st = .ok (code, nregs) →
    ∀ (consts : List Konst) (s h : VM V), HaltsAt d (P0 st) consts s h ↔ HaltsAt d code consts s h

/-- NOT PROVED: the lowering theorems for relational operators whose operands are arbitrary expressions and for
    conditions that raise (`eval = none` ⇒ the machine ends in `luaError` at the same comparison). -/
def lowering_total_full : Prop :=
  ∀ (V : Type) (d : Dom V), d.Lawful → ∀ (e : Cond) (st F : CState) (reg : Nat) (ec : ExpCtx) (ρ γ : Nat → V),
    st.regTop ≤ reg → LocalsBelow reg e → reg + 1 < 256 → savereg ec reg ≤ reg → (∀ L, LabelOK F L) →
    (compileExpr st reg e ec).1.code <+: F.code → (compileExpr st reg e ec).1.consts <+: F.consts →
    (∀ L, st.labelId ≤ L → L < (compileExpr st reg e ec).1.labelId →
        getLabelPc F L = getLabelPc (compileExpr st reg e ec).1 L) →
    match CondSpec.eval d ρ γ e with
    | some v => ∃ ρ', Reaches d (P0 F) F.consts ⟨st.code.length, ρ, γ⟩ ⟨(compileExpr st reg e ec).1.code.length, ρ', γ⟩ ∧
        ρ' (savereg ec reg) = v ∧ ∀ x, x < reg → x ≠ savereg ec reg → ρ' x = ρ x
    | none => ∃ n site, run d (P0 F) F.consts n ⟨st.code.length, ρ, γ⟩ = some (.luaError site)

end GLua.Props.C01
