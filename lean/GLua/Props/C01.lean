/-
  C01 (mechanism part) — property theorems.  Lemmas live in GLua/Proofs/{ConstFold,Lowering,Assign}.lean;
  the models are GLua/Model/{ConstFold,Compile,CompileStmt,MiniVM}.lean (transcriptions of /repo/compile.go
  and /repo/vm.go, tied to the code by the C01M correspondence check on every run); the reference meaning of
  conditions and assignments is GLua/Spec/CondSpec.lean (written from the manual).
-/
import GLua.Proofs.ConstFold
import GLua.Proofs.ConstFoldLink
import GLua.Proofs.Lowering
import GLua.Proofs.Assign
import GLua.Proofs.LoweringValue7
import GLua.Proofs.LoweringBC
import GLua.Proofs.LoweringBCLeaf
import GLua.Proofs.LoweringErr3
import GLua.Proofs.Threading

namespace GLua.Props.C01
open GLua GLua.Compile GLua.MiniVM GLua.Lowering

/-- a number structure over the integers for the non-vacuity examples (`/` truncates, `^` takes the exponent's
    absolute value: any total operations do, nothing is assumed about them). -/
@[reducible] def intNum : NumStruct where
  N := Int
  deq := inferInstance
  add := (· + ·)
  sub := (· - ·)
  mul := (· * ·)
  div := (· / ·)
  mod := ConstFold.luaModuloInt
  pow := fun a b => a ^ b.toNat
  neg := (- ·)
  lit := id
  isNaN := fun _ => false

/-! ## 1. compile-time constant folding equals run-time arithmetic -/

/-- **constFold_sound** — for every number structure (the six operations, negation, NaN and the numeral reader
    are arbitrary), every environment of the non-literal leaves and every arithmetic tree, the node `constFold`
    returns means what the tree means at run time.  Structural induction over arbitrary nesting; includes the
    numeral-parse-failure → NaN path, unary minus, the in-place rewrite of a unary minus' child and the
    "not constant → return the ORIGINAL node" case. -/
theorem constFold_sound {N : Type} (ops : ConstFold.NumOps N) (ρ : Nat → N) (e : ConstFold.Expr N) :
    ConstFold.eval ops ρ (ConstFold.constFold ops e).1 = ConstFold.eval ops ρ e :=
  (ConstFold.constFold_sound_both ops ρ e).1

/-- the node left behind in the tree (the parent keeps pointing at it) means the same as well. -/
theorem constFold_rewrite_sound {N : Type} (ops : ConstFold.NumOps N) (ρ : Nat → N) (e : ConstFold.Expr N) :
    ConstFold.eval ops ρ (ConstFold.constFold ops e).2 = ConstFold.eval ops ρ e :=
  (ConstFold.constFold_sound_both ops ρ e).2

/-- a tree all of whose leaves are literals folds to a constant (no arithmetic instruction remains). -/
theorem constFold_literal_is_constant {N : Type} (ops : ConstFold.NumOps N) (e : ConstFold.Expr N)
    (h : ConstFold.allLiteral e = true) : ∃ v, ConstFold.lnumberValue ops (ConstFold.constFold ops e).1 = some v :=
  ConstFold.constFold_literal ops e h

/-- non-vacuity: `-(2 + x)` is not constant, `-(2 + 3) % 4` is; over the integers with the modelled modulo. -/
def intOps : ConstFold.NumOps Int where
  add := (· + ·)
  sub := (· - ·)
  mul := (· * ·)
  div := (· / ·)
  mod := ConstFold.luaModuloInt
  pow := fun a b => a ^ b.toNat
  neg := (- ·)
  nan := 0
  parse := fun s => if s = "2" then some 2 else if s = "3" then some 3 else if s = "4" then some 4 else none

example : (ConstFold.constFold intOps (.arith .mod (.unm (.arith .add (.number "2") (.number "3"))) (.number "4"))).1
    = .const 3 := by decide
example : (ConstFold.constFold intOps (.unm (.arith .add (.number "2") (.other 0)))).1
    = .unm (.arith .add (.number "2") (.other 0)) := by decide

/-- **fold_uses_runtime_arith** (regenerated fact) — `constFold` and `numberArith` use the same Go expression
    for each of the six operators (`luaModulo`, `math.Pow`, …): re-extracted from /repo on every run. -/
theorem fold_uses_runtime_arith : Generated.constFoldOps = Generated.numberArithOps := by decide

/-- **luaModulo_body_is_modelled** (regenerated fact) — the body of `luaModulo` is the text `luaModuloInt` models. -/
theorem luaModulo_body_is_modelled : Generated.luaModuloBody = ConstFold.luaModuloBodyModelled := by decide +kernel

/-- **luaModulo_int** — over the integers (where `math.Mod` is the truncated remainder) the sign fix makes
    `luaModulo` the floored modulo of Lua 5.1 (`a - floor(a/b)*b`). -/
theorem luaModulo_int (a b : Int) (hb : b ≠ 0) : ConstFold.luaModuloInt a b = Int.fmod a b :=
  ConstFold.luaModuloInt_eq_fmod a b hb

example : ConstFold.luaModuloInt (-5) 3 = 1 ∧ ConstFold.luaModuloInt 5 (-3) = -1 := by decide


/-! ## 1b. the compile model's fold test is `constFold` -/

/-- **fold_test_is_constFold** — the test `compileArithmeticOpExpr` / `compileUnaryOpExpr` make
    (`constFold(expr).(*constLValueExpr)`) is, on the tree as the parser produced it, the function `lnum` the compile
    model uses: `lnum e = lnumberValue (constFold (toCF e))` for the function-by-function model of `constFold`. -/
theorem fold_test_is_constFold [NumStruct] (e : Cond) :
    lnum e = ConstFold.lnumberValue ConstFold.nsOps (ConstFold.constFold ConstFold.nsOps (ConstFold.toCF e)).1 :=
  ConstFold.lnum_eq_constFold e

/-- **constFold_again** — `constFold` run again on the node an earlier call RETURNED, or on the tree as an earlier call
    LEFT it (children of unary minus overwritten by their folded forms), finds the same constant (or none): earlier
    calls — compileArithmeticOpExpr folds every arithmetic node of a tree, outermost first — never change what a later
    one folds.  (∀ number structures, ∀ trees.) -/
theorem constFold_again {N : Type} (ops : ConstFold.NumOps N) (e : ConstFold.Expr N) :
    ConstFold.lnumberValue ops (ConstFold.constFold ops (ConstFold.constFold ops e).1).1
        = ConstFold.lnumberValue ops (ConstFold.constFold ops e).1 ∧
    ConstFold.lnumberValue ops (ConstFold.constFold ops (ConstFold.constFold ops e).2).1
        = ConstFold.lnumberValue ops (ConstFold.constFold ops e).1 :=
  ConstFold.constFold_again ops e

/-- **fold_is_sound_for_the_manual** — a tree that the compiler folds to the constant x has the value x in the manual's
    semantics (hence never raises), for every lawful value domain: the only facts used are the two laws
    "arithmetic / unary minus on NUMBERS is the number structure's operation". -/
theorem fold_is_sound_for_the_manual [NumStruct] {V : Type} (d : Dom V) (hd : d.Lawful) (ρ γ : Nat → V) (e : Cond) (x : NumStruct.N)
    (h : lnum e = some x) : CondSpec.eval d ρ γ e = some (d.num x) :=
  lnum_eval d hd ρ γ e x h

section
attribute [local instance] intNum
/-- non-vacuity: `-(2 + 3) % 4` folds (to 3 with the modelled modulo), `-(2 + l0)` does not. -/
example : lnum (.arith .mod (.unm (.arith .add (.num 2) (.num 3))) (.num 4)) = some (3 : Int) := by decide
example : lnum (.unm (.arith .add (.num 2) (.loc 0))) = none := by decide
end


/-! ## 2. lowering of conditions (compileBranchCondition + label resolution)

    `Lowering.BCFrag e`  : the ORIGINAL fragment: `e` is built from and / or / not, relational operators whose operands
                           are leaves, the constants true/false/nil/number/string, locals and opaque atoms;
    `Lowering.rh e`      : register height — the code of `e` compiled at `reg` writes no register above `reg + rh e`;
    `Lowering.P0 F`      : the code of the (final) compile state `F` with every `JMP label` resolved to its distance
                           (`patchCode` without jump threading and MOVEN merging);
    `Lowering.tgt F L`   : where a jump to label `L` lands;
    `CondSpec.eval`      : the manual's value of the expression (short-circuit semantics §2.5.3, arithmetic §2.5.1,
                           comparison §2.5.2, concatenation §2.5.4, length §2.5.5; `none` = raises). -/

section Generic
variable [NumStruct]

/-- **branch_lowering_correct** (branch contexts: the condition of if / while / repeat; ORIGINAL fragment, original
    hypotheses) — for every condition tree of the fragment, every compile state before it, every register file and
    atom valuation on which the condition does not raise, and EVERY completion `F` of the compile state (the emitted
    code and constants are still there, the labels allocated inside keep their binding, the then-label is bound right
    behind the condition as compileIfStmt/While/Repeat do): running the label-resolved code from the first instruction
    of the condition reaches the then-target iff the manual's value is truthy, the else-target otherwise, and every
    register below `reg` is unchanged.  (Unbounded: structural induction over the tree.) -/
theorem branch_lowering_correct {V : Type} (d : Dom V) (hd : d.Lawful) (e : Cond) (hfrag : BCFrag e)
    (st F : CState) (reg thenl elsel : Nat) (ρ γ : Nat → V) (v : V)
    (htop : st.regTop ≤ reg) (hloc : LocalsBelow reg e) (hreg : reg + 1 < 256)
    (hev : CondSpec.eval d ρ γ e = some v)
    (hF : (compileBranchCondition st reg e thenl elsel false).code <+: F.code)
    (hK : (compileBranchCondition st reg e thenl elsel false).consts <+: F.consts)
    (hlab : ∀ L, st.labelId ≤ L → L < (compileBranchCondition st reg e thenl elsel false).labelId →
        getLabelPc F L = getLabelPc (compileBranchCondition st reg e thenl elsel false) L)
    (hthen : getLabelPc F thenl = lastPC (compileBranchCondition st reg e thenl elsel false))
    (helse : LabelOK F elsel) :
    ∃ ρ', Reaches d (P0 F) F.consts ⟨st.code.length, ρ, γ⟩
        ⟨if d.truthy v then tgt F thenl else tgt F elsel, ρ', γ⟩ ∧ ∀ x, x < reg → ρ' x = ρ x := by
  have hLt : LabelOK F thenl := by unfold LabelOK; rw [hthen]; unfold lastPC; omega
  have htgt : tgt F thenl = (compileBranchCondition st reg e thenl elsel false).code.length := by
    unfold tgt; rw [hthen]; unfold lastPC; omega
  obtain ⟨ρ', pc', hr, hag, hbo⟩ := bc_correct d hd e hfrag st F reg thenl elsel false ρ γ v htop hloc hreg hLt helse hev hF hK hlab
  refine ⟨ρ', ?_, hag⟩
  cases ht : d.truthy v with
  | true =>
    rw [ht] at hbo
    rcases hbo.1 rfl with h | ⟨_, h⟩
    · simpa [h] using hr
    · simp only [if_true]; rw [htgt]; rw [h] at hr; exact hr
  | false =>
    rw [ht] at hbo
    rcases hbo.2 rfl with h | ⟨h, _⟩
    · simpa [h] using hr
    · exact Bool.noConfusion h

/-- the general form for sub-conditions (any `hasnextcond`, labels bound anywhere): control ends at the
    then-label / else-label or, for the side that does not jump, behind the condition's code. -/
theorem branch_lowering_general {V : Type} (d : Dom V) (hd : d.Lawful) (e : Cond) (hfrag : Lowering.BCFrag e)
    (st F : Compile.CState) (reg thenl elsel : Nat) (hasnext : Bool) (ρ γ : Nat → V) (v : V)
    (htop : st.regTop ≤ reg) (hloc : Lowering.LocalsBelow reg e) (hreg : reg + 1 < 256)
    (hLt : Lowering.LabelOK F thenl) (hLe : Lowering.LabelOK F elsel)
    (hev : CondSpec.eval d ρ γ e = some v)
    (hF : (Compile.compileBranchCondition st reg e thenl elsel hasnext).code <+: F.code)
    (hK : (Compile.compileBranchCondition st reg e thenl elsel hasnext).consts <+: F.consts)
    (hlab : ∀ L, st.labelId ≤ L → L < (Compile.compileBranchCondition st reg e thenl elsel hasnext).labelId →
        Compile.getLabelPc F L = Compile.getLabelPc (Compile.compileBranchCondition st reg e thenl elsel hasnext) L) :
    ∃ ρ' pc', MiniVM.Reaches d (Lowering.P0 F) F.consts ⟨st.code.length, ρ, γ⟩ ⟨pc', ρ', γ⟩ ∧ (∀ x, x < reg → ρ' x = ρ x) ∧
      Lowering.BranchOut F thenl elsel hasnext (Compile.compileBranchCondition st reg e thenl elsel hasnext).code.length (d.truthy v) pc' :=
  Lowering.bc_correct d hd e hfrag st F reg thenl elsel hasnext ρ γ v htop hloc hreg hLt hLe hev hF hK hlab

/-- **value_lowering_correct** (value contexts, ORIGINAL fragment — now a corollary of `value_lowering_correct_ext`):
    `local x = e`, `x = e` with x an EXISTING local that may also be an operand, `g = e`, `return e`, operand of
    not / a relational operator, any position of a multiple assignment. -/
theorem value_lowering_correct {V : Type} (d : Dom V) (hd : d.Lawful) (e : Cond) (hfrag : BCFrag e)
    (st F : CState) (reg : Nat) (ec : ExpCtx) (ρ γ : Nat → V) (v : V)
    (htop : st.regTop ≤ reg) (hloc : LocalsBelow reg e) (hreg : reg + 1 < 256) (hdest : savereg ec reg ≤ reg)
    (hev : CondSpec.eval d ρ γ e = some v) (hok : ∀ L, LabelOK F L)
    (hF : (compileExpr st reg e ec).1.code <+: F.code)
    (hK : (compileExpr st reg e ec).1.consts <+: F.consts)
    (hlab : ∀ L, st.labelId ≤ L → L < (compileExpr st reg e ec).1.labelId →
        getLabelPc F L = getLabelPc (compileExpr st reg e ec).1 L) :
    ∃ ρ', Reaches d (P0 F) F.consts ⟨st.code.length, ρ, γ⟩ ⟨(compileExpr st reg e ec).1.code.length, ρ', γ⟩ ∧
      ρ' (savereg ec reg) = v ∧ ∀ x, x < reg → x ≠ savereg ec reg → ρ' x = ρ x :=
  (value_main d hd e).1 st F reg ec ρ γ v htop hloc (by have := rh_BCFrag e hfrag; omega) hdest hev hok hF hK hlab

/-! ### 2b. the extended fragment: EVERY expression of the model

    arithmetic `+ - * / % ^` (compileArithmeticOpExpr: constFold first, operands through PropagateKMV), unary minus
    and `#` and `not` on arbitrary sub-expressions (compileUnaryOpExpr: PropagateMV), concatenation chains
    (compileStringConcatOpExpr: consecutive registers, the popped inner CONCATs, one right-to-left join),
    relational operators whose operands are arbitrary expressions, and all mixtures with and / or / not. -/

/-- **value_lowering_correct_ext** — for EVERY expression tree `e` of the model (no fragment restriction), every
    destination context `ec` (destination `savereg ec reg` = the free register `reg` or an EXISTING local below it,
    which may also be an operand of `e`), every compile state `st` with `regTop ≤ reg`, every register file `ρ` and
    atom valuation `γ` on which the manual's evaluation of `e` does not raise, and EVERY completion `F` of the compile
    state: running the label-resolved code from the first instruction of `e` reaches the end of `e`'s code with the
    manual's VALUE in the destination, and every register below `reg` other than the destination — i.e. every live
    local — is unchanged.  Operands are evaluated left to right (the theorem is proved through `bops_sem`: left operand
    code, then right operand code, then the instruction).  The number structure is arbitrary: arithmetic is
    uninterpreted and total, the operations of the value domain may raise (`none`), and constant folding is covered
    through the two laws of `Dom.Lawful` on numbers.  Guards: registers stay below 256 (`reg + rh e < 256`; the
    compiler itself stops at 200); NO guard on the constant pool (a constant whose index exceeds 255 is simply not
    turned into an RK operand, and the theorem covers that path). -/
theorem value_lowering_correct_ext {V : Type} (d : Dom V) (hd : d.Lawful) (e : Cond)
    (st F : CState) (reg : Nat) (ec : ExpCtx) (ρ γ : Nat → V) (v : V)
    (htop : st.regTop ≤ reg) (hloc : LocalsBelow reg e) (hreg : reg + rh e < 256) (hdest : savereg ec reg ≤ reg)
    (hev : CondSpec.eval d ρ γ e = some v) (hok : ∀ L, LabelOK F L)
    (hF : (compileExpr st reg e ec).1.code <+: F.code)
    (hK : (compileExpr st reg e ec).1.consts <+: F.consts)
    (hlab : ∀ L, st.labelId ≤ L → L < (compileExpr st reg e ec).1.labelId →
        getLabelPc F L = getLabelPc (compileExpr st reg e ec).1 L) :
    ∃ ρ', Reaches d (P0 F) F.consts ⟨st.code.length, ρ, γ⟩ ⟨(compileExpr st reg e ec).1.code.length, ρ', γ⟩ ∧
      ρ' (savereg ec reg) = v ∧ ∀ x, x < reg → x ≠ savereg ec reg → ρ' x = ρ x :=
  (value_main d hd e).1 st F reg ec ρ γ v htop hloc hreg hdest hev hok hF hK hlab

/-- **branch_lowering_correct_ext** — the branch-context theorem for EVERY expression (any `hasnextcond`, labels bound
    anywhere): and / or / not become jumps, a relational operator one comparison + jump over ARBITRARY operand
    expressions, any other expression is evaluated (through PropagateMV) and tested.  Control ends at the then-label
    iff the manual's value is truthy, else at the else-label (or, for the side that does not jump, behind the code);
    registers below `reg` are unchanged. -/
theorem branch_lowering_correct_ext {V : Type} (d : Dom V) (hd : d.Lawful) (e : Cond)
    (st F : CState) (reg thenl elsel : Nat) (hasnext : Bool) (ρ γ : Nat → V) (v : V)
    (htop : st.regTop ≤ reg) (hloc : LocalsBelow reg e) (hreg : reg + rh e < 256) (hok : ∀ L, LabelOK F L)
    (hev : CondSpec.eval d ρ γ e = some v)
    (hF : (compileBranchCondition st reg e thenl elsel hasnext).code <+: F.code)
    (hK : (compileBranchCondition st reg e thenl elsel hasnext).consts <+: F.consts)
    (hlab : ∀ L, st.labelId ≤ L → L < (compileBranchCondition st reg e thenl elsel hasnext).labelId →
        getLabelPc F L = getLabelPc (compileBranchCondition st reg e thenl elsel hasnext) L) :
    ∃ ρ' pc', Reaches d (P0 F) F.consts ⟨st.code.length, ρ, γ⟩ ⟨pc', ρ', γ⟩ ∧ (∀ x, x < reg → ρ' x = ρ x) ∧
      BranchOut F thenl elsel hasnext (compileBranchCondition st reg e thenl elsel hasnext).code.length (d.truthy v) pc' :=
  bcx_correct d hd e st F reg thenl elsel hasnext ρ γ v htop hloc hreg hok hev hF hK hlab

/-- **propagation_pops_only_the_operands_own_load** — PropagateKMV / PropagateMV (`kmv`) applied to one operand `c`
    compiled at the free register `reg ≥ regTop`: whenever it pops an instruction, that instruction was the ENTIRE code
    of the operand, and its target register is `reg` — the operand's own scratch register, which no instruction emitted
    so far reads and which is handed out again to the next operand (the returned next-free register is `reg`): the
    target is dead.  Precisely: the operand is a local `r` (popped `MOVE reg r`, operand field `r`) or — PropagateKMV
    only — a constant (a literal or a folded tree: popped `LOADK reg k` with `k ≤ 255`, operand field `k + 256`).
    In every other case nothing is popped and the operand field is `reg`. -/
theorem propagation_pops_only_the_operands_own_load (kmv : Bool) (c : Cond) (st : CState) (reg : Nat) (htop : st.regTop ≤ reg) :
    ((opr kmv c reg st).1.code = (comp c (.expr reg ecnone0) st).st.code ∧ (opr kmv c reg st).2.1 = reg ∧ (opr kmv c reg st).2.2 = reg + 1) ∨
    (∃ i, (comp c (.expr reg ecnone0) st).st.code = st.code ++ [i] ∧ (opr kmv c reg st).1.code = st.code ∧ i.argA = reg ∧
      (opr kmv c reg st).2.2 = reg ∧
      ((∃ r, c = .loc r ∧ i = .move reg r ∧ (opr kmv c reg st).2.1 = r) ∨
       (∃ k idx, konstOf c = some k ∧ kmv = true ∧ idx ≤ Generated.opMaxIndexRk ∧ i = .loadk reg idx ∧
          (opr kmv c reg st).1.consts[idx]? = some k ∧ (opr kmv c reg st).2.1 = idx + Generated.opBitRk))) := by
  have hfr := (comp_frame c).1 st reg ecnone0 htop
  rcases opr_cases kmv c st reg hfr htop with ⟨k, hk, h⟩ | ⟨r, hr, h⟩ | ⟨_, _, h⟩
  · obtain ⟨hk1, _, hk3, _⟩ := constIndex_spec st k
    have hcomp := hfr.konst k hk
    by_cases hcond : reg ≥ (constIndex st k).1.regTop ∧ kmv = true ∧ (constIndex st k).2 ≤ Generated.opMaxIndexRk
    · right
      rw [if_pos hcond] at h
      refine ⟨.loadk reg (constIndex st k).2, ?_, by rw [h]; exact hk3, rfl, by rw [h], Or.inr ⟨k, (constIndex st k).2, hk, hcond.2.1, hcond.2.2, rfl, by rw [h]; exact hk1, by rw [h]⟩⟩
      rw [hcomp]; simp [loadK, savereg_ecnone0, hk3]
    · left
      rw [if_neg hcond] at h
      rw [h, hcomp]
      exact ⟨by simp [loadK, savereg_ecnone0], rfl, rfl⟩
  · right
    subst hr
    refine ⟨.move reg r, ?_, by rw [h], rfl, by rw [h], Or.inl ⟨r, rfl, rfl, by rw [h]⟩⟩
    have := hfr.loc r rfl
    rw [savereg_ecnone0] at this
    rw [this]; rfl
  · left; rw [h]; exact ⟨rfl, rfl, rfl⟩

/-- … and the popped load is not lost: after the operand's (possibly empty) code the operand field denotes the
    operand's value, every register below `reg` is unchanged, and the field is below the next free register (or a
    constant), so the code of the next operand cannot overwrite it — the operand lemma behind both theorems above. -/
theorem operand_value_is_where_the_field_says {V : Type} (d : Dom V) (hd : d.Lawful) (kmv : Bool) (c : Cond)
    (st F : CState) (reg : Nat) (ρ γ : Nat → V) (vc : V)
    (htop : st.regTop ≤ reg) (hloc : LocalsBelow reg c) (hreg : reg + rh c < 256) (hev : CondSpec.eval d ρ γ c = some vc)
    (hok : ∀ L, LabelOK F L)
    (hF : (opr kmv c reg st).1.code <+: F.code) (hK : (opr kmv c reg st).1.consts <+: F.consts)
    (hlab : ∀ L, st.labelId ≤ L → L < (opr kmv c reg st).1.labelId → getLabelPc F L = getLabelPc (opr kmv c reg st).1 L) :
    ∃ ρ1, Reaches d (P0 F) F.consts ⟨st.code.length, ρ, γ⟩ ⟨(opr kmv c reg st).1.code.length, ρ1, γ⟩ ∧
      (∀ x, x < reg → ρ1 x = ρ x) ∧ rkValue d F.consts ρ1 (opr kmv c reg st).2.1 = some vc ∧
      ((opr kmv c reg st).2.1 < (opr kmv c reg st).2.2 ∨ 256 ≤ (opr kmv c reg st).2.1) := by
  obtain ⟨ρ1, h1, h2, h3, h4, _⟩ := opr_sem d hd kmv c (comp_frame c).1 (value_main d hd c).1 st F reg ρ γ vc htop hloc hreg hev hok hF hK hlab
  exact ⟨ρ1, h1, h2, h3, h4⟩

end Generic

section Examples
attribute [local instance] intNum

/-- non-vacuity (original fragment): the hypotheses hold for the if statement
    `if l0 and not (g1 or l1 < 3) then return 1 else return 2 end` as compiled by the model of compileIfStmt
    (F = the finished main chunk, st = the store right before the condition). -/
example : ∃ (e : Cond) (st F : CState),
    BCFrag e ∧ st.regTop ≤ 2 ∧ LocalsBelow 2 e ∧
    (compileBranchCondition st 2 e 1 2 false).code <+: F.code ∧
    (compileBranchCondition st 2 e 1 2 false).consts <+: F.consts ∧
    (∀ L, st.labelId ≤ L → L < (compileBranchCondition st 2 e 1 2 false).labelId →
        getLabelPc F L = getLabelPc (compileBranchCondition st 2 e 1 2 false) L) ∧
    getLabelPc F 1 = lastPC (compileBranchCondition st 2 e 1 2 false) ∧ LabelOK F 2 ∧
    (compileBranchCondition st 2 e 1 2 false).code.length = st.code.length + 7 := by
  refine ⟨.and (.loc 0) (.not (.or (.ev 1) (.rel .lt (.loc 1) (.num 3)))),
    { code := [.abc Generated.OP_VARARG 0 3 0], labelId := 4, regTop := 2 },
    compileMain 2 (Block.ofList [.ifS (.and (.loc 0) (.not (.or (.ev 1) (.rel .lt (.loc 1) (.num 3)))))
      (Block.ofList [.ret [.num 1]]) (Block.ofList [.ret [.num 2]])]), ?_, ?_, ?_, ?_, ?_, ?_, ?_, ?_, ?_⟩
  · simp [BCFrag, isLeaf]
  · decide
  · simp [LocalsBelow]
  · decide
  · decide
  · intro L h1 h2
    exact (show ∀ L, L < 6 → 4 ≤ L → getLabelPc _ L = getLabelPc _ L by decide) L h2 h1
  · decide
  · unfold LabelOK; decide
  · decide

/-- non-vacuity (original fragment): the hypotheses hold for `l0 = (l1 or l1) and l0` (the witness of the TESTSET defect:
    destination = an operand) as compiled by the model's compileAssignStmt inside a main chunk. -/
example : ∃ (e : Cond) (st F : CState) (ec : ExpCtx),
    BCFrag e ∧ st.regTop ≤ 2 ∧ LocalsBelow 2 e ∧ savereg ec 2 = 0 ∧ (∀ L, LabelOK F L) ∧
    (compileExpr st 2 e ec).1.code <+: F.code ∧ (compileExpr st 2 e ec).1.consts <+: F.consts ∧
    (∀ L, st.labelId ≤ L → L < (compileExpr st 2 e ec).1.labelId →
        getLabelPc F L = getLabelPc (compileExpr st 2 e ec).1 L) ∧
    st.code.length + 3 < (compileExpr st 2 e ec).1.code.length := by
  refine ⟨.and (.or (.loc 1) (.loc 1)) (.loc 0), { code := [.abc Generated.OP_VARARG 0 3 0], regTop := 2 },
    compileMain 2 (Block.ofList [.assign [.loc 0] [.and (.or (.loc 1) (.loc 1)) (.loc 0)], .ret [.loc 0, .loc 1]]),
    ⟨ecLocal, 0⟩, ?_, ?_, ?_, ?_, ?_, ?_, ?_, ?_, ?_⟩
  · simp [BCFrag]
  · decide
  · simp [LocalsBelow]
  · decide
  · exact labelOK_of_all _ (by decide)
  · decide
  · decide
  · intro L h1 h2
    exact (show ∀ L, L < 6 → 1 ≤ L → getLabelPc _ L = getLabelPc _ L by decide) L h2 h1
  · decide

/-- the expression of the extended-fragment witnesses:
    `l0 = l0 + (l1 * (2 + 3) .. "x" .. -l0 < #g0 and l1 % 2)` — destination = an operand, a folded sub-tree (2 + 3),
    a local operand (MOVE propagated), a constant operand (LOADK propagated), a 3-chain of concatenations, unary minus
    and # on non-leaves, a relational operator over non-leaf operands, and / or inside arithmetic. -/
def extWitness : Cond :=
  .arith .add (.loc 0)
    (.and (.rel .lt (.concat (.arith .mul (.loc 1) (.arith .add (.num 2) (.num 3))) (.concat (.str "x") (.unm (.loc 0)))) (.len (.ev 0)))
          (.arith .mod (.loc 1) (.num 2)))

/-- non-vacuity of `value_lowering_correct_ext`: its hypotheses hold for `l0 = extWitness` as compiled by the model's
    compileAssignStmt inside a main chunk (destination l0 is also an operand; 16 instructions are emitted). -/
example : ∃ (st F : CState) (ec : ExpCtx),
    st.regTop ≤ 2 ∧ LocalsBelow 2 extWitness ∧ 2 + rh extWitness < 256 ∧ savereg ec 2 = 0 ∧ (∀ L, LabelOK F L) ∧
    (compileExpr st 2 extWitness ec).1.code <+: F.code ∧ (compileExpr st 2 extWitness ec).1.consts <+: F.consts ∧
    (∀ L, st.labelId ≤ L → L < (compileExpr st 2 extWitness ec).1.labelId →
        getLabelPc F L = getLabelPc (compileExpr st 2 extWitness ec).1 L) ∧
    st.code.length + 10 < (compileExpr st 2 extWitness ec).1.code.length := by
  refine ⟨{ code := [.abc Generated.OP_VARARG 0 3 0], regTop := 2 },
    compileMain 2 (Block.ofList [.assign [.loc 0] [extWitness], .ret [.loc 0, .loc 1]]),
    ⟨ecLocal, 0⟩, ?_, ?_, ?_, ?_, ?_, ?_, ?_, ?_, ?_⟩
  · decide
  · simp [LocalsBelow, extWitness]
  · decide
  · decide
  · exact labelOK_of_all _ (by decide)
  · decide
  · decide
  · intro L h1 h2
    exact (show ∀ L, L < 5 → 1 ≤ L → getLabelPc _ L = getLabelPc _ L by decide) L h2 h1
  · decide

/-- non-vacuity of `branch_lowering_correct_ext`: `while extWitness … ` — the same expression as a loop condition. -/
example : ∃ (st F : CState),
    st.regTop ≤ 2 ∧ LocalsBelow 2 extWitness ∧ 2 + rh extWitness < 256 ∧ (∀ L, LabelOK F L) ∧
    (compileBranchCondition st 2 extWitness 1 2 false).code <+: F.code ∧
    (compileBranchCondition st 2 extWitness 1 2 false).consts <+: F.consts ∧
    (∀ L, st.labelId ≤ L → L < (compileBranchCondition st 2 extWitness 1 2 false).labelId →
        getLabelPc F L = getLabelPc (compileBranchCondition st 2 extWitness 1 2 false) L) ∧
    st.code.length + 10 < (compileBranchCondition st 2 extWitness 1 2 false).code.length := by
  refine ⟨{ code := [.abc Generated.OP_VARARG 0 3 0], labelId := 4, regTop := 2, labelPc := [(3, 0)] },
    compileMain 2 (Block.ofList [.whileS extWitness (Block.ofList [.ret [.num 1]]), .ret [.num 2]]), ?_, ?_, ?_, ?_, ?_, ?_, ?_, ?_⟩
  · decide
  · simp [LocalsBelow, extWitness]
  · decide
  · exact labelOK_of_all _ (by decide)
  · decide
  · decide
  · intro L h1 h2
    exact (show ∀ L, L < 8 → 4 ≤ L → getLabelPc _ L = getLabelPc _ L by decide) L h2 h1
  · decide

/-- non-vacuity of the propagation theorem: in `l1 * 5` both operands are popped (MOVE of the local, LOADK of the
    constant), in `g0 * (l1 + l1)` none is. -/
example : (opr true (.loc 1) 2 { regTop := 2 }).2 = (1, 2) ∧ (opr true (.num 5) 2 { regTop := 2 }).2 = (0 + 256, 2) ∧
    (opr true (.ev 0) 2 { regTop := 2 }).2 = (2, 3) ∧ (opr true (.arith .add (.loc 1) (.loc 1)) 3 { regTop := 2 }).2 = (3, 4) := by
  decide

end Examples

/-! ## 3. multiple assignment to locals -/

section Generic2
variable [NumStruct]


/-- the statement "the assignment compiler `compile` computes the simultaneous assignment": for every number of
    distinct local targets `ts`, right-hand sides that are locals or constants, and every register file, the code
    appended to the store is a straight-line MOVE/LOADK/LOADBOOL/LOADNIL segment after which target i holds the
    OLD value of right-hand side i (nil if missing) and every other local is unchanged. -/
def AssignParallel (compile : Compile.CState → List Compile.Target → List Compile.Cond → Compile.CState) : Prop :=
  ∀ (V : Type) (d : Compile.Dom V) (st : Compile.CState) (ts : List Nat) (rhs : List Compile.Cond),
    ts.Nodup → (∀ t ∈ ts, t < st.regTop) → (∀ e ∈ rhs, Assign.SimpleRhs st.regTop e) → st.regTop ≤ 256 →
    ∃ seg, (compile st (ts.map Compile.Target.loc) rhs).code = st.code ++ seg ∧
      ∀ consts, (compile st (ts.map Compile.Target.loc) rhs).consts <+: consts → ∀ ρ : Nat → V,
        ∃ ρ', Assign.sexec d consts seg ρ = some ρ' ∧
          (∀ (i t : Nat), ts[i]? = some t → ρ' t = Assign.sval d ρ ((rhs[i]?).getD .nil)) ∧
          (∀ x, x < st.regTop → x ∉ ts → ρ' x = ρ x)

/-- **assign_locals_parallel** — `compileAssignStmt` (only the last local is stored in place, and only when no
    surplus expression follows) computes the simultaneous assignment, for every k and every register file. -/
theorem assign_locals_parallel : AssignParallel Compile.compileAssignStmt := by
  intro V d st ts rhs hnd hlt hrhs hB
  obtain ⟨seg, h1, _, h3⟩ := Assign.assign_parallel d st ts rhs hnd hlt hrhs hB
  exact ⟨seg, h1, h3⟩

/-- the straight-line segment runs on the MiniVM exactly as `sexec` says, wherever it is placed. -/
theorem assign_segment_runs {V : Type} (d : Compile.Dom V) (consts : List MiniVM.Konst) (g : Nat → V)
    (seg pre post : List MiniVM.Instr) (ρ ρ' : Nat → V) (h : Assign.sexec d consts seg ρ = some ρ') :
    MiniVM.Reaches d (pre ++ seg ++ post) consts ⟨pre.length, ρ, g⟩ ⟨pre.length + seg.length, ρ', g⟩ :=
  Assign.sexec_reaches d consts g seg pre post ρ ρ' h

/-- `sval` is the manual's value of a simple right-hand side. -/
theorem assign_rhs_value_is_spec {V : Type} (d : Compile.Dom V) (ρ γ : Nat → V) (B : Nat) (rhs : List Compile.Cond)
    (hrhs : ∀ e ∈ rhs, Assign.SimpleRhs B e) (i : Nat) :
    CondSpec.rhsVal d ρ γ rhs i = some (Assign.sval d ρ ((rhs[i]?).getD .nil)) := by
  unfold CondSpec.rhsVal
  cases h : rhs[i]? with
  | none => simp [Assign.sval]
  | some e => simpa using Assign.sval_eval d ρ γ (hrhs e (List.mem_of_getElem? h))

/-- a value domain over `Nat` for the witness (values are just numbers). -/
def natDom : Compile.Dom Nat :=
  { nilV := 100, trueV := 101, falseV := 102, truthy := fun _ => true, num := fun _ => 0, str := fun _ => 0,
    eq := fun _ _ => none, lt := fun _ _ => none, le := fun _ _ => none,
    arith := fun _ _ _ => none, unm := fun _ => none, len := fun _ => none, concat := fun _ _ => none }

/-- **assign_locals_parallel_prefix_fails** — the compiler as it was before today's fix (every local target stored
    in place, snapshot f14c8c8) does NOT compute the simultaneous assignment: witness `a, b = b, a`. -/
theorem assign_locals_parallel_prefix_fails : ¬ AssignParallel Compile.compileAssignStmtPreFix := by
  intro h
  obtain ⟨seg, hcode, hsem⟩ := h Nat natDom { regTop := 2 } [0, 1] [.loc 1, .loc 0] (by decide)
    (by intro t ht; simp at ht; show t < 2; omega)
    (by intro e he; simp at he; rcases he with rfl | rfl <;> simp [Assign.SimpleRhs]) (by show 2 ≤ 256; omega)
  have hseg : seg = [.move 0 1, .move 1 0] := by
    have : (Compile.compileAssignStmtPreFix { regTop := 2 } ([0, 1].map Compile.Target.loc) [.loc 1, .loc 0]).code
        = [.move 0 1, .move 1 0] := rfl
    rw [this] at hcode
    simpa using hcode.symm
  subst hseg
  obtain ⟨ρ', hex, hval, _⟩ := hsem [] (List.nil_prefix) (fun x => x)
  simp only [Assign.sexec, Assign.sstep, Option.bind_some, Option.some.injEq] at hex
  have h1 := hval 1 1 (by simp)
  rw [← hex] at h1
  simp [MiniVM.setReg, Assign.sval] at h1


/-! ## 4. patchCode -/

/-- **jump_threading_sound** — the jump-to-jump loop of `patchCode` (≤ 5 hops, targets read from the UNPATCHED code —
    the repaired loop) computes, for the `JMP` at `pc`, a distance that leads exactly where the label-resolved code
    arrives from `pc` by executing one or more JMP instructions (registers untouched).  Hence replacing the jump by
    `JMP distance` (or by NOP when the distance is 0) only skips executions of JMPs.
    `hlab`: every label of the table reads ≥ -1 — true of every table the compiler builds (labels are bound by
    `SetLabelPc(label, LastPC())`, a missing key reads 0; cf. `labelOK_of_all`).  The hypothesis became necessary when
    the model's loop was brought up to /repo HEAD's patchCode, which no longer indexes `orig` with a target outside
    the code but stops threading there (`next < 0 || next >= len(orig)` → `break`); the target at or past the END of
    the code is covered (the label-resolved JMP goes there too). -/
theorem jump_threading_sound {V : Type} (d : Dom V) (orig : List Instr) (lp : List (Nat × Int)) (consts : List Konst)
    (pc : Nat) (sbx : Int) (ρ g : Nat → V) (res : Int) (hlab : ∀ L, -1 ≤ lookupLabel lp L)
    (hcur : orig[pc]? = some (.jmp sbx)) (h : threadJmp orig lp pc 5 (.jmp sbx) 0 = .ok res) :
    0 ≤ (pc : Int) + res + 1 ∧
      ReachesPlus d (resolveLabels orig lp) consts ⟨pc, ρ, g⟩ ⟨((pc : Int) + res + 1).toNat, ρ, g⟩ :=
  Lowering.jump_threading_sound d orig lp consts pc sbx ρ g res 4 hlab hcur h

/-- a machine started in `s` halts (RETURN / foreign instruction) in state `h`. -/
def HaltsAt {V : Type} (d : Dom V) (code : List Instr) (consts : List Konst) (s h : VM V) : Prop :=
  ∃ n, ∃ o, run d code consts n s = some o ∧ (match o with | .halt h' => h'.pc = h.pc ∧ h'.regs = h.regs ∧ h'.globs = h.globs | _ => False)

/-- NOT PROVED (sampled by the `run` tie on every check: the real VM runs the really patched code, the MiniVM the
    model's patched code, both are compared with the manual's semantics).  Full statement: the whole of `patchCode`
    (jump threading, JMP→NOP, MOVEN merging) preserves where and with which registers a run halts, compared with the
    label-resolved code the lowering theorems speak about.  Missing: the loop invariant of `patchLoop` (which
    instruction ends up at which index) and the stuttering simulation for MOVEN groups. -/
def patch_preserves_halting_full : Prop :=
  ∀ (V : Type) (d : Dom V) (st : CState) (code : List Instr) (nregs : Nat), patchCode st = .ok (code, nregs) →
    ∀ (consts : List Konst) (s h : VM V), HaltsAt d (P0 st) consts s h ↔ HaltsAt d code consts s h

/-- the TOTAL form of the value-context theorem: for every expression, destination context, compile state, register
    file and completion `F`, the emitted code delivers the manual's value when the manual's evaluation succeeds, and
    ends in a Lua error when it raises (`none`: some comparison / arithmetic operation / unary minus / length /
    concatenation answers "error" on its operand values, operands evaluated left to right). -/
def lowering_total_full : Prop :=
  ∀ (V : Type) (d : Dom V), d.Lawful → ∀ (e : Cond) (st F : CState) (reg : Nat) (ec : ExpCtx) (ρ γ : Nat → V),
    st.regTop ≤ reg → LocalsBelow reg e → reg + rh e < 256 → savereg ec reg ≤ reg → (∀ L, LabelOK F L) →
    (compileExpr st reg e ec).1.code <+: F.code → (compileExpr st reg e ec).1.consts <+: F.consts →
    (∀ L, st.labelId ≤ L → L < (compileExpr st reg e ec).1.labelId →
        getLabelPc F L = getLabelPc (compileExpr st reg e ec).1 L) →
    match CondSpec.eval d ρ γ e with
    | some v => ∃ ρ', Reaches d (P0 F) F.consts ⟨st.code.length, ρ, γ⟩ ⟨(compileExpr st reg e ec).1.code.length, ρ', γ⟩ ∧
        ρ' (savereg ec reg) = v ∧ ∀ x, x < reg → x ≠ savereg ec reg → ρ' x = ρ x
    | none => ∃ n site, run d (P0 F) F.consts n ⟨st.code.length, ρ, γ⟩ = some (.luaError site)

/-- **lowering_total** — `lowering_total_full` (until now "stated, not proved") holds: the code of every expression
    raises exactly when the manual's evaluation raises, and delivers the manual's value otherwise.  (Two structural
    inductions over the tree: `value_main` for the values, `err_main` for the errors — the latter uses the former for
    the operands that are evaluated before the failing one.) -/
theorem lowering_total : lowering_total_full := by
  intro V d hd e st F reg ec ρ γ htop hloc hreg hdest hok hF hK hlab
  cases hev : CondSpec.eval d ρ γ e with
  | some v => exact (value_main d hd e).1 st F reg ec ρ γ v htop hloc hreg hdest hev hok hF hK hlab
  | none => exact (err_main d hd e st F reg ec ρ γ htop hloc hreg hdest hev hok hF hK hlab).run

/-- **branch_lowering_raises** — the branch-context counterpart: a condition whose evaluation raises makes the code of
    `compileBranchCondition` raise (any `hasnextcond`, labels bound anywhere). -/
theorem branch_lowering_raises {V : Type} (d : Dom V) (hd : d.Lawful) (e : Cond)
    (st F : CState) (reg thenl elsel : Nat) (hasnext : Bool) (ρ γ : Nat → V)
    (htop : st.regTop ≤ reg) (hloc : LocalsBelow reg e) (hreg : reg + rh e < 256) (hok : ∀ L, LabelOK F L)
    (hev : CondSpec.eval d ρ γ e = none)
    (hF : (compileBranchCondition st reg e thenl elsel hasnext).code <+: F.code)
    (hK : (compileBranchCondition st reg e thenl elsel hasnext).consts <+: F.consts)
    (hlab : ∀ L, st.labelId ≤ L → L < (compileBranchCondition st reg e thenl elsel hasnext).labelId →
        getLabelPc F L = getLabelPc (compileBranchCondition st reg e thenl elsel hasnext) L) :
    ∃ n site, run d (P0 F) F.consts n ⟨st.code.length, ρ, γ⟩ = some (.luaError site) :=
  (bcx_err d hd e st F reg thenl elsel hasnext ρ γ htop hloc hreg hok hev hF hK hlab).run

/-- **binary_operands_left_to_right** — the two operands of an arithmetic / relational operator
    (`b := reg; …KMV(Lhs); c := reg; …KMV(Rhs)`): the code is the left operand's code followed by the right operand's;
    a run passes through the midpoint behind the left operand's code, where the left operand field already denotes the
    left value (no instruction of the right operand has run yet), and at the end both fields denote the two values with
    every register below `reg` unchanged.  (With `lowering_total`: if the left operand raises, the error happens
    before any instruction of the right operand.) -/
theorem binary_operands_left_to_right {V : Type} (d : Dom V) (hd : d.Lawful) (l r : Cond)
    (st F : CState) (reg : Nat) (ρ γ : Nat → V) (x y : V)
    (htop : st.regTop ≤ reg) (hll : LocalsBelow reg l) (hlr : LocalsBelow reg r) (hreg : reg + max (rh l) (rh r + 1) < 256)
    (hx : CondSpec.eval d ρ γ l = some x) (hy : CondSpec.eval d ρ γ r = some y) (hok : ∀ L, LabelOK F L)
    (hF : (bops l r st reg).1.code <+: F.code) (hK : (bops l r st reg).1.consts <+: F.consts)
    (hlab : ∀ L, st.labelId ≤ L → L < (bops l r st reg).1.labelId → getLabelPc F L = getLabelPc (bops l r st reg).1 L) :
    (opr true l reg st).1.code <+: (bops l r st reg).1.code ∧
    ∃ ρ1 ρ2, Reaches d (P0 F) F.consts ⟨st.code.length, ρ, γ⟩ ⟨(opr true l reg st).1.code.length, ρ1, γ⟩ ∧
      rkValue d F.consts ρ1 (bops l r st reg).2.1 = some x ∧ (∀ z, z < reg → ρ1 z = ρ z) ∧
      Reaches d (P0 F) F.consts ⟨(opr true l reg st).1.code.length, ρ1, γ⟩ ⟨(bops l r st reg).1.code.length, ρ2, γ⟩ ∧
      (∀ z, z < reg → ρ2 z = ρ z) ∧
      rkValue d F.consts ρ2 (bops l r st reg).2.1 = some x ∧ rkValue d F.consts ρ2 (bops l r st reg).2.2 = some y :=
  bops_sem_mid d hd l r (comp_frame l).1 (comp_frame r).1 (value_main d hd l).1 (value_main d hd r).1
    st F reg ρ γ x y htop hll hlr hreg hx hy hok hF hK hlab

end Generic2

section Examples2
attribute [local instance] intNum

/-- a small LAWFUL value domain over the integer number structure (nil, booleans, numbers, strings; arithmetic only on
    numbers, `..` only on strings, `#` only on strings, `<` on numbers): for the non-vacuity of the total theorem. -/
inductive XV where
  | nil | bool (b : Bool) | num (n : Int) | str (s : String)
deriving DecidableEq

def exDom : Dom XV where
  nilV := .nil
  trueV := .bool true
  falseV := .bool false
  truthy := fun v => match v with | .nil => false | .bool false => false | _ => true
  num := .num
  str := .str
  eq := fun a b => some (decide (a = b))
  lt := fun a b => match a, b with | .num x, .num y => some (decide (x < y)) | _, _ => none
  le := fun a b => match a, b with | .num x, .num y => some (decide (x ≤ y)) | _, _ => none
  arith := fun op a b => match a, b with | .num x, .num y => some (.num (NumStruct.apply op x y)) | _, _ => none
  unm := fun a => match a with | .num x => some (.num (-x)) | _ => none
  len := fun a => match a with | .str s => some (.num s.length) | _ => none
  concat := fun a b => match a, b with | .str x, .str y => some (.str (x ++ y)) | _, _ => none

theorem exDom_lawful : exDom.Lawful :=
  ⟨rfl, rfl, rfl, fun _ => rfl, fun _ => rfl, fun _ _ _ => rfl, fun _ => rfl⟩

/-- non-vacuity of `lowering_total`: both branches occur — `l0 + 1 .. "x"` (with `..` binding tighter: `l0 + (1 .. "x")`
    is what we write) evaluates or raises depending on the register file. -/
example : CondSpec.eval exDom (fun _ => .num 2) (fun _ => .nil) (.arith .add (.loc 0) (.arith .mul (.num 2) (.num 3))) = some (.num 8) := by decide
example : CondSpec.eval exDom (fun _ => .nil) (fun _ => .nil) (.arith .add (.loc 0) (.arith .mul (.num 2) (.num 3))) = none := by decide
example : CondSpec.eval exDom (fun _ => .str "a") (fun _ => .nil) (.rel .lt (.len (.concat (.loc 0) (.str "bc"))) (.unm (.loc 1))) = none := by decide
example : CondSpec.eval exDom (fun i => if i = 0 then .str "a" else .num (-5)) (fun _ => .nil)
    (.rel .lt (.len (.concat (.loc 0) (.str "bc"))) (.unm (.loc 1))) = some (.bool true) := by decide

end Examples2

end GLua.Props.C01
