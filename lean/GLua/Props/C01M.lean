/-
  C01M — the mechanism check of C01 (`./check C01M`).  The property theorems are stated and proved in
  GLua/Props/C01.lean; this file re-exports them under the namespace the axiom audit scans.
-/
import GLua.Props.C01

namespace GLua.Props.C01M
open GLua

theorem constFold_sound {N : Type} (ops : ConstFold.NumOps N) (ρ : Nat → N) (e : ConstFold.Expr N) :
    ConstFold.eval ops ρ (ConstFold.constFold ops e).1 = ConstFold.eval ops ρ e := C01.constFold_sound ops ρ e
theorem constFold_rewrite_sound {N : Type} (ops : ConstFold.NumOps N) (ρ : Nat → N) (e : ConstFold.Expr N) :
    ConstFold.eval ops ρ (ConstFold.constFold ops e).2 = ConstFold.eval ops ρ e := C01.constFold_rewrite_sound ops ρ e
theorem fold_uses_runtime_arith : Generated.constFoldOps = Generated.numberArithOps := C01.fold_uses_runtime_arith
theorem luaModulo_body_is_modelled : Generated.luaModuloBody = ConstFold.luaModuloBodyModelled := C01.luaModulo_body_is_modelled
theorem luaModulo_int (a b : Int) (hb : b ≠ 0) : ConstFold.luaModuloInt a b = Int.fmod a b := C01.luaModulo_int a b hb


theorem constFold_literal_is_constant {N : Type} (ops : ConstFold.NumOps N) (e : ConstFold.Expr N)
    (h : ConstFold.allLiteral e = true) : ∃ v, ConstFold.lnumberValue ops (ConstFold.constFold ops e).1 = some v :=
  C01.constFold_literal_is_constant ops e h

section
variable [GLua.Compile.NumStruct]

open GLua.Compile GLua.MiniVM GLua.Lowering in
theorem branch_lowering_correct {V : Type} (d : Dom V) (hd : d.Lawful) (e : Cond) (hfrag : BCFrag e)
    (st F : CState) (reg thenl elsel : Nat) (ρ γ : Nat → V) (v : V)
    (htop : st.regTop ≤ reg) (hloc : LocalsBelow reg e) (hreg : reg + 1 < 256)
    (hev : CondSpec.eval d ρ γ e = some v)
    (hF : (compileBranchCondition st reg e thenl elsel false).code <+: F.code)
    (hK : (compileBranchCondition st reg e thenl elsel false).consts <+: F.consts)
    (hlab : ∀ L, st.labelId ≤ L → L < (compileBranchCondition st reg e thenl elsel false).labelId →
        getLabelPc F L = getLabelPc (compileBranchCondition st reg e thenl elsel false) L)
    (hthen : getLabelPc F thenl = lastPC (compileBranchCondition st reg e thenl elsel false))
    (helse : LabelOK F elsel) :
    ∃ ρ', Reaches d (P0 F) F.consts ⟨st.code.length, ρ, γ⟩
        ⟨if d.truthy v then tgt F thenl else tgt F elsel, ρ', γ⟩ ∧ ∀ x, x < reg → ρ' x = ρ x :=
  C01.branch_lowering_correct d hd e hfrag st F reg thenl elsel ρ γ v htop hloc hreg hev hF hK hlab hthen helse

open GLua.Compile GLua.MiniVM GLua.Lowering in
theorem value_lowering_correct {V : Type} (d : Dom V) (hd : d.Lawful) (e : Cond) (hfrag : BCFrag e)
    (st F : CState) (reg : Nat) (ec : ExpCtx) (ρ γ : Nat → V) (v : V)
    (htop : st.regTop ≤ reg) (hloc : LocalsBelow reg e) (hreg : reg + 1 < 256) (hdest : savereg ec reg ≤ reg)
    (hev : CondSpec.eval d ρ γ e = some v) (hok : ∀ L, LabelOK F L)
    (hF : (compileExpr st reg e ec).1.code <+: F.code)
    (hK : (compileExpr st reg e ec).1.consts <+: F.consts)
    (hlab : ∀ L, st.labelId ≤ L → L < (compileExpr st reg e ec).1.labelId →
        getLabelPc F L = getLabelPc (compileExpr st reg e ec).1 L) :
    ∃ ρ', Reaches d (P0 F) F.consts ⟨st.code.length, ρ, γ⟩ ⟨(compileExpr st reg e ec).1.code.length, ρ', γ⟩ ∧
      ρ' (savereg ec reg) = v ∧ ∀ x, x < reg → x ≠ savereg ec reg → ρ' x = ρ x :=
  C01.value_lowering_correct d hd e hfrag st F reg ec ρ γ v htop hloc hreg hdest hev hok hF hK hlab

theorem assign_locals_parallel : C01.AssignParallel Compile.compileAssignStmt := C01.assign_locals_parallel
theorem assign_locals_parallel_prefix_fails : ¬ C01.AssignParallel Compile.compileAssignStmtPreFix :=
  C01.assign_locals_parallel_prefix_fails


open GLua.Compile GLua.MiniVM GLua.Lowering in
theorem jump_threading_sound {V : Type} (d : Dom V) (orig : List Instr) (lp : List (Nat × Int)) (consts : List Konst)
    (pc : Nat) (sbx : Int) (ρ g : Nat → V) (res : Int) (hlab : ∀ L, -1 ≤ lookupLabel lp L)
    (hcur : orig[pc]? = some (.jmp sbx)) (h : threadJmp orig lp pc 5 (.jmp sbx) 0 = .ok res) :
    0 ≤ (pc : Int) + res + 1 ∧
      ReachesPlus d (resolveLabels orig lp) consts ⟨pc, ρ, g⟩ ⟨((pc : Int) + res + 1).toNat, ρ, g⟩ :=
  C01.jump_threading_sound d orig lp consts pc sbx ρ g res hlab hcur h

/-! ### the extended fragment (every expression of the model) -/

theorem fold_test_is_constFold (e : Compile.Cond) :
    Compile.lnum e = ConstFold.lnumberValue ConstFold.nsOps (ConstFold.constFold ConstFold.nsOps (ConstFold.toCF e)).1 :=
  C01.fold_test_is_constFold e

open GLua.Compile in
theorem fold_is_sound_for_the_manual {V : Type} (d : Dom V) (hd : d.Lawful) (ρ γ : Nat → V) (e : Cond) (x : NumStruct.N)
    (h : lnum e = some x) : CondSpec.eval d ρ γ e = some (d.num x) :=
  C01.fold_is_sound_for_the_manual d hd ρ γ e x h

open GLua.Compile GLua.MiniVM GLua.Lowering in
theorem value_lowering_correct_ext {V : Type} (d : Dom V) (hd : d.Lawful) (e : Cond)
    (st F : CState) (reg : Nat) (ec : ExpCtx) (ρ γ : Nat → V) (v : V)
    (htop : st.regTop ≤ reg) (hloc : LocalsBelow reg e) (hreg : reg + rh e < 256) (hdest : savereg ec reg ≤ reg)
    (hev : CondSpec.eval d ρ γ e = some v) (hok : ∀ L, LabelOK F L)
    (hF : (compileExpr st reg e ec).1.code <+: F.code)
    (hK : (compileExpr st reg e ec).1.consts <+: F.consts)
    (hlab : ∀ L, st.labelId ≤ L → L < (compileExpr st reg e ec).1.labelId →
        getLabelPc F L = getLabelPc (compileExpr st reg e ec).1 L) :
    ∃ ρ', Reaches d (P0 F) F.consts ⟨st.code.length, ρ, γ⟩ ⟨(compileExpr st reg e ec).1.code.length, ρ', γ⟩ ∧
      ρ' (savereg ec reg) = v ∧ ∀ x, x < reg → x ≠ savereg ec reg → ρ' x = ρ x :=
  C01.value_lowering_correct_ext d hd e st F reg ec ρ γ v htop hloc hreg hdest hev hok hF hK hlab

open GLua.Compile GLua.MiniVM GLua.Lowering in
theorem branch_lowering_correct_ext {V : Type} (d : Dom V) (hd : d.Lawful) (e : Cond)
    (st F : CState) (reg thenl elsel : Nat) (hasnext : Bool) (ρ γ : Nat → V) (v : V)
    (htop : st.regTop ≤ reg) (hloc : LocalsBelow reg e) (hreg : reg + rh e < 256) (hok : ∀ L, LabelOK F L)
    (hev : CondSpec.eval d ρ γ e = some v)
    (hF : (compileBranchCondition st reg e thenl elsel hasnext).code <+: F.code)
    (hK : (compileBranchCondition st reg e thenl elsel hasnext).consts <+: F.consts)
    (hlab : ∀ L, st.labelId ≤ L → L < (compileBranchCondition st reg e thenl elsel hasnext).labelId →
        getLabelPc F L = getLabelPc (compileBranchCondition st reg e thenl elsel hasnext) L) :
    ∃ ρ' pc', Reaches d (P0 F) F.consts ⟨st.code.length, ρ, γ⟩ ⟨pc', ρ', γ⟩ ∧ (∀ x, x < reg → ρ' x = ρ x) ∧
      BranchOut F thenl elsel hasnext (compileBranchCondition st reg e thenl elsel hasnext).code.length (d.truthy v) pc' :=
  C01.branch_lowering_correct_ext d hd e st F reg thenl elsel hasnext ρ γ v htop hloc hreg hok hev hF hK hlab

open GLua.Compile GLua.MiniVM GLua.Lowering in
theorem propagation_pops_only_the_operands_own_load (kmv : Bool) (c : Cond) (st : CState) (reg : Nat) (htop : st.regTop ≤ reg) :
    ((opr kmv c reg st).1.code = (comp c (.expr reg ecnone0) st).st.code ∧ (opr kmv c reg st).2.1 = reg ∧ (opr kmv c reg st).2.2 = reg + 1) ∨
    (∃ i, (comp c (.expr reg ecnone0) st).st.code = st.code ++ [i] ∧ (opr kmv c reg st).1.code = st.code ∧ i.argA = reg ∧
      (opr kmv c reg st).2.2 = reg ∧
      ((∃ r, c = .loc r ∧ i = .move reg r ∧ (opr kmv c reg st).2.1 = r) ∨
       (∃ k idx, konstOf c = some k ∧ kmv = true ∧ idx ≤ Generated.opMaxIndexRk ∧ i = .loadk reg idx ∧
          (opr kmv c reg st).1.consts[idx]? = some k ∧ (opr kmv c reg st).2.1 = idx + Generated.opBitRk))) :=
  C01.propagation_pops_only_the_operands_own_load kmv c st reg htop

open GLua.Compile GLua.MiniVM GLua.Lowering in
theorem operand_value_is_where_the_field_says {V : Type} (d : Dom V) (hd : d.Lawful) (kmv : Bool) (c : Cond)
    (st F : CState) (reg : Nat) (ρ γ : Nat → V) (vc : V)
    (htop : st.regTop ≤ reg) (hloc : LocalsBelow reg c) (hreg : reg + rh c < 256) (hev : CondSpec.eval d ρ γ c = some vc)
    (hok : ∀ L, LabelOK F L)
    (hF : (opr kmv c reg st).1.code <+: F.code) (hK : (opr kmv c reg st).1.consts <+: F.consts)
    (hlab : ∀ L, st.labelId ≤ L → L < (opr kmv c reg st).1.labelId → getLabelPc F L = getLabelPc (opr kmv c reg st).1 L) :
    ∃ ρ1, Reaches d (P0 F) F.consts ⟨st.code.length, ρ, γ⟩ ⟨(opr kmv c reg st).1.code.length, ρ1, γ⟩ ∧
      (∀ x, x < reg → ρ1 x = ρ x) ∧ rkValue d F.consts ρ1 (opr kmv c reg st).2.1 = some vc ∧
      ((opr kmv c reg st).2.1 < (opr kmv c reg st).2.2 ∨ 256 ≤ (opr kmv c reg st).2.1) :=
  C01.operand_value_is_where_the_field_says d hd kmv c st F reg ρ γ vc htop hloc hreg hev hok hF hK hlab

theorem lowering_total : C01.lowering_total_full := C01.lowering_total

open GLua.Compile GLua.MiniVM GLua.Lowering in
theorem branch_lowering_raises {V : Type} (d : Dom V) (hd : d.Lawful) (e : Cond)
    (st F : CState) (reg thenl elsel : Nat) (hasnext : Bool) (ρ γ : Nat → V)
    (htop : st.regTop ≤ reg) (hloc : LocalsBelow reg e) (hreg : reg + rh e < 256) (hok : ∀ L, LabelOK F L)
    (hev : CondSpec.eval d ρ γ e = none)
    (hF : (compileBranchCondition st reg e thenl elsel hasnext).code <+: F.code)
    (hK : (compileBranchCondition st reg e thenl elsel hasnext).consts <+: F.consts)
    (hlab : ∀ L, st.labelId ≤ L → L < (compileBranchCondition st reg e thenl elsel hasnext).labelId →
        getLabelPc F L = getLabelPc (compileBranchCondition st reg e thenl elsel hasnext) L) :
    ∃ n site, run d (P0 F) F.consts n ⟨st.code.length, ρ, γ⟩ = some (.luaError site) :=
  C01.branch_lowering_raises d hd e st F reg thenl elsel hasnext ρ γ htop hloc hreg hok hev hF hK hlab

open GLua.Compile GLua.MiniVM GLua.Lowering in
theorem binary_operands_left_to_right {V : Type} (d : Dom V) (hd : d.Lawful) (l r : Cond)
    (st F : CState) (reg : Nat) (ρ γ : Nat → V) (x y : V)
    (htop : st.regTop ≤ reg) (hll : LocalsBelow reg l) (hlr : LocalsBelow reg r) (hreg : reg + max (rh l) (rh r + 1) < 256)
    (hx : CondSpec.eval d ρ γ l = some x) (hy : CondSpec.eval d ρ γ r = some y) (hok : ∀ L, LabelOK F L)
    (hF : (bops l r st reg).1.code <+: F.code) (hK : (bops l r st reg).1.consts <+: F.consts)
    (hlab : ∀ L, st.labelId ≤ L → L < (bops l r st reg).1.labelId → getLabelPc F L = getLabelPc (bops l r st reg).1 L) :
    (opr true l reg st).1.code <+: (bops l r st reg).1.code ∧
    ∃ ρ1 ρ2, Reaches d (P0 F) F.consts ⟨st.code.length, ρ, γ⟩ ⟨(opr true l reg st).1.code.length, ρ1, γ⟩ ∧
      rkValue d F.consts ρ1 (bops l r st reg).2.1 = some x ∧ (∀ z, z < reg → ρ1 z = ρ z) ∧
      Reaches d (P0 F) F.consts ⟨(opr true l reg st).1.code.length, ρ1, γ⟩ ⟨(bops l r st reg).1.code.length, ρ2, γ⟩ ∧
      (∀ z, z < reg → ρ2 z = ρ z) ∧
      rkValue d F.consts ρ2 (bops l r st reg).2.1 = some x ∧ rkValue d F.consts ρ2 (bops l r st reg).2.2 = some y :=
  C01.binary_operands_left_to_right d hd l r st F reg ρ γ x y htop hll hlr hreg hx hy hok hF hK hlab

end

theorem constFold_again {N : Type} (ops : ConstFold.NumOps N) (e : ConstFold.Expr N) :
    ConstFold.lnumberValue ops (ConstFold.constFold ops (ConstFold.constFold ops e).1).1
        = ConstFold.lnumberValue ops (ConstFold.constFold ops e).1 ∧
    ConstFold.lnumberValue ops (ConstFold.constFold ops (ConstFold.constFold ops e).2).1
        = ConstFold.lnumberValue ops (ConstFold.constFold ops e).1 :=
  C01.constFold_again ops e

end GLua.Props.C01M
