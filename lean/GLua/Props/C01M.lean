/-
  C01M — the mechanism check of C01 (`./check C01M`).  The property theorems are stated and proved in
  GLua/Props/C01.lean; this file re-exports them under the namespace the axiom audit scans.
-/
import GLua.Props.C01

namespace GLua.Props.C01M
open GLua

theorem constFold_sound {N : Type} (ops : ConstFold.NumOps N) (ρ : Nat → N) (e : ConstFold.Expr N) :
    ConstFold.eval ops ρ (ConstFold.constFold ops e).1 = ConstFold.eval ops ρ e := C01.constFold_sound ops ρ e
theorem constFold_rewrite_sound {N : Type} (ops : ConstFold.NumOps N) (ρ : Nat → N) (e : ConstFold.Expr N) :
    ConstFold.eval ops ρ (ConstFold.constFold ops e).2 = ConstFold.eval ops ρ e := C01.constFold_rewrite_sound ops ρ e
theorem fold_uses_runtime_arith : Generated.constFoldOps = Generated.numberArithOps := C01.fold_uses_runtime_arith
theorem luaModulo_body_is_modelled : Generated.luaModuloBody = ConstFold.luaModuloBodyModelled := C01.luaModulo_body_is_modelled
theorem luaModulo_int (a b : Int) (hb : b ≠ 0) : ConstFold.luaModuloInt a b = Int.fmod a b := C01.luaModulo_int a b hb


theorem constFold_literal_is_constant {N : Type} (ops : ConstFold.NumOps N) (e : ConstFold.Expr N)
    (h : ConstFold.allLiteral e = true) : ∃ v, ConstFold.lnumberValue ops (ConstFold.constFold ops e).1 = some v :=
  C01.constFold_literal_is_constant ops e h

open GLua.Compile GLua.MiniVM GLua.Lowering in
theorem branch_lowering_correct {V : Type} (d : Dom V) (hd : d.Lawful) (e : Cond) (hfrag : BCFrag e)
    (st F : CState) (reg thenl elsel : Nat) (ρ γ : Nat → V) (v : V)
    (htop : st.regTop ≤ reg) (hloc : LocalsBelow reg e) (hreg : reg + 1 < 256)
    (hev : CondSpec.eval d ρ γ e = some v)
    (hF : (compileBranchCondition st reg e thenl elsel false).code <+: F.code)
    (hK : (compileBranchCondition st reg e thenl elsel false).consts <+: F.consts)
    (hlab : ∀ L, st.labelId ≤ L → L < (compileBranchCondition st reg e thenl elsel false).labelId →
        getLabelPc F L = getLabelPc (compileBranchCondition st reg e thenl elsel false) L)
    (hthen : getLabelPc F thenl = lastPC (compileBranchCondition st reg e thenl elsel false))
    (helse : LabelOK F elsel) :
    ∃ ρ', Reaches d (P0 F) F.consts ⟨st.code.length, ρ, γ⟩
        ⟨if d.truthy v then tgt F thenl else tgt F elsel, ρ', γ⟩ ∧ ∀ x, x < reg → ρ' x = ρ x :=
  C01.branch_lowering_correct d hd e hfrag st F reg thenl elsel ρ γ v htop hloc hreg hev hF hK hlab hthen helse

open GLua.Compile GLua.MiniVM GLua.Lowering in
theorem value_lowering_correct {V : Type} (d : Dom V) (hd : d.Lawful) (e : Cond) (hfrag : BCFrag e)
    (st F : CState) (reg : Nat) (ec : ExpCtx) (ρ γ : Nat → V) (v : V)
    (htop : st.regTop ≤ reg) (hloc : LocalsBelow reg e) (hreg : reg + 1 < 256) (hdest : savereg ec reg ≤ reg)
    (hev : CondSpec.eval d ρ γ e = some v) (hok : ∀ L, LabelOK F L)
    (hF : (compileExpr st reg e ec).1.code <+: F.code)
    (hK : (compileExpr st reg e ec).1.consts <+: F.consts)
    (hlab : ∀ L, st.labelId ≤ L → L < (compileExpr st reg e ec).1.labelId →
        getLabelPc F L = getLabelPc (compileExpr st reg e ec).1 L) :
    ∃ ρ', Reaches d (P0 F) F.consts ⟨st.code.length, ρ, γ⟩ ⟨(compileExpr st reg e ec).1.code.length, ρ', γ⟩ ∧
      ρ' (savereg ec reg) = v ∧ ∀ x, x < reg → x ≠ savereg ec reg → ρ' x = ρ x :=
  C01.value_lowering_correct d hd e hfrag st F reg ec ρ γ v htop hloc hreg hdest hev hok hF hK hlab

theorem assign_locals_parallel : C01.AssignParallel Compile.compileAssignStmt := C01.assign_locals_parallel
theorem assign_locals_parallel_prefix_fails : ¬ C01.AssignParallel Compile.compileAssignStmtPreFix :=
  C01.assign_locals_parallel_prefix_fails


open GLua.Compile GLua.MiniVM GLua.Lowering in
theorem jump_threading_sound {V : Type} (d : Dom V) (orig : List Instr) (lp : List (Nat × Int)) (consts : List Konst)
    (pc : Nat) (sbx : Int) (ρ g : Nat → V) (res : Int)
    (hcur : orig[pc]? = some (.jmp sbx)) (h : threadJmp orig lp pc 5 (.jmp sbx) 0 = .ok res) :
    0 ≤ (pc : Int) + res + 1 ∧
      ReachesPlus d (resolveLabels orig lp) consts ⟨pc, ρ, g⟩ ⟨((pc : Int) + res + 1).toNat, ρ, g⟩ :=
  C01.jump_threading_sound d orig lp consts pc sbx ρ g res hcur h

end GLua.Props.C01M
